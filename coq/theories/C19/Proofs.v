(* C19 - lemmas.  The CPython C API is a Section variable [A : ops obj] together
   with a denotation [den : obj -> pyval]; its documented contracts are Section
   hypotheses, so they are explicit premises of every theorem below. *)
From LLGoV Require Import C19.Model.
From LLGoV Require C12.Model C12.Proofs.
From Coq Require Import Lia ZifyBool.
Local Open Scope Z_scope.

(* ---------- integers ---------- *)

Lemma sgn64_wrap z : - 2 ^ 63 <= z < 2 ^ 63 -> sgn 64 (wrap 64 z) = z.
Proof.
  intros H. unfold sgn, wrap. change (64 - 1) with 63.
  destruct (Z_lt_dec z 0) as [N|N].
  - replace (z mod 2 ^ 64) with (z + 2 ^ 64).
    + destruct (z + 2 ^ 64 <? 2 ^ 63) eqn:E; lia.
    + symmetry. replace z with ((z + 2 ^ 64) + (-1) * 2 ^ 64) at 1 by lia.
      rewrite Z.mod_add by lia. apply Z.mod_small. lia.
  - rewrite Z.mod_small by lia. destruct (z <? 2 ^ 63) eqn:E; lia.
Qed.

Lemma sgn_small_range w z : (w = 8 \/ w = 16 \/ w = 32) -> in_range w z -> - 2 ^ 63 <= sgn w z < 2 ^ 63.
Proof.
  intros Hw H. unfold sgn, in_range in *. destruct Hw as [->|[->| ->]]; cbn in *;
    destruct (z <? _) eqn:E; lia.
Qed.

Lemma sext_value w z : (w = 8 \/ w = 16 \/ w = 32) -> in_range w z -> sgn 64 (sext w 64 z) = sgn w z.
Proof. intros Hw H. unfold sext. apply sgn64_wrap. now apply sgn_small_range. Qed.

Lemma sext_range w z : in_range 64 (sext w 64 z).
Proof. unfold sext. apply wrap_range. lia. Qed.

Lemma sext_trunc w z : (w = 8 \/ w = 16 \/ w = 32) -> in_range w z -> wrap w (sext w 64 z) = z.
Proof.
  intros Hw H. unfold sext, wrap, sgn, in_range in *.
  destruct Hw as [->|[->| ->]]; cbn in *; destruct (z <? _) eqn:E.
  - rewrite (Z.mod_small z) by lia. apply Z.mod_small. lia.
  - replace ((z - 256) mod 18446744073709551616) with (z - 256 + 18446744073709551616).
    + replace (z - 256 + 18446744073709551616) with (z + 72057594037927935 * 256) by lia.
      rewrite Z.mod_add by lia. apply Z.mod_small. lia.
    + symmetry. replace (z - 256) with (z - 256 + 18446744073709551616 + (-1) * 18446744073709551616) at 1 by lia.
      rewrite Z.mod_add by lia. apply Z.mod_small. lia.
  - rewrite (Z.mod_small z) by lia. apply Z.mod_small. lia.
  - replace ((z - 65536) mod 18446744073709551616) with (z - 65536 + 18446744073709551616).
    + replace (z - 65536 + 18446744073709551616) with (z + 281474976710655 * 65536) by lia.
      rewrite Z.mod_add by lia. apply Z.mod_small. lia.
    + symmetry. replace (z - 65536) with (z - 65536 + 18446744073709551616 + (-1) * 18446744073709551616) at 1 by lia.
      rewrite Z.mod_add by lia. apply Z.mod_small. lia.
  - rewrite (Z.mod_small z) by lia. apply Z.mod_small. lia.
  - replace ((z - 4294967296) mod 18446744073709551616) with (z - 4294967296 + 18446744073709551616).
    + replace (z - 4294967296 + 18446744073709551616) with (z + 4294967295 * 4294967296) by lia.
      rewrite Z.mod_add by lia. apply Z.mod_small. lia.
    + symmetry. replace (z - 4294967296) with (z - 4294967296 + 18446744073709551616 + (-1) * 18446744073709551616) at 1 by lia.
      rewrite Z.mod_add by lia. apply Z.mod_small. lia.
Qed.

(* ---------- lists ---------- *)

Lemma upd_app {A} (done : list A) a rest x : upd (done ++ a :: rest) (length done) x = done ++ x :: rest.
Proof. induction done as [|d done IH]; cbn; [reflexivity|]. now rewrite IH. Qed.

Section CAPI.
  Variable obj : Type.
  Variable A : ops obj.
  Variable den : obj -> pyval.
  Variable utf8_ok : bytes -> Prop.

  Hypothesis H_bool : forall v, den (o_bool A v) = PBool (negb (v =? 0)).
  Hypothesis H_ll : forall b, in_range 64 b -> den (o_ll A b) = PLong (sgn 64 b).
  Hypothesis H_ull : forall b, in_range 64 b -> den (o_ull A b) = PLong b.
  Hypothesis H_float : forall b, den (o_float A b) = PFloat b.
  Hypothesis H_unicode : forall s, utf8_ok s -> den (o_unicode A s) = PStr s.
  Hypothesis H_bytearray : forall s, den (o_bytearray A s) = PByteArray s.
  Hypothesis H_bytes : forall s, den (o_bytes A s) = PBytes s.
  Hypothesis H_list_new : forall n, 0 <= n -> den (o_list_new A n) = PList (repeat PNull (Z.to_nat n)).
  Hypothesis H_list_set : forall l xs i x, den l = PList xs -> 0 <= i < Z.of_nat (length xs) ->
    den (o_list_set A l i x) = PList (upd xs (Z.to_nat i) (den x)).
  Hypothesis H_tuple_new : forall n, 0 <= n -> den (o_tuple_new A n) = PTuple (repeat PNull (Z.to_nat n)).
  Hypothesis H_tuple_set : forall l xs i x, den l = PTuple xs -> 0 <= i < Z.of_nat (length xs) ->
    den (o_tuple_set A l i x) = PTuple (upd xs (Z.to_nat i) (den x)).
  Hypothesis H_as_ll : forall o z, den o = PLong z -> - 2 ^ 63 <= z < 2 ^ 63 -> o_as_ll A o = Some (wrap 64 z).
  Hypothesis H_as_ull : forall o z, den o = PLong z -> in_range 64 z -> o_as_ull A o = Some z.
  Hypothesis H_as_double : forall o b, den o = PFloat b -> o_as_double A o = Some b.

  (* signed integers of every width: Python sees the Go value, and reading it
     back and truncating to the width gives the original bit pattern *)
  Lemma int_signed w bits : wf_w w -> in_range w bits ->
    den (py_val_gen A (VInt w true bits)) = PLong (sgn w bits) /\
    exists r, o_as_ll A (py_val_gen A (VInt w true bits)) = Some r /\ wrap w r = bits.
  Proof.
    intros Hw H. cbn [py_val_gen].
    assert (D : den (o_ll A (if w <? 64 then sext w 64 bits else bits)) = PLong (sgn w bits)).
    { destruct Hw as [->|[->|[->| ->]]]; cbn [Z.ltb Z.compare Pos.compare Pos.compare_cont].
      - rewrite H_ll by apply sext_range. f_equal. apply sext_value; auto.
      - rewrite H_ll by apply sext_range. f_equal. apply sext_value; auto.
      - rewrite H_ll by apply sext_range. f_equal. apply sext_value; auto.
      - now rewrite H_ll. }
    split; [exact D|].
    exists (wrap 64 (sgn w bits)). split.
    - apply H_as_ll with (z := sgn w bits); [exact D|].
      destruct Hw as [->|[->|[->| ->]]]; [apply sgn_small_range; auto..|].
      unfold sgn, in_range in *. cbn in *. destruct (bits <? _) eqn:E; lia.
    - destruct Hw as [->|[->|[->| ->]]].
      + change (wrap 64 (sgn 8 bits)) with (sext 8 64 bits). apply sext_trunc; auto.
      + change (wrap 64 (sgn 16 bits)) with (sext 16 64 bits). apply sext_trunc; auto.
      + change (wrap 64 (sgn 32 bits)) with (sext 32 64 bits). apply sext_trunc; auto.
      + rewrite wrap_wrap. apply wrap_sgn; [unfold wf_w; auto|assumption].
  Qed.

  Lemma in_range_up w bits : wf_w w -> in_range w bits -> in_range 64 bits.
  Proof. intros Hw H. unfold in_range in *. destruct Hw as [->|[->|[->| ->]]]; cbn in *; lia. Qed.

  Lemma int_unsigned w bits : wf_w w -> in_range w bits ->
    den (py_val_gen A (VInt w false bits)) = PLong bits /\
    o_as_ull A (py_val_gen A (VInt w false bits)) = Some bits.
  Proof.
    intros Hw H. cbn [py_val_gen]. pose proof (in_range_up w bits Hw H) as H64.
    split; [now apply H_ull|]. apply H_as_ull with (z := bits); [now apply H_ull|assumption].
  Qed.

  (* the fixed lowering is the extended one, whatever was converted before *)
  Lemma int_signed_fixed first w bits : wf_w w -> in_range w bits ->
    den (py_val_of true first A (VInt w true bits)) = PLong (sgn w bits) /\
    exists r, o_as_ll A (py_val_of true first A (VInt w true bits)) = Some r /\ wrap w r = bits.
  Proof. exact (int_signed w bits). Qed.

  (* before the fix: a later conversion of a narrow signed integer passed the
     pattern without sign extension *)
  Lemma narrow_unextended_loses_sign :
    exists bits, in_range 8 bits /\ den (py_val_of false false A (VInt 8 true bits)) <> PLong (sgn 8 bits).
  Proof.
    exists 255. split; [unfold in_range; cbn; lia|]. cbn [py_val_of orb].
    rewrite H_ll by (unfold in_range; cbn; lia). cbn. discriminate.
  Qed.

  Lemma float_values b32 b64 :
    den (py_val_gen A (VF32 b32)) = PFloat (f32_widen b32) /\
    den (py_val_gen A (VF64 b64)) = PFloat b64 /\
    o_as_double A (py_val_gen A (VF64 b64)) = Some b64.
  Proof. cbn. rewrite !H_float. repeat split. apply H_as_double with (b := b64). apply H_float. Qed.

  Lemma string_bytes s : utf8_ok s -> den (py_val_gen A (VStr s)) = PStr s.
  Proof. intros H. cbn. now apply H_unicode. Qed.

  Lemma byte_slices s : den (py_val_gen A (VSlice s)) = PByteArray s /\ den (py_val_gen A (VArr s)) = PBytes s.
  Proof. cbn. now rewrite H_bytearray, H_bytes. Qed.

  Lemma bool_values b : den (py_val_gen A (VBool b)) = PBool b.
  Proof. cbn [py_val_gen]. rewrite H_bool. destruct b; reflexivity. Qed.

  (* building by index *)
  Lemma set_items_list : forall xs l done rest,
    den l = PList (done ++ rest) -> length rest = length xs ->
    den (set_items (o_list_set A) l (Z.of_nat (length done)) xs) = PList (done ++ map den xs).
  Proof.
    induction xs as [|x xs IH]; intros l done rest D L; cbn.
    - destruct rest; [|discriminate]. exact D.
    - destruct rest as [|r rest]; [discriminate|]. cbn in L.
      specialize (IH (o_list_set A l (Z.of_nat (length done)) x) (done ++ [den x]) rest).
      rewrite app_length in IH. cbn [length] in IH.
      replace (Z.of_nat (length done + 1)) with (Z.of_nat (length done) + 1) in IH by lia.
      rewrite IH; [now rewrite <- app_assoc| |lia].
      rewrite (H_list_set l (done ++ r :: rest) (Z.of_nat (length done)) x D).
      + rewrite Nat2Z.id, upd_app, <- app_assoc. reflexivity.
      + rewrite app_length. cbn [length]. lia.
  Qed.

  Lemma set_items_tuple : forall xs l done rest,
    den l = PTuple (done ++ rest) -> length rest = length xs ->
    den (set_items (o_tuple_set A) l (Z.of_nat (length done)) xs) = PTuple (done ++ map den xs).
  Proof.
    induction xs as [|x xs IH]; intros l done rest D L; cbn.
    - destruct rest; [|discriminate]. exact D.
    - destruct rest as [|r rest]; [discriminate|]. cbn in L.
      specialize (IH (o_tuple_set A l (Z.of_nat (length done)) x) (done ++ [den x]) rest).
      rewrite app_length in IH. cbn [length] in IH.
      replace (Z.of_nat (length done + 1)) with (Z.of_nat (length done) + 1) in IH by lia.
      rewrite IH; [now rewrite <- app_assoc| |lia].
      rewrite (H_tuple_set l (done ++ r :: rest) (Z.of_nat (length done)) x D).
      + rewrite Nat2Z.id, upd_app, <- app_assoc. reflexivity.
      + rewrite app_length. cbn [length]. lia.
  Qed.

  Lemma list_index_order vs :
    den (py_list_gen A vs) = PList (map (fun v => den (py_val_gen A v)) vs) /\
    den (py_tuple_gen A vs) = PTuple (map (fun v => den (py_val_gen A v)) vs).
  Proof.
    unfold py_list_gen, py_tuple_gen. split.
    - rewrite (set_items_list (map (py_val_gen A) vs) _ [] (repeat PNull (length vs))).
      + cbn. now rewrite map_map.
      + cbn. rewrite H_list_new by lia. now rewrite Nat2Z.id.
      + now rewrite repeat_length, map_length.
    - rewrite (set_items_tuple (map (py_val_gen A) vs) _ [] (repeat PNull (length vs))).
      + cbn. now rewrite map_map.
      + cbn. rewrite H_tuple_new by lia. now rewrite Nat2Z.id.
      + now rewrite repeat_length, map_length.
  Qed.
End CAPI.

(* ---------- calls ---------- *)

Lemma upto_null_some {obj} (l : list obj) r : upto_null (map Some l ++ None :: r) = l.
Proof. induction l as [|x l IH]; cbn; [reflexivity|]. now rewrite IH. Qed.

Lemma call_delivers {obj} nparams variadic (f : obj) args :
  (variadic = false -> length args = nparams) -> (variadic = true -> (1 <= nparams)%nat) ->
  delivered (py_call nparams variadic f args) = args.
Proof.
  intros Hn Hv. unfold py_call.
  destruct nparams as [|[|n]].
  - destruct variadic; [specialize (Hv eq_refl); lia|]. specialize (Hn eq_refl).
    destruct args; [reflexivity|discriminate].
  - destruct variadic.
    + cbn. apply upto_null_some.
    + specialize (Hn eq_refl). destruct args as [|a [|b args]]; try discriminate. reflexivity.
  - cbn. destruct variadic; apply upto_null_some.
Qed.

Lemma call_sentinel {obj} nparams variadic (f : obj) args : (2 <= nparams)%nat \/ (variadic = true /\ (1 <= nparams)%nat) ->
  py_call nparams variadic f args = CallObjArgs f (map Some args ++ [None]).
Proof.
  intros [H|[-> H]]; unfold py_call; destruct nparams as [|[|n]]; try lia; reflexivity.
Qed.

(* the whole path from the Go call: fixed arguments, then the variadic ones *)
Lemma go_call_delivers {obj} nparams variadic valist (f : obj) fixed var :
  (variadic = false -> length fixed = nparams /\ var = []) ->
  (variadic = true -> valist = true /\ (1 <= nparams)%nat) ->
  delivered (py_call nparams variadic (AObj f) (lower_args variadic valist fixed var)) = map AObj (fixed ++ var).
Proof.
  intros Hn Hv. rewrite call_delivers.
  - unfold lower_args. destruct variadic.
    + destruct (Hv eq_refl) as [-> _]. now rewrite map_app.
    + destruct (Hn eq_refl) as [_ ->]. now rewrite !app_nil_r.
  - intros ->. destruct (Hn eq_refl) as [H ->]. unfold lower_args. now rewrite app_nil_r, map_length.
  - intros ->. now destruct (Hv eq_refl).
Qed.

Lemma plain_variadic_not_delivered :
  exists (fixed var : list Z), delivered (py_call 1 true (AObj 0) (lower_args true false fixed var)) <> map AObj (fixed ++ var).
Proof. exists [], [1; 2; 3]. cbn. discriminate. Qed.

(* ---------- module variables ---------- *)

Lemma memZ_In x l : memZ x l = true <-> In x l.
Proof.
  unfold memZ. rewrite existsb_exists. split.
  - intros [y [Hy E]]. apply Z.eqb_eq in E. now subst.
  - intros H. exists x. split; [assumption|apply Z.eqb_refl].
Qed.

Definition pev_eq_dec (a b : pev) : {a = b} + {a <> b}.
Proof. decide equality; apply Z.eq_dec. Defined.
Arguments pev_eq_dec : simpl never.

(* a module is imported at most once, whatever the order of the package bodies *)
Lemma import_at_most_once m : forall bs imported,
  (count_occ pev_eq_dec (run_bodies imported bs) (EvImport m) <= 1)%nat /\
  (memZ m imported = true -> count_occ pev_eq_dec (run_bodies imported bs) (EvImport m) = 0%nat).
Proof.
  assert (U : forall ms l, count_occ pev_eq_dec (map EvUse ms ++ l) (EvImport m) = count_occ pev_eq_dec l (EvImport m)).
  { induction ms as [|x ms IH]; intros l; cbn; [reflexivity|].
    destruct (pev_eq_dec (EvUse x) (EvImport m)); [discriminate|apply IH]. }
  induction bs as [|b bs IH]; intros imported; cbn.
  - split; auto.
  - destruct b as [k|ms|].
    + destruct (memZ k imported) eqn:E; [apply IH|]. cbn.
      destruct (pev_eq_dec (EvImport k) (EvImport m)) as [Heq|Hne].
      * inversion Heq; subst k. destruct (IH (m :: imported)) as [_ I2].
        rewrite I2 by (unfold memZ; cbn; now rewrite Z.eqb_refl). split; [lia|]. intros H. congruence.
      * destruct (IH (k :: imported)) as [I1 I2]. split; [exact I1|].
        intros H. apply I2. unfold memZ in *. cbn. rewrite H. apply orb_true_r.
    + rewrite U. apply IH.
    + apply IH.
Qed.

Lemma import_exactly_once m : forall bs imported, memZ m imported = false -> In (BBind m) bs ->
  count_occ pev_eq_dec (run_bodies imported bs) (EvImport m) = 1%nat.
Proof.
  assert (U : forall ms l, count_occ pev_eq_dec (map EvUse ms ++ l) (EvImport m) = count_occ pev_eq_dec l (EvImport m)).
  { induction ms as [|x ms IH]; intros l; cbn; [reflexivity|].
    destruct (pev_eq_dec (EvUse x) (EvImport m)); [discriminate|apply IH]. }
  induction bs as [|b bs IH]; intros imported Hm Hin; [destruct Hin|]. cbn.
  destruct b as [k|ms|].
  - destruct (Z.eq_dec k m) as [->|N].
    + rewrite Hm. cbn. destruct (pev_eq_dec (EvImport m) (EvImport m)); [|congruence].
      destruct (import_at_most_once m bs (m :: imported)) as [_ I2].
      rewrite I2; [reflexivity|]. unfold memZ. cbn. now rewrite Z.eqb_refl.
    + destruct Hin as [H|Hin]; [inversion H; congruence|].
      destruct (memZ k imported) eqn:E; [now apply IH|]. cbn.
      destruct (pev_eq_dec (EvImport k) (EvImport m)) as [H|_]; [inversion H; congruence|].
      apply IH; [|assumption]. unfold memZ in *. cbn. rewrite Hm.
      assert (m =? k = false) as -> by (apply Z.eqb_neq; congruence). reflexivity.
  - destruct Hin as [H|Hin]; [discriminate|]. rewrite U. now apply IH.
  - destruct Hin as [H|Hin]; [discriminate|]. now apply IH.
Qed.

(* every use of a module comes after its import, provided a binding package of
   the module precedes the using package in the order of bodies *)
Lemma use_after_import : forall bs imported,
  (forall l1 ms l2, bs = l1 ++ BUse ms :: l2 -> forall m, In m ms -> In (BBind m) l1 \/ memZ m imported = true) ->
  forall e1 m e2, run_bodies imported bs = e1 ++ EvUse m :: e2 -> In (EvImport m) e1 \/ memZ m imported = true.
Proof.
  induction bs as [|b bs IH]; intros imported H e1 m e2 E; cbn in E.
  - destruct e1; discriminate.
  - destruct b as [k|ms|].
    + destruct (memZ k imported) eqn:Ek.
      * apply (IH imported) with (e2 := e2); [|exact E].
        intros l1 ms l2 Hb x Hx. destruct (H (BBind k :: l1) ms l2) with (m := x) as [[H1|H1]|H1]; subst; cbn; auto.
        inversion H1; subst. now right.
      * destruct e1 as [|e e1]; cbn in E; inversion E; subst.
        destruct (IH (k :: imported)) with (e1 := e1) (m := m) (e2 := e2) as [H1|H1]; auto.
        -- intros l1 ms l2 Hb x Hx. destruct (H (BBind k :: l1) ms l2) with (m := x) as [[H1|H1]|H1]; subst; cbn; auto.
           ++ inversion H1; subst. right. unfold memZ. cbn. now rewrite Z.eqb_refl.
           ++ right. unfold memZ in *. cbn. rewrite H1. apply orb_true_r.
        -- left. now right.
        -- unfold memZ in H1. cbn in H1. apply orb_true_iff in H1 as [H1|H1].
           ++ apply Z.eqb_eq in H1. subst. left. now left.
           ++ now right.
    + apply C12.Proofs.app_split in E as [[k [E1 E2]]|[k [E1 E2]]].
      * (* the use is one of this package's own *)
        assert (Hm : In m ms).
        { assert (In (EvUse m) (map EvUse ms)) by (rewrite E1; apply in_app_iff; right; now left).
          apply in_map_iff in H0 as [x [Hx1 Hx2]]. now inversion Hx1; subst. }
        destruct (H [] ms bs eq_refl m Hm) as [[]|H1]. now right.
      * subst e1. destruct (IH imported) with (e1 := k) (m := m) (e2 := e2) as [H1|H1]; auto.
        -- intros l1 ms' l2 Hb x Hx. destruct (H (BUse ms :: l1) ms' l2) with (m := x) as [[H1|H1]|H1]; subst; cbn; auto.
           discriminate.
        -- left. apply in_app_iff. now right.
    + apply (IH imported) with (e2 := e2); [|exact E].
      intros l1 ms l2 Hb x Hx. destruct (H (BPlain :: l1) ms l2) with (m := x) as [[H1|H1]|H1]; subst; cbn; auto.
      discriminate.
Qed.

(* whole programs: the order of bodies is the one C12 proves for the init functions *)
Lemma roles_of_app roles l1 l2 : roles_of roles (l1 ++ l2) = roles_of roles l1 ++ roles_of roles l2.
Proof. unfold roles_of. apply flat_map_app. Qed.

Lemma roles_of_In roles tr r : In r (roles_of roles tr) -> exists p, In (C12.Model.EMain p) tr /\ nth p roles BPlain = r.
Proof.
  unfold roles_of. rewrite in_flat_map. intros [e [He Hr]]. destruct e as [p|p]; [|destruct Hr].
  destruct Hr as [Hr|[]]. eauto.
Qed.

Lemma roles_split roles : forall tr l1 r l2, roles_of roles tr = l1 ++ r :: l2 ->
  exists t1 p t2, tr = t1 ++ C12.Model.EMain p :: t2 /\ roles_of roles t1 = l1 /\ nth p roles BPlain = r.
Proof.
  induction tr as [|e tr IH]; intros l1 r l2 H; [destruct l1; discriminate|].
  destruct e as [p|p].
  - change (roles_of roles (C12.Model.EMain p :: tr)) with (nth p roles BPlain :: roles_of roles tr) in H.
    destruct l1 as [|x l1]; cbn in H; inversion H; subst.
    + exists [], p, tr. auto.
    + destruct (IH _ _ _ H2) as [t1 [q [t2 [E1 [E2 E3]]]]]. exists (C12.Model.EMain p :: t1), q, t2.
      subst. repeat split.
  - change (roles_of roles (C12.Model.EOrig p :: tr)) with (roles_of roles tr) in H.
    destruct (IH _ _ _ H) as [t1 [q [t2 [E1 [E2 E3]]]]]. exists (C12.Model.EOrig p :: t1), q, t2.
    subst. repeat split.
Qed.

Lemma nodup_split_unique {A} (x : A) : forall t1 t2 s k,
  NoDup (t1 ++ x :: t2) -> t1 ++ x :: t2 = s ++ x :: k -> t1 = s /\ t2 = k.
Proof.
  induction t1 as [|a t1 IH]; intros t2 s k N E.
  - destruct s as [|c s]; cbn in *; inversion E; subst; [auto|].
    exfalso. inversion N as [|? ? Hn _]; subst. apply Hn. apply in_app_iff. right. now left.
  - destruct s as [|c s]; cbn in *; inversion E; subst.
    + exfalso. inversion N as [|? ? Hn _]; subst. apply Hn. apply in_app_iff. right. now left.
    + inversion N as [|? ? _ Hn]; subst. destruct (IH t2 s k Hn H1) as [-> ->]. auto.
Qed.

Lemma program_use_after_import g roots roles :
  C12.Model.wf g = true -> Forall (fun r => (r < length g)%nat) roots ->
  (* every package that uses module m imports a binding package of m *)
  (forall u pk ms m, nth_error g u = Some pk -> nth u roles BPlain = BUse ms -> In m ms ->
      exists b, In b (C12.Model.eff g (C12.Model.pk_imps pk)) /\ nth b roles BPlain = BBind m) ->
  forall e1 m e2, init_events g roots roles = e1 ++ EvUse m :: e2 -> In (EvImport m) e1.
Proof.
  intros W HR HU e1 m e2 E. unfold init_events in E.
  destruct (use_after_import (roles_of roles (C12.Model.exec g roots)) []) with (e1 := e1) (m := m) (e2 := e2) as [H|H]; auto; [|discriminate].
  intros l1 ms l2 Hs x Hx. left.
  destruct (roles_split roles _ _ _ _ Hs) as [t1 [u [t2 [Et [E1 E2]]]]].
  assert (Hin : In (C12.Model.EMain u) (C12.Model.exec g roots)) by (rewrite Et; apply in_app_iff; right; now left).
  destruct (C12.Proofs.only_reachable g roots u W HR Hin) as [r [Hr R]].
  assert (Hu : (u < length g)%nat) by (eapply C12.Proofs.reach_lt; eauto).
  destruct (nth_error g u) as [pk|] eqn:Eu; [|apply nth_error_None in Eu; lia].
  destruct (HU u pk ms x Eu E2 Hx) as [b [Hb Rb]].
  destruct (C12.Proofs.deps_first g roots r u pk b W HR Hr R Eu Hb) as [k1 [k2 [k3 Ek]]].
  (* the trace has no duplicates, so the two decompositions agree on what precedes u *)
  assert (N : NoDup (C12.Model.exec g roots)) by (now apply C12.Proofs.exec_NoDup).
  assert (Hb1 : In (C12.Model.EMain b) t1).
  { rewrite Et in Ek. rewrite Et in N.
    assert (In (C12.Model.EMain b) (t1 ++ C12.Model.EMain u :: t2)) by (rewrite Ek; apply in_app_iff; right; now left).
    apply in_app_iff in H as [H|[H|H]]; [assumption| |].
    - inversion H; subst b. exfalso. rewrite Ek in N. apply NoDup_remove_2 in N. apply N.
      apply in_app_iff. right. apply in_app_iff. right. now left.
    - exfalso.
      (* b after u in one decomposition, before u in the other *)
      assert (E' : k1 ++ C12.Model.EMain b :: k2 ++ C12.Model.EMain u :: k3 = (k1 ++ C12.Model.EMain b :: k2) ++ C12.Model.EMain u :: k3)
        by (now rewrite <- app_assoc).
      rewrite E' in Ek.
      assert (Hk : t1 = k1 ++ C12.Model.EMain b :: k2 /\ t2 = k3) by (eapply nodup_split_unique; eauto).
      destruct Hk as [Hk1 Hk2]. subst t2. rewrite Hk1 in N.
      rewrite <- app_assoc in N. cbn in N. apply NoDup_remove_2 in N. apply N.
      apply in_app_iff. right. apply in_app_iff. right. right. exact H. }
  rewrite <- E1. apply in_split in Hb1 as [s1 [s2 ->]]. rewrite roles_of_app.
  apply in_app_iff. right.
  change (roles_of roles (C12.Model.EMain b :: s2)) with (nth b roles BPlain :: roles_of roles s2).
  left. exact Rb.
Qed.

(* ---------- pyLoadModSyms ---------- *)

Lemma name_eqb_eq a b : name_eqb a b = true <-> a = b.
Proof.
  split.
  - apply list_eqb_eq. intros x y H. now apply Z.eqb_eq.
  - intros ->. apply list_eqb_refl. apply Z.eqb_refl.
Qed.

Lemma insert_In x l y : In y (insert_name x l) <-> y = x \/ In y l.
Proof.
  induction l as [|z l IH]; cbn; [intuition|].
  destruct (name_leb x z); cbn; [intuition|]. rewrite IH. intuition.
Qed.

Lemma sort_In l y : In y (sort_names l) <-> In y l.
Proof.
  induction l as [|x l IH]; cbn; [tauto|]. unfold sort_names in *. cbn. rewrite insert_In, IH. intuition.
Qed.

Lemma runs_cover : forall l last n, In n l -> In (mod_of n) (runs last l) \/ last = Some (mod_of n).
Proof.
  induction l as [|x l IH]; intros last n H; [destruct H|]. cbn.
  destruct (option_eqb name_eqb last (Some (mod_of x))) eqn:E.
  - destruct H as [->|H].
    + right. destruct last as [m|]; cbn in E; [|discriminate]. apply name_eqb_eq in E. now subst.
    + apply IH, H.
  - destruct H as [->|H]; [left; now left|].
    destruct (IH (Some (mod_of x)) n H) as [H1|H1]; [left; now right|].
    inversion H1. left. now left.
Qed.

Lemma all_loaded names n : In n names ->
  exists syms, In (mod_of n, syms) (load_mod_syms names) /\ In n syms.
Proof.
  intros H. unfold load_mod_syms. apply sort_In in H.
  exists (filter (fun x => name_eqb (mod_of x) (mod_of n)) (sort_names names)). split.
  - apply in_map_iff. exists (mod_of n). split; [reflexivity|].
    destruct (runs_cover (sort_names names) None n H) as [H1|H1]; [assumption|discriminate].
  - apply filter_In. split; [assumption|]. now apply name_eqb_eq.
Qed.

Lemma grouping_not_contiguous :
  exists names, NoDup names /\ ~ NoDup (map fst (load_mod_syms names)).
Proof.
  (* a.az, a.b.y, a.x *)
  exists [[97; 46; 97; 122]; [97; 46; 98; 46; 121]; [97; 46; 120]]. split.
  - repeat constructor; cbn; intuition discriminate.
  - vm_compute. intros N. inversion N as [|? ? H1 H2]; subst. apply H1. right. now left.
Qed.

(* ---------- float32 -> float64 ---------- *)

Lemma dec64 s E F : 0 <= s <= 1 -> 0 <= E < 2048 -> 0 <= F < 4503599627370496 ->
  let W := s * 9223372036854775808 + E * 4503599627370496 + F in
  W / 9223372036854775808 = s /\ (W / 4503599627370496) mod 2048 = E /\ W mod 4503599627370496 = F.
Proof.
  intros Hs HE HF W. subst W. repeat split.
  - replace (s * 9223372036854775808 + E * 4503599627370496 + F) with (E * 4503599627370496 + F + s * 9223372036854775808) by lia.
    rewrite Z.div_add by lia. rewrite Z.div_small by lia. lia.
  - replace (s * 9223372036854775808 + E * 4503599627370496 + F) with (F + (s * 2048 + E) * 4503599627370496) by lia.
    rewrite Z.div_add by lia. rewrite Z.div_small by lia. cbn [Z.add].
    replace (s * 2048 + E) with (E + s * 2048) by lia. rewrite Z.mod_add by lia. apply Z.mod_small. lia.
  - replace (s * 9223372036854775808 + E * 4503599627370496 + F) with (F + (s * 2048 + E) * 4503599627370496) by lia.
    rewrite Z.mod_add by lia. apply Z.mod_small. lia.
Qed.

Ltac norm_pows :=
  change (2 ^ (11 + 52)) with 9223372036854775808 in *; change (2 ^ 63) with 9223372036854775808 in *;
  change (2 ^ 52) with 4503599627370496 in *; change (2 ^ 11) with 2048 in *;
  change (2 ^ (11 - 1)) with 1024 in *; change (2 ^ 29) with 536870912 in *;
  change (2 ^ 22) with 4194304 in *; change (2 ^ 51) with 2251799813685248 in *.

Lemma f32_widen_exact b : in_range 32 b -> fval_same (f64_decode (f32_widen b)) (f32_decode b).
Proof.
  intros H. unfold in_range in H. change (2 ^ 32) with 4294967296 in H.
  unfold f32_widen, f32_decode. unfold f_decode.
  change (2 ^ (8 + 23)) with (2 ^ 31).
  set (s := b / 2 ^ 31). set (e := (b / 2 ^ 23) mod 2 ^ 8). set (f := b mod 2 ^ 23).
  assert (Hs : 0 <= s <= 1).
  { subst s. change (2 ^ 31) with 2147483648. split; [apply Z.div_pos; lia|].
    assert (b / 2147483648 < 2) by (apply Z.div_lt_upper_bound; lia). lia. }
  assert (He : 0 <= e < 256) by (subst e; change (2 ^ 8) with 256; apply Z.mod_pos_bound; lia).
  assert (Hf : 0 <= f < 8388608) by (subst f; change (2 ^ 23) with 8388608; apply Z.mod_pos_bound; lia).
  clearbody s e f. clear H b.
  change (2 ^ 8 - 1) with 255. change (2 ^ (8 - 1) - 1) with 127. change (2 ^ 23) with 8388608.
  unfold f64_decode, f_decode. norm_pows.
  destruct (e =? 255) eqn:E255.
  - (* inf / nan *)
    destruct (f =? 0) eqn:F0.
    + destruct (dec64 s 2047 0) as [D1 [D2 D3]]; try lia.
      cbv zeta in D1, D2, D3. rewrite D1, D2, D3. cbn. reflexivity.
    + set (F := f * 536870912 + (if f <? 4194304 then 2251799813685248 else 0)).
      assert (HF : 0 < F < 4503599627370496) by (subst F; destruct (f <? 4194304) eqn:Q; lia).
      destruct (dec64 s 2047 F) as [D1 [D2 D3]]; try lia.
      cbv zeta in D1, D2, D3. rewrite D2, D3. cbn [Z.eqb Pos.eqb Z.sub Z.add Z.opp Z.pos_sub Pos.pred_double Z.succ_double Z.pred_double Z.double].
      change (2048 - 1) with 2047. cbn [Z.eqb Pos.eqb].
      assert (F =? 0 = false) as -> by lia. exact I.
  - destruct (e =? 0) eqn:E0.
    + destruct (f =? 0) eqn:F0.
      * destruct (dec64 s 0 0) as [D1 [D2 D3]]; try lia. cbv zeta in D1, D2, D3.
        replace (s * 9223372036854775808) with (s * 9223372036854775808 + 0 * 4503599627370496 + 0) by lia.
        rewrite D1, D2, D3. change (2048 - 1) with 2047. cbn [Z.eqb].
        assert (f = 0) as -> by lia. cbn. split; [reflexivity|lia].
      * (* subnormal *)
        set (k := Z.log2 f).
        assert (Hk : 2 ^ k <= f < 2 ^ (k + 1)) by (subst k; apply (Z.log2_spec f); lia).
        assert (Hk0 : 0 <= k) by (subst k; apply Z.log2_nonneg).
        assert (Hk22 : k <= 22).
        { destruct (Z_le_gt_dec k 22); [assumption|]. exfalso.
          assert (2 ^ 23 <= 2 ^ k) by (apply Z.pow_le_mono_r; lia). change (2 ^ 23) with 8388608 in *. lia. }
        clearbody k.
        assert (PQ : 2 ^ k * 2 ^ (52 - k) = 4503599627370496).
        { rewrite <- Z.pow_add_r by lia. replace (k + (52 - k)) with 52 by lia. reflexivity. }
        assert (PQ1 : 2 ^ (k + 1) = 2 * 2 ^ k) by (rewrite Z.pow_add_r by lia; lia).
        assert (Pp : 0 < 2 ^ (52 - k)) by (apply Z.pow_pos_nonneg; lia).
        set (P := 2 ^ (52 - k)) in *. set (Q := 2 ^ k) in *.
        assert (HF : 0 <= f * P - 4503599627370496 < 4503599627370496) by nia.
        destruct (dec64 s (k - 149 + 1023) (f * P - 4503599627370496)) as [D1 [D2 D3]]; try lia.
        cbv zeta in D1, D2, D3. rewrite D1, D2, D3. change (2048 - 1) with 2047. change (1024 - 1) with 1023.
        assert ((k - 149 + 1023 =? 2047) = false) as -> by lia.
        assert ((k - 149 + 1023 =? 0) = false) as -> by lia.
        cbn [fval_same]. split; [reflexivity|].
        replace (Z.min (k - 149 + 1023 - 1023 - 52) (1 - 127 - 23)) with (k - 149 + 1023 - 1023 - 52) by lia.
        replace (k - 149 + 1023 - 1023 - 52 - (k - 149 + 1023 - 1023 - 52)) with 0 by lia.
        replace (1 - 127 - 23 - (k - 149 + 1023 - 1023 - 52)) with (52 - k) by lia.
        fold P. lia.
    + (* normal *)
      assert (HF : 0 <= f * 536870912 < 4503599627370496) by lia.
      destruct (dec64 s (e - 127 + 1023) (f * 536870912)) as [D1 [D2 D3]]; try lia.
      cbv zeta in D1, D2, D3. rewrite D1, D2, D3. change (2048 - 1) with 2047. change (1024 - 1) with 1023.
      assert ((e - 127 + 1023 =? 2047) = false) as -> by lia.
      assert ((e - 127 + 1023 =? 0) = false) as -> by lia.
      cbn [fval_same]. split; [reflexivity|].
      replace (Z.min (e - 127 + 1023 - 1023 - 52) (e - 127 - 23)) with (e - 127 + 1023 - 1023 - 52) by lia.
      replace (e - 127 + 1023 - 1023 - 52 - (e - 127 + 1023 - 1023 - 52)) with 0 by lia.
      replace (e - 127 - 23 - (e - 127 + 1023 - 1023 - 52)) with 29 by lia.
      change (2 ^ 29) with 536870912. lia.
Qed.

(* ---------- statements assembled for Props.v ---------- *)

Lemma module_once : forall m bs,
  (count_occ pev_eq_dec (run_bodies [] bs) (EvImport m) <= 1)%nat /\
  (In (BBind m) bs -> count_occ pev_eq_dec (run_bodies [] bs) (EvImport m) = 1%nat).
Proof.
  intros m bs. split; [apply (import_at_most_once m bs [])|].
  intros H. apply import_exactly_once; [reflexivity|assumption].
Qed.

Lemma module_once_before_use : forall g roots roles,
  C12.Model.wf g = true -> Forall (fun r => (r < length g)%nat) roots ->
  (forall u pk ms m, nth_error g u = Some pk -> nth u roles BPlain = BUse ms -> In m ms ->
      exists b, In b (C12.Model.eff g (C12.Model.pk_imps pk)) /\ nth b roles BPlain = BBind m) ->
  forall e1 m e2, init_events g roots roles = e1 ++ EvUse m :: e2 ->
    In (EvImport m) e1 /\ count_occ pev_eq_dec (init_events g roots roles) (EvImport m) = 1%nat.
Proof.
  intros g roots roles W HR HU e1 m e2 E.
  pose proof (program_use_after_import g roots roles W HR HU e1 m e2 E) as H. split; [exact H|].
  unfold init_events in *. destruct (import_at_most_once m (roles_of roles (C12.Model.exec g roots)) []) as [H1 _].
  assert (In (EvImport m) (run_bodies [] (roles_of roles (C12.Model.exec g roots)))) as Hin
    by (rewrite E; apply in_app_iff; now left).
  apply (count_occ_In pev_eq_dec) in Hin. lia.
Qed.
