(* C16 - the go tool's embedding rules, written from the documentation of package
   embed and of cmd/go (not from the algorithm in goembed.go).  Only the
   primitive judgements on names and patterns are shared with the model:
   pm (does a glob element match a name), bad_name, hidden, has_gomod, stat. *)
From LLGoV Require Import C16.Model.
Local Open Scope N_scope.

(* A pattern, split at slashes, selects a path of directory entries below the
   package directory: every pattern element matches the entry name at its
   level, and every entry but the last can be entered (Stat says directory). *)
Inductive Selects : node -> list str -> list (str * node) -> Prop :=
| Sel_last : forall n c name child,
    In (name, child) (entries n) -> pm c name = true ->
    Selects n [c] [(name, child)]
| Sel_step : forall n c c2 rest name child chain,
    In (name, child) (entries n) -> pm c name = true ->
    Selects child (c2 :: rest) chain ->
    Selects n (c :: c2 :: rest) ((name, child) :: chain).

(* Walking a matched directory keeps an entry unless its name could not be
   part of a module, or it starts with . or _ and the pattern has no all: *)
Definition keeps (all : bool) (name : str) : Prop :=
  bad_name name = false /\ (hidden name = true -> all = true).

(* file [names] with contents [d] lies below a directory with entries [es] *)
Inductive Below (all : bool) : list (str * node) -> list str -> str -> Prop :=
| Below_file : forall es name d,
    In (name, File d) es -> keeps all name -> Below all es [name] d
| Below_dir : forall es name es' names d,
    In (name, Dir es') es -> keeps all name -> has_gomod (Dir es') = false ->
    Below all es' names d -> Below all es (name :: names) d.

(* what one selected entry contributes *)
Inductive Gives (all : bool) : list (str * node) -> str -> str -> Prop :=
| Gives_file : forall chain name d,
    last chain ([], Irreg) = (name, File d) -> Gives all chain (rel_of chain) d
| Gives_dir : forall chain name es names d,
    last chain ([], Irreg) = (name, Dir es) -> has_gomod (Dir es) = false ->
    Below all es names d ->
    Gives all chain (rel_of chain ++ SLASH :: join_slash names) d.

(* the file [path] with contents [d] is embedded for the pattern list *)
Definition Embeds (root : node) (pats : list str) (path d : str) : Prop :=
  exists pat chain, In pat pats /\
    Selects root (split_slash (snd (cut_all pat))) chain /\
    Gives (fst (cut_all pat)) chain path d.

(* cmd/go: every proper prefix of the selected path must be a directory itself
   (not, for instance, a symbolic link to one) *)
Definition ThroughLink (chain : list (str * node)) : Prop :=
  exists e, In e (removelast chain) /\ is_dir (snd e) = false.

(* reasons for which the go tool refuses a selected entry.  [nd] = true is the
   rule set of the go tool; nd = false leaves out the non-directory rule (what
   goembed.go implemented before the fix). *)
Inductive BadEntry (nd all : bool) (chain : list (str * node)) : Prop :=
| Bad_module : forall e, In e chain -> has_gomod (snd e) = true -> BadEntry nd all chain
| Bad_nondir : nd = true -> ThroughLink chain -> BadEntry nd all chain
| Bad_name : forall e, In e chain -> bad_name (fst e) = true -> BadEntry nd all chain
| Bad_irregular : forall name, last chain ([], Irreg) = (name, Irreg) -> BadEntry nd all chain
| Bad_symlink : forall name t, last chain ([], Irreg) = (name, Link t) -> BadEntry nd all chain
| Bad_empty : forall name es, last chain ([], Irreg) = (name, Dir es) ->
    (forall names d, ~ Below all es names d) -> BadEntry nd all chain.

Definition PatternRejected (nd : bool) (root : node) (pat : str) : Prop :=
  pattern_ok (snd (cut_all pat)) = false
  \/ (forall chain, ~ Selects root (split_slash (snd (cut_all pat))) chain)
  \/ (exists chain, Selects root (split_slash (snd (cut_all pat))) chain /\ BadEntry nd (fst (cut_all pat)) chain).

(* ---------- the package level: which files use a go:embed directive ---------- *)
(* a var spec carries a directive (in its own doc comment or, for an
   ungrouped declaration, in the doc comment of the declaration) *)
Definition spec_uses (single : bool) (gdoc : list str) (s : vspec) : bool :=
  has_directive (spec_docs single gdoc s).
Definition decl_uses (d : vdecl) : bool :=
  (is_multi (vd_specs d) && has_directive (vd_doc d))
  || existsb (spec_uses (is_single (vd_specs d)) (vd_doc d)) (vd_specs d).
Definition file_uses (f : gofile) : bool := existsb decl_uses (gf_decls f).
