From LLGoV Require Import C16.Model C16.Spec.
From Coq Require Import Sorting.Sorted Sorting.Permutation.
Local Open Scope N_scope.

(* ---------- the order on byte strings ---------- *)
Lemma str_ltb_irrefl a : str_ltb a a = false.
Proof. induction a as [|x a IH]; cbn; [reflexivity|]. now rewrite N.ltb_irrefl. Qed.

Lemma str_ltb_trans a : forall b c, str_ltb a b = true -> str_ltb b c = true -> str_ltb a c = true.
Proof.
  induction a as [|x a IH]; intros [|y b] [|z c]; cbn; try discriminate; auto.
  destruct (x <? y) eqn:Exy, (y <? x) eqn:Eyx, (y <? z) eqn:Eyz, (z <? y) eqn:Ezy; try discriminate;
    rewrite ?N.ltb_lt, ?N.ltb_ge in *; intros H1 H2;
    try (assert (E : x <? z = true) by (apply N.ltb_lt; lia); now rewrite E);
    try lia.
  assert (x = y) by lia. assert (y = z) by lia. subst.
  rewrite N.ltb_irrefl. eauto.
Qed.

Lemma str_ltb_total a : forall b, str_ltb a b = false -> str_ltb b a = false -> a = b.
Proof.
  induction a as [|x a IH]; intros [|y b]; cbn; try discriminate; auto.
  destruct (x <? y) eqn:Exy, (y <? x) eqn:Eyx; try discriminate.
  rewrite N.ltb_ge in *. intros H1 H2. assert (x = y) by lia. subst. f_equal. auto.
Qed.

Lemma str_ltb_asym a b : str_ltb a b = true -> str_ltb b a = false.
Proof.
  intros H. destruct (str_ltb b a) eqn:E; [|reflexivity].
  pose proof (str_ltb_trans _ _ _ H E) as T. now rewrite str_ltb_irrefl in T.
Qed.

Lemma str_eqb_refl a : str_eqb a a = true.
Proof. apply list_eqb_refl. apply N.eqb_refl. Qed.

Lemma str_eqb_iff a b : str_eqb a b = true <-> a = b.
Proof. split; [apply str_eqb_eq | intros ->; apply str_eqb_refl]. Qed.

Lemma str_eqb_neq a b : str_eqb a b = false <-> a <> b.
Proof.
  split.
  - intros H E. subst. now rewrite str_eqb_refl in H.
  - intros H. destruct (str_eqb a b) eqn:E; [|reflexivity]. now apply str_eqb_eq in E.
Qed.

(* ---------- insertion sort by a key ---------- *)
Section SortKey.
  Context {A K : Type} (key : A -> K) (klt : K -> K -> bool).
  Hypothesis klt_trans : forall a b c, klt a b = true -> klt b c = true -> klt a c = true.
  Hypothesis klt_irrefl : forall a, klt a a = false.
  Hypothesis klt_total : forall a b, klt a b = false -> klt b a = false -> a = b.
  Let lt (a b : A) := klt (key a) (key b).
  Let le (a b : A) := lt b a = false.

  Lemma klt_asym a b : klt a b = true -> klt b a = false.
  Proof.
    intros H. destruct (klt b a) eqn:E; [|reflexivity].
    pose proof (klt_trans _ _ _ H E) as T. now rewrite klt_irrefl in T.
  Qed.

  Lemma kle_trans a b c : klt b a = false -> klt c b = false -> klt c a = false.
  Proof.
    intros H1 H2. destruct (klt c a) eqn:E; [|reflexivity].
    destruct (klt a b) eqn:Eab.
    - pose proof (klt_trans _ _ _ E Eab). congruence.
    - assert (a = b) by (apply klt_total; assumption). subst. congruence.
  Qed.

  Lemma ins_perm x l : Permutation (ins_by lt x l) (x :: l).
  Proof.
    induction l as [|y l IH]; cbn; [reflexivity|].
    destruct (lt y x); [|reflexivity].
    rewrite IH. apply perm_swap.
  Qed.

  Lemma sort_perm l : Permutation (sort_by lt l) l.
  Proof.
    induction l as [|x l IH]; cbn; [reflexivity|].
    rewrite ins_perm. now constructor.
  Qed.

  Lemma ins_sorted x l : StronglySorted le l -> StronglySorted le (ins_by lt x l).
  Proof.
    induction 1 as [|y l Hs IH Hf]; cbn.
    - repeat constructor.
    - destruct (lt y x) eqn:E.
      + constructor; [assumption|].
        eapply Permutation_Forall; [symmetry; apply ins_perm|].
        constructor; [|assumption]. unfold le, lt in *. now apply klt_asym.
      + constructor; [now constructor|].
        constructor; [exact E|].
        eapply Forall_impl; [|exact Hf]. intros z Hz. unfold le, lt in *.
        eapply kle_trans; eassumption.
  Qed.

  Lemma sort_sorted l : StronglySorted le (sort_by lt l).
  Proof. induction l; cbn; [constructor | now apply ins_sorted]. Qed.

  Lemma sorted_strict l : NoDup (map key l) -> StronglySorted le l ->
    StronglySorted (fun a b => klt (key a) (key b) = true) l.
  Proof.
    induction l as [|x l IH]; intros Hn Hs; [constructor|].
    inversion Hn; inversion Hs; subst. constructor; [auto|].
    rewrite Forall_forall in *. intros y Hy.
    destruct (klt (key x) (key y)) eqn:E; [reflexivity|].
    assert (key x = key y) by (apply klt_total; [assumption | now apply H6]).
    exfalso. apply H1. rewrite H. now apply in_map.
  Qed.

  Lemma sort_strict l : NoDup (map key l) ->
    StronglySorted (fun a b => klt (key a) (key b) = true) (sort_by lt l).
  Proof.
    intros Hn. apply sorted_strict; [|apply sort_sorted].
    eapply Permutation_NoDup; [|exact Hn]. apply Permutation_map. symmetry. apply sort_perm.
  Qed.
End SortKey.

(* ---------- trees ---------- *)
Section NodeInd.
  Variable P : node -> Prop.
  Hypothesis HF : forall d, P (File d).
  Hypothesis HD : forall es, Forall (fun e => P (snd e)) es -> P (Dir es).
  Hypothesis HL0 : P (Link None).
  Hypothesis HL : forall t, P t -> P (Link (Some t)).
  Hypothesis HI : P Irreg.
  Fixpoint node_ind' (n : node) : P n :=
    match n with
    | File d => HF d
    | Dir es => HD es ((fix go (es : list (str * node)) : Forall (fun e => P (snd e)) es :=
                          match es with
                          | [] => Forall_nil _
                          | e :: es' => Forall_cons e (node_ind' (snd e)) (go es')
                          end) es)
    | Link None => HL0
    | Link (Some t) => HL t (node_ind' t)
    | Irreg => HI
    end.
End NodeInd.

Definition walk_item (all : bool) (prefix : str) (e : str * node) : list (str * str) :=
  if bad_name (fst e) || (hidden (fst e) && negb all) then []
  else match snd e with
       | Dir _ => if has_gomod (snd e) then [] else walk all (prefix ++ SLASH :: fst e) (snd e)
       | File d => [(prefix ++ SLASH :: fst e, d)]
       | _ => []
       end.

Lemma walk_dir all prefix es : walk all prefix (Dir es) = flat_map (walk_item all prefix) es.
Proof.
  induction es as [|[name child] es IH]; [reflexivity|].
  cbn [flat_map]. rewrite <- IH. unfold walk_item. cbn [fst snd].
  cbn [walk]. destruct (bad_name name || hidden name && negb all); destruct child; reflexivity.
Qed.

Lemma join_slash_cons c cs : cs <> [] -> join_slash (c :: cs) = c ++ SLASH :: join_slash cs.
Proof. destruct cs; [congruence | reflexivity]. Qed.

Lemma below_nonempty all es names d : Below all es names d -> names <> [].
Proof. destruct 1; discriminate. Qed.

Lemma keeps_item all name : keeps all name -> bad_name name || hidden name && negb all = false.
Proof.
  intros [Hb Hh]. rewrite Hb. cbn. destruct (hidden name); [|reflexivity].
  now rewrite (Hh eq_refl).
Qed.

Lemma item_keeps all name : bad_name name || hidden name && negb all = false -> keeps all name.
Proof.
  intros H. apply orb_false_iff in H as [H1 H2]. split; [assumption|].
  intros Hh. rewrite Hh in H2. now destruct all.
Qed.

Lemma walk_complete all es names d : Below all es names d ->
  forall prefix, In (prefix ++ SLASH :: join_slash names, d) (walk all prefix (Dir es)).
Proof.
  induction 1 as [es name d Hin Hk | es name es' names d Hin Hk Hg HB IH]; intros prefix;
    rewrite walk_dir; apply in_flat_map; eexists; (split; [exact Hin|]);
    unfold walk_item; cbn [fst snd]; rewrite (keeps_item _ _ Hk).
  - now left.
  - rewrite Hg. rewrite join_slash_cons by (eapply below_nonempty; eassumption).
    specialize (IH (prefix ++ SLASH :: name)).
    rewrite <- app_assoc in IH. exact IH.
Qed.

Lemma walk_sound : forall n all prefix p d, In (p, d) (walk all prefix n) ->
  exists es names, n = Dir es /\ Below all es names d /\ p = prefix ++ SLASH :: join_slash names.
Proof.
  induction n as [d0|es IH| |t IH|] using node_ind'; intros all prefix p d Hin; try (now destruct Hin).
  rewrite walk_dir in Hin. apply in_flat_map in Hin as [[name child] [He Hi]].
  exists es. unfold walk_item in Hi. cbn [fst snd] in Hi.
  destruct (bad_name name || hidden name && negb all) eqn:Ek; [destruct Hi|].
  apply item_keeps in Ek.
  rewrite Forall_forall in IH. specialize (IH _ He). cbn [snd] in IH.
  destruct child as [d1|es'|t|]; try (now destruct Hi).
  - destruct Hi as [Hi|[]]. inversion Hi; subst. exists [name]. repeat split; auto.
    now apply Below_file.
  - destruct (has_gomod (Dir es')) eqn:Eg; [destruct Hi|].
    apply IH in Hi as (es2 & names & E & HB & Ep). inversion E; subst es2.
    exists (name :: names). repeat split; auto.
    + now apply Below_dir with (es' := es').
    + rewrite join_slash_cons by (eapply below_nonempty; eassumption).
      subst p. now rewrite <- app_assoc.
Qed.

(* ---------- Glob ---------- *)
Lemma glob_go_spec : forall comps n acc chain,
  In chain (glob_go comps n acc) <-> exists ch, chain = acc ++ ch /\ Selects n comps ch.
Proof.
  induction comps as [|c rest IH]; intros n acc chain; cbn [glob_go].
  - split; [intros [] | intros (ch & _ & H); inversion H].
  - rewrite in_flat_map. split.
    + intros ([name child] & He & Hi). cbn [fst snd] in Hi.
      destruct (pm c name) eqn:Ep; [|destruct Hi].
      destruct rest as [|c2 rest].
      * destruct Hi as [<-|[]]. exists [(name, child)]. split; [reflexivity|]. now constructor.
      * apply IH in Hi as (ch & -> & HS). exists ((name, child) :: ch).
        split; [now rewrite <- app_assoc|]. now constructor.
    + intros (ch & -> & HS). inversion HS; subst.
      * exists (name, child). split; [assumption|]. cbn [fst snd].
        match goal with H : pm c name = true |- _ => rewrite H end. now left.
      * exists (name, child). split; [assumption|]. cbn [fst snd].
        match goal with H : pm c name = true |- _ => rewrite H end.
        apply IH. eexists. split; [|eassumption]. now rewrite <- app_assoc.
Qed.

Lemma glob_spec root pat chain :
  In chain (glob root pat) <-> Selects root (split_slash pat) chain.
Proof.
  unfold glob. rewrite glob_go_spec. split.
  - now intros (ch & -> & H).
  - intros H. now exists chain.
Qed.

Lemma selects_nonempty n comps chain : Selects n comps chain -> chain <> [].
Proof. destruct 1; discriminate. Qed.

(* ---------- one match: state-free form ---------- *)
Definition match_files (nd all : bool) (chain : list (str * node)) : res (list (str * str)) :=
  match check_path nd chain with
  | Some e => Err e
  | None =>
    match last chain ([], Irreg) with
    | (_, File d) => Ok [(rel_of chain, d)]
    | (_, Dir es) => match walk_root all (rel_of chain) (Dir es) with
                     | [] => Err E_EMPTY
                     | fs => Ok fs
                     end
    | _ => Err E_IRREG
    end
  end.

Lemma do_match_eq nd all s chain :
  do_match nd all s chain =
  match match_files nd all chain with Err e => Err e | Ok fs => Ok (fold_left add_file fs s) end.
Proof.
  unfold do_match, match_files. destruct (check_path nd chain); [reflexivity|].
  destruct (last chain ([], Irreg)) as [nm [d|es|t|]]; try reflexivity.
  destruct (walk_root all (rel_of chain) (Dir es)); reflexivity.
Qed.

Definition entry_ok (e : str * node) : Prop := has_gomod (snd e) = false /\ bad_name (fst e) = false.
Definition dirs_ok (nd : bool) (l : list (str * node)) : Prop :=
  nd = true -> Forall (fun e => is_dir (snd e) = true) l.

Lemma check_up_none nd rc : forall b,
  check_up nd rc b = None <-> Forall entry_ok rc /\ dirs_ok nd (if b then tl rc else rc).
Proof.
  induction rc as [|[name n] rc IH]; intros b; cbn [check_up].
  - split; [intros _; split; [constructor | destruct b; intros _; constructor] | reflexivity].
  - destruct (has_gomod n) eqn:Eg.
    { split; [discriminate|]. intros [H _]. inversion H as [|? ? [H1 _]]; subst. cbn in H1. congruence. }
    destruct (nd && negb b && negb (is_dir n)) eqn:E2.
    { split; [discriminate|]. intros [_ H].
      apply andb_true_iff in E2 as [E2 E3]. apply andb_true_iff in E2 as [E1 E2].
      apply negb_true_iff in E2, E3. subst b. specialize (H E1). inversion H; subst. cbn in *. congruence. }
    destruct (bad_name name) eqn:Eb.
    { split; [discriminate|]. intros [H _]. inversion H as [|? ? [_ H2]]; subst. cbn in H2. congruence. }
    rewrite IH. cbn [tl]. split.
    + intros [H1 H2]. split; [constructor; [split; assumption | assumption]|].
      destruct b; [exact H2|]. intros Hn. constructor; [|now apply H2].
      cbn [snd]. subst nd. cbn in E2. now apply negb_false_iff in E2.
    + intros [H1 H2]. inversion H1; subst. split; [assumption|].
      destruct b; [exact H2|]. intros Hn. specialize (H2 Hn). now inversion H2.
Qed.

Lemma tl_rev {A} (l : list A) : tl (rev l) = rev (removelast l).
Proof.
  induction l as [|x l IH] using rev_ind; [reflexivity|].
  rewrite rev_app_distr, removelast_last. reflexivity.
Qed.

Lemma forall_rev {A} (P : A -> Prop) l : Forall P (rev l) <-> Forall P l.
Proof.
  rewrite !Forall_forall. split; intros H x Hx; apply H; [now apply -> in_rev | now apply in_rev].
Qed.

Lemma check_path_none nd chain :
  check_path nd chain = None <-> Forall entry_ok chain /\ dirs_ok nd (removelast chain).
Proof.
  unfold check_path. rewrite check_up_none, tl_rev, forall_rev. unfold dirs_ok.
  split; intros [H1 H2]; (split; [assumption|]); intros Hn; apply forall_rev; auto.
Qed.

Lemma last_in {A} (l : list A) d : l <> [] -> In (last l d) l.
Proof.
  induction l as [|x l IH]; [congruence|]. intros _. destruct l as [|y l]; [now left|].
  right. apply IH. discriminate.
Qed.

Lemma last_dir_nonempty (chain : list (str * node)) nm n :
  last chain ([], Irreg) = (nm, n) -> n <> Irreg -> chain <> [].
Proof. intros H Hn ->. cbn in H. congruence. Qed.

Lemma match_files_nonempty nd all chain fs : match_files nd all chain = Ok fs -> fs <> [].
Proof.
  unfold match_files. destruct (check_path nd chain); [discriminate|].
  destruct (last chain ([], Irreg)) as [nm [d|es|t|]]; try discriminate.
  - intros H; inversion H. discriminate.
  - destruct (walk_root all (rel_of chain) (Dir es)); [discriminate|]. intros H; inversion H. discriminate.
Qed.

Lemma match_files_gives nd all chain fs p d :
  match_files nd all chain = Ok fs -> (In (p, d) fs <-> Gives all chain p d).
Proof.
  unfold match_files. destruct (check_path nd chain) eqn:Ec; [discriminate|].
  apply check_path_none in Ec as [Ec _].
  destruct (last chain ([], Irreg)) as [nm n] eqn:El.
  destruct n as [d0|es|t|]; try discriminate.
  - intros H; inversion H; subst fs. split.
    + intros [E|[]]. inversion E; subst. eapply Gives_file; eassumption.
    + intros G. inversion G as [c nm' d' Hl|c nm' es' ns d' Hl Hg' HB']; subst;
        (pose proof (eq_trans (eq_sym El) Hl) as Hl'; inversion Hl'; subst). now left.
  - assert (Hg : has_gomod (Dir es) = false).
    { assert (Hne : chain <> []) by (eapply last_dir_nonempty; [eassumption | discriminate]).
      pose proof (last_in chain ([], Irreg) Hne) as Hin. rewrite El in Hin.
      rewrite Forall_forall in Ec. now destruct (Ec _ Hin). }
    unfold walk_root. rewrite Hg.
    destruct (walk all (rel_of chain) (Dir es)) eqn:Ew; [discriminate|].
    intros H; inversion H; subst fs. rewrite <- Ew. split.
    + intros Hin. apply walk_sound in Hin as (es2 & names & E & HB & ->). inversion E; subst es2.
      eapply Gives_dir; eassumption.
    + intros G. inversion G as [c nm' d' Hl|c nm' es' ns d' Hl Hg' HB']; subst;
        (pose proof (eq_trans (eq_sym El) Hl) as Hl'; inversion Hl'; subst).
      now apply walk_complete.
Qed.

Lemma check_up_some nd rc : forall b e, check_up nd rc b = Some e ->
  (exists x, In x rc /\ (has_gomod (snd x) = true \/ bad_name (fst x) = true))
  \/ (nd = true /\ exists x, In x (if b then tl rc else rc) /\ is_dir (snd x) = false).
Proof.
  induction rc as [|[name n] rc IH]; intros b e; cbn [check_up]; [discriminate|].
  destruct (has_gomod n) eqn:Eg.
  { intros _. left. exists (name, n). split; [now left | now left]. }
  destruct (nd && negb b && negb (is_dir n)) eqn:E2.
  { intros _. right. apply andb_true_iff in E2 as [E2 E3]. apply andb_true_iff in E2 as [E1 E2].
    apply negb_true_iff in E2, E3. subst b. split; [assumption|]. exists (name, n). split; [now left | assumption]. }
  destruct (bad_name name) eqn:Eb.
  { intros _. left. exists (name, n). split; [now left | now right]. }
  intros H. apply IH in H as [(x & Hx & Hor)|(Hn & x & Hx & Hd)].
  - left. exists x. split; [now right | assumption].
  - right. split; [assumption|]. exists x. split; [|assumption]. destruct b; [exact Hx | now right].
Qed.

Lemma match_files_err nd all chain :
  (exists e, match_files nd all chain = Err e) <-> BadEntry nd all chain.
Proof.
  unfold match_files. split.
  - intros [e H]. destruct (check_path nd chain) eqn:Ec.
    + unfold check_path in Ec. apply check_up_some in Ec as [(x & Hx & [Hg|Hb])|(Hn & x & Hx & Hd)].
      * apply in_rev in Hx. eapply Bad_module; eassumption.
      * apply in_rev in Hx. eapply Bad_name; eassumption.
      * rewrite tl_rev in Hx. apply in_rev in Hx. apply Bad_nondir; [assumption|]. now exists x.
    + apply check_path_none in Ec as [Ec _].
      destruct (last chain ([], Irreg)) as [nm n] eqn:El.
      destruct n as [d0|es|t|]; try discriminate.
      * assert (Hg : has_gomod (Dir es) = false).
        { assert (Hne : chain <> []) by (eapply last_dir_nonempty; [eassumption | discriminate]).
          pose proof (last_in chain ([], Irreg) Hne) as Hin. rewrite El in Hin.
          rewrite Forall_forall in Ec. now destruct (Ec _ Hin). }
        unfold walk_root in H. rewrite Hg in H.
        destruct (walk all (rel_of chain) (Dir es)) eqn:Ew; [|discriminate].
        eapply Bad_empty; [eassumption|]. intros names d HB.
        apply walk_complete with (prefix := rel_of chain) in HB. rewrite Ew in HB. destruct HB.
      * eapply Bad_symlink; eassumption.
      * eapply Bad_irregular; eassumption.
  - intros HB. destruct (check_path nd chain) eqn:Ec; [eauto|].
    apply check_path_none in Ec as [Ec Ed]. rewrite Forall_forall in Ec.
    destruct HB as [e Hin Hg | Hn (x & Hx & Hd) | e Hin Hb | nm El | nm t El | nm es El Hno].
    + destruct (Ec _ Hin). congruence.
    + specialize (Ed Hn). rewrite Forall_forall in Ed. specialize (Ed _ Hx). congruence.
    + destruct (Ec _ Hin). congruence.
    + rewrite El. eauto.
    + rewrite El. eauto.
    + rewrite El. destruct (walk_root all (rel_of chain) (Dir es)) as [|[p d] l] eqn:Ew; [eauto|].
      exfalso. unfold walk_root in Ew. destruct (has_gomod (Dir es)); [discriminate|].
      assert (Hin : In (p, d) (walk all (rel_of chain) (Dir es))) by (rewrite Ew; now left).
      apply walk_sound in Hin as (es2 & names & E & HB & _). inversion E; subst es2.
      eapply Hno; eassumption.
Qed.

(* ---------- the seen / have state ---------- *)
Lemma mem_str_in x l : mem_str x l = true <-> In x l.
Proof.
  unfold mem_str. rewrite existsb_exists. split.
  - intros (y & Hy & E). apply str_eqb_eq in E. now subst.
  - intros H. exists x. split; [assumption | apply str_eqb_refl].
Qed.

Lemma add_seen_in seen f x : In x (add_seen seen f) -> In x seen \/ x = f.
Proof.
  unfold add_seen. destruct (mem_str (fst f) (map fst seen)); [now left|].
  intros H. apply in_app_or in H as [H|[H|[]]]; auto.
Qed.

Lemma add_seen_mono seen f x : In x seen -> In x (add_seen seen f).
Proof. unfold add_seen. destruct (mem_str _ _); [auto|]. intros H. apply in_or_app. now left. Qed.

Lemma add_seen_key seen f : In (fst f) (map fst (add_seen seen f)).
Proof.
  unfold add_seen. destruct (mem_str (fst f) (map fst seen)) eqn:E.
  - now apply mem_str_in.
  - rewrite map_app. apply in_or_app. right. now left.
Qed.

Lemma add_seen_nodup seen f : NoDup (map fst seen) -> NoDup (map fst (add_seen seen f)).
Proof.
  unfold add_seen. destruct (mem_str (fst f) (map fst seen)) eqn:E; [auto|].
  intros H. rewrite map_app. cbn.
  apply NoDup_rev in H. rewrite <- (rev_involutive (map fst seen ++ [fst f])).
  apply NoDup_rev. rewrite rev_app_distr. cbn. constructor; [|assumption].
  intros Hin. apply in_rev in Hin. apply mem_str_in in Hin. congruence.
Qed.

Lemma fold_add_in fs : forall s x,
  In x (fst (fold_left add_file fs s)) -> In x (fst s) \/ In x fs.
Proof.
  induction fs as [|f fs IH]; intros s x; cbn [fold_left]; [now left|].
  intros H. apply IH in H as [H|H]; [|now right; right].
  cbn in H. apply add_seen_in in H as [H|H]; [now left | right; left; now subst].
Qed.

Lemma fold_add_mono fs : forall s x, In x (fst s) -> In x (fst (fold_left add_file fs s)).
Proof.
  induction fs as [|f fs IH]; intros s x H; cbn [fold_left]; [assumption|].
  apply IH. cbn. now apply add_seen_mono.
Qed.

Lemma keys_mono fs : forall s k, In k (map fst (fst s)) -> In k (map fst (fst (fold_left add_file fs s))).
Proof.
  intros s k H. apply in_map_iff in H as (x & <- & Hx). apply in_map. now apply fold_add_mono.
Qed.

Lemma fold_add_key fs : forall s f, In f fs -> In (fst f) (map fst (fst (fold_left add_file fs s))).
Proof.
  induction fs as [|g fs IH]; intros s f; [intros []|].
  intros [->|H]; cbn [fold_left]; [|now apply IH].
  apply keys_mono. cbn. apply add_seen_key.
Qed.

Lemma fold_add_nodup fs : forall s, NoDup (map fst (fst s)) -> NoDup (map fst (fst (fold_left add_file fs s))).
Proof.
  induction fs as [|f fs IH]; intros s H; cbn [fold_left]; [assumption|].
  apply IH. cbn. now apply add_seen_nodup.
Qed.

Lemma add_have_nonempty have rel : add_have have rel <> [].
Proof.
  unfold add_have. destruct (mem_str rel have) eqn:E.
  - apply mem_str_in in E. intros ->. destruct E.
  - destruct have; discriminate.
Qed.

Lemma fold_have_nonempty fs : forall s, snd s <> [] -> snd (fold_left add_file fs s) <> [].
Proof.
  induction fs as [|f fs IH]; intros s H; cbn [fold_left]; [assumption|].
  apply IH. cbn. apply add_have_nonempty.
Qed.

Lemma fold_have_nil fs s : snd (fold_left add_file fs s) = [] -> fs = [].
Proof.
  destruct fs as [|f fs]; [reflexivity|]. cbn [fold_left]. intros H. exfalso.
  revert H. apply fold_have_nonempty. cbn. apply add_have_nonempty.
Qed.

(* ---------- all matches of one pattern ---------- *)
Lemma do_matches_ok nd all ms : forall s s', do_matches nd all s ms = Ok s' ->
  exists fss, Forall2 (fun m fs => match_files nd all m = Ok fs) ms fss
              /\ s' = fold_left add_file (concat fss) s.
Proof.
  induction ms as [|m ms IH]; intros s s'; cbn [do_matches].
  - intros H; inversion H. exists []. split; [constructor | reflexivity].
  - rewrite do_match_eq. destruct (match_files nd all m) as [fs|e] eqn:Em; [|discriminate].
    intros H. apply IH in H as (fss & HF & ->). exists (fs :: fss). split; [now constructor|].
    cbn [concat]. now rewrite fold_left_app.
Qed.

Lemma do_matches_err nd all ms : forall s e, do_matches nd all s ms = Err e ->
  exists m, In m ms /\ match_files nd all m = Err e.
Proof.
  induction ms as [|m ms IH]; intros s e; cbn [do_matches]; [discriminate|].
  rewrite do_match_eq. destruct (match_files nd all m) as [fs|e'] eqn:Em.
  - intros H. apply IH in H as (m' & Hin & H). exists m'. split; [now right | assumption].
  - intros H; inversion H; subst. exists m. split; [now left | assumption].
Qed.

Lemma do_matches_total nd all ms : forall s,
  (forall m, In m ms -> exists fs, match_files nd all m = Ok fs) -> exists s', do_matches nd all s ms = Ok s'.
Proof.
  induction ms as [|m ms IH]; intros s H; cbn [do_matches]; [eauto|].
  rewrite do_match_eq. destruct (H m (or_introl eq_refl)) as [fs ->].
  apply IH. intros m' Hm. apply H. now right.
Qed.

Lemma forall2_in_l {A B} (R : A -> B -> Prop) l l' a :
  Forall2 R l l' -> In a l -> exists b, In b l' /\ R a b.
Proof.
  induction 1 as [|x y l l' HR HF IH]; [intros []|].
  intros [->|H]; [exists y; split; [now left | assumption]|].
  destruct (IH H) as (b & Hb & HRb). exists b. split; [now right | assumption].
Qed.

Lemma forall2_in_r {A B} (R : A -> B -> Prop) l l' b :
  Forall2 R l l' -> In b l' -> exists a, In a l /\ R a b.
Proof.
  induction 1 as [|x y l l' HR HF IH]; [intros []|].
  intros [->|H]; [exists x; split; [now left | assumption]|].
  destruct (IH H) as (a & Ha & HRa). exists a. split; [now right | assumption].
Qed.

(* what one pattern contributes, declaratively *)
Definition PatGives (root : node) (pat : str) (p d : str) : Prop :=
  exists chain, Selects root (split_slash (snd (cut_all pat))) chain /\ Gives (fst (cut_all pat)) chain p d.

Lemma do_pattern_ok nd root seen pat seen' : do_pattern nd root seen pat = Ok seen' ->
  (forall x, In x seen' -> In x seen \/ PatGives root pat (fst x) (snd x))
  /\ (forall x, In x seen -> In x seen')
  /\ (forall p d, PatGives root pat p d -> In p (map fst seen'))
  /\ (NoDup (map fst seen) -> NoDup (map fst seen')).
Proof.
  unfold do_pattern. destruct (pattern_ok (snd (cut_all pat))); [|discriminate]. cbn [negb].
  destruct (do_matches nd (fst (cut_all pat)) (seen, []) (glob root (snd (cut_all pat)))) as [[s' have]|e] eqn:Em; [|discriminate].
  destruct (is_nil have); [discriminate|]. intros H; inversion H; subst s'. clear H.
  apply do_matches_ok in Em as (fss & HF & Es).
  assert (E1 : seen' = fst (fold_left add_file (concat fss) (seen, []))) by now rewrite <- Es.
  subst seen'. repeat split.
  - intros [p d] Hx. apply fold_add_in in Hx as [Hx|Hx]; [now left|]. right.
    apply in_concat in Hx as (fs & Hfs & Hx).
    destruct (forall2_in_r _ _ _ _ HF Hfs) as (chain & Hc & Hm).
    exists chain. split; [now apply glob_spec|]. cbn [fst snd]. eapply match_files_gives; eassumption.
  - intros x Hx. now apply fold_add_mono.
  - intros p d (chain & HS & HG). apply glob_spec in HS.
    destruct (forall2_in_l _ _ _ _ HF HS) as (fs & Hfs & Hm).
    change p with (fst (p, d)). apply fold_add_key. apply in_concat. exists fs. split; [assumption|].
    eapply match_files_gives; eassumption.
  - intros Hn. now apply fold_add_nodup.
Qed.

Lemma do_pattern_err nd root seen pat :
  (exists e, do_pattern nd root seen pat = Err e) <-> PatternRejected nd root pat.
Proof.
  unfold do_pattern, PatternRejected.
  destruct (pattern_ok (snd (cut_all pat))) eqn:Ep; cbn [negb].
  2:{ split; [now left | eauto]. }
  set (all := fst (cut_all pat)). set (g := snd (cut_all pat)).
  destruct (do_matches nd all (seen, []) (glob root g)) as [[s' have]|e] eqn:Em.
  - apply do_matches_ok in Em as (fss & HF & Es).
    assert (Eh : have = snd (fold_left add_file (concat fss) (seen, []))) by now rewrite <- Es.
    destruct (is_nil have) eqn:En.
    + split; [|eauto]. intros _. right; left. intros chain HS. apply glob_spec in HS.
      destruct have; [|discriminate]. symmetry in Eh. apply fold_have_nil in Eh.
      destruct (forall2_in_l _ _ _ _ HF HS) as (fs & Hfs & Hm).
      apply match_files_nonempty in Hm. destruct fs as [|f fs]; [congruence|].
      assert (Hin : In f (concat fss)) by (apply in_concat; exists (f :: fs); split; [assumption | now left]).
      rewrite Eh in Hin. destruct Hin.
    + split; [intros [e H]; discriminate|].
      intros [H|[H|(chain & HS & HB)]]; [discriminate| |].
      * exfalso. destruct (glob root g) as [|m ms] eqn:Eg.
        -- inversion HF; subst. cbn in En. discriminate.
        -- apply (H m). apply glob_spec. fold g. rewrite Eg. now left.
      * exfalso. apply glob_spec in HS. destruct (forall2_in_l _ _ _ _ HF HS) as (fs & _ & Hm).
        apply match_files_err in HB as [e He]. fold all in He. congruence.
  - split; [|eauto]. intros _. right; right.
    apply do_matches_err in Em as (m & Hin & Hm). exists m. split; [now apply glob_spec|].
    apply match_files_err. eauto.
Qed.

(* ---------- the pattern list ---------- *)
Lemma resolve_go_ok nd root pats : forall seen s, resolve_go nd root pats seen = Ok s ->
  (forall x, In x s -> In x seen \/ exists pat, In pat pats /\ PatGives root pat (fst x) (snd x))
  /\ (forall x, In x seen -> In x s)
  /\ (forall pat p d, In pat pats -> PatGives root pat p d -> In p (map fst s))
  /\ (NoDup (map fst seen) -> NoDup (map fst s)).
Proof.
  induction pats as [|pat pats IH]; intros seen s; cbn [resolve_go].
  - intros H; inversion H; subst. repeat split; auto. intros ? ? ? [].
  - destruct (do_pattern nd root seen pat) as [s1|e] eqn:Ep; [|discriminate].
    intros H. apply IH in H as (A1 & A2 & A3 & A4).
    apply do_pattern_ok in Ep as (B1 & B2 & B3 & B4). repeat split.
    + intros x Hx. apply A1 in Hx as [Hx|(pt & Hpt & HG)].
      * apply B1 in Hx as [Hx|Hx]; [now left|]. right. exists pat. split; [now left | assumption].
      * right. exists pt. split; [now right | assumption].
    + intros x Hx. apply A2. now apply B2.
    + intros pt p d [<-|Hpt] HG.
      * apply B3 in HG. apply in_map_iff in HG as (x & <- & Hx). apply in_map. now apply A2.
      * eapply A3; eassumption.
    + intros Hn. apply A4. now apply B4.
Qed.

Lemma resolve_go_err nd root pats : forall seen,
  (exists e, resolve_go nd root pats seen = Err e) <-> Exists (PatternRejected nd root) pats.
Proof.
  induction pats as [|pat pats IH]; intros seen; cbn [resolve_go].
  - split; [intros [e H]; discriminate | intros H; inversion H].
  - destruct (do_pattern nd root seen pat) as [s1|e] eqn:Ep.
    + rewrite IH. split; [now right|]. intros H. inversion H; subst; [|assumption].
      exfalso. apply (do_pattern_err nd root seen pat) in H1 as [e He]. congruence.
    + split; [|eauto]. intros _. left. apply (do_pattern_err nd root seen pat). eauto.
Qed.

(* ---------- main statements about resolve ---------- *)
Lemma embeds_patgives root pats p d :
  Embeds root pats p d <-> exists pat, In pat pats /\ PatGives root pat p d.
Proof.
  unfold Embeds, PatGives. split.
  - intros (pat & chain & H1 & H2 & H3). exists pat. split; [assumption|]. now exists chain.
  - intros (pat & H1 & chain & H2 & H3). now exists pat, chain.
Qed.

Lemma sort_files_in seen x : In x (sort_by file_ltb seen) <-> In x seen.
Proof.
  pose proof (sort_perm fst str_ltb seen) as P. split; intros H.
  - eapply Permutation_in; [exact P | exact H].
  - eapply Permutation_in; [symmetry; exact P | exact H].
Qed.

Lemma resolve_sound_l nd root pats l p d :
  resolve_gen nd root pats = Ok l -> In (p, d) l -> Embeds root pats p d.
Proof.
  unfold resolve_gen. destruct (resolve_go nd root pats []) as [s|e] eqn:E; [|discriminate].
  intros H; inversion H; subst l. intros Hin. apply (proj1 (sort_files_in _ _)) in Hin.
  apply resolve_go_ok in E as (A1 & _). apply A1 in Hin as [[]|Hx].
  now apply embeds_patgives.
Qed.

Lemma resolve_complete_l nd root pats l p d :
  resolve_gen nd root pats = Ok l -> Embeds root pats p d ->
  exists d', In (p, d') l /\ Embeds root pats p d'.
Proof.
  intros HR HE. pose proof HR as HR'. unfold resolve_gen in HR.
  destruct (resolve_go nd root pats []) as [s|e] eqn:E; [|discriminate].
  inversion HR; subst l. apply resolve_go_ok in E as (_ & _ & A3 & _).
  apply embeds_patgives in HE as (pat & Hp & HG).
  specialize (A3 _ _ _ Hp HG). apply in_map_iff in A3 as ([p' d'] & Ep & Hx). cbn in Ep. subst p'.
  exists d'. assert (Hin : In (p, d') (sort_by file_ltb s)) by now apply sort_files_in.
  split; [assumption|]. eapply resolve_sound_l; eassumption.
Qed.

Lemma resolve_sorted_l nd root pats l :
  resolve_gen nd root pats = Ok l -> StronglySorted (fun a b => str_ltb (fst a) (fst b) = true) l.
Proof.
  unfold resolve_gen. destruct (resolve_go nd root pats []) as [s|e] eqn:E; [|discriminate].
  intros H; inversion H; subst l.
  apply resolve_go_ok in E as (_ & _ & _ & A4).
  apply (sort_strict fst str_ltb str_ltb_trans str_ltb_irrefl str_ltb_total).
  apply A4. constructor.
Qed.

Lemma sorted_nodup (l : list (str * str)) :
  StronglySorted (fun a b => str_ltb (fst a) (fst b) = true) l -> NoDup (map fst l).
Proof.
  induction 1 as [|x l Hs IH Hf]; cbn; constructor; [|assumption].
  intros Hin. apply in_map_iff in Hin as (y & E & Hy). rewrite Forall_forall in Hf.
  specialize (Hf _ Hy). rewrite E, str_ltb_irrefl in Hf. discriminate.
Qed.

Lemma resolve_rejects_l nd root pats :
  (exists e, resolve_gen nd root pats = Err e) <-> Exists (PatternRejected nd root) pats.
Proof.
  rewrite <- (resolve_go_err nd root pats []). unfold resolve_gen.
  destruct (resolve_go nd root pats []) as [s|e]; split; intros [e' H]; try discriminate; eauto.
Qed.

(* the cmd/go non-directory rule: without it a selected path may run through a symbolic link *)
Definition wit_root : node :=
  Dir [([108], Link (Some (Dir [([102; 46; 116; 120; 116], File [104; 105])])))].
Definition wit_pats : list str := [[108; 47; 102; 46; 116; 120; 116]].

Lemma symlink_parent_witness :
  resolve_gen false wit_root wit_pats = Ok [([108; 47; 102; 46; 116; 120; 116], [104; 105])]
  /\ resolve wit_root wit_pats = Err E_NONDIR
  /\ exists chain, Selects wit_root (split_slash (snd (cut_all [108; 47; 102; 46; 116; 120; 116]))) chain
                   /\ ThroughLink chain.
Proof.
  split; [vm_compute; reflexivity|]. split; [vm_compute; reflexivity|].
  exists [([108], Link (Some (Dir [([102; 46; 116; 120; 116], File [104; 105])])));
          ([102; 46; 116; 120; 116], File [104; 105])].
  split.
  - apply Sel_step; [now left | vm_compute; reflexivity|].
    apply Sel_last; [now left | vm_compute; reflexivity].
  - eexists. split; [now left | reflexivity].
Qed.

(* ---------- BuildFSEntries ---------- *)
Definition ekey (e : entry) : str * str := embed_split (fst e).
Definition key_ltb (x y : str * str) : bool :=
  if str_eqb (fst x) (fst y) then str_ltb (snd x) (snd y) else str_ltb (fst x) (fst y).

Lemma key_ltb_irrefl x : key_ltb x x = false.
Proof. unfold key_ltb. now rewrite str_eqb_refl, str_ltb_irrefl. Qed.

Lemma key_ltb_trans x y z : key_ltb x y = true -> key_ltb y z = true -> key_ltb x z = true.
Proof.
  unfold key_ltb. destruct x as [a b], y as [c d], z as [e f]. cbn [fst snd].
  destruct (str_eqb a c) eqn:E1; destruct (str_eqb c e) eqn:E2.
  - apply str_eqb_iff in E1, E2. subst c e. rewrite str_eqb_refl. apply str_ltb_trans.
  - apply str_eqb_iff in E1. subst c. rewrite E2. auto.
  - apply str_eqb_iff in E2. subst e. rewrite E1. auto.
  - intros H1 H2. pose proof (str_ltb_trans _ _ _ H1 H2) as T.
    destruct (str_eqb a e) eqn:E3; [|assumption].
    apply str_eqb_iff in E3. subst e. apply str_ltb_asym in H1. congruence.
Qed.

Lemma key_ltb_total x y : key_ltb x y = false -> key_ltb y x = false -> x = y.
Proof.
  unfold key_ltb. destruct x as [a b], y as [c d]. cbn [fst snd].
  destruct (str_eqb a c) eqn:E1.
  - apply str_eqb_iff in E1. subst c. rewrite str_eqb_refl. intros H1 H2. f_equal. now apply str_ltb_total.
  - assert (E2 : str_eqb c a = false).
    { apply str_eqb_neq. apply str_eqb_neq in E1. congruence. }
    rewrite E2. intros H1 H2. apply str_eqb_neq in E1. exfalso. apply E1. now apply str_ltb_total.
Qed.

Lemma fs_entries_perm files : Permutation (fs_entries files) (fold_left add_entries files []).
Proof. unfold fs_entries. apply (sort_perm ekey key_ltb). Qed.

Lemma fs_entries_sorted_l files :
  StronglySorted (fun a b => embed_ltb b a = false) (fs_entries files).
Proof. unfold fs_entries. apply (sort_sorted ekey key_ltb key_ltb_trans key_ltb_irrefl key_ltb_total). Qed.

(* put *)
Lemma put_in m : forall k v x, In x (put m k v) -> x = (k, v) \/ In x m.
Proof.
  induction m as [|[k' v'] m IH]; intros k v x; cbn [put].
  - intros [<-|[]]. now left.
  - destruct (str_eqb k k'); intros [<-|H]; auto; [now right; right|now right; left|].
    apply IH in H as [H|H]; [now left | now right; right].
Qed.

Lemma put_has m : forall k v, In (k, v) (put m k v).
Proof.
  induction m as [|[k' v'] m IH]; intros k v; cbn [put]; [now left|].
  destruct (str_eqb k k'); [now left | right; apply IH].
Qed.

Lemma put_keeps m : forall k v x, In x m -> fst x <> k -> In x (put m k v).
Proof.
  induction m as [|[k' v'] m IH]; intros k v x; cbn [put]; [intros []|].
  intros [<-|H] Hne.
  - cbn [fst] in Hne. destruct (str_eqb k k') eqn:E; [|now left].
    apply str_eqb_iff in E. congruence.
  - destruct (str_eqb k k'); right; [assumption | now apply IH].
Qed.

Lemma put_keys_in m : forall k v k0, In k0 (map fst (put m k v)) <-> k0 = k \/ In k0 (map fst m).
Proof.
  induction m as [|[k' v'] m IH]; intros k v k0; cbn [put map fst].
  - cbn. intuition.
  - destruct (str_eqb k k') eqn:E; cbn [map fst In].
    + apply str_eqb_iff in E. subst k'. intuition.
    + rewrite IH. intuition.
Qed.

Lemma put_nodup m : forall k v, NoDup (map fst m) -> NoDup (map fst (put m k v)).
Proof.
  induction m as [|[k' v'] m IH]; intros k v H; cbn [put map fst].
  - repeat constructor. intros [].
  - inversion H; subst. destruct (str_eqb k k') eqn:E; cbn [map fst].
    + apply str_eqb_iff in E. subst k'. now constructor.
    + constructor; [|now apply IH]. rewrite put_keys_in. intros [->|Hin]; [|contradiction].
      now rewrite str_eqb_refl in E.
Qed.

Lemma fold_put_none ds : forall m x,
  In x (fold_left (fun m d => put m d None) ds m) -> In x m \/ (In (fst x) ds /\ snd x = None).
Proof.
  induction ds as [|d ds IH]; intros m x; cbn [fold_left]; [now left|].
  intros H. apply IH in H as [H|[H1 H2]]; [|right; split; [now right | assumption]].
  apply put_in in H as [->|H]; [right; split; [now left | reflexivity] | now left].
Qed.

Lemma fold_put_nodup ds : forall m, NoDup (map fst m) -> NoDup (map fst (fold_left (fun m d => put m d None) ds m)).
Proof.
  induction ds as [|d ds IH]; intros m H; cbn [fold_left]; [assumption|]. apply IH. now apply put_nodup.
Qed.

Lemma fold_put_keeps ds : forall m x, In x m -> ~ In (fst x) ds ->
  In x (fold_left (fun m d => put m d None) ds m).
Proof.
  induction ds as [|d ds IH]; intros m x H Hn; cbn [fold_left]; [assumption|].
  apply IH; [|intros Hd; apply Hn; now right].
  apply put_keeps; [assumption|]. intros E. apply Hn. now left.
Qed.

Lemma fold_put_has ds : forall m d, In d ds -> In (d, None) (fold_left (fun m d => put m d None) ds m).
Proof.
  induction ds as [|d0 ds IH]; intros m d; [intros []|]. cbn [fold_left].
  intros [->|H]; [|now apply IH].
  destruct (in_dec (list_eq_dec N.eq_dec) d ds) as [Hin|Hn]; [now apply IH|].
  apply fold_put_keeps; [apply put_has | assumption].
Qed.

Definition ends_slash (s : str) : Prop := last s 0 = SLASH.

Lemma parents_go_end fuel : forall dir d, In d (parents_go fuel dir) -> ends_slash d.
Proof.
  induction fuel as [|f IH]; intros dir d; cbn [parents_go]; [intros []|].
  destruct (str_eqb dir [DOT] || str_eqb dir [SLASH]); [intros []|].
  intros [<-|H]; [|eauto]. unfold ends_slash. now rewrite last_last.
Qed.

Lemma parents_end name d : In d (parents name) -> ends_slash d.
Proof. apply parents_go_end. Qed.

(* what the table contains *)
Lemma add_entries_in m f x : In x (add_entries m f) ->
  In x m \/ x = (fst f, Some (snd f)) \/ (In (fst x) (parents (fst f)) /\ snd x = None).
Proof.
  unfold add_entries. intros H. apply fold_put_none in H as [H|H]; [|now right; right].
  apply put_in in H as [H|H]; [now right; left | now left].
Qed.

Lemma table_only files : forall m x, In x (fold_left add_entries files m) ->
  In x m \/ (exists d, snd x = Some d /\ In (fst x, d) files)
  \/ (snd x = None /\ exists f, In f files /\ In (fst x) (parents (fst f))).
Proof.
  induction files as [|f files IH]; intros m x; cbn [fold_left]; [now left|].
  intros H. apply IH in H as [H|[(d & H1 & H2)|(H1 & g & H2 & H3)]].
  - apply add_entries_in in H as [H|[->|[H1 H2]]]; [now left| |].
    + right; left. exists (snd f). split; [reflexivity|]. left. now destruct f.
    + right; right. split; [assumption|]. exists f. split; [now left | assumption].
  - right; left. exists d. split; [assumption | now right].
  - right; right. split; [assumption|]. exists g. split; [now right | assumption].
Qed.

Lemma table_nodup files : forall m, NoDup (map fst m) -> NoDup (map fst (fold_left add_entries files m)).
Proof.
  induction files as [|f files IH]; intros m H; cbn [fold_left]; [assumption|].
  apply IH. unfold add_entries. apply fold_put_nodup. now apply put_nodup.
Qed.

Lemma add_entries_keeps m f x : In x m -> fst x <> fst f -> ~ In (fst x) (parents (fst f)) ->
  In x (add_entries m f).
Proof.
  intros H H1 H2. unfold add_entries. apply fold_put_keeps; [|assumption]. now apply put_keeps.
Qed.

Lemma table_keeps_file files : forall m k d,
  In (k, Some d) m -> ~ ends_slash k -> ~ In k (map fst files) -> In (k, Some d) (fold_left add_entries files m).
Proof.
  induction files as [|f files IH]; intros m k d H He Hn; cbn [fold_left]; [assumption|].
  apply IH; [|assumption|intros Hin; apply Hn; now right].
  apply add_entries_keeps; [assumption| |].
  - cbn [fst]. intros E. apply Hn. left. now symmetry.
  - cbn [fst]. intros Hp. apply parents_end in Hp. contradiction.
Qed.

Lemma table_keeps_dir files : forall m k,
  In (k, None) m -> ends_slash k -> (forall f, In f files -> ~ ends_slash (fst f)) ->
  In (k, None) (fold_left add_entries files m).
Proof.
  induction files as [|f files IH]; intros m k H He Hf; cbn [fold_left]; [assumption|].
  apply IH; [|assumption|intros g Hg; apply Hf; now right].
  unfold add_entries.
  destruct (in_dec (list_eq_dec N.eq_dec) k (parents (fst f))) as [Hin|Hn].
  - now apply fold_put_has.
  - apply fold_put_keeps; [|assumption]. apply put_keeps; [assumption|].
    cbn [fst]. intros E. apply (Hf f (or_introl eq_refl)). now rewrite <- E.
Qed.

Lemma table_files files : forall m,
  NoDup (map fst files) -> (forall f, In f files -> ~ ends_slash (fst f)) ->
  forall k d, In (k, d) files -> In (k, Some d) (fold_left add_entries files m).
Proof.
  induction files as [|f files IH]; intros m Hn Hf k d; [intros []|].
  cbn [fold_left]. inversion Hn; subst. intros [->|H].
  - apply table_keeps_file; [| |assumption].
    + unfold add_entries. cbn [fst snd]. apply fold_put_keeps; [apply put_has|].
      cbn [fst]. intros Hp. apply parents_end in Hp. apply (Hf (k, d) (or_introl eq_refl)). exact Hp.
    + apply (Hf (k, d)). now left.
  - apply IH; auto. intros g Hg. apply Hf. now right.
Qed.

Lemma table_parents files : forall m,
  (forall f, In f files -> ~ ends_slash (fst f)) ->
  forall f dname, In f files -> In dname (parents (fst f)) -> In (dname, None) (fold_left add_entries files m).
Proof.
  induction files as [|g files IH]; intros m Hf f dname; [intros []|].
  cbn [fold_left]. intros [->|H] Hd.
  - apply table_keeps_dir.
    + unfold add_entries. now apply fold_put_has.
    + eapply parents_end; eassumption.
    + intros h Hh. apply Hf. now right.
  - eapply IH; eauto. intros h Hh. apply Hf. now right.
Qed.

Lemma fs_entries_in files x : In x (fs_entries files) <-> In x (fold_left add_entries files []).
Proof.
  split; intros H; eapply Permutation_in; try exact H; [|symmetry]; apply fs_entries_perm.
Qed.

Lemma fs_names_nodup_l files : NoDup (map fst (fs_entries files)).
Proof.
  eapply Permutation_NoDup; [apply Permutation_map; symmetry; apply fs_entries_perm|].
  apply table_nodup. constructor.
Qed.

Lemma fs_only_l files k v : In (k, v) (fs_entries files) ->
  (exists d, v = Some d /\ In (k, d) files)
  \/ (v = None /\ exists f, In f files /\ In k (parents (fst f))).
Proof.
  intros H. apply fs_entries_in in H. apply table_only in H as [[]|H]. exact H.
Qed.

Lemma fs_files_l files : NoDup (map fst files) -> (forall f, In f files -> ~ ends_slash (fst f)) ->
  forall k d, In (k, d) files -> In (k, Some d) (fs_entries files).
Proof. intros Hn Hf k d H. apply fs_entries_in. now apply table_files. Qed.

Lemma fs_parents_l files : (forall f, In f files -> ~ ends_slash (fst f)) ->
  forall f dname, In f files -> In dname (parents (fst f)) -> In (dname, None) (fs_entries files).
Proof. intros Hf f dname H Hd. apply fs_entries_in. eapply table_parents; eassumption. Qed.

Lemma nodup_map_inj {A B} (f : A -> B) (l : list A) :
  (forall a b, In a l -> In b l -> f a = f b -> a = b) -> NoDup l -> NoDup (map f l).
Proof.
  induction l as [|x l IH]; intros Hi Hn; cbn; [constructor|].
  inversion Hn; subst. constructor.
  - intros Hin. apply in_map_iff in Hin as (y & E & Hy).
    assert (y = x) by (apply Hi; [now right | now left | assumption]). now subst.
  - apply IH; [|assumption]. intros a b Ha Hb. apply Hi; now right.
Qed.

Lemma fs_strict_l files :
  (forall a b, In a (map fst (fs_entries files)) -> In b (map fst (fs_entries files)) ->
               embed_split a = embed_split b -> a = b) ->
  StronglySorted (fun a b => embed_ltb a b = true) (fs_entries files).
Proof.
  intros Hinj.
  apply (sorted_strict ekey key_ltb key_ltb_total).
  - unfold ekey. rewrite <- map_map. apply nodup_map_inj; [exact Hinj | apply fs_names_nodup_l].
  - apply fs_entries_sorted_l.
Qed.

(* ---------- directive arguments: quote, split, unquote ---------- *)
Definition parse_args (args : str) : option (list str) :=
  match split_args args with None => None | Some fs => unquote_fields fs end.

Definition field (q : style * str) : str := quote_arg (fst q) (snd q).
Definition tail_ok (t : str) : Prop := t = [] \/ exists r, t = SP :: r.

Lemma space_at_ascii c r : (c <? 128) = true ->
  space_at (c :: r) = if is_space c then 1%nat else 0%nat.
Proof. intros H. unfold space_at, decode_rune. rewrite H. reflexivity. Qed.

Lemma space_at_sp r : space_at (SP :: r) = 1%nat.
Proof. now rewrite space_at_ascii by reflexivity. Qed.

Definition bare_byte (b : N) : bool := (b <? 128) && negb (is_space b).

Lemma space_at_bare c r : bare_byte c = true -> space_at (c :: r) = 0%nat.
Proof.
  intros H. apply andb_true_iff in H as [H1 H2]. apply negb_true_iff in H2.
  rewrite space_at_ascii by assumption. now rewrite H2.
Qed.

Lemma split_bare_app a : forall t, forallb bare_byte a = true -> tail_ok t ->
  split_bare (a ++ t) = (a, t).
Proof.
  induction a as [|c a IH]; intros t Ha Ht.
  - destruct Ht as [->|[r ->]]; [reflexivity|]. cbn [app split_bare]. now rewrite space_at_sp.
  - cbn [forallb] in Ha. apply andb_true_iff in Ha as [Hc Ha].
    cbn [app split_bare]. rewrite space_at_bare by assumption. cbn [Nat.ltb Nat.leb].
    now rewrite IH.
Qed.

Lemma tail_check t : tail_ok t -> negb (is_nil t) && Nat.eqb (space_at t) 0 = false.
Proof. intros [->|[r ->]]; [reflexivity|]. now rewrite space_at_sp. Qed.

Lemma split_quoted_back a : forall t, forallb (fun b => negb (b =? BQ) && negb (b =? 13)) a = true ->
  split_quoted BQ (a ++ BQ :: t) = Some (a ++ [BQ], t).
Proof.
  induction a as [|c a IH]; intros t Ha.
  - reflexivity.
  - cbn in Ha. apply andb_true_iff in Ha as [Hc Ha]. apply andb_true_iff in Hc as [Hc _].
    apply negb_true_iff in Hc. cbn [app split_quoted]. rewrite Hc.
    change (BQ =? DQ) with false. cbn [andb]. now rewrite IH.
Qed.

Lemma split_quoted_dq a : forall t, split_quoted DQ (esc_dq a ++ DQ :: t) = Some (esc_dq a ++ [DQ], t).
Proof.
  induction a as [|c a IH]; intros t.
  - reflexivity.
  - cbn [esc_dq]. destruct ((c =? DQ) || (c =? BS)) eqn:E.
    + cbn [app split_quoted]. change (BS =? DQ) with false. change (DQ =? DQ) with true.
      change (BS =? BS) with true. cbn [andb]. now rewrite IH.
    + apply orb_false_iff in E as [E1 E2]. cbn [app split_quoted]. rewrite E1, E2.
      rewrite andb_false_r. now rewrite IH.
Qed.

Lemma split_args_nil fuel : split_args_go fuel [] = Some [].
Proof. destruct fuel; reflexivity. Qed.

Lemma field_nonempty q : style_ok (fst q) (snd q) = true -> (0 < length (field q))%nat.
Proof.
  destruct q as [[| |] a]; unfold field; cbn [fst snd quote_arg style_ok].
  - destruct a; [discriminate | cbn; lia].
  - cbn; lia.
  - cbn; lia.
Qed.

Lemma split_one st a t fuel l : style_ok st a = true -> tail_ok t ->
  split_args_go fuel t = Some l ->
  split_args_go (S fuel) (quote_arg st a ++ t) = Some (quote_arg st a :: l).
Proof.
  intros Hs Ht Hl. destruct st; cbn [quote_arg].
  - (* bare *)
    destruct a as [|c a]; [discriminate|]. cbn [style_ok] in Hs.
    apply andb_true_iff in Hs as [Hq Hb]. fold bare_byte in Hb.
    assert (Hb' := Hb). cbn [forallb] in Hb'. apply andb_true_iff in Hb' as [Hc _].
    apply negb_true_iff in Hq.
    change ((c :: a) ++ t) with (c :: (a ++ t)). cbn [split_args_go].
    rewrite space_at_bare by assumption. cbn [Nat.ltb Nat.leb]. rewrite Hq.
    change (c :: a ++ t) with ((c :: a) ++ t). rewrite split_bare_app by assumption.
    cbn [fst snd]. now rewrite Hl.
  - (* back-quoted *)
    cbn [style_ok] in Hs. change ((BQ :: a ++ [BQ]) ++ t) with (BQ :: ((a ++ [BQ]) ++ t)).
    rewrite <- app_assoc. cbn [app split_args_go].
    rewrite space_at_ascii by reflexivity. change (is_space BQ) with false. cbn [Nat.ltb Nat.leb].
    change ((BQ =? DQ) || (BQ =? BQ)) with true. cbn iota.
    rewrite split_quoted_back by assumption. rewrite tail_check by assumption. now rewrite Hl.
  - (* double-quoted *)
    change ((DQ :: esc_dq a ++ [DQ]) ++ t) with (DQ :: ((esc_dq a ++ [DQ]) ++ t)).
    rewrite <- app_assoc. cbn [app split_args_go].
    rewrite space_at_ascii by reflexivity. change (is_space DQ) with false. cbn [Nat.ltb Nat.leb].
    change ((DQ =? DQ) || (DQ =? BQ)) with true. cbn iota.
    rewrite split_quoted_dq. rewrite tail_check by assumption. now rewrite Hl.
Qed.

Lemma split_args_render qs : Forall (fun q => style_ok (fst q) (snd q) = true) qs ->
  forall F, (length (join_sp (map field qs)) < F)%nat ->
  split_args_go F (join_sp (map field qs)) = Some (map field qs).
Proof.
  induction 1 as [|q qs Hq Hqs IH]; intros F HF.
  - apply split_args_nil.
  - destruct F as [|fuel]; [lia|]. destruct qs as [|q2 qs].
    + cbn [map join_sp].
      pose proof (split_one (fst q) (snd q) [] fuel [] Hq (or_introl eq_refl) (split_args_nil fuel)) as H1.
      rewrite app_nil_r in H1. exact H1.
    + change (join_sp (map field (q :: q2 :: qs))) with (field q ++ SP :: join_sp (map field (q2 :: qs))) in *.
      unfold field at 1 3. apply split_one; [assumption | right; eauto |].
      pose proof (field_nonempty q Hq) as Hlen.
      rewrite app_length in HF. cbn [length] in HF.
      destruct fuel as [|f2]; [lia|]. cbn [split_args_go]. rewrite space_at_sp. cbn [Nat.ltb Nat.leb skipn].
      apply IH. lia.
Qed.

Fixpoint upto_bq (l : str) : str * str :=
  match l with
  | [] => ([], [])
  | c :: l' => if c =? BQ then ([], l') else let p := upto_bq l' in (c :: fst p, snd p)
  end.

Lemma upto_back a : forallb (fun b => negb (b =? BQ) && negb (b =? 13)) a = true ->
  upto_bq (a ++ [BQ]) = (a, []).
Proof.
  induction a as [|c a IH]; intros Ha; [reflexivity|].
  cbn in Ha. apply andb_true_iff in Ha as [Hc Ha]. apply andb_true_iff in Hc as [Hc _].
  apply negb_true_iff in Hc. cbn [app upto_bq]. rewrite Hc. rewrite IH by assumption. reflexivity.
Qed.

Lemma filter_no_cr a : forallb (fun b => negb (b =? BQ) && negb (b =? 13)) a = true ->
  filter (fun c => negb (c =? 13)) a = a.
Proof.
  induction a as [|c a IH]; intros Ha; [reflexivity|].
  cbn in Ha. apply andb_true_iff in Ha as [Hc Ha]. apply andb_true_iff in Hc as [_ Hc].
  cbn. rewrite Hc. now rewrite IH.
Qed.

Lemma existsb_last (q : N) a : existsb (N.eqb q) (a ++ [q]) = true.
Proof. rewrite existsb_app. cbn. rewrite N.eqb_refl. now rewrite orb_true_r. Qed.

Lemma unquote_back a : style_ok Back a = true -> unquote (quote_arg Back a) = Some a.
Proof.
  cbn [style_ok quote_arg]. intros Ha. unfold unquote.
  assert (Hl : Nat.ltb (length (BQ :: a ++ [BQ])) 2 = false).
  { apply Nat.ltb_ge. cbn. rewrite app_length. cbn. lia. }
  rewrite Hl, existsb_last. cbn [negb]. change (BQ =? BQ) with true. cbn iota.
  change (Some (filter (fun c => negb (c =? 13)) (fst (upto_bq (a ++ [BQ])))) = Some a) || 
  change (let body := upto_bq (a ++ [BQ]) in (if is_nil (snd body) then Some (filter (fun c => negb (c =? 13)) (fst body)) else None) = Some a).
  all: rewrite upto_back by assumption; cbn [fst snd is_nil]; now rewrite filter_no_cr.
Qed.

Lemma unquote_char_plain c rest : (c <? 128) = true -> (c =? DQ) = false -> (c =? BS) = false ->
  unquote_char (c :: rest) DQ = Some ([c], rest).
Proof.
  intros H1 H2 H3. unfold unquote_char. rewrite H2. cbn [andb].
  assert (H4 : (128 <=? c) = false) by (apply N.leb_gt; now apply N.ltb_lt).
  now rewrite H4, H3.
Qed.

Lemma unquote_char_esc c rest : (c =? DQ) || (c =? BS) = true ->
  unquote_char (BS :: c :: rest) DQ = Some ([c], rest).
Proof.
  intros H. apply orb_true_iff in H as [H|H]; apply N.eqb_eq in H; subst c; reflexivity.
Qed.

Lemma unquote_body_dq a : forall buf fuel,
  forallb (fun b => (b <? 128) && negb (b =? 10)) a = true -> (length (esc_dq a) < fuel)%nat ->
  unquote_body fuel DQ (esc_dq a ++ [DQ]) buf = Some (buf ++ a, []).
Proof.
  induction a as [|c a IH]; intros buf fuel Ha HF.
  - destruct fuel; [cbn in HF; lia|]. cbn. now rewrite app_nil_r.
  - cbn in Ha. apply andb_true_iff in Ha as [Hc Ha]. apply andb_true_iff in Hc as [Hc1 Hc2].
    apply negb_true_iff in Hc2. cbn [esc_dq] in *.
    destruct ((c =? DQ) || (c =? BS)) eqn:E.
    + cbn [length] in HF. destruct fuel as [|fuel]; [lia|].
      cbn [app unquote_body]. change (BS =? DQ) with false. change (BS =? 10) with false. cbn iota.
      rewrite unquote_char_esc by assumption. change (DQ =? SQ) with false. cbn iota.
      rewrite IH by (assumption || lia). now rewrite <- app_assoc.
    + apply orb_false_iff in E as [E1 E2]. cbn [length] in HF. destruct fuel as [|fuel]; [lia|].
      cbn [app unquote_body]. rewrite E1, Hc2.
      rewrite unquote_char_plain by assumption. change (DQ =? SQ) with false. cbn iota.
      rewrite IH by (assumption || lia). now rewrite <- app_assoc.
Qed.

Lemma unquote_double a : style_ok Double a = true -> unquote (quote_arg Double a) = Some a.
Proof.
  cbn [style_ok quote_arg]. intros Ha. unfold unquote.
  assert (Hl : Nat.ltb (length (DQ :: esc_dq a ++ [DQ])) 2 = false).
  { apply Nat.ltb_ge. cbn. rewrite app_length. cbn. lia. }
  rewrite Hl, existsb_last. cbn [negb]. change (DQ =? BQ) with false. change (DQ =? SQ) with false.
  change (DQ =? DQ) with true. cbn iota.
  rewrite unquote_body_dq; [reflexivity | assumption |]. cbn [length]. rewrite app_length. cbn. lia.
Qed.

Lemma unquote_fields_render qs : Forall (fun q => style_ok (fst q) (snd q) = true) qs ->
  unquote_fields (map field qs) = Some (map snd qs).
Proof.
  induction 1 as [|[st a] qs Hq Hqs IH]; [reflexivity|].
  cbn [map unquote_fields]. rewrite IH. unfold field. cbn [fst snd] in *. destruct st.
  - cbn [quote_arg]. destruct a as [|c a]; [discriminate|]. cbn [style_ok] in Hq.
    apply andb_true_iff in Hq as [Hq _]. apply negb_true_iff in Hq. now rewrite Hq.
  - rewrite unquote_back by assumption. cbn [quote_arg]. change ((BQ =? DQ) || (BQ =? BQ)) with true. reflexivity.
  - rewrite unquote_double by assumption. cbn [quote_arg]. change ((DQ =? DQ) || (DQ =? BQ)) with true. reflexivity.
Qed.

Lemma parse_args_roundtrip qs : Forall (fun q => style_ok (fst q) (snd q) = true) qs ->
  parse_args (render_args qs) = Some (map snd qs).
Proof.
  intros H. unfold parse_args, split_args, render_args.
  change (map (fun q => quote_arg (fst q) (snd q)) qs) with (map field qs).
  rewrite split_args_render by (assumption || lia). now apply unquote_fields_render.
Qed.

Lemma rejects_nondir_l root pats pat chain :
  In pat pats -> Selects root (split_slash (snd (cut_all pat))) chain -> ThroughLink chain ->
  exists e, resolve root pats = Err e.
Proof.
  intros Hp HS HT. apply (resolve_rejects_l true). apply Exists_exists. exists pat. split; [assumption|].
  right; right. exists chain. split; [assumption|]. now apply Bad_nondir.
Qed.

(* ---------- LoadDirectives over several files ---------- *)
Section FoldResP.
  Context {X M : Type} (step : X -> M -> res M).
  Hypothesis indep : forall x m m' e, step x m = Err e -> step x m' = Err e.

  Lemma fold_res_indep xs : forall m m' e, fold_res step xs m = Err e -> fold_res step xs m' = Err e.
  Proof.
    induction xs as [|x xs IH]; intros m m' e; cbn [fold_res]; [discriminate|].
    destruct (step x m) as [m1|e1] eqn:E1; destruct (step x m') as [m2|e2] eqn:E2.
    - apply IH.
    - apply (indep x m' m) in E2. congruence.
    - apply (indep x m m') in E1. congruence.
    - apply (indep x m m') in E1. congruence.
  Qed.

  Lemma fold_res_err_iff xs m0 : forall m,
    (exists e, fold_res step xs m = Err e) <-> Exists (fun x => exists e, step x m0 = Err e) xs.
  Proof.
    induction xs as [|x xs IH]; intros m; cbn [fold_res].
    - split; [intros [e H]; discriminate | intros H; inversion H].
    - destruct (step x m) as [m1|e1] eqn:E1.
      + rewrite IH. split; [now right|]. intros H. inversion H as [? ? [e He]|]; subst; [|assumption].
        apply (indep x m0 m) in He. congruence.
      + split; [|eauto]. intros _. left. exists e1. now apply (indep x m m0).
  Qed.

  Lemma fold_res_ok_all xs : forall m m', fold_res step xs m = Ok m' ->
    Forall (fun x => exists m1 m2, step x m1 = Ok m2) xs.
  Proof.
    induction xs as [|x xs IH]; intros m m'; cbn [fold_res]; [constructor|].
    destruct (step x m) as [m1|e1] eqn:E1; [|discriminate].
    intros H. constructor; [eauto | eapply IH; eassumption].
  Qed.
End FoldResP.

Lemma load_spec_indep root imp single gdoc s m m' e :
  load_spec root imp single gdoc s m = Err e -> load_spec root imp single gdoc s m' = Err e.
Proof.
  unfold load_spec. destruct (parse_docs (spec_docs single gdoc s) [] false) as [ps [|]|]; try (intros; assumption || discriminate).
  destruct (vs_names s) as [|name [|]]; try (intros; assumption).
  destruct (negb imp); [intros; assumption|].
  destruct (resolve root ps); [discriminate | intros; assumption].
Qed.

Lemma load_decl_indep root imp d m m' e :
  load_decl root imp d m = Err e -> load_decl root imp d m' = Err e.
Proof.
  unfold load_decl. destruct (is_multi (vd_specs d) && has_directive (vd_doc d)); [intros; assumption|].
  apply fold_res_indep. intros x m1 m2 e1. apply load_spec_indep.
Qed.

Lemma load_file_indep root f m m' e :
  load_file root f m = Err e -> load_file root f m' = Err e.
Proof. unfold load_file. apply fold_res_indep. intros x m1 m2 e1. apply load_decl_indep. Qed.

Lemma load_verdict_local root fs :
  (exists e, load_directives root fs = Err e) <-> Exists (fun f => exists e, load_file root f [] = Err e) fs.
Proof. unfold load_directives. apply fold_res_err_iff. intros x m m' e. apply load_file_indep. Qed.

Lemma load_spec_ok_imp root imp single gdoc s m m' :
  load_spec root imp single gdoc s m = Ok m' -> spec_uses single gdoc s = true -> imp = true.
Proof.
  unfold load_spec, spec_uses, has_directive.
  destruct (parse_docs (spec_docs single gdoc s) [] false) as [ps [|]|]; try discriminate.
  destruct (vs_names s) as [|name [|]]; try discriminate.
  destruct imp; [reflexivity | discriminate].
Qed.

Lemma load_decl_ok_imp root imp d m m' :
  load_decl root imp d m = Ok m' -> decl_uses d = true -> imp = true.
Proof.
  unfold load_decl, decl_uses.
  destruct (is_multi (vd_specs d) && has_directive (vd_doc d)); [discriminate|]. cbn [orb].
  intros H Hu. apply fold_res_ok_all in H. apply existsb_exists in Hu as (s & Hs & Hus).
  rewrite Forall_forall in H. destruct (H _ Hs) as (m1 & m2 & Hok).
  eapply load_spec_ok_imp; eassumption.
Qed.

Lemma load_file_ok_imp root f m m' :
  load_file root f m = Ok m' -> file_uses f = true -> gf_embed f = true.
Proof.
  unfold load_file, file_uses. intros H Hu. apply fold_res_ok_all in H.
  apply existsb_exists in Hu as (d & Hd & Hud). rewrite Forall_forall in H.
  destruct (H _ Hd) as (m1 & m2 & Hok). eapply load_decl_ok_imp; eassumption.
Qed.

Lemma load_ok_imports root fs m : load_directives root fs = Ok m ->
  Forall (fun f => file_uses f = true -> gf_embed f = true) fs.
Proof.
  unfold load_directives. intros H. apply fold_res_ok_all in H.
  eapply Forall_impl; [|exact H]. intros f (m1 & m2 & Hok) Hu. eapply load_file_ok_imp; eassumption.
Qed.

Lemma load_noimport_rejects root fs f :
  In f fs -> file_uses f = true -> gf_embed f = false -> exists e, load_directives root fs = Err e.
Proof.
  intros Hin Hu Hi. destruct (load_directives root fs) as [m|e] eqn:E; [|eauto].
  apply load_ok_imports in E. rewrite Forall_forall in E. specialize (E _ Hin Hu). congruence.
Qed.

(* ---------- []byte variables: one store each ---------- *)
Lemma bytes_stores_ids vars : forall next,
  map snd (fst (bytes_stores vars next)) = map (fun k => next + N.of_nat k) (seq 0 (length vars)).
Proof.
  induction vars as [|[name data] vs IH]; intros next; [reflexivity|].
  cbn [bytes_stores fst map snd length seq]. rewrite IH. f_equal; [lia|].
  rewrite <- seq_shift, map_map. apply map_ext. intros k. lia.
Qed.

Lemma bytes_stores_distinct_l vars next : NoDup (map snd (fst (bytes_stores vars next))).
Proof.
  rewrite bytes_stores_ids. apply FinFun.Injective_map_NoDup; [|apply seq_NoDup].
  intros a b H. lia.
Qed.

Lemma set_nth_other {A} (d : A) : forall n m x l, n <> m -> nth m (set_nth n x l) d = nth m l d.
Proof.
  induction n as [|n IH]; intros [|m] x [|y l] H; cbn; try reflexivity; try congruence.
  apply IH. congruence.
Qed.

Lemma write_isolated_l heap i j k v : i <> j -> nth j (write_store heap i k v) [] = nth j heap [].
Proof. intros H. unfold write_store. now apply set_nth_other. Qed.
