(* C16 - executable model of internal/goembed (goembed.go), function by function.
   No proofs here.  Strings, names, patterns and file contents are byte lists
   (list N); a path is the byte string with 47 as separator, as in the code.
   Upstream functions the code delegates to (utf8.DecodeRuneInString,
   strings.TrimSpace, strconv.Unquote, path.Match, filepath.Glob, fs.ValidPath,
   module.CheckFilePath, filepath.WalkDir) are modelled here as well and are
   validated against the real ones by the correspondence harness. *)
From LLGoV Require Export Lib.Common.
Local Open Scope N_scope.

Definition is_nil {A} (l : list A) : bool := match l with [] => true | _ => false end.

(* ---------- lexicographic order on byte strings (Go string <) ---------- *)
Fixpoint str_ltb (a b : str) : bool :=
  match a, b with
  | [], [] => false
  | [], _ :: _ => true
  | _ :: _, [] => false
  | x :: a', y :: b' => if x <? y then true else if y <? x then false else str_ltb a' b'
  end.

(* ---------- unicode/utf8 ---------- *)
Definition RuneError := 65533.
Definition cont (b : N) : bool := (128 <=? b) && (b <=? 191).

Definition decode_rune (s : str) : N * nat :=
  match s with
  | [] => (RuneError, 0%nat)
  | b0 :: r =>
    if b0 <? 128 then (b0, 1%nat)
    else if (194 <=? b0) && (b0 <=? 223) then
      match r with
      | b1 :: _ => if cont b1 then ((b0 - 192) * 64 + (b1 - 128), 2%nat) else (RuneError, 1%nat)
      | _ => (RuneError, 1%nat)
      end
    else if (224 <=? b0) && (b0 <=? 239) then
      match r with
      | b1 :: b2 :: _ =>
        let lo := if b0 =? 224 then 160 else 128 in
        let hi := if b0 =? 237 then 159 else 191 in
        if (lo <=? b1) && (b1 <=? hi) && cont b2
        then ((b0 - 224) * 4096 + (b1 - 128) * 64 + (b2 - 128), 3%nat) else (RuneError, 1%nat)
      | _ => (RuneError, 1%nat)
      end
    else if (240 <=? b0) && (b0 <=? 244) then
      match r with
      | b1 :: b2 :: b3 :: _ =>
        let lo := if b0 =? 240 then 144 else 128 in
        let hi := if b0 =? 244 then 143 else 191 in
        if (lo <=? b1) && (b1 <=? hi) && cont b2 && cont b3
        then ((b0 - 240) * 262144 + (b1 - 128) * 4096 + (b2 - 128) * 64 + (b3 - 128), 4%nat)
        else (RuneError, 1%nat)
      | _ => (RuneError, 1%nat)
      end
    else (RuneError, 1%nat)
  end.

Definition bad_decode (rn : N * nat) : bool := (fst rn =? RuneError) && Nat.eqb (snd rn) 1.

(* the string as (rune, its bytes) pairs, decoding as range-over-string does *)
Fixpoint runes_go (fuel : nat) (s : str) : list (N * str) :=
  match fuel with
  | O => []
  | S f =>
    match s with
    | [] => []
    | _ => let rn := decode_rune s in
           (fst rn, firstn (snd rn) s) :: runes_go f (skipn (snd rn) s)
    end
  end.
Definition runes (s : str) : list (N * str) := runes_go (length s) s.

Definition utf8_valid (s : str) : bool :=
  forallb (fun p => negb ((fst p =? RuneError) && Nat.eqb (length (snd p)) 1)) (runes s).

Definition valid_rune (v : N) : bool := (v <? 55296) || ((57344 <=? v) && (v <=? 1114111)).

Definition encode_rune (r : N) : str :=
  let r := if valid_rune r then r else RuneError in
  if r <? 128 then [r]
  else if r <? 2048 then [192 + r / 64; 128 + r mod 64]
  else if r <? 65536 then [224 + r / 4096; 128 + (r / 64) mod 64; 128 + r mod 64]
  else [240 + r / 262144; 128 + (r / 4096) mod 64; 128 + (r / 64) mod 64; 128 + r mod 64].

(* unicode.IsSpace *)
Definition is_space (r : N) : bool :=
  ((9 <=? r) && (r <=? 13)) || (r =? 32) || (r =? 133) || (r =? 160)
  || (r =? 5760) || ((8192 <=? r) && (r <=? 8202))
  || (r =? 8232) || (r =? 8233) || (r =? 8239) || (r =? 8287) || (r =? 12288).

(* strings.TrimSpace *)
Fixpoint drop_space (rs : list (N * str)) : list (N * str) :=
  match rs with
  | p :: rs' => if is_space (fst p) then drop_space rs' else rs
  | [] => []
  end.
Definition trim_space (s : str) : str :=
  concat (map snd (rev (drop_space (rev (drop_space (runes s)))))).

(* ---------- the directive: ParseDirective, SplitArgs, ParsePatterns ---------- *)
Definition DQ := 34.  Definition BQ := 96.  Definition SQ := 39.  Definition BS := 92.
Definition SP := 32.  Definition TAB := 9.  Definition SLASH := 47.

Fixpoint strip_prefix (p s : str) : option str :=
  match p, s with
  | [], _ => Some s
  | a :: p', b :: s' => if a =? b then strip_prefix p' s' else None
  | _, [] => None
  end.
Definition trim_prefix (p s : str) : str := match strip_prefix p s with Some r => r | None => s end.

Definition GOEMBED : str := [103; 111; 58; 101; 109; 98; 101; 100].   (* go:embed *)

(* ParseDirective: None = not a directive, Some args *)
Definition parse_directive (line : str) : option str :=
  match strip_prefix GOEMBED line with
  | None => None
  | Some [] => Some []
  | Some (ch :: r) => if (ch =? SP) || (ch =? TAB) then Some (trim_space (ch :: r)) else None
  end.

Definition blank (b : N) : bool := (b =? SP) || (b =? TAB).

(* inside a quoted field: returns (field bytes after the opening quote incl.
   the closing quote, rest) or None when the quote is not closed *)
Fixpoint split_quoted (q : N) (s : str) : option (str * str) :=
  match s with
  | [] => None
  | c :: s' =>
    if c =? q then Some ([c], s')
    else if (q =? DQ) && (c =? BS) then
      match s' with
      | c2 :: s'' => match split_quoted q s'' with Some (f, r) => Some (c :: c2 :: f, r) | None => None end
      | [] => None                                  (* i+1 = len: plain i++, then the loop ends unclosed *)
      end
    else match split_quoted q s' with Some (f, r) => Some (c :: f, r) | None => None end
  end.

(* spaceAt: width of the white space rune (unicode.IsSpace) at the head of s, or 0 *)
Definition space_at (s : str) : nat :=
  let rn := decode_rune s in if is_space (fst rn) then snd rn else 0%nat.

Fixpoint split_bare (s : str) : str * str :=
  match s with
  | [] => ([], [])
  | c :: s' => if Nat.ltb 0 (space_at s) then ([], s) else let p := split_bare s' in (c :: fst p, snd p)
  end.

Fixpoint split_args_go (fuel : nat) (s : str) : option (list str) :=
  match fuel with
  | O => Some []
  | S f =>
    match s with
    | [] => Some []
    | c :: s' =>
      if Nat.ltb 0 (space_at s) then split_args_go f (skipn (space_at s) s)
      else if (c =? DQ) || (c =? BQ) then
        match split_quoted c s' with
        | None => None
        | Some (fld, rest) =>
          (* a quoted argument ends at white space or at the end of the line *)
          if negb (is_nil rest) && Nat.eqb (space_at rest) 0 then None
          else match split_args_go f rest with Some l => Some ((c :: fld) :: l) | None => None end
        end
      else
        let p := split_bare s in
        match split_args_go f (snd p) with Some l => Some (fst p :: l) | None => None end
    end
  end.
Definition split_args (s : str) : option (list str) := split_args_go (S (length s)) s.

(* strconv.UnquoteChar / Unquote *)
Definition unhex (c : N) : option N :=
  if (48 <=? c) && (c <=? 57) then Some (c - 48)
  else if (97 <=? c) && (c <=? 102) then Some (c - 97 + 10)
  else if (65 <=? c) && (c <=? 70) then Some (c - 65 + 10)
  else None.

Fixpoint hex_digits (n : nat) (s : str) (v : N) : option (N * str) :=
  match n with
  | O => Some (v, s)
  | S n' => match s with
            | c :: s' => match unhex c with Some x => hex_digits n' s' (v * 16 + x) | None => None end
            | [] => None
            end
  end.

(* result: bytes to append, rest *)
Definition unquote_char (s : str) (quote : N) : option (str * str) :=
  match s with
  | [] => None
  | c :: s1 =>
    if (c =? quote) && ((quote =? SQ) || (quote =? DQ)) then None
    else if 128 <=? c then
      let rn := decode_rune s in Some (encode_rune (fst rn), skipn (snd rn) s)
    else if negb (c =? BS) then Some ([c], s1)
    else match s1 with
    | [] => None
    | e :: s2 =>
      if e =? 97 then Some ([7], s2) else if e =? 98 then Some ([8], s2)
      else if e =? 102 then Some ([12], s2) else if e =? 110 then Some ([10], s2)
      else if e =? 114 then Some ([13], s2) else if e =? 116 then Some ([9], s2)
      else if e =? 118 then Some ([11], s2)
      else if e =? 120 then
        match hex_digits 2 s2 0 with Some (v, r) => Some ([v], r) | None => None end
      else if (e =? 117) || (e =? 85) then
        match hex_digits (if e =? 117 then 4 else 8) s2 0 with
        | Some (v, r) => if valid_rune v then Some (encode_rune v, r) else None
        | None => None
        end
      else if (48 <=? e) && (e <=? 55) then
        match s2 with
        | d1 :: d2 :: r =>
          if (48 <=? d1) && (d1 <=? 55) && (48 <=? d2) && (d2 <=? 55) then
            let v := ((e - 48) * 8 + (d1 - 48)) * 8 + (d2 - 48) in
            if 255 <? v then None else Some ([v], r)
          else None
        | _ => None
        end
      else if e =? BS then Some ([BS], s2)
      else if (e =? SQ) || (e =? DQ) then (if e =? quote then Some ([e], s2) else None)
      else None
    end
  end.

Fixpoint unquote_body (fuel : nat) (quote : N) (s : str) (buf : str) : option (str * str) :=
  match fuel with
  | O => None
  | S f =>
    match s with
    | [] => None                                        (* no terminating quote *)
    | c :: s' =>
      if c =? quote then Some (buf, s')
      else if c =? 10 then None
      else match unquote_char s quote with
           | None => None
           | Some (bs, rest) =>
             if quote =? SQ then
               match rest with
               | c2 :: r2 => if c2 =? quote then Some (buf ++ bs, r2) else None
               | [] => None
               end
             else unquote_body f quote rest (buf ++ bs)
           end
    end
  end.

Definition unquote (s : str) : option str :=
  match s with
  | q :: s1 =>
    if Nat.ltb (length s) 2 then None
    else if negb (existsb (N.eqb q) s1) then None
    else if q =? BQ then
      (* raw string: up to the first back quote; carriage returns dropped *)
      let body := (fix upto (l : str) : str * str :=
                     match l with [] => ([], []) | c :: l' => if c =? BQ then ([], l') else let p := upto l' in (c :: fst p, snd p) end) s1 in
      if is_nil (snd body) then Some (filter (fun c => negb (c =? 13)) (fst body)) else None
    else if q =? SQ then
      (* the fast path of the library accepts the empty rune literal *)
      match s1 with
      | [c] => if c =? SQ then Some [] else None
      | _ => match unquote_body (S (length s)) q s1 [] with
             | Some (out, []) => Some out
             | _ => None
             end
      end
    else if q =? DQ then
      match unquote_body (S (length s)) q s1 [] with
      | Some (out, []) => Some out
      | _ => None
      end
    else None
  | [] => None
  end.

Inductive dres := DNone | DErr | DPats (ps : list str).

(* only string literals are unquoted *)
Fixpoint unquote_fields (fs : list str) : option (list str) :=
  match fs with
  | [] => Some []
  | f :: fs' =>
    let rest := unquote_fields fs' in
    match f with
    | c :: _ =>
      if (c =? DQ) || (c =? BQ) then
        match unquote f with
        | Some uq => match rest with Some l => Some (uq :: l) | None => None end
        | None => None
        end
      else match rest with Some l => Some (f :: l) | None => None end
    | [] => match rest with Some l => Some (f :: l) | None => None end
    end
  end.

(* ParsePatterns on one comment; [text] is Comment.Text (starts with two slashes) *)
Definition parse_comment (text : str) : dres :=
  match strip_prefix (SLASH :: SLASH :: GOEMBED) text with
  | None => DNone                                   (* the directive follows the slashes immediately *)
  | Some _ =>
  let line := trim_space (trim_prefix [SLASH; SLASH] text) in
  match parse_directive line with
  | None => DNone
  | Some [] => DErr                                   (* missing pattern *)
  | Some args =>
    match split_args args with
    | None => DErr
    | Some fields => match unquote_fields fields with Some ps => DPats ps | None => DErr end
    end
  end
  end.

(* rendering an argument the documented ways (for the round trip theorem) *)
Inductive style := Bare | Back | Double.

Fixpoint esc_dq (a : str) : str :=
  match a with
  | [] => []
  | c :: a' => if (c =? DQ) || (c =? BS) then BS :: c :: esc_dq a' else c :: esc_dq a'
  end.

Definition quote_arg (s : style) (a : str) : str :=
  match s with
  | Bare => a
  | Back => BQ :: a ++ [BQ]
  | Double => DQ :: esc_dq a ++ [DQ]
  end.

(* a bare argument: not empty, ASCII without white space, does not start with a string quote *)
Definition style_ok (s : style) (a : str) : bool :=
  match s with
  | Bare => match a with
            | [] => false
            | c :: _ => negb ((c =? DQ) || (c =? BQ)) && forallb (fun b => (b <? 128) && negb (is_space b)) a
            end
  | Back => forallb (fun b => negb (b =? BQ) && negb (b =? 13)) a
  | Double => forallb (fun b => (b <? 128) && negb (b =? 10)) a
  end.

Fixpoint join_sp (ws : list str) : str :=
  match ws with
  | [] => []
  | [w] => w
  | w :: ws' => w ++ SP :: join_sp ws'
  end.

Definition render_args (qs : list (style * str)) : str :=
  join_sp (map (fun q => quote_arg (fst q) (snd q)) qs).

(* ---------- path.Match (= filepath.Match on unix) ---------- *)
Definition STAR := 42. Definition QM := 63. Definition LBR := 91. Definition RBR := 93.
Definition CARET := 94. Definition DASH := 45.

Fixpoint strip_stars (p : str) : bool * str :=
  match p with
  | c :: p' => if c =? STAR then (true, snd (strip_stars p')) else (false, p)
  | [] => (false, [])
  end.

Fixpoint scan_go (p : str) (inr : bool) : str * str :=
  match p with
  | [] => ([], [])
  | c :: p' =>
    if c =? BS then
      match p' with
      | c2 :: p'' => let r := scan_go p'' inr in (c :: c2 :: fst r, snd r)
      | [] => ([c], [])
      end
    else if (c =? STAR) && negb inr then ([], p)
    else let inr' := if c =? LBR then true else if c =? RBR then false else inr in
         let r := scan_go p' inr' in (c :: fst r, snd r)
  end.

(* scanChunk: (star, chunk, rest) *)
Definition scan_chunk (p : str) : bool * str * str :=
  let s := strip_stars p in
  let r := scan_go (snd s) false in
  (fst s, fst r, snd r).

Definition get_esc (chunk : str) : option (N * str) :=
  match chunk with
  | [] => None
  | c :: c' =>
    if (c =? DASH) || (c =? RBR) then None
    else
      let chunk1 := if c =? BS then c' else chunk in
      match chunk1 with
      | [] => None
      | _ =>
        let rn := decode_rune chunk1 in
        let nchunk := skipn (snd rn) chunk1 in
        if bad_decode rn then None
        else match nchunk with [] => None | _ => Some (fst rn, nchunk) end
      end
  end.

(* the range loop of a character class: Some (matched, rest of chunk) *)
Fixpoint class_go (fuel : nat) (chunk : str) (r : N) (mt : bool) (nrange : bool) : option (bool * str) :=
  match fuel with
  | O => None
  | S f =>
    match chunk with
    | c :: rest' =>
      if (c =? RBR) && nrange then Some (mt, rest')
      else
        match get_esc chunk with
        | None => None
        | Some (lo, chunk1) =>
          match chunk1 with
          | d :: c2 =>
            if d =? DASH then
              match get_esc c2 with
              | None => None
              | Some (hi, chunk2) => class_go f chunk2 r (mt || ((lo <=? r) && (r <=? hi))) true
              end
            else class_go f chunk1 r (mt || ((lo <=? r) && (r <=? lo))) true
          | [] => None
          end
        end
    | [] => None
    end
  end.

Inductive mres := MErr | MNo | MYes (rest : str).

Fixpoint match_chunk_go (fuel : nat) (chunk s : str) (failed : bool) : mres :=
  match fuel with
  | O => MErr
  | S f =>
    match chunk with
    | [] => if failed then MNo else MYes s
    | c :: chunk' =>
      let failed := failed || is_nil s in
      if c =? LBR then
        let rs := if failed then (0, s) else let rn := decode_rune s in (fst rn, skipn (snd rn) s) in
        let nc := match chunk' with
                  | c1 :: c1' => if c1 =? CARET then (true, c1') else (false, chunk')
                  | [] => (false, chunk')
                  end in
        match class_go (S (length (snd nc))) (snd nc) (fst rs) false false with
        | None => MErr
        | Some (m, chunk2) => match_chunk_go f chunk2 (snd rs) (failed || Bool.eqb m (fst nc))
        end
      else if c =? QM then
        if failed then match_chunk_go f chunk' s failed
        else let rn := decode_rune s in
             match_chunk_go f chunk' (skipn (snd rn) s) (match s with b :: _ => b =? SLASH | [] => false end)
      else
        let lit (ch : N) (rest : str) :=
          if failed then match_chunk_go f rest s failed
          else match s with
               | b :: s' => match_chunk_go f rest s' (negb (ch =? b))
               | [] => match_chunk_go f rest s true
               end in
        if c =? BS then
          match chunk' with
          | [] => MErr
          | ch :: rest => lit ch rest
          end
        else lit c chunk'
    end
  end.
Definition match_chunk (chunk s : str) : mres := match_chunk_go (S (length chunk)) chunk s false.

Inductive sres := SErr | SNone | SFound (t : str).

Fixpoint star_search (chunk name : str) (last : bool) : sres :=
  match name with
  | [] => SNone
  | b :: name' =>
    if b =? SLASH then SNone
    else match match_chunk chunk name' with
         | MYes t => if last && negb (is_nil t) then star_search chunk name' last else SFound t
         | MErr => SErr
         | MNo => star_search chunk name' last
         end
  end.

Fixpoint check_rest (fuel : nat) (p : str) : option bool :=
  match fuel with
  | O => None
  | S f =>
    match p with
    | [] => Some false
    | _ => let sc := scan_chunk p in
           match match_chunk (snd (fst sc)) [] with
           | MErr => None
           | _ => check_rest f (snd sc)
           end
    end
  end.

(* Match: None = ErrBadPattern *)
Fixpoint pmatch_go (fuel : nat) (p name : str) : option bool :=
  match fuel with
  | O => None
  | S f =>
    match p with
    | [] => Some (is_nil name)
    | _ =>
      let sc := scan_chunk p in
      let star := fst (fst sc) in let chunk := snd (fst sc) in let rest := snd sc in
      if star && is_nil chunk then Some (negb (existsb (N.eqb SLASH) name))
      else
        let last := is_nil rest in
        let after_fail (_ : unit) :=
          if star then
            match star_search chunk name last with
            | SFound t => pmatch_go f rest t
            | SErr => None
            | SNone => check_rest (S (length rest)) rest
            end
          else check_rest (S (length rest)) rest in
        match match_chunk chunk name with
        | MYes t => if is_nil t || negb last then pmatch_go f rest t else after_fail tt
        | MErr => None
        | MNo => after_fail tt
        end
    end
  end.
Definition pmatch (p name : str) : option bool := pmatch_go (S (length p)) p name.
Definition pm (p name : str) : bool := match pmatch p name with Some true => true | _ => false end.

(* ---------- fs.ValidPath, ValidPattern ---------- *)
Fixpoint split_on (sep : N) (s : str) (cur : str) : list str :=
  match s with
  | [] => [cur]
  | c :: s' => if c =? sep then cur :: split_on sep s' [] else split_on sep s' (cur ++ [c])
  end.
Definition split_slash (s : str) : list str := split_on SLASH s [].

Fixpoint join_slash (cs : list str) : str :=
  match cs with
  | [] => []
  | [c] => c
  | c :: cs' => c ++ SLASH :: join_slash cs'
  end.

Definition DOT := 46.
Definition elem_ok (e : str) : bool :=
  negb (is_nil e) && negb (str_eqb e [DOT]) && negb (str_eqb e [DOT; DOT]).

Definition valid_path (s : str) : bool :=
  utf8_valid s && (str_eqb s [DOT] || forallb elem_ok (split_slash s)).
Definition valid_pattern (s : str) : bool := negb (str_eqb s [DOT]) && valid_path s.

(* ---------- module.CheckFilePath on one element, IsBadName ---------- *)
(* unicode.IsLetter restricted to the blocks the harness draws names from (the
   harness checks the table against unicode.IsLetter on its whole alphabet) *)
Definition is_letter (r : N) : bool :=
  (r =? 170) || (r =? 181) || (r =? 186)
  || ((192 <=? r) && (r <=? 214)) || ((216 <=? r) && (r <=? 246)) || ((248 <=? r) && (r <=? 591))
  || ((913 <=? r) && (r <=? 929)) || ((931 <=? r) && (r <=? 1013))
  || ((1040 <=? r) && (r <=? 1103))
  || ((12353 <=? r) && (r <=? 12438))
  || ((19968 <=? r) && (r <=? 40959)).

Definition ALLOWED : str := [33; 35; 36; 37; 38; 40; 41; 43; 44; 45; 46; 61; 64; 91; 93; 94; 95; 123; 125; 126; 32].
Definition file_name_ok (r : N) : bool :=
  if r <? 128 then
    ((48 <=? r) && (r <=? 57)) || ((65 <=? r) && (r <=? 90)) || ((97 <=? r) && (r <=? 122))
    || existsb (N.eqb r) ALLOWED
  else is_letter r.

Definition upper (c : N) : N := if (97 <=? c) && (c <=? 122) then c - 32 else c.
Fixpoint before_dot (s : str) : str :=
  match s with [] => [] | c :: s' => if c =? DOT then [] else c :: before_dot s' end.

Definition BADWIN : list str :=
  [[67;79;78]; [80;82;78]; [65;85;88]; [78;85;76];
   [67;79;77;49]; [67;79;77;50]; [67;79;77;51]; [67;79;77;52]; [67;79;77;53]; [67;79;77;54]; [67;79;77;55]; [67;79;77;56]; [67;79;77;57];
   [76;80;84;49]; [76;80;84;50]; [76;80;84;51]; [76;80;84;52]; [76;80;84;53]; [76;80;84;54]; [76;80;84;55]; [76;80;84;56]; [76;80;84;57]].

Definition check_file_elem (e : str) : bool :=       (* true = accepted *)
  utf8_valid e && negb (is_nil e)
  && negb (forallb (N.eqb DOT) e)
  && negb (last e 0 =? DOT)
  && forallb (fun p => file_name_ok (fst p)) (runes e)
  && negb (existsb (str_eqb (map upper (before_dot e))) BADWIN).

Definition VCS : list str := [[46;98;122;114]; [46;103;105;116]; [46;104;103]; [46;115;118;110]].
Definition bad_name (name : str) : bool :=
  negb (check_file_elem name) || is_nil name || existsb (str_eqb name) VCS.

Definition hidden (name : str) : bool :=
  match name with c :: _ => (c =? DOT) || (c =? 95) | [] => false end.

(* ---------- the file tree ---------- *)
Inductive node :=
| File (data : str)
| Dir (ents : list (str * node))      (* as os.ReadDir returns them: sorted by name *)
| Link (seen : option node)           (* symbolic link; what Stat sees through it *)
| Irreg.                              (* fifo, socket, device *)

Fixpoint stat (n : node) : option node :=
  match n with
  | Link (Some t) => stat t
  | Link None => None
  | _ => Some n
  end.

Definition entries (n : node) : list (str * node) :=
  match stat n with Some (Dir es) => es | _ => [] end.

Definition GOMOD : str := [103; 111; 46; 109; 111; 100].
(* os.Stat(dir/go.mod) succeeds *)
Definition has_gomod (n : node) : bool :=
  existsb (fun e => str_eqb (fst e) GOMOD && match stat (snd e) with Some _ => true | None => false end) (entries n).

(* filepath.Glob(pkgDir/pattern): the matches as chains of (name, node as Lstat
   sees it) from the package directory down, in the order Glob returns them *)
Fixpoint glob_go (comps : list str) (n : node) (acc : list (str * node)) : list (list (str * node)) :=
  match comps with
  | [] => []
  | c :: rest =>
    flat_map (fun e =>
                if pm c (fst e) then
                  match rest with
                  | [] => [acc ++ [e]]
                  | _ => glob_go rest (snd e) (acc ++ [e])
                  end
                else []) (entries n)
  end.
Definition glob (root : node) (pat : str) : list (list (str * node)) :=
  glob_go (split_slash pat) root [].

Definition rel_of (chain : list (str * node)) : str := join_slash (map fst chain).

(* error classes *)
Definition E_SYNTAX := 1. Definition E_MODULE := 2. Definition E_NAME := 3. Definition E_INDIR := 4.
Definition E_IRREG := 5. Definition E_EMPTY := 6. Definition E_NOMATCH := 7. Definition E_NONDIR := 8.

Inductive res (A : Type) := Ok (a : A) | Err (e : N).
Arguments Ok {A} a. Arguments Err {A} e.

Definition is_dir (n : node) : bool := match n with Dir _ => true | _ => false end.

(* CheckPath: from the match upwards to the package directory (the dirOK
   cache only short-cuts directories that already passed the same checks).
   [nd] = the in-non-directory test of cmd/go is made (the code since the fix;
   nd = false is the code before it). *)
Fixpoint check_up (nd : bool) (rc : list (str * node)) (first : bool) : option N :=
  match rc with
  | [] => None
  | (name, n) :: up =>
    if has_gomod n then Some E_MODULE
    else if nd && negb first && negb (is_dir n) then Some E_NONDIR
    else if bad_name name then Some (if first then E_NAME else E_INDIR)
    else check_up nd up false
  end.
Definition check_path (nd : bool) (chain : list (str * node)) : option N := check_up nd (rev chain) true.

(* the WalkDir callback below a matched directory: files in walk order *)
Fixpoint walk (all : bool) (prefix : str) (n : node) {struct n} : list (str * str) :=
  match n with
  | Dir es =>
    (fix go (es : list (str * node)) : list (str * str) :=
       match es with
       | [] => []
       | (name, child) :: es' =>
         (if bad_name name || (hidden name && negb all) then []
          else match child with
               | Dir _ => if has_gomod child then [] else walk all (prefix ++ SLASH :: name) child
               | File d => [(prefix ++ SLASH :: name, d)]
               | _ => []
               end) ++ go es'
       end) es
  | _ => []
  end.

Definition walk_root (all : bool) (rel : str) (n : node) : list (str * str) :=
  if has_gomod n then [] else walk all rel n.

Definition mem_str (x : str) (l : list str) : bool := existsb (str_eqb x) l.
Definition add_have (have : list str) (rel : str) : list str :=
  if mem_str rel have then have else have ++ [rel].
Definition add_seen (seen : list (str * str)) (f : str * str) : list (str * str) :=
  if mem_str (fst f) (map fst seen) then seen else seen ++ [f].

(* state: seen (first read wins), have (names listed for the current pattern) *)
Definition st := (list (str * str) * list str)%type.
Definition add_file (s : st) (f : str * str) : st := (add_seen (fst s) f, add_have (snd s) (fst f)).

Definition do_match (nd all : bool) (s : st) (chain : list (str * node)) : res st :=
  match check_path nd chain with
  | Some e => Err e
  | None =>
    match last chain ([], Irreg) with
    | (_, File d) => Ok (add_file s (rel_of chain, d))
    | (_, Dir es) =>
      let fs := walk_root all (rel_of chain) (Dir es) in
      match fs with
      | [] => Err E_EMPTY
      | _ => Ok (fold_left add_file fs s)
      end
    | _ => Err E_IRREG
    end
  end.

Fixpoint do_matches (nd all : bool) (s : st) (ms : list (list (str * node))) : res st :=
  match ms with
  | [] => Ok s
  | m :: ms' => match do_match nd all s m with Err e => Err e | Ok s' => do_matches nd all s' ms' end
  end.

Definition ALLP : str := [97; 108; 108; 58].        (* all: *)
Definition cut_all (pat : str) : bool * str :=
  match strip_prefix ALLP pat with Some g => (true, g) | None => (false, pat) end.

Definition pattern_ok (g : str) : bool :=
  match pmatch g [] with None => false | Some _ => valid_pattern g end.

Definition do_pattern (nd : bool) (root : node) (seen : list (str * str)) (pat : str) : res (list (str * str)) :=
  let ag := cut_all pat in
  if negb (pattern_ok (snd ag)) then Err E_SYNTAX
  else match do_matches nd (fst ag) (seen, []) (glob root (snd ag)) with
       | Err e => Err e
       | Ok (seen', have) => if is_nil have then Err E_NOMATCH else Ok seen'
       end.

Fixpoint resolve_go (nd : bool) (root : node) (pats : list str) (seen : list (str * str)) : res (list (str * str)) :=
  match pats with
  | [] => Ok seen
  | p :: ps => match do_pattern nd root seen p with Err e => Err e | Ok s => resolve_go nd root ps s end
  end.

(* sort.Strings over the keys of the map *)
Fixpoint ins_by {A} (lt : A -> A -> bool) (x : A) (l : list A) : list A :=
  match l with
  | [] => [x]
  | y :: l' => if lt y x then y :: ins_by lt x l' else x :: l
  end.
Definition sort_by {A} (lt : A -> A -> bool) (l : list A) : list A := fold_right (ins_by lt) [] l.

Definition file_ltb (a b : str * str) : bool := str_ltb (fst a) (fst b).

Definition resolve_gen (nd : bool) (root : node) (pats : list str) : res (list (str * str)) :=
  match resolve_go nd root pats [] with
  | Err e => Err e
  | Ok seen => Ok (sort_by file_ltb seen)
  end.
(* ResolvePatterns *)
Definition resolve : node -> list str -> res (list (str * str)) := resolve_gen true.

(* ---------- BuildFSEntries ---------- *)
(* path.Dir on a clean relative slash path *)
Definition path_dir (name : str) : str :=
  match removelast (split_slash name) with
  | [] => [DOT]
  | cs => join_slash cs
  end.

(* the loop: dir = path.Dir(name); while dir not in {., /}: entries[dir+/] = nil; dir = path.Dir(dir) *)
Fixpoint parents_go (fuel : nat) (dir : str) : list str :=
  match fuel with
  | O => []
  | S f => if str_eqb dir [DOT] || str_eqb dir [SLASH] then []
           else (dir ++ [SLASH]) :: parents_go f (path_dir dir)
  end.
Definition parents (name : str) : list str := parents_go (length name) (path_dir name).

Definition entry := (str * option str)%type.     (* None = nil data: a directory *)

Fixpoint put (m : list entry) (k : str) (v : option str) : list entry :=
  match m with
  | [] => [(k, v)]
  | (k', v') :: m' => if str_eqb k k' then (k, v) :: m' else (k', v') :: put m' k v
  end.

Definition add_entries (m : list entry) (f : str * str) : list entry :=
  fold_left (fun m d => put m d None) (parents (fst f)) (put m (fst f) (Some (snd f))).

(* embedSplit *)
Definition trim_slash (s : str) : str :=
  match rev s with c :: r => if c =? SLASH then rev r else s | [] => s end.
Definition embed_split (name : str) : str * str :=
  let n := trim_slash name in
  let cs := split_slash n in
  match removelast cs with
  | [] => ([DOT], n)
  | ds => (join_slash ds, last cs [])
  end.

Definition embed_ltb (a b : entry) : bool :=
  let x := embed_split (fst a) in let y := embed_split (fst b) in
  if str_eqb (fst x) (fst y) then str_ltb (snd x) (snd y) else str_ltb (fst x) (fst y).

Definition fs_entries (files : list (str * str)) : list entry :=
  sort_by embed_ltb (fold_left add_entries files []).

(* ---------- LoadDirectives over the files of a package ---------- *)
(* what LoadDirectives looks at: per file whether it imports embed
   (FileImportsEmbed) and its var declarations with their doc comments *)
Record vspec := { vs_names : list str; vs_doc : list str }.          (* ValueSpec: names, Doc comment texts *)
Record vdecl := { vd_doc : list str; vd_specs : list vspec }.        (* GenDecl (var): Doc, Specs *)
Record gofile := { gf_embed : bool; gf_decls : list vdecl }.

Definition E_MISPLACED := 20. Definition E_PARSE := 21. Definition E_MULTI := 22. Definition E_NOIMPORT := 23.

(* ParsePatterns(docs...): all comments of the groups in order; an error still reports hasDirective *)
Inductive pdres := PD (ps : list str) (has : bool) | PDErr.
Fixpoint parse_docs (cs : list str) (acc : list str) (has : bool) : pdres :=
  match cs with
  | [] => PD acc has
  | c :: cs' =>
    match parse_comment c with
    | DNone => parse_docs cs' acc has
    | DErr => PDErr
    | DPats ps => parse_docs cs' (acc ++ ps) true
    end
  end.
Definition has_directive (cs : list str) : bool :=
  match parse_docs cs [] false with PD _ h => h | PDErr => true end.

Section FoldRes.
  Context {X M : Type} (step : X -> M -> res M).
  Fixpoint fold_res (xs : list X) (m : M) : res M :=
    match xs with
    | [] => Ok m
    | x :: xs' => match step x m with Err e => Err e | Ok m' => fold_res xs' m' end
    end.
End FoldRes.

Definition varmap := list (str * list (str * str)).
Fixpoint putv (m : varmap) (k : str) (v : list (str * str)) : varmap :=
  match m with
  | [] => [(k, v)]
  | (k', v') :: m' => if str_eqb k k' then (k, v) :: m' else (k', v') :: putv m' k v
  end.

Definition spec_docs (single : bool) (gdoc : list str) (s : vspec) : list str :=
  if single then gdoc ++ vs_doc s else vs_doc s.

(* the body of the loop over gen.Specs; [imp] = FileImportsEmbed of the file the spec is in *)
Definition load_spec (root : node) (imp single : bool) (gdoc : list str) (s : vspec) (m : varmap) : res varmap :=
  match parse_docs (spec_docs single gdoc s) [] false with
  | PDErr => Err E_PARSE
  | PD _ false => Ok m
  | PD ps true =>
    match vs_names s with
    | [name] =>
      if negb imp then Err E_NOIMPORT
      else match resolve root ps with
           | Err e => Err e
           | Ok fs => Ok (putv m name fs)
           end
    | _ => Err E_MULTI
    end
  end.

Definition is_single {A} (l : list A) : bool := match l with [_] => true | _ => false end.
Definition is_multi {A} (l : list A) : bool := match l with _ :: _ :: _ => true | _ => false end.

Definition load_decl (root : node) (imp : bool) (d : vdecl) (m : varmap) : res varmap :=
  if is_multi (vd_specs d) && has_directive (vd_doc d) then Err E_MISPLACED
  else fold_res (load_spec root imp (is_single (vd_specs d)) (vd_doc d)) (vd_specs d) m.

Definition load_file (root : node) (f : gofile) (m : varmap) : res varmap :=
  fold_res (load_decl root (gf_embed f)) (gf_decls f) m.

Definition load_directives (root : node) (files : list gofile) : res varmap :=
  fold_res (load_file root) files [].

(* ---------- equality tests used by the correspondence ---------- *)
Definition files_eqb : list (str * str) -> list (str * str) -> bool := list_eqb (prod_eqb str_eqb str_eqb).
Definition res_eqb (a b : res (list (str * str))) : bool :=
  match a, b with
  | Ok x, Ok y => files_eqb x y
  | Err e, Err f => e =? f
  | _, _ => false
  end.
Definition dres_eqb (a b : dres) : bool :=
  match a, b with
  | DNone, DNone => true
  | DErr, DErr => true
  | DPats x, DPats y => strs_eqb x y
  | _, _ => false
  end.
Definition entries_eqb : list entry -> list entry -> bool :=
  list_eqb (prod_eqb str_eqb (option_eqb str_eqb)).

Definition varmap_eqb : varmap -> varmap -> bool := list_eqb (prod_eqb str_eqb files_eqb).
Definition vres_eqb (a b : res varmap) : bool :=
  match a, b with
  | Ok x, Ok y => varmap_eqb x y
  | Err e, Err f => e =? f
  | _, _ => false
  end.

(* ---------- cl/embed.go tryEmbedGlobalInit: the stores of []byte variables ---------- *)
(* every []byte variable is initialised by its own pkg.ConstBytes call, i.e. gets
   a writable store of its own (stores are numbered in creation order), however
   many variables embed the same file *)
Fixpoint bytes_stores (vars : list (str * str)) (next : N) : list (str * N) * list str :=
  match vars with
  | [] => ([], [])
  | (name, data) :: vs =>
    let r := bytes_stores vs (N.succ next) in
    ((name, next) :: fst r, data :: snd r)
  end.
(* a write of byte v at position k through store i *)
Fixpoint set_nth {A} (n : nat) (x : A) (l : list A) : list A :=
  match l, n with
  | [], _ => []
  | _ :: l', O => x :: l'
  | y :: l', S n' => y :: set_nth n' x l'
  end.
Definition write_store (heap : list str) (i k : nat) (v : N) : list str :=
  set_nth i (set_nth k v (nth i heap [])) heap.
