(* C16 - property theorems only.  Each is closed by [exact <lemma>] and followed
   by Print Assumptions (the driver re-prints them on every run).
   [resolve] is the model of goembed.ResolvePatterns, [fs_entries] of
   BuildFSEntries, [split_args]/[unquote_fields] of SplitArgs and the unquoting
   loop of ParsePatterns (Model.v).  [Embeds], [Selects], [Below],
   [PatternRejected] are the go tool's rules written independently (Spec.v). *)
From LLGoV Require Import C16.Model C16.Spec C16.Proofs.
From Coq Require Import Sorting.Sorted.
Local Open Scope N_scope.

(* Everything delivered is a file the rules select, with the bytes of that
   file: for every tree and every pattern list. *)
Theorem resolve_sound : forall root pats l p d,
  resolve root pats = Ok l -> In (p, d) l -> Embeds root pats p d.
Proof. exact (resolve_sound_l true). Qed.
Print Assumptions resolve_sound.

(* Every file the rules select (directly, or below a selected directory with
   the hidden / underscore / all: / bad-name / nested-module rules) is delivered.
   The bytes are those of a file the rules select at that path (with unique
   names per directory there is only one). *)
Theorem resolve_complete : forall root pats l p d,
  resolve root pats = Ok l -> Embeds root pats p d ->
  exists d', In (p, d') l /\ Embeds root pats p d'.
Proof. exact (resolve_complete_l true). Qed.
Print Assumptions resolve_complete.

(* The result is strictly sorted by name (Go string order), hence duplicate free. *)
Theorem resolve_sorted_nodup : forall root pats l,
  resolve root pats = Ok l ->
  StronglySorted (fun a b => str_ltb (fst a) (fst b) = true) l /\ NoDup (map fst l).
Proof.
  intros root pats l H. pose proof (resolve_sorted_l true _ _ _ H) as S.
  split; [exact S | now apply sorted_nodup].
Qed.
Print Assumptions resolve_sorted_nodup.

(* The directive is refused exactly when some pattern is refused by the go
   tool's rules: bad syntax / invalid path, nothing selected, or a selected
   entry that lies in another module, is reached through a non-directory
   (symbolic link), has or lies below an invalid name, is irregular (symlink,
   fifo...) or is a directory without any embeddable file. *)
Theorem resolve_rejects_iff : forall root pats,
  (exists e, resolve root pats = Err e) <-> Exists (PatternRejected true root) pats.
Proof. exact (resolve_rejects_l true). Qed.
Print Assumptions resolve_rejects_iff.

(* in particular (cmd/go: "in non-directory"): a pattern whose selected path
   runs through something that is not a directory itself is refused *)
Theorem rejects_through_non_directory : forall root pats pat chain,
  In pat pats -> Selects root (split_slash (snd (cut_all pat))) chain -> ThroughLink chain ->
  exists e, resolve root pats = Err e.
Proof. exact rejects_nondir_l. Qed.
Print Assumptions rejects_through_non_directory.

(* The code before the fix (resolve_gen false: no non-directory test) embedded
   through a symlinked parent directory; the same input is now refused with
   the go tool's error class.  The harness replays it as case w00000. *)
Theorem through_symlink_before_fix_refuted :
  exists root pat l chain,
    resolve_gen false root [pat] = Ok l /\ l <> []
    /\ Selects root (split_slash (snd (cut_all pat))) chain /\ ThroughLink chain
    /\ resolve root [pat] = Err E_NONDIR.
Proof.
  destruct symlink_parent_witness as (H & H2 & chain & HS & HT).
  exists wit_root, [108; 47; 102; 46; 116; 120; 116], [([108; 47; 102; 46; 116; 120; 116], [104; 105])], chain.
  repeat split; try assumption. discriminate.
Qed.
Print Assumptions through_symlink_before_fix_refuted.

Example resolve_nontrivial :
  (* a/{x.txt,.h,_u/y,sub/{go.mod,z},d/w}, b.txt; patterns a and all:a/_u *)
  let t := Dir [([97], Dir [([46; 104], File [1]);
                            ([95; 117], Dir [([121], File [2])]);
                            ([100], Dir [([119], File [3])]);
                            ([115; 117; 98], Dir [([103; 111; 46; 109; 111; 100], File []); ([122], File [4])]);
                            ([120; 46; 116; 120; 116], File [5])]);
                ([98; 46; 116; 120; 116], File [6])] in
  resolve t [[97]; [97; 108; 108; 58; 97; 47; 95; 117]]
  = Ok [([97; 47; 95; 117; 47; 121], [2]); ([97; 47; 100; 47; 119], [3]); ([97; 47; 120; 46; 116; 120; 116], [5])].
Proof. vm_compute. reflexivity. Qed.

(* ---------- the embed.FS table ---------- *)
(* ordered the way embed.FS binary-searches it: by (directory, element) *)
Theorem fs_entries_sorted : forall files,
  StronglySorted (fun a b => embed_ltb b a = false) (fs_entries files).
Proof. exact fs_entries_sorted_l. Qed.
Print Assumptions fs_entries_sorted.

(* no name occurs twice: every file and every parent directory exactly once *)
Theorem fs_entries_names_nodup : forall files, NoDup (map fst (fs_entries files)).
Proof. exact fs_names_nodup_l. Qed.
Print Assumptions fs_entries_names_nodup.

(* strictly ordered as soon as no two names share the same (directory, element)
   split, i.e. no path is both a file and a directory (partial: the hypothesis
   is about the table; it holds for every list that comes from a file tree) *)
Theorem fs_entries_strictly_sorted_partial : forall files,
  (forall a b, In a (map fst (fs_entries files)) -> In b (map fst (fs_entries files)) ->
               embed_split a = embed_split b -> a = b) ->
  StronglySorted (fun a b => embed_ltb a b = true) (fs_entries files).
Proof. exact fs_strict_l. Qed.
Print Assumptions fs_entries_strictly_sorted_partial.

(* file bytes are preserved *)
Theorem fs_entries_bytes_preserved : forall files,
  NoDup (map fst files) -> (forall f, In f files -> ~ ends_slash (fst f)) ->
  forall k d, In (k, d) files -> In (k, Some d) (fs_entries files).
Proof. exact fs_files_l. Qed.
Print Assumptions fs_entries_bytes_preserved.

(* every parent directory of every file is present (as name/ with nil data) *)
Theorem fs_entries_parents_present : forall files,
  (forall f, In f files -> ~ ends_slash (fst f)) ->
  forall f dname, In f files -> In dname (parents (fst f)) -> In (dname, None) (fs_entries files).
Proof. exact fs_parents_l. Qed.
Print Assumptions fs_entries_parents_present.

(* and nothing else is in the table *)
Theorem fs_entries_only : forall files k v, In (k, v) (fs_entries files) ->
  (exists d, v = Some d /\ In (k, d) files)
  \/ (v = None /\ exists f, In f files /\ In k (parents (fst f))).
Proof. exact fs_only_l. Qed.
Print Assumptions fs_entries_only.

Example fs_nontrivial :
  parents [97; 47; 98; 47; 99] = [[97; 47; 98; 47]; [97; 47]]
  /\ fs_entries [([97; 47; 98; 47; 99], [1]); ([97; 46; 98], [2]); ([97; 47; 100], [3])]
     = [([97; 47], None); ([97; 46; 98], Some [2]); ([97; 47; 98; 47], None); ([97; 47; 100], Some [3]);
        ([97; 47; 98; 47; 99], Some [1])].
Proof. split; vm_compute; reflexivity. Qed.

(* ---------- the directive arguments ---------- *)
(* Any list of patterns, each written bare (ASCII without white space, not
   starting with a string quote), back-quoted (no back quote, no CR) or double-quoted with \ and the
   quote escaped (ASCII without newline), joined by spaces, is split and
   unquoted back into exactly that list. *)
Theorem args_roundtrip : forall qs : list (style * str),
  Forall (fun q => style_ok (fst q) (snd q) = true) qs ->
  parse_args (render_args qs) = Some (map snd qs).
Proof. exact parse_args_roundtrip. Qed.
Print Assumptions args_roundtrip.

Example args_nontrivial :
  Forall (fun q => style_ok (fst q) (snd q) = true)
         [(Double, [97; 32; 34; 92; 42]); (Back, [34; 32; 92; 195; 169]); (Bare, [97; 108; 108; 58; 42; 46; 116; 120; 116]); (Double, [])]
  /\ parse_comment ([47; 47; 103; 111; 58; 101; 109; 98; 101; 100; 32] ++
        render_args [(Double, [97; 32; 34; 92; 42]); (Back, [34; 32; 92; 195; 169]); (Bare, [97; 108; 108; 58; 42; 46; 116; 120; 116]); (Double, [])])
     = DPats [[97; 32; 34; 92; 42]; [34; 32; 92; 195; 169]; [97; 108; 108; 58; 42; 46; 116; 120; 116]; []].
Proof. split; [repeat constructor | vm_compute; reflexivity]. Qed.

(* ---------- LoadDirectives over the files of a package ---------- *)
(* A package is accepted only if every file that uses a //go:embed directive
   imports embed ITSELF: an import in another file of the package does not count. *)
Theorem directive_needs_own_import : forall root fs m,
  load_directives root fs = Ok m ->
  Forall (fun f => file_uses f = true -> gf_embed f = true) fs.
Proof. exact load_ok_imports. Qed.
Print Assumptions directive_needs_own_import.

(* ... so one file with a directive and without the import makes LoadDirectives
   fail, whatever the other files are and in whatever order they come *)
Theorem directive_without_import_rejected : forall root fs f,
  In f fs -> file_uses f = true -> gf_embed f = false -> exists e, load_directives root fs = Err e.
Proof. exact load_noimport_rejects. Qed.
Print Assumptions directive_without_import_rejected.

(* The verdict is per file: the package is rejected iff some file, looked at
   alone, is rejected (no state is carried from one file to the next). *)
Theorem load_verdict_is_per_file : forall root fs,
  (exists e, load_directives root fs = Err e) <-> Exists (fun f => exists e, load_file root f [] = Err e) fs.
Proof. exact load_verdict_local. Qed.
Print Assumptions load_verdict_is_per_file.

Example load_nontrivial :
  let t := Dir [([97; 46; 116; 120; 116], File [65])] in
  let dir := [47; 47; 103; 111; 58; 101; 109; 98; 101; 100; 32; 97; 46; 116; 120; 116] in   (* //go:embed a.txt *)
  let fa := {| gf_embed := true; gf_decls := [{| vd_doc := [dir]; vd_specs := [{| vs_names := [[120]]; vs_doc := [] |}] |}] |} in
  let fb := {| gf_embed := false; gf_decls := [{| vd_doc := []; vd_specs := [{| vs_names := [[121]]; vs_doc := [dir] |}] |}] |} in
  load_directives t [fa] = Ok [([120], [([97; 46; 116; 120; 116], [65])])]
  /\ file_uses fb = true
  /\ load_directives t [fa; fb] = Err E_NOIMPORT /\ load_directives t [fb; fa] = Err E_NOIMPORT.
Proof. vm_compute. repeat split; reflexivity. Qed.

(* ---------- []byte variables (cl/embed.go) ---------- *)
(* every []byte variable has a store of its own, also when several variables
   embed the same file; a write through one store leaves all others unchanged *)
Theorem bytes_stores_distinct : forall vars next, NoDup (map snd (fst (bytes_stores vars next))).
Proof. exact bytes_stores_distinct_l. Qed.
Print Assumptions bytes_stores_distinct.

Theorem write_isolated : forall heap i j k v, i <> j -> nth j (write_store heap i k v) [] = nth j heap [].
Proof. exact write_isolated_l. Qed.
Print Assumptions write_isolated.
