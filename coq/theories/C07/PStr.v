(* C07 - string-level lemmas: splitting at delimiters, decimal rendering *)
From LLGoV Require Import C07.Model C07.PItab.
From Coq Require Import DecimalN DecimalFacts.
Local Open Scope N_scope.

Definition headD (D : N -> bool) (r : str) : Prop :=
  match r with [] => True | c :: _ => D c = true end.
Definition free (D : N -> bool) (a : str) : Prop := forallb (fun c => negb (D c)) a = true.

Lemma free_app D a b : free D (a ++ b) <-> free D a /\ free D b.
Proof. unfold free. rewrite forallb_app, andb_true_iff. tauto. Qed.
Lemma free_cons D c a : free D (c :: a) <-> D c = false /\ free D a.
Proof. unfold free. cbn. rewrite andb_true_iff, negb_true_iff. tauto. Qed.
Lemma free_nil D : free D [].
Proof. reflexivity. Qed.

Lemma free_weaken (D D' : N -> bool) a :
  (forall c, D' c = true -> D c = true) -> free D a -> free D' a.
Proof.
  unfold free. intros I. rewrite !forallb_forall. intros F c Ic. specialize (F c Ic).
  rewrite negb_true_iff in *. destruct (D' c) eqn:E; auto. rewrite (I _ E) in F. discriminate.
Qed.

(* a1, a2 contain no delimiter and what follows each is empty or starts with one *)
Lemma split_first D : forall a1 a2 r1 r2,
  free D a1 -> free D a2 -> headD D r1 -> headD D r2 ->
  a1 ++ r1 = a2 ++ r2 -> a1 = a2 /\ r1 = r2.
Proof.
  induction a1 as [|x a1 IH]; intros [|y a2] r1 r2 F1 F2 H1 H2 E; cbn in E.
  - auto.
  - subst r1. cbn in H1. apply free_cons in F2. destruct F2. congruence.
  - subst r2. cbn in H2. apply free_cons in F1. destruct F1. congruence.
  - injection E as -> E. apply free_cons in F1, F2. destruct F1, F2.
    destruct (IH a2 r1 r2) as [-> ->]; auto.
Qed.

Lemma headD_cons D c r : D c = true -> headD D (c :: r).
Proof. auto. Qed.

(* ---- decimal ---- *)

Lemma uint_bytes_inj u : forall v, uint_bytes u = uint_bytes v -> u = v.
Proof.
  induction u; intros v E; destruct v; cbn in E; try discriminate; try reflexivity;
    injection E as E; f_equal; auto.
Qed.

Lemma dec_inj n m : dec n = dec m -> n = m.
Proof.
  unfold dec. intros E. apply uint_bytes_inj in E.
  rewrite <- (DecimalN.Unsigned.of_to n), <- (DecimalN.Unsigned.of_to m). now rewrite E.
Qed.

Lemma uint_bytes_digits u : forallb is_digit (uint_bytes u) = true.
Proof. induction u; cbn; auto. Qed.

Lemma dec_digits n : forallb is_digit (dec n) = true.
Proof. apply uint_bytes_digits. Qed.

Lemma dec_nonempty n : dec n <> [].
Proof.
  unfold dec. destruct n as [|p]; [discriminate|].
  cbn. intros E. pose proof (DecimalPos.Unsigned.to_uint_nonnil p) as NN.
  destruct (Pos.to_uint p); cbn in E; try discriminate. now apply NN.
Qed.

Lemma digits_free D a : (forall c, is_digit c = true -> D c = false) -> forallb is_digit a = true -> free D a.
Proof.
  intros I. unfold free. rewrite !forallb_forall. intros F c Ic. rewrite negb_true_iff. auto.
Qed.

Lemma dec_free D n : (forall c, is_digit c = true -> D c = false) -> free D (dec n).
Proof. intros I. apply digits_free; auto. apply dec_digits. Qed.

(* dec n followed by a non-digit *)
Lemma dec_split D n m r1 r2 :
  (forall c, is_digit c = true -> D c = false) -> headD D r1 -> headD D r2 ->
  dec n ++ r1 = dec m ++ r2 -> n = m /\ r1 = r2.
Proof.
  intros I H1 H2 E. destruct (split_first D (dec n) (dec m) r1 r2) as [A B]; auto using dec_free.
  split; auto. now apply dec_inj.
Qed.

Lemma app_inv_len {A} (a1 a2 b1 b2 : list A) :
  a1 ++ b1 = a2 ++ b2 -> length b1 = length b2 -> a1 = a2 /\ b1 = b2.
Proof.
  revert a2. induction a1 as [|x a1 IH]; intros [|y a2] E L.
  - auto.
  - apply (f_equal (@length A)) in E. cbn in E. rewrite app_length in E. lia.
  - apply (f_equal (@length A)) in E. cbn in E. rewrite app_length in E. lia.
  - cbn in E. injection E as -> E. destruct (IH _ E L) as [-> ->]. auto.
Qed.

Lemma is_digit_range c : is_digit c = true <-> 48 <= c <= 57.
Proof. unfold is_digit. rewrite andb_true_iff, !N.leb_le. tauto. Qed.
