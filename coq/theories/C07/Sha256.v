(* SHA-256 (FIPS 180-4) and base64 RawURLEncoding over byte lists, executable.
   Used only to run the model of abi.Builder.TypeName on concrete inputs in the
   correspondence check; the theorems never unfold it (they are stated for an
   arbitrary hash H with an injectivity hypothesis). *)
From LLGoV Require Import Lib.Common.
Local Open Scope N_scope.

Definition w32 : N := 4294967296.
Definition m32 (x : N) : N := N.land x 4294967295.
Definition add32 (a b : N) : N := m32 (a + b).
Definition rotr (n x : N) : N := m32 (N.lor (N.shiftr x n) (N.shiftl x (32 - n))).
Definition not32 (x : N) : N := N.lxor x 4294967295.

Definition ch (x y z : N) := N.lxor (N.land x y) (N.land (not32 x) z).
Definition maj (x y z : N) := N.lxor (N.lxor (N.land x y) (N.land x z)) (N.land y z).
Definition bsig0 x := N.lxor (N.lxor (rotr 2 x) (rotr 13 x)) (rotr 22 x).
Definition bsig1 x := N.lxor (N.lxor (rotr 6 x) (rotr 11 x)) (rotr 25 x).
Definition ssig0 x := N.lxor (N.lxor (rotr 7 x) (rotr 18 x)) (N.shiftr x 3).
Definition ssig1 x := N.lxor (N.lxor (rotr 17 x) (rotr 19 x)) (N.shiftr x 10).

Definition sha_k : list N :=
 [1116352408;1899447441;3049323471;3921009573;961987163;1508970993;2453635748;2870763221;
  3624381080;310598401;607225278;1426881987;1925078388;2162078206;2614888103;3248222580;
  3835390401;4022224774;264347078;604807628;770255983;1249150122;1555081692;1996064986;
  2554220882;2821834349;2952996808;3210313671;3336571891;3584528711;113926993;338241895;
  666307205;773529912;1294757372;1396182291;1695183700;1986661051;2177026350;2456956037;
  2730485921;2820302411;3259730800;3345764771;3516065817;3600352804;4094571909;275423344;
  430227734;506948616;659060556;883997877;958139571;1322822218;1537002063;1747873779;
  1955562222;2024104815;2227730452;2361852424;2428436474;2756734187;3204031479;3329325298].

Definition sha_h0 : list N :=
 [1779033703;3144134277;1013904242;2773480762;1359893119;2600822924;528734635;1541459225].

Fixpoint words_of (bs : list N) : list N :=
  match bs with
  | a :: b :: c :: d :: r => (a * 16777216 + b * 65536 + c * 256 + d) :: words_of r
  | _ => []
  end.

(* message schedule: [win] holds the last 16 words, oldest first *)
Fixpoint sched (n : nat) (win : list N) : list N :=
  match n with
  | O => []
  | S n' =>
      let w := add32 (add32 (ssig1 (nth 14 win 0)) (nth 9 win 0))
                     (add32 (ssig0 (nth 1 win 0)) (nth 0 win 0)) in
      w :: sched n' (tl win ++ [w])
  end.

Definition st := (N * N * N * N * N * N * N * N)%type.

Definition round (s : st) (kw : N * N) : st :=
  let '(a, b, c, d, e, f, g, h) := s in
  let t1 := add32 (add32 (add32 h (bsig1 e)) (add32 (ch e f g) (fst kw))) (snd kw) in
  let t2 := add32 (bsig0 a) (maj a b c) in
  (add32 t1 t2, a, b, c, add32 d t1, e, f, g).

Definition block (s : st) (ws : list N) : st :=
  let w := ws ++ sched 48 ws in
  let '(a, b, c, d, e, f, g, h) := s in
  let '(a', b', c', d', e', f', g', h') := fold_left round (combine sha_k w) s in
  (add32 a a', add32 b b', add32 c c', add32 d d', add32 e e', add32 f f', add32 g g', add32 h h').

Fixpoint blocks (fuel : nat) (s : st) (ws : list N) : st :=
  match fuel with
  | O => s
  | S f' =>
      match ws with
      | [] => s
      | _ => blocks f' (block s (firstn 16 ws)) (skipn 16 ws)
      end
  end.

Definition be64 (n : N) : list N :=
  map (fun i => N.land (N.shiftr n (8 * i)) 255) [7; 6; 5; 4; 3; 2; 1; 0].

Definition pad (msg : list N) : list N :=
  let l := N.of_nat (length msg) in
  let k := (119 - (l mod 64)) mod 64 in          (* zero bytes: (l + 1 + k) mod 64 = 56 *)
  msg ++ [128] ++ repeat 0 (N.to_nat k) ++ be64 (8 * l).

Definition be32 (w : N) : list N :=
  [N.shiftr w 24; N.land (N.shiftr w 16) 255; N.land (N.shiftr w 8) 255; N.land w 255].

Definition sha256 (msg : list N) : list N :=
  let ws := words_of (pad msg) in
  let '(a, b, c, d, e, f, g, h) :=
    blocks (S (length ws)) (1779033703, 3144134277, 1013904242, 2773480762,
                           1359893119, 2600822924, 528734635, 1541459225) ws in
  be32 a ++ be32 b ++ be32 c ++ be32 d ++ be32 e ++ be32 f ++ be32 g ++ be32 h.

(* base64.RawURLEncoding *)
Definition b64c (i : N) : N :=
  if i <? 26 then 65 + i else if i <? 52 then 97 + (i - 26)
  else if i <? 62 then 48 + (i - 52) else if i =? 62 then 45 else 95.

Fixpoint b64url (bs : list N) : list N :=
  match bs with
  | a :: b :: c :: r =>
      b64c (N.shiftr a 2) :: b64c (N.land (a * 16 + N.shiftr b 4) 63)
      :: b64c (N.land (b * 4 + N.shiftr c 6) 63) :: b64c (N.land c 63) :: b64url r
  | [a; b] => [b64c (N.shiftr a 2); b64c (N.land (a * 16 + N.shiftr b 4) 63); b64c (N.land (b * 4) 63)]
  | [a] => [b64c (N.shiftr a 2); b64c (N.land (a * 16) 63)]
  | [] => []
  end.

Definition sha256_b64 (msg : list N) : list N := b64url (sha256 msg).
