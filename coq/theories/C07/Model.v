(* C07 - executable model of the run-time type naming of llgo
   (ssa/abi/abi.go: Builder.TypeName, StructName/structHash, FuncName/funcHash,
   InterfaceName/interfaceHash, NamedName, typeArgString, scopeIndices, PathOf,
   FullName, BasicName, IsClosure; ssa/abi/type.go: PublicType), of Go type
   identity (go/types Identical) over the same grammar, and of the method table
   search of runtime/internal/runtime/z_face.go (findMethod, NewItab, Implements).
   Strings are byte lists.  The hash is a parameter [H] (text -> base64 text). *)
From Coq Require Import Ascii String.
From LLGoV Require Export Lib.Common.
From LLGoV Require Import C07.Sha256.
Local Open Scope N_scope.

Definition lit (s : string) : str :=
  List.map (fun a => N.of_nat (nat_of_ascii a)) (list_ascii_of_string s).

(* ---------- the type grammar ---------- *)

Inductive dir := DBoth | DSend | DRecv.

(* where a type name is declared: package scope, a local scope (child indexes
   from the innermost scope outwards, as scopeIndex renders them), or an object
   that is in no scope chain of its package (rendered by position) *)
Inductive scope := ScPkg | ScLocal (ids : list N) | ScPos (p : N).

Inductive ty :=
| TBasic (k : N) (alias : bool)        (* go/types BasicKind 1..18; alias: spelled byte / rune *)
| TNamed (pkg : option str) (name : str) (targs : tys) (sc : scope)
| TPtr (e : ty)
| TSlice (e : ty)
| TArray (n : N) (e : ty)
| TMap (k e : ty)
| TChan (d : dir) (e : ty)
| TFunc (ps rs : tys) (variadic : bool)
| TStruct (fs : fields)
| TIface (ms : methods)                (* the method set, in go/types order *)
with tys :=
| TsNil
| TsCons (name : str) (t : ty) (r : tys)     (* name: parameter name, not part of identity *)
with fields :=
| FsNil
| FsCons (name : str) (emb : bool) (tag : str) (pkg : option str) (t : ty) (r : fields)
with methods :=
| MsNil
| MsCons (name : str) (pkg : option str) (ps rs : tys) (variadic : bool) (r : methods).

Scheme ty_mind := Induction for ty Sort Prop
  with tys_mind := Induction for tys Sort Prop
  with fields_mind := Induction for fields Sort Prop
  with methods_mind := Induction for methods Sort Prop.
Combined Scheme ty_mutind from ty_mind, tys_mind, fields_mind, methods_mind.

(* ---------- decimal rendering (strconv / fmt %v of a non-negative integer) ---------- *)

Fixpoint uint_bytes (u : Decimal.uint) : str :=
  match u with
  | Decimal.Nil => []
  | Decimal.D0 r => 48 :: uint_bytes r | Decimal.D1 r => 49 :: uint_bytes r
  | Decimal.D2 r => 50 :: uint_bytes r | Decimal.D3 r => 51 :: uint_bytes r
  | Decimal.D4 r => 52 :: uint_bytes r | Decimal.D5 r => 53 :: uint_bytes r
  | Decimal.D6 r => 54 :: uint_bytes r | Decimal.D7 r => 55 :: uint_bytes r
  | Decimal.D8 r => 56 :: uint_bytes r | Decimal.D9 r => 57 :: uint_bytes r
  end.
Definition dec (n : N) : str := uint_bytes (N.to_uint n).

(* ---------- literals ---------- *)

Definition s_llgo : str := Eval vm_compute in lit "_llgo_".
Definition s_any : str := Eval vm_compute in lit "_llgo_any".
Definition s_struct_ : str := Eval vm_compute in lit "_llgo_struct$".
Definition s_closure_ : str := Eval vm_compute in lit "_llgo_closure$".
Definition s_func_ : str := Eval vm_compute in lit "_llgo_func$".
Definition s_iface_ : str := Eval vm_compute in lit "_llgo_iface$".
Definition s_dstruct : str := Eval vm_compute in lit ".struct$".
Definition s_diface : str := Eval vm_compute in lit ".iface$".
Definition s_struct : str := Eval vm_compute in lit "struct".
Definition s_interface : str := Eval vm_compute in lit "interface".
Definition s_func : str := Eval vm_compute in lit "func".
Definition s_true : str := Eval vm_compute in lit "true".
Definition s_false : str := Eval vm_compute in lit "false".
Definition s_map : str := Eval vm_compute in lit "map[".
Definition s_chan : str := Eval vm_compute in lit "chan".
Definition s_chansend : str := Eval vm_compute in lit "chan<-".
Definition s_recvchan : str := Eval vm_compute in lit "<-chan".
Definition s_f : str := Eval vm_compute in lit "$f".
Definition s_data : str := Eval vm_compute in lit "$data".
Definition s_unsafe_pointer : str := Eval vm_compute in lit "unsafe.Pointer".
Definition s_byte : str := Eval vm_compute in lit "byte".
Definition s_rune : str := Eval vm_compute in lit "rune".
Definition s_patch : str := Eval vm_compute in lit "github.com/goplus/llgo/runtime/internal/lib/".
Definition c_nl : N := 10.
Definition c_sp : N := 32.
Definition c_dot : N := 46.
Definition c_star : N := 42.
Definition c_lb : N := 91.
Definition c_rb : N := 93.
Definition c_comma : N := 44.
Definition c_dash : N := 45.
Definition c_lp : N := 40.
Definition c_rp : N := 41.
Definition c_p : N := 112.

(* Basic.Name() by kind *)
Definition basic_names : list str := Eval vm_compute in
  List.map lit ["invalid"; "bool"; "int"; "int8"; "int16"; "int32"; "int64"; "uint"; "uint8";
            "uint16"; "uint32"; "uint64"; "uintptr"; "float32"; "float64"; "complex64";
            "complex128"; "string"; "Pointer"]%string.
Definition basic_name (k : N) : str := nth (N.to_nat k) basic_names [].

(* ---------- small string helpers ---------- *)

Definition is_nil {A} (l : list A) : bool := match l with [] => true | _ => false end.

Definition bool_str (b : bool) : str := if b then s_true else s_false.
Definition is_upper (c : N) : bool := (65 <=? c) && (c <=? 90).
(* token.IsExported / Object.Exported restricted to ASCII identifiers *)
Definition exported (name : str) : bool :=
  match name with c :: _ => is_upper c | [] => false end.

Fixpoint strip_prefix (p s : str) : option str :=
  match p, s with
  | [], _ => Some s
  | a :: p', b :: s' => if a =? b then strip_prefix p' s' else None
  | _ :: _, [] => None
  end.
(* abi.PathOf: strings.TrimPrefix(path, PatchPathPrefix) *)
Definition path_of (p : str) : str :=
  match strip_prefix s_patch p with Some r => r | None => p end.
(* abi.FullName *)
Definition full_name (pkg : option str) (name : str) : str :=
  match pkg with None => name | Some p => path_of p ++ [c_dot] ++ name end.

Definition ids_str (ids : list N) : str := flat_map (fun i => c_dot :: dec i) ids.
(* abi.scopeIndices *)
Definition scope_str (pkg : option str) (sc : scope) : str :=
  match pkg with
  | None => []
  | Some _ => match sc with
              | ScPkg => []
              | ScLocal ids => ids_str ids
              | ScPos p => if p =? 0 then [] else [c_dot; c_p] ++ dec p   (* pos.IsValid() *)
              end
  end.

Definition dir_str (d : dir) : str :=
  match d with DBoth => s_chan | DSend => s_chansend | DRecv => s_recvchan end.

Fixpoint join_comma (xs : list str) : str :=
  match xs with [] => [] | [x] => x | x :: r => x ++ [c_comma] ++ join_comma r end.

Fixpoint tys_len (ts : tys) : N := match ts with TsNil => 0 | TsCons _ _ r => 1 + tys_len r end.
Fixpoint fields_len (fs : fields) : N := match fs with FsNil => 0 | FsCons _ _ _ _ _ r => 1 + fields_len r end.
Fixpoint methods_len (ms : methods) : N := match ms with MsNil => 0 | MsCons _ _ _ _ _ r => 1 + methods_len r end.

(* ---------- typeArgString (rendering of type arguments inside names) ---------- *)

Definition s_fallback : str := [63].   (* types.TypeString fallback for func/struct/interface arguments: not modelled *)

Fixpoint targ_str (t : ty) : str :=
  match t with
  | TBasic k al =>
      if k =? 18 then s_unsafe_pointer
      else if al && (k =? 8) then s_byte else if al && (k =? 5) then s_rune else basic_name k
  | TNamed pkg name targs sc =>
      let n := name ++ (match targs with TsNil => [] | _ => [c_lb] ++ join_comma (targs_strs targs) ++ [c_rb] end)
                    ++ scope_str pkg sc in
      match pkg with Some p => path_of p ++ [c_dot] ++ n | None => n end
  | TPtr e => c_star :: targ_str e
  | TSlice e => [c_lb; c_rb] ++ targ_str e
  | TArray n e => [c_lb] ++ dec n ++ [c_rb] ++ targ_str e
  | TMap k e => s_map ++ targ_str k ++ [c_rb] ++ targ_str e
  | TChan d e =>
      let es := targ_str e in
      let es' := match d, e with DBoth, TChan DRecv _ => [c_lp] ++ es ++ [c_rp] | _, _ => es end in
      dir_str d ++ [c_sp] ++ es'
  | _ => s_fallback
  end
with targs_strs (ts : tys) : list str :=
  match ts with TsNil => [] | TsCons _ t r => targ_str t :: targs_strs r end.

(* abi.NamedName *)
Definition named_name (name : str) (targs : tys) : str :=
  match targs with
  | TsNil => name
  | _ => name ++ [c_lb] ++ join_comma (targs_strs targs) ++ [c_rb]
  end.

(* ---------- IsClosure ---------- *)

Definition is_func (t : ty) : bool := match t with TFunc _ _ _ => true | _ => false end.
Definition is_unsafe_ptr (t : ty) : bool := match t with TBasic k _ => k =? 18 | _ => false end.
Definition is_closure (fs : fields) : bool :=
  match fs with
  | FsCons n1 _ _ _ t1 (FsCons n2 _ _ _ t2 FsNil) =>
      is_func t1 && str_eqb n1 s_f && is_unsafe_ptr t2 && str_eqb n2 s_data
  | _ => false
  end.

(* ---------- TypeName ---------- *)

(* fmt.Fprintln(h, func, params.Len(), results.Len(), t.Variadic()) *)
Definition func_hdr (np nr : N) (v : bool) : str :=
  s_func ++ [c_sp] ++ dec np ++ [c_sp] ++ dec nr ++ [c_sp] ++ bool_str v ++ [c_nl].

(* package recorded in the name: the first unexported member that has a package
   (structHash / interfaceHash: first member with pkg still empty and not Exported) *)
Fixpoint fields_pkg (acc : str) (fs : fields) {struct fs} : str :=
  match fs with
  | FsNil => acc
  | FsCons name _ _ pkg _ r =>
      fields_pkg (match acc, pkg with
                  | [], Some p => if exported name then acc else p
                  | _, _ => acc
                  end) r
  end.
Fixpoint methods_pkg (acc : str) (ms : methods) {struct ms} : str :=
  match ms with
  | MsNil => acc
  | MsCons name pkg _ _ _ r =>
      methods_pkg (match acc, pkg with
                   | [], Some p => if exported name then acc else p
                   | _, _ => acc
                   end) r
  end.

(* strconv.Quote restricted to printable ASCII (0x20..0x7e): only the quote and the backslash are escaped *)
Definition esc_byte (c : N) : str := if (c =? 34) || (c =? 92) then [92; c] else [c].
Definition quote_tag (s : str) : str := [34] ++ flat_map esc_byte s ++ [34].
(* types.Id: exported names are bare, others are qualified by the package path (_ when there is none) *)
Definition method_id (name : str) (pkg : option str) : str :=
  if exported name then name
  else (match pkg with Some (c :: p) => c :: p | _ => [95] end) ++ [c_dot] ++ name.

Section Name.
(* fx = true: the code after the fixes of structHash (tags hashed when non-empty, embedded fields rendered
   as - followed by the field name) and interfaceHash (method Id instead of Name); fx = false: before *)
Variable fx : bool.
Variable H : str -> str.          (* base64.RawURLEncoding(sha256(text)) *)

(* [pm] = the caller applied PublicType first (tuple elements of signatures) *)
Fixpoint tn (pm : bool) (t : ty) : str * bool :=
  match t with
  | TBasic k _ => (s_llgo ++ basic_name k, true)
  | TPtr e => let r := tn false e in (c_star :: fst r, snd r)
  | TStruct fs =>
      if pm && is_closure fs then
        match fs with FsCons _ _ _ _ t0 _ => tn false t0 | FsNil => ([], false) end
      else
        let h := H (s_struct ++ [c_sp] ++ dec (fields_len fs) ++ [c_nl] ++ field_lines fs) in
        if is_closure fs then (s_closure_ ++ h, true)
        else match fields_pkg [] fs with
             | [] => (s_struct_ ++ h, false)
             | p => (p ++ s_dstruct ++ h, false)
             end
  | TFunc ps rs v =>
      (s_func_ ++ H (func_hdr (tys_len ps) (tys_len rs) v ++ tuple_lines ps ++ tuple_lines rs), true)
  | TSlice e => let r := tn false e in ([c_lb; c_rb] ++ fst r, snd r)
  | TArray n e => let r := tn false e in ([c_lb] ++ dec n ++ [c_rb] ++ fst r, snd r)
  | TNamed pkg name targs sc =>
      let ids := scope_str pkg sc in
      (s_llgo ++ full_name pkg (named_name name targs ++ ids),
       match pkg with None => true | Some _ => exported name && (match ids with [] => true | _ => false end) end)
  | TIface ms =>
      match ms with
      | MsNil => (s_any, true)
      | _ =>
          let h := H (s_interface ++ [c_sp] ++ dec (methods_len ms) ++ [c_nl] ++ method_lines ms) in
          match methods_pkg [] ms with
          | [] => (s_iface_ ++ h, true)
          | p => (p ++ s_diface ++ h, false)
          end
      end
  | TMap k e =>
      let a := tn false k in let b := tn false e in
      (s_map ++ fst a ++ [c_rb] ++ fst b, snd a && snd b)
  | TChan d e => let r := tn false e in (dir_str d ++ [c_sp] ++ fst r, snd r)
  end
with tuple_lines (ts : tys) : str :=
  match ts with
  | TsNil => []
  | TsCons _ t r => fst (tn true t) ++ [c_nl] ++ tuple_lines r
  end
with field_lines (fs : fields) : str :=
  match fs with
  | FsNil => []
  | FsCons name emb tag _ t r =>
      (if emb then (if fx then c_dash :: name else [c_dash]) else name) ++ [c_sp] ++ fst (tn false t)
      ++ (if fx && negb (is_nil tag) then [c_sp] ++ quote_tag tag else []) ++ [c_nl] ++ field_lines r
  end
with method_lines (ms : methods) : str :=
  match ms with
  | MsNil => []
  | MsCons name pkg ps rs v r =>
      (if fx then method_id name pkg else name) ++ [c_sp]
      ++ (s_func_ ++ H (func_hdr (tys_len ps) (tys_len rs) v ++ tuple_lines ps ++ tuple_lines rs))
      ++ [c_nl] ++ method_lines r
  end.

Definition type_name (t : ty) : str * bool := tn false t.
End Name.

(* the concrete instance compared with the implementation *)
Definition type_name_sha (t : ty) : str * bool := type_name true sha256_b64 t.

(* ---------- Go type identity (go/types Identical, no type parameters) ---------- *)

Definition ostr_eqb := option_eqb str_eqb.
Definition dir_eqb (a b : dir) : bool :=
  match a, b with DBoth, DBoth | DSend, DSend | DRecv, DRecv => true | _, _ => false end.
Definition scope_eqb (a b : scope) : bool :=
  match a, b with
  | ScPkg, ScPkg => true
  | ScLocal x, ScLocal y => list_eqb N.eqb x y
  | ScPos x, ScPos y => x =? y
  | _, _ => false
  end.
(* go/types sameId: equal names, and equal packages unless exported *)
Definition same_id (n1 : str) (p1 : option str) (n2 : str) (p2 : option str) : bool :=
  str_eqb n1 n2 && (exported n1 || ostr_eqb p1 p2).

Fixpoint identb (a b : ty) : bool :=
  match a, b with
  | TBasic k1 _, TBasic k2 _ => k1 =? k2
  | TNamed p1 n1 ta1 s1, TNamed p2 n2 ta2 s2 =>
      ostr_eqb p1 p2 && str_eqb n1 n2 && scope_eqb s1 s2 && identb_tys ta1 ta2
  | TPtr e1, TPtr e2 => identb e1 e2
  | TSlice e1, TSlice e2 => identb e1 e2
  | TArray n1 e1, TArray n2 e2 => (n1 =? n2) && identb e1 e2
  | TMap k1 e1, TMap k2 e2 => identb k1 k2 && identb e1 e2
  | TChan d1 e1, TChan d2 e2 => dir_eqb d1 d2 && identb e1 e2
  | TFunc ps1 rs1 v1, TFunc ps2 rs2 v2 => Bool.eqb v1 v2 && identb_tys ps1 ps2 && identb_tys rs1 rs2
  | TStruct f1, TStruct f2 => identb_fields f1 f2
  | TIface m1, TIface m2 => identb_methods m1 m2
  | _, _ => false
  end
with identb_tys (a b : tys) : bool :=
  match a, b with
  | TsNil, TsNil => true
  | TsCons _ t1 r1, TsCons _ t2 r2 => identb t1 t2 && identb_tys r1 r2
  | _, _ => false
  end
with identb_fields (a b : fields) : bool :=
  match a, b with
  | FsNil, FsNil => true
  | FsCons n1 e1 tg1 p1 t1 r1, FsCons n2 e2 tg2 p2 t2 r2 =>
      Bool.eqb e1 e2 && same_id n1 p1 n2 p2 && str_eqb tg1 tg2 && identb t1 t2 && identb_fields r1 r2
  | _, _ => false
  end
with identb_methods (a b : methods) : bool :=
  match a, b with
  | MsNil, MsNil => true
  | MsCons n1 p1 ps1 rs1 v1 r1, MsCons n2 p2 ps2 rs2 v2 r2 =>
      same_id n1 p1 n2 p2 && Bool.eqb v1 v2 && identb_tys ps1 ps2 && identb_tys rs1 rs2
      && identb_methods r1 r2
  | _, _ => false
  end.

(* ---------- method tables: z_face.go findMethod / NewItab / Implements ---------- *)

Record meth := Meth { m_name : str; m_typ : N; m_ifn : N }.    (* m_typ: descriptor identity; m_ifn = 0: nil *)
Record imeth := IMeth { im_name : str; im_typ : N }.

(* Name_ of a method in a type's method table (ssa/abitype.go abiUncommonMethods) and of an interface
   method (abiInterfaceImethods): exported names are bare, unexported ones are FullName(declaring package
   of the METHOD, name) - for a promoted method that is the embedded type's package, not the receiver's *)
Definition table_name (name : str) (decl_pkg : option str) : str :=
  if exported name then name else full_name decl_pkg name.

(* Go string comparison: bytewise lexicographic *)
Fixpoint str_ltb (a b : str) : bool :=
  match a, b with
  | _, [] => false
  | [], _ :: _ => true
  | x :: a', y :: b' => if x <? y then true else if y <? x then false else str_ltb a' b'
  end.
Definition str_geb (a b : str) : bool := negb (str_ltb a b).

(* findMethod: (fn, matched) rendered as option fn *)
Fixpoint find_method (mt : list meth) (im : imeth) : option N :=
  match mt with
  | [] => None
  | m :: r =>
      if str_geb (m_name m) (im_name im) then
        if str_eqb (m_name m) (im_name im) && (m_typ m =? im_typ im) then Some (m_ifn m) else None
      else find_method r im
  end.

(* the fun[] slots NewItab fills before it stops; None = some interface method
   was not matched (fun[0] is then set to 0) *)
Fixpoint itab_slots (inter : list imeth) (mt : list meth) : option (list N) :=
  match inter with
  | [] => Some []
  | im :: r =>
      match find_method mt im with
      | None => None
      | Some fn => match itab_slots r mt with Some s => Some (fn :: s) | None => None end
      end
  end.

(* NewItab for a type with method table [mt] ([None]: no uncommon part) and an
   interface with at least one method: Some slots when the itab is usable
   (fun[0] <> 0), None when the caller sees fun[0] = 0 *)
Definition new_itab (inter : list imeth) (mt : option (list meth)) : option (list N) :=
  match mt with
  | None => None
  | Some mt =>
      match itab_slots inter mt with
      | Some (f0 :: s) => if f0 =? 0 then None else Some (f0 :: s)
      | _ => None
      end
  end.

(* Implements, concrete-type branch: one simultaneous scan *)
Fixpoint impl_scan (t : list imeth) (v : list meth) : bool :=
  match t with
  | [] => true
  | tm :: t' =>
      (fix go (v : list meth) : bool :=
         match v with
         | [] => false
         | vm :: v' =>
             if str_eqb (m_name vm) (im_name tm) && (m_typ vm =? im_typ tm)
             then impl_scan t' v' else go v'
         end) v
  end.
Definition is_some {A} (o : option A) : bool := match o with Some _ => true | None => false end.
(* fixed = false: the one simultaneous scan; fixed = true: one findMethod per interface method *)
Definition implements (fixed : bool) (t : list imeth) (v : option (list meth)) : bool :=
  match t with
  | [] => true
  | _ => match v with
         | None => false
         | Some v => if fixed then forallb (fun im => is_some (find_method v im)) t else impl_scan t v
         end
  end.

(* comparison helpers for the correspondence *)
Definition name_res_eqb (a b : str * bool) : bool := str_eqb (fst a) (fst b) && Bool.eqb (snd a) (snd b).
Definition ostrN_eqb := option_eqb (list_eqb N.eqb).

(* ---------- well-formedness (guards of the injectivity theorems) ---------- *)

Definition is_digit (c : N) : bool := (48 <=? c) && (c <=? 57).
Definition ident_char (c : N) : bool :=
  is_upper c || ((97 <=? c) && (c <=? 122)) || is_digit c || (c =? 95).
(* ASCII Go identifier *)
Definition wf_ident (s : str) : bool :=
  match s with [] => false | c :: _ => negb (is_digit c) && forallb ident_char s end.
(* import path characters: letters, digits and - . _ ~ / + *)
Definition path_char (c : N) : bool :=
  ident_char c || (c =? 45) || (c =? 46) || (c =? 47) || (c =? 126) || (c =? 43).
(* no dot in the last path element *)
Fixpoint last_elem_nodot (p : str) (ok : bool) : bool :=
  match p with
  | [] => ok
  | c :: r => if c =? 47 then last_elem_nodot r true
              else if c =? 46 then last_elem_nodot r false else last_elem_nodot r ok
  end.
Definition wf_path (p : str) : bool :=
  negb (is_nil p) && forallb path_char p && last_elem_nodot p true
  && match strip_prefix s_patch p with None => true | Some _ => false end.

Definition s_error : str := Eval vm_compute in lit "error".
Definition wf_scope (sc : scope) : bool :=
  match sc with ScPkg => true | ScLocal ids => negb (is_nil ids) | ScPos p => negb (p =? 0) end.

Definition wf_tag (tag : str) : bool := forallb (fun c => (32 <=? c) && (c <=? 126)) tag.
Definition struct_pkg (fs : fields) : str :=
  match fs with FsCons _ _ _ (Some p) _ _ => p | _ => [] end.

(* types without generic instances: ASCII identifiers, sane import paths, all fields of a
   struct literal declared in one package, struct tags over printable ASCII *)
Fixpoint wf (t : ty) : bool :=
  match t with
  | TBasic k _ => (1 <=? k) && (k <=? 18)
  | TNamed None name TsNil ScPkg => str_eqb name s_error
  | TNamed (Some p) name TsNil sc => wf_path p && wf_ident name && wf_scope sc
  | TNamed _ _ _ _ => false
  | TPtr e => wf e
  | TSlice e => wf e
  | TArray _ e => wf e
  | TChan _ e => wf e
  | TMap k e => wf k && wf e
  | TFunc ps rs _ => wf_tys ps && wf_tys rs
  | TStruct fs => wf_fields (struct_pkg fs) fs && (is_nil (struct_pkg fs) && match fs with FsNil => true | _ => false end || wf_path (struct_pkg fs))
  | TIface ms => wf_methods ms
  end
with wf_tys (ts : tys) : bool :=
  match ts with TsNil => true | TsCons _ t r => wf t && wf_tys r end
with wf_fields (P : str) (fs : fields) : bool :=
  match fs with
  | FsNil => true
  | FsCons n emb tag pkg t r =>
      ostr_eqb pkg (Some P) && wf_tag tag && wf t && wf_ident n && wf_fields P r
  end
with wf_methods (ms : methods) : bool :=
  match ms with
  | MsNil => true
  | MsCons n pkg ps rs _ r =>
      match pkg with Some p => wf_path p | None => false end
      && wf_ident n && wf_tys ps && wf_tys rs && wf_methods r
  end.

(* type arguments whose rendering is canonical: no byte/rune spelling and no
   func/struct/interface argument (types.TypeString fallback, not modelled) *)
Fixpoint targ_plain (t : ty) : bool :=
  match t with
  | TBasic _ al => negb al
  | TNamed _ _ targs _ => targs_plain targs
  | TPtr e => targ_plain e
  | TSlice e => targ_plain e
  | TArray _ e => targ_plain e
  | TChan _ e => targ_plain e
  | TMap k e => targ_plain k && targ_plain e
  | _ => false
  end
with targs_plain (ts : tys) : bool :=
  match ts with TsNil => true | TsCons _ t r => targ_plain t && targs_plain r end.

(* every type-argument list occurring anywhere in t is plain *)
Fixpoint targs_ok (t : ty) : bool :=
  match t with
  | TBasic _ _ => true
  | TNamed _ _ targs _ => targs_plain targs
  | TPtr e => targs_ok e
  | TSlice e => targs_ok e
  | TArray _ e => targs_ok e
  | TChan _ e => targs_ok e
  | TMap k e => targs_ok k && targs_ok e
  | TFunc ps rs _ => targs_ok_tys ps && targs_ok_tys rs
  | TStruct fs => targs_ok_fields fs
  | TIface ms => targs_ok_methods ms
  end
with targs_ok_tys (ts : tys) : bool :=
  match ts with TsNil => true | TsCons _ t r => targs_ok t && targs_ok_tys r end
with targs_ok_fields (fs : fields) : bool :=
  match fs with FsNil => true | FsCons _ _ _ _ t r => targs_ok t && targs_ok_fields r end
with targs_ok_methods (ms : methods) : bool :=
  match ms with MsNil => true | MsCons _ _ ps rs _ r => targs_ok_tys ps && targs_ok_tys rs && targs_ok_methods r end.
