(* C07 - property theorems only.  H is the hash used in names (base64 of SHA-256 in
   the implementation); its collision freedom is an explicit premise, never an axiom. *)
From LLGoV Require Import C07.Model C07.Proofs.
From Coq Require Import Sorted.
Local Open Scope N_scope.

(* identical types have one run-time name (hence one descriptor), provided type
   arguments are spelled canonically: no byte/rune spelling and no func / struct /
   interface type argument (those go through types.TypeString, see the refutation) *)
Theorem identical_same_name : forall (H : str -> str) t1 t2,
  targs_ok t1 = true -> targs_ok t2 = true -> identb t1 t2 = true ->
  type_name H t1 = type_name H t2.
Proof. exact identical_same_name_lemma. Qed.
Print Assumptions identical_same_name.

Theorem targ_alias_refuted : forall H : str -> str, exists t1 t2,
  identb t1 t2 = true /\ fst (type_name H t1) <> fst (type_name H t2).
Proof. intros H. exists (w_g true), (w_g false). apply targ_alias_witness. Qed.
Print Assumptions targ_alias_refuted.

(* equal names imply identical types, proved on the rendered byte strings, for
   well-formed types: ASCII identifiers, import paths over letters digits - . _ ~ / +
   with no dot in the last element and outside the runtime patch prefix, members
   of one struct or interface literal declared in one package, embedded fields named
   after their type, NO struct tags, and (partial) no generic instances: type
   arguments are not covered by this theorem *)
Theorem type_name_injective_partial : forall (H : str -> str),
  (forall a b, H a = H b -> a = b) -> (forall x, forallb b64char (H x) = true) ->
  forall t1 t2, wf t1 = true -> wf t2 = true ->
  fst (type_name H t1) = fst (type_name H t2) -> identb t1 t2 = true.
Proof. exact type_name_injective_lemma. Qed.
Print Assumptions type_name_injective_partial.

(* the premises are satisfiable: the alphabet premise holds of the real hash, and wf
   admits nested composite types *)
Theorem sha256_b64_alphabet : forall x, forallb b64char (Sha256.sha256_b64 x) = true.
Proof. exact sha256_b64_alpha. Qed.
Print Assumptions sha256_b64_alphabet.

Example wf_nontrivial :
  wf (TMap (TArray 3 (TNamed (Some [120;47;97]) [84] TsNil (ScLocal [0;1])))
           (TStruct (FsCons [65] false [] (Some [97]) (TChan DRecv (TBasic 2 false))
                    (FsCons [84] true [] (Some [97]) (TPtr (TNamed (Some [97]) [84] TsNil ScPkg))
                    (FsCons [98] false [] (Some [97])
                       (TFunc (TsCons [120] (TSlice (TBasic 17 false)) TsNil) (TsCons [] (TNamed None s_error TsNil ScPkg) TsNil) true)
                       FsNil))))) = true.
Proof. reflexivity. Qed.

(* each guard of wf is needed: distinct types with one name, for every hash *)
Theorem struct_tag_refuted : forall H : str -> str, exists t1 t2,
  identb t1 t2 = false /\ type_name H t1 = type_name H t2.
Proof. intros H. exists w_tag_x, w_tag_y. apply struct_tag_witness. Qed.
Print Assumptions struct_tag_refuted.

Theorem embedded_alias_refuted : forall H : str -> str, exists t1 t2,
  identb t1 t2 = false /\ type_name H t1 = type_name H t2.
Proof. intros H. exists w_emb_A, w_emb_T. apply embedded_alias_witness. Qed.
Print Assumptions embedded_alias_refuted.

Theorem iface_second_pkg_refuted : forall H : str -> str, exists t1 t2,
  identb t1 t2 = false /\ type_name H t1 = type_name H t2.
Proof. intros H. exists (w_if p_xa), (w_if p_xb). apply iface_second_pkg_witness. Qed.
Print Assumptions iface_second_pkg_refuted.

Theorem struct_second_pkg_refuted : forall H : str -> str, exists t1 t2,
  identb t1 t2 = false /\ type_name H t1 = type_name H t2.
Proof. intros H. exists (w_st p_xa), (w_st p_xb). apply struct_second_pkg_witness. Qed.
Print Assumptions struct_second_pkg_refuted.

Theorem scope_pos_dotted_path_refuted : forall H : str -> str, exists t1 t2,
  identb t1 t2 = false /\ type_name H t1 = type_name H t2.
Proof. intros H. exists w_pos, w_dot. apply scope_pos_dotted_path_witness. Qed.
Print Assumptions scope_pos_dotted_path_refuted.

Theorem closure_param_refuted : forall H : str -> str, exists t1 t2,
  identb t1 t2 = false /\ type_name H t1 = type_name H t2.
Proof. intros H. exists w_f1, w_f2. apply closure_param_witness. Qed.
Print Assumptions closure_param_refuted.

(* ---- interface satisfaction: NewItab / findMethod / Implements ---- *)

(* for a method table sorted strictly by name (types.NewMethodSet order) with non-nil
   function pointers, NewItab yields a usable itab exactly when every interface method
   has a same-name same-type method *)
Theorem implements_iff_methodset : forall inter mt,
  StronglySorted mlt mt -> Forall (fun m => m_ifn m <> 0) mt -> inter <> [] ->
  (new_itab inter (Some mt) <> None <-> Forall (has mt) inter).
Proof. exact new_itab_iff. Qed.
Print Assumptions implements_iff_methodset.

(* and slot i holds the function of the unique method of that name: the one a direct
   call on the concrete value reaches *)
Theorem itab_slot_is_direct_method : forall inter mt slots,
  StronglySorted mlt mt -> new_itab inter (Some mt) = Some slots ->
  Forall2 (fun im fn => exists m, In m mt /\ matches im m /\ m_ifn m = fn
                                  /\ forall m', In m' mt -> m_name m' = im_name im -> m' = m) inter slots.
Proof. exact new_itab_slots. Qed.
Print Assumptions itab_slot_is_direct_method.

(* the one-pass scan of Implements is right when BOTH lists are sorted by the same
   byte order of names *)
Theorem implements_scan_iff_sorted : forall t v,
  StronglySorted imlt t -> StronglySorted mlt v ->
  (implements t (Some v) = true <-> Forall (has v) t).
Proof. exact implements_iff. Qed.
Print Assumptions implements_scan_iff_sorted.

(* ... but interface method lists come in go/types order (exported names first), which
   is not the byte order of pkgpath.name: a type with all methods is rejected *)
Theorem implements_order_refuted : exists t v,
  StronglySorted mlt v /\ Forall (has v) t /\ implements t (Some v) = false
  /\ new_itab t (Some v) <> None.
Proof.
  exists w_inter, w_table. destruct implements_order_witness as (A & B & C & E).
  repeat split; auto. rewrite E. discriminate.
Qed.
Print Assumptions implements_order_refuted.

(* a matched method with a nil function pointer in slot 0 reads as not implemented *)
Theorem itab_nil_ifn_slot0_refuted : exists inter mt,
  StronglySorted mlt mt /\ Forall (has mt) inter /\ new_itab inter (Some mt) = None.
Proof. exists [IMeth [70] 1], [Meth [70] 1 0]. apply itab_nil_slot0_witness. Qed.
Print Assumptions itab_nil_ifn_slot0_refuted.

Example itab_nontrivial :
  new_itab [IMeth [66] 2; IMeth [65] 1] (Some [Meth [65] 1 7; Meth [66] 2 8; Meth [67] 1 9]) = Some [8; 7].
Proof. reflexivity. Qed.
