(* C07 - property theorems only.  H is the hash used in names (base64 of SHA-256 in
   the implementation); its collision freedom is an explicit premise, never an axiom.
   type_name fx: fx = true is the code after the fixes of structHash (tags hashed when
   non-empty, embedded field rendered as - followed by its name), interfaceHash (method Id)
   and Implements (one findMethod per interface method); fx = false is the code before. *)
From LLGoV Require Import C07.Model C07.Proofs.
From Coq Require Import Sorted.
Local Open Scope N_scope.

(* identical types have one run-time name (hence one descriptor), provided type
   arguments are spelled canonically: no byte/rune spelling and no func / struct /
   interface type argument (those go through types.TypeString, see the refutation) *)
Theorem identical_same_name : forall (fx : bool) (H : str -> str) t1 t2,
  targs_ok t1 = true -> targs_ok t2 = true -> identb t1 t2 = true ->
  type_name fx H t1 = type_name fx H t2.
Proof. exact identical_same_name_lemma. Qed.
Print Assumptions identical_same_name.

Theorem targ_alias_refuted : forall (fx : bool) (H : str -> str), exists t1 t2,
  identb t1 t2 = true /\ fst (type_name fx H t1) <> fst (type_name fx H t2).
Proof. intros fx H. exists (w_g true), (w_g false). apply targ_alias_witness. Qed.
Print Assumptions targ_alias_refuted.

(* equal names imply identical types, proved on the rendered byte strings of the FIXED
   code, for well-formed types: ASCII identifiers, import paths over letters digits
   - . _ ~ / + with no dot in the last element and outside the runtime patch prefix, fields
   of one struct literal declared in one package, struct tags over printable ASCII (where
   strconv.Quote escapes only the quote and the backslash), interface methods of any
   packages, and (partial) no generic instances: type arguments are not covered *)
Theorem type_name_injective_partial : forall (H : str -> str),
  (forall a b, H a = H b -> a = b) -> (forall x, forallb b64char (H x) = true) ->
  forall t1 t2, wf t1 = true -> wf t2 = true ->
  fst (type_name true H t1) = fst (type_name true H t2) -> identb t1 t2 = true.
Proof. exact type_name_injective_lemma. Qed.
Print Assumptions type_name_injective_partial.

(* the premises are satisfiable: the alphabet premise holds of the real hash, and wf
   admits nested composite types *)
Theorem sha256_b64_alphabet : forall x, forallb b64char (Sha256.sha256_b64 x) = true.
Proof. exact sha256_b64_alpha. Qed.
Print Assumptions sha256_b64_alphabet.

Example wf_nontrivial :
  wf (TMap (TArray 3 (TNamed (Some [120;47;97]) [84] TsNil (ScLocal [0;1])))
           (TStruct (FsCons [65] false [106;115;111;110;58;34;97;34] (Some [97]) (TChan DRecv (TBasic 2 false))
                    (FsCons [65;108] true [] (Some [97]) (TPtr (TNamed (Some [97]) [84] TsNil ScPkg))
                    (FsCons [98] false [] (Some [97])
                       (TFunc (TsCons [120] (TSlice (TBasic 17 false)) TsNil) (TsCons [] (TNamed None s_error TsNil ScPkg) TsNil) true)
                    (FsCons [105] false [] (Some [97]) (w_if p_xb)
                       FsNil)))))) = true.
Proof. reflexivity. Qed.

(* the three defects that were repaired: before the fix (fx = false) the pair shares a name
   for every hash; after it (fx = true) the names differ for every collision-free hash *)
Theorem struct_tag_refuted : forall H : str -> str, exists t1 t2,
  identb t1 t2 = false /\ type_name false H t1 = type_name false H t2.
Proof. intros H. exists w_tag_x, w_tag_y. apply struct_tag_witness. Qed.
Print Assumptions struct_tag_refuted.

Theorem embedded_alias_refuted : forall H : str -> str, exists t1 t2,
  identb t1 t2 = false /\ type_name false H t1 = type_name false H t2.
Proof. intros H. exists w_emb_A, w_emb_T. apply embedded_alias_witness. Qed.
Print Assumptions embedded_alias_refuted.

Theorem iface_second_pkg_refuted : forall H : str -> str, exists t1 t2,
  identb t1 t2 = false /\ type_name false H t1 = type_name false H t2.
Proof. intros H. exists (w_if p_xa), (w_if p_xb). apply iface_second_pkg_witness. Qed.
Print Assumptions iface_second_pkg_refuted.

Theorem fixed_separates_witnesses : forall (H : str -> str),
  (forall a b, H a = H b -> a = b) -> (forall x, forallb b64char (H x) = true) ->
  fst (type_name true H w_tag_x) <> fst (type_name true H w_tag_y)
  /\ fst (type_name true H w_emb_A) <> fst (type_name true H w_emb_T)
  /\ fst (type_name true H (w_if p_xa)) <> fst (type_name true H (w_if p_xb)).
Proof.
  intros H HI HA. repeat split; intros E;
    apply (type_name_injective_lemma H HI HA) in E; try reflexivity; discriminate E.
Qed.
Print Assumptions fixed_separates_witnesses.

(* guards that remain necessary, before and after the fix *)
Theorem struct_second_pkg_refuted : forall (fx : bool) (H : str -> str), exists t1 t2,
  identb t1 t2 = false /\ type_name fx H t1 = type_name fx H t2.
Proof. intros fx H. exists (w_st p_xa), (w_st p_xb). apply struct_second_pkg_witness. Qed.
Print Assumptions struct_second_pkg_refuted.

Theorem scope_pos_dotted_path_refuted : forall (fx : bool) (H : str -> str), exists t1 t2,
  identb t1 t2 = false /\ type_name fx H t1 = type_name fx H t2.
Proof. intros fx H. exists w_pos, w_dot. apply scope_pos_dotted_path_witness. Qed.
Print Assumptions scope_pos_dotted_path_refuted.

Theorem closure_param_refuted : forall (fx : bool) (H : str -> str), exists t1 t2,
  identb t1 t2 = false /\ type_name fx H t1 = type_name fx H t2.
Proof. intros fx H. exists w_f1, w_f2. apply closure_param_witness. Qed.
Print Assumptions closure_param_refuted.

(* ---- interface satisfaction: NewItab / findMethod / Implements ---- *)

(* for a method table sorted strictly by name (types.NewMethodSet order) with non-nil
   function pointers, NewItab yields a usable itab exactly when every interface method
   has a same-name same-type method *)
Theorem implements_iff_methodset : forall inter mt,
  StronglySorted mlt mt -> Forall (fun m => m_ifn m <> 0) mt -> inter <> [] ->
  (new_itab inter (Some mt) <> None <-> Forall (has mt) inter).
Proof. exact new_itab_iff. Qed.
Print Assumptions implements_iff_methodset.

(* and slot i holds the function of the unique method of that name: the one a direct
   call on the concrete value reaches *)
Theorem itab_slot_is_direct_method : forall inter mt slots,
  StronglySorted mlt mt -> new_itab inter (Some mt) = Some slots ->
  Forall2 (fun im fn => exists m, In m mt /\ matches im m /\ m_ifn m = fn
                                  /\ forall m', In m' mt -> m_name m' = im_name im -> m' = m) inter slots.
Proof. exact new_itab_slots. Qed.
Print Assumptions itab_slot_is_direct_method.

(* Implements after the fix (one findMethod per interface method): true exactly when the
   method set includes the interface, whatever the order of the interface methods *)
Theorem implements_fixed_iff_methodset : forall t v,
  StronglySorted mlt v -> (implements true t (Some v) = true <-> Forall (has v) t).
Proof. exact implements_fixed_iff. Qed.
Print Assumptions implements_fixed_iff_methodset.

(* before the fix: the one-pass scan is right only when BOTH lists are sorted by the same
   byte order of names *)
Theorem implements_scan_iff_sorted : forall t v,
  StronglySorted imlt t -> StronglySorted mlt v ->
  (implements false t (Some v) = true <-> Forall (has v) t).
Proof. exact implements_iff. Qed.
Print Assumptions implements_scan_iff_sorted.

(* ... and interface method lists come in go/types order (exported names first), which is
   not the byte order of pkgpath.name: the old scan rejects a type with all methods, the
   repaired one accepts it *)
Theorem implements_order_refuted : exists t v,
  StronglySorted mlt v /\ Forall (has v) t /\ implements false t (Some v) = false
  /\ new_itab t (Some v) <> None /\ implements true t (Some v) = true.
Proof.
  exists w_inter, w_table. destruct implements_order_witness as (A & B & C & E & F).
  repeat split; auto. rewrite E. discriminate.
Qed.
Print Assumptions implements_order_refuted.

(* method tables and interface method lists name an unexported method by its DECLARING package and
   its name, so findMethod / Implements match methods exactly by go/types sameId: a promoted method of
   another package keeps that package, and an own method m of the embedding package is a different name *)
Theorem method_table_name_identity : forall n p n2 p2,
  wf_ident n = true -> wf_path p = true -> wf_ident n2 = true -> wf_path p2 = true ->
  (table_name n (Some p) = table_name n2 (Some p2) <-> same_id n (Some p) n2 (Some p2) = true).
Proof. exact (table_name_inj (fun x => x) (fun a b e => e)). Qed.
Print Assumptions method_table_name_identity.

Example promoted_method_name :
  table_name [109] (Some [120;47;114]) <> table_name [109] (Some [109;97;105;110])
  /\ table_name [80;117;98] (Some [120;47;114]) = table_name [80;117;98] (Some [109;97;105;110]).
Proof. split; [discriminate|reflexivity]. Qed.

(* a matched method with a nil function pointer in slot 0 reads as not implemented *)
Theorem itab_nil_ifn_slot0_refuted : exists inter mt,
  StronglySorted mlt mt /\ Forall (has mt) inter /\ new_itab inter (Some mt) = None.
Proof. exists [IMeth [70] 1], [Meth [70] 1 0]. apply itab_nil_slot0_witness. Qed.
Print Assumptions itab_nil_ifn_slot0_refuted.

Example itab_nontrivial :
  new_itab [IMeth [66] 2; IMeth [65] 1] (Some [Meth [65] 1 7; Meth [66] 2 8; Meth [67] 1 9]) = Some [8; 7].
Proof. reflexivity. Qed.
