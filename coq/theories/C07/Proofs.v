(* C07 - lemma index: the proofs live in PItab.v (method tables), PStr.v (strings),
   PName.v (identical types share a name; witnesses), PInj.v (equal names imply
   identical types).  This file adds the alphabet fact about the concrete hash. *)
From LLGoV Require Export C07.Model C07.PItab C07.PStr C07.PName C07.PInj.
From LLGoV Require Import C07.Sha256.
Local Open Scope N_scope.

Lemma b64c_alpha i : b64char (b64c i) = true.
Proof.
  unfold b64c. destruct (i <? 26) eqn:A; [apply N.ltb_lt in A; chr|].
  destruct (i <? 52) eqn:B; [apply N.ltb_lt in B; apply N.ltb_ge in A; chr|].
  destruct (i <? 62) eqn:C; [apply N.ltb_lt in C; apply N.ltb_ge in B; chr|].
  destruct (i =? 62); reflexivity.
Qed.

Lemma b64url_alpha : forall n bs, (length bs <= n)%nat -> forallb b64char (b64url bs) = true.
Proof.
  induction n as [|n IH]; intros bs L.
  - destruct bs; [reflexivity|cbn in L; lia].
  - destruct bs as [|a [|b [|c r]]]; try reflexivity.
    + cbn [b64url forallb]. now rewrite !b64c_alpha.
    + cbn [b64url forallb]. now rewrite !b64c_alpha.
    + cbn [b64url forallb]. rewrite !b64c_alpha. cbn [andb]. apply IH. cbn in L. lia.
Qed.

Lemma sha256_b64_alpha x : forallb b64char (sha256_b64 x) = true.
Proof. unfold sha256_b64. eapply b64url_alpha. reflexivity. Qed.
