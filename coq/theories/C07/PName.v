(* C07 - identical types have one name; witnesses where distinct types share a name *)
From LLGoV Require Import C07.Model C07.PItab C07.PStr.
Local Open Scope N_scope.

Section Same.
Variable fx : bool.
Variable H : str -> str.

Lemma ostr_eqb_eq a b : ostr_eqb a b = true -> a = b.
Proof.
  destruct a, b; cbn; try discriminate; auto. intros E. f_equal. now apply str_eqb_eq.
Qed.
Lemma scope_eqb_eq a b : scope_eqb a b = true -> a = b.
Proof.
  destruct a, b; cbn; try discriminate; auto.
  - intros E. f_equal. now apply N_eqb_list_eq.
  - intros E. f_equal. now apply N.eqb_eq.
Qed.
Lemma dir_eqb_eq a b : dir_eqb a b = true -> a = b.
Proof. destruct a, b; cbn; try discriminate; auto. Qed.

Definition is_recv_chan (t : ty) : bool := match t with TChan DRecv _ => true | _ => false end.
Definition is_both (d : dir) : bool := match d with DBoth => true | _ => false end.

Lemma targ_str_chan d e :
  targ_str (TChan d e) =
  dir_str d ++ [c_sp] ++ (if is_both d && is_recv_chan e then [c_lp] ++ targ_str e ++ [c_rp] else targ_str e).
Proof. destruct d; cbn [is_both andb]; try reflexivity. destruct e; try reflexivity. destruct d; reflexivity. Qed.

Lemma is_recv_chan_ident e e2 : identb e e2 = true -> is_recv_chan e = is_recv_chan e2.
Proof.
  destruct e, e2; cbn; try discriminate; auto.
  intros E. apply andb_true_iff in E as [E _]. apply dir_eqb_eq in E. now subst.
Qed.

Lemma same_id_name n1 p1 n2 p2 : same_id n1 p1 n2 p2 = true -> n1 = n2 /\ (exported n1 = true \/ p1 = p2).
Proof.
  unfold same_id. intros E. apply andb_true_iff in E as [A B]. apply str_eqb_eq in A. split; auto.
  apply orb_true_iff in B as [B|B]; auto. right. now apply ostr_eqb_eq.
Qed.

Ltac ands := repeat match goal with
  | E : _ && _ = true |- _ => apply andb_true_iff in E; destruct E
  end.
Ltac sid := repeat match goal with
  | E : same_id _ _ _ _ = true |- _ => apply same_id_name in E; destruct E as [? ?]; subst
  end.

Lemma is_func_ident a b : identb a b = true -> is_func a = is_func b.
Proof. destruct a, b; cbn; try discriminate; auto. Qed.
Lemma is_unsafe_ptr_ident a b : identb a b = true -> is_unsafe_ptr a = is_unsafe_ptr b.
Proof. destruct a, b; cbn; try discriminate; auto. intros E. apply N.eqb_eq in E. now subst. Qed.

Lemma is_closure_ident fs fs2 : identb_fields fs fs2 = true -> is_closure fs = is_closure fs2.
Proof.
  destruct fs as [|n1 e1 g1 p1 t1 r1], fs2 as [|m1 f1 h1 q1 u1 s1]; cbn [identb_fields]; try discriminate; auto.
  intros E. ands. sid.
  destruct r1 as [|n2 e2 g2 p2 t2 r2], s1 as [|m2 f2 h2 q2 u2 s2]; cbn [identb_fields] in *; try discriminate; auto.
  ands. sid.
  destruct r2, s2; cbn [identb_fields] in *; try discriminate; auto.
  cbn [is_closure].
  repeat match goal with
  | E : identb ?a ?b = true |- _ =>
      rewrite (is_func_ident a b E) || rewrite (is_unsafe_ptr_ident a b E); revert E
  end. intros. 
  repeat match goal with
  | E : identb ?a ?b = true |- _ =>
      try rewrite (is_func_ident a b E); try rewrite (is_unsafe_ptr_ident a b E); clear E
  end. reflexivity.
Qed.

Lemma tn_func pm ps rs v : tn fx H pm (TFunc ps rs v) =
  (s_func_ ++ H (func_hdr (tys_len ps) (tys_len rs) v ++ tuple_lines fx H ps ++ tuple_lines fx H rs), true).
Proof. reflexivity. Qed.
Lemma tn_struct pm fs : tn fx H pm (TStruct fs) =
  if pm && is_closure fs then
    match fs with FsCons _ _ _ _ t0 _ => tn fx H false t0 | FsNil => ([], false) end
  else
    let h := H (s_struct ++ [c_sp] ++ dec (fields_len fs) ++ [c_nl] ++ field_lines fx H fs) in
    if is_closure fs then (s_closure_ ++ h, true)
    else match fields_pkg [] fs with
         | [] => (s_struct_ ++ h, false)
         | p => (p ++ s_dstruct ++ h, false)
         end.
Proof. reflexivity. Qed.
Lemma tn_iface pm ms : tn fx H pm (TIface ms) =
  match ms with
  | MsNil => (s_any, true)
  | _ =>
      let h := H (s_interface ++ [c_sp] ++ dec (methods_len ms) ++ [c_nl] ++ method_lines fx H ms) in
      match methods_pkg [] ms with
      | [] => (s_iface_ ++ h, true)
      | p => (p ++ s_diface ++ h, false)
      end
  end.
Proof. reflexivity. Qed.
Lemma tuple_lines_cons n t r : tuple_lines fx H (TsCons n t r) = fst (tn fx H true t) ++ [c_nl] ++ tuple_lines fx H r.
Proof. reflexivity. Qed.
Lemma field_lines_cons n emb tag pkg t r : field_lines fx H (FsCons n emb tag pkg t r) =
  (if emb then (if fx then c_dash :: n else [c_dash]) else n) ++ [c_sp] ++ fst (tn fx H false t)
  ++ (if fx && negb (is_nil tag) then [c_sp] ++ quote_tag tag else []) ++ [c_nl] ++ field_lines fx H r.
Proof. reflexivity. Qed.
Lemma method_lines_cons n pkg ps rs v r : method_lines fx H (MsCons n pkg ps rs v r) =
  (if fx then method_id n pkg else n) ++ [c_sp] ++ (s_func_ ++ H (func_hdr (tys_len ps) (tys_len rs) v ++ tuple_lines fx H ps ++ tuple_lines fx H rs))
  ++ [c_nl] ++ method_lines fx H r.
Proof. reflexivity. Qed.

Lemma method_id_same n p q : (exported n = true \/ p = q) -> method_id n p = method_id n q.
Proof. unfold method_id. intros [-> | ->]; reflexivity. Qed.

Definition head_tn (fs : fields) : str * bool :=
  match fs with FsCons _ _ _ _ t0 _ => tn fx H false t0 | FsNil => ([], false) end.

Definition P_ty (t : ty) : Prop := forall t2, identb t t2 = true ->
  (targs_ok t = true -> targs_ok t2 = true -> forall pm, tn fx H pm t = tn fx H pm t2) /\
  (targ_plain t = true -> targ_plain t2 = true -> targ_str t = targ_str t2).
Definition P_tys (ts : tys) : Prop := forall ts2, identb_tys ts ts2 = true ->
  (targs_ok_tys ts = true -> targs_ok_tys ts2 = true ->
     tuple_lines fx H ts = tuple_lines fx H ts2 /\ tys_len ts = tys_len ts2) /\
  (targs_plain ts = true -> targs_plain ts2 = true -> targs_strs ts = targs_strs ts2) /\
  (ts = TsNil <-> ts2 = TsNil).
Definition P_fields (fs : fields) : Prop := forall fs2, identb_fields fs fs2 = true ->
  targs_ok_fields fs = true -> targs_ok_fields fs2 = true ->
  field_lines fx H fs = field_lines fx H fs2 /\ fields_len fs = fields_len fs2 /\
  (forall acc, fields_pkg acc fs = fields_pkg acc fs2) /\ head_tn fs = head_tn fs2.
Definition P_methods (ms : methods) : Prop := forall ms2, identb_methods ms ms2 = true ->
  targs_ok_methods ms = true -> targs_ok_methods ms2 = true ->
  method_lines fx H ms = method_lines fx H ms2 /\ methods_len ms = methods_len ms2 /\
  (forall acc, methods_pkg acc ms = methods_pkg acc ms2) /\ (ms = MsNil <-> ms2 = MsNil).

Lemma tys_nil_iff (a b : tys) : (a = TsNil <-> b = TsNil) ->
  match a with TsNil => true | _ => false end = match b with TsNil => true | _ => false end.
Proof. destruct a, b; auto; intros [A B]; try (specialize (A eq_refl); discriminate); specialize (B eq_refl); discriminate. Qed.

Lemma same_name_all :
  (forall t, P_ty t) /\ (forall ts, P_tys ts) /\ (forall fs, P_fields fs) /\ (forall ms, P_methods ms).
Proof.
  apply ty_mutind; unfold P_ty, P_tys, P_fields, P_methods.
  - (* basic *) intros k al [] E; cbn [identb] in E; try discriminate. apply N.eqb_eq in E. subst.
    split; [reflexivity|]. cbn [targ_plain]. intros A B. apply negb_true_iff in A, B. now subst.
  - (* named *) intros pkg name targs IH sc [] E; cbn [identb] in E; try discriminate. ands.
    repeat match goal with
    | E : ostr_eqb _ _ = true |- _ => apply ostr_eqb_eq in E
    | E : str_eqb _ _ = true |- _ => apply str_eqb_eq in E
    | E : scope_eqb _ _ = true |- _ => apply scope_eqb_eq in E
    end. subst.
    match goal with E : identb_tys _ _ = true |- _ => destruct (IH _ E) as (_ & S & NIL) end.
    cbn [targs_ok targ_plain].
    assert (N1 : targs_plain targs = true -> targs_plain targs0 = true ->
                 named_name name0 targs = named_name name0 targs0).
    { intros A B. unfold named_name. rewrite (S A B).
      destruct targs, targs0; try reflexivity; exfalso; destruct NIL as [N1 N2];
        try (specialize (N1 eq_refl); discriminate); try (specialize (N2 eq_refl); discriminate). }
    split.
    + intros A B pm. cbn [tn]. now rewrite (N1 A B).
    + intros A B. cbn [targ_str]. rewrite (S A B).
      destruct targs, targs0; try reflexivity; exfalso; destruct NIL as [M1 M2];
        try (specialize (M1 eq_refl); discriminate); try (specialize (M2 eq_refl); discriminate).
  - (* ptr *) intros e IH [] E; cbn [identb] in E; try discriminate. destruct (IH _ E) as [A B].
    split; cbn [targs_ok targ_plain tn targ_str]; intros X Y; [intros pm; now rewrite (A X Y false)|now rewrite (B X Y)].
  - (* slice *) intros e IH [] E; cbn [identb] in E; try discriminate. destruct (IH _ E) as [A B].
    split; cbn [targs_ok targ_plain tn targ_str]; intros X Y; [intros pm; now rewrite (A X Y false)|now rewrite (B X Y)].
  - (* array *) intros n e IH [] E; cbn [identb] in E; try discriminate. ands.
    match goal with E : (_ =? _) = true |- _ => apply N.eqb_eq in E; subst end.
    match goal with E : identb _ _ = true |- _ => destruct (IH _ E) as [A B] end.
    split; cbn [targs_ok targ_plain tn targ_str]; intros X Y; [intros pm; now rewrite (A X Y false)|now rewrite (B X Y)].
  - (* map *) intros k IHk e IHe [] E; cbn [identb] in E; try discriminate. ands.
    match goal with E : identb k _ = true |- _ => destruct (IHk _ E) as [A B] end.
    match goal with E : identb e _ = true |- _ => destruct (IHe _ E) as [C D] end.
    split; cbn [targs_ok targ_plain tn targ_str]; intros X Y; ands.
    + intros pm. rewrite (A ltac:(assumption) ltac:(assumption) false), (C ltac:(assumption) ltac:(assumption) false). reflexivity.
    + rewrite (B ltac:(assumption) ltac:(assumption)), (D ltac:(assumption) ltac:(assumption)). reflexivity.
  - (* chan *) intros d e IH [] E; cbn [identb] in E; try discriminate. ands.
    match goal with E : dir_eqb _ _ = true |- _ => apply dir_eqb_eq in E; subst end.
    match goal with E : identb _ _ = true |- _ => destruct (IH _ E) as [A B]; pose proof (is_recv_chan_ident _ _ E) as RC end.
    split.
    + cbn [targs_ok tn]. intros X Y pm. now rewrite (A X Y false).
    + cbn [targ_plain]. intros X Y. rewrite !targ_str_chan, (B X Y), RC. reflexivity.
  - (* func *) intros ps IHp rs IHr v [] E; cbn [identb] in E; try discriminate. ands.
    match goal with E : Bool.eqb _ _ = true |- _ => apply Bool.eqb_prop in E; subst end.
    match goal with E : identb_tys ps _ = true |- _ => destruct (IHp _ E) as (A & _) end.
    match goal with E : identb_tys rs _ = true |- _ => destruct (IHr _ E) as (B & _) end.
    split; [|cbn [targ_plain]; discriminate].
    cbn [targs_ok]. intros X Y pm. ands. rewrite !tn_func.
    destruct (A ltac:(assumption) ltac:(assumption)) as [-> ->].
    destruct (B ltac:(assumption) ltac:(assumption)) as [-> ->]. reflexivity.
  - (* struct *) intros fs IH [] E; cbn [identb] in E; try discriminate.
    split; [|cbn [targ_plain]; discriminate].
    cbn [targs_ok]. intros X Y pm. destruct (IH _ E X Y) as (A & B & C & D).
    rewrite !tn_struct. cbn zeta. rewrite A, B, (C []), (is_closure_ident _ _ E).
    destruct (pm && is_closure fs0) eqn:PC; [|reflexivity].
    destruct fs, fs0; cbn [head_tn identb_fields] in *; try discriminate; try reflexivity; exact D.
  - (* iface *) intros ms IH [] E; cbn [identb] in E; try discriminate.
    split; [|cbn [targ_plain]; discriminate].
    cbn [targs_ok]. intros X Y pm. destruct (IH _ E X Y) as (A & B & C & D).
    rewrite !tn_iface. cbn zeta. rewrite A, B, (C []).
    destruct ms, ms0; try reflexivity; exfalso; destruct D as [D1 D2];
      try (specialize (D1 eq_refl); discriminate); specialize (D2 eq_refl); discriminate.
  - (* TsNil *) intros [] E; cbn [identb_tys] in E; try discriminate. repeat split; auto.
  - (* TsCons *) intros nm t IHt r IHr [] E; cbn [identb_tys] in E; try discriminate. ands.
    match goal with E : identb t _ = true |- _ => destruct (IHt _ E) as [A B] end.
    match goal with E : identb_tys r _ = true |- _ => destruct (IHr _ E) as (C & D & _) end.
    split; [|split].
    + cbn [targs_ok_tys]. intros X Y. ands.
      destruct (C ltac:(assumption) ltac:(assumption)) as [C1 C2].
      rewrite !tuple_lines_cons. cbn [tys_len]. rewrite (A ltac:(assumption) ltac:(assumption) true), C1, C2. auto.
    + cbn [targs_plain]. intros X Y. ands. cbn [targs_strs].
      rewrite (B ltac:(assumption) ltac:(assumption)), (D ltac:(assumption) ltac:(assumption)). reflexivity.
    + split; discriminate.
  - (* FsNil *) intros [] E; cbn [identb_fields] in E; try discriminate. repeat split; auto.
  - (* FsCons *) intros n emb tag pkg t IHt r IHr [] E; cbn [identb_fields] in E; try discriminate. ands.
    match goal with E : Bool.eqb _ _ = true |- _ => apply Bool.eqb_prop in E; subst end.
    match goal with E : identb t _ = true |- _ => destruct (IHt _ E) as [A _] end.
    cbn [targs_ok_fields]. intros X Y. ands.
    match goal with E : identb_fields r _ = true |- _ => destruct (IHr _ E ltac:(assumption) ltac:(assumption)) as (C1 & C2 & C3 & _) end.
    pose proof (A ltac:(assumption) ltac:(assumption) false) as TN.
    match goal with E : same_id _ _ _ _ = true |- _ => apply same_id_name in E; destruct E as [-> SP] end.
    match goal with E : str_eqb tag _ = true |- _ => apply str_eqb_eq in E; subst end.
    rewrite !field_lines_cons. cbn [fields_len fields_pkg head_tn]. rewrite TN, C1, C2. repeat split; auto.
    intros acc. destruct SP as [SP| ->]; [|apply C3].
    rewrite SP. destruct acc; destruct pkg, pkg0; apply C3.
  - (* MsNil *) intros [] E; cbn [identb_methods] in E; try discriminate. repeat split; auto.
  - (* MsCons *) intros n pkg ps IHp rs IHr v r IHm [] E; cbn [identb_methods] in E; try discriminate. ands.
    match goal with E : Bool.eqb _ _ = true |- _ => apply Bool.eqb_prop in E; subst end.
    match goal with E : identb_tys ps _ = true |- _ => destruct (IHp _ E) as (A & _) end.
    match goal with E : identb_tys rs _ = true |- _ => destruct (IHr _ E) as (B & _) end.
    cbn [targs_ok_methods]. intros X Y. ands.
    match goal with E : identb_methods r _ = true |- _ => destruct (IHm _ E ltac:(assumption) ltac:(assumption)) as (C1 & C2 & C3 & _) end.
    destruct (A ltac:(assumption) ltac:(assumption)) as [A1 A2].
    destruct (B ltac:(assumption) ltac:(assumption)) as [B1 B2].
    match goal with E : same_id _ _ _ _ = true |- _ => apply same_id_name in E; destruct E as [-> SP] end.
    rewrite !method_lines_cons. cbn [methods_len methods_pkg]. rewrite A1, A2, B1, B2, C1, C2.
    rewrite (method_id_same _ _ _ SP). repeat split; auto; try discriminate.
    intros acc. destruct SP as [SP| ->]; [|apply C3].
    rewrite SP. destruct acc; destruct pkg, pkg0; apply C3.
Qed.

Theorem identical_same_name_lemma t1 t2 :
  targs_ok t1 = true -> targs_ok t2 = true -> identb t1 t2 = true -> type_name fx H t1 = type_name fx H t2.
Proof.
  intros A B E. destruct same_name_all as (S & _). destruct (S t1 t2 E) as [X _]. apply X; auto.
Qed.
End Same.

(* ---------- witnesses: distinct types, one name (for every hash) ---------- *)
Section Witness.
Variable fx : bool.
Variable H : str -> str.
Definition p_a : str := [97].                       (* a *)
Definition p_xa : str := [120; 47; 97].             (* x/a *)
Definition p_xb : str := [120; 47; 98].             (* x/b *)
Definition t_int := TBasic 2 false.
Definition named_aT := TNamed (Some p_a) [84] TsNil ScPkg.

(* F6: struct{A int `x`} vs struct{A int `y`} *)
Definition w_tag_x := TStruct (FsCons [65] false [120] (Some p_a) t_int FsNil).
Definition w_tag_y := TStruct (FsCons [65] false [121] (Some p_a) t_int FsNil).
Lemma struct_tag_witness : identb w_tag_x w_tag_y = false /\ type_name false H w_tag_x = type_name false H w_tag_y.
Proof. split; reflexivity. Qed.

(* struct{A} with A = T (alias) vs struct{T} *)
Definition w_emb_A := TStruct (FsCons [65] true [] (Some p_a) named_aT FsNil).
Definition w_emb_T := TStruct (FsCons [84] true [] (Some p_a) named_aT FsNil).
Lemma embedded_alias_witness : identb w_emb_A w_emb_T = false /\ type_name false H w_emb_A = type_name false H w_emb_T.
Proof. split; reflexivity. Qed.

(* interface{a.m(); x/a.n()} vs interface{a.m(); x/b.n()} *)
Definition w_if (p : str) := TIface (MsCons [109] (Some p_a) TsNil TsNil false (MsCons [110] (Some p) TsNil TsNil false MsNil)).
Lemma iface_second_pkg_witness : identb (w_if p_xa) (w_if p_xb) = false /\ type_name false H (w_if p_xa) = type_name false H (w_if p_xb).
Proof. split; reflexivity. Qed.

(* struct with unexported fields of two packages (go/types API only) *)
Definition w_st (p : str) := TStruct (FsCons [120] false [] (Some p_a) t_int (FsCons [121] false [] (Some p) t_int FsNil)).
Lemma struct_second_pkg_witness : identb (w_st p_xa) (w_st p_xb) = false /\ type_name fx H (w_st p_xa) = type_name fx H (w_st p_xb).
Proof. split; reflexivity. Qed.

(* position fallback vs dotted last path element: x/a . T .p5 *)
Definition w_pos := TNamed (Some p_xa) [84] TsNil (ScPos 5).
Definition w_dot := TNamed (Some (p_xa ++ [46; 84])) [112; 53] TsNil ScPkg.
Lemma scope_pos_dotted_path_witness : identb w_pos w_dot = false /\ type_name fx H w_pos = type_name fx H w_dot.
Proof. split; reflexivity. Qed.

(* the internal closure record as a parameter is named like its func type (PublicType, by design) *)
Definition w_sig := TFunc (TsCons [] t_int TsNil) TsNil false.
Definition w_clo := TStruct (FsCons s_f false [] None w_sig (FsCons s_data false [] None (TBasic 18 false) FsNil)).
Definition w_f1 := TFunc (TsCons [] w_clo TsNil) TsNil false.
Definition w_f2 := TFunc (TsCons [] w_sig TsNil) TsNil false.
Lemma closure_param_witness : identb w_f1 w_f2 = false /\ type_name fx H w_f1 = type_name fx H w_f2.
Proof. split; reflexivity. Qed.

(* one type, two names: G[byte] vs G[uint8] *)
Definition w_g (al : bool) := TNamed (Some p_xa) [71] (TsCons [] (TBasic 8 al) TsNil) ScPkg.
Lemma targ_alias_witness : identb (w_g true) (w_g false) = true /\ fst (type_name fx H (w_g true)) <> fst (type_name fx H (w_g false)).
Proof. split; [reflexivity|]. destruct fx; cbv; discriminate. Qed.
End Witness.
