(* C07 - lemmas about the method table search (findMethod / NewItab / Implements) *)
From LLGoV Require Import C07.Model.
From Coq Require Import Sorted.
Local Open Scope N_scope.

Lemma N_eqb_list_eq a b : list_eqb N.eqb a b = true <-> a = b.
Proof.
  split.
  - apply list_eqb_eq. intros x y E. now apply N.eqb_eq.
  - intros ->. apply list_eqb_refl. apply N.eqb_refl.
Qed.
Lemma str_eqb_iff a b : str_eqb a b = true <-> a = b.
Proof. apply N_eqb_list_eq. Qed.

Lemma str_ltb_irrefl a : str_ltb a a = false.
Proof. induction a as [|x a IH]; cbn; [reflexivity|]. now rewrite N.ltb_irrefl. Qed.

Lemma str_ltb_trans a : forall b c, str_ltb a b = true -> str_ltb b c = true -> str_ltb a c = true.
Proof.
  induction a as [|x a IH]; intros [|y b] [|z c]; cbn; try discriminate; auto.
  destruct (x <? y) eqn:Exy.
  - intros _. destruct (y <? z) eqn:Eyz.
    + intros _. apply N.ltb_lt in Exy, Eyz. assert (x < z) by lia. apply N.ltb_lt in H. now rewrite H.
    + destruct (z <? y) eqn:Ezy; [discriminate|]. intros _.
      apply N.ltb_lt in Exy. apply N.ltb_ge in Eyz, Ezy. assert (x < z) by lia. apply N.ltb_lt in H. now rewrite H.
  - destruct (y <? x) eqn:Eyx; [discriminate|]. intros Hab.
    apply N.ltb_ge in Exy, Eyx. assert (x = y) by lia. subst y.
    destruct (x <? z); [reflexivity|]. destruct (z <? x); [discriminate|]. now apply IH.
Qed.

Lemma str_ltb_total a : forall b, str_ltb a b = false -> str_ltb b a = false -> a = b.
Proof.
  induction a as [|x a IH]; intros [|y b]; cbn; try discriminate; auto.
  destruct (x <? y) eqn:Exy; [discriminate|]. destruct (y <? x) eqn:Eyx; [discriminate|].
  intros A B. apply N.ltb_ge in Exy, Eyx. assert (x = y) by lia. subst. f_equal. now apply IH.
Qed.

Lemma str_ltb_asym a b : str_ltb a b = true -> str_ltb b a = false.
Proof.
  intros A. destruct (str_ltb b a) eqn:B; [|reflexivity].
  pose proof (str_ltb_trans _ _ _ A B) as C. now rewrite str_ltb_irrefl in C.
Qed.

Definition mlt (a b : meth) : Prop := str_ltb (m_name a) (m_name b) = true.
Definition imlt (a b : imeth) : Prop := str_ltb (im_name a) (im_name b) = true.
Definition matches (im : imeth) (m : meth) : Prop := m_name m = im_name im /\ m_typ m = im_typ im.
Definition has (mt : list meth) (im : imeth) : Prop := exists m, In m mt /\ matches im m.

Lemma match_dec im m :
  (str_eqb (m_name m) (im_name im) && (m_typ m =? im_typ im)) = true <-> matches im m.
Proof.
  unfold matches. rewrite andb_true_iff, str_eqb_iff, N.eqb_eq. tauto.
Qed.

(* a strictly sorted table has unique names *)
Lemma sorted_unique mt : StronglySorted mlt mt ->
  forall m1 m2, In m1 mt -> In m2 mt -> m_name m1 = m_name m2 -> m1 = m2.
Proof.
  induction 1 as [|m mt S IH F]; intros m1 m2 I1 I2 E; [destruct I1|].
  rewrite Forall_forall in F.
  destruct I1 as [<-|I1], I2 as [<-|I2]; auto.
  - specialize (F _ I2). unfold mlt in F. rewrite E, str_ltb_irrefl in F. discriminate.
  - specialize (F _ I1). unfold mlt in F. rewrite <- E, str_ltb_irrefl in F. discriminate.
Qed.

Lemma find_method_sound mt im fn :
  find_method mt im = Some fn -> exists m, In m mt /\ matches im m /\ m_ifn m = fn.
Proof.
  induction mt as [|m mt IH]; cbn; [discriminate|].
  destruct (str_geb (m_name m) (im_name im)).
  - destruct (str_eqb (m_name m) (im_name im) && (m_typ m =? im_typ im)) eqn:E; [|discriminate].
    intros [= <-]. exists m. apply match_dec in E. auto.
  - intros F. destruct (IH F) as (m' & I & M & E). exists m'. auto.
Qed.

Lemma find_method_complete mt : StronglySorted mlt mt ->
  forall im m, In m mt -> matches im m -> find_method mt im = Some (m_ifn m).
Proof.
  induction 1 as [|m0 mt S IH F]; intros im m I M; [destruct I|].
  cbn. rewrite Forall_forall in F. destruct I as [<-|I].
  - destruct M as [Mn Mt]. unfold str_geb. rewrite Mn, str_ltb_irrefl. cbn.
    rewrite (proj2 (str_eqb_iff _ _) eq_refl). rewrite Mt, N.eqb_refl. reflexivity.
  - specialize (F _ I). unfold mlt in F. destruct M as [Mn Mt].
    unfold str_geb. rewrite <- Mn. rewrite F. cbn. apply IH; auto. split; auto.
Qed.

Lemma find_method_none mt : StronglySorted mlt mt ->
  forall im, find_method mt im = None -> ~ has mt im.
Proof.
  intros S im Fn (m & I & M). rewrite (find_method_complete mt S im m I M) in Fn. discriminate.
Qed.

Lemma Forall2_imp {A B} (P Q : A -> B -> Prop) l1 l2 :
  (forall a b, P a b -> Q a b) -> Forall2 P l1 l2 -> Forall2 Q l1 l2.
Proof. intros I F. induction F; constructor; auto. Qed.

(* slots: one per interface method, each the function of the matching method *)
Lemma itab_slots_sound inter : forall mt slots,
  itab_slots inter mt = Some slots ->
  Forall2 (fun im fn => exists m, In m mt /\ matches im m /\ m_ifn m = fn) inter slots.
Proof.
  induction inter as [|im inter IH]; cbn; intros mt slots.
  - intros [= <-]. constructor.
  - destruct (find_method mt im) as [fn|] eqn:F; [|discriminate].
    destruct (itab_slots inter mt) as [s|] eqn:R; [|discriminate].
    intros [= <-]. constructor; auto. now apply find_method_sound.
Qed.

Lemma itab_slots_some_iff inter mt : StronglySorted mlt mt ->
  (itab_slots inter mt <> None <-> Forall (has mt) inter).
Proof.
  intros S. induction inter as [|im inter IH]; cbn.
  - split; [constructor|discriminate].
  - destruct (find_method mt im) as [fn|] eqn:F.
    + destruct (itab_slots inter mt) as [s|] eqn:R.
      * split; [|discriminate]. intros _. constructor.
        -- destruct (find_method_sound _ _ _ F) as (m & I & M & _). exists m; auto.
        -- apply IH. discriminate.
      * split; [congruence|]. intros A. inversion A; subst. apply IH in H2. congruence.
    + split; [congruence|]. intros A. inversion A; subst.
      exfalso. eapply find_method_none; eauto.
Qed.

Lemma new_itab_iff inter mt :
  StronglySorted mlt mt -> Forall (fun m => m_ifn m <> 0) mt -> inter <> [] ->
  (new_itab inter (Some mt) <> None <-> Forall (has mt) inter).
Proof.
  intros S NZ NE. rewrite <- (itab_slots_some_iff inter mt S). unfold new_itab.
  destruct (itab_slots inter mt) as [slots|] eqn:E; [|tauto].
  pose proof (itab_slots_sound _ _ _ E) as F2.
  destruct slots as [|f0 s].
  - inversion F2; subst. congruence.
  - inversion F2 as [|im fn inter' s' (m & I & M & Efn) F2']; subst.
    rewrite Forall_forall in NZ. specialize (NZ _ I).
    destruct (m_ifn m =? 0) eqn:Z; [apply N.eqb_eq in Z; congruence|].
    split; intros _; discriminate.
Qed.

Lemma new_itab_slots inter mt slots :
  StronglySorted mlt mt -> new_itab inter (Some mt) = Some slots ->
  Forall2 (fun im fn => exists m, In m mt /\ matches im m /\ m_ifn m = fn
                                  /\ forall m', In m' mt -> m_name m' = im_name im -> m' = m) inter slots.
Proof.
  intros S. unfold new_itab.
  destruct (itab_slots inter mt) as [sl|] eqn:E; [|discriminate].
  destruct sl as [|f0 s]; [discriminate|].
  destruct (f0 =? 0); [discriminate|]. intros [= <-].
  pose proof (itab_slots_sound _ _ _ E) as F2.
  eapply Forall2_imp; [|exact F2]. cbn. intros im fn (m & I & M & Efn).
  exists m. repeat split; try apply M; auto.
  intros m' I' En. eapply sorted_unique; eauto. destruct M as [Mn _]. congruence.
Qed.

(* ---- Implements: the simultaneous scan ---- *)

Lemma impl_scan_cons tm t vm v :
  impl_scan (tm :: t) (vm :: v) =
  if str_eqb (m_name vm) (im_name tm) && (m_typ vm =? im_typ tm) then impl_scan t v
  else impl_scan (tm :: t) v.
Proof. reflexivity. Qed.

Lemma impl_scan_nil_r tm t : impl_scan (tm :: t) [] = false.
Proof. reflexivity. Qed.

Lemma impl_scan_sound t : forall v, impl_scan t v = true -> Forall (has v) t.
Proof.
  induction t as [|tm t IH]; intros v; [constructor|].
  induction v as [|vm v IHv]; [discriminate|].
  rewrite impl_scan_cons.
  destruct (str_eqb (m_name vm) (im_name tm) && (m_typ vm =? im_typ tm)) eqn:E.
  - intros A. apply IH in A. constructor.
    + exists vm. split; [now left|now apply match_dec].
    + eapply Forall_impl; [|exact A]. intros im (m & I & M). exists m. split; [now right|auto].
  - intros A. apply IHv in A. eapply Forall_impl; [|exact A].
    intros im (m & I & M). exists m. split; [now right|auto].
Qed.

Lemma impl_scan_complete v : StronglySorted mlt v ->
  forall t, StronglySorted imlt t -> Forall (has v) t -> impl_scan t v = true.
Proof.
  induction 1 as [|vm v Sv IH Fv]; intros t St A.
  - destruct t as [|tm t]; [reflexivity|]. inversion A as [|? ? (m & [] & _)].
  - destruct t as [|tm t]; [reflexivity|].
    rewrite impl_scan_cons. rewrite Forall_forall in Fv.
    inversion St as [|? ? St' Ft]; subst. rewrite Forall_forall in Ft.
    inversion A as [|? ? (m & I & M) A']; subst.
    destruct (str_eqb (m_name vm) (im_name tm) && (m_typ vm =? im_typ tm)) eqn:E.
    + apply match_dec in E. apply IH; auto.
      rewrite Forall_forall in *. intros im Iim. destruct (A' _ Iim) as (m' & [<-|I'] & M'); [|exists m'; auto].
      exfalso. specialize (Ft _ Iim). unfold imlt in Ft.
      destruct E as [En _], M' as [Mn' _]. rewrite <- En, <- Mn', str_ltb_irrefl in Ft. discriminate.
    + assert (Im : In m v).
      { destruct I as [<-|I]; auto. apply match_dec in M. congruence. }
      apply IH; auto. constructor; [exists m; auto|].
      rewrite Forall_forall in *. intros im Iim. destruct (A' _ Iim) as (m' & [<-|I'] & M'); [|exists m'; auto].
      exfalso. specialize (Ft _ Iim). specialize (Fv _ Im). unfold imlt in Ft. unfold mlt in Fv.
      destruct M as [Mn _], M' as [Mn' _]. rewrite <- Mn, <- Mn' in Ft.
      pose proof (str_ltb_trans _ _ _ Fv Ft) as C. now rewrite str_ltb_irrefl in C.
Qed.

Lemma implements_iff t v :
  StronglySorted imlt t -> StronglySorted mlt v ->
  (implements false t (Some v) = true <-> Forall (has v) t).
Proof.
  intros St Sv. destruct t as [|tm t]; cbn [implements].
  - split; [constructor|reflexivity].
  - split; [apply impl_scan_sound|now apply impl_scan_complete].
Qed.

(* the repaired Implements: one findMethod per interface method; no order is assumed of t *)
Lemma implements_fixed_iff t v :
  StronglySorted mlt v -> (implements true t (Some v) = true <-> Forall (has v) t).
Proof.
  intros Sv. destruct t as [|tm t]; cbn [implements]; [split; [constructor|reflexivity]|].
  rewrite forallb_forall, Forall_forall. split; intros A im I; specialize (A im I).
  - destruct (find_method v im) as [fn|] eqn:F; [|discriminate].
    destruct (find_method_sound _ _ _ F) as (m & Im & M & _). exists m; auto.
  - destruct A as (m & Im & M). now rewrite (find_method_complete v Sv im m Im M).
Qed.

(* the interface order of go/types (exported names first) is not the byte order of the
   type's table: A0/p.bar sorts before Foo there *)
Definition w_inter : list imeth :=
  [IMeth [70;111;111] 1; IMeth [65;48;47;112;46;98;97;114] 1].
Definition w_table : list meth :=
  [Meth [65;48;47;112;46;98;97;114] 1 7; Meth [70;111;111] 1 8].

Lemma implements_order_witness :
  StronglySorted mlt w_table /\ Forall (has w_table) w_inter /\
  implements false w_inter (Some w_table) = false /\ new_itab w_inter (Some w_table) = Some [8; 7]
  /\ implements true w_inter (Some w_table) = true.
Proof.
  split; [|split; [|repeat split; reflexivity]].
  - repeat constructor.
  - constructor; [|constructor; [|constructor]].
    + exists (Meth [70;111;111] 1 8). split; [right; left; reflexivity|split; reflexivity].
    + exists (Meth [65;48;47;112;46;98;97;114] 1 7). split; [left; reflexivity|split; reflexivity].
Qed.

(* a matched method whose function pointer is nil in slot 0 makes the itab read as failed *)
Lemma itab_nil_slot0_witness :
  let mt := [Meth [70] 1 0] in let inter := [IMeth [70] 1] in
  StronglySorted mlt mt /\ Forall (has mt) inter /\ new_itab inter (Some mt) = None.
Proof.
  cbn. split; [repeat constructor|split; [|reflexivity]].
  constructor; [|constructor]. exists (Meth [70] 1 0). split; [left; reflexivity|split; reflexivity].
Qed.
