(* C07 - equal names imply identical types (string-level proof) for well-formed
   types without generic instances *)
From LLGoV Require Import C07.Model C07.PItab C07.PStr C07.PName.
Local Open Scope N_scope.

(* delimiters that can follow a type name inside a rendering: ] newline and space *)
Definition D (c : N) : bool := (c =? 93) || (c =? 10) || (c =? 32).
Definition Dsp (c : N) : bool := c =? 32.
Definition Ddot (c : N) : bool := c =? 46.
Definition Ddollar (c : N) : bool := c =? 36.
Definition b64char (c : N) : bool := ident_char c || (c =? 45).

Ltac chr :=
  unfold D, Dsp, Ddot, Ddollar, b64char, path_char, ident_char, is_upper, is_digit in *;
  repeat rewrite ?orb_true_iff, ?andb_true_iff, ?orb_false_iff, ?andb_false_iff,
    ?N.leb_le, ?N.leb_gt, ?N.eqb_eq, ?N.eqb_neq, ?negb_true_iff in *;
  lia.

Lemma forallb_free (P : N -> bool) (X : N -> bool) a :
  (forall c, P c = true -> X c = false) -> forallb P a = true -> free X a.
Proof.
  intros I. unfold free. rewrite !forallb_forall. intros F c Ic. rewrite negb_true_iff. auto.
Qed.

Lemma path_char_notD c : path_char c = true -> D c = false. Proof. intros; destruct (D c) eqn:E; auto; chr. Qed.
Lemma path_char_notdollar c : path_char c = true -> Ddollar c = false. Proof. intros; destruct (Ddollar c) eqn:E; auto; chr. Qed.
Lemma ident_char_path c : ident_char c = true -> path_char c = true. Proof. unfold path_char. intros ->. reflexivity. Qed.
Lemma ident_notdot c : ident_char c = true -> Ddot c = false. Proof. intros; destruct (Ddot c) eqn:E; auto; chr. Qed.
Lemma ident_notsp c : ident_char c = true -> Dsp c = false. Proof. intros; destruct (Dsp c) eqn:E; auto; chr. Qed.
Lemma b64_notD c : b64char c = true -> D c = false. Proof. intros; destruct (D c) eqn:E; auto; chr. Qed.
Lemma b64_notdollar c : b64char c = true -> Ddollar c = false. Proof. intros; destruct (Ddollar c) eqn:E; auto; chr. Qed.
Lemma digit_notD c : is_digit c = true -> D c = false. Proof. intros; destruct (D c) eqn:E; auto; chr. Qed.
Lemma digit_notsp c : is_digit c = true -> Dsp c = false. Proof. intros; destruct (Dsp c) eqn:E; auto; chr. Qed.
Lemma digit_notdot c : is_digit c = true -> Ddot c = false. Proof. intros; destruct (Ddot c) eqn:E; auto; chr. Qed.
Lemma digit_path c : is_digit c = true -> path_char c = true.
Proof. intros A. unfold path_char, ident_char. rewrite A. now rewrite !orb_true_r. Qed.

Lemma wf_ident_chars n : wf_ident n = true -> forallb ident_char n = true /\ n <> [].
Proof. destruct n; cbn; [discriminate|]. intros E. apply andb_true_iff in E as [_ E]. split; [exact E|discriminate]. Qed.

Lemma wf_path_chars p : wf_path p = true ->
  forallb path_char p = true /\ p <> [] /\ last_elem_nodot p true = true /\ path_of p = p.
Proof.
  unfold wf_path. intros E. repeat (apply andb_true_iff in E as [E ?]).
  repeat split; auto.
  - destruct p; [discriminate|discriminate].
  - unfold path_of. destruct (strip_prefix s_patch p); [discriminate|reflexivity].
Qed.

(* ---- prefix tests and the shape of a rendering ---- *)

Fixpoint prefixb (p s : str) : bool :=
  match p, s with
  | [], _ => true
  | a :: p', b :: s' => (a =? b) && prefixb p' s'
  | _ :: _, [] => false
  end.

Lemma prefixb_true p : forall s, prefixb p s = true -> exists r, s = p ++ r.
Proof.
  induction p as [|a p IH]; intros s E; [exists s; reflexivity|].
  destruct s as [|b s]; [discriminate|]. cbn in E. apply andb_true_iff in E as [A B].
  apply N.eqb_eq in A. subst. destruct (IH _ B) as [r ->]. exists r. reflexivity.
Qed.

Fixpoint dollar_first (s : str) : bool :=
  match s with
  | [] => false
  | c :: r => if c =? 36 then true else if D c then false else dollar_first r
  end.

Definition shape (s : str) : N :=
  if prefixb [42] s then 1 else if prefixb [91; 93] s then 2 else if prefixb [91] s then 3
  else if prefixb s_map s then 4 else if prefixb (s_chan ++ [32]) s then 5
  else if prefixb (s_chansend ++ [32]) s then 6 else if prefixb s_recvchan s then 7
  else if dollar_first s then 8 else 9.

Definition shape_of (t : ty) : N :=
  match t with
  | TPtr _ => 1 | TSlice _ => 2 | TArray _ _ => 3 | TMap _ _ => 4
  | TChan DBoth _ => 5 | TChan DSend _ => 6 | TChan DRecv _ => 7
  | TFunc _ _ _ => 8 | TStruct _ => 8
  | TIface MsNil => 9 | TIface _ => 8
  | TBasic _ _ => 9 | TNamed _ _ _ _ => 9
  end.

Definition DD (c : N) : bool := (c =? 36) || D c.

Lemma df_free a s : free DD a -> dollar_first (a ++ s) = dollar_first s.
Proof.
  induction a as [|c a IH]; intros F; [reflexivity|]. apply free_cons in F as [A B].
  cbn. unfold DD in A. apply orb_false_iff in A as [A1 A2]. rewrite A1, A2. auto.
Qed.
Lemma df_rest r : headD D r -> dollar_first r = false.
Proof.
  destruct r as [|c r]; cbn; [reflexivity|]. intros E. rewrite E.
  destruct (c =? 36) eqn:X; [|reflexivity]. apply N.eqb_eq in X. subst. discriminate.
Qed.

(* characters that never occur in a package path, .struct$ / .iface$, or a hash *)
Definition X4 (c : N) : bool := (c =? 42) || (c =? 91) || (c =? 32) || (c =? 60).

Lemma app_prefix_len {A} (l : list A) : forall a b r,
  a ++ b = l ++ r -> (length l <= length a)%nat -> exists a', a = l ++ a'.
Proof.
  induction l as [|x l IH]; intros a b r E L; [exists a; reflexivity|].
  destruct a as [|y a]; [cbn in L; lia|]. cbn in E. injection E as -> E.
  cbn in L. destruct (IH a b r E ltac:(lia)) as [a' ->]. exists a'. reflexivity.
Qed.

Lemma prefixb_X4 lit a b :
  free X4 a -> (length lit <= length a)%nat -> (exists c, In c lit /\ X4 c = true) ->
  prefixb lit (a ++ b) = false.
Proof.
  intros F L (c & Ic & Xc). destruct (prefixb lit (a ++ b)) eqn:E; [|reflexivity].
  apply prefixb_true in E as [r E]. destruct (app_prefix_len lit a b r E L) as [a' ->].
  apply free_app in F as [F _]. unfold free in F. rewrite forallb_forall in F.
  specialize (F c Ic). rewrite Xc in F. discriminate.
Qed.

Lemma path_char_notX4 c : path_char c = true -> X4 c = false.
Proof. intros; destruct (X4 c) eqn:E; auto. unfold X4 in E. chr. Qed.

(* shape of  P ++ lit ++ rest  where P is a path and lit has at least 7 plain characters *)
Lemma shape_pkg_prefixed P lit s :
  forallb path_char P = true -> free X4 lit -> (7 <= length lit)%nat ->
  shape (P ++ lit ++ s) = if dollar_first (P ++ lit ++ s) then 8 else 9.
Proof.
  intros FP FL L. unfold shape.
  assert (F : free X4 (P ++ lit)).
  { apply free_app. split; auto. eapply forallb_free; [|exact FP]. apply path_char_notX4. }
  assert (LL : (7 <= length (P ++ lit))%nat) by (rewrite app_length; lia).
  rewrite app_assoc.
  rewrite (prefixb_X4 [42]), (prefixb_X4 [91;93]), (prefixb_X4 [91]), (prefixb_X4 s_map),
    (prefixb_X4 (s_chan ++ [32])), (prefixb_X4 (s_chansend ++ [32])), (prefixb_X4 s_recvchan); auto;
    try (cbn; lia).
  all: cbn.
  - exists 60. split; [left; reflexivity|reflexivity].
  - exists 32. split; [do 6 right; left; reflexivity|reflexivity].
  - exists 32. split; [do 4 right; left; reflexivity|reflexivity].
  - exists 91. split; [do 3 right; left; reflexivity|reflexivity].
  - exists 91. split; [left; reflexivity|reflexivity].
  - exists 91. split; [left; reflexivity|reflexivity].
  - exists 42. split; [left; reflexivity|reflexivity].
Qed.

(* ---- basic names ---- *)
Lemma k_cases k : (1 <=? k) && (k <=? 18) = true ->
  In k [1;2;3;4;5;6;7;8;9;10;11;12;13;14;15;16;17;18].
Proof.
  intros E. apply andb_true_iff in E as [A B]. apply N.leb_le in A, B.
  destruct k as [|p]; [lia|].
  do 5 (try destruct p as [p|p|]); cbn; try lia; tauto.
Qed.

Lemma basic_name_ident k : (1 <=? k) && (k <=? 18) = true ->
  forallb ident_char (basic_name k) = true.
Proof. intros E. apply k_cases in E. cbn in E. repeat (destruct E as [<-|E]; [reflexivity|]). destruct E. Qed.

Lemma basic_name_inj k1 k2 : (1 <=? k1) && (k1 <=? 18) = true -> (1 <=? k2) && (k2 <=? 18) = true ->
  basic_name k1 = basic_name k2 -> k1 = k2.
Proof.
  intros E1 E2. apply k_cases in E1, E2. cbn in E1, E2.
  repeat (destruct E1 as [<-|E1]; [repeat (destruct E2 as [<-|E2]; [first [reflexivity|discriminate]|]); destruct E2|]).
  destruct E1.
Qed.

Lemma basic_name_not k s : (1 <=? k) && (k <=? 18) = true -> (s = [97;110;121] \/ s = s_error) -> basic_name k <> s.
Proof.
  intros E S. apply k_cases in E. cbn in E.
  repeat (destruct E as [<-|E]; [destruct S as [-> | ->]; discriminate|]). destruct E.
Qed.

Section Inj.
Variable H : str -> str.
Hypothesis H_inj : forall a b, H a = H b -> a = b.
Hypothesis H_alpha : forall x, forallb b64char (H x) = true.

Notation nm t := (fst (tn true H false t)).

Lemma H_freeD x : free D (H x). Proof. eapply forallb_free; [|apply H_alpha]. apply b64_notD. Qed.
Lemma H_freeDD x : free DD (H x).
Proof.
  eapply forallb_free; [|apply H_alpha]. intros c B. unfold DD.
  apply orb_false_iff. split; [apply (b64_notdollar c B)|apply (b64_notD c B)].
Qed.
Lemma H_freeX4 x : free X4 (H x).
Proof. eapply forallb_free; [|apply H_alpha]. intros c B. destruct (X4 c) eqn:E; auto. unfold X4 in E. chr. Qed.

Lemma is_closure_wf fs P : wf_fields P fs = true -> is_closure fs = false.
Proof.
  destruct fs as [|n1 e1 g1 p1 t1 r]; [reflexivity|].
  cbn [wf_fields]. intros E. repeat (apply andb_true_iff in E as [E ?]).
  destruct r as [|n2 e2 g2 p2 t2 r2]; [reflexivity|]. destruct r2; [|reflexivity].
  cbn [is_closure].
  destruct (is_func t1) eqn:F; [|reflexivity]. cbn [andb].
  destruct (str_eqb n1 s_f) eqn:N1; [|reflexivity].
  apply str_eqb_eq in N1. subst. discriminate.
Qed.

Lemma tn_true_wf t : wf t = true -> tn true H true t = tn true H false t.
Proof.
  destruct t; try reflexivity. cbn [wf]. intros E. apply andb_true_iff in E as [E _].
  rewrite !tn_struct. rewrite (is_closure_wf _ _ E). reflexivity.
Qed.

(* unfolding *)
Lemma nm_basic k al : nm (TBasic k al) = s_llgo ++ basic_name k. Proof. reflexivity. Qed.
Lemma nm_ptr e : nm (TPtr e) = c_star :: nm e. Proof. reflexivity. Qed.
Lemma nm_slice e : nm (TSlice e) = [c_lb; c_rb] ++ nm e. Proof. reflexivity. Qed.
Lemma nm_array n e : nm (TArray n e) = [c_lb] ++ dec n ++ [c_rb] ++ nm e. Proof. reflexivity. Qed.
Lemma nm_map k e : nm (TMap k e) = s_map ++ nm k ++ [c_rb] ++ nm e. Proof. reflexivity. Qed.
Lemma nm_chan d e : nm (TChan d e) = dir_str d ++ [c_sp] ++ nm e. Proof. reflexivity. Qed.
Lemma nm_named_some p n sc : nm (TNamed (Some p) n TsNil sc) =
  s_llgo ++ path_of p ++ [c_dot] ++ (n ++ scope_str (Some p) sc).
Proof. reflexivity. Qed.
Lemma nm_named_none n : nm (TNamed None n TsNil ScPkg) = s_llgo ++ n.
Proof. cbn. now rewrite app_nil_r. Qed.

Definition func_text ps rs v : str :=
  func_hdr (tys_len ps) (tys_len rs) v ++ tuple_lines true H ps ++ tuple_lines true H rs.
Lemma nm_func ps rs v : nm (TFunc ps rs v) = s_func_ ++ H (func_text ps rs v). Proof. reflexivity. Qed.

Definition struct_text fs : str := s_struct ++ [c_sp] ++ dec (fields_len fs) ++ [c_nl] ++ field_lines true H fs.
Definition iface_text ms : str := s_interface ++ [c_sp] ++ dec (methods_len ms) ++ [c_nl] ++ method_lines true H ms.

Fixpoint any_unexp (fs : fields) : bool :=
  match fs with FsNil => false | FsCons n _ _ _ _ r => negb (exported n) || any_unexp r end.
Lemma fields_pkg_acc fs : forall a, a <> [] -> fields_pkg a fs = a.
Proof. induction fs; intros a NE; cbn; auto. destruct a; [congruence|]. apply IHfs. discriminate. Qed.
Lemma fields_pkg_wf P fs : P <> [] -> wf_fields P fs = true ->
  fields_pkg [] fs = if any_unexp fs then P else [].
Proof.
  intros NE. induction fs as [|n e g p t r IH]; [reflexivity|].
  cbn [wf_fields]. intros E. repeat (apply andb_true_iff in E as [E ?]).
  apply ostr_eqb_eq in E. subst. cbn [fields_pkg any_unexp].
  destruct (exported n); cbn [negb orb]; auto. apply fields_pkg_acc; auto.
Qed.
Lemma path_notsp c : path_char c = true -> Dsp c = false.
Proof. intros; destruct (Dsp c) eqn:E; auto; chr. Qed.

Lemma methods_pkg_path ms : wf_methods ms = true ->
  forall acc, forallb path_char acc = true -> forallb path_char (methods_pkg acc ms) = true.
Proof.
  induction ms as [|n p ps rs v r IH]; intros W acc A; [exact A|].
  cbn [wf_methods] in W. repeat (apply andb_true_iff in W as [W ?]).
  cbn [methods_pkg]. apply IH; auto.
  destruct acc; auto. destruct p as [p|]; [|discriminate]. destruct (exported n); auto.
  now destruct (wf_path_chars _ W) as (PC & _).
Qed.

Definition s_llgo_struct : str := [95;108;108;103;111;95;115;116;114;117;99;116].
Definition s_dotstruct : str := [46;115;116;114;117;99;116].
Definition s_llgo_iface : str := [95;108;108;103;111;95;105;102;97;99;101].
Definition s_dotiface : str := [46;105;102;97;99;101].
Definition s_llgo_func : str := [95;108;108;103;111;95;102;117;110;99].

(* the text before the $ of a hashed name *)
Definition hpre_struct fs : str :=
  if any_unexp fs then struct_pkg fs ++ s_dotstruct else s_llgo_struct.
Definition hpre_iface ms : str :=
  match methods_pkg [] ms with [] => s_llgo_iface | p => p ++ s_dotiface end.

Lemma wf_struct_parts fs : wf (TStruct fs) = true ->
  wf_fields (struct_pkg fs) fs = true /\ (fs = FsNil \/ wf_path (struct_pkg fs) = true).
Proof.
  cbn [wf]. intros E. apply andb_true_iff in E as [A B]. split; auto.
  apply orb_true_iff in B as [B|B]; auto. apply andb_true_iff in B as [_ B]. destruct fs; auto; discriminate.
Qed.
Lemma nm_struct fs : wf (TStruct fs) = true ->
  nm (TStruct fs) = hpre_struct fs ++ [36] ++ H (struct_text fs).
Proof.
  intros W. destruct (wf_struct_parts _ W) as [WF WP].
  rewrite tn_struct. rewrite (is_closure_wf _ _ WF). cbn [andb]. cbn zeta. unfold hpre_struct.
  destruct WP as [-> | WP]; [reflexivity|].
  destruct (wf_path_chars _ WP) as (_ & NE & _).
  rewrite (fields_pkg_wf _ _ NE WF). fold (struct_text fs).
  destruct (any_unexp fs).
  - destruct (struct_pkg fs); [congruence|]. cbn. rewrite <- app_assoc. reflexivity.
  - reflexivity.
Qed.

Lemma nm_iface ms : ms <> MsNil ->
  nm (TIface ms) = hpre_iface ms ++ [36] ++ H (iface_text ms).
Proof.
  intros NN. rewrite tn_iface. unfold hpre_iface.
  assert (E : forall (A : Type) (x y : A), match ms with MsNil => x | _ => y end = y).
  { intros. destruct ms; [congruence|reflexivity]. }
  rewrite E. cbn zeta. fold (iface_text ms).
  destruct (methods_pkg [] ms) as [|c P']; [reflexivity|]. cbn [fst].
  change s_diface with (s_dotiface ++ [36]). now rewrite <- !app_assoc.
Qed.

(* ---- shape of every rendering ---- *)
Lemma shape_llgo x : shape (s_llgo ++ x) = if dollar_first x then 8 else 9.
Proof. reflexivity. Qed.
Lemma shape_func_ x : shape (s_func_ ++ x) = 8. Proof. reflexivity. Qed.
Lemma shape_llgo_struct x : shape (s_llgo_struct ++ [36] ++ x) = 8. Proof. reflexivity. Qed.
Lemma shape_llgo_iface x : shape (s_llgo_iface ++ [36] ++ x) = 8. Proof. reflexivity. Qed.

Lemma path_free_DD a : forallb path_char a = true -> free DD a.
Proof.
  apply forallb_free. intros c P. unfold DD. apply orb_false_iff.
  split; [apply (path_char_notdollar c P)|apply (path_char_notD c P)].
Qed.

Lemma ids_str_path ids : forallb path_char (ids_str ids) = true.
Proof.
  induction ids as [|i r IH]; [reflexivity|].
  change (ids_str (i :: r)) with ((c_dot :: dec i) ++ ids_str r).
  rewrite forallb_app, IH, andb_true_r. cbn.
  pose proof (dec_digits i) as DG. rewrite forallb_forall in *. intros c I. apply digit_path. auto.
Qed.
Lemma scope_str_path p sc : forallb path_char (scope_str (Some p) sc) = true.
Proof.
  destruct sc; cbn; auto using ids_str_path.
  destruct (p0 =? 0); [reflexivity|]. cbn.
  pose proof (dec_digits p0) as DG. rewrite forallb_forall in *. intros c I. apply digit_path. auto.
Qed.

Lemma ident_path_all n : forallb ident_char n = true -> forallb path_char n = true.
Proof. rewrite !forallb_forall. intros F c I. apply ident_char_path. auto. Qed.

Lemma named_tok_path p n sc : wf_path p = true -> wf_ident n = true ->
  forallb path_char (path_of p ++ [c_dot] ++ (n ++ scope_str (Some p) sc)) = true.
Proof.
  intros WP WI. destruct (wf_path_chars _ WP) as (PC & _ & _ & ->). destruct (wf_ident_chars _ WI) as [IC _].
  rewrite !forallb_app, PC, (ident_path_all _ IC), scope_str_path. reflexivity.
Qed.

Lemma nm_shape t r : wf t = true -> headD D r -> shape (nm t ++ r) = shape_of t.
Proof.
  intros W HR. destruct t.
  - (* basic *) rewrite nm_basic, <- app_assoc, shape_llgo. cbn [wf] in W.
    rewrite df_free, (df_rest _ HR); [reflexivity|]. apply path_free_DD, ident_path_all, basic_name_ident, W.
  - (* named *) cbn [wf] in W. destruct pkg as [p|].
    + destruct targs; [|discriminate]. apply andb_true_iff in W as [W W3]. apply andb_true_iff in W as [W1 W2].
      rewrite nm_named_some, <- app_assoc, shape_llgo.
      rewrite df_free, (df_rest _ HR); [reflexivity|]. apply path_free_DD, named_tok_path; auto.
    + destruct targs; [|discriminate]. destruct sc; try discriminate. apply str_eqb_eq in W. subst.
      rewrite nm_named_none, <- app_assoc, shape_llgo. cbn. now rewrite (df_rest _ HR).
  - reflexivity.
  - reflexivity.
  - (* array *) rewrite nm_array. cbn [shape_of]. pose proof (dec_digits n) as DG. pose proof (dec_nonempty n) as NE.
    destruct (dec n) as [|d ds]; [congruence|]. cbn in DG. apply andb_true_iff in DG as [DG _].
    unfold shape. cbn -[N.eqb].
    assert (93 =? d = false) as -> by (apply N.eqb_neq; chr). reflexivity.
  - reflexivity.
  - destruct d; reflexivity.
  - rewrite nm_func, <- app_assoc. apply shape_func_.
  - (* struct *) rewrite (nm_struct _ W). unfold hpre_struct. cbn [shape_of].
    destruct (any_unexp fs) eqn:U.
    + destruct (wf_struct_parts _ W) as [WF [-> | WP]]; [discriminate|].
      destruct (wf_path_chars _ WP) as (PC & _).
      rewrite <- !app_assoc.
      change (s_dotstruct ++ [36] ++ H (struct_text fs) ++ r) with ((s_dotstruct ++ [36]) ++ H (struct_text fs) ++ r).
      rewrite shape_pkg_prefixed; [|assumption|reflexivity|cbn; lia].
      rewrite df_free; [reflexivity|]. now apply path_free_DD.
    + rewrite <- !app_assoc. apply shape_llgo_struct.
  - (* iface *) destruct ms as [|n p ps rs v ms'].
    + cbn [shape_of]. change (nm (TIface MsNil)) with (s_llgo ++ [97;110;121]). rewrite <- app_assoc, shape_llgo.
      cbn. now rewrite (df_rest _ HR).
    + rewrite nm_iface by discriminate. unfold hpre_iface. cbn [shape_of].
      cbn [wf] in W. pose proof (methods_pkg_path _ W [] eq_refl) as PC.
      destruct (methods_pkg [] (MsCons n p ps rs v ms')) as [|c P'] eqn:MP.
      * rewrite <- !app_assoc. apply shape_llgo_iface.
      * rewrite <- !app_assoc.
        match goal with |- shape (?P ++ s_dotiface ++ [36] ++ ?h ++ r) = _ =>
          change (P ++ s_dotiface ++ [36] ++ h ++ r) with (P ++ (s_dotiface ++ [36]) ++ h ++ r) end.
        rewrite shape_pkg_prefixed; [|assumption|reflexivity|cbn; lia].
        rewrite df_free; [reflexivity|]. now apply path_free_DD.
Qed.

(* ---- pieces of the named rendering ---- *)
Lemma nodot_false b : last_elem_nodot b false = true -> In 47 b.
Proof.
  induction b as [|c b IH]; cbn; [discriminate|].
  destruct (c =? 47) eqn:E; [apply N.eqb_eq in E; subst; auto|].
  destruct (c =? 46); auto.
Qed.
Lemma nodot_dot a : forall ok b, last_elem_nodot (a ++ 46 :: b) ok = true -> In 47 b.
Proof.
  induction a as [|c a IH]; intros ok b; cbn.
  - apply nodot_false.
  - destruct (c =? 47); [apply IH|]. destruct (c =? 46); apply IH.
Qed.

Definition Dslash (c : N) : bool := c =? 47.

(* p1 . x1 = p2 . x2  with dot-free last path elements and slash-free x *)
Lemma path_split p1 p2 x1 x2 :
  last_elem_nodot p1 true = true -> last_elem_nodot p2 true = true ->
  ~ In 47 x1 -> ~ In 47 x2 ->
  p1 ++ [46] ++ x1 = p2 ++ [46] ++ x2 -> p1 = p2 /\ x1 = x2.
Proof.
  intros N1 N2 S1 S2 E. apply app_eq_app in E as [l [[-> E]|[-> E]]].
  - destruct l as [|c l]; [rewrite app_nil_r; cbn in E; injection E as ->; auto|].
    cbn in E. injection E as <- E. exfalso. apply S2. rewrite E.
    apply in_or_app. left. eapply nodot_dot. exact N1.
  - destruct l as [|c l]; [rewrite app_nil_r; cbn in E; injection E as ->; auto|].
    cbn in E. injection E as <- E. exfalso. apply S1. rewrite E.
    apply in_or_app. left. eapply nodot_dot. exact N2.
Qed.

Lemma forallb_notin (P : N -> bool) a c : forallb P a = true -> P c = false -> ~ In c a.
Proof. rewrite forallb_forall. intros F E I. rewrite (F _ I) in E. discriminate. Qed.

Lemma ids_str_inj a : forall b, ids_str a = ids_str b -> a = b.
Proof.
  induction a as [|i a IH]; intros [|j b] E; auto; try discriminate.
  change (ids_str (i :: a)) with (c_dot :: dec i ++ ids_str a) in E.
  change (ids_str (j :: b)) with (c_dot :: dec j ++ ids_str b) in E.
  injection E as E. apply (dec_split Ddot) in E as [-> E]; [f_equal; auto|apply digit_notdot| |].
  - destruct a; cbn; auto.
  - destruct b; cbn; auto.
Qed.

Lemma ids_str_head a : headD Ddot (ids_str a).
Proof. destruct a; cbn; auto. Qed.

Lemma scope_str_head p sc : headD Ddot (scope_str (Some p) sc).
Proof. destruct sc; cbn; auto using ids_str_head. destruct (p0 =? 0); cbn; auto. Qed.

Lemma scope_str_inj p p' sc1 sc2 : wf_scope sc1 = true -> wf_scope sc2 = true ->
  scope_str (Some p) sc1 = scope_str (Some p') sc2 -> sc1 = sc2.
Proof.
  destruct sc1 as [|a|x], sc2 as [|b|y]; cbn [wf_scope scope_str]; intros W1 W2 E; auto.
  - destruct b; [discriminate|discriminate].
  - apply negb_true_iff in W2. rewrite W2 in E. discriminate.
  - destruct a; [discriminate|discriminate].
  - f_equal. now apply ids_str_inj.
  - apply negb_true_iff in W2. rewrite W2 in E. destruct a as [|i a]; [discriminate|].
    change (ids_str (i :: a)) with (c_dot :: dec i ++ ids_str a) in E. cbn in E. injection E as E.
    pose proof (dec_digits i) as DG. pose proof (dec_nonempty i) as NE.
    destruct (dec i); [congruence|]. cbn in E. injection E as -> _. cbn in DG. discriminate.
  - apply negb_true_iff in W1. rewrite W1 in E. discriminate.
  - apply negb_true_iff in W1. rewrite W1 in E. destruct b as [|i b]; [discriminate|].
    change (ids_str (i :: b)) with (c_dot :: dec i ++ ids_str b) in E. cbn in E. injection E as E.
    pose proof (dec_digits i) as DG. pose proof (dec_nonempty i) as NE.
    destruct (dec i); [congruence|]. cbn in E. injection E as <- _. cbn in DG. discriminate.
  - apply negb_true_iff in W1, W2. rewrite W1, W2 in E. cbn in E. injection E as E. f_equal. now apply dec_inj.
Qed.

Lemma scope_noslash p sc : ~ In 47 (scope_str (Some p) sc).
Proof.
  intros I. destruct sc; cbn in I; auto.
  - induction ids as [|i r IH]; [destruct I|]. change (ids_str (i :: r)) with (c_dot :: dec i ++ ids_str r) in I.
    destruct I as [I|I]; [discriminate|]. apply in_app_or in I as [I|I]; auto.
    pose proof (dec_digits i) as DG. rewrite forallb_forall in DG. specialize (DG _ I). discriminate.
  - destruct (p0 =? 0); [destruct I|]. cbn in I. destruct I as [I|[I|I]]; try discriminate.
    pose proof (dec_digits p0) as DG. rewrite forallb_forall in DG. specialize (DG _ I). discriminate.
Qed.
Lemma tok_noslash n p sc : forallb ident_char n = true -> ~ In 47 (n ++ scope_str (Some p) sc).
Proof.
  intros IC I. apply in_app_or in I as [I|I]; [|now apply scope_noslash in I].
  rewrite forallb_forall in IC. specialize (IC _ I). discriminate.
Qed.

Lemma identb_named_refl p n sc : identb (TNamed (Some p) n TsNil sc) (TNamed (Some p) n TsNil sc) = true.
Proof.
  cbn. unfold ostr_eqb. cbn. rewrite !(proj2 (str_eqb_iff _ _) eq_refl). cbn.
  rewrite andb_true_r. destruct sc; cbn; auto; [apply N_eqb_list_eq; reflexivity|apply N.eqb_refl].
Qed.

(* ---- atoms: basic, named, any ---- *)
Lemma nm9_free t : wf t = true -> shape_of t = 9 -> free D (nm t).
Proof.
  intros W S. destruct t; cbn [shape_of] in S; try discriminate.
  - rewrite nm_basic. apply free_app. split; [reflexivity|].
    eapply forallb_free; [|apply ident_path_all, basic_name_ident, W]. apply path_char_notD.
  - cbn [wf] in W. destruct pkg as [p|]; destruct targs; try discriminate.
    + apply andb_true_iff in W as [W W3]. apply andb_true_iff in W as [W1 W2].
      rewrite nm_named_some. apply free_app. split; [reflexivity|].
      eapply forallb_free; [|apply named_tok_path; auto]. apply path_char_notD.
    + destruct sc; try discriminate. apply str_eqb_eq in W. subst. reflexivity.
  - destruct d; discriminate.
  - destruct ms; [reflexivity|discriminate].
Qed.

Lemma ident_nodot a : forallb ident_char a = true -> ~ In 46 a.
Proof. intros F. eapply forallb_notin; [exact F|reflexivity]. Qed.

Lemma atom_eq t t2 : wf t = true -> wf t2 = true -> shape_of t = 9 -> shape_of t2 = 9 ->
  nm t = nm t2 -> identb t t2 = true.
Proof.
  intros W W2 S S2 E.
  destruct t; cbn [shape_of] in S; try discriminate; try (destruct d; discriminate);
  destruct t2; cbn [shape_of] in S2; try discriminate; try (destruct d; discriminate).
  - (* basic basic *) rewrite !nm_basic in E. apply app_inv_head in E. cbn [wf] in *.
    apply basic_name_inj in E; auto. subst. cbn. apply N.eqb_refl.
  - (* basic named *) exfalso. cbn [wf] in *. destruct pkg as [p|]; destruct targs; try discriminate.
    + rewrite nm_basic, nm_named_some in E. apply app_inv_head in E.
      apply (ident_nodot _ (basic_name_ident _ W)). rewrite E. apply in_or_app. right. left. reflexivity.
    + destruct sc; try discriminate. apply str_eqb_eq in W2. subst.
      rewrite nm_basic, nm_named_none in E. apply app_inv_head in E.
      eapply basic_name_not; [exact W| |exact E]. now right.
  - (* basic any *) exfalso. destruct ms; [|discriminate]. rewrite nm_basic in E.
    change (nm (TIface MsNil)) with (s_llgo ++ [97;110;121]) in E. apply app_inv_head in E.
    eapply basic_name_not; [exact W| |exact E]. now left.
  - (* named basic *) exfalso. cbn [wf] in *. destruct pkg as [p|]; destruct targs; try discriminate.
    + rewrite nm_basic, nm_named_some in E. apply app_inv_head in E.
      apply (ident_nodot _ (basic_name_ident _ W2)). rewrite <- E. apply in_or_app. right. left. reflexivity.
    + destruct sc; try discriminate. apply str_eqb_eq in W. subst.
      rewrite nm_basic, nm_named_none in E. apply app_inv_head in E. symmetry in E.
      eapply basic_name_not; [exact W2| |exact E]. now right.
  - (* named named *) cbn [wf] in *.
    destruct pkg as [p|], pkg0 as [p'|]; destruct targs, targs0; try discriminate.
    + apply andb_true_iff in W as [W W3]. apply andb_true_iff in W as [W1 Wn].
      apply andb_true_iff in W2 as [W2 W3']. apply andb_true_iff in W2 as [W1' Wn'].
      rewrite !nm_named_some in E. apply app_inv_head in E.
      destruct (wf_path_chars _ W1) as (PC & _ & ND & PO). destruct (wf_path_chars _ W1') as (PC' & _ & ND' & PO').
      rewrite PO, PO' in E.
      destruct (wf_ident_chars _ Wn) as [IC _]. destruct (wf_ident_chars _ Wn') as [IC' _].
      apply path_split in E as [-> E]; auto.
      * apply (split_first Ddot) in E as [-> E].
        -- apply scope_str_inj in E; auto. subst. apply identb_named_refl.
        -- eapply forallb_free; [|exact IC]. apply ident_notdot.
        -- eapply forallb_free; [|exact IC']. apply ident_notdot.
        -- apply scope_str_head.
        -- apply scope_str_head.
      * now apply tok_noslash.
      * now apply tok_noslash.
    + exfalso. destruct sc0; try discriminate. apply str_eqb_eq in W2. subst.
      rewrite nm_named_some, nm_named_none in E. apply app_inv_head in E.
      assert (I : In 46 s_error) by (rewrite <- E; apply in_or_app; right; left; reflexivity).
      cbn in I. repeat (destruct I as [I|I]; [discriminate|]). destruct I.
    + exfalso. destruct sc; try discriminate. apply str_eqb_eq in W. subst.
      rewrite nm_named_some, nm_named_none in E. apply app_inv_head in E.
      assert (I : In 46 s_error) by (rewrite E; apply in_or_app; right; left; reflexivity).
      cbn in I. repeat (destruct I as [I|I]; [discriminate|]). destruct I.
    + destruct sc, sc0; try discriminate. apply str_eqb_eq in W, W2. subst. reflexivity.
  - (* named any *) exfalso. destruct ms; [|discriminate].
    change (nm (TIface MsNil)) with (s_llgo ++ [97;110;121]) in E.
    cbn [wf] in W. destruct pkg as [p|]; destruct targs; try discriminate.
    + rewrite nm_named_some in E. apply app_inv_head in E.
      assert (I : In 46 [97;110;121]) by (rewrite <- E; apply in_or_app; right; left; reflexivity).
      cbn in I. repeat (destruct I as [I|I]; [discriminate|]). destruct I.
    + destruct sc; try discriminate. apply str_eqb_eq in W. subst. discriminate.
  - (* any basic *) exfalso. destruct ms; [|discriminate]. rewrite nm_basic in E.
    change (nm (TIface MsNil)) with (s_llgo ++ [97;110;121]) in E. apply app_inv_head in E. symmetry in E.
    eapply basic_name_not; [exact W2| |exact E]. now left.
  - (* any named *) exfalso. destruct ms; [|discriminate].
    change (nm (TIface MsNil)) with (s_llgo ++ [97;110;121]) in E.
    cbn [wf] in W2. destruct pkg as [p|]; destruct targs; try discriminate.
    + rewrite nm_named_some in E. apply app_inv_head in E.
      assert (I : In 46 [97;110;121]) by (rewrite E; apply in_or_app; right; left; reflexivity).
      cbn in I. repeat (destruct I as [I|I]; [discriminate|]). destruct I.
    + destruct sc; try discriminate. apply str_eqb_eq in W2. subst. discriminate.
  - (* any any *) destruct ms, ms0; try discriminate. reflexivity.
Qed.

(* ---- hashed names ---- *)
Lemma hashed_split pre1 pre2 x1 x2 r1 r2 :
  free Ddollar pre1 -> free Ddollar pre2 -> headD D r1 -> headD D r2 ->
  (pre1 ++ [36] ++ H x1) ++ r1 = (pre2 ++ [36] ++ H x2) ++ r2 -> pre1 = pre2 /\ x1 = x2 /\ r1 = r2.
Proof.
  intros F1 F2 H1 H2 E. rewrite <- !app_assoc in E.
  apply (split_first Ddollar) in E as [-> E]; auto; [|exact eq_refl|exact eq_refl].
  cbn in E. injection E as E. apply (split_first D) in E as [E ->]; auto using H_freeD.
Qed.

Lemma hpre_struct_free fs : wf (TStruct fs) = true -> free Ddollar (hpre_struct fs).
Proof.
  intros W. unfold hpre_struct. destruct (any_unexp fs) eqn:U; [|reflexivity].
  destruct (wf_struct_parts _ W) as [_ [-> | WP]]; [discriminate|].
  destruct (wf_path_chars _ WP) as (PC & _). apply free_app. split; [|reflexivity].
  eapply forallb_free; [|exact PC]. apply path_char_notdollar.
Qed.
Lemma hpre_iface_free ms : wf (TIface ms) = true -> free Ddollar (hpre_iface ms).
Proof.
  intros W. unfold hpre_iface. cbn [wf] in W. pose proof (methods_pkg_path _ W [] eq_refl) as PC.
  destruct (methods_pkg [] ms) as [|c P']; [reflexivity|].
  apply free_app. split; [|reflexivity]. eapply forallb_free; [|exact PC]. apply path_char_notdollar.
Qed.

Lemma nm_func' ps rs v : nm (TFunc ps rs v) = s_llgo_func ++ [36] ++ H (func_text ps rs v).
Proof. reflexivity. Qed.

Definition Q_ty (t : ty) : Prop := forall t2 r1 r2, wf t = true -> wf t2 = true -> headD D r1 -> headD D r2 ->
  nm t ++ r1 = nm t2 ++ r2 -> identb t t2 = true /\ r1 = r2.
Definition Q_tys (ts : tys) : Prop := forall ts2 r1 r2, wf_tys ts = true -> wf_tys ts2 = true ->
  tys_len ts = tys_len ts2 -> tuple_lines true H ts ++ r1 = tuple_lines true H ts2 ++ r2 ->
  identb_tys ts ts2 = true /\ r1 = r2.
Definition Q_fields (fs : fields) : Prop := forall fs2 P P' r1 r2,
  wf_fields P fs = true -> wf_fields P' fs2 = true -> (any_unexp fs = true -> P = P') ->
  fields_len fs = fields_len fs2 -> field_lines true H fs ++ r1 = field_lines true H fs2 ++ r2 ->
  identb_fields fs fs2 = true /\ r1 = r2.
Definition Q_methods (ms : methods) : Prop := forall ms2 r1 r2,
  wf_methods ms = true -> wf_methods ms2 = true ->
  methods_len ms = methods_len ms2 -> method_lines true H ms ++ r1 = method_lines true H ms2 ++ r2 ->
  identb_methods ms ms2 = true /\ r1 = r2.

Lemma bool_str_split v v' x x' : bool_str v ++ [10] ++ x = bool_str v' ++ [10] ++ x' -> v = v' /\ x = x'.
Proof. destruct v, v'; cbn; intros E; try discriminate; injection E as E; auto. Qed.

Lemma func_text_inj ps rs v ps' rs' v' :
  Q_tys ps -> Q_tys rs -> wf_tys ps = true -> wf_tys rs = true -> wf_tys ps' = true -> wf_tys rs' = true ->
  func_text ps rs v = func_text ps' rs' v' ->
  v = v' /\ identb_tys ps ps' = true /\ identb_tys rs rs' = true.
Proof.
  intros QP QR W1 W2 W3 W4 E. unfold func_text, func_hdr in E. rewrite <- !app_assoc in E.
  apply app_inv_head in E. cbn [app] in E. injection E as E.
  apply (dec_split Dsp) in E as [NP E]; [|apply digit_notsp|exact eq_refl|exact eq_refl].
  injection E as E.
  apply (dec_split Dsp) in E as [NR E]; [|apply digit_notsp|exact eq_refl|exact eq_refl].
  injection E as E. apply bool_str_split in E as [-> E].
  destruct (QP ps' _ _ W1 W3 NP E) as [A E'].
  rewrite <- (app_nil_r (tuple_lines true H rs)), <- (app_nil_r (tuple_lines true H rs')) in E'.
  destruct (QR rs' _ _ W2 W4 NR E') as [B _]. auto.
Qed.

Lemma len_succ a b : 1 + a = 1 + b -> a = b. Proof. lia. Qed.

Lemma hpre_struct_pkg fs fs2 : wf (TStruct fs) = true -> wf (TStruct fs2) = true ->
  hpre_struct fs = hpre_struct fs2 -> any_unexp fs = true -> struct_pkg fs = struct_pkg fs2.
Proof.
  intros W W2 E U. unfold hpre_struct in E. rewrite U in E. destruct (any_unexp fs2).
  - now apply app_inv_tail in E.
  - exfalso. change s_llgo_struct with ([95;108;108;103;111] ++ [95;115;116;114;117;99;116]) in E.
    apply app_inv_len in E as [_ E]; [discriminate|reflexivity].
Qed.
Lemma wf_func_parts ps rs v : wf (TFunc ps rs v) = true -> wf_tys ps = true /\ wf_tys rs = true.
Proof. cbn [wf]. intros E. now apply andb_true_iff in E. Qed.

Lemma struct_text_inj fs fs2 : Q_fields fs -> wf (TStruct fs) = true -> wf (TStruct fs2) = true ->
  hpre_struct fs = hpre_struct fs2 -> struct_text fs = struct_text fs2 -> identb_fields fs fs2 = true.
Proof.
  intros Q W W2 EP E. unfold struct_text in E. apply app_inv_head in E. cbn [app] in E. injection E as E.
  apply (dec_split D) in E as [NL E]; [|apply digit_notD|exact eq_refl|exact eq_refl].
  injection E as E.
  destruct (wf_struct_parts _ W) as [WF _]. destruct (wf_struct_parts _ W2) as [WF2 _].
  rewrite <- (app_nil_r (field_lines true H fs)), <- (app_nil_r (field_lines true H fs2)) in E.
  destruct (Q fs2 _ _ _ _ WF WF2 (hpre_struct_pkg _ _ W W2 EP) NL E) as [A _]. exact A.
Qed.
Lemma iface_text_inj ms ms2 : Q_methods ms -> wf (TIface ms) = true -> wf (TIface ms2) = true ->
  iface_text ms = iface_text ms2 -> identb_methods ms ms2 = true.
Proof.
  intros Q W W2 E. unfold iface_text in E. apply app_inv_head in E. cbn [app] in E. injection E as E.
  apply (dec_split D) in E as [NL E]; [|apply digit_notD|exact eq_refl|exact eq_refl].
  injection E as E. cbn [wf] in W, W2.
  rewrite <- (app_nil_r (method_lines true H ms)), <- (app_nil_r (method_lines true H ms2)) in E.
  destruct (Q ms2 _ _ W W2 NL E) as [A _]. exact A.
Qed.

(* a quoted tag is self-delimiting *)
Lemma esc_split t1 : forall t2 r1 r2,
  flat_map esc_byte t1 ++ 34 :: r1 = flat_map esc_byte t2 ++ 34 :: r2 -> t1 = t2 /\ r1 = r2.
Proof.
  induction t1 as [|a t1 IH]; intros [|c t2] r1 r2 E; cbn [flat_map app] in E.
  - injection E as E. auto.
  - exfalso. unfold esc_byte in E. destruct ((c =? 34) || (c =? 92)) eqn:X; cbn in E; [discriminate|].
    injection E as <- _. discriminate.
  - exfalso. unfold esc_byte in E. destruct ((a =? 34) || (a =? 92)) eqn:X; cbn in E; [discriminate|].
    injection E as -> _. discriminate.
  - unfold esc_byte in E.
    destruct ((a =? 34) || (a =? 92)) eqn:X, ((c =? 34) || (c =? 92)) eqn:Y; cbn in E.
    + injection E as -> E. destruct (IH _ _ _ E) as [-> ->]. auto.
    + exfalso. injection E as <- _. discriminate.
    + exfalso. injection E as -> _. discriminate.
    + injection E as -> E. destruct (IH _ _ _ E) as [-> ->]. auto.
Qed.
Lemma quote_split t1 t2 r1 r2 : quote_tag t1 ++ r1 = quote_tag t2 ++ r2 -> t1 = t2 /\ r1 = r2.
Proof.
  unfold quote_tag. rewrite <- !app_assoc. cbn [app]. intros E. injection E as E. now apply esc_split in E.
Qed.

Lemma tagpart_split tag tag2 X1 X2 :
  (if negb (is_nil tag) then [c_sp] ++ quote_tag tag else []) ++ [c_nl] ++ X1 =
  (if negb (is_nil tag2) then [c_sp] ++ quote_tag tag2 else []) ++ [c_nl] ++ X2 -> tag = tag2 /\ X1 = X2.
Proof.
  destruct tag as [|a tg], tag2 as [|a2 tg2]; intros E.
  - apply app_inv_head in E. apply app_inv_head in E. auto.
  - change (negb (is_nil (a2 :: tg2))) with true in E. cbv iota in E. discriminate.
  - change (negb (is_nil (a :: tg))) with true in E. cbv iota in E. discriminate.
  - change (negb (is_nil (a :: tg))) with true in E. change (negb (is_nil (a2 :: tg2))) with true in E.
    cbv iota in E. rewrite <- !app_assoc in E. apply app_inv_head in E.
    apply quote_split in E as [-> E]. apply app_inv_head in E. auto.
Qed.

Lemma wf_ident_head c r : wf_ident (c :: r) = true -> ident_char c = true.
Proof. cbn. intros E. apply andb_true_iff in E as [_ E]. now apply andb_true_iff in E as [E _]. Qed.

Lemma method_id_free n p : wf_ident n = true -> wf_path p = true -> free Dsp (method_id n (Some p)).
Proof.
  intros Wn Wp. destruct (wf_ident_chars _ Wn) as [IC _]. destruct (wf_path_chars _ Wp) as (PC & NE & _).
  unfold method_id. destruct (exported n).
  - eapply forallb_free; [|exact IC]. apply ident_notsp.
  - destruct p as [|c p']; [congruence|]. eapply forallb_free; [apply path_notsp|].
    rewrite !forallb_app, PC, (ident_path_all _ IC). reflexivity.
Qed.

Lemma method_id_inj n p n2 p2 : wf_ident n = true -> wf_path p = true -> wf_ident n2 = true -> wf_path p2 = true ->
  method_id n (Some p) = method_id n2 (Some p2) -> same_id n (Some p) n2 (Some p2) = true.
Proof.
  intros Wn Wp Wn2 Wp2 E. destruct (wf_ident_chars _ Wn) as [IC _]. destruct (wf_ident_chars _ Wn2) as [IC2 _].
  destruct (wf_path_chars _ Wp) as (PC & NE & ND & _). destruct (wf_path_chars _ Wp2) as (PC2 & NE2 & ND2 & _).
  unfold method_id in E. unfold same_id.
  destruct p as [|c p']; [congruence|]. destruct p2 as [|c2 p2']; [congruence|].
  destruct (exported n) eqn:X, (exported n2) eqn:X2.
  - subst. rewrite (proj2 (str_eqb_iff _ _) eq_refl). reflexivity.
  - exfalso. apply (ident_nodot _ IC). rewrite E. apply in_or_app. right. left. reflexivity.
  - exfalso. apply (ident_nodot _ IC2). rewrite <- E. apply in_or_app. right. left. reflexivity.
  - apply path_split in E as [E1 ->]; auto.
    + injection E1 as -> ->. rewrite (proj2 (str_eqb_iff _ _) eq_refl). cbn [andb].
      apply orb_true_iff. right. unfold ostr_eqb, option_eqb. apply str_eqb_iff. reflexivity.
    + intros I. rewrite forallb_forall in IC. specialize (IC _ I). discriminate.
    + intros I. rewrite forallb_forall in IC2. specialize (IC2 _ I). discriminate.
Qed.

(* method-table names identify a method by (declaring package, name) for unexported names *)
Lemma table_name_method_id n p : wf_path p = true -> table_name n (Some p) = method_id n (Some p).
Proof.
  intros W. destruct (wf_path_chars _ W) as (_ & NE & _ & PO). unfold table_name, method_id, full_name.
  rewrite PO. destruct (exported n); [reflexivity|]. destruct p; [congruence|reflexivity].
Qed.
Lemma table_name_inj n p n2 p2 : wf_ident n = true -> wf_path p = true -> wf_ident n2 = true -> wf_path p2 = true ->
  (table_name n (Some p) = table_name n2 (Some p2) <-> same_id n (Some p) n2 (Some p2) = true).
Proof.
  intros Wn Wp Wn2 Wp2. rewrite !table_name_method_id by assumption. split.
  - now apply method_id_inj.
  - intros E. apply same_id_name in E as [-> E]. now apply method_id_same.
Qed.

Lemma text_heads_differ :
  (forall ps rs v fs, func_text ps rs v <> struct_text fs) /\
  (forall ps rs v ms, func_text ps rs v <> iface_text ms) /\
  (forall fs ms, struct_text fs <> iface_text ms).
Proof. repeat split; intros; unfold func_text, func_hdr, struct_text, iface_text; cbn; discriminate. Qed.

Theorem inj_all : (forall t, Q_ty t) /\ (forall ts, Q_tys ts) /\ (forall fs, Q_fields fs) /\ (forall ms, Q_methods ms).
Proof.
  destruct text_heads_differ as (FS & FI & SI).
  apply ty_mutind; unfold Q_ty, Q_tys, Q_fields, Q_methods.
  - (* basic *) intros k al t2 r1 r2 W W2 H1 H2 E.
    pose proof (f_equal shape E) as S. rewrite !nm_shape in S by auto. cbn [shape_of] in S.
    apply (split_first D) in E as [E ->]; auto using nm9_free.
    split; auto. apply atom_eq; auto.
  - (* named *) intros pkg name targs _ sc t2 r1 r2 W W2 H1 H2 E.
    pose proof (f_equal shape E) as S. rewrite !nm_shape in S by auto. cbn [shape_of] in S.
    apply (split_first D) in E as [E ->]; auto using nm9_free.
    split; auto. apply atom_eq; auto.
  - (* ptr *) intros e IH t2 r1 r2 W W2 H1 H2 E.
    pose proof (f_equal shape E) as S. rewrite !nm_shape in S by auto.
    destruct t2; cbn [shape_of] in S; try discriminate; try (destruct d; discriminate); try (destruct ms; discriminate).
    rewrite !nm_ptr in E. cbn in E. injection E as E. cbn [wf] in *. destruct (IH _ _ _ W W2 H1 H2 E). auto.
  - (* slice *) intros e IH t2 r1 r2 W W2 H1 H2 E.
    pose proof (f_equal shape E) as S. rewrite !nm_shape in S by auto.
    destruct t2; cbn [shape_of] in S; try discriminate; try (destruct d; discriminate); try (destruct ms; discriminate).
    rewrite !nm_slice in E. cbn in E. injection E as E. cbn [wf] in *. destruct (IH _ _ _ W W2 H1 H2 E). auto.
  - (* array *) intros n e IH t2 r1 r2 W W2 H1 H2 E.
    pose proof (f_equal shape E) as S. rewrite !nm_shape in S by auto.
    destruct t2; cbn [shape_of] in S; try discriminate; try (destruct d; discriminate); try (destruct ms; discriminate).
    rewrite !nm_array in E. rewrite <- !app_assoc in E. cbn [app] in E. injection E as E.
    apply (dec_split D) in E as [-> E]; [|apply digit_notD|exact eq_refl|exact eq_refl].
    injection E as E. cbn [wf] in *. destruct (IH _ _ _ W W2 H1 H2 E) as [A ->]. split; auto.
    cbn. now rewrite N.eqb_refl, A.
  - (* map *) intros k IHk e IHe t2 r1 r2 W W2 H1 H2 E.
    pose proof (f_equal shape E) as S. rewrite !nm_shape in S by auto.
    destruct t2; cbn [shape_of] in S; try discriminate; try (destruct d; discriminate); try (destruct ms; discriminate).
    rewrite !nm_map in E. rewrite <- !app_assoc in E. apply app_inv_head in E.
    cbn [wf] in *. apply andb_true_iff in W as [Wk We]. apply andb_true_iff in W2 as [Wk2 We2].
    edestruct IHk as [A E']; [exact Wk|exact Wk2| | |exact E|]; [exact eq_refl|exact eq_refl|].
    cbn [app] in E'. injection E' as E'.
    destruct (IHe _ _ _ We We2 H1 H2 E') as [B ->]. split; auto. cbn. now rewrite A, B.
  - (* chan *) intros d e IH t2 r1 r2 W W2 H1 H2 E.
    pose proof (f_equal shape E) as S. rewrite !nm_shape in S by auto.
    destruct t2; try (destruct d; cbn [shape_of] in S; discriminate);
      try (destruct d; destruct ms; cbn [shape_of] in S; discriminate).
    destruct d, d0; cbn [shape_of] in S; try discriminate;
      rewrite !nm_chan in E; rewrite <- !app_assoc in E; apply app_inv_head in E;
      cbn [app] in E; injection E as E; cbn [wf] in *; destruct (IH _ _ _ W W2 H1 H2 E) as [A ->]; split; auto.
  - (* func *) intros ps IHp rs IHr v t2 r1 r2 W W2 H1 H2 E.
    pose proof (f_equal shape E) as S. rewrite !nm_shape in S by auto.
    destruct (wf_func_parts _ _ _ W) as [Wp Wr].
    destruct t2; cbn [shape_of] in S; try discriminate; try (destruct d; discriminate).
    + rewrite !nm_func' in E. apply hashed_split in E as (_ & E & ->); auto; try reflexivity.
      destruct (wf_func_parts _ _ _ W2) as [Wp2 Wr2].
      destruct (func_text_inj _ _ _ _ _ _ (IHp) (IHr) Wp Wr Wp2 Wr2 E) as (-> & A & B).
      split; auto. cbn. rewrite A, B. now destruct variadic.
    + exfalso. rewrite nm_func', (nm_struct _ W2) in E.
      apply hashed_split in E as (_ & E & _); auto using hpre_struct_free; try reflexivity. now apply FS in E.
    + exfalso. destruct ms; [discriminate|]. rewrite nm_func', nm_iface in E by discriminate.
      apply hashed_split in E as (_ & E & _); auto using hpre_iface_free; try reflexivity. now apply FI in E.
  - (* struct *) intros fs IH t2 r1 r2 W W2 H1 H2 E.
    pose proof (f_equal shape E) as S. rewrite !nm_shape in S by auto.
    destruct t2; cbn [shape_of] in S; try discriminate; try (destruct d; discriminate).
    + exfalso. rewrite nm_func', (nm_struct _ W) in E.
      apply hashed_split in E as (_ & E & _); auto using hpre_struct_free; try reflexivity. symmetry in E. now apply FS in E.
    + rewrite (nm_struct _ W), (nm_struct _ W2) in E.
      apply hashed_split in E as (EP & E & ->); auto using hpre_struct_free.
      split; auto. cbn [identb]. apply struct_text_inj; auto.
    + exfalso. destruct ms; [discriminate|]. rewrite (nm_struct _ W), nm_iface in E by discriminate.
      apply hashed_split in E as (_ & E & _); auto using hpre_struct_free, hpre_iface_free. now apply SI in E.
  - (* iface *) intros ms IH t2 r1 r2 W W2 H1 H2 E.
    pose proof (f_equal shape E) as S. rewrite !nm_shape in S by auto.
    destruct ms as [|n p ps rs v ms'].
    + (* any *) cbn [shape_of] in S.
      apply (split_first D) in E as [E ->]; auto using nm9_free.
      split; auto. apply atom_eq; auto.
    + cbn [shape_of] in S.
      destruct t2; cbn [shape_of] in S; try discriminate; try (destruct d; discriminate).
      * exfalso. rewrite nm_func', nm_iface in E by discriminate.
        apply hashed_split in E as (_ & E & _); auto using hpre_iface_free; try reflexivity. symmetry in E. now apply FI in E.
      * exfalso. rewrite (nm_struct _ W2), nm_iface in E by discriminate.
        apply hashed_split in E as (_ & E & _); auto using hpre_struct_free, hpre_iface_free. symmetry in E. now apply SI in E.
      * destruct ms; [discriminate|]. rewrite !nm_iface in E by discriminate.
        apply hashed_split in E as (EP & E & ->); auto using hpre_iface_free.
        split; auto. cbn [identb]. apply iface_text_inj; auto.
  - (* TsNil *) intros ts2 r1 r2 _ _ L E. destruct ts2; [cbn in E; auto|cbn [tys_len] in L; lia].
  - (* TsCons *) intros nme t IHt r IHr ts2 r1 r2 W W2 L E.
    destruct ts2 as [|nme2 t2 r']; [cbn [tys_len] in L; lia|].
    cbn [wf_tys] in W, W2. apply andb_true_iff in W as [Wt Wr]. apply andb_true_iff in W2 as [Wt2 Wr2].
    rewrite !tuple_lines_cons, !tn_true_wf in E by auto. rewrite <- !app_assoc in E.
    edestruct IHt as [A E']; [exact Wt|exact Wt2| | |exact E|]; [exact eq_refl|exact eq_refl|].
    cbn [app] in E'. injection E' as E'. cbn [tys_len] in L. apply len_succ in L.
    destruct (IHr _ _ _ Wr Wr2 L E') as [B ->]. split; auto. cbn. now rewrite A, B.
  - (* FsNil *) intros fs2 P P' r1 r2 _ _ _ L E. destruct fs2; [cbn in E; auto|cbn [fields_len] in L; lia].
  - (* FsCons *) intros n emb tag pkg t IHt r IHr fs2 P P' r1 r2 W W2 PP L E.
    destruct fs2 as [|n2 emb2 tag2 pkg2 t2 r']; [cbn [fields_len] in L; lia|].
    cbn [wf_fields] in W, W2.
    apply andb_true_iff in W as [W Wr]. apply andb_true_iff in W as [W Wn]. apply andb_true_iff in W as [W Wt].
    apply andb_true_iff in W as [Wp Wtag].
    apply andb_true_iff in W2 as [W2 Wr2]. apply andb_true_iff in W2 as [W2 Wn2]. apply andb_true_iff in W2 as [W2 Wt2].
    apply andb_true_iff in W2 as [Wp2 Wtag2].
    apply ostr_eqb_eq in Wp, Wp2. subst pkg pkg2.
    destruct (wf_ident_chars _ Wn) as [IC _]. destruct (wf_ident_chars _ Wn2) as [IC2 _].
    rewrite !field_lines_cons in E. cbn [andb] in E. rewrite <- !app_assoc in E.
    apply (split_first Dsp) in E as [EN E]; [| | |exact eq_refl|exact eq_refl].
    2:{ destruct emb; [apply free_cons; split; [reflexivity|]|]; (eapply forallb_free; [|exact IC]; apply ident_notsp). }
    2:{ destruct emb2; [apply free_cons; split; [reflexivity|]|]; (eapply forallb_free; [|exact IC2]; apply ident_notsp). }
    assert (EM : emb = emb2 /\ n = n2).
    { destruct emb, emb2.
      - injection EN as ->. auto.
      - exfalso. subst n2. apply wf_ident_head in Wn2. discriminate.
      - exfalso. subst n. apply wf_ident_head in Wn. discriminate.
      - auto. }
    destruct EM as [-> ->].
    cbn [app] in E. injection E as E.
    edestruct IHt as [A E']; [exact Wt|exact Wt2| | |exact E|].
    { destruct tag; exact eq_refl. }
    { destruct tag2; exact eq_refl. }
    assert (TG : tag = tag2 /\ field_lines true H r ++ r1 = field_lines true H r' ++ r2).
    { apply tagpart_split. exact E'. }
    destruct TG as [-> E''].
    cbn [fields_len] in L. apply len_succ in L.
    assert (PP' : any_unexp r = true -> P = P').
    { intros U. apply PP. cbn [any_unexp]. rewrite U. apply orb_true_r. }
    destruct (IHr _ _ _ _ _ Wr Wr2 PP' L E'') as [B ->]. split; auto.
    cbn [identb_fields]. rewrite A, B, !andb_true_r.
    rewrite Bool.eqb_reflx, (proj2 (str_eqb_iff _ _) eq_refl). cbn [andb]. rewrite andb_true_r. unfold same_id.
    rewrite (proj2 (str_eqb_iff _ _) eq_refl). cbn [andb].
    destruct (exported n2) eqn:X; [reflexivity|]. cbn [orb]. rewrite PP.
    + unfold ostr_eqb. cbn. apply str_eqb_iff. reflexivity.
    + cbn [any_unexp]. rewrite X. reflexivity.
  - (* MsNil *) intros ms2 r1 r2 _ _ L E. destruct ms2; [cbn in E; auto|cbn [methods_len] in L; lia].
  - (* MsCons *) intros n pkg ps IHp rs IHr v r IHm ms2 r1 r2 W W2 L E.
    destruct ms2 as [|n2 pkg2 ps2 rs2 v2 r']; [cbn [methods_len] in L; lia|].
    cbn [wf_methods] in W, W2.
    apply andb_true_iff in W as [W Wm]. apply andb_true_iff in W as [W Wrs]. apply andb_true_iff in W as [W Wps].
    apply andb_true_iff in W as [Wp Wn].
    apply andb_true_iff in W2 as [W2 Wm2]. apply andb_true_iff in W2 as [W2 Wrs2]. apply andb_true_iff in W2 as [W2 Wps2].
    apply andb_true_iff in W2 as [Wp2 Wn2].
    destruct pkg as [p|]; [|discriminate]. destruct pkg2 as [p2|]; [|discriminate].
    rewrite !method_lines_cons in E. rewrite <- !app_assoc in E.
    apply (split_first Dsp) in E as [EID E]; [| | |exact eq_refl|exact eq_refl]; [|now apply method_id_free|now apply method_id_free].
    apply method_id_inj in EID; auto.
    cbn [app] in E. injection E as E.
    apply (split_first D) in E as [EH E]; auto using H_freeD; try exact eq_refl.
    apply H_inj in EH. change (func_text ps rs v = func_text ps2 rs2 v2) in EH.
    destruct (func_text_inj _ _ _ _ _ _ IHp IHr Wps Wrs Wps2 Wrs2 EH) as (-> & A & B).
    cbn [app] in E. injection E as E. cbn [methods_len] in L. apply len_succ in L.
    destruct (IHm _ _ _ Wm Wm2 L E) as [C ->]. split; auto.
    cbn [identb_methods]. rewrite EID, A, B, C, Bool.eqb_reflx. reflexivity.
Qed.

Theorem type_name_injective_lemma t1 t2 :
  wf t1 = true -> wf t2 = true -> fst (type_name true H t1) = fst (type_name true H t2) -> identb t1 t2 = true.
Proof.
  intros W1 W2 E. destruct inj_all as (Q & _).
  destruct (Q t1 t2 [] [] W1 W2 I I) as [A _]; auto.
  unfold type_name in E. now rewrite !app_nil_r.
Qed.
End Inj.
