(* C20 - lemmas about the lexical path model and the extraction model *)
From LLGoV Require Import C20.Model.
Local Open Scope N_scope.

(* ---------- path elements ---------- *)

Definition noslash (s : str) : Prop := ~ In SLASH s.

(* a name that the OS resolves by stepping down exactly one level *)
Definition plain (s : str) : Prop :=
  s <> [] /\ is_dot s = false /\ is_dotdot s = false /\ noslash s.

Lemma split_noslash s : Forall noslash (split s).
Proof.
  induction s as [|c r IH]; cbn.
  - constructor; [intros [] | constructor].
  - destruct (c =? SLASH) eqn:E.
    + constructor; [intros [] | exact IH].
    + destruct (split r) as [|h t]; inversion IH; subst.
      * constructor; [|constructor]. intros [H|[]]. subst. now rewrite N.eqb_refl in E.
      * constructor; [|assumption]. intros [H|H]; [subst; now rewrite N.eqb_refl in E | contradiction].
Qed.

Lemma plain_not_dotdot s : plain s -> is_dotdot s = false.
Proof. intros H; apply H. Qed.

(* filepath.Clean of a rooted path keeps plain elements only *)
Lemma norm_plain : forall segs st,
  Forall noslash segs -> Forall plain st -> Forall plain (norm_segs true segs st).
Proof.
  induction segs as [|s r IH]; intros st Hs Hst; cbn.
  - apply Forall_rev. exact Hst.
  - inversion Hs as [|? ? Hs1 Hs2]; subst.
    destruct (is_nil s) eqn:En; cbn; [now apply IH|].
    destruct (is_dot s) eqn:Ed; cbn; [now apply IH|].
    destruct (is_dotdot s) eqn:Edd.
    + destruct st as [|top st']; [now apply IH|].
      inversion Hst as [|? ? Ht Hst']; subst.
      rewrite (plain_not_dotdot _ Ht). now apply IH.
    + apply IH; [assumption|]. constructor; [|assumption].
      repeat split; try assumption. intros ->. discriminate.
Qed.

Lemma comps_plain s : rooted s = true -> Forall plain (comps s).
Proof.
  intros Hr. unfold comps. rewrite Hr. apply norm_plain; [apply split_noslash | constructor].
Qed.

Lemma clean_rooted s : rooted s = true -> clean s = SLASH :: join (comps s).
Proof. intros Hr. unfold clean. destruct s; [discriminate|]. cbn [is_nil]. now rewrite Hr. Qed.

(* ---------- join and prefixes ---------- *)

Lemma join_cons c cs : join (c :: cs) = c ++ (if is_nil cs then [] else SLASH :: join cs).
Proof. destruct cs; cbn; [now rewrite app_nil_r | reflexivity]. Qed.

(* t ++ X has the prefix d ++ / ++ Y, t and d without slash, X empty or starting
   with a slash: then t = d and X has the prefix / ++ Y *)
Lemma prefix_elem : forall d t X Y,
  noslash d -> noslash t -> (X = [] \/ exists X', X = SLASH :: X') ->
  has_prefix (t ++ X) (d ++ SLASH :: Y) = true ->
  t = d /\ has_prefix X (SLASH :: Y) = true.
Proof.
  induction d as [|c d IH]; intros t X Y Hd Ht HX H.
  - destruct t as [|a t]; [split; [reflexivity | exact H]|].
    cbn [has_prefix app] in H. apply andb_true_iff in H as [H _]. apply N.eqb_eq in H. subst a.
    exfalso. apply Ht. now left.
  - destruct t as [|a t].
    + cbn [app] in H. destruct HX as [-> | [X' ->]]; [discriminate|].
      cbn [has_prefix app] in H. apply andb_true_iff in H as [H _]. apply N.eqb_eq in H. subst c.
      exfalso. apply Hd. now left.
    + cbn [has_prefix app] in H. apply andb_true_iff in H as [H1 H2]. apply N.eqb_eq in H1. subst a.
      destruct (IH t X Y) as [-> HX']; auto.
      * intros Hin. apply Hd. now right.
      * intros Hin. apply Ht. now right.
Qed.

Lemma plain_noslash s : plain s -> noslash s.
Proof. intros H; apply H. Qed.

Lemma join_plain_no_leading_slash T X : Forall plain T -> has_prefix (join T) (SLASH :: X) = false.
Proof.
  intros HT. destruct T as [|t T]; [reflexivity|]. inversion HT as [|? ? Ht _]; subst.
  rewrite join_cons. destruct t as [|a t]; [destruct Ht as [Hne _]; congruence|].
  cbn [app has_prefix]. destruct (SLASH =? a) eqn:E; [|reflexivity].
  apply N.eqb_eq in E. subst a. exfalso. apply (plain_noslash _ Ht). now left.
Qed.

Lemma has_prefix_nil_snoc p x : has_prefix [] (p ++ [x]) = false.
Proof. destruct p; reflexivity. Qed.

(* the string test of extractTarGz, read on element lists *)
Lemma prefix_join : forall D T,
  Forall plain D -> Forall plain T ->
  has_prefix (join T) (join D ++ [SLASH]) = true ->
  exists rest, rest <> [] /\ T = D ++ rest.
Proof.
  induction D as [|d D IH]; intros T HD HT H.
  - cbn in H. now rewrite (join_plain_no_leading_slash T [] HT) in H.
  - inversion HD as [|? ? Hd HD']; subst.
    destruct T as [|t T]; [cbn [join] in H; rewrite has_prefix_nil_snoc in H; discriminate|].
    inversion HT as [|? ? Ht HT']; subst.
    rewrite !join_cons in H. rewrite <- app_assoc in H.
    assert (HX0 : (if is_nil T then [] else SLASH :: join T) = [] \/
                  exists X', (if is_nil T then [] else SLASH :: join T) = SLASH :: X')
      by (destruct (is_nil T); [now left | right; eauto]).
    destruct (is_nil D) eqn:ED.
    + destruct D; [|discriminate]. cbn [app] in H.
      destruct (prefix_elem d t (if is_nil T then [] else SLASH :: join T) []
                  (plain_noslash _ Hd) (plain_noslash _ Ht) HX0 H) as [-> HX].
      destruct T as [|t' T]; [discriminate|].
      exists (t' :: T). split; [discriminate | reflexivity].
    + cbn [app] in H.
      destruct (prefix_elem d t (if is_nil T then [] else SLASH :: join T) (join D ++ [SLASH])
                  (plain_noslash _ Hd) (plain_noslash _ Ht) HX0 H) as [-> HX].
      destruct T as [|t' T]; [discriminate|]. cbn [is_nil] in HX.
      cbn [has_prefix] in HX. rewrite N.eqb_refl in HX. cbn [andb] in HX.
      destruct (IH (t' :: T) HD' HT' HX) as [rest [Hne ->]].
      exists rest. split; [exact Hne | reflexivity].
Qed.

(* ---------- the cleaned string splits back into its elements ---------- *)

Lemma split_app_noslash : forall t X, noslash t -> split (t ++ SLASH :: X) = t :: split X.
Proof.
  induction t as [|a t IH]; intros X Ht; cbn.
  - reflexivity.
  - destruct (a =? SLASH) eqn:E; [apply N.eqb_eq in E; subst; exfalso; apply Ht; now left|].
    rewrite IH; [reflexivity | intros Hin; apply Ht; now right].
Qed.

Lemma split_noslash_id : forall t, noslash t -> split t = [t].
Proof.
  induction t as [|a t IH]; intros Ht; cbn; [reflexivity|].
  destruct (a =? SLASH) eqn:E; [apply N.eqb_eq in E; subst; exfalso; apply Ht; now left|].
  rewrite IH; [reflexivity | intros Hin; apply Ht; now right].
Qed.

Lemma split_join T : Forall plain T -> T <> [] -> split (join T) = T.
Proof.
  induction T as [|t T IH]; intros HT Hne; [congruence|].
  inversion HT as [|? ? Ht HT']; subst. rewrite join_cons.
  destruct T as [|t' T]; cbn [is_nil].
  - rewrite app_nil_r. apply split_noslash_id, plain_noslash, Ht.
  - rewrite split_app_noslash by apply plain_noslash, Ht. f_equal. apply IH; [assumption | discriminate].
Qed.

Lemma plain_is_nil s : plain s -> is_nil s = false.
Proof. intros [H _]. destruct s; [congruence | reflexivity]. Qed.

Lemma norm_plain_id : forall T st, Forall plain T -> norm_segs true T st = rev st ++ T.
Proof.
  induction T as [|t T IH]; intros st HT; cbn; [now rewrite app_nil_r|].
  inversion HT as [|? ? Ht HT']; subst.
  rewrite (plain_is_nil _ Ht). destruct Ht as [H1 [H2 [H3 H4]]]. rewrite H2, H3. cbn.
  rewrite IH by assumption. cbn. now rewrite <- app_assoc.
Qed.

Lemma comps_of_clean T : Forall plain T -> comps (SLASH :: join T) = T.
Proof.
  intros HT. unfold comps. cbn [rooted]. rewrite N.eqb_refl. cbn [split]. rewrite N.eqb_refl.
  destruct T as [|t T'].
  - reflexivity.
  - rewrite (split_join (t :: T') HT ltac:(discriminate)).
    change (norm_segs true ([] :: t :: T') []) with (norm_segs true (t :: T') []).
    now rewrite norm_plain_id.
Qed.

Lemma rooted_app a b : rooted a = true -> rooted (a ++ b) = true.
Proof. destruct a; [discriminate | exact id]. Qed.

Lemma join2_rooted dest name : rooted dest = true ->
  join2 dest name = SLASH :: join (comps (dest ++ SLASH :: name)).
Proof.
  intros Hr. unfold join2. destruct dest as [|c d]; [discriminate|]. cbn [is_nil negb].
  apply clean_rooted. now apply rooted_app.
Qed.

(* guard => the target is the destination plus at least one plain element *)
Lemma guard_confined dest name : rooted dest = true -> guard dest name = true ->
  exists rest, rest <> [] /\ Forall plain rest /\
               comps (join2 dest name) = comps dest ++ rest.
Proof.
  intros Hr Hg. unfold guard in Hg.
  rewrite (join2_rooted _ _ Hr) in *. rewrite (clean_rooted _ Hr) in Hg.
  cbn [app has_prefix] in Hg. rewrite N.eqb_refl in Hg. cbn [andb] in Hg.
  assert (HT : Forall plain (comps (dest ++ SLASH :: name))) by (apply comps_plain, rooted_app, Hr).
  destruct (prefix_join _ _ (comps_plain _ Hr) HT Hg) as [rest [Hne E]].
  exists rest. split; [exact Hne|]. split.
  - rewrite E in HT. now apply Forall_app in HT.
  - rewrite comps_of_clean by exact HT. exact E.
Qed.

(* the check of securePath (after the fix): the target is the destination itself
   or the destination plus plain elements *)
Lemma clean_comps dest : rooted dest = true ->
  rooted (clean dest) = true /\ comps (clean dest) = comps dest.
Proof.
  intros Hr. rewrite (clean_rooted _ Hr). split; [reflexivity|].
  apply comps_of_clean, comps_plain, Hr.
Qed.

Lemma secure_target_eq dest name : rooted dest = true ->
  secure_target dest name = SLASH :: join (comps (clean dest ++ SLASH :: name)).
Proof. intros Hr. unfold secure_target. apply join2_rooted. apply (clean_comps _ Hr). Qed.

Lemma guard_fixed_confined dest name : rooted dest = true -> guard_fixed dest name = true ->
  exists rest, Forall plain rest /\ comps (secure_target dest name) = comps dest ++ rest.
Proof.
  intros Hr Hg. unfold guard_fixed in Hg. destruct (clean_comps _ Hr) as [Hrc Hcc].
  rewrite (secure_target_eq _ _ Hr) in *.
  assert (HT : Forall plain (comps (clean dest ++ SLASH :: name))) by (apply comps_plain, rooted_app, Hrc).
  rewrite (comps_of_clean _ HT).
  apply orb_true_iff in Hg as [Hg | Hg].
  - apply str_eqb_eq in Hg. apply (f_equal comps) in Hg.
    rewrite (comps_of_clean _ HT), Hcc in Hg. exists []. split; [constructor | now rewrite app_nil_r].
  - rewrite (clean_rooted _ Hr) in Hg, HT |- *. cbn [app has_prefix] in Hg. rewrite N.eqb_refl in Hg. cbn [andb] in Hg.
    destruct (prefix_join _ _ (comps_plain _ Hr) HT Hg) as [rest [_ E]].
    exists rest. split; [|exact E]. rewrite E in HT. now apply Forall_app in HT.
Qed.

(* ---------- file system ---------- *)

Lemma path_eqb_eq p q : path_eqb p q = true -> p = q.
Proof. apply list_eqb_eq. apply str_eqb_eq. Qed.

Lemma path_eqb_refl p : path_eqb p p = true.
Proof. apply list_eqb_refl. intros a. apply list_eqb_refl. apply N.eqb_refl. Qed.

Lemma lookup_set_other fs p n q : q <> p -> lookup (set fs p n) q = lookup fs q.
Proof.
  intros Hne. destruct q as [|a q]; [reflexivity|]. unfold lookup, set. cbn [fs_find].
  destruct (path_eqb (a :: q) p) eqn:E; [apply path_eqb_eq in E; congruence | reflexivity].
Qed.

Lemma lookup_set_same fs p n : p <> [] -> lookup (set fs p n) p = Some n.
Proof. intros Hne. destruct p; [congruence|]. unfold lookup, set. cbn [fs_find]. now rewrite path_eqb_refl. Qed.

(* MkdirAll changes only missing prefixes of its argument *)
Lemma mkdir_walk_changes : forall rest fs done fs', mkdir_walk fs done rest = Some fs' ->
  forall q, lookup fs' q = lookup fs q \/
            (lookup fs q = None /\ lookup fs' q = Some Dir /\ exists k, q = done ++ firstn (S k) rest).
Proof.
  induction rest as [|c rest IH]; intros fs done fs' H q; cbn in H.
  - inversion H. now left.
  - destruct (lookup fs (done ++ [c])) as [[|d]|] eqn:El; [| discriminate |].
    + destruct (IH _ _ _ H q) as [E | [E1 [E2 [k ->]]]]; [now left|]. right. repeat split; auto.
      exists (S k). cbn. now rewrite <- app_assoc.
    + destruct (IH _ _ _ H q) as [E | [E1 [E2 [k ->]]]].
      * destruct (path_eqb q (done ++ [c])) eqn:Eq.
        -- apply path_eqb_eq in Eq. subst q. right. split; [exact El|]. split.
           ++ rewrite E. apply lookup_set_same. now destruct done.
           ++ exists 0%nat. reflexivity.
        -- left. rewrite E. apply lookup_set_other. intros ->. now rewrite path_eqb_refl in Eq.
      * destruct (path_eqb ((done ++ [c]) ++ firstn (S k) rest) (done ++ [c])) eqn:Eq.
        -- apply path_eqb_eq in Eq. rewrite Eq in E1. rewrite lookup_set_same in E1 by now destruct done. discriminate.
        -- right. split; [|split; [exact E2|]].
           ++ rewrite <- E1. symmetry. apply lookup_set_other. intros Hq. rewrite Hq in Eq. now rewrite path_eqb_refl in Eq.
           ++ exists (S k). cbn. now rewrite <- app_assoc.
Qed.

Definition pref (q p : path) : Prop := exists s, p = q ++ s.

Lemma firstn_pref {A} k (p : list A) : exists s, p = firstn k p ++ s.
Proof. exists (skipn k p). now rewrite firstn_skipn. Qed.

Lemma mkdir_walk_ok : forall rest fs done,
  (forall k d, lookup fs (done ++ firstn (S k) rest) <> Some (File d)) ->
  exists fs', mkdir_walk fs done rest = Some fs' /\
              forall k, (k < length rest)%nat -> lookup fs' (done ++ firstn (S k) rest) = Some Dir.
Proof.
  induction rest as [|c rest IH]; intros fs done H.
  - exists fs. split; [reflexivity|]. intros k Hk. inversion Hk.
  - cbn [mkdir_walk].
    assert (Hshift : forall k, (done ++ [c]) ++ firstn k rest = done ++ firstn (S k) (c :: rest))
      by (intros k; cbn; now rewrite <- app_assoc).
    destruct (lookup fs (done ++ [c])) as [[|d]|] eqn:El.
    + destruct (IH fs (done ++ [c])) as [fs' [E Hd]].
      { intros k d. rewrite Hshift. apply H. }
      exists fs'. split; [exact E|]. intros [|k] Hk.
      * cbn [firstn]. destruct (mkdir_walk_changes _ _ _ _ E (done ++ [c])) as [Eq | [Eq _]];
          [now rewrite Eq | rewrite El in Eq; discriminate].
      * rewrite <- Hshift. apply Hd. cbn in Hk. lia.
    + exfalso. apply (H 0%nat d). exact El.
    + assert (Hq0 : done ++ [c] <> []) by now destruct done.
      destruct (IH (set fs (done ++ [c]) Dir) (done ++ [c])) as [fs' [E Hd]].
      { intros k d. destruct (path_eqb ((done ++ [c]) ++ firstn (S k) rest) (done ++ [c])) eqn:Eq.
        - apply path_eqb_eq in Eq. rewrite Eq. now rewrite lookup_set_same.
        - rewrite lookup_set_other by (intros Hq; rewrite Hq in Eq; now rewrite path_eqb_refl in Eq).
          rewrite Hshift. apply H. }
      exists fs'. split; [exact E|]. intros [|k] Hk.
      * cbn [firstn]. destruct (mkdir_walk_changes _ _ _ _ E (done ++ [c])) as [Eq | [Eq _]].
        -- rewrite Eq. now apply lookup_set_same.
        -- rewrite lookup_set_same in Eq by exact Hq0. discriminate.
      * rewrite <- Hshift. apply Hd. cbn in Hk. lia.
Qed.

Lemma pref_firstn (q p : path) : pref q p -> q = firstn (length q) p.
Proof. intros [s ->]. rewrite firstn_app, firstn_all, Nat.sub_diag. cbn. now rewrite app_nil_r. Qed.

Lemma mkdir_all_ok fs p :
  (forall q d, pref q p -> lookup fs q <> Some (File d)) ->
  exists fs', mkdir_all fs p = Some fs' /\
    (forall q, pref q p -> lookup fs' q = Some Dir) /\
    (forall q, lookup fs' q = lookup fs q \/ (lookup fs q = None /\ lookup fs' q = Some Dir /\ pref q p /\ q <> [])).
Proof.
  intros H. destruct (mkdir_walk_ok p fs []) as [fs' [E Hd]].
  { intros k d. cbn [app]. apply H. apply firstn_pref. }
  exists fs'. split; [exact E|]. split.
  - intros q Hq. rewrite (pref_firstn _ _ Hq). destruct q as [|a q]; [reflexivity|].
    destruct Hq as [s Hs]. specialize (Hd (length q)). cbn [app length] in *. apply Hd.
    subst p. cbn. rewrite app_length. lia.
  - intros q. destruct (mkdir_walk_changes _ _ _ _ E q) as [Eq | [E1 [E2 [k Ek]]]]; [now left|].
    right. repeat split; auto.
    + cbn [app] in Ek. subst q. apply firstn_pref.
    + intros ->. discriminate.
Qed.


Lemma pref_refl (p : path) : pref p p.
Proof. exists []. now rewrite app_nil_r. Qed.

Lemma pref_trans (a b c : path) : pref a b -> pref b c -> pref a c.
Proof. intros [s ->] [t ->]. exists (s ++ t). now rewrite app_assoc. Qed.

Lemma pref_removelast (p : path) : p <> [] -> pref (removelast p) p.
Proof. intros H. exists [last p []]. now apply app_removelast_last. Qed.

Lemma pref_app_inv (D a b : path) : pref (D ++ a) (D ++ b) -> pref a b.
Proof. intros [s Hs]. rewrite <- app_assoc in Hs. apply app_inv_head in Hs. now exists s. Qed.

Lemma length_removelast {A} (p : list A) : p <> [] -> length p = S (length (removelast p)).
Proof.
  intros H. destruct p as [|a p']; [congruence|].
  pose proof (app_removelast_last a H) as HL. apply (f_equal (@length _)) in HL.
  rewrite app_length in HL. cbn [length] in HL. cbn [length]. lia.
Qed.

Lemma mkdir_all_changes fs p fs' : mkdir_all fs p = Some fs' ->
  forall q, lookup fs' q = lookup fs q \/ (lookup fs q = None /\ lookup fs' q = Some Dir /\ pref q p /\ q <> []).
Proof.
  intros E q. destruct (mkdir_walk_changes _ _ _ _ E q) as [Eq | [E1 [E2 [k Ek]]]]; [now left|].
  right. repeat split; auto.
  - cbn [app] in Ek. subst q. apply firstn_pref.
  - intros ->. discriminate.
Qed.

(* ---------- nothing outside the destination changes ---------- *)

Definition sunder (D q : path) : Prop := exists r, r <> [] /\ q = D ++ r.
Definition frame (D : path) (fs fs' : fsys) : Prop := forall q, ~ sunder D q -> lookup fs' q = lookup fs q.
Definition dest_exists (fs : fsys) (D : path) : Prop := forall k, lookup fs (firstn k D) = Some Dir.

Lemma frame_refl D fs : frame D fs fs.
Proof. intros q _. reflexivity. Qed.

Lemma frame_trans D a b c : frame D a b -> frame D b c -> frame D a c.
Proof. intros H1 H2 q Hq. now rewrite (H2 q Hq), (H1 q Hq). Qed.

Lemma firstn_not_under D k : ~ sunder D (firstn k D).
Proof.
  intros [r [Hne E]]. apply (f_equal (@length _)) in E. rewrite app_length, firstn_length in E.
  destruct r; [congruence|]. cbn in E. lia.
Qed.

Lemma frame_dest_exists D fs fs' : frame D fs fs' -> dest_exists fs D -> dest_exists fs' D.
Proof. intros HF HE k. rewrite (HF _ (firstn_not_under D k)). apply HE. Qed.

Lemma pref_split (q D r : path) : pref q (D ++ r) -> (exists k, q = firstn k D) \/ sunder D q.
Proof.
  intros [s Hs]. symmetry in Hs. apply app_eq_app in Hs as [l [[E1 E2] | [E1 E2]]].
  - destruct l as [|x l].
    + left. exists (length D). rewrite app_nil_r in E1. subst q. now rewrite firstn_all.
    + right. exists (x :: l). split; [discriminate | exact E1].
  - left. exists (length q). rewrite E1. rewrite firstn_app, firstn_all, Nat.sub_diag. cbn. now rewrite app_nil_r.
Qed.

(* MkdirAll of a path all of whose prefixes are prefixes of D or lie below D *)
Lemma mkdir_all_frame_gen D p fs fs' : dest_exists fs D ->
  (forall q, pref q p -> (exists k, q = firstn k D) \/ sunder D q) ->
  mkdir_all fs p = Some fs' -> frame D fs fs'.
Proof.
  intros HE Hp H q Hq.
  destruct (mkdir_all_changes _ _ _ H q) as [E | [E1 [_ [Hpref _]]]]; [exact E|]. exfalso.
  destruct (Hp q Hpref) as [[k ->] | Hs]; [rewrite HE in E1; discriminate | exact (Hq Hs)].
Qed.

Lemma mkdir_all_frame D r fs fs' : dest_exists fs D -> mkdir_all fs (D ++ r) = Some fs' -> frame D fs fs'.
Proof. intros HE. apply mkdir_all_frame_gen; [exact HE|]. intros q. apply pref_split. Qed.

Lemma put_dir_frame D r fs fs' ok : dest_exists fs D -> put_dir fs (D ++ r) = (fs', ok) -> frame D fs fs'.
Proof.
  intros HE H. unfold put_dir in H. destruct (mkdir_all fs (D ++ r)) as [fs1|] eqn:Em; inversion H; subst.
  - eapply mkdir_all_frame; eauto.
  - apply frame_refl.
Qed.

Lemma write_file_frame D r t fs fs' data : r <> [] -> write_file t fs (D ++ r) data = Some fs' -> frame D fs fs'.
Proof.
  intros Hr H q Hq. unfold write_file in H.
  destruct (D ++ r) as [|a p] eqn:Ep; [discriminate|]. rewrite <- Ep in *.
  assert (q <> D ++ r) by (intros ->; apply Hq; now exists r).
  destruct (lookup fs (parent (D ++ r))) as [[|?]|]; try discriminate.
  destruct (lookup fs (D ++ r)) as [[|old]|]; try discriminate;
    inversion H; subst; now apply lookup_set_other.
Qed.

Lemma write_file_on_dir t fs p data : lookup fs p = Some Dir -> write_file t fs p data = None.
Proof.
  intros H. unfold write_file. destruct p as [|a p]; [reflexivity|].
  destruct (lookup fs (parent (a :: p))) as [[|?]|]; try reflexivity. now rewrite H.
Qed.

Lemma put_file_frame D r t fs fs' ok data : dest_exists fs D ->
  put_file t true fs (D ++ r) data = (fs', ok) -> frame D fs fs'.
Proof.
  intros HE H. unfold put_file in H.
  destruct (mkdir_all fs (parent (D ++ r))) as [fs1|] eqn:Em; [|inversion H; apply frame_refl].
  assert (F1 : frame D fs fs1).
  { eapply mkdir_all_frame_gen; [exact HE | | exact Em].
    intros q Hq. apply (pref_split q D r). unfold parent in Hq.
    destruct (D ++ r) as [|a p] eqn:Ep; [exact Hq|]. rewrite <- Ep in *.
    eapply pref_trans; [exact Hq|]. apply pref_removelast. rewrite Ep. discriminate. }
  destruct r as [|x r].
  - rewrite app_nil_r in H. rewrite write_file_on_dir in H.
    + inversion H; subst. exact F1.
    + pose proof (frame_dest_exists _ _ _ F1 HE (length D)) as Hd. now rewrite firstn_all in Hd.
  - destruct (write_file t fs1 (D ++ x :: r) data) as [fs2|] eqn:Ew; inversion H; subst; [|exact F1].
    eapply frame_trans; [exact F1|]. eapply write_file_frame; [|exact Ew]. discriminate.
Qed.

Lemma targz_frame fixed dest : rooted dest = true -> forall es fs fs' ok,
  dest_exists fs (comps dest) -> extract_targz fixed dest es fs = (fs', ok) -> frame (comps dest) fs fs'.
Proof.
  intros Hr. induction es as [|e es IH]; intros fs fs' ok HE H; cbn [extract_targz] in H.
  - inversion H. apply frame_refl.
  - assert (Ht : (if fixed then guard_fixed dest (te_name e) else guard dest (te_name e)) = true ->
                 exists rest, comps (if fixed then secure_target dest (te_name e) else join2 dest (te_name e))
                              = comps dest ++ rest).
    { destruct fixed; intros Hg.
      - destruct (guard_fixed_confined _ _ Hr Hg) as [rest [_ E]]. eauto.
      - destruct (guard_confined _ _ Hr Hg) as [rest [_ [_ E]]]. eauto. }
    destruct (if fixed then guard_fixed dest (te_name e) else guard dest (te_name e)); cbn [negb] in H;
      [|inversion H; apply frame_refl].
    destruct (Ht eq_refl) as [rest Et]. rewrite Et in H.
    destruct (te_kind e).
    + destruct (put_file fixed true fs (comps dest ++ rest) (te_data e)) as [fs1 ok1] eqn:Ep.
      pose proof (put_file_frame _ _ _ _ _ _ _ HE Ep) as F1. cbn [fst snd] in H.
      destruct ok1; [|inversion H; subst; exact F1].
      eapply frame_trans; [exact F1|]. eapply IH; [|exact H]. eapply frame_dest_exists; eauto.
    + destruct (put_dir fs (comps dest ++ rest)) as [fs1 ok1] eqn:Ep.
      pose proof (put_dir_frame _ _ _ _ _ HE Ep) as F1. cbn [fst snd] in H.
      destruct ok1; [|inversion H; subst; exact F1].
      eapply frame_trans; [exact F1|]. eapply IH; [|exact H]. eapply frame_dest_exists; eauto.
    + eapply IH; eauto.
Qed.

Lemma zip_frame dest : rooted dest = true -> forall es fs fs' ok,
  dest_exists fs (comps dest) -> extract_zip true dest es fs = (fs', ok) -> frame (comps dest) fs fs'.
Proof.
  intros Hr. induction es as [|e es IH]; intros fs fs' ok HE H; cbn [extract_zip] in H.
  - inversion H. apply frame_refl.
  - destruct (guard_fixed dest (ze_name e)) eqn:Hg; cbn [negb andb] in H; [|inversion H; apply frame_refl].
    destruct (guard_fixed_confined _ _ Hr Hg) as [rest [_ Et]]. rewrite Et in H.
    destruct (ze_isdir e).
    + destruct (put_dir fs (comps dest ++ rest)) as [fs1 ok1] eqn:Ep.
      pose proof (put_dir_frame _ _ _ _ _ HE Ep) as F1. cbn [fst snd] in H.
      destruct ok1; [|inversion H; subst; exact F1].
      eapply frame_trans; [exact F1|]. eapply IH; [|exact H]. eapply frame_dest_exists; eauto.
    + destruct (put_file true true fs (comps dest ++ rest) (ze_data e)) as [fs1 ok1] eqn:Ep.
      pose proof (put_file_frame _ _ _ _ _ _ _ HE Ep) as F1. cbn [fst snd] in H.
      destruct ok1; [|inversion H; subst; exact F1].
      eapply frame_trans; [exact F1|]. eapply IH; [|exact H]. eapply frame_dest_exists; eauto.
Qed.

(* ---------- plain relative names are accepted ---------- *)

Lemma split_nonempty s : split s <> [].
Proof. destruct s as [|c r]; cbn; [discriminate|]. destruct (c =? SLASH); [discriminate|]. destruct (split r); discriminate. Qed.

Lemma split_app_slash : forall a b, split (a ++ SLASH :: b) = split a ++ split b.
Proof.
  induction a as [|c a IH]; intros b.
  - cbn [app split]. now rewrite N.eqb_refl.
  - cbn [app split]. destruct (c =? SLASH); rewrite IH; [reflexivity|].
    destruct (split a) as [|h t] eqn:E; [now apply split_nonempty in E | reflexivity].
Qed.

Lemma norm_segs_app rt : forall xs ys st,
  norm_segs rt (xs ++ ys) st = norm_segs rt ys (rev (norm_segs rt xs st)).
Proof.
  induction xs as [|x xs IH]; intros ys st.
  - cbn. now rewrite rev_involutive.
  - cbn [app norm_segs]. destruct (is_nil x || is_dot x); [apply IH|].
    destruct (is_dotdot x); [|apply IH].
    destruct st as [|top st']; [destruct rt; apply IH|]. destruct (is_dotdot top); apply IH.
Qed.

Lemma comps_join_plain dest r : rooted dest = true -> Forall plain r -> r <> [] ->
  comps (dest ++ SLASH :: join r) = comps dest ++ r.
Proof.
  intros Hr Hp Hne. unfold comps. rewrite (rooted_app _ _ Hr), Hr.
  rewrite split_app_slash, norm_segs_app, (split_join r Hp Hne), norm_plain_id by exact Hp.
  now rewrite rev_involutive.
Qed.

Lemma join_app D r : D <> [] -> r <> [] -> join (D ++ r) = join D ++ SLASH :: join r.
Proof.
  induction D as [|d D IH]; intros HD Hr; [congruence|].
  cbn [app]. rewrite !join_cons. destruct D as [|d' D].
  - cbn [app is_nil]. destruct r; [congruence|]. cbn [is_nil]. now rewrite app_nil_r.
  - cbn [app is_nil] in *. rewrite IH by (discriminate || assumption). now rewrite <- app_assoc.
Qed.

Lemma has_prefix_self_app p s : has_prefix (p ++ s) p = true.
Proof. induction p as [|x p IH]; [destruct s; reflexivity|]. cbn [app has_prefix]. now rewrite N.eqb_refl. Qed.

Lemma plain_accepted dest r : rooted dest = true -> comps dest <> [] -> Forall plain r -> r <> [] ->
  guard dest (join r) = true /\ comps (join2 dest (join r)) = comps dest ++ r.
Proof.
  intros Hr HD Hp Hne.
  assert (HT : Forall plain (comps dest ++ r)) by (apply Forall_app; split; [now apply comps_plain | exact Hp]).
  unfold guard. rewrite (join2_rooted _ _ Hr), (clean_rooted _ Hr), (comps_join_plain _ _ Hr Hp Hne). split.
  - rewrite (join_app _ _ HD Hne). cbn [app has_prefix]. rewrite N.eqb_refl. cbn [andb].
    change (join (comps dest) ++ SLASH :: join r) with (join (comps dest) ++ [SLASH] ++ join r).
    rewrite app_assoc. apply has_prefix_self_app.
  - now apply comps_of_clean.
Qed.


(* plain names under securePath, optionally written with a trailing slash (zip
   directory entries) *)
Lemma norm_drop rt : forall segs st,
  Forall (fun s => is_nil s || is_dot s = true) segs -> norm_segs rt segs st = rev st.
Proof.
  induction segs as [|s r IH]; intros st H; cbn [norm_segs]; [reflexivity|].
  inversion H as [|? ? H1 H2]; subst. rewrite H1. now apply IH.
Qed.

Lemma comps_join_plain_sfx dest r sfx : rooted dest = true -> Forall plain r -> r <> [] ->
  (sfx = [] \/ sfx = [SLASH]) ->
  comps (dest ++ SLASH :: join r ++ sfx) = comps dest ++ r.
Proof.
  intros Hr Hp Hne [-> | ->].
  - rewrite app_nil_r. now apply comps_join_plain.
  - unfold comps. rewrite (rooted_app _ _ Hr), Hr.
    replace (dest ++ SLASH :: join r ++ [SLASH]) with ((dest ++ SLASH :: join r) ++ SLASH :: [])
      by (now rewrite <- app_assoc).
    rewrite split_app_slash, norm_segs_app.
    fold (comps dest). pose proof (comps_join_plain dest r Hr Hp Hne) as E.
    unfold comps in E. rewrite (rooted_app _ _ Hr), Hr in E. rewrite E.
    cbn [split]. rewrite norm_drop by (repeat constructor). now rewrite rev_involutive.
Qed.

Lemma plain_accepted_fixed dest r sfx : rooted dest = true -> comps dest <> [] -> Forall plain r -> r <> [] ->
  (sfx = [] \/ sfx = [SLASH]) ->
  guard_fixed dest (join r ++ sfx) = true /\ comps (secure_target dest (join r ++ sfx)) = comps dest ++ r.
Proof.
  intros Hr HD Hp Hne Hs. destruct (clean_comps _ Hr) as [Hrc Hcc].
  assert (HT : Forall plain (comps dest ++ r)) by (apply Forall_app; split; [now apply comps_plain | exact Hp]).
  assert (E : comps (clean dest ++ SLASH :: join r ++ sfx) = comps dest ++ r)
    by (rewrite (comps_join_plain_sfx _ _ _ Hrc Hp Hne Hs); now rewrite Hcc).
  unfold guard_fixed. rewrite (secure_target_eq _ _ Hr), E. split.
  - apply orb_true_iff. right. rewrite (clean_rooted _ Hr), (join_app _ _ HD Hne).
    cbn [app has_prefix]. rewrite N.eqb_refl. cbn [andb].
    change (join (comps dest) ++ SLASH :: join r) with (join (comps dest) ++ [SLASH] ++ join r).
    rewrite app_assoc. apply has_prefix_self_app.
  - now apply comps_of_clean.
Qed.

(* names that only consist of empty and . elements (the root entry ./ of tar -c .)
   name the destination itself and are accepted by securePath *)
Lemma dot_names_accepted dest name : rooted dest = true ->
  Forall (fun s => is_nil s || is_dot s = true) (split name) ->
  guard_fixed dest name = true /\ comps (secure_target dest name) = comps dest.
Proof.
  intros Hr Hd. destruct (clean_comps _ Hr) as [Hrc Hcc].
  assert (E : comps (clean dest ++ SLASH :: name) = comps dest).
  { unfold comps at 1. rewrite (rooted_app _ _ Hrc), split_app_slash, norm_segs_app.
    rewrite norm_drop by exact Hd. rewrite rev_involutive.
    unfold comps in Hcc. now rewrite Hrc in Hcc. }
  unfold guard_fixed. rewrite (secure_target_eq _ _ Hr), E. split.
  - apply orb_true_iff. left. rewrite (clean_rooted _ Hr). apply list_eqb_refl, N.eqb_refl.
  - apply comps_of_clean, comps_plain, Hr.
Qed.

(* ---------- well-formed archives are reproduced exactly ---------- *)

Definition went := (path * tkind * list N)%type.       (* relative path elements, kind, bytes *)
Definition w_rel (w : went) : path := fst (fst w).
Definition w_kind (w : went) : tkind := snd (fst w).
Definition w_data (w : went) : list N := snd w.
Definition to_entry (w : went) : tentry := TE (join (w_rel w)) (w_kind w) (w_data w).
(* zip: directory entries carry a trailing slash *)
Definition w_isdir (w : went) : bool := match w_kind w with TDir => true | _ => false end.
Definition to_zentry (w : went) : zentry :=
  ZE (join (w_rel w) ++ (if w_isdir w then [SLASH] else [])) (w_isdir w) (w_data w).

Definition expected (w : went) : option node :=
  match w_kind w with TReg => Some (File (w_data w)) | _ => Some Dir end.

(* names are non-empty lists of plain elements, only files and directories,
   and the path of a file is not a prefix of (in particular not equal to) the
   path of any other entry *)
Fixpoint wf_entries (ws : list went) : Prop :=
  match ws with
  | [] => True
  | w :: ws' =>
    Forall plain (w_rel w) /\ w_rel w <> [] /\ w_kind w <> TOther /\
    (forall w', In w' ws' ->
       (w_kind w = TReg -> ~ pref (w_rel w) (w_rel w')) /\
       (w_kind w' = TReg -> ~ pref (w_rel w') (w_rel w))) /\
    wf_entries ws'
  end.

(* what both extractors do with a well-formed entry once the name is resolved *)
Definition place (D : path) (w : went) (fs : fsys) : fsys * bool :=
  match w_kind w with
  | TReg => put_file true true fs (D ++ w_rel w) (w_data w)
  | _ => put_dir fs (D ++ w_rel w)
  end.

Fixpoint place_all (D : path) (ws : list went) (fs : fsys) : fsys * bool :=
  match ws with
  | [] => (fs, true)
  | w :: ws' => let r := place D w fs in if snd r then place_all D ws' (fst r) else r
  end.

Lemma targz_place_all dest : rooted dest = true -> comps dest <> [] -> forall ws fs, wf_entries ws ->
  extract_targz true dest (map to_entry ws) fs = place_all (comps dest) ws fs.
Proof.
  intros Hr HD. induction ws as [|w ws IH]; intros fs Hwf; [reflexivity|].
  destruct Hwf as [Hp [Hne [Hk [_ Hwf']]]].
  destruct (plain_accepted_fixed dest (w_rel w) [] Hr HD Hp Hne (or_introl eq_refl)) as [Hg Ht].
  rewrite app_nil_r in Hg, Ht.
  cbn [map extract_targz place_all to_entry te_name te_kind te_data]. rewrite Hg, Ht. cbn [negb].
  unfold place. destruct (w_kind w); [| |congruence].
  - destruct (put_file true true fs _ _) as [fs1 [|]]; cbn [fst snd]; [now apply IH | reflexivity].
  - destruct (put_dir fs _) as [fs1 [|]]; cbn [fst snd]; [now apply IH | reflexivity].
Qed.

Lemma zip_place_all dest : rooted dest = true -> comps dest <> [] -> forall ws fs, wf_entries ws ->
  extract_zip true dest (map to_zentry ws) fs = place_all (comps dest) ws fs.
Proof.
  intros Hr HD. induction ws as [|w ws IH]; intros fs Hwf; [reflexivity|].
  destruct Hwf as [Hp [Hne [Hk [_ Hwf']]]].
  destruct (plain_accepted_fixed dest (w_rel w) (if w_isdir w then [SLASH] else []) Hr HD Hp Hne
              ltac:(destruct (w_isdir w); auto)) as [Hg Ht].
  cbn [map extract_zip place_all to_zentry ze_name ze_isdir ze_data]. rewrite Hg, Ht. cbn [negb andb].
  unfold place, w_isdir. destruct (w_kind w); [| |congruence].
  - destruct (put_file true true fs _ _) as [fs1 [|]]; cbn [fst snd]; [now apply IH | reflexivity].
  - destruct (put_dir fs _) as [fs1 [|]]; cbn [fst snd]; [now apply IH | reflexivity].
Qed.

Definition inv (D : path) (fs : fsys) (ws : list went) : Prop :=
  forall w, In w ws ->
    (forall q d, pref q (D ++ w_rel w) -> q <> D ++ w_rel w -> lookup fs q <> Some (File d)) /\
    (w_kind w = TReg -> lookup fs (D ++ w_rel w) = None) /\
    (forall d, lookup fs (D ++ w_rel w) <> Some (File d)).

(* one step on a well-formed entry *)
Lemma place_ok D w fs : D <> [] -> w_rel w <> [] -> w_kind w <> TOther -> inv D fs [w] ->
  exists fs2, place D w fs = (fs2, true) /\
    lookup fs2 (D ++ w_rel w) = expected w /\
    forall q, lookup fs2 q = lookup fs q \/
              (lookup fs q = None /\ pref q (D ++ w_rel w) /\ q <> [] /\
               (lookup fs2 q = Some Dir \/ (q = D ++ w_rel w /\ w_kind w = TReg))).
Proof.
  intros HD Hne Hk Hinv. set (r := w_rel w) in *.
  destruct (Hinv w (or_introl eq_refl)) as [Ha [Hb Hc]]. fold r in Ha, Hb, Hc.
  assert (HPne : D ++ r <> []) by (destruct D; [congruence | discriminate]).
  unfold place, expected. fold r. destruct (w_kind w) eqn:Ek; [| |congruence].
  - (* regular file *)
    unfold put_file.
    destruct (mkdir_all_ok fs (parent (D ++ r))) as [fs1 [Em [Hdirs Hch]]].
    { intros q d Hq. apply Ha.
      - eapply pref_trans; [exact Hq|]. now apply pref_removelast.
      - intros ->. destruct Hq as [s Hs]. unfold parent in Hs.
        apply (f_equal (@length _)) in Hs. rewrite app_length in Hs.
        pose proof (length_removelast _ HPne). lia. }
    rewrite Em.
    assert (Hnone : lookup fs1 (D ++ r) = None).
    { destruct (Hch (D ++ r)) as [E | [_ [_ [Hq _]]]]; [rewrite E; now apply Hb|].
      exfalso. destruct Hq as [s Hs]. unfold parent in Hs.
      apply (f_equal (@length _)) in Hs. rewrite app_length in Hs.
      pose proof (length_removelast _ HPne). lia. }
    unfold write_file. destruct (D ++ r) as [|a p] eqn:EP; [congruence|]. rewrite <- EP in *.
    rewrite (Hdirs _ (pref_refl _)), Hnone.
    exists (set fs1 (D ++ r) (File (w_data w))). split; [reflexivity|]. split; [now apply lookup_set_same|].
    intros q. destruct (path_eqb q (D ++ r)) eqn:Eq.
    + apply path_eqb_eq in Eq. subst q. right. split; [now apply Hb|]. split; [apply pref_refl|]. split; [exact HPne|]. now right.
    + rewrite lookup_set_other by (intros ->; now rewrite path_eqb_refl in Eq).
      destruct (Hch q) as [E | [E1 [E2 [E3 E4]]]]; [now left|]. right. repeat split; auto.
      eapply pref_trans; [exact E3|]. now apply pref_removelast.
  - (* directory *)
    unfold put_dir.
    destruct (mkdir_all_ok fs (D ++ r)) as [fs1 [Em [Hdirs Hch]]].
    { intros q d Hq. destruct (path_eqb q (D ++ r)) eqn:Eq.
      - apply path_eqb_eq in Eq. subst q. apply Hc.
      - apply Ha; [exact Hq|]. intros ->. now rewrite path_eqb_refl in Eq. }
    rewrite Em. exists fs1. split; [reflexivity|]. split; [apply Hdirs, pref_refl|].
    intros q. destruct (Hch q) as [E | [E1 [E2 [E3 E4]]]]; [now left|]. right. repeat split; auto.
Qed.

Lemma place_all_wellformed D : D <> [] ->
  forall ws fs, wf_entries ws -> inv D fs ws ->
  exists fs', place_all D ws fs = (fs', true) /\
    (forall w, In w ws -> lookup fs' (D ++ w_rel w) = expected w) /\
    (forall q, lookup fs' q = lookup fs q \/
               (lookup fs q = None /\ q <> [] /\ exists w, In w ws /\ pref q (D ++ w_rel w))).
Proof.
  intros HD. induction ws as [|w ws IH]; intros fs Hwf Hinv.
  - exists fs. split; [reflexivity|]. split; [intros w []|]. intros q. now left.
  - destruct Hwf as [Hp [Hne [Hk [Hpair Hwf']]]].
    destruct (place_ok D w fs HD Hne Hk) as [fs2 [Estep [Hexp Hch]]].
    { intros w0 [<- | []]. apply Hinv. now left. }
    assert (Hinv2 : inv D fs2 ws).
    { intros w' Hw'. destruct (Hinv w' (or_intror Hw')) as [Ha [Hb Hc]].
      destruct (Hpair w' Hw') as [P1 P2].
      assert (Hfile : forall q d, lookup fs2 q = Some (File d) -> lookup fs q <> Some (File d) ->
                                  q = D ++ w_rel w /\ w_kind w = TReg).
      { intros q d E Hn. destruct (Hch q) as [E' | [_ [_ [_ [E' | E']]]]].
        - rewrite E' in E. contradiction.
        - rewrite E' in E. discriminate.
        - exact E'. }
      split; [|split].
      - intros q d Hq Hneq E. destruct (Hfile q d E (Ha q d Hq Hneq)) as [-> Hreg].
        apply (P1 Hreg). now apply pref_app_inv in Hq.
      - intros Hreg. destruct (Hch (D ++ w_rel w')) as [E | [_ [Hq _]]]; [rewrite E; now apply Hb|].
        exfalso. apply (P2 Hreg). now apply pref_app_inv in Hq.
      - intros d E. destruct (Hfile _ d E (Hc d)) as [Eq Hreg].
        apply app_inv_head in Eq. apply (P1 Hreg). rewrite Eq. apply pref_refl. }
    destruct (IH fs2 Hwf' Hinv2) as [fs' [Erun [Hall Hch']]].
    exists fs'. split; [cbn [place_all]; rewrite Estep; cbn [fst snd]; exact Erun|]. split.
    + intros w0 [<- | Hw0]; [|now apply Hall].
      destruct (Hch' (D ++ w_rel w)) as [E | [E _]]; [now rewrite E|].
      rewrite Hexp in E. unfold expected in E. destruct (w_kind w); discriminate.
    + intros q. destruct (Hch' q) as [E | [E1 [E2 [w' [Hw' Hq]]]]].
      * destruct (Hch q) as [E' | [E1 [E2 [E3 _]]]]; [left; congruence|].
        right. split; [exact E1|]. split; [exact E3|]. exists w. split; [now left | exact E2].
      * destruct (Hch q) as [E' | [E1' [E2' [E3' _]]]].
        -- right. split; [congruence|]. split; [exact E2|]. exists w'. split; [now right | exact Hq].
        -- right. split; [exact E1'|]. split; [exact E3'|]. exists w. split; [now left | exact E2'].
Qed.

(* an empty destination satisfies the invariant *)
Lemma empty_dest_inv D fs ws : dest_exists fs D -> (forall q, sunder D q -> lookup fs q = None) ->
  (forall w, In w ws -> w_rel w <> []) -> inv D fs ws.
Proof.
  intros HE Hempty Hne w Hw.
  assert (H : forall q d, pref q (D ++ w_rel w) -> lookup fs q <> Some (File d)).
  { intros q d Hq. destruct (pref_split _ _ _ Hq) as [[k ->] | Hs]; [rewrite HE | rewrite (Hempty _ Hs)]; discriminate. }
  split; [intros q d Hq _; now apply H|]. split.
  - intros _. apply Hempty. exists (w_rel w). split; [now apply Hne | reflexivity].
  - intros d. apply H, pref_refl.
Qed.

Lemma wf_rel_nonempty ws : wf_entries ws -> forall w, In w ws -> w_rel w <> [].
Proof.
  induction ws as [|w ws IH]; intros Hwf w0 []; destruct Hwf as [_ [Hne [_ [_ Hwf']]]]; subst; auto.
Qed.

(* a truncating write stores exactly the new bytes, whatever was there before *)
Lemma write_trunc_exact fs p data fs' : write_file true fs p data = Some fs' ->
  lookup fs' p = Some (File data).
Proof.
  unfold write_file. destruct p as [|a p]; [discriminate|].
  destruct (lookup fs (parent (a :: p))) as [[|?]|]; try discriminate.
  destruct (lookup fs (a :: p)) as [[|old]|]; try discriminate;
    intros E; inversion E; subst; now apply lookup_set_same.
Qed.
