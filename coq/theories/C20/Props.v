(* C20 - property theorems only.  Model: C20.Model (extractTarGz / extractZip of
   internal/crosscompile/fetch.go as written, over a lexical model of
   filepath.Clean/Join that is compared with the real functions on every run). *)
From Coq Require Import String.
From LLGoV Require Import C20.Model C20.Proofs.
Local Open Scope N_scope.
Local Open Scope list_scope.

(* fixed = true: the code as it is now (securePath used by both extractors,
   MkdirAll of the parent in extractZip, O_TRUNC in extractTarGz);
   fixed = false: before these fixes, kept for the refutations at the end. *)

(* securePath, for EVERY entry name (.. at any depth, absolute, empty, repeated
   separators): if the check passes, the cleaned target is the cleaned destination
   followed by zero or more elements, all of them plain names (not empty, not .,
   not .., no separator) - the OS reaches the target by stepping down from the
   destination only. *)
Theorem guard_implies_confined : forall dest name,
  rooted dest = true -> guard_fixed dest name = true ->
  exists rest, Forall plain rest /\ comps (secure_target dest name) = comps dest ++ rest.
Proof. exact guard_fixed_confined. Qed.
Print Assumptions guard_implies_confined.

(* the check is not vacuous: every relative name made of plain elements (with or
   without the trailing slash of zip directory entries) passes and lands where expected *)
Theorem plain_names_accepted : forall dest r sfx,
  rooted dest = true -> comps dest <> [] -> Forall plain r -> r <> [] -> (sfx = [] \/ sfx = [SLASH]) ->
  guard_fixed dest (join r ++ sfx) = true /\ comps (secure_target dest (join r ++ sfx)) = comps dest ++ r.
Proof. exact plain_accepted_fixed. Qed.
Print Assumptions plain_names_accepted.

(* names made of empty and . elements only - the root entry ./ that tar -c . writes
   first - name the destination itself and are accepted *)
Theorem root_entry_accepted : forall dest name,
  rooted dest = true -> Forall (fun s => is_nil s || is_dot s = true) (split name) ->
  guard_fixed dest name = true /\ comps (secure_target dest name) = comps dest.
Proof. exact dot_names_accepted. Qed.
Print Assumptions root_entry_accepted.

(* Both extractors: whatever the entries are and whether or not the call fails
   half-way, nothing outside the (existing) destination is created or changed:
   every path that is not strictly below dest has the same node before and after. *)
Theorem targz_all_writes_confined : forall dest es fs fs' ok,
  rooted dest = true -> dest_exists fs (comps dest) ->
  extract_targz true dest es fs = (fs', ok) ->
  forall q, ~ sunder (comps dest) q -> lookup fs' q = lookup fs q.
Proof. intros dest es fs fs' ok Hr HE H. exact (targz_frame true dest Hr es fs fs' ok HE H). Qed.
Print Assumptions targz_all_writes_confined.

Theorem zip_all_writes_confined : forall dest es fs fs' ok,
  rooted dest = true -> dest_exists fs (comps dest) ->
  extract_zip true dest es fs = (fs', ok) ->
  forall q, ~ sunder (comps dest) q -> lookup fs' q = lookup fs q.
Proof. intros dest es fs fs' ok Hr HE H. exact (zip_frame dest Hr es fs fs' ok HE H). Qed.
Print Assumptions zip_all_writes_confined.

(* Well-formed archives (relative names of plain elements, files and
   directories only, no file path is a prefix of another entry's path; parents
   may be implicit) unpacked into an existing empty destination: the call
   succeeds, every entry is there with exactly its bytes, and nothing else was
   created except the directories leading to the entries.  Both formats. *)
Theorem targz_wellformed_contents_exact : forall dest ws fs,
  rooted dest = true -> comps dest <> [] ->
  dest_exists fs (comps dest) -> (forall q, sunder (comps dest) q -> lookup fs q = None) ->
  wf_entries ws ->
  exists fs', extract_targz true dest (map to_entry ws) fs = (fs', true) /\
    (forall w, In w ws -> lookup fs' (comps dest ++ w_rel w) = expected w) /\
    (forall q, lookup fs' q = lookup fs q \/
               (lookup fs q = None /\ q <> [] /\ exists w, In w ws /\ pref q (comps dest ++ w_rel w))).
Proof.
  intros dest ws fs Hr HD HE Hempty Hwf. rewrite (targz_place_all dest Hr HD ws fs Hwf).
  apply (place_all_wellformed _ HD ws fs Hwf).
  apply empty_dest_inv; [exact HE | exact Hempty | exact (wf_rel_nonempty ws Hwf)].
Qed.
Print Assumptions targz_wellformed_contents_exact.

Theorem zip_wellformed_contents_exact : forall dest ws fs,
  rooted dest = true -> comps dest <> [] ->
  dest_exists fs (comps dest) -> (forall q, sunder (comps dest) q -> lookup fs q = None) ->
  wf_entries ws ->
  exists fs', extract_zip true dest (map to_zentry ws) fs = (fs', true) /\
    (forall w, In w ws -> lookup fs' (comps dest ++ w_rel w) = expected w) /\
    (forall q, lookup fs' q = lookup fs q \/
               (lookup fs q = None /\ q <> [] /\ exists w, In w ws /\ pref q (comps dest ++ w_rel w))).
Proof.
  intros dest ws fs Hr HD HE Hempty Hwf. rewrite (zip_place_all dest Hr HD ws fs Hwf).
  apply (place_all_wellformed _ HD ws fs Hwf).
  apply empty_dest_inv; [exact HE | exact Hempty | exact (wf_rel_nonempty ws Hwf)].
Qed.
Print Assumptions zip_wellformed_contents_exact.

(* a file that is written again (repeated member, or a file that was there
   before) holds exactly the new bytes afterwards: the open truncates *)
Theorem rewritten_file_holds_new_bytes : forall fs p data fs',
  write_file true fs p data = Some fs' -> lookup fs' p = Some (File data).
Proof. exact write_trunc_exact. Qed.
Print Assumptions rewritten_file_holds_new_bytes.

Definition ex_dest : str := bs "/s/l3/dest".
Definition ex_fs : fsys := dirs_to (comps ex_dest).

Example fixed_witnesses :
  (* zip: ../evil is rejected, nothing written *)
  extract_zip true ex_dest [ZE (bs "../evil") false (bs "EVIL")] ex_fs = (ex_fs, false)
  (* zip: parents are created *)
  /\ (let r := extract_zip true ex_dest [ZE (bs "a/b.txt") false (bs "hello")] ex_fs in
      snd r = true /\ lookup (fst r) (comps ex_dest ++ [bs "a"; bs "b.txt"]) = Some (File (bs "hello")))
  (* tar: the later member replaces the earlier one completely *)
  /\ (let r := extract_targz true ex_dest [TE (bs "f") TReg (bs "0123456789"); TE (bs "f") TReg (bs "AB")] ex_fs in
      snd r = true /\ lookup (fst r) (comps ex_dest ++ [bs "f"]) = Some (File (bs "AB")))
  (* tar: the ./ root entry is accepted *)
  /\ (let r := extract_targz true ex_dest [TE (bs "./") TDir []; TE (bs "./g") TReg (bs "x")] ex_fs in
      snd r = true /\ lookup (fst r) (comps ex_dest ++ [bs "g"]) = Some (File (bs "x"))).
Proof. vm_compute. repeat split; reflexivity. Qed.

(* ---------- before the fixes (finding F14, repaired) ---------- *)

(* the old prefix test of extractTarGz was sound as well *)
Theorem unfixed_guard_implies_confined : forall dest name,
  rooted dest = true -> guard dest name = true ->
  exists rest, rest <> [] /\ Forall plain rest /\
               comps (join2 dest name) = comps dest ++ rest.
Proof. exact guard_confined. Qed.
Print Assumptions unfixed_guard_implies_confined.

(* extractZip had no check: an entry ../evil was written next to the
   destination and the call reported success *)
Theorem unfixed_zip_slip_refuted :
  exists es q, rooted ex_dest = true /\ dest_exists ex_fs (comps ex_dest) /\
    snd (extract_zip false ex_dest es ex_fs) = true /\
    ~ sunder (comps ex_dest) q /\
    lookup (fst (extract_zip false ex_dest es ex_fs)) q <> lookup ex_fs q.
Proof.
  exists [ZE (bs "../evil") false (bs "EVIL")], [bs "s"; bs "l3"; bs "evil"].
  split; [reflexivity|]. split.
  { intros [|[|[|[|k]]]]; reflexivity. }
  split; [reflexivity|]. split.
  - intros [r [_ E]]. vm_compute in E. inversion E.
  - vm_compute. discriminate.
Qed.
Print Assumptions unfixed_zip_slip_refuted.

(* a repeated member kept the tail of the longer earlier version (no O_TRUNC) *)
Theorem unfixed_dup_entry_stale_tail_refuted :
  let r := extract_targz false ex_dest [TE (bs "f") TReg (bs "0123456789"); TE (bs "f") TReg (bs "AB")] ex_fs in
  snd r = true /\ lookup (fst r) (comps ex_dest ++ [bs "f"]) = Some (File (bs "AB23456789")).
Proof. vm_compute. split; reflexivity. Qed.
Print Assumptions unfixed_dup_entry_stale_tail_refuted.

(* the root entry ./ was rejected, nothing was unpacked *)
Theorem unfixed_dot_slash_entry_refuted :
  extract_targz false ex_dest [TE (bs "./") TDir []; TE (bs "./g") TReg (bs "x")] ex_fs = (ex_fs, false).
Proof. vm_compute. reflexivity. Qed.
Print Assumptions unfixed_dot_slash_entry_refuted.

(* extractZip did not create parent directories: a/b.txt without an a/ entry failed *)
Theorem unfixed_zip_no_parent_refuted :
  extract_zip false ex_dest [ZE (bs "a/b.txt") false (bs "hello")] ex_fs = (ex_fs, false).
Proof. vm_compute. reflexivity. Qed.
Print Assumptions unfixed_zip_no_parent_refuted.

(* ---------- the hypotheses are satisfiable ---------- *)
Example ex_guard_rejects :
  map (guard_fixed ex_dest) [bs "../evil"; bs "a/../../evil"; bs "../destx"; bs "../../dest"; bs "a/../.."]
  = [false; false; false; false; false].
Proof. vm_compute. reflexivity. Qed.

Example ex_guard_accepts :
  map (guard_fixed ex_dest) [bs "a"; bs "a//b/./c"; bs "/etc/passwd"; bs "../dest/in"; bs "x/../y"; bs "..."; bs ""; bs "./"; bs "a/.."]
  = [true; true; true; true; true; true; true; true; true].
Proof. vm_compute. reflexivity. Qed.

Definition ex_ws : list went :=
  [([bs "a"], TDir, []); ([bs "a"; bs "b.txt"], TReg, bs "hello"); ([bs "c"; bs "d"; bs "e"], TReg, []); ([bs "a"; bs "k"], TDir, [])].

Ltac not_pref := intros [s Hs]; vm_compute in Hs; inversion Hs.
Example ex_wf : wf_entries ex_ws.
Proof.
  assert (P : forall s, In s [bs "a"; bs "b.txt"; bs "c"; bs "d"; bs "e"; bs "k"] -> plain s).
  { intros s Hs. repeat (destruct Hs as [<- | Hs]; [repeat split; try discriminate;
      (intros Hin; vm_compute in Hin; repeat (destruct Hin as [Hin | Hin]; [discriminate|]); exact Hin)|]). destruct Hs. }
  unfold ex_ws. cbn [wf_entries w_rel w_kind fst snd].
  repeat split; try discriminate;
    try (repeat constructor; apply P; vm_compute; tauto);
    try (match goal with H : In _ _ |- _ =>
           cbn [In] in H;
           repeat (destruct H as [<- | H]; [cbn [w_rel w_kind fst snd]; intros Hk; try discriminate Hk; not_pref|]);
           destruct H end).
Qed.

Example ex_wf_result :
  let r := extract_zip true ex_dest (map to_zentry ex_ws) ex_fs in
  snd r = true /\ lookup (fst r) (comps ex_dest ++ [bs "a"; bs "b.txt"]) = Some (File (bs "hello"))
  /\ lookup (fst r) (comps ex_dest ++ [bs "c"; bs "d"]) = Some Dir.
Proof. vm_compute. repeat split; reflexivity. Qed.
