From LLGoV Require Import C20.Model C20.Proofs.
