(* C20 - property theorems only.  Model: C20.Model (extractTarGz / extractZip of
   internal/crosscompile/fetch.go as written, over a lexical model of
   filepath.Clean/Join that is compared with the real functions on every run). *)
From Coq Require Import String.
From LLGoV Require Import C20.Model C20.Proofs.
Local Open Scope N_scope.
Local Open Scope list_scope.

(* The destination check of extractTarGz, for EVERY entry name (.. at any depth,
   absolute, empty, repeated separators): if the check passes, the cleaned target
   is the cleaned destination followed by at least one more element, and all of
   these are plain names (not empty, not ., not .., no separator) - so the OS
   reaches the target by stepping down from the destination only. *)
Theorem guard_implies_confined : forall dest name,
  rooted dest = true -> guard dest name = true ->
  exists rest, rest <> [] /\ Forall plain rest /\
               comps (join2 dest name) = comps dest ++ rest.
Proof. exact guard_confined. Qed.
Print Assumptions guard_implies_confined.

(* the check is not vacuous: every relative name made of plain elements passes
   and lands where expected *)
Theorem plain_names_accepted : forall dest r,
  rooted dest = true -> comps dest <> [] -> Forall plain r -> r <> [] ->
  guard dest (join r) = true /\ comps (join2 dest (join r)) = comps dest ++ r.
Proof. exact plain_accepted. Qed.
Print Assumptions plain_names_accepted.

(* extractTarGz: whatever the entries are and whether or not it fails half-way,
   nothing outside the (existing) destination is created or changed: every path
   that is not strictly below dest has the same node before and after. *)
Theorem targz_all_writes_confined : forall dest es fs fs' ok,
  rooted dest = true -> dest_exists fs (comps dest) ->
  extract_targz dest es fs = (fs', ok) ->
  forall q, ~ sunder (comps dest) q -> lookup fs' q = lookup fs q.
Proof. intros dest es fs fs' ok Hr HE H. exact (targz_frame dest Hr es fs fs' ok HE H). Qed.
Print Assumptions targz_all_writes_confined.

(* extractZip has no such check (finding F14): an entry ../evil is written next
   to the destination and the call reports success *)
Definition ex_dest : str := bs "/s/l3/dest".
Definition ex_fs : fsys := dirs_to (comps ex_dest).

Theorem zip_slip_refuted :
  exists es q, rooted ex_dest = true /\ dest_exists ex_fs (comps ex_dest) /\
    snd (extract_zip ex_dest es ex_fs) = true /\
    ~ sunder (comps ex_dest) q /\
    lookup (fst (extract_zip ex_dest es ex_fs)) q <> lookup ex_fs q.
Proof.
  exists [ZE (bs "../evil") false (bs "EVIL")], [bs "s"; bs "l3"; bs "evil"].
  split; [reflexivity|]. split.
  { intros [|[|[|[|k]]]]; reflexivity. }
  split; [reflexivity|]. split.
  - intros [r [_ E]]. vm_compute in E. inversion E.
  - vm_compute. discriminate.
Qed.
Print Assumptions zip_slip_refuted.

(* Well-formed archives (relative names of plain elements, files and
   directories only, no file path is a prefix of another entry's path) unpacked
   by extractTarGz into an existing empty destination: the call succeeds, every
   entry is there with exactly its bytes, and nothing else was created except
   the directories leading to the entries. *)
Theorem targz_wellformed_contents_exact : forall dest ws fs,
  rooted dest = true -> comps dest <> [] ->
  dest_exists fs (comps dest) -> (forall q, sunder (comps dest) q -> lookup fs q = None) ->
  wf_entries ws ->
  exists fs', extract_targz dest (map to_entry ws) fs = (fs', true) /\
    (forall w, In w ws -> lookup fs' (comps dest ++ w_rel w) = expected w) /\
    (forall q, lookup fs' q = lookup fs q \/
               (lookup fs q = None /\ q <> [] /\ exists w, In w ws /\ pref q (comps dest ++ w_rel w))).
Proof.
  intros dest ws fs Hr HD HE Hempty Hwf.
  apply (targz_wellformed dest Hr HD ws fs Hwf).
  apply empty_dest_inv; [exact HE | exact Hempty|].
  clear - Hwf. induction ws as [|w ws IH]; intros w0 []; destruct Hwf as [_ [Hne [_ [_ Hwf']]]]; subst; auto.
Qed.
Print Assumptions targz_wellformed_contents_exact.

(* The same claim fails for legal archives outside that class (finding F14):
   a repeated member keeps the tail of the longer earlier version (no O_TRUNC) *)
Theorem dup_entry_stale_tail_refuted :
  let r := extract_targz ex_dest [TE (bs "f") TReg (bs "0123456789"); TE (bs "f") TReg (bs "AB")] ex_fs in
  snd r = true /\ lookup (fst r) (comps ex_dest ++ [bs "f"]) = Some (File (bs "AB23456789")).
Proof. vm_compute. split; reflexivity. Qed.
Print Assumptions dup_entry_stale_tail_refuted.

(* the root entry ./ that tar -c . writes first is rejected, nothing is unpacked *)
Theorem dot_slash_entry_refuted :
  extract_targz ex_dest [TE (bs "./") TDir []; TE (bs "./g") TReg (bs "x")] ex_fs = (ex_fs, false).
Proof. vm_compute. reflexivity. Qed.
Print Assumptions dot_slash_entry_refuted.

(* extractZip does not create parent directories: a/b.txt without an a/ entry fails *)
Theorem zip_no_parent_refuted :
  extract_zip ex_dest [ZE (bs "a/b.txt") false (bs "hello")] ex_fs = (ex_fs, false).
Proof. vm_compute. reflexivity. Qed.
Print Assumptions zip_no_parent_refuted.

(* ---------- the hypotheses are satisfiable ---------- *)
Example ex_guard_rejects :
  map (guard ex_dest) [bs "../evil"; bs "a/../../evil"; bs ""; bs "."; bs "./"; bs "../destx"; bs "a/.."]
  = [false; false; false; false; false; false; false].
Proof. vm_compute. reflexivity. Qed.

Example ex_guard_accepts :
  map (guard ex_dest) [bs "a"; bs "a//b/./c"; bs "/etc/passwd"; bs "../dest/in"; bs "x/../y"; bs "..."]
  = [true; true; true; true; true; true].
Proof. vm_compute. reflexivity. Qed.

Definition ex_ws : list went :=
  [([bs "a"], TDir, []); ([bs "a"; bs "b.txt"], TReg, bs "hello"); ([bs "c"; bs "d"; bs "e"], TReg, []); ([bs "a"; bs "k"], TDir, [])].

Ltac not_pref := intros [s Hs]; vm_compute in Hs; inversion Hs.
Example ex_wf : wf_entries ex_ws.
Proof.
  assert (P : forall s, In s [bs "a"; bs "b.txt"; bs "c"; bs "d"; bs "e"; bs "k"] -> plain s).
  { intros s Hs. repeat (destruct Hs as [<- | Hs]; [repeat split; try discriminate;
      (intros Hin; vm_compute in Hin; repeat (destruct Hin as [Hin | Hin]; [discriminate|]); exact Hin)|]). destruct Hs. }
  unfold ex_ws. cbn [wf_entries w_rel w_kind fst snd].
  repeat split; try discriminate;
    try (repeat constructor; apply P; vm_compute; tauto);
    try (match goal with H : In _ _ |- _ =>
           cbn [In] in H;
           repeat (destruct H as [<- | H]; [cbn [w_rel w_kind fst snd]; intros Hk; try discriminate Hk; not_pref|]);
           destruct H end).
Qed.

Example ex_wf_result :
  let r := extract_targz ex_dest (map to_entry ex_ws) ex_fs in
  snd r = true /\ lookup (fst r) (comps ex_dest ++ [bs "a"; bs "b.txt"]) = Some (File (bs "hello"))
  /\ lookup (fst r) (comps ex_dest ++ [bs "c"; bs "d"]) = Some Dir.
Proof. vm_compute. repeat split; reflexivity. Qed.
