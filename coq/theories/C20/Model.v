(* C20 - executable model of the archive extraction in internal/crosscompile/fetch.go
   (extractTarGz, extractZip as written) over a lexical model of
   path/filepath (Clean, Join, Dir on Unix) and a file system that is a finite
   map from component lists to nodes.  No proofs here.  Paths are byte lists. *)
From LLGoV Require Export Lib.Common.
Local Open Scope N_scope.

(* ---------- path/filepath, Unix ---------- *)

Definition SLASH : N := 47.
Definition DOT : N := 46.

(* strings.Split(s, "/") : never empty *)
Fixpoint split (s : str) : list str :=
  match s with
  | [] => [[]]
  | c :: r =>
    if c =? SLASH then [] :: split r
    else match split r with
         | h :: t => (c :: h) :: t
         | [] => [[c]]
         end
  end.

Fixpoint join (cs : list str) : str :=
  match cs with
  | [] => []
  | [c] => c
  | c :: cs' => c ++ SLASH :: join cs'
  end.

Definition is_dot (s : str) : bool := str_eqb s [DOT].
Definition is_dotdot (s : str) : bool := str_eqb s [DOT; DOT].
Definition is_nil {A} (l : list A) : bool := match l with [] => true | _ => false end.

(* the loop of filepath.Clean over the elements of the path; st is the output
   so far, last element first.  Empty and . elements are dropped; .. removes
   the last element when there is one that is not itself a kept .. ; at the
   root .. is dropped; in a relative path leading .. are kept. *)
Fixpoint norm_segs (rooted : bool) (segs : list str) (st : list str) : list str :=
  match segs with
  | [] => rev st
  | s :: r =>
    if is_nil s || is_dot s then norm_segs rooted r st
    else if is_dotdot s then
      match st with
      | top :: st' => if is_dotdot top then norm_segs rooted r (s :: st)
                      else norm_segs rooted r st'
      | [] => if rooted then norm_segs rooted r [] else norm_segs rooted r [s]
      end
    else norm_segs rooted r (s :: st)
  end.

Definition rooted (s : str) : bool := match s with c :: _ => c =? SLASH | [] => false end.

(* components of the cleaned path *)
Definition comps (s : str) : list str := norm_segs (rooted s) (split s) [].

(* filepath.Clean *)
Definition clean (s : str) : str :=
  if is_nil s then [DOT]
  else if rooted s then SLASH :: join (comps s)
  else if is_nil (comps s) then [DOT] else join (comps s).

(* filepath.Join(a, b) *)
Definition join2 (a b : str) : str :=
  if negb (is_nil a) then clean (a ++ SLASH :: b)
  else if negb (is_nil b) then clean b
  else [].

Fixpoint has_prefix (s p : str) : bool :=
  match p, s with
  | [], _ => true
  | x :: p', y :: s' => (x =? y) && has_prefix s' p'
  | _ :: _, [] => false
  end.

(* the check in extractTarGz:
   strings.HasPrefix(filepath.Join(dest, name), filepath.Clean(dest)+"/") *)
Definition guard (dest name : str) : bool :=
  has_prefix (join2 dest name) (clean dest ++ [SLASH]).

(* ---------- file system ---------- *)

Inductive node := Dir | File (data : list N).
Definition path := list str.                    (* components from the root *)
Definition fsys := list (path * node).          (* first binding of a path counts *)

Definition path_eqb : path -> path -> bool := list_eqb str_eqb.

Fixpoint fs_find (fs : fsys) (p : path) : option node :=
  match fs with
  | [] => None
  | (q, n) :: fs' => if path_eqb p q then Some n else fs_find fs' p
  end.

(* the root directory always exists *)
Definition lookup (fs : fsys) (p : path) : option node :=
  match p with [] => Some Dir | _ => fs_find fs p end.

Definition set (fs : fsys) (p : path) (n : node) : fsys := (p, n) :: fs.

(* os.MkdirAll(p): walk down the prefixes; an existing directory is kept, a
   missing one is created, a file in the way is an error.  done = the prefix
   handled so far (first element first), rest = what is left. *)
Fixpoint mkdir_walk (fs : fsys) (done rest : path) : option fsys :=
  match rest with
  | [] => Some fs
  | c :: rest' =>
    let q := done ++ [c] in
    match lookup fs q with
    | Some Dir => mkdir_walk fs q rest'
    | Some (File _) => None
    | None => mkdir_walk (set fs q Dir) q rest'
    end
  end.
Definition mkdir_all (fs : fsys) (p : path) : option fsys := mkdir_walk fs [] p.

Definition parent (p : path) : path := removelast p.

(* open for writing + io.Copy of data + close.
   trunc = true : os.Create (O_TRUNC);  false : O_CREATE|O_RDWR, no truncation:
   the bytes of an existing file beyond len(data) stay. *)
Definition write_file (trunc : bool) (fs : fsys) (p : path) (data : list N) : option fsys :=
  match p with
  | [] => None                                       (* the root is a directory *)
  | _ =>
    match lookup fs (parent p) with
    | Some Dir =>
      match lookup fs p with
      | Some Dir => None                             (* EISDIR *)
      | Some (File old) =>
        Some (set fs p (File (if trunc then data else data ++ skipn (length data) old)))
      | None => Some (set fs p (File data))
      end
    | _ => None                                      (* ENOENT / ENOTDIR *)
    end
  end.

(* ---------- archives ---------- *)

(* securePath(dest, name) (fix: confine archive entries):
     root := Clean(dest); target := Join(root, name)
     target != root && !HasPrefix(target, root+"/")  ->  illegal file path *)
Definition secure_target (dest name : str) : str := join2 (clean dest) name.
Definition guard_fixed (dest name : str) : bool :=
  str_eqb (secure_target dest name) (clean dest)
  || has_prefix (secure_target dest name) (clean dest ++ [SLASH]).

(* case TypeDir / IsDir: MkdirAll(target) *)
Definition put_dir (fs : fsys) (target : path) : fsys * bool :=
  match mkdir_all fs target with
  | Some fs1 => (fs1, true)
  | None => (fs, false)
  end.

(* regular file: [MkdirAll(Dir(target))]; open (truncating or not); copy; close *)
Definition put_file (trunc mkparents : bool) (fs : fsys) (target : path) (data : list N) : fsys * bool :=
  match (if mkparents then mkdir_all fs (parent target) else Some fs) with
  | None => (fs, false)
  | Some fs1 =>
    match write_file trunc fs1 target data with
    | Some fs2 => (fs2, true)
    | None => (fs1, false)
    end
  end.

Inductive tkind := TReg | TDir | TOther.          (* tar type flags: regular, directory, anything else *)
Record tentry := TE { te_name : str; te_kind : tkind; te_data : list N }.

(* extractTarGz(dest): loop over the headers; result = file system after the
   call and whether the call returned nil.
   fixed = true : the code as it is now (securePath, O_TRUNC);
   fixed = false: before the fixes (prefix test that rejects the root entry, no
   O_TRUNC), kept for the refutation theorems. *)
Fixpoint extract_targz (fixed : bool) (dest : str) (es : list tentry) (fs : fsys) : fsys * bool :=
  match es with
  | [] => (fs, true)
  | e :: es' =>
    if negb (if fixed then guard_fixed dest (te_name e) else guard dest (te_name e))
    then (fs, false)                                            (* illegal file path *)
    else
      let target := comps (if fixed then secure_target dest (te_name e) else join2 dest (te_name e)) in
      match te_kind e with
      | TDir => let r := put_dir fs target in
                if snd r then extract_targz fixed dest es' (fst r) else r
      | TReg => let r := put_file fixed true fs target (te_data e) in
                if snd r then extract_targz fixed dest es' (fst r) else r
      | TOther => extract_targz fixed dest es' fs
      end
  end.

Record zentry := ZE { ze_name : str; ze_isdir : bool; ze_data : list N }.

(* extractZip(dest).  fixed = true: securePath + MkdirAll of the parent (as it is
   now); fixed = false: no destination check, no creation of parent directories. *)
Fixpoint extract_zip (fixed : bool) (dest : str) (es : list zentry) (fs : fsys) : fsys * bool :=
  match es with
  | [] => (fs, true)
  | e :: es' =>
    if fixed && negb (guard_fixed dest (ze_name e)) then (fs, false)
    else
      let target := comps (if fixed then secure_target dest (ze_name e) else join2 dest (ze_name e)) in
      let r := if ze_isdir e then put_dir fs target
               else put_file true fixed fs target (ze_data e) in
      if snd r then extract_zip fixed dest es' (fst r) else r
  end.

(* ---------- comparison with the observed tree ---------- *)

Definition node_eqb (a b : node) : bool :=
  match a, b with
  | Dir, Dir => true
  | File x, File y => list_eqb N.eqb x y
  | _, _ => false
  end.

Definition keys (fs : fsys) : list path := map fst fs.

(* same finite map *)
Definition fs_eqb (a b : fsys) : bool :=
  forallb (fun k => option_eqb node_eqb (lookup a k) (lookup b k)) (keys a ++ keys b).

Definition outcome_eqb (x y : fsys * bool) : bool :=
  fs_eqb (fst x) (fst y) && Bool.eqb (snd x) (snd y).

(* initial file system: the directories on the way to p *)
Fixpoint dirs_walk (done rest : path) : fsys :=
  match rest with
  | [] => []
  | c :: rest' => (done ++ [c], Dir) :: dirs_walk (done ++ [c]) rest'
  end.
Definition dirs_to (p : path) : fsys := dirs_walk [] p.

(* prefix on component lists *)
Fixpoint is_prefix (p q : path) : bool :=
  match p, q with
  | [], _ => true
  | a :: p', b :: q' => str_eqb a b && is_prefix p' q'
  | _ :: _, [] => false
  end.

(* ---------- monomorphic constructors for the case files written by the check ---------- *)
From Coq Require Import String Ascii.
Definition bs (s : string) : str :=
  map (fun a => N.of_nat (nat_of_ascii a)) (list_ascii_of_string s).
Arguments bs _%string.
Definition mk2 (a b : str) : str * str := (a, b).
Definition mk3 (a b c : str) : (str * str) * str := ((a, b), c).
(* absolute clean path string -> components *)
Definition abs_path (s : str) : path := match split s with _ :: t => t | [] => [] end.
Definition tnil : list tentry := [].
Definition tcons (n : str) (k : tkind) (d : list N) (r : list tentry) : list tentry := TE n k d :: r.
Definition znil : list zentry := [].
Definition zcons (n : str) (isdir : bool) (d : list N) (r : list zentry) : list zentry := ZE n isdir d :: r.
Definition fnil : fsys := [].
Definition fdir (p : str) (r : fsys) : fsys := (abs_path p, Dir) :: r.
Definition ffile (p : str) (d : list N) (r : fsys) : fsys := (abs_path p, File d) :: r.
Definition mkt (dest : str) (es : list tentry) (obs : fsys) (ok : bool) : (str * list tentry) * (fsys * bool) :=
  ((dest, es), (obs, ok)).
Definition mkz (dest : str) (es : list zentry) (obs : fsys) (ok : bool) : (str * list zentry) * (fsys * bool) :=
  ((dest, es), (obs, ok)).
Definition run_targz (x : str * list tentry) : fsys * bool :=
  extract_targz true (fst x) (snd x) (dirs_to (comps (fst x))).
Definition run_zip (x : str * list zentry) : fsys * bool :=
  extract_zip true (fst x) (snd x) (dirs_to (comps (fst x))).
