(* C08 - size, alignment and field offsets, computed three times.

   Executable model only.  Three independently written layout functions over one
   type grammar and a target record:

     go_*   the types.Sizes object the type checker folds unsafe.Sizeof/Alignof/
            Offsetof with: ssa/type.go goProgram (Sizeof/Alignof/Offsetsof/extraSize)
            wrapped around go/types gcSizes (or StdSizes for wasm, as
            internal/build.Do overrides it).  go/types sees a func value as ONE
            word; goProgram adds the second word (extraSize).
     ll_*   LLVM StructLayout / DataLayout of the lowered type (ssa/type.go toType,
            toLLVMStruct; closures are {ptr,ptr}, strings {ptr,int}, slices
            {ptr,int,int}, interfaces {ptr,ptr}, maps and channels one pointer).
     abi_*  the hand table of ssa/abi/type.go (Size/Align/FieldAlign/PtrBytes), which
            is asked about the raw type (func value = struct {$f; $data}) and goes
            back to the Sizes object for structs.

   All numbers are N.  Overflow (the negative results of go/types) is not modelled:
   the theorems are about types whose size fits, the harness generates small types. *)
From LLGoV Require Import Lib.Common.
Local Open Scope N_scope.

Inductive ty : Type :=
| TBool | TInt (w : N)            (* int8..int64 / uint8..uint64, w = 1 2 4 8 bytes *)
| TWord                           (* int, uint, uintptr *)
| TF32 | TF64 | TC64 | TC128
| TStr | TUPtr | TPtr | TFunc | TIface | TSlice | TMap | TChan
| TArr (n : N) (e : ty)
| TStruct (fs : list ty).

(* ptr   : pointer size in bytes (LLVM data layout p:, abi.Builder.PtrSize, WordSize)
   gomax : MaxAlign of the go/types sizes object (gcArchSizes / the wasm override)
   gcs   : true = go/types gcSizes, false = go/types StdSizes (wasm override)
   ll64  : ABI alignment of i64 and double in the LLVM data layout *)
Record target := { ptr : N; gomax : N; gcs : bool; ll64 : N }.

Definition amd64 := {| ptr := 8; gomax := 8; gcs := true; ll64 := 8 |}.
Definition arm64 := {| ptr := 8; gomax := 8; gcs := true; ll64 := 8 |}.
Definition arm   := {| ptr := 4; gomax := 4; gcs := true; ll64 := 8 |}.
Definition i386  := {| ptr := 4; gomax := 4; gcs := true; ll64 := 4 |}.
Definition wasm  := {| ptr := 4; gomax := 4; gcs := false; ll64 := 8 |}.

(* (x + a - 1) &^ (a - 1) for a power of two a; written with division so that it is
   total (a = 0 gives x) *)
Definition align_up (x a : N) : N := if a =? 0 then x else ((x + a - 1) / a) * a.

(* ---- the generic sequential struct layout on a list of (size, align) ---- *)
Definition sa := (N * N)%type.

(* offsets of the fields, starting at cur *)
Fixpoint offs_from (cur : N) (l : list sa) : list N :=
  match l with
  | [] => []
  | (s, a) :: r => let o := align_up cur a in o :: offs_from (o + s) r
  end.

(* first free byte after the last field *)
Fixpoint end_from (cur : N) (l : list sa) : N :=
  match l with
  | [] => cur
  | (s, a) :: r => end_from (align_up cur a + s) r
  end.

Definition max_align (l : list sa) : N := fold_right (fun x m => N.max (snd x) m) 1 l.

(* offset and size of the last field (0,0 for the empty list) *)
Fixpoint last_from (cur : N) (l : list sa) : N * N :=
  match l with
  | [] => (cur, 0)
  | [(s, a)] => (align_up cur a, s)
  | (s, a) :: r => last_from (align_up cur a + s) r
  end.

(* ---- LLVM ---- *)
Section LLVM.
  Variable T : target.
  Definition nat_align (w : N) : N := if w =? 8 then ll64 T else w.

  (* TypeAllocSize and ABI alignment of the lowered type *)
  Fixpoint ll (t : ty) : sa :=
    match t with
    | TBool => (1, 1)                                   (* i1: alloc size 1 *)
    | TInt w => (w, nat_align w)
    | TWord | TUPtr | TPtr | TMap | TChan => (ptr T, ptr T)
    | TF32 => (4, 4)
    | TF64 => (8, ll64 T)
    | TC64 => (8, 4)                                    (* { float, float } *)
    | TC128 => (16, ll64 T)                             (* { double, double } *)
    | TStr | TFunc | TIface => (2 * ptr T, ptr T)
    | TSlice => (3 * ptr T, ptr T)
    | TArr n e => let '(s, a) := ll e in (n * s, a)
    | TStruct fs =>
        let l := map ll fs in
        let a := max_align l in (align_up (end_from 0 l) a, a)
    end.
  Definition ll_size t := fst (ll t).
  Definition ll_align t := snd (ll t).
  Definition ll_offsets (fs : list ty) : list N := offs_from 0 (map ll fs).

  (* end of the last pointer word of the lowered type, 0 if it holds no pointer *)
  Fixpoint ll_ptr_end (t : ty) : N :=
    match t with
    | TUPtr | TPtr | TMap | TChan | TStr | TSlice => ptr T
    | TFunc | TIface => 2 * ptr T
    | TArr n e => let p := ll_ptr_end e in
                  if (n =? 0) || (p =? 0) then 0 else (n - 1) * ll_size e + p
    | TStruct fs =>
        (fix go (cur : N) (l : list ty) : N :=
           match l with
           | [] => 0
           | f :: r => let o := align_up cur (ll_align f) in
                       let rest := go (o + ll_size f) r in
                       if rest =? 0 then (if ll_ptr_end f =? 0 then 0 else o + ll_ptr_end f) else rest
           end) 0 fs
    | _ => 0
    end.
End LLVM.

(* ---- go/types Sizes (gcSizes / StdSizes) + goProgram ---- *)
Section GO.
  Variable T : target.
  Definition cap_align (a : N) : N := N.min a (gomax T).

  (* the base sizes object: a func value is one word *)
  Fixpoint gb (t : ty) : sa :=
    match t with
    | TBool => (1, 1)
    | TInt w => (w, cap_align w)
    | TF32 => (4, cap_align 4)
    | TF64 => (8, cap_align 8)
    | TC64 => (8, cap_align 4)
    | TC128 => (16, cap_align 8)
    | TWord | TUPtr | TPtr | TMap | TChan | TFunc => (ptr T, cap_align (ptr T))
    | TStr | TIface => (2 * ptr T, ptr T)                (* Alignof = WordSize, not capped *)
    | TSlice => (3 * ptr T, ptr T)
    | TArr n e =>
        let '(s, a) := gb e in
        if (n =? 0) || (s =? 0) then (0, a)
        else if gcs T then (s * n, a)
        else (align_up s a * (n - 1) + s, a)
    | TStruct fs =>
        let l := map gb fs in
        let a := max_align l in
        match l with
        | [] => (0, a)
        | _ =>
            let '(o, s) := last_from 0 l in
            if gcs T then (align_up (o + (if (0 <? o) && (s =? 0) then 1 else s)) a, a)
            else (o + s, a)
        end
    end.

  (* goProgram.extraSize: the second word of every func value inside t *)
  Fixpoint extra (t : ty) : N :=
    match t with
    | TFunc => ptr T
    | TArr n e => extra e * n
    | TStruct fs => fold_right (fun f x => extra f + x) 0 fs
    | _ => 0
    end.

  Definition is_aggregate (t : ty) : bool :=
    match t with TArr _ _ | TStruct _ => true | _ => false end.

  (* goProgram.Sizeof / Alignof *)
  Definition go_align (t : ty) : N := snd (gb t).
  Definition go_size (t : ty) : N :=
    let b := fst (gb t) + extra t in
    if is_aggregate t then align_up b (go_align t) else b.

  (* goProgram.Offsetsof: base offsets, each shifted by the extra words before it *)
  Fixpoint shift_extras (x : N) (offs : list N) (fs : list ty) : list N :=
    match offs, fs with
    | o :: offs', f :: fs' => (o + x) :: shift_extras (x + extra f) offs' fs'
    | _, _ => []
    end.
  Definition go_offsets (fs : list ty) : list N :=
    shift_extras 0 (offs_from 0 (map gb fs)) fs.
End GO.

(* ---- the raw type: func value = struct { $f C-func-pointer; $data unsafe.Pointer } ---- *)
Fixpoint raw (t : ty) : ty :=
  match t with
  | TFunc => TStruct [TPtr; TUPtr]
  | TArr n e => TArr n (raw e)
  | TStruct fs => TStruct (map raw fs)
  | _ => t
  end.

(* ---- ssa/abi/type.go ---- *)
Section ABI.
  Variable T : target.

  (* [fx] = true: the repaired table (fix: 64-bit scalars take the alignment the LLVM data
     layout gives them, Builder.Align64); false: the original table (always 8) *)
  Fixpoint abi_align (fx : bool) (t : ty) : N :=
    match t with
    | TBool => 1
    | TInt w => if fx then nat_align T w else w
    | TF32 => 4 | TC64 => 4
    | TF64 | TC128 => if fx then ll64 T else 8
    | TArr _ e => abi_align fx e
    | TStruct fs => fold_right (fun f m => N.max (abi_align fx f) m) 1 fs
    | _ => ptr T
    end.

  (* Size: a table, except that structs go back to Sizes.Sizeof (goProgram) on the raw type *)
  Fixpoint abi_size (t : ty) : N :=
    match t with
    | TBool => 1
    | TInt w => w
    | TF32 => 4 | TF64 => 8 | TC64 => 8 | TC128 => 16
    | TStr | TIface => 2 * ptr T
    | TSlice => 3 * ptr T
    | TFunc => go_size T (raw TFunc)
    | TArr n e => n * abi_size e
    | TStruct fs => go_size T (TStruct (map raw fs))
    | _ => ptr T
    end.

  (* PtrBytes.  The struct case is a loop over the fields that remembers the last field with
     pointers and a byte count, then adds the byte count to that field's offset
     (Sizes.Offsetsof on the raw fields).  [fx] = false is the original loop, in which the byte
     count is overwritten by EVERY field (so it ends up as the PtrBytes of the last field);
     [fx] = true is the repaired loop, which updates both together. *)
  Definition pb_step (fx : bool) (acc : option N * N) (ob : N * N) : option N * N :=
    let '(o, b) := ob in
    if b =? 0 then (fst acc, if fx then snd acc else b) else (Some o, b).
  Definition pb_result (acc : option N * N) : N :=
    match fst acc with None => 0 | Some o => o + snd acc end.

  Fixpoint abi_ptrbytes (fx : bool) (t : ty) : N :=
    match t with
    | TStr | TUPtr | TPtr | TSlice | TMap | TChan => ptr T
    | TIface => 2 * ptr T
    | TFunc => 2 * ptr T          (* struct {$f; $data}: offset of $data + PtrBytes($data) *)
    | TArr n e =>
        if n =? 0 then 0
        else let b := abi_ptrbytes fx e in
             if b =? 0 then 0 else n * abi_size e - abi_size e + b
    | TStruct fs =>
        pb_result (fold_left (pb_step fx)
                     (combine (go_offsets T (map raw fs)) (map (abi_ptrbytes fx) fs)) (None, 0))
    | _ => 0
    end.
End ABI.


(* ---- side conditions used in the theorem statements ---- *)

(* integer widths that exist *)
Definition wf_int (w : N) : bool := (w =? 1) || (w =? 2) || (w =? 4) || (w =? 8).
Fixpoint wf_ty (t : ty) : bool :=
  match t with
  | TInt w => wf_int w
  | TArr _ e => wf_ty e
  | TStruct fs => forallb wf_ty fs
  | _ => true
  end.

(* zero-size types, structurally *)
Fixpoint zsize (t : ty) : bool :=
  match t with
  | TArr n e => (n =? 0) || zsize e
  | TStruct fs => forallb zsize fs
  | _ => false
  end.

(* no struct inside t ends in a zero-size field behind a field that has a size
   (the situation in which gc adds a padding byte) *)
Fixpoint nzt (t : ty) : bool :=
  match t with
  | TArr _ e => nzt e
  | TStruct fs =>
      forallb nzt fs &&
      (match fs with [] => true | _ => negb (zsize (last fs TBool)) || forallb zsize fs end)
  | _ => true
  end.

(* targets on which the type checker and LLVM use the same alignments: the gc sizes
   with MaxAlign = pointer size, and i64/double aligned to the pointer size
   (amd64, arm64, 386 - not arm, not wasm) *)
Definition agree_target (T : target) : Prop :=
  gcs T = true /\ (ptr T = 4 \/ ptr T = 8) /\ gomax T = ptr T /\ ll64 T = ptr T.

(* any LLVM target of interest *)
Definition llvm_target (T : target) : Prop :=
  (ptr T = 4 \/ ptr T = 8) /\ (ll64 T = 4 \/ ll64 T = 8).

(* ---- everything the harness observes for one (target, type) ---- *)
Definition top_fields (t : ty) : list ty :=
  match t with TStruct fs => fs | _ => [] end.

(* fxa: descriptor alignment repaired (Align64); fxp: PtrBytes loop repaired *)
Definition observe (fxa fxp : bool) (T : target) (t : ty) : list N :=
  [ go_size T t; go_align T t; ll_size T t; ll_align T t;
    abi_size T t; abi_align T fxa t; abi_ptrbytes T fxp t;
    go_size T (raw t); go_align T (raw t); ll_ptr_end T t ]
  ++ go_offsets T (top_fields t) ++ ll_offsets T (top_fields t)
  ++ go_offsets T (top_fields (raw t)).

Definition nlist_eqb : list N -> list N -> bool := list_eqb N.eqb.
