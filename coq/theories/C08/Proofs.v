(* C08 - lemmas.  See Props.v for the statements that matter. *)
From LLGoV Require Import Lib.Common C08.Model.
Local Open Scope N_scope.

(* ------------------------------------------------------------------ *)
(* align_up *)

Lemma align_up_0 a : align_up 0 a = 0.
Proof.
  unfold align_up. destruct (a =? 0) eqn:E; [reflexivity|].
  apply N.eqb_neq in E. rewrite N.add_0_l.
  rewrite N.div_small by lia. reflexivity.
Qed.

Lemma align_up_ge x a : x <= align_up x a.
Proof.
  unfold align_up. destruct (a =? 0) eqn:E; [lia|]. apply N.eqb_neq in E.
  pose proof (N.div_mod (x + a - 1) a E) as D.
  pose proof (N.mod_upper_bound (x + a - 1) a E) as U.
  rewrite (N.mul_comm a) in D. lia.
Qed.

Lemma align_up_divide x a : a <> 0 -> (a | align_up x a).
Proof.
  intros E. unfold align_up. apply N.eqb_neq in E. rewrite E.
  exists ((x + a - 1) / a). reflexivity.
Qed.

Lemma align_up_id x a : a <> 0 -> (a | x) -> align_up x a = x.
Proof.
  intros E [c ->]. unfold align_up. apply N.eqb_neq in E as E'. rewrite E'.
  replace (c * a + a - 1) with ((a - 1) + c * a) by lia.
  rewrite N.div_add by exact E. rewrite N.div_small by lia. lia.
Qed.

Lemma align_up_add x k a : a <> 0 -> (a | k) -> align_up (x + k) a = align_up x a + k.
Proof.
  intros E [c ->]. unfold align_up. apply N.eqb_neq in E as E'. rewrite E'.
  replace (x + c * a + a - 1) with ((x + a - 1) + c * a) by lia.
  rewrite N.div_add by exact E. lia.
Qed.

Lemma align_up_idem x a : a <> 0 -> align_up (align_up x a) a = align_up x a.
Proof. intros E. apply align_up_id; [exact E|]. now apply align_up_divide. Qed.

(* ------------------------------------------------------------------ *)
(* the sequential layout on (size, align) lists *)

Lemma end_from_ge cur l : cur <= end_from cur l.
Proof.
  revert cur; induction l as [|[s a] r IH]; intros cur; cbn; [lia|].
  specialize (IH (align_up cur a + s)). pose proof (align_up_ge cur a). lia.
Qed.

Lemma last_from_end cur l :
  l <> [] -> let '(o, s) := last_from cur l in o + s = end_from cur l.
Proof.
  revert cur; induction l as [|[s a] r IH]; intros cur NE; [congruence|].
  destruct r as [|p r'].
  - cbn. reflexivity.
  - specialize (IH (align_up cur a + s) ltac:(discriminate)).
    change (last_from cur ((s, a) :: p :: r')) with (last_from (align_up cur a + s) (p :: r')).
    change (end_from cur ((s, a) :: p :: r')) with (end_from (align_up cur a + s) (p :: r')).
    exact IH.
Qed.

(* all sizes zero: nothing moves *)
Lemma last_from_zero l :
  Forall (fun x => fst x = 0) l -> last_from 0 l = (0, 0).
Proof.
  induction l as [|[s a] r IH]; intros F; [reflexivity|].
  inversion F as [|? ? Hs Fr]; subst. cbn in Hs; subst s.
  destruct r as [|p r'].
  - cbn. now rewrite align_up_0.
  - change (last_from 0 ((0, a) :: p :: r')) with (last_from (align_up 0 a + 0) (p :: r')).
    rewrite align_up_0. cbn [N.add]. now apply IH.
Qed.

Lemma last_from_snd cur l d :
  l <> [] -> snd (last_from cur l) = fst (last l d).
Proof.
  revert cur; induction l as [|[s a] r IH]; intros cur NE; [congruence|].
  destruct r as [|p r'].
  - reflexivity.
  - change (last_from cur ((s, a) :: p :: r')) with (last_from (align_up cur a + s) (p :: r')).
    change (last ((s, a) :: p :: r') d) with (last (p :: r') d).
    apply IH. discriminate.
Qed.

Lemma max_align_nz l : max_align l <> 0.
Proof. unfold max_align. induction l as [|x r IH]; cbn; lia. Qed.

Lemma max_align_in l : max_align l = 1 \/ exists x, In x l /\ max_align l = snd x.
Proof.
  induction l as [|x r IH]; [now left|]. cbn [max_align fold_right].
  fold (max_align r). destruct (N.max_spec (snd x) (max_align r)) as [[_ ->]|[_ ->]].
  - destruct IH as [E|[y [I E]]]; [now left|]. right. exists y. split; [now right|exact E].
  - right. exists x. split; [now left|reflexivity].
Qed.

Lemma max_align_divides P l :
  Forall (fun x => (snd x | P)) l -> (max_align l | P).
Proof.
  intros F. destruct (max_align_in l) as [->|[x [I ->]]].
  - apply N.divide_1_l.
  - rewrite Forall_forall in F. now apply F.
Qed.

(* ------------------------------------------------------------------ *)
(* induction over the nested type grammar *)

Lemma ty_ind' (P : ty -> Prop) :
  P TBool -> (forall w, P (TInt w)) -> P TWord -> P TF32 -> P TF64 -> P TC64 -> P TC128 ->
  P TStr -> P TUPtr -> P TPtr -> P TFunc -> P TIface -> P TSlice -> P TMap -> P TChan ->
  (forall n e, P e -> P (TArr n e)) ->
  (forall fs, Forall P fs -> P (TStruct fs)) ->
  forall t, P t.
Proof.
  intros. revert t.
  fix IH 1. intros [ | | | | | | | | | | | | | | | n e | fs]; try assumption; try apply H0.
  - apply H14. apply IH.
  - apply H15. induction fs as [|f r IHr]; constructor; [apply IH|exact IHr].
Qed.

Lemma last_map' {A B} (f : A -> B) l d : last (map f l) (f d) = f (last l d).
Proof.
  induction l as [|x r IH]; [reflexivity|]. destruct r as [|y r']; [reflexivity|].
  change (last (map f (x :: y :: r')) (f d)) with (last (map f (y :: r')) (f d)).
  change (last (x :: y :: r') d) with (last (y :: r') d). exact IH.
Qed.

Lemma last_In' {A} (l : list A) d : l <> [] -> In (last l d) l.
Proof.
  induction l as [|x r IH]; [congruence|]. intros _. destruct r as [|y r']; [now left|].
  right. change (last (x :: y :: r') d) with (last (y :: r') d). apply IH. discriminate.
Qed.

Definition sum_extra T (fs : list ty) : N := fold_right (fun f x => extra T f + x) 0 fs.

Lemma max_align_map_snd (l l' : list sa) :
  map snd l = map snd l' -> max_align l = max_align l'.
Proof.
  revert l'; induction l as [|x r IH]; intros [|y r'] E; try discriminate; [reflexivity|].
  cbn in E. injection E as E1 E2. unfold max_align; cbn. rewrite E1. f_equal. now apply IH.
Qed.

(* what one field must satisfy for the shift argument *)
Definition fld_ok T (f : ty) : Prop :=
  snd (gb T f) = snd (ll T f) /\ fst (gb T f) + extra T f = fst (ll T f) /\
  (ptr T | extra T f) /\ (snd (ll T f) | ptr T) /\ snd (ll T f) <> 0.

Lemma end_from_shift T fs :
  Forall (fld_ok T) fs -> forall cur X, (ptr T | X) ->
  end_from (cur + X) (map (ll T) fs) = end_from cur (map (gb T) fs) + X + sum_extra T fs.
Proof.
  unfold sum_extra.
  induction 1 as [|f r [Ea [Es [Dx [Da Na]]]] _ IH]; intros cur X DX; cbn; [lia|].
  destruct (ll T f) as [s' a'] eqn:EL, (gb T f) as [s a] eqn:EG. cbn in *. subst a.
  rewrite align_up_add by (auto; eapply N.divide_trans; eauto).
  replace (align_up cur a' + X + s') with ((align_up cur a' + s) + (X + extra T f)) by lia.
  rewrite IH by (now apply N.divide_add_r). lia.
Qed.

Lemma offs_from_shift T fs :
  Forall (fld_ok T) fs -> forall cur X, (ptr T | X) ->
  offs_from (cur + X) (map (ll T) fs) = shift_extras T X (offs_from cur (map (gb T) fs)) fs.
Proof.
  induction 1 as [|f r [Ea [Es [Dx [Da Na]]]] _ IH]; intros cur X DX; cbn; [reflexivity|].
  destruct (ll T f) as [s' a'] eqn:EL, (gb T f) as [s a] eqn:EG. cbn in *. subst a.
  rewrite align_up_add by (auto; eapply N.divide_trans; eauto).
  f_equal.
  replace (align_up cur a' + X + s') with ((align_up cur a' + s) + (X + extra T f)) by lia.
  apply IH. now apply N.divide_add_r.
Qed.

Lemma end_from_sum T fs cur :
  Forall (fun f => extra T f <= fst (gb T f)) fs ->
  cur + sum_extra T fs <= end_from cur (map (gb T) fs).
Proof.
  unfold sum_extra.
  intros F; revert cur; induction F as [|f r Hf _ IH]; intros cur; cbn; [lia|].
  destruct (gb T f) as [s a]. cbn in Hf.
  specialize (IH (align_up cur a + s)). pose proof (align_up_ge cur a). lia.
Qed.

Lemma end_from_zero_all (l : list sa) cur :
  end_from cur l = cur -> Forall (fun x => fst x = 0) l.
Proof.
  revert cur; induction l as [|[s a] r IH]; intros cur E; constructor; cbn in *.
  - pose proof (end_from_ge (align_up cur a + s) r). pose proof (align_up_ge cur a). lia.
  - pose proof (end_from_ge (align_up cur a + s) r). pose proof (align_up_ge cur a).
    apply (IH (align_up cur a + s)). lia.
Qed.

Lemma sum_extra_divide T fs :
  Forall (fun f => (ptr T | extra T f)) fs -> (ptr T | sum_extra T fs).
Proof.
  unfold sum_extra. induction 1; cbn; [apply N.divide_0_r|]. now apply N.divide_add_r.
Qed.

(* ------------------------------------------------------------------ *)
(* the invariant that makes go = llvm go through *)

Definition inv T (t : ty) : Prop :=
  wf_ty t = true -> nzt t = true ->
  fld_ok T t /\ (snd (ll T t) | fst (gb T t)) /\ extra T t <= fst (gb T t) /\
  (zsize t = true <-> fst (gb T t) = 0).

Ltac div_solve :=
  match goal with
  | |- (?a | ?b) => exists (b / a); vm_compute; reflexivity
  end.

Ltac scalar_case :=
  intros _ _; unfold fld_ok; cbn;
  repeat split; try lia; try div_solve; try discriminate; try (intros; discriminate).

Lemma inv_all T : agree_target T -> forall t, inv T t.
Proof.
  intros [G [HP [GM L6]]].
  destruct T as [P gm gc l6]; cbn in *. subst gm gc l6.
  induction t using ty_ind'.
  1,3-15: destruct HP; subst P; scalar_case.
  - (* TInt *)
    intros W _. cbn in W. unfold wf_int in W.
    repeat (apply orb_true_iff in W as [W|W]); apply N.eqb_eq in W; subst w;
      destruct HP; subst P; unfold fld_ok; cbn;
      repeat split; try lia; try div_solve; try discriminate.
  - (* TArr *)
    intros W Z. cbn in W, Z. specialize (IHt W Z).
    destruct IHt as [[Ea [Es [Dx [Da Na]]]] [Ds [Le Zs]]].
    set (T := {| ptr := P; gomax := P; gcs := true; ll64 := P |}) in *.
    unfold fld_ok. cbn [gb ll extra zsize].
    destruct (ll T t) as [s' a'] eqn:EL, (gb T t) as [s a] eqn:EG. cbn [fst snd] in *. subst a.
    change (gcs T) with true. cbn iota.
    destruct (n =? 0) eqn:En; [apply N.eqb_eq in En; subst n|apply N.eqb_neq in En]; cbn [orb].
    + cbn [fst snd].
      refine (conj (conj eq_refl (conj _ (conj _ (conj Da Na)))) (conj _ (conj _ (conj _ _)))).
      * lia.
      * rewrite N.mul_0_r. apply N.divide_0_r.
      * apply N.divide_0_r.
      * lia.
      * reflexivity.
      * reflexivity.
    + destruct (s =? 0) eqn:Es0; [apply N.eqb_eq in Es0; subst s|apply N.eqb_neq in Es0]; cbn [fst snd].
      * assert (X0 : extra T t = 0) by lia. rewrite X0. assert (s' = 0) by lia. subst s'.
        refine (conj (conj eq_refl (conj _ (conj _ (conj Da Na)))) (conj _ (conj _ (conj _ _)))).
        -- lia.
        -- apply N.divide_0_r.
        -- apply N.divide_0_r.
        -- lia.
        -- reflexivity.
        -- intros _. destruct Zs as [_ Zs]. exact (Zs eq_refl).
      * refine (conj (conj eq_refl (conj _ (conj _ (conj Da Na)))) (conj _ (conj _ (conj _ _)))).
        -- nia.
        -- now apply N.divide_mul_l.
        -- now apply N.divide_mul_l.
        -- nia.
        -- intros Hz. destruct (zsize t); [|discriminate]. destruct Zs as [Zs _]. specialize (Zs eq_refl). lia.
        -- intros Hz. apply N.eq_mul_0 in Hz. lia.
  - (* TStruct *)
    intros W Z. cbn [wf_ty nzt] in W, Z. apply andb_true_iff in Z as [Zf Zl].
    set (T := {| ptr := P; gomax := P; gcs := true; ll64 := P |}) in *.
    assert (F : Forall (fun f => fld_ok T f /\ (snd (ll T f) | fst (gb T f)) /\ extra T f <= fst (gb T f) /\
                                 (zsize f = true <-> fst (gb T f) = 0)) fs).
    { rewrite Forall_forall in *. intros f I.
      rewrite forallb_forall in W, Zf. apply H; auto. }
    assert (F1 : Forall (fld_ok T) fs) by (eapply Forall_impl; [|exact F]; cbn; tauto).
    assert (F2 : Forall (fun f => extra T f <= fst (gb T f)) fs) by (eapply Forall_impl; [|exact F]; cbn; tauto).
    assert (F3 : Forall (fun f => zsize f = true <-> fst (gb T f) = 0) fs) by (eapply Forall_impl; [|exact F]; cbn; tauto).
    assert (EA : max_align (map (gb T) fs) = max_align (map (ll T) fs)).
    { apply max_align_map_snd. rewrite !map_map. apply map_ext_in. intros f I.
      rewrite Forall_forall in F1. now destruct (F1 f I). }
    assert (DA : (max_align (map (ll T) fs) | ptr T)).
    { apply max_align_divides. rewrite Forall_forall. intros x I. apply in_map_iff in I as [f [<- I]].
      rewrite Forall_forall in F1. now destruct (F1 f I) as [_ [_ [_ [D _]]]]. }
    assert (NA : max_align (map (ll T) fs) <> 0) by apply max_align_nz.
    assert (DX : (ptr T | sum_extra T fs)).
    { apply sum_extra_divide. eapply Forall_impl; [|exact F1]. unfold fld_ok; cbn; tauto. }
    pose proof (end_from_shift T fs F1 0 0 (N.divide_0_r _)) as SH. rewrite !N.add_0_r in SH. cbn [N.add] in SH.
    (* size of the base struct under the no-zero-tail condition *)
    assert (SZ : fst (gb T (TStruct fs)) = align_up (end_from 0 (map (gb T) fs)) (max_align (map (ll T) fs))
                 /\ snd (gb T (TStruct fs)) = max_align (map (ll T) fs)).
    { cbn [gb]. rewrite EA. destruct fs as [|f0 r0] eqn:Efs.
      - split; vm_compute; reflexivity.
      - rewrite <- Efs in *. destruct (map (gb T) fs) as [|p l0] eqn:EM; [subst fs; discriminate|].
        assert (NEm : map (gb T) fs <> []) by (rewrite EM; discriminate).
        rewrite <- EM. pose proof (last_from_end 0 (map (gb T) fs) NEm) as LE.
        destruct (last_from 0 (map (gb T) fs)) as [o s] eqn:ELF.
        change (gcs T) with true. cbn iota.
        assert (C : (0 <? o) && (s =? 0) = false).
        { apply orb_true_iff in Zl as [Zl|Zl].
          - (* the last field has a size *)
            assert (s <> 0).
            { pose proof (last_from_snd 0 (map (gb T) fs) (gb T TBool) NEm) as LS.
              rewrite ELF in LS. cbn [snd] in LS.
              rewrite last_map' in LS.
              assert (I : In (last fs TBool) fs).
              { apply last_In'. subst fs; discriminate. }
              rewrite Forall_forall in F3. specialize (F3 _ I).
              intros E0. rewrite LS in E0. apply F3 in E0. rewrite E0 in Zl. discriminate. }
            apply N.eqb_neq in H0. rewrite H0. apply andb_false_r.
          - (* everything is zero-size *)
            assert (last_from 0 (map (gb T) fs) = (0, 0)) as L0.
            { apply last_from_zero. rewrite Forall_forall. intros x I. apply in_map_iff in I as [f [<- I]].
              rewrite forallb_forall in Zl. rewrite Forall_forall in F3. apply F3; auto. }
            rewrite ELF in L0. injection L0 as -> ->. reflexivity. }
        rewrite C. rewrite LE. split; reflexivity. }
    destruct SZ as [SZ1 SZ2].
    unfold fld_ok. rewrite SZ1, SZ2. cbn [ll extra]. fold (sum_extra T fs).
    cbn [fst snd]. rewrite SH.
    rewrite align_up_add by (auto; eapply N.divide_trans; eauto).
    repeat split; auto.
    + now apply align_up_divide.
    + pose proof (end_from_sum T fs 0 F2). pose proof (align_up_ge (end_from 0 (map (gb T) fs)) (max_align (map (ll T) fs))). lia.
    + intros Hz. cbn [zsize] in Hz.
      assert (last_from 0 (map (gb T) fs) = (0, 0)) as L0.
      { apply last_from_zero. rewrite Forall_forall. intros x I. apply in_map_iff in I as [f [<- I]].
        rewrite forallb_forall in Hz. rewrite Forall_forall in F3. apply F3; auto. }
      destruct fs as [|f0 r0]; [vm_compute; reflexivity|].
      pose proof (last_from_end 0 (map (gb T) (f0 :: r0)) ltac:(discriminate)) as LE.
      rewrite L0 in LE. rewrite <- LE. apply align_up_0.
    + intros Hz. cbn [zsize]. apply forallb_forall. intros f I.
      pose proof (align_up_ge (end_from 0 (map (gb T) fs)) (max_align (map (ll T) fs))).
      assert (E0 : end_from 0 (map (gb T) fs) = 0) by lia.
      apply end_from_zero_all in E0. rewrite Forall_forall in E0, F3.
      apply F3; auto. apply (E0 (gb T f)). now apply in_map.
Qed.

(* ------------------------------------------------------------------ *)
(* go = llvm on the agreeing targets *)

Lemma fields_of_struct fs :
  wf_ty (TStruct fs) = true -> nzt (TStruct fs) = true ->
  forall f, In f fs -> wf_ty f = true /\ nzt f = true.
Proof.
  cbn [wf_ty nzt]. intros W Z f I. apply andb_true_iff in Z as [Z _].
  rewrite forallb_forall in W, Z. auto.
Qed.


Lemma go_eq_ll T t :
  agree_target T -> wf_ty t = true -> nzt t = true ->
  go_size T t = ll_size T t /\ go_align T t = ll_align T t /\
  go_offsets T (top_fields t) = ll_offsets T (top_fields t).
Proof.
  intros A W Z.
  destruct (inv_all T A t W Z) as [[Ea [Es [Dx [Da Na]]]] [Ds _]].
  unfold go_size, go_align, ll_size, ll_align. split; [|split].
  - rewrite Es. destruct (is_aggregate t); [|reflexivity].
    rewrite Ea. apply align_up_id; [exact Na|].
    rewrite <- Es. apply N.divide_add_r; [exact Ds|].
    apply (N.divide_trans _ (ptr T)); assumption.
  - exact Ea.
  - destruct t; try reflexivity. cbn [top_fields]. unfold go_offsets, ll_offsets.
    assert (F : Forall (fld_ok T) fs).
    { rewrite Forall_forall. intros f I. destruct (fields_of_struct fs W Z f I) as [Wf Zf].
      now destruct (inv_all T A f Wf Zf). }
    pose proof (offs_from_shift T fs F 0 0 (N.divide_0_r _)) as S. cbn [N.add] in S. now rewrite S.
Qed.

(* ------------------------------------------------------------------ *)
(* the raw type *)

Lemma forallb_map' {A B} (p : B -> bool) (f : A -> B) l : forallb p (map f l) = forallb (fun x => p (f x)) l.
Proof. induction l; cbn; [reflexivity|]. now rewrite IHl. Qed.

Lemma forallb_ext_in {A} (p q : A -> bool) l : (forall x, In x l -> p x = q x) -> forallb p l = forallb q l.
Proof.
  induction l as [|x r IH]; intros H; cbn; [reflexivity|].
  rewrite (H x) by now left. rewrite IH; [reflexivity|]. intros y I. apply H. now right.
Qed.

Lemma ll_raw T : (ptr T = 4 \/ ptr T = 8) -> forall t, ll T (raw t) = ll T t.
Proof.
  intros HP. induction t using ty_ind'; try reflexivity.
  - destruct T as [P gm gc l6]; cbn in HP. destruct HP; subst P; reflexivity.
  - cbn [raw ll]. now rewrite IHt.
  - cbn [raw ll]. rewrite map_map.
    replace (map (fun x => ll T (raw x)) fs) with (map (ll T) fs); [reflexivity|].
    apply map_ext_in. intros f I. rewrite Forall_forall in H. symmetry. now apply H.
Qed.

Lemma wf_raw : forall t, wf_ty (raw t) = wf_ty t.
Proof.
  induction t using ty_ind'; try reflexivity.
  - exact IHt.
  - cbn [raw wf_ty]. rewrite forallb_map'. apply forallb_ext_in. rewrite Forall_forall in H. exact H.
Qed.

Lemma zsize_raw : forall t, zsize (raw t) = zsize t.
Proof.
  induction t using ty_ind'; try reflexivity.
  - cbn [raw zsize]. now rewrite IHt.
  - cbn [raw zsize]. rewrite forallb_map'. apply forallb_ext_in. rewrite Forall_forall in H. exact H.
Qed.

Lemma nzt_raw : forall t, nzt (raw t) = nzt t.
Proof.
  induction t using ty_ind'; try reflexivity.
  - exact IHt.
  - cbn [raw nzt]. rewrite forallb_map'.
    rewrite (forallb_ext_in (fun x => nzt (raw x)) nzt fs) by (rewrite Forall_forall in H; exact H).
    f_equal. destruct fs as [|f0 r0]; [reflexivity|].
    change TBool with (raw TBool) at 1. rewrite last_map', zsize_raw, forallb_map'.
    rewrite (forallb_ext_in (fun x => zsize (raw x)) zsize) by (intros; apply zsize_raw).
    reflexivity.
Qed.

(* ------------------------------------------------------------------ *)
(* the descriptor table on 64-bit agreeing targets *)

Lemma fold_max_map T fs :
  Forall (fun f => abi_align T true f = snd (ll T f)) fs ->
  fold_right (fun f m => N.max (abi_align T true f) m) 1 fs = max_align (map (ll T) fs).
Proof.
  induction 1 as [|f r E _ IH]; [reflexivity|]. unfold max_align in *. cbn. now rewrite E, IH.
Qed.

(* the repaired alignment table IS the LLVM alignment, on every target and every type *)
Lemma abi_align_ll T : forall t, abi_align T true t = ll_align T t.
Proof.
  unfold ll_align. induction t using ty_ind'; try reflexivity.
  - cbn [abi_align ll]. rewrite IHt. now destruct (ll T t).
  - cbn [abi_align ll snd]. apply fold_max_map. exact H.
Qed.

Lemma abi_size_ll T :
  agree_target T -> forall t, wf_ty t = true -> nzt t = true -> abi_size T t = ll_size T t.
Proof.
  intros A. unfold ll_size.
  induction t using ty_ind'; intros W Z;
    try (destruct A as [G [HP [GM L6]]]; destruct T as [P gm gc l6]; cbn in *; subst;
         destruct HP; subst; reflexivity).
  - cbn [abi_size ll]. rewrite (IHt W Z). now destruct (ll T t).
  - cbn [abi_size]. change (TStruct (map raw fs)) with (raw (TStruct fs)).
    destruct (go_eq_ll T (raw (TStruct fs)) A) as [E _]; [now rewrite wf_raw|now rewrite nzt_raw|].
    rewrite E. unfold ll_size. rewrite ll_raw; [reflexivity|]. now destruct A as [_ [HP _]].
Qed.

(* ------------------------------------------------------------------ *)
(* the LLVM layout is well formed on every target and every type *)

Lemma ll_wf T :
  llvm_target T -> forall t, wf_ty t = true ->
  snd (ll T t) <> 0 /\ (snd (ll T t) | fst (ll T t)).
Proof.
  intros [HP H6]. destruct T as [P gm gc l6]; cbn in HP, H6.
  induction t using ty_ind'; intros W.
  1,3-15: destruct HP, H6; subst; cbn; split; try lia; try div_solve.
  - cbn in W. unfold wf_int in W.
    repeat (apply orb_true_iff in W as [W|W]); apply N.eqb_eq in W; subst w;
      destruct H6; subst; cbn; split; try lia; try div_solve.
  - cbn [ll]. destruct (IHt W) as [Na Da]. destruct (ll _ t) as [s a]. cbn [fst snd] in *.
    split; [exact Na|]. now apply N.divide_mul_r.
  - cbn [ll fst snd]. split; [apply max_align_nz|]. apply align_up_divide, max_align_nz.
Qed.

(* offsets: aligned, increasing, not overlapping, inside the struct *)
Lemma offs_from_ge l : forall cur o, In o (offs_from cur l) -> cur <= o.
Proof.
  induction l as [|[s a] r IH]; intros cur o I; cbn in I; [contradiction|].
  destruct I as [<-|I]; [apply align_up_ge|].
  apply IH in I. pose proof (align_up_ge cur a). lia.
Qed.

Lemma offs_from_aligned l : forall cur i o x,
  nth_error (offs_from cur l) i = Some o -> nth_error l i = Some x -> snd x <> 0 -> (snd x | o).
Proof.
  induction l as [|[s a] r IH]; intros cur i o x; destruct i; cbn; try discriminate.
  - intros [= <-] [= <-] N0. now apply align_up_divide.
  - apply IH.
Qed.

Lemma offs_from_disjoint l : forall cur i j oi oj x,
  (i < j)%nat -> nth_error (offs_from cur l) i = Some oi -> nth_error (offs_from cur l) j = Some oj ->
  nth_error l i = Some x -> oi + fst x <= oj.
Proof.
  induction l as [|[s a] r IH]; intros cur i j oi oj x L; destruct i, j; cbn; try discriminate; try lia.
  - intros [= <-] Hj [= <-]. cbn. apply nth_error_In in Hj. now apply offs_from_ge in Hj.
  - intros Hi Hj Hx. apply (IH (align_up cur a + s) i j oi oj x); [lia|assumption|assumption|assumption].
Qed.

Lemma offs_from_within l : forall cur i o x,
  nth_error (offs_from cur l) i = Some o -> nth_error l i = Some x -> o + fst x <= end_from cur l.
Proof.
  induction l as [|[s a] r IH]; intros cur i o x; destruct i; cbn; try discriminate.
  - intros [= <-] [= <-]. cbn. apply end_from_ge.
  - apply IH.
Qed.

(* ------------------------------------------------------------------ *)
(* witnesses of the disagreements of the unchanged tree *)

Definition w_zero_tail := TStruct [TInt 8; TStruct []].
Definition w_zero_tail_nested := TStruct [w_zero_tail; TInt 1].
Definition w_i32_i64 := TStruct [TInt 4; TInt 8].
Definition w_nested_unpadded := TStruct [TStruct [TInt 4; TInt 1]; TInt 1].
Definition w_ptr_then_int := TStruct [TPtr; TInt 8].

Lemma zero_tail_witness :
  agree_target amd64 /\ wf_ty w_zero_tail_nested = true /\
  go_size amd64 w_zero_tail = 16 /\ ll_size amd64 w_zero_tail = 8 /\ abi_size amd64 w_zero_tail = 16 /\
  go_offsets amd64 (top_fields w_zero_tail_nested) = [0; 16] /\
  ll_offsets amd64 (top_fields w_zero_tail_nested) = [0; 8].
Proof. unfold agree_target. cbn [gcs ptr gomax ll64 amd64]. repeat split; auto. Qed.

Lemma arm_witness :
  wf_ty w_i32_i64 = true /\ nzt w_i32_i64 = true /\
  go_size arm w_i32_i64 = 12 /\ ll_size arm w_i32_i64 = 16 /\
  go_align arm w_i32_i64 = 4 /\ ll_align arm w_i32_i64 = 8 /\
  go_offsets arm (top_fields w_i32_i64) = [0; 4] /\ ll_offsets arm (top_fields w_i32_i64) = [0; 8].
Proof. repeat split. Qed.

Lemma i386_witness :
  agree_target i386 /\ wf_ty w_i32_i64 = true /\ nzt w_i32_i64 = true /\
  abi_align i386 false (TInt 8) = 8 /\ ll_align i386 (TInt 8) = 4 /\ go_align i386 (TInt 8) = 4 /\
  abi_size i386 w_i32_i64 = 12 /\ abi_align i386 false w_i32_i64 = 8.
Proof. unfold agree_target. cbn [gcs ptr gomax ll64 i386]. repeat split; auto. Qed.

Lemma wasm_witness :
  wf_ty w_nested_unpadded = true /\ nzt w_nested_unpadded = true /\
  go_offsets wasm (top_fields w_nested_unpadded) = [0; 5] /\
  ll_offsets wasm (top_fields w_nested_unpadded) = [0; 8] /\
  go_size wasm w_nested_unpadded = 8 /\ ll_size wasm w_nested_unpadded = 12.
Proof. repeat split. Qed.

Lemma ptrbytes_witness :
  agree_target amd64 /\ wf_ty w_ptr_then_int = true /\ nzt w_ptr_then_int = true /\
  abi_ptrbytes amd64 false w_ptr_then_int = 0 /\ ll_ptr_end amd64 w_ptr_then_int = 8.
Proof. unfold agree_target. cbn [gcs ptr gomax ll64 amd64]. repeat split; auto. Qed.

(* ------------------------------------------------------------------ *)
(* PtrBytes after the repair: exactly the end of the last pointer word *)

Fixpoint lastnz (ops : list (N * N)) : N :=
  match ops with
  | [] => 0
  | (o, p) :: r => let rest := lastnz r in
                   if rest =? 0 then (if p =? 0 then 0 else o + p) else rest
  end.

Lemma ll_ptr_end_struct_aux T : forall fs cur,
  (fix go (cur : N) (l : list ty) : N :=
     match l with
     | [] => 0
     | f :: r => let o := align_up cur (ll_align T f) in
                 let rest := go (o + ll_size T f) r in
                 if rest =? 0 then (if ll_ptr_end T f =? 0 then 0 else o + ll_ptr_end T f) else rest
     end) cur fs
  = lastnz (combine (offs_from cur (map (ll T) fs)) (map (ll_ptr_end T) fs)).
Proof.
  induction fs as [|f r IH]; intros cur; [reflexivity|].
  cbn [map offs_from]. unfold ll_align at 1, ll_size at 1.
  destruct (ll T f) as [s a] eqn:EL. cbn [fst snd combine lastnz].
  rewrite <- IH. unfold ll_align, ll_size. rewrite EL. reflexivity.
Qed.

Lemma ll_ptr_end_struct T fs :
  ll_ptr_end T (TStruct fs) = lastnz (combine (ll_offsets T fs) (map (ll_ptr_end T) fs)).
Proof. unfold ll_offsets. cbn [ll_ptr_end]. apply ll_ptr_end_struct_aux. Qed.

Lemma fold_pb_lastnz l : forall acc,
  pb_result (fold_left (pb_step true) l acc) =
    (if lastnz l =? 0 then pb_result acc else lastnz l).
Proof.
  induction l as [|[o b] r IH]; intros acc; [reflexivity|].
  cbn [fold_left lastnz]. rewrite IH.
  destruct (lastnz r =? 0) eqn:ER.
  - unfold pb_step. destruct (b =? 0) eqn:EB.
    + destruct acc as [fo byt]. cbn [fst snd]. reflexivity.
    + apply N.eqb_neq in EB. assert (o + b =? 0 = false) as -> by (apply N.eqb_neq; lia).
      unfold pb_result. reflexivity.
  - rewrite ER. reflexivity.
Qed.

Lemma ptrbytes_eq T : agree_target T ->
  forall t, wf_ty t = true -> nzt t = true -> abi_ptrbytes T true t = ll_ptr_end T t.
Proof.
  intros A. induction t using ty_ind'; intros W Z; try reflexivity.
  - (* TArr *)
    cbn [abi_ptrbytes ll_ptr_end]. cbn in W, Z. rewrite (IHt W Z), (abi_size_ll T A t W Z).
    destruct (n =? 0) eqn:En; [reflexivity|]. cbn [orb]. apply N.eqb_neq in En.
    destruct (ll_ptr_end T t =? 0); [reflexivity|]. nia.
  - (* TStruct *)
    rewrite ll_ptr_end_struct. cbn [abi_ptrbytes]. rewrite fold_pb_lastnz. unfold pb_result at 1. cbn [fst].
    assert (EO : go_offsets T (map raw fs) = ll_offsets T fs).
    { destruct (go_eq_ll T (raw (TStruct fs)) A) as [_ [_ E]]; [now rewrite wf_raw|now rewrite nzt_raw|].
      cbn [raw top_fields] in E. rewrite E. unfold ll_offsets. rewrite map_map. f_equal.
      apply map_ext. intros f. apply ll_raw. now destruct A as [_ [HP _]]. }
    assert (EP : map (abi_ptrbytes T true) fs = map (ll_ptr_end T) fs).
    { apply map_ext_in. intros f I. destruct (fields_of_struct fs W Z f I) as [Wf Zf].
      rewrite Forall_forall in H. now apply H. }
    rewrite EO, EP. destruct (lastnz _ =? 0) eqn:E0; [apply N.eqb_eq in E0; now rewrite E0|reflexivity].
Qed.
