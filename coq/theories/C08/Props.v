(* C08 - property theorems only.  Each is closed by [exact <lemma>] (or a direct use of
   lemmas) and followed by Print Assumptions (the driver re-prints them on every run).

   Three layout computations (Model.v): go_* (the types.Sizes object used to fold
   unsafe.Sizeof/Alignof/Offsetof: goProgram around go/types gcSizes), ll_* (LLVM data
   layout of the lowered type, what generated code allocates and addresses), abi_* (the
   descriptor table ssa/abi/type.go). *)
From LLGoV Require Import Lib.Common C08.Model C08.Proofs.
Local Open Scope N_scope.

(* (a) = (b).  On every target where the type checker's sizes are the gc sizes with
   MaxAlign = pointer size and LLVM aligns i64/double to the pointer size (amd64, arm64,
   386), for EVERY type of the grammar in which no struct ends in a zero-size field behind
   a sized field: constant-folded size, alignment and field offsets are exactly the numbers
   of the LLVM layout.  Covers nested padding, arrays of any length incl. 0, func values (two
   words, added by extraSize), strings, slices, interfaces, maps, channels, complex. *)
Theorem layouts_agree : forall T t,
  agree_target T -> wf_ty t = true -> nzt t = true ->
  go_size T t = ll_size T t /\ go_align T t = ll_align T t /\
  go_offsets T (top_fields t) = ll_offsets T (top_fields t).
Proof. exact go_eq_ll. Qed.
Print Assumptions layouts_agree.

(* (c) = (b): Size_ and Align_ of the descriptor are the LLVM numbers on every agreeing
   target (amd64, arm64 and - since the table takes the alignment of 64-bit scalars from the
   data layout, Builder.Align64 - 386 as well).  FieldAlign is Align in the source. *)
Theorem descriptor_agrees : forall T t,
  agree_target T -> wf_ty t = true -> nzt t = true ->
  abi_size T t = ll_size T t /\ abi_align T true t = ll_align T t.
Proof. intros T t A W Z. split; [now apply abi_size_ll|apply abi_align_ll]. Qed.
Print Assumptions descriptor_agrees.

(* the repaired alignment table is the LLVM ABI alignment on EVERY target (arm and wasm
   included) and for every type *)
Theorem descriptor_align_is_llvm : forall T t, abi_align T true t = ll_align T t.
Proof. exact abi_align_ll. Qed.
Print Assumptions descriptor_align_is_llvm.

(* PtrBytes after the repair of the loop: exactly the end of the last pointer word of the
   LLVM layout - so every pointer word lies below PtrBytes, PtrBytes is 0 iff the type holds
   no pointer, and nothing behind the last pointer is counted. *)
Theorem ptrbytes_is_last_pointer_end : forall T t,
  agree_target T -> wf_ty t = true -> nzt t = true -> abi_ptrbytes T true t = ll_ptr_end T t.
Proof. intros T t A. now apply ptrbytes_eq. Qed.
Print Assumptions ptrbytes_is_last_pointer_end.

Example ptrbytes_nontrivial :
  let t := TStruct [TInt 1; TStruct [TPtr; TInt 8]; TArr 2 (TStruct [TInt 4; TFunc; TInt 2]); TInt 8] in
  wf_ty t = true /\ nzt t = true /\ abi_ptrbytes amd64 true t = 80 /\ abi_ptrbytes amd64 false t = 24.
Proof. repeat split. Qed.

(* the hypotheses are satisfiable by the real targets and by a type with padding, a func
   value inside an array inside a struct, and zero-size members that are not tails *)
Example agree_targets : agree_target amd64 /\ agree_target arm64 /\ agree_target i386.
Proof. unfold agree_target; cbn; repeat split; auto. Qed.
Example agree_nontrivial :
  let t := TStruct [TInt 4; TStruct [TInt 1; TArr 2 TFunc]; TStruct []; TInt 1; TArr 3 (TStruct [TInt 2; TC128; TInt 1])] in
  wf_ty t = true /\ nzt t = true /\ go_size amd64 t = 152 /\ go_offsets amd64 (top_fields t) = [0; 8; 48; 48; 56].
Proof. repeat split. Qed.

(* The LLVM layout is well formed on every target of interest and every type (zero-size
   tails included): alignment non-zero, size a multiple of it, every field offset a multiple
   of the field's alignment, fields in increasing order without overlap and inside the struct. *)
Theorem llvm_size_multiple_of_align : forall T t,
  llvm_target T -> wf_ty t = true -> ll_align T t <> 0 /\ (ll_align T t | ll_size T t).
Proof. intros T t L W. exact (ll_wf T L t W). Qed.
Print Assumptions llvm_size_multiple_of_align.

Theorem llvm_offsets_aligned : forall T fs i o f,
  llvm_target T -> wf_ty (TStruct fs) = true ->
  nth_error (ll_offsets T fs) i = Some o -> nth_error fs i = Some f -> (ll_align T f | o).
Proof.
  intros T fs i o f L W Ho Hf. unfold ll_offsets in Ho.
  apply (offs_from_aligned (map (ll T) fs) 0 i o (ll T f)); auto.
  - now apply map_nth_error.
  - apply ll_wf; auto. cbn in W. rewrite forallb_forall in W. apply W. eapply nth_error_In; eauto.
Qed.
Print Assumptions llvm_offsets_aligned.

Theorem llvm_offsets_increasing_disjoint : forall T fs i j oi oj fi,
  (i < j)%nat -> nth_error (ll_offsets T fs) i = Some oi -> nth_error (ll_offsets T fs) j = Some oj ->
  nth_error fs i = Some fi -> oi + ll_size T fi <= oj.
Proof.
  intros T fs i j oi oj fi L Hi Hj Hf. unfold ll_offsets in *.
  apply (offs_from_disjoint (map (ll T) fs) 0 i j oi oj (ll T fi)); auto. now apply map_nth_error.
Qed.
Print Assumptions llvm_offsets_increasing_disjoint.

Theorem llvm_fields_inside_struct : forall T fs i o f,
  nth_error (ll_offsets T fs) i = Some o -> nth_error fs i = Some f ->
  o + ll_size T f <= ll_size T (TStruct fs).
Proof.
  intros T fs i o f Ho Hf. unfold ll_offsets, ll_size in *. cbn [ll fst].
  pose proof (offs_from_within (map (ll T) fs) 0 i o (ll T f) Ho (map_nth_error (ll T) i fs Hf)).
  pose proof (align_up_ge (end_from 0 (map (ll T) fs)) (max_align (map (ll T) fs))). lia.
Qed.
Print Assumptions llvm_fields_inside_struct.

(* By layouts_agree the same holds for the type checker's numbers on the agreeing targets. *)
Theorem go_size_multiple_of_align : forall T t,
  agree_target T -> wf_ty t = true -> nzt t = true -> (go_align T t | go_size T t).
Proof.
  intros T t A W Z. destruct (go_eq_ll T t A W Z) as [-> [-> _]].
  apply ll_wf; auto. destruct A as [_ [HP [_ L6]]]. split; [exact HP|]. rewrite L6. exact HP.
Qed.
Print Assumptions go_size_multiple_of_align.

(* ---- where the unchanged tree violates the property (each confirmed on the real code
   by the harness, see known_findings.txt) ---- *)

(* gc pads a struct that ends in a zero-size field, LLVM does not: unsafe.Sizeof and the
   descriptor say 16, the allocation is 8; one level up even the field offsets differ. *)
Theorem layouts_agree_zero_size_tail_refuted :
  exists T t, agree_target T /\ wf_ty t = true /\
    go_size T (TStruct [TInt 8; TStruct []]) <> ll_size T (TStruct [TInt 8; TStruct []]) /\
    abi_size T (TStruct [TInt 8; TStruct []]) <> ll_size T (TStruct [TInt 8; TStruct []]) /\
    go_offsets T (top_fields t) <> ll_offsets T (top_fields t).
Proof.
  exists amd64, w_zero_tail_nested.
  destruct zero_tail_witness as [A [W [G [L [B [GO LO]]]]]].
  fold w_zero_tail. rewrite G, L, B, GO, LO. repeat split; auto; discriminate.
Qed.
Print Assumptions layouts_agree_zero_size_tail_refuted.

(* linux/arm: go/types gc sizes have MaxAlign 4, the LLVM data layout has i64:64 *)
Theorem layouts_agree_arm_refuted :
  exists t, wf_ty t = true /\ nzt t = true /\
    go_size arm t <> ll_size arm t /\ go_align arm t <> ll_align arm t /\
    go_offsets arm (top_fields t) <> ll_offsets arm (top_fields t).
Proof.
  exists w_i32_i64. destruct arm_witness as [W [Z [G [L [GA [LA [GO LO]]]]]]].
  rewrite G, L, GA, LA, GO, LO. repeat split; auto; discriminate.
Qed.
Print Assumptions layouts_agree_arm_refuted.

(* wasm: internal/build installs StdSizes{4,4}; nested aggregates are not padded to their
   alignment there (and i64 is aligned to 8 by LLVM) *)
Theorem layouts_agree_wasm_refuted :
  exists t, wf_ty t = true /\ nzt t = true /\
    go_size wasm t <> ll_size wasm t /\ go_offsets wasm (top_fields t) <> ll_offsets wasm (top_fields t).
Proof.
  exists w_nested_unpadded. destruct wasm_witness as [W [Z [GO [LO [G L]]]]].
  rewrite G, L, GO, LO. repeat split; auto; discriminate.
Qed.
Print Assumptions layouts_agree_wasm_refuted.

(* 386, ORIGINAL table (fx = false, before the Align64 repair): Align(int64) = 8 although type
   checker and LLVM use 4; descriptor sizes were then not multiples of descriptor alignments *)
Theorem descriptor_agrees_386_refuted :
  agree_target i386 /\
  abi_align i386 false (TInt 8) <> ll_align i386 (TInt 8) /\
  exists t, wf_ty t = true /\ nzt t = true /\ ~ (abi_align i386 false t | abi_size i386 t).
Proof.
  destruct i386_witness as [A [W [Z [AA [LA [_ [S AL]]]]]]].
  split; [exact A|]. split; [rewrite AA, LA; discriminate|].
  exists w_i32_i64. repeat split; auto. rewrite S, AL. intros [c E]. lia.
Qed.
Print Assumptions descriptor_agrees_386_refuted.

(* PtrBytes, ORIGINAL loop (fx = false): it kept the PtrBytes of the LAST field, so a pointer
   followed by a pointer-free field was not covered: struct { *T; int64 } had PtrBytes 0 *)
Theorem ptrbytes_prefix_refuted :
  exists T t, agree_target T /\ ptr T = 8 /\ wf_ty t = true /\ nzt t = true /\
    abi_ptrbytes T false t < ll_ptr_end T t.
Proof.
  exists amd64, w_ptr_then_int. destruct ptrbytes_witness as [A [W [Z [B E]]]].
  rewrite B, E. repeat split; auto.
Qed.
Print Assumptions ptrbytes_prefix_refuted.
