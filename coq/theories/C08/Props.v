From LLGoV Require Import C08.Model C08.Proofs.
