(* C02 - Go's integer operator semantics (written from the language spec, over
   mathematical integers) and the instruction recipes that ssa.Builder.BinOp /
   UnOp / Convert emit, as LLIR functions (mirror of ssa/expr.go). *)
From LLGoV Require Export Lib.LLIR.
Local Open Scope Z_scope.

(* an integer type: width in bits and signedness *)
Record ity := { bits : Z; sg : bool }.
Definition ity_eqb (a b : ity) : bool := (bits a =? bits b) && Bool.eqb (sg a) (sg b).

(* value denoted by a bit pattern, and back *)
Definition val (t : ity) (z : Z) : Z := if sg t then sgn (bits t) z else z.
Definition enc (t : ity) (v : Z) : Z := wrap (bits t) v.

Inductive gop :=
| GAdd | GSub | GMul | GQuo | GRem | GAnd | GOr | GXor | GAndNot | GShl | GShr
| GEq | GNe | GLt | GLe | GGt | GGe.

Inductive goutcome := GVal (v : Z) | GBool (b : bool) | GPanic (k : akind).

(* --- the Go specification --- *)
(* results are the mathematical result reduced into the operand type:
   "integer results wrap" *)
Definition norm (t : ity) (v : Z) : Z := val t (wrap (bits t) v).

Definition go_binop (op : gop) (tx ty : ity) (x y : Z) : goutcome :=
  match op with
  | GAdd => GVal (norm tx (x + y))
  | GSub => GVal (norm tx (x - y))
  | GMul => GVal (norm tx (x * y))
  | GQuo => if y =? 0 then GPanic DivZero else GVal (norm tx (Z.quot x y))   (* truncated toward zero *)
  | GRem => if y =? 0 then GPanic DivZero else GVal (norm tx (Z.rem x y))
  | GAnd => GVal (norm tx (Z.land x y))
  | GOr => GVal (norm tx (Z.lor x y))
  | GXor => GVal (norm tx (Z.lxor x y))
  | GAndNot => GVal (norm tx (Z.ldiff x y))
  | GShl => if y <? 0 then GPanic NegShift else GVal (norm tx (x * 2 ^ y))
  | GShr => if y <? 0 then GPanic NegShift else GVal (norm tx (x / 2 ^ y))    (* floor: sign fill *)
  | GEq => GBool (x =? y) | GNe => GBool (negb (x =? y))
  | GLt => GBool (x <? y) | GLe => GBool (x <=? y)
  | GGt => GBool (y <? x) | GGe => GBool (y <=? x)
  end.

Inductive guop := GNeg | GNot.
Definition go_unop (op : guop) (t : ity) (x : Z) : Z :=
  match op with
  | GNeg => norm t (- x)
  | GNot => norm t (Z.lnot x)
  end.

(* T(x) between integer types: the value is kept if representable, otherwise
   it wraps (sign- or zero-extension follows from the SOURCE type's value) *)
Definition go_conv (tx td : ity) (x : Z) : Z := norm td x.

(* what an LLIR outcome must be for a Go outcome *)
Definition expect (t : ity) (g : goutcome) : outcome :=
  match g with
  | GVal v => Ret (enc t v)
  | GBool b => Ret (b2z b)
  | GPanic k => Panic k
  end.

(* --- the recipes (mirror of ssa/expr.go) --- *)
Definition X := Val 0.  Definition Y := Val 1.

Definition mathop (op : gop) (s : bool) : binop :=
  match op with
  | GAdd => Add | GSub => Sub | GMul => Mul
  | GQuo => if s then SDiv else UDiv
  | GRem => if s then SRem else URem
  | GAnd => And | GOr => Or | GXor => Xor
  | _ => Add
  end.

Definition predop (op : gop) (s : bool) : pred :=
  match op with
  | GEq => Peq | GNe => Pne
  | GLt => if s then Pslt else Pult
  | GLe => if s then Psle else Pule
  | GGt => if s then Psgt else Pugt
  | GGe => if s then Psge else Puge
  | _ => Peq
  end.

(* castInt: truncate when the source is wider, else extend by the SOURCE signedness *)
Definition cast_instr (tx td : ity) (a : operand) : instr :=
  if bits td <? bits tx then ICast Trunc (bits tx) (bits td) a
  else if sg tx then ICast SExt (bits tx) (bits td) a
  else ICast ZExt (bits tx) (bits td) a.

(* shift_fixed selects the lowering: false = the pinned tree (count converted to
   the operand width BEFORE the >= width compare), true = compare in the count's
   own width first.  The generated obligation decides which one /repo emits. *)
Definition recipe_shift (fixed : bool) (left : bool) (tx ty : ity) : func :=
  let w := bits tx in
  let neg := if sg ty then [ICmp Pslt (bits ty) Y (Cst 0); IAssert NegShift (Val 2)] else [] in
  let n0 := if sg ty then 3%nat else 2%nat in          (* next free value index *)
  if fixed then
    (* overflows = icmp uge ty y, w ; y' = convert ; ... *)
    let ov := Val n0 in
    let conv := if bits tx =? bits ty then [] else [cast_instr ty tx Y] in
    let y' := if bits tx =? bits ty then Y else Val (S n0) in
    let n1 := if bits tx =? bits ty then S n0 else S (S n0) in
    let tail :=
      if left then [IBin Shl w X y'; ISelect w ov (Cst 0) (Val n1)]
      else if sg tx then [ISelect w ov (Cst (w - 1)) y'; IBin AShr w X (Val n1)]
      else [IBin LShr w X y'; ISelect w ov (Cst 0) (Val n1)] in
    {| nparams := 2; body := neg ++ [ICmp Puge (bits ty) Y (Cst w)] ++ conv ++ tail;
       ret := Val (S n1); retw := w |}
  else
    let conv := if bits tx =? bits ty then [] else [cast_instr ty tx Y] in
    let y' := if bits tx =? bits ty then Y else Val n0 in
    let n1 := if bits tx =? bits ty then n0 else S n0 in
    let ov := Val n1 in
    let tail :=
      if left then [IBin Shl w X y'; ISelect w ov (Cst 0) (Val (S n1))]
      else if sg tx then [ISelect w ov (Cst (w - 1)) y'; IBin AShr w X (Val (S n1))]
      else [IBin LShr w X y'; ISelect w ov (Cst 0) (Val (S n1))] in
    {| nparams := 2; body := neg ++ conv ++ [ICmp Puge w y' (Cst w)] ++ tail;
       ret := Val (S (S n1)); retw := w |}.

Definition recipe_div (rem : bool) (t : ity) : func :=
  let w := bits t in
  if sg t then
    {| nparams := 2;
       body := [ICmp Peq w Y (Cst 0);                      (* %2 *)
                IAssert DivZero (Val 2);
                ISelect w (Val 2) (Cst 1) Y;                (* %3 safeY *)
                ICmp Peq w X (Cst (2 ^ (w - 1)));           (* %4 isMinInt *)
                ICmp Peq w Y (Cst (-1));                    (* %5 isNegOne *)
                IBin And 1 (Val 4) (Val 5);                 (* %6 overflow *)
                ISelect w (Val 6) (Cst 0) X;                (* %7 safeX *)
                ISelect w (Val 6) (Cst 1) (Val 3);          (* %8 safeY *)
                IBin (if rem then SRem else SDiv) w (Val 7) (Val 8);   (* %9 *)
                ISelect w (Val 6) (if rem then Cst 0 else X) (Val 9)]; (* %10 *)
       ret := Val 10; retw := w |}
  else
    {| nparams := 2;
       body := [ICmp Peq w Y (Cst 0);
                IAssert DivZero (Val 2);
                ISelect w (Val 2) (Cst 1) Y;
                IBin (if rem then URem else UDiv) w X (Val 3)];
       ret := Val 4; retw := w |}.

Definition recipe_binop (shift_fixed : bool) (op : gop) (tx ty : ity) : func :=
  let w := bits tx in
  match op with
  | GAdd | GSub | GMul | GAnd | GOr | GXor =>
    {| nparams := 2; body := [IBin (mathop op (sg tx)) w X Y]; ret := Val 2; retw := w |}
  | GAndNot =>
    {| nparams := 2; body := [IBin Xor w Y (Cst (-1)); IBin And w X (Val 2)]; ret := Val 3; retw := w |}
  | GQuo => recipe_div false tx
  | GRem => recipe_div true tx
  | GShl => recipe_shift shift_fixed true tx ty
  | GShr => recipe_shift shift_fixed false tx ty
  | GEq | GNe | GLt | GLe | GGt | GGe =>
    {| nparams := 2; body := [ICmp (predop op (sg tx)) w X Y]; ret := Val 2; retw := 1 |}
  end.

Definition recipe_unop (op : guop) (t : ity) : func :=
  let w := bits t in
  match op with
  | GNeg => {| nparams := 1; body := [IBin Sub w (Cst 0) X]; ret := Val 1; retw := w |}
  | GNot => {| nparams := 1; body := [IBin Xor w X (Cst (-1))]; ret := Val 1; retw := w |}
  end.

Definition recipe_conv (tx td : ity) : func :=
  if bits tx =? bits td
  then {| nparams := 1; body := []; ret := X; retw := bits td |}
  else {| nparams := 1; body := [cast_instr tx td X]; ret := Val 1; retw := bits td |}.

(* keys of the generated IR table *)
Inductive key :=
| KBin (op : gop) (tx ty : ity)
| KUn (op : guop) (t : ity)
| KConv (tx td : ity).

Definition recipe_of (shift_fixed : bool) (k : key) : func :=
  match k with
  | KBin op tx ty => recipe_binop shift_fixed op tx ty
  | KUn op t => recipe_unop op t
  | KConv tx td => recipe_conv tx td
  end.

Definition I8 := {| bits := 8; sg := true |}.    Definition U8 := {| bits := 8; sg := false |}.
Definition I16 := {| bits := 16; sg := true |}.  Definition U16 := {| bits := 16; sg := false |}.
Definition I32 := {| bits := 32; sg := true |}.  Definition U32 := {| bits := 32; sg := false |}.
Definition I64 := {| bits := 64; sg := true |}.  Definition U64 := {| bits := 64; sg := false |}.
Definition all_ity : list ity := [I8; U8; I16; U16; I32; U32; I64; U64].
Definition wf_ity (t : ity) : Prop := wf_w (bits t).

(* evaluation helpers for the failing-input search (run by the driver) *)
Definition pool (t : ity) : list Z :=
  let w := bits t in
  map (wrap w) [0; 1; 2; 3; 7; 8; 9; 15; 16; 17; 31; 32; 33; 63; 64; 65; 127; 128; 129; 255; 256; 257;
                2 ^ (w - 1) - 1; 2 ^ (w - 1); 2 ^ (w - 1) + 1; 2 ^ w - 1; 2 ^ w - 2; 2 ^ w - 8;
                2 ^ w - 64; 2 ^ w - 128; 2 ^ w - 256; 12345; 2 ^ (w - 2)].

Definition disagree_bin (f : func) (op : gop) (tx ty : ity) : list (Z * Z) :=
  filter (fun xy => match exec f [fst xy; snd xy], expect tx (go_binop op tx ty (val tx (fst xy)) (val ty (snd xy))) with
                    | Ret a, Ret b => negb (a =? b)
                    | Panic a, Panic b => negb (akind_eqb a b)
                    | _, _ => true
                    end)
         (list_prod (pool tx) (pool ty)).

(* ---------- floating-point comparisons ---------- *)
(* how two floats compare: FUn = unordered (at least one operand is a NaN) *)
Inductive ford := FLt | FEq | FGt | FUn.
Inductive fpred := OEQ | ONE | OLT | OLE | OGT | OGE | UEQ | UNE | ULT | ULE | UGT | UGE | ORD | UNO.

(* LangRef: ordered predicates are false on unordered operands, unordered ones true *)
Definition eval_fpred (p : fpred) (o : ford) : bool :=
  match p, o with
  | OEQ, FEq | ONE, FLt | ONE, FGt | OLT, FLt | OLE, FLt | OLE, FEq | OGT, FGt | OGE, FGt | OGE, FEq => true
  | UEQ, FEq | UEQ, FUn | UNE, FLt | UNE, FGt | UNE, FUn | ULT, FLt | ULT, FUn | ULE, FLt | ULE, FEq | ULE, FUn
  | UGT, FGt | UGT, FUn | UGE, FGt | UGE, FEq | UGE, FUn => true
  | ORD, FLt | ORD, FEq | ORD, FGt | UNO, FUn => true
  | _, _ => false
  end.

(* Go spec: comparisons involving a NaN are false, except != which is true *)
Definition go_fcmp (op : gop) (o : ford) : bool :=
  match op, o with
  | GEq, FEq | GNe, FLt | GNe, FGt | GNe, FUn | GLt, FLt | GLe, FLt | GLe, FEq | GGt, FGt | GGe, FGt | GGe, FEq => true
  | _, _ => false
  end.

(* mirror of floatPredOpToLLVM *)
Definition fpred_of (op : gop) : fpred :=
  match op with
  | GEq => OEQ | GNe => UNE | GLt => OLT | GLe => OLE | GGt => OGT | GGe => OGE
  | _ => UNO
  end.

Definition fpred_eqb (a b : fpred) : bool :=
  match a, b with
  | OEQ, OEQ | ONE, ONE | OLT, OLT | OLE, OLE | OGT, OGT | OGE, OGE | UEQ, UEQ | UNE, UNE
  | ULT, ULT | ULE, ULE | UGT, UGT | UGE, UGE | ORD, ORD | UNO, UNO => true
  | _, _ => false
  end.
