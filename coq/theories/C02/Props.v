(* C02 - property theorems only. *)
From LLGoV Require Import C02.Model C02.Proofs.
Local Open Scope Z_scope.

(* Arithmetic and bitwise operators: for every integer type and every pair of
   operand bit patterns the emitted instructions return exactly the value the
   Go spec defines (mathematical result wrapped into the type). *)
Theorem arith_recipe_correct : forall op t x y,
  wf_ity t -> in_range (bits t) x -> in_range (bits t) y ->
  match op with GAdd | GSub | GMul | GAnd | GOr | GXor | GAndNot => True | _ => False end ->
  exec (recipe_binop true op t t) [x; y] = expect t (go_binop op t t (val t x) (val t y)).
Proof. exact arith_correct. Qed.
Print Assumptions arith_recipe_correct.

(* Division and remainder: truncation toward zero, minInt / -1 = minInt with
   remainder 0, and a zero divisor panics before any undefined behaviour. *)
Theorem div_recipe_correct : forall rem t x y,
  wf_ity t -> in_range (bits t) x -> in_range (bits t) y ->
  exec (recipe_div rem t) [x; y]
  = expect t (go_binop (if rem then GRem else GQuo) t t (val t x) (val t y)).
Proof. exact div_correct. Qed.
Print Assumptions div_recipe_correct.

Example div_minint : exec (recipe_div false I32) [2 ^ 31; 2 ^ 32 - 1] = Ret (2 ^ 31)
                     /\ exec (recipe_div true I32) [2 ^ 31; 2 ^ 32 - 1] = Ret 0
                     /\ exec (recipe_div false I32) [5; 0] = Panic DivZero.
Proof. repeat split; reflexivity. Qed.

(* Shifts: a count at or beyond the operand width gives 0 (or the sign fill)
   WHATEVER the width and signedness of the count's own type; a negative
   signed count panics.  64 type pairs x both directions. *)
Theorem shift_recipe_correct : forall left tx ty x y,
  wf_ity tx -> wf_ity ty -> in_range (bits tx) x -> in_range (bits ty) y ->
  exec (recipe_shift true left tx ty) [x; y]
  = expect tx (go_binop (if left then GShl else GShr) tx ty (val tx x) (val ty y)).
Proof. exact shift_correct. Qed.
Print Assumptions shift_recipe_correct.

Example shift_oversize : exec (recipe_shift true true U8 U64) [1; 256] = Ret 0
                         /\ exec (recipe_shift true false I8 U16) [128; 256] = Ret 255
                         /\ exec (recipe_shift true true U8 I16) [1; 2 ^ 16 - 1] = Panic NegShift.
Proof. repeat split; reflexivity. Qed.

(* the lowering that converts the count to the operand width before comparing
   it with the width (what the tree emitted before the fix) is refuted *)
Theorem shift_count_truncated_refuted :
  exec (recipe_shift false true U8 U64) [1; 256]
  <> expect U8 (go_binop GShl U8 U64 (val U8 1) (val U64 256)).
Proof. exact shift_unfixed_refuted. Qed.
Print Assumptions shift_count_truncated_refuted.

(* Comparisons *)
Theorem cmp_recipe_correct : forall op t x y,
  wf_ity t -> in_range (bits t) x -> in_range (bits t) y ->
  match op with GEq | GNe | GLt | GLe | GGt | GGe => True | _ => False end ->
  exec (recipe_binop true op t t) [x; y] = expect t (go_binop op t t (val t x) (val t y)).
Proof. exact cmp_correct. Qed.
Print Assumptions cmp_recipe_correct.

(* Unary minus and bitwise complement *)
Theorem unop_recipe_correct : forall op t x,
  wf_ity t -> in_range (bits t) x ->
  exec (recipe_unop op t) [x] = Ret (enc t (go_unop op t (val t x))).
Proof. exact unop_correct. Qed.
Print Assumptions unop_recipe_correct.

(* Conversions between integer types sign- or zero-extend according to the
   SOURCE type and truncate to the destination width. *)
Theorem conv_recipe_correct : forall tx td x,
  wf_ity tx -> wf_ity td -> in_range (bits tx) x ->
  exec (recipe_conv tx td) [x] = Ret (enc td (go_conv tx td (val tx x))).
Proof. exact conv_correct. Qed.
Print Assumptions conv_recipe_correct.

(* Float comparisons: the predicate chosen for each operator gives Go's result
   in all four ordering cases (less, equal, greater, unordered = a NaN operand):
   every comparison with a NaN is false except != *)
Theorem fcmp_recipe_correct : forall op o,
  match op with GEq | GNe | GLt | GLe | GGt | GGe => True | _ => False end ->
  eval_fpred (fpred_of op) o = go_fcmp op o.
Proof. exact fcmp_correct. Qed.
Print Assumptions fcmp_recipe_correct.

(* the tie: IR that the obligation [func_eqb ir recipe = true] accepts executes
   exactly like the recipe, so the theorems above transfer to the emitted IR *)
Theorem generated_ir_executes_as_recipe : forall f g args,
  func_eqb f g = true -> exec f args = exec g args.
Proof. exact func_eqb_exec. Qed.
Print Assumptions generated_ir_executes_as_recipe.
