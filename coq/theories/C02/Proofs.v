From LLGoV Require Import C02.Model.
From Coq Require Import ZifyBool.
Local Open Scope Z_scope.

(* ---------- func_eqb is sound: equal IR executes equally ---------- *)

Lemma opw_eqb_get w a b e : opw_eqb w a b = true -> get e a w = get e b w.
Proof.
  destruct a, b; cbn; try discriminate.
  - intros H. apply Nat.eqb_eq in H. now subst.
  - intros H. apply Z.eqb_eq in H. now rewrite H.
Qed.

Lemma binop_eqb_eq a b : binop_eqb a b = true -> a = b.
Proof. destruct a, b; cbn; congruence. Qed.
Lemma pred_eqb_eq a b : pred_eqb a b = true -> a = b.
Proof. destruct a, b; cbn; congruence. Qed.
Lemma castop_eqb_eq a b : castop_eqb a b = true -> a = b.
Proof. destruct a, b; cbn; congruence. Qed.
Lemma akind_eqb_eq a b : akind_eqb a b = true -> a = b.
Proof. destruct a, b; cbn; congruence. Qed.

Lemma instr_eqb_step i j e : instr_eqb i j = true -> step e i = step e j.
Proof.
  destruct i, j; cbn [instr_eqb]; try discriminate; intros H;
    repeat match type of H with _ && _ = true => apply andb_true_iff in H as [H ?] end.
  - apply binop_eqb_eq in H. subst.
    match goal with E : (_ =? _) = true |- _ => apply Z.eqb_eq in E; subst end.
    cbn [step]. now rewrite (opw_eqb_get _ a a0 e), (opw_eqb_get _ b b0 e).
  - apply binop_eqb_eq in H. subst.
    match goal with E : N.eqb _ _ = true |- _ => apply N.eqb_eq in E; subst end.
    match goal with E : (_ =? _) = true |- _ => apply Z.eqb_eq in E; subst end.
    cbn [step]. now rewrite (opw_eqb_get _ a a0 e), (opw_eqb_get _ b b0 e).
  - apply pred_eqb_eq in H. subst.
    match goal with E : (_ =? _) = true |- _ => apply Z.eqb_eq in E; subst end.
    cbn [step]. now rewrite (opw_eqb_get _ a a0 e), (opw_eqb_get _ b b0 e).
  - apply Z.eqb_eq in H. subst.
    cbn [step]. now rewrite (opw_eqb_get _ c c0 e), (opw_eqb_get _ a a0 e), (opw_eqb_get _ b b0 e).
  - apply castop_eqb_eq in H. subst.
    repeat match goal with E : (_ =? _) = true |- _ => apply Z.eqb_eq in E; subst end.
    cbn [step]. now rewrite (opw_eqb_get _ a a0 e).
  - apply akind_eqb_eq in H. subst.
    cbn [step]. now rewrite (opw_eqb_get _ c c0 e).
Qed.

Lemma instrs_eqb_run a : forall b e r r' rw,
  instrs_eqb a b = true -> opw_eqb rw r r' = true -> run e a r rw = run e b r' rw.
Proof.
  induction a as [|i a IH]; intros [|j b] e r r' rw H Hr; cbn in H; try discriminate.
  - cbn. now rewrite (opw_eqb_get _ r r' e).
  - apply andb_true_iff in H as [H1 H2]. cbn [run].
    rewrite (instr_eqb_step i j e H1). destruct (step e j); [|reflexivity]. now apply IH.
Qed.

Lemma func_eqb_exec f g args : func_eqb f g = true -> exec f args = exec g args.
Proof.
  unfold func_eqb, exec. intros H.
  repeat match type of H with _ && _ = true => apply andb_true_iff in H as [H ?] end.
  apply Nat.eqb_eq in H. rewrite <- H.
  match goal with E : (_ =? _) = true |- _ => apply Z.eqb_eq in E; rewrite <- E end.
  destruct (Nat.eqb _ _); [|reflexivity]. now apply instrs_eqb_run.
Qed.

(* ---------- encoding lemmas ---------- *)

Lemma wf_w_pos w : wf_w w -> 0 < w.
Proof. intros H; widths H; lia. Qed.

Lemma wrap_val t x : wf_ity t -> in_range (bits t) x -> wrap (bits t) (val t x) = x.
Proof.
  intros Hw Hx. unfold val. destruct (sg t); [now apply wrap_sgn | now apply wrap_small].
Qed.

Lemma enc_norm t v : wf_ity t -> enc t (norm t v) = wrap (bits t) v.
Proof.
  intros Hw. unfold enc, norm. apply wrap_val; [exact Hw|].
  apply wrap_range. pose proof (wf_w_pos _ Hw). lia.
Qed.

Lemma val_range t x : wf_ity t -> in_range (bits t) x ->
  if sg t then - 2 ^ (bits t - 1) <= val t x < 2 ^ (bits t - 1) else 0 <= val t x < 2 ^ bits t.
Proof.
  intros Hw Hx. unfold val. destruct (sg t); [now apply sgn_range | exact Hx].
Qed.

(* ---------- + - * & | ^ &^ ---------- *)

Lemma land_wrap_l w x b : 0 <= w -> in_range w x -> wrap w (Z.land x b) = Z.land x b.
Proof.
  intros Hw Hx. apply Z.bits_inj'. intros n Hn.
  destruct (Z_lt_ge_dec n w) as [L|G].
  - now rewrite wrap_testbit by lia.
  - rewrite wrap_testbit_high by lia. rewrite Z.land_spec.
    rewrite <- (wrap_small w x Hx), wrap_testbit_high by lia. reflexivity.
Qed.


Lemma wrap_val' t x : wf_ity t -> in_range (bits t) x -> wrap (bits t) (val t x) = wrap (bits t) x.
Proof. intros. rewrite wrap_val by assumption. symmetry. now apply wrap_small. Qed.

Lemma arith_correct op t x y :
  wf_ity t -> in_range (bits t) x -> in_range (bits t) y ->
  match op with GAdd | GSub | GMul | GAnd | GOr | GXor | GAndNot => True | _ => False end ->
  exec (recipe_binop true op t t) [x; y] = expect t (go_binop op t t (val t x) (val t y)).
Proof.
  intros Hw Hx Hy Hop. pose proof (wf_w_pos _ Hw) as Hp.
  assert (Hx' := wrap_small _ _ Hx). assert (Hy' := wrap_small _ _ Hy).
  destruct op; try contradiction; cbn [recipe_binop mathop exec nparams body ret retw length Nat.eqb map
    run step get X Y nth_error eval_bin app expect go_binop]; rewrite ?enc_norm by exact Hw; f_equal.
  - apply wrap_add_congr; symmetry; now apply wrap_val'.
  - apply wrap_sub_congr; symmetry; now apply wrap_val'.
  - apply wrap_mul_congr; symmetry; now apply wrap_val'.
  - rewrite wrap_land, !wrap_val by (assumption || lia). reflexivity.
  - rewrite wrap_lor, !wrap_val by (assumption || lia). reflexivity.
  - rewrite wrap_lxor, !wrap_val by (assumption || lia). reflexivity.
  - (* &^ : and x (xor y -1) *)
    rewrite wrap_ldiff, !wrap_val by (assumption || lia).
    rewrite Z.ldiff_land.
    rewrite <- Hy' at 1. rewrite <- wrap_lxor by lia. rewrite Z.lxor_m1_r.
    rewrite <- (land_wrap_l (bits t) x (Z.lnot y)) by (assumption || lia).
    rewrite wrap_land, Hx' by lia. reflexivity.
Qed.

(* ---------- comparisons ---------- *)

Lemma sgn_inj w a b : wf_w w -> in_range w a -> in_range w b -> sgn w a = sgn w b -> a = b.
Proof. intros Hw Ha Hb E. rewrite <- (wrap_sgn w a Hw Ha), <- (wrap_sgn w b Hw Hb). now rewrite E. Qed.

Lemma cmp_correct op t x y :
  wf_ity t -> in_range (bits t) x -> in_range (bits t) y ->
  match op with GEq | GNe | GLt | GLe | GGt | GGe => True | _ => False end ->
  exec (recipe_binop true op t t) [x; y] = expect t (go_binop op t t (val t x) (val t y)).
Proof.
  intros Hw Hx Hy Hop. destruct t as [w s]. cbn [bits sg] in *. unfold wf_ity in Hw. cbn [bits] in Hw.
  assert (Heq : (sgn w x =? sgn w y) = (x =? y)).
  { destruct (x =? y) eqn:E.
    - apply Z.eqb_eq in E. subst. apply Z.eqb_refl.
    - apply Z.eqb_neq in E. apply Z.eqb_neq. intros H. apply E. now apply (sgn_inj w). }
  destruct op; try contradiction; destruct s;
    cbn [recipe_binop predop exec nparams body ret retw length Nat.eqb map bits sg
         run step get X Y nth_error eval_pred app expect go_binop val];
    rewrite ?Heq; reflexivity.
Qed.

(* ---------- unary - and ^ ---------- *)

Lemma unop_correct op t x :
  wf_ity t -> in_range (bits t) x ->
  exec (recipe_unop op t) [x] = Ret (enc t (go_unop op t (val t x))).
Proof.
  intros Hw Hx. pose proof (wf_w_pos _ Hw) as Hp.
  assert (Hx' := wrap_small _ _ Hx).
  destruct op; cbn [recipe_unop exec nparams body ret retw length Nat.eqb map
    run step get X nth_error eval_bin app go_unop]; rewrite enc_norm by exact Hw; f_equal.
  - change (wrap (bits t) 0) with (0 mod 2 ^ bits t). rewrite Z.mod_0_l by (apply Z.pow_nonzero; lia).
    replace (- val t x) with (0 - val t x) by lia.
    apply wrap_sub_congr; [reflexivity|]. symmetry. now apply wrap_val'.
  - rewrite <- Hx' at 1. rewrite <- wrap_lxor by lia. rewrite Z.lxor_m1_r.
    unfold Z.lnot. replace (Z.pred (- x)) with ((-1) - x) by lia.
    replace (Z.pred (- val t x)) with ((-1) - val t x) by lia.
    apply wrap_sub_congr; [reflexivity|]. symmetry. now apply wrap_val'.
Qed.

(* ---------- conversions between integer types ---------- *)

Ltac Zify.zify_post_hook ::= Z.div_mod_to_equations.

Lemma conv_correct tx td x :
  wf_ity tx -> wf_ity td -> in_range (bits tx) x ->
  exec (recipe_conv tx td) [x] = Ret (enc td (go_conv tx td (val tx x))).
Proof.
  intros Hx Ht Hr. unfold go_conv. rewrite enc_norm by exact Ht.
  destruct tx as [wx sx], td as [wt st]. unfold wf_ity in *. cbn [bits sg] in *.
  unfold in_range in Hr.
  widths Hx; widths Ht; destruct sx;
    (match goal with |- exec ?f _ = _ => let f' := eval vm_compute in f in change f with f' end);
    cbn [exec nparams body ret retw length Nat.eqb map run step get nth_error eval_cast app val sg bits];
    f_equal; unfold wrap, sgn;
    repeat match goal with |- context [2 ^ ?k] => let v := eval vm_compute in (2 ^ k) in change (2 ^ k) with v end;
    repeat match goal with H : context [2 ^ ?k] |- _ => let v := eval vm_compute in (2 ^ k) in change (2 ^ k) with v in H end;
    try destruct (x <? _) eqn:E; lia.
Qed.

(* ---------- division and remainder ---------- *)

Ltac const_wrap :=
  repeat match goal with
  | |- context [wrap ?w ?k] =>
    lazymatch k with Z0 => idtac | Zpos _ => idtac | Zneg _ => idtac end;
    lazymatch w with Zpos _ => idtac end;
    let v := eval vm_compute in (wrap w k) in change (wrap w k) with v
  | |- context [2 ^ ?k] =>
    lazymatch k with Zpos _ => idtac | (Zpos _ - Zpos _) => idtac end;
    let v := eval vm_compute in (2 ^ k) in change (2 ^ k) with v
  end.
Ltac const_pow_hyps :=
  repeat match goal with
  | H : context [2 ^ ?k] |- _ =>
    lazymatch k with Zpos _ => idtac | (Zpos _ - Zpos _) => idtac end;
    let v := eval vm_compute in (2 ^ k) in change (2 ^ k) with v in H
  end.
Ltac red1 := cbn [exec nparams body ret retw length Nat.eqb map run step get nth_error eval_bin eval_pred eval_cast app val sg bits b2z andb negb expect go_binop].
Ltac stepper :=
  repeat (red1; const_wrap;
          match goal with
          | H : ?c = _ |- context [?c] => rewrite H
          | |- context [b2z ?c =? 0] => destruct c eqn:?; cbn [b2z]; change (1 =? 0) with false; change (0 =? 0) with true; cbv iota
          | |- context [if ?c then _ else _] => lazymatch c with (_ =? _) => idtac | (_ && _) => idtac | (_ <? _) => idtac end; destruct c eqn:?
          end).
Lemma urem_ok w x y : in_range w x -> in_range w y -> y <> 0 -> x mod y = wrap w (Z.rem x y).
Proof.
  unfold in_range. intros Hx Hy Hn. rewrite Z.rem_mod_nonneg by lia. symmetry. apply wrap_small.
  unfold in_range. pose proof (Z.mod_pos_bound x y). lia.
Qed.
Lemma udiv_ok w x y : in_range w x -> in_range w y -> y <> 0 -> x / y = wrap w (x ÷ y).
Proof.
  unfold in_range. intros Hx Hy Hn. rewrite Z.quot_div_nonneg by lia. symmetry. apply wrap_small.
  unfold in_range. split; [apply Z.div_pos; lia|].
  apply Z.le_lt_trans with x; [|lia]. apply Z.div_le_upper_bound; nia.
Qed.
Ltac lit z := lazymatch z with Z0 => idtac | Zpos _ => idtac | Zneg _ => idtac end.
Ltac hyp_b2z :=
  repeat match goal with
  | H : context [b2z ?c] |- _ => destruct c eqn:?; cbn [b2z] in H
  | H : context [Z.land ?a ?b] |- _ => lit a; lit b; let v := eval vm_compute in (Z.land a b) in change (Z.land a b) with v in H
  end.
Ltac fin :=
  cbn [expect] in *; unfold val in *; cbn [sg bits] in *;
  try rewrite enc_norm by (unfold wf_ity, wf_w; cbn; tauto); cbn [sg bits] in *;
  try reflexivity;
  unfold sgn in *; const_wrap; const_pow_hyps;
  repeat match goal with
   | H : context [if ?a <? ?b then _ else _] |- _ => destruct (a <? b) eqn:?
   | |- context [if ?a <? ?b then _ else _] => destruct (a <? b) eqn:?
  end;
  hyp_b2z; try reflexivity; try (exfalso; lia);
  try (repeat match goal with H: (?a =? ?b) = true |- _ => apply Z.eqb_eq in H; subst end; tryif (match goal with |- context [?v] => is_var v end) then fail else (vm_compute; reflexivity));
  try (f_equal; first [apply urem_ok | apply udiv_ok]; unfold in_range; cbn; lia);
  try (f_equal; unfold wrap; lia).

Lemma div_correct rem t x y :
  wf_ity t -> in_range (bits t) x -> in_range (bits t) y ->
  exec (recipe_div rem t) [x; y] = expect t (go_binop (if rem then GRem else GQuo) t t (val t x) (val t y)).
Proof.
  intros Hw Hx Hy. destruct t as [w s]. unfold wf_ity in Hw. cbn [bits sg] in *. unfold in_range in *.
  widths Hw; destruct s; destruct rem;
  (match goal with |- exec ?f _ = _ => let f' := eval vm_compute in f in change f with f' end);
  stepper; fin.
Qed.

(* ---------- shifts ---------- *)

Lemma shl_big w v c : 0 <= w <= c -> wrap w (v * 2 ^ c) = 0.
Proof.
  intros H. unfold wrap. replace c with ((c - w) + w) by lia.
  rewrite Z.pow_add_r by lia. rewrite Z.mul_assoc. apply Z.mod_mul.
  apply Z.pow_nonzero; lia.
Qed.

Lemma pow2_ge1 c : 0 <= c -> 1 <= 2 ^ c.
Proof. intros H. pose proof (Z.pow_pos_nonneg 2 c). lia. Qed.

Lemma lshr_small w x c : in_range w x -> 0 <= c -> wrap w (x / 2 ^ c) = x / 2 ^ c.
Proof.
  unfold in_range. intros Hx Hc. apply wrap_small. unfold in_range.
  pose proof (pow2_ge1 c Hc).
  split; [apply Z.div_pos; lia|].
  apply Z.le_lt_trans with x; [|lia]. apply Z.div_le_upper_bound; nia.
Qed.

Lemma lshr_big w x c : in_range w x -> 0 <= w <= c -> x / 2 ^ c = 0.
Proof.
  unfold in_range. intros Hx Hc. apply Z.div_small.
  pose proof (Z.pow_le_mono_r 2 w c). lia.
Qed.

Lemma div_pow_sign k v c : 0 <= k <= c -> - 2 ^ k <= v < 2 ^ k ->
  v / 2 ^ c = if v <? 0 then -1 else 0.
Proof.
  intros Hk Hv. pose proof (Z.pow_le_mono_r 2 k c ltac:(lia) ltac:(lia)) as Hp.
  destruct (v <? 0) eqn:E.
  - symmetry. apply (Z.div_unique v (2 ^ c) (-1) (v + 2 ^ c)); lia.
  - apply Z.div_small. lia.
Qed.

Lemma ashr_big w v c : 0 < w -> - 2 ^ (w - 1) <= v < 2 ^ (w - 1) -> w - 1 <= c ->
  v / 2 ^ c = v / 2 ^ (w - 1).
Proof.
  intros Hw Hv Hc. rewrite (div_pow_sign (w - 1) v c), (div_pow_sign (w - 1) v (w - 1)) by lia.
  reflexivity.
Qed.

Lemma sgn_small w y : 0 <= y < 2 ^ (w - 1) -> sgn w y = y.
Proof. intros H. unfold sgn. destruct (y <? 2 ^ (w - 1)) eqn:E; lia. Qed.

Ltac const_sgn_all :=
  repeat match goal with
  | H : context [sgn ?w ?k] |- _ => lit k; lit w; let v := eval vm_compute in (sgn w k) in change (sgn w k) with v in H
  | |- context [sgn ?w ?k] => lit k; lit w; let v := eval vm_compute in (sgn w k) in change (sgn w k) with v
  end.

(* x, y: the operand patterns; wx: operand width *)
Ltac sfin x y wx :=
  cbn [expect]; try rewrite enc_norm by (unfold wf_ity, wf_w; cbn; tauto); cbn [val sg bits] in *;
  const_sgn_all;
  try reflexivity;
  (* abstract the signed reading of x, keeping its range and its congruence *)
  try (pose proof (sgn_range wx x ltac:(unfold wf_w; tauto) ltac:(unfold in_range; assumption)) as ?Hvr;
       pose proof (wrap_sgn wx x ltac:(unfold wf_w; tauto) ltac:(unfold in_range; assumption)) as ?Hvx;
       set (vx := sgn wx x) in *; clearbody vx);
  unfold sgn in *; const_wrap; const_pow_hyps;
  repeat match goal with
   | H : context [if ?a <? ?b then _ else _] |- _ => destruct (a <? b) eqn:?
   | |- context [if ?a <? ?b then _ else _] => destruct (a <? b) eqn:?
  end;
  try reflexivity; try (exfalso; unfold wrap in *; lia);
  repeat match goal with
   | |- context [2 ^ ?e] => tryif constr_eq e y then fail else (replace e with y by (unfold wrap in *; lia))
  end;
  try reflexivity;
  f_equal;
  first
  [ (* shl, in range *) apply wrap_mul_congr; [first [reflexivity | match goal with H : wrap _ _ = x |- _ => rewrite H end; apply wrap_small; unfold in_range; lia] | reflexivity]
  | (* shl, oversize *) symmetry; apply shl_big; lia
  | (* lshr *) symmetry; apply lshr_small; [unfold in_range; assumption | lia]
  | rewrite (lshr_big wx x y) by (unfold in_range; lia); reflexivity
  | match goal with |- context [?v / 2 ^ y] => rewrite (ashr_big wx v y) by lia end; reflexivity
  | idtac ].

Lemma shift_correct left tx ty x y :
  wf_ity tx -> wf_ity ty -> in_range (bits tx) x -> in_range (bits ty) y ->
  exec (recipe_shift true left tx ty) [x; y]
  = expect tx (go_binop (if left then GShl else GShr) tx ty (val tx x) (val ty y)).
Proof.
  intros Hwx Hwy Hx Hy. destruct tx as [wx sx], ty as [wy sy]. unfold wf_ity in *. cbn [bits sg] in *.
  unfold in_range in *.
  widths Hwx; widths Hwy; destruct sx; destruct sy; destruct left;
  (match goal with |- exec ?f _ = _ => let f' := eval vm_compute in f in change f with f' end);
  stepper;
  match goal with H : 0 <= x < 2 ^ ?W |- _ => sfin x y W end.
Qed.

(* the lowering of the pinned tree (count converted to the operand width before
   the comparison) is wrong for counts that are multiples of 2^width *)
Lemma shift_unfixed_refuted :
  exec (recipe_shift false true U8 U64) [1; 256]
  <> expect U8 (go_binop GShl U8 U64 (val U8 1) (val U64 256)).
Proof. vm_compute. congruence. Qed.

Lemma shift_unfixed_refuted_shr :
  exec (recipe_shift false false I8 U16) [128; 256]
  <> expect I8 (go_binop GShr I8 U16 (val I8 128) (val U16 256)).
Proof. vm_compute. congruence. Qed.

(* ---------- float comparisons ---------- *)
Lemma fcmp_correct op o :
  match op with GEq | GNe | GLt | GLe | GGt | GGe => True | _ => False end ->
  eval_fpred (fpred_of op) o = go_fcmp op o.
Proof. destruct op; try contradiction; destruct o; reflexivity. Qed.
