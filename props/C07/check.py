"""C07 - dynamic type identity and interface satisfaction coincide with Go's rules."""
import json, os, collections
import vlib
from vlib import coq_list, coq_opt

HD = os.path.join(os.path.dirname(os.path.abspath(__file__)), "harness")


def cb(s):
    b = s.encode("utf-8", "surrogatepass")
    return "[" + ";".join(str(x) for x in b) + "]" if b else "[]"


def run_abi(ck, recs):
    n = {"quick": 1200, "thorough": 15000}[ck.tier]
    out = os.path.join(ck.work, "abi.jsonl")
    rc, log = ck.go_test_overlay("ssa/abi", {"zz_verif_test.go": os.path.join(HD, "abi_verif_test.go")},
                                 env={"VERIF_OUT": out, "VERIF_N": str(n)})
    if rc != 0 or not os.path.exists(out):
        ck.correspondence_broken("harness:ssa/abi", log[-2500:])
        return
    for line in open(out):
        r = json.loads(line)
        recs[r["kind"]].append(r)


ZFACE_FUNCS = ["findItab", "addItab", "NewItab", "findMethod", "Implements"]


def run_itab(ck, recs):
    """S2: the functions of z_face.go, copied verbatim from the working tree into a scratch module"""
    import re, shutil
    src = open(os.path.join(vlib.REPO, "runtime/internal/runtime/z_face.go")).read()
    d = os.path.join(ck.work, "itab")
    os.makedirs(os.path.join(d, "c"), exist_ok=True)
    body = ["package main", "", "import (", '\t"unsafe"', "", '\t"github.com/goplus/llgo/runtime/abi"',
            '\tc "github.com/goplus/llgo/runtime/xverif/c"', ")", "", "var _ = unsafe.Pointer(nil)", ""]
    for fn in ZFACE_FUNCS:
        m = re.search(r"^func %s\(.*?^}\n" % fn, src, re.S | re.M)
        if not m:
            ck.correspondence_broken("z_face.go:" + fn, "function not found in working tree")
            return
        body.append(m.group(0))
    open(os.path.join(d, "zface_copy.go"), "w").write("\n".join(body))
    shutil.copy(os.path.join(HD, "itab", "main.go.txt"), os.path.join(d, "main.go"))
    shutil.copy(os.path.join(HD, "itab", "c", "c.go.txt"), os.path.join(d, "c", "c.go"))
    open(os.path.join(d, "go.mod"), "w").write(
        "module github.com/goplus/llgo/runtime/xverif\n\ngo 1.24\n\nrequire github.com/goplus/llgo/runtime v0.0.0\n\n"
        "replace github.com/goplus/llgo/runtime => %s/runtime\n" % vlib.REPO)
    shutil.copy(os.path.join(vlib.REPO, "runtime", "go.sum"), os.path.join(d, "go.sum"))
    out = os.path.join(ck.work, "itab.jsonl")
    n = {"quick": 2000, "thorough": 15000}[ck.tier]
    rc, log = vlib.sh(["go", "run", "."], cwd=d, env=vlib.goenv({"VERIF_OUT": out, "VERIF_N": str(n), "VERIF_SEED": str(ck.seed)}), timeout=900)
    if rc != 0 or not os.path.exists(out):
        ck.correspondence_broken("harness:z_face.go", log[-2500:])
        return
    for line in open(out):
        r = json.loads(line)
        recs[r["kind"]].append(r)


def load_prog(sub):
    files = {}
    base = os.path.join(HD, sub)
    for root, _, fs in os.walk(base):
        for f in fs:
            if f.endswith(".go.txt"):
                rel = os.path.relpath(os.path.join(root, f), base)[:-4]
                files[rel] = open(os.path.join(root, f)).read()
    return files


# probes whose difference is one recorded defect; every other differing probe keeps its own key
E2E_GROUP = {
    "tag-x-as-y": "struct-tag", "tag-x-as-none": "struct-tag", "tag-x-as-y-in-q": "struct-tag", "tag-eq-notag": "struct-tag",
    "switch-tag": "struct-tag", "switch-notag": "struct-tag", "ifacemap-len": "struct-tag", "ifacemap-tag": "struct-tag",
    "embA-as-embT": "embedded-alias", "switch-embA": "embedded-alias",
    "iface-second-unexported-pkg": "iface-second-unexported-pkg",
    "targ-struct-unexported-field-p-vs-q": "targ-fallback", "targ-iface-unexported-method-p-vs-q": "targ-fallback",
    "targ-func-of-local1-vs-local2": "targ-fallback",
    "V-implements-I-pkgpath-sorts-before-exported": "implements-order", "V-I-Foo@e2e2": "implements-order",
}
# func literals over a type local to a generic function: wrong dynamic type in every instance but the first compiled
for _pre in ("int-", "str-"):
    for _n in ("func-of-recvchan", "func-returning-sendchan", "func1", "func-variadic", "func-slice"):
        E2E_GROUP[_pre + "local-" + _n + "-as-same"] = "generic-local-func-literal-type"
E2E_GROUP["genlocal-assert-in-closure-int"] = "generic-local-type-in-closure"
E2E_GROUP["genlocal-assert-in-closure-str"] = "generic-local-type-in-closure"


def run_e2e(ck, recs):
    """E: multi-package probe programs, llgo vs the reference toolchain, one result line per probe"""
    import e2e
    from concurrent.futures import ThreadPoolExecutor
    L = e2e.LLGo(ck)
    if not L.ok:
        ck.correspondence_broken("e2e:llgo-build", L.buildlog[-2000:])
        return
    progs = [("e2e", "verifprog"), ("e2e2", "A0")]

    def one(pm):
        sub, mod = pm
        d = os.path.join(ck.work, "prog_" + sub)
        files = load_prog(sub)
        if ck.tier == "quick" and "p/patchstd.go" in files:
            # importing sync adds ~40 s of llgo build: the std-element probes run in the thorough tier only
            files["p/patchstd.go"] = "package p\n\nfunc PatchedStdProbes(pre string) {}\n"
        e2e.write_module(d, files, modname=mod)
        ref = os.path.join(ck.work, sub + ".ref")
        rc, log = e2e.go_build(d, ref)
        if rc != 0:
            return sub, "go build failed: " + log[-1500:], None, None
        _, _, want = e2e.run_plain(ref)
        out = os.path.join(ck.work, sub + ".llgo")
        rc, log = L.build(d, out)
        if rc != 0:
            return sub, "llgo build failed: " + log[-1500:], None, None
        rc, _, got = L.run_bin(out)
        if ck.tier == "thorough" and sub == "e2e":
            def psyms(binp):
                _, o = vlib.sh(["/usr/lib/llvm-14/bin/llvm-nm", binp])
                return sorted(set(l.split(" ", 2)[2] for l in o.splitlines() if l.count(" ") >= 2 and ".p" in l and "_llgo_" in l))
            first = psyms(out)
            for k in range(2):
                L.cache = os.path.join(ck.work, "xdgcache_again%d" % k)
                os.makedirs(L.cache, exist_ok=True)
                out2 = out + ".again%d" % k
                rc2, log2 = L.build(d, out2)
                if rc2 == 0 and psyms(out2) != first:
                    diff = [x for x in psyms(out2) if x not in first][:3]
                    ck.violation("e2e-local-generic-type-pos-suffix-varies",
                                 "two builds of one program from fresh caches give different descriptor names, e.g. %r (first build has %r)"
                                 % (diff, [x for x in first if x not in psyms(out2)][:3]), {"program": "props/C07/harness/e2e"})
                    break
        return sub, None, want, got
    results = [one(pm) for pm in progs]   # serial: the second build reuses the private llgo cache
    for sub, err, want, got in results:
        if err:
            ck.correspondence_broken("e2e:" + sub, err)
            continue
        w = [l.split(" ", 1) for l in want.strip().splitlines()]
        g = dict(l.split(" ", 1) for l in got.strip().splitlines() if " " in l)
        for name, val in w:
            rec = {"kind": "e2e", "prog": sub, "probe": name, "go": val, "llgo": g.get(name)}
            recs["e2e"].append(rec)
            if g.get(name) != val:
                grp = E2E_GROUP.get(name) or E2E_GROUP.get(name + "@" + sub) or name
                ck.violation("e2e-" + grp, "probe " + name + ": llgo prints %r, the reference toolchain prints %r" % (g.get(name), val),
                             dict(rec, program="props/C07/harness/" + sub, llgo_output=got[-3000:]))


def run(ck):
    ck.trusted = ["Coq 8.16.1 kernel (coqc, vm_compute)", "Go overlay harness props/C07/harness/abi_verif_test.go (go/types construction of the generated types)",
                  "go/types Identical (upstream, used as the identity oracle)",
                  "hand-written model coq/theories/C07/Model.v tied by correspondence", "SHA-256/base64 in Gallina (validated by the correspondence)"]
    ck.assumptions = ["identifiers are ASCII (Exported = first byte in A..Z)",
                      "SHA-256 collision freedom is a Section hypothesis (H_inj) of the theorems"]
    ck.coq_build("C07")
    ck.coq_props("LLGoV.C07.Props", "theories/C07/Props.v")
    recs = collections.defaultdict(list)
    from concurrent.futures import ThreadPoolExecutor
    with ThreadPoolExecutor(3) as ex:
        futs = [ex.submit(f, ck, recs) for f in (run_e2e, run_abi, run_itab)]
        for f in futs:
            f.result()
    for v in recs["viol"]:
        ck.violation(v["key"], v.get("what", ""), v)
    hdr = "From LLGoV Require Import C07.Model.\nLocal Open Scope N_scope.\n"
    # names: model vs real TypeName
    seen = {}
    for r in recs["name"]:
        if r["model"] and r["coq"] not in seen:
            seen[r["coq"]] = r
    names = list(seen.values())
    bad = ck.coq_mismatches(hdr, ["(%s, (%s, %s))" % (r["coq"], cb(r["name"]), "true" if r["pub"] else "false") for r in names],
                            "type_name_sha", "name_res_eqb", "c07_name", shard=150)
    if bad:
        ck.correspondence_broken("C07.Model/type_name", {"n_mismatch": len(bad), "first": names[bad[0]]})
    pairs = [r for r in recs["pair"]]
    bad = ck.coq_mismatches(hdr, ["((%s, %s), %s)" % (r["a"], r["b"], "true" if r["ident"] else "false") for r in pairs],
                            "(fun p => identb (fst p) (snd p))", "Bool.eqb", "c07_ident", shard=400)
    if bad:
        ck.correspondence_broken("C07.Model/identb", {"n_mismatch": len(bad), "first": pairs[bad[0]]})
    # method tables: model vs z_face.go
    its = recs["itab"]

    def vmt(ms, with_fn):
        return coq_list(["(Meth %s %d %d)" % (cb(m["name"]), m["typ"], m["ifn"]) if with_fn else
                         "(IMeth %s %d)" % (cb(m["name"]), m["typ"]) for m in (ms or [])])
    terms = []
    for r in its:
        mt = "(Some %s)" % vmt(r["mt"], True) if r["has_mt"] else "None"
        slots = "(Some [%s])" % ";".join(str(x) for x in r["slots"]) if r["ok"] else "None"
        terms.append("((%s, %s), (%s, %s))" % (vmt(r["inter"], False), mt, slots, "true" if r["impl"] else "false"))
    bad = ck.coq_mismatches(hdr, terms, "(fun p => (new_itab (fst p) (snd p), implements true (fst p) (snd p)))",
                            "(prod_eqb ostrN_eqb Bool.eqb)", "c07_itab", shard=500)
    if bad:
        ck.correspondence_broken("C07.Model/new_itab+implements", {"n_mismatch": len(bad), "first": its[bad[0]]})
    classes = collections.Counter("pair:" + r["class"] for r in pairs)
    classes.update("itab:" + r["class"] for r in its)
    classes["e2e:probes"] = len(recs["e2e"])
    classes["e2e:probes-differing"] = sum(1 for r in recs["e2e"] if r["go"] != r["llgo"])
    classes["name:modelled"] = len(names)
    classes["name:fallback-not-modelled"] = sum(1 for r in recs["name"] if not r["model"])
    ck.add_cov(evaluations=len(names) + len(pairs) + len(its) + len(recs['e2e']), nontrivial=len(names) + len(set(json.dumps([r['inter'], r['mt']]) for r in its)), classes=dict(classes),
               samples=[{"name": names[len(names) // 3]}] if names else [])
    return ck.finish()
