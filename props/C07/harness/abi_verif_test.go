package abi

// Injected by /verif (go test -overlay); not part of the repository.
//
// One generator produces go/types values and the Coq terms of the same types
// (grammar of coq/theories/C07/Model.v).  Emits, per line of $VERIF_OUT:
//   {"kind":"name", "coq":term, "name":..., "pub":..., "model":bool}   real TypeName of a generated type
//   {"kind":"pair", "a":term, "b":term, "ident":..., "same":..., "class":...}
//   {"kind":"viol", "key":..., "what":..., ...}   property oracle: TypeName equal <=> types.Identical

import (
	"encoding/json"
	"fmt"
	"go/token"
	"go/types"
	"os"
	"sort"
	"strconv"
	"strings"
	"testing"
)

type vrng struct{ s uint64 }

func (r *vrng) next() uint64 {
	r.s += 0x9e3779b97f4a7c15
	z := r.s
	z = (z ^ (z >> 30)) * 0xbf58476d1ce4e5b9
	z = (z ^ (z >> 27)) * 0x94d049bb133111eb
	return z ^ (z >> 31)
}
func (r *vrng) n(k int) int { return int(r.next() % uint64(k)) }
func (r *vrng) pick(xs []string) string { return xs[r.n(len(xs))] }

const (
	kBasic = iota
	kNamed
	kPtr
	kSlice
	kArray
	kMap
	kChan
	kFunc
	kStruct
	kIface
)

type vparam struct {
	Name string
	T    *vty
}
type vfield struct {
	Name   string
	Emb    bool
	Tag    string
	Pkg    string
	HasPkg bool
	T      *vty
}
type vmeth struct {
	Name     string
	Pkg      string
	HasPkg   bool
	Params   []vparam
	Results  []vparam
	Variadic bool
}
type vty struct {
	K        int
	Basic    int
	Alias    bool
	Pkg      string
	HasPkg   bool
	Name     string
	Targs    []*vty
	ScKind   int // 0 package scope, 1 local (ScIds innermost first), 2 position
	ScIds    []int
	ScPos    int
	N        int64
	Dir      int // 0 both, 1 send, 2 recv
	Elem     *vty
	Key      *vty
	Params   []vparam
	Results  []vparam
	Variadic bool
	Fields   []vfield
	Methods  []vmeth
}

// ---------- Coq rendering ----------

func cstr(s string) string {
	if s == "" {
		return "[]"
	}
	var b strings.Builder
	b.WriteByte('[')
	for i := 0; i < len(s); i++ {
		if i > 0 {
			b.WriteByte(';')
		}
		b.WriteString(strconv.Itoa(int(s[i])))
	}
	b.WriteByte(']')
	return b.String()
}
func cbool(b bool) string {
	if b {
		return "true"
	}
	return "false"
}
func copt(has bool, s string) string {
	if !has {
		return "None"
	}
	return "(Some " + cstr(s) + ")"
}
func ctys(ps []vparam) string {
	s := "TsNil"
	for i := len(ps) - 1; i >= 0; i-- {
		s = "(TsCons " + cstr(ps[i].Name) + " " + ps[i].T.coq() + " " + s + ")"
	}
	return s
}
func ctargs(ts []*vty) string {
	s := "TsNil"
	for i := len(ts) - 1; i >= 0; i-- {
		s = "(TsCons [] " + ts[i].coq() + " " + s + ")"
	}
	return s
}
func (t *vty) coq() string {
	switch t.K {
	case kBasic:
		return fmt.Sprintf("(TBasic %d %s)", t.Basic, cbool(t.Alias))
	case kNamed:
		sc := "ScPkg"
		switch t.ScKind {
		case 1:
			xs := make([]string, len(t.ScIds))
			for i, x := range t.ScIds {
				xs[i] = strconv.Itoa(x)
			}
			sc = "(ScLocal [" + strings.Join(xs, ";") + "])"
		case 2:
			sc = fmt.Sprintf("(ScPos %d)", t.ScPos)
		}
		return "(TNamed " + copt(t.HasPkg, t.Pkg) + " " + cstr(t.Name) + " " + ctargs(t.Targs) + " " + sc + ")"
	case kPtr:
		return "(TPtr " + t.Elem.coq() + ")"
	case kSlice:
		return "(TSlice " + t.Elem.coq() + ")"
	case kArray:
		return fmt.Sprintf("(TArray %d %s)", t.N, t.Elem.coq())
	case kMap:
		return "(TMap " + t.Key.coq() + " " + t.Elem.coq() + ")"
	case kChan:
		return "(TChan " + []string{"DBoth", "DSend", "DRecv"}[t.Dir] + " " + t.Elem.coq() + ")"
	case kFunc:
		return "(TFunc " + ctys(t.Params) + " " + ctys(t.Results) + " " + cbool(t.Variadic) + ")"
	case kStruct:
		s := "FsNil"
		for i := len(t.Fields) - 1; i >= 0; i-- {
			f := t.Fields[i]
			s = "(FsCons " + cstr(f.Name) + " " + cbool(f.Emb) + " " + cstr(f.Tag) + " " + copt(f.HasPkg, f.Pkg) + " " + f.T.coq() + " " + s + ")"
		}
		return "(TStruct " + s + ")"
	case kIface:
		s := "MsNil"
		for i := len(t.Methods) - 1; i >= 0; i-- {
			m := t.Methods[i]
			s = "(MsCons " + cstr(m.Name) + " " + copt(m.HasPkg, m.Pkg) + " " + ctys(m.Params) + " " + ctys(m.Results) + " " + cbool(m.Variadic) + " " + s + ")"
		}
		return "(TIface " + s + ")"
	}
	panic("kind")
}

// ---------- go/types construction ----------

var orderBug string

type world struct {
	pkgs map[string]*types.Package
	objs map[string]*types.Named
}

func newWorld() *world {
	return &world{pkgs: map[string]*types.Package{}, objs: map[string]*types.Named{}}
}
func (w *world) pkg(path string) *types.Package {
	if p, ok := w.pkgs[path]; ok {
		return p
	}
	name := path
	if i := strings.LastIndex(path, "/"); i >= 0 {
		name = path[i+1:]
	}
	p := types.NewPackage(path, name)
	w.pkgs[path] = p
	return p
}
func (w *world) optpkg(has bool, path string) *types.Package {
	if !has {
		return nil
	}
	return w.pkg(path)
}

// child idx of scope s, creating children as needed
func childScope(s *types.Scope, idx int) *types.Scope {
	for s.NumChildren() <= idx {
		types.NewScope(s, token.NoPos, token.NoPos, "verif")
	}
	return s.Child(idx)
}

func (w *world) named(t *vty) *types.Named {
	key := fmt.Sprintf("%v|%s|%s|%d|%v|%d|%d", t.HasPkg, t.Pkg, t.Name, t.ScKind, t.ScIds, t.ScPos, len(t.Targs))
	if n, ok := w.objs[key]; ok {
		return n
	}
	if !t.HasPkg {
		// universe: only error
		n := types.Universe.Lookup(t.Name).Type().(*types.Named)
		w.objs[key] = n
		return n
	}
	pkg := w.pkg(t.Pkg)
	pos := token.NoPos
	if t.ScKind == 2 {
		pos = token.Pos(t.ScPos)
	}
	obj := types.NewTypeName(pos, pkg, t.Name, nil)
	n := types.NewNamed(obj, types.NewStruct(nil, nil), nil)
	if len(t.Targs) > 0 {
		tps := make([]*types.TypeParam, len(t.Targs))
		for i := range tps {
			tn := types.NewTypeName(token.NoPos, pkg, "P"+strconv.Itoa(i), nil)
			tps[i] = types.NewTypeParam(tn, types.NewInterfaceType(nil, nil))
		}
		n.SetTypeParams(tps)
	}
	switch t.ScKind {
	case 0:
		// several distinct generated objects may share a name (different arity): Insert keeps the first
		if alt := pkg.Scope().Insert(obj); alt != nil {
			// same scope, same name: emulate a second declaration by re-parenting through a private scope is
			// not possible; keep the object outside (Parent()==nil) only if it has a valid position
			panic("duplicate package-level name in generator: " + key)
		}
	case 1:
		s := pkg.Scope()
		for i := len(t.ScIds) - 1; i >= 0; i-- {
			s = childScope(s, t.ScIds[i])
		}
		if alt := s.Insert(obj); alt != nil {
			panic("duplicate local name in generator: " + key)
		}
	}
	w.objs[key] = n
	return n
}

func (w *world) tuple(ps []vparam) *types.Tuple {
	vs := make([]*types.Var, len(ps))
	for i, p := range ps {
		vs[i] = types.NewParam(token.NoPos, nil, p.Name, w.conv(p.T))
	}
	return types.NewTuple(vs...)
}

func (w *world) conv(t *vty) types.Type {
	switch t.K {
	case kBasic:
		if t.Alias && t.Basic == int(types.Uint8) {
			return types.Universe.Lookup("byte").Type()
		}
		if t.Alias && t.Basic == int(types.Int32) {
			return types.Universe.Lookup("rune").Type()
		}
		return types.Typ[t.Basic]
	case kNamed:
		n := w.named(t)
		if len(t.Targs) == 0 {
			return n
		}
		targs := make([]types.Type, len(t.Targs))
		for i, a := range t.Targs {
			targs[i] = w.conv(a)
		}
		inst, err := types.Instantiate(nil, n, targs, false)
		if err != nil {
			panic(err)
		}
		return inst
	case kPtr:
		return types.NewPointer(w.conv(t.Elem))
	case kSlice:
		return types.NewSlice(w.conv(t.Elem))
	case kArray:
		return types.NewArray(w.conv(t.Elem), t.N)
	case kMap:
		return types.NewMap(w.conv(t.Key), w.conv(t.Elem))
	case kChan:
		return types.NewChan([]types.ChanDir{types.SendRecv, types.SendOnly, types.RecvOnly}[t.Dir], w.conv(t.Elem))
	case kFunc:
		return types.NewSignatureType(nil, nil, nil, w.tuple(t.Params), w.tuple(t.Results), t.Variadic)
	case kStruct:
		fs := make([]*types.Var, len(t.Fields))
		tags := make([]string, len(t.Fields))
		for i, f := range t.Fields {
			fs[i] = types.NewField(token.NoPos, w.optpkg(f.HasPkg, f.Pkg), f.Name, w.conv(f.T), f.Emb)
			tags[i] = f.Tag
		}
		return types.NewStruct(fs, tags)
	case kIface:
		ms := make([]*types.Func, len(t.Methods))
		for i, m := range t.Methods {
			sig := types.NewSignatureType(nil, nil, nil, w.tuple(m.Params), w.tuple(m.Results), m.Variadic)
			ms[i] = types.NewFunc(token.NoPos, w.optpkg(m.HasPkg, m.Pkg), m.Name, sig)
		}
		it := types.NewInterfaceType(ms, nil)
		it.Complete()
		for i := range t.Methods {
			m := it.Method(i)
			if m.Name() != t.Methods[i].Name || (m.Pkg() != nil && !m.Exported() && m.Pkg().Path() != t.Methods[i].Pkg) {
				orderBug = fmt.Sprintf("method order: go/types %v, generator %v", it, t.Methods)
			}
		}
		return it
	}
	panic("kind")
}

// ---------- generator ----------

var (
	vPkgs    = []string{"a", "x/a", "x/b", "a.b/c", "x/a.b", "os", "github.com/goplus/llgo/runtime/internal/lib/os", "_llgo_x", "chan", "map", "A0/p", "main"}
	vTNames  = []string{"T", "U", "t", "u", "Node", "x1", "Pointer", "int"}
	vFNames  = []string{"A", "B", "C", "a", "b", "c", "X1", "T", "U"}
	vMNames  = []string{"Foo", "Bar", "Read", "foo", "bar", "m"}
	vTags    = []string{"", "", "", "x", "y", `json:"a"`, "x y"}
	vPNames  = []string{"", "x", "y", "_"}
	vLens    = []int64{0, 1, 2, 3, 10, 255, 256, 1 << 31, 1 << 62}
	vScopes  = [][]int{{0, 0}, {1, 0}, {0, 1}, {10, 0}, {0, 0, 0}, {2}}
	vBasics  = []int{1, 2, 3, 4, 5, 6, 7, 8, 9, 10, 11, 12, 13, 14, 15, 16, 17, 18}
	vPosPool = []int{1, 5, 12345}
)

func isExp(s string) bool { return s != "" && s[0] >= 'A' && s[0] <= 'Z' }

type gen struct {
	r *vrng
}

func (g *gen) basic() *vty {
	k := vBasics[g.r.n(len(vBasics))]
	t := &vty{K: kBasic, Basic: k}
	if (k == 8 || k == 5) && g.r.n(3) == 0 {
		t.Alias = true
	}
	return t
}

func (g *gen) named(d int, inTarg bool) *vty {
	if g.r.n(12) == 0 {
		return &vty{K: kNamed, Name: "error"}
	}
	t := &vty{K: kNamed, HasPkg: true, Pkg: g.r.pick(vPkgs), Name: g.r.pick(vTNames)}
	switch g.r.n(6) {
	case 0, 1:
		t.ScKind = 1
		t.ScIds = append([]int{}, vScopes[g.r.n(len(vScopes))]...)
	case 2:
		if g.r.n(3) == 0 {
			t.ScKind = 2
			t.ScPos = vPosPool[g.r.n(len(vPosPool))]
		}
	}
	if d > 0 && g.r.n(3) == 0 {
		n := 1 + g.r.n(2)
		for i := 0; i < n; i++ {
			t.Targs = append(t.Targs, g.typ(d-1, true))
		}
		// generic types get their own names so that arities never clash inside one scope
		t.Name = "G" + strconv.Itoa(n) + t.Name
	}
	return t
}

func (g *gen) params(d int, n int) []vparam {
	ps := make([]vparam, n)
	for i := range ps {
		ps[i] = vparam{Name: g.r.pick(vPNames), T: g.typ(d, false)}
	}
	return ps
}

func (g *gen) sig(d int) ([]vparam, []vparam, bool) {
	ps := g.params(d, g.r.n(4))
	rs := g.params(d, g.r.n(3))
	v := false
	if len(ps) > 0 && g.r.n(3) == 0 {
		last := ps[len(ps)-1].T
		if last.K != kSlice {
			ps[len(ps)-1].T = &vty{K: kSlice, Elem: last}
		}
		v = true
	}
	return ps, rs, v
}

func sortMethods(ms []vmeth) {
	// go/types object.less: exported before non-exported, then name, then package path
	sort.SliceStable(ms, func(i, j int) bool {
		a, b := ms[i], ms[j]
		ea, eb := isExp(a.Name), isExp(b.Name)
		if ea != eb {
			return ea
		}
		if a.Name != b.Name {
			return a.Name < b.Name
		}
		if !ea {
			return a.Pkg < b.Pkg
		}
		return false
	})
}

func (g *gen) typ(d int, inTarg bool) *vty {
	c := g.r.n(20)
	if d <= 0 {
		if c < 12 {
			return g.basic()
		}
		return g.named(0, inTarg)
	}
	switch {
	case c < 3:
		return g.basic()
	case c < 6:
		return g.named(d, inTarg)
	case c < 8:
		return &vty{K: kPtr, Elem: g.typ(d-1, inTarg)}
	case c < 10:
		return &vty{K: kSlice, Elem: g.typ(d-1, inTarg)}
	case c < 11:
		return &vty{K: kArray, N: vLens[g.r.n(len(vLens))], Elem: g.typ(d-1, inTarg)}
	case c < 12:
		return &vty{K: kMap, Key: g.typ(d-1, inTarg), Elem: g.typ(d-1, inTarg)}
	case c < 14:
		return &vty{K: kChan, Dir: g.r.n(3), Elem: g.typ(d-1, inTarg)}
	case c < 16:
		ps, rs, v := g.sig(d - 1)
		return &vty{K: kFunc, Params: ps, Results: rs, Variadic: v}
	case c < 19:
		return g.strct(d)
	default:
		return g.iface(d)
	}
}

func (g *gen) strct(d int) *vty {
	t := &vty{K: kStruct}
	n := g.r.n(4)
	pkg := g.r.pick(vPkgs)
	used := map[string]bool{}
	for i := 0; i < n; i++ {
		f := vfield{T: g.typ(d-1, false), Tag: g.r.pick(vTags), Pkg: pkg, HasPkg: true}
		if g.r.n(5) == 0 {
			// embedded: name is the type name of a named (or pointer to named) type
			nt := g.named(0, false)
			f.T = nt
			f.Name = nt.Name
			f.Emb = true
			if g.r.n(3) == 0 {
				f.T = &vty{K: kPtr, Elem: nt}
			}
		} else if g.r.n(10) == 0 {
			f.Name = "_"
		} else {
			f.Name = g.r.pick(vFNames)
		}
		if f.Name != "_" && used[f.Name] {
			continue
		}
		used[f.Name] = true
		t.Fields = append(t.Fields, f)
	}
	return t
}

func (g *gen) iface(d int) *vty {
	t := &vty{K: kIface}
	n := g.r.n(4)
	pkg := g.r.pick(vPkgs)
	used := map[string]bool{}
	for i := 0; i < n; i++ {
		name := g.r.pick(vMNames)
		if used[name] {
			continue
		}
		used[name] = true
		ps, rs, v := g.sig(d - 1)
		t.Methods = append(t.Methods, vmeth{Name: name, Pkg: pkg, HasPkg: true, Params: ps, Results: rs, Variadic: v})
	}
	sortMethods(t.Methods)
	return t
}

// ---------- deep copy and mutation sites ----------

func cpParams(ps []vparam) []vparam {
	out := make([]vparam, len(ps))
	for i, p := range ps {
		out[i] = vparam{p.Name, p.T.clone()}
	}
	return out
}
func (t *vty) clone() *vty {
	if t == nil {
		return nil
	}
	c := *t
	c.ScIds = append([]int(nil), t.ScIds...)
	c.Targs = nil
	for _, a := range t.Targs {
		c.Targs = append(c.Targs, a.clone())
	}
	c.Elem = t.Elem.clone()
	c.Key = t.Key.clone()
	c.Params = cpParams(t.Params)
	c.Results = cpParams(t.Results)
	c.Fields = nil
	for _, f := range t.Fields {
		f.T = f.T.clone()
		c.Fields = append(c.Fields, f)
	}
	c.Methods = nil
	for _, m := range t.Methods {
		m.Params = cpParams(m.Params)
		m.Results = cpParams(m.Results)
		c.Methods = append(c.Methods, m)
	}
	return &c
}

// a mutation site: apply() changes exactly one attribute in place and returns
// its class ("" = not applicable after all)
type site struct {
	ctx   string // "", "targ", "targfb" (inside a func/struct/interface type argument)
	apply func(r *vrng) string
}

func other(r *vrng, pool []string, cur string) string {
	for {
		x := r.pick(pool)
		if x != cur {
			return x
		}
	}
}

func sigSites(ctx string, ps, rs *[]vparam, v *bool, out *[]site) {
	*out = append(*out, site{ctx, func(r *vrng) string {
		n := len(*ps)
		if n == 0 {
			return ""
		}
		if *v {
			*v = false
			return "func-variadic"
		}
		if (*ps)[n-1].T.K == kSlice {
			*v = true
			return "func-variadic"
		}
		return ""
	}})
	*out = append(*out, site{ctx, func(r *vrng) string {
		if len(*ps) == 0 || *v {
			return ""
		}
		// move the last parameter to the front of the results
		p := (*ps)[len(*ps)-1]
		*ps = (*ps)[:len(*ps)-1]
		*rs = append([]vparam{p}, *rs...)
		return "func-param-vs-result"
	}})
	*out = append(*out, site{ctx, func(r *vrng) string {
		if len(*ps) == 0 {
			return ""
		}
		i := r.n(len(*ps))
		(*ps)[i].Name = other(r, vPNames, (*ps)[i].Name)
		return "func-param-name"
	}})
	for i := range *ps {
		collect((*ps)[i].T, ctx, out)
	}
	for i := range *rs {
		collect((*rs)[i].T, ctx, out)
	}
}

func collect(t *vty, ctx string, out *[]site) {
	switch t.K {
	case kBasic:
		*out = append(*out, site{ctx, func(r *vrng) string {
			for {
				k := vBasics[r.n(len(vBasics))]
				if k != t.Basic {
					t.Basic = k
					t.Alias = false
					return "basic-kind"
				}
			}
		}})
		if t.Basic == 8 || t.Basic == 5 {
			*out = append(*out, site{ctx, func(r *vrng) string { t.Alias = !t.Alias; return "basic-alias" }})
		}
	case kNamed:
		if t.HasPkg {
			*out = append(*out, site{ctx, func(r *vrng) string {
				if t.Pkg == "os" {
					t.Pkg = PatchPathPrefix + "os"
					return "named-patchpath"
				}
				t.Pkg = other(r, vPkgs, t.Pkg)
				if PathOf(types.NewPackage(t.Pkg, "")) == "os" {
					t.Pkg = "x/b"
				}
				return "named-pkg"
			}})
			*out = append(*out, site{ctx, func(r *vrng) string {
				if len(t.Targs) > 0 {
					t.Name = t.Name + "x"
				} else {
					t.Name = other(r, vTNames, t.Name)
				}
				return "named-name"
			}})
			*out = append(*out, site{ctx, func(r *vrng) string {
				switch t.ScKind {
				case 0:
					t.ScKind = 1
					t.ScIds = append([]int{}, vScopes[r.n(len(vScopes))]...)
				case 1:
					switch r.n(3) {
					case 0:
						t.ScKind = 0
						t.ScIds = nil
					case 1:
						t.ScIds[r.n(len(t.ScIds))] += 1 + r.n(2)
					default:
						t.ScIds = append(t.ScIds, 0)
					}
				case 2:
					t.ScPos += 1 + r.n(3)
				}
				return "named-scope"
			}})
		}
		tc := "targ"
		if ctx == "targfb" {
			tc = "targfb" // everything below a func/struct/interface argument is printed by types.TypeString
		}
		for _, a := range t.Targs {
			collect(a, tc, out)
		}
	case kPtr, kSlice:
		*out = append(*out, site{ctx, func(r *vrng) string {
			t.K = kPtr + kSlice - t.K
			return "shape-ptr-slice"
		}})
		collect(t.Elem, ctx, out)
	case kArray:
		*out = append(*out, site{ctx, func(r *vrng) string {
			for {
				n := vLens[r.n(len(vLens))]
				if r.n(2) == 0 {
					n = t.N + 1
				}
				if n != t.N && n >= 0 {
					t.N = n
					return "array-len"
				}
			}
		}})
		*out = append(*out, site{ctx, func(r *vrng) string { t.K = kSlice; return "shape-array-slice" }})
		collect(t.Elem, ctx, out)
	case kMap:
		*out = append(*out, site{ctx, func(r *vrng) string { t.Key, t.Elem = t.Elem, t.Key; return "map-swap" }})
		collect(t.Key, ctx, out)
		collect(t.Elem, ctx, out)
	case kChan:
		*out = append(*out, site{ctx, func(r *vrng) string {
			t.Dir = (t.Dir + 1 + r.n(2)) % 3
			return "chan-dir"
		}})
		collect(t.Elem, ctx, out)
	case kFunc:
		c := ctx
		if c != "" {
			c = "targfb"
		}
		sigSites(c, &t.Params, &t.Results, &t.Variadic, out)
	case kStruct:
		c := ctx
		if c != "" {
			c = "targfb"
		}
		for i := range t.Fields {
			f := &t.Fields[i]
			*out = append(*out, site{c, func(r *vrng) string {
				if f.Emb {
					f.Name = f.Name + "Alias"
					return "field-embedded-alias"
				}
				for {
					nm := r.pick(vFNames)
					dup := false
					for _, g := range t.Fields {
						dup = dup || g.Name == nm
					}
					if !dup {
						f.Name = nm
						return "field-name"
					}
				}
			}})
			*out = append(*out, site{c, func(r *vrng) string {
				f.Tag = other(r, vTags, f.Tag)
				return "field-tag"
			}})
			*out = append(*out, site{c, func(r *vrng) string {
				f.Emb = !f.Emb
				return "field-embedded"
			}})
			*out = append(*out, site{c, func(r *vrng) string {
				// all fields of a struct type written in source belong to one package
				np := other(r, vPkgs, f.Pkg)
				anyUnexp := false
				for j := range t.Fields {
					t.Fields[j].Pkg = np
					anyUnexp = anyUnexp || !isExp(t.Fields[j].Name)
				}
				if anyUnexp {
					return "field-pkg"
				}
				return "field-pkg-exported-only"
			}})
			collect(f.T, c, out)
		}
		if len(t.Fields) >= 2 {
			*out = append(*out, site{c, func(r *vrng) string {
				t.Fields[0], t.Fields[1] = t.Fields[1], t.Fields[0]
				return "field-order"
			}})
		}
	case kIface:
		c := ctx
		if c != "" {
			c = "targfb"
		}
		for i := range t.Methods {
			m := &t.Methods[i]
			*out = append(*out, site{c, func(r *vrng) string {
				for {
					nm := r.pick(vMNames) + []string{"", "2"}[r.n(2)]
					dup := false
					for _, g := range t.Methods {
						dup = dup || g.Name == nm
					}
					if !dup {
						m.Name = nm
						sortMethods(t.Methods)
						return "method-name"
					}
				}
			}})
			*out = append(*out, site{c, func(r *vrng) string {
				np := other(r, vPkgs, m.Pkg)
				anyUnexp := false
				for j := range t.Methods {
					t.Methods[j].Pkg = np
					anyUnexp = anyUnexp || !isExp(t.Methods[j].Name)
				}
				if anyUnexp {
					return "method-pkg"
				}
				return "method-pkg-exported-only"
			}})
			sigSites(c, &m.Params, &m.Results, &m.Variadic, out)
		}
	}
}

// types whose names go through the types.TypeString fallback of typeArgString
// (func/struct/interface inside a type argument) are not rendered by the model
func hasFallback(t *vty, inTarg bool) bool {
	if t == nil {
		return false
	}
	switch t.K {
	case kFunc, kStruct, kIface:
		if inTarg {
			return true
		}
	}
	for _, a := range t.Targs {
		if hasFallback(a, true) {
			return true
		}
	}
	if hasFallback(t.Elem, inTarg) || hasFallback(t.Key, inTarg) {
		return true
	}
	for _, p := range t.Params {
		if hasFallback(p.T, inTarg) {
			return true
		}
	}
	for _, p := range t.Results {
		if hasFallback(p.T, inTarg) {
			return true
		}
	}
	for _, f := range t.Fields {
		if hasFallback(f.T, inTarg) {
			return true
		}
	}
	for _, m := range t.Methods {
		for _, p := range m.Params {
			if hasFallback(p.T, inTarg) {
				return true
			}
		}
		for _, p := range m.Results {
			if hasFallback(p.T, inTarg) {
				return true
			}
		}
	}
	return false
}

// ---------- directed near-miss pairs ----------

func bt(k int) *vty                 { return &vty{K: kBasic, Basic: k} }
func nt(pkg, name string) *vty      { return &vty{K: kNamed, HasPkg: true, Pkg: pkg, Name: name} }
func fld(pkg, name string, t *vty) vfield {
	return vfield{Name: name, Pkg: pkg, HasPkg: true, T: t}
}

type dpair struct {
	class string
	ctx   string
	a, b  *vty
}

func directed() []dpair {
	var out []dpair
	add := func(c string, a, b *vty) {
		ctx := ""
		if i := strings.Index(c, ":"); i >= 0 {
			ctx, c = c[:i], c[i+1:]
		}
		out = append(out, dpair{c, ctx, a, b})
	}
	st := func(fs ...vfield) *vty { return &vty{K: kStruct, Fields: fs} }
	fn := func(v bool, ps []vparam, rs []vparam) *vty { return &vty{K: kFunc, Params: ps, Results: rs, Variadic: v} }
	g1 := func(arg *vty) *vty { return &vty{K: kNamed, HasPkg: true, Pkg: "x/a", Name: "G", Targs: []*vty{arg}} }
	// F6: tags
	fa := fld("a", "A", bt(2))
	fb := fa
	fa.Tag, fb.Tag = "x", "y"
	add("field-tag", st(fa), st(fb))
	fb.Tag = ""
	add("field-tag", st(fa), st(fb))
	// embedded alias: struct{A} with A = T  vs  struct{T}
	ea := vfield{Name: "A", Emb: true, Pkg: "a", HasPkg: true, T: nt("a", "T")}
	eb := vfield{Name: "T", Emb: true, Pkg: "a", HasPkg: true, T: nt("a", "T")}
	add("field-embedded-alias", st(ea), st(eb))
	// embedded vs named field of the same name
	ec := vfield{Name: "T", Emb: false, Pkg: "a", HasPkg: true, T: nt("a", "T")}
	add("field-embedded", st(ec), st(eb))
	// package of an unexported field
	add("field-pkg", st(fld("a", "x", bt(2))), st(fld("x/a", "x", bt(2))))
	add("field-pkg-exported-only", st(fld("a", "X", bt(2))), st(fld("x/a", "X", bt(2))))
	// second unexported field from another package (go/types API only)
	add("field-pkg-second", st(fld("a", "x", bt(2)), fld("x/a", "y", bt(2))), st(fld("a", "x", bt(2)), fld("x/b", "y", bt(2))))
	// blank fields of different packages
	add("field-pkg", st(fld("a", "_", bt(2))), st(fld("x/a", "_", bt(2))))
	// field name / order
	add("field-name", st(fld("a", "A", bt(2))), st(fld("a", "B", bt(2))))
	add("field-order", st(fld("a", "A", bt(2)), fld("a", "B", bt(2))), st(fld("a", "B", bt(2)), fld("a", "A", bt(2))))
	// field count vs text: struct{A int; B int} vs struct{A int} ...
	add("field-count", st(fld("a", "A", bt(2)), fld("a", "B", bt(2))), st(fld("a", "A", bt(2))))
	// variadic
	sl := &vty{K: kSlice, Elem: bt(2)}
	add("func-variadic", fn(true, []vparam{{"", sl}}, nil), fn(false, []vparam{{"", sl}}, nil))
	add("func-param-vs-result", fn(false, []vparam{{"", bt(2)}}, nil), fn(false, nil, []vparam{{"", bt(2)}}))
	add("func-param-name", fn(false, []vparam{{"x", bt(2)}}, nil), fn(false, []vparam{{"y", bt(2)}}, nil))
	// chan direction, nesting
	for d1 := 0; d1 < 3; d1++ {
		for d2 := 0; d2 < 3; d2++ {
			if d1 != d2 {
				add("chan-dir", &vty{K: kChan, Dir: d1, Elem: bt(2)}, &vty{K: kChan, Dir: d2, Elem: bt(2)})
				add("chan-dir", g1(&vty{K: kChan, Dir: d1, Elem: bt(2)}), g1(&vty{K: kChan, Dir: d2, Elem: bt(2)}))
			}
		}
	}
	// chan (<-chan int)  vs  (chan<-) chan int ; chan<- (<-chan int) ...
	ch := func(d int, e *vty) *vty { return &vty{K: kChan, Dir: d, Elem: e} }
	add("chan-nest", ch(0, ch(2, bt(2))), ch(1, ch(0, bt(2))))
	add("chan-nest", g1(ch(0, ch(2, bt(2)))), g1(ch(1, ch(0, bt(2)))))
	add("chan-nest", g1(ch(0, ch(2, bt(2)))), g1(ch(2, ch(0, bt(2)))))
	// array lengths
	for _, p := range [][2]int64{{0, 1}, {1, 10}, {1, 11}, {255, 256}, {1 << 31, 1<<31 + 1}, {10, 100}} {
		add("array-len", &vty{K: kArray, N: p[0], Elem: bt(2)}, &vty{K: kArray, N: p[1], Elem: bt(2)})
		add("array-len", g1(&vty{K: kArray, N: p[0], Elem: bt(2)}), g1(&vty{K: kArray, N: p[1], Elem: bt(2)}))
	}
	// [1][0]int vs [10]int ; [1]int8 vs [18]int? (digits gluing)
	add("array-nest", &vty{K: kArray, N: 1, Elem: &vty{K: kArray, N: 0, Elem: bt(2)}}, &vty{K: kArray, N: 10, Elem: bt(2)})
	// type arguments
	add("targ", g1(bt(2)), g1(bt(6)))
	add("targ", g1(nt("x/a", "T")), g1(nt("x/b", "T")))
	add("targ:basic-alias", g1(&vty{K: kBasic, Basic: 8, Alias: true}), g1(bt(8)))
	add("targ:basic-alias", g1(&vty{K: kBasic, Basic: 5, Alias: true}), g1(bt(5)))
	add("targfb:func-param-name", g1(fn(false, []vparam{{"x", bt(2)}}, nil)), g1(fn(false, []vparam{{"y", bt(2)}}, nil)))
	add("targfb:field-tag", g1(st(fa)), g1(st(fb)))
	add("targfb:field-embedded-alias", g1(st(ea)), g1(st(eb)))
	add("basic-alias", &vty{K: kSlice, Elem: &vty{K: kBasic, Basic: 8, Alias: true}}, &vty{K: kSlice, Elem: bt(8)})
	g2 := func(name string, args ...*vty) *vty {
		return &vty{K: kNamed, HasPkg: true, Pkg: "x/a", Name: name, Targs: args}
	}
	// G2[A,B] with map args: G2[map[int]int,int] vs G1[map[int]G...]: comma / bracket structure
	mp := func(k, e *vty) *vty { return &vty{K: kMap, Key: k, Elem: e} }
	add("targ-structure", g2("H", mp(bt(2), bt(2)), bt(2)), g2("H", bt(2), mp(bt(2), bt(2))))
	add("targ-structure", g2("H", g2("H", bt(2), bt(2)), bt(2)), g2("H", bt(2), g2("H", bt(2), bt(2))))
	// local scopes
	l1 := nt("x/a", "T")
	l1.ScKind, l1.ScIds = 1, []int{0, 0}
	l2 := nt("x/a", "T")
	l2.ScKind, l2.ScIds = 1, []int{1, 0}
	l3 := nt("x/a", "T")
	l3.ScKind, l3.ScIds = 1, []int{0, 1}
	l4 := nt("x/a", "T")
	l4.ScKind, l4.ScIds = 1, []int{10}
	l5 := nt("x/a", "T")
	l5.ScKind, l5.ScIds = 1, []int{1, 0, 0}
	add("named-scope", l1, l2)
	add("named-scope", l1, l3)
	add("named-scope", l2, l3)
	add("named-scope", l2, l5)
	add("named-scope", l1, nt("x/a", "T"))
	add("named-scope", g1(l1), g1(l2))
	add("named-scope", g1(l4), g1(l2))
	// F10-like: path x/a.b type T  vs  path x/a type ... (no collision expected for types)
	add("named-pkg", nt("x/a.b", "T"), nt("x/a", "T"))
	p5 := nt("x/a", "T")
	p5.ScKind, p5.ScPos = 2, 5
	add("named-scope-pos-vs-dotted-path", p5, nt("x/a.T", "p5"))
	add("named-patchpath", nt("os", "T"), nt(PatchPathPrefix+"os", "T"))
	// interfaces
	m := func(pkg, name string) vmeth { return vmeth{Name: name, Pkg: pkg, HasPkg: true} }
	it := func(ms ...vmeth) *vty { sortMethods(ms); return &vty{K: kIface, Methods: ms} }
	add("method-pkg", it(m("a", "m")), it(m("x/a", "m")))
	add("method-pkg-exported-only", it(m("a", "M")), it(m("x/a", "M")))
	add("method-pkg-second", it(m("a", "m"), m("x/a", "n")), it(m("a", "m"), m("x/b", "n")))
	add("method-name", it(m("a", "M")), it(m("a", "N")))
	add("method-count", it(m("a", "M"), m("a", "N")), it(m("a", "M")))
	add("iface-empty", it(), it(m("a", "M")))
	// closure representation
	clo := func(sig *vty) *vty {
		return st(vfield{Name: "$f", T: sig}, vfield{Name: "$data", T: bt(18)})
	}
	sg := fn(false, []vparam{{"", bt(2)}}, nil)
	add("closure-vs-func", clo(sg), sg)
	add("closure-param-vs-func-param", fn(false, []vparam{{"", clo(sg)}}, nil), fn(false, []vparam{{"", sg}}, nil))
	add("closure-sig", clo(sg), clo(fn(false, []vparam{{"", bt(6)}}, nil)))
	return out
}

// ---------- the test ----------

type vrec struct {
	Kind  string `json:"kind"`
	Class string `json:"class,omitempty"`
	Coq   string `json:"coq,omitempty"`
	Name  string `json:"name,omitempty"`
	Pub   bool   `json:"pub"`
	Model bool   `json:"model"`
	A     string `json:"a,omitempty"`
	B     string `json:"b,omitempty"`
	NA    string `json:"na,omitempty"`
	NB    string `json:"nb,omitempty"`
	Ident bool   `json:"ident"`
	Same  bool   `json:"same"`
	Key   string `json:"key,omitempty"`
	What  string `json:"what,omitempty"`
	GoA   string `json:"go_a,omitempty"`
	GoB   string `json:"go_b,omitempty"`
}

func TestVerif(t *testing.T) {
	seed, _ := strconv.ParseUint(os.Getenv("VERIF_SEED"), 10, 64)
	n, _ := strconv.Atoi(os.Getenv("VERIF_N"))
	if n == 0 {
		n = 1000
	}
	f, err := os.Create(os.Getenv("VERIF_OUT"))
	if err != nil {
		t.Fatal(err)
	}
	defer f.Close()
	enc := json.NewEncoder(f)
	enc.SetEscapeHTML(false)
	r := &vrng{s: seed*7919 + 7}
	g := &gen{r}
	b := New(8, types.SizesFor("gc", "amd64"))

	emitName := func(v *vty, ty types.Type, class string) string {
		name, pub := b.TypeName(ty)
		enc.Encode(vrec{Kind: "name", Class: class, Coq: v.coq(), Name: name, Pub: pub, Model: !hasFallback(v, false)})
		return name
	}
	// by design: a patched package and the package it replaces are one package
	// closure-param-vs-func-param: PublicType maps llgo's internal closure record (fields $f,$data; not a
	// source type) to its func type on purpose.  field-pkg-second: unexported fields of two packages in one
	// struct cannot be written in source (go/types API only); the name keeps only the first package.
	normPatch := func(c string) bool {
		return c == "named-patchpath" || c == "closure-param-vs-func-param" || c == "field-pkg-second"
	}

	pair := func(class, ctx string, va, vb *vty) {
		w := newWorld()
		var ta, tb types.Type
		func() {
			defer func() {
				if e := recover(); e != nil {
					ta, tb = nil, nil
				}
			}()
			ta = w.conv(va)
			tb = w.conv(vb)
		}()
		if ta == nil || tb == nil {
			return // generator produced something go/types refuses (duplicate names): skip
		}
		na := emitName(va, ta, class)
		nb := emitName(vb, tb, class)
		ident := types.Identical(ta, tb)
		same := na == nb
		model := !hasFallback(va, false) && !hasFallback(vb, false)
		full := class
		if ctx != "" {
			full = ctx + "-" + class
		}
		enc.Encode(vrec{Kind: "pair", Class: full, A: va.coq(), B: vb.coq(), NA: na, NB: nb, Ident: ident, Same: same, Model: model})
		want := ident
		if normPatch(class) {
			want = same
		}
		if same != want {
			dirn := "merged" // distinct types, one descriptor
			if !same {
				dirn = "split" // one type, two descriptors
			}
			enc.Encode(vrec{Kind: "viol", Key: "typename-" + full + "-" + dirn,
				What:  fmt.Sprintf("TypeName equal=%v but types.Identical=%v", same, ident),
				Class: full, A: va.coq(), B: vb.coq(), NA: na, NB: nb, GoA: ta.String(), GoB: tb.String()})
		}
	}

	defer func() {
		if orderBug != "" {
			t.Fatal("harness bug: " + orderBug)
		}
	}()
	// 1. directed near-miss pairs
	for _, d := range directed() {
		pair(d.class, d.ctx, d.a, d.b)
	}
	// 2. random types: copy pairs, single-attribute mutations, unrelated pairs
	for i := 0; i < n; i++ {
		d := 1 + r.n(3)
		va := g.typ(d, false)
		switch i % 8 {
		case 0:
			pair("copy", "", va, va.clone())
		case 1:
			pair("unrelated", "", va, g.typ(d, false))
		default:
			vb := va.clone()
			var sites []site
			collect(vb, "", &sites)
			if len(sites) == 0 {
				continue
			}
			for try := 0; try < 8; try++ {
				s := sites[r.n(len(sites))]
				if c := s.apply(r); c != "" {
					pair(c, s.ctx, va, vb)
					break
				}
			}
		}
	}
}
