"""C05 - slices and strings: append, copy, slicing, iteration and conversion semantics."""
import json, os, re, shutil, sys, time, collections
import vlib
from vlib import coq_list

H = os.path.join(os.path.dirname(os.path.abspath(__file__)), "harness")
RT = "runtime/internal/runtime"
SRC = ["z_slice.go", "z_string.go", "utf8.go"]
MOD = "github.com/goplus/llgo/runtime/xverif/c05"


def make_module(ck):
    """scratch module that compiles llgo's own z_slice.go / z_string.go / utf8.go
    (text taken from the working tree now) with the ordinary Go compiler"""
    d = os.path.join(ck.work, "c05mod")
    os.makedirs(os.path.join(d, "rt"))
    os.makedirs(os.path.join(d, "clite"))
    rrt = os.path.join(vlib.REPO, "runtime")
    open(os.path.join(d, "go.mod"), "w").write(
        "module %s\n\ngo 1.21\n\nrequire github.com/goplus/llgo/runtime v0.0.0\n\n"
        "replace github.com/goplus/llgo/runtime => %s\n" % (MOD, rrt))
    for cand in (os.path.join(rrt, "go.sum"), os.path.join(vlib.REPO, "go.sum")):
        if os.path.exists(cand):
            shutil.copy(cand, os.path.join(d, "go.sum"))
            break
    for f in SRC:
        s = open(os.path.join(vlib.REPO, RT, f)).read()
        # purely syntactic: package clause and the import path of the clite stand-in
        s, n = re.subn(r"(?m)^package runtime\s*$", "package rt", s, count=1)
        if n != 1:
            raise RuntimeError("no package clause in " + f)
        s = s.replace('"github.com/goplus/llgo/runtime/internal/clite"', '"%s/clite"' % MOD)
        open(os.path.join(d, "rt", f), "w").write(s)
    shutil.copy(os.path.join(H, "clite.go"), os.path.join(d, "clite", "c.go"))
    shutil.copy(os.path.join(H, "stubs.go"), os.path.join(d, "rt", "zz_stubs.go"))
    for f in os.listdir(H):
        if f.endswith("_test.go"):
            shutil.copy(os.path.join(H, f), os.path.join(d, "rt", f))
    return d


def e2e_probe(ck):
    """(E) the probe program compiled by llgo built from the working tree vs go, line by line.
    Runs in a worker thread; returns a list of (kind, args) to be applied by the caller."""
    import e2e
    acts = []
    L = e2e.LLGo(ck)
    if not L.ok:
        return [("log", "e2e: llgo could not be built, probe skipped: " + L.buildlog[-400:]), ("cov", "skipped: llgo build failed")]
    d = os.path.join(ck.work, "c05e2e")
    e2e.write_module(d, {"main.go": open(os.path.join(H, "e2e", "main.go.txt")).read()}, "c05e2e")
    rc, out = L.build(d, os.path.join(d, "prog_llgo"))
    if rc != 0:
        return [("broken", ("e2e-llgo-build", out[-1500:]))]
    rc1, _, got = L.run_bin(os.path.join(d, "prog_llgo"))
    rc, out = e2e.go_build(d, os.path.join(d, "prog_go"))
    rc2, _, want = e2e.run_plain(os.path.join(d, "prog_go"))
    if rc != 0 or rc2 != 0:
        return [("log", "e2e: reference build failed " + out[-400:]), ("cov", "skipped: reference build failed")]
    gl, wl = got.strip().split("\n"), want.strip().split("\n")
    if rc1 != 0 or len(gl) != len(wl):
        return [("viol", ("e2e-run", "llgo-compiled probe exit %d, %d lines (go: %d)" % (rc1, len(gl), len(wl)),
                          {"stderr_tail": got[-800:]}))]
    ndiff = 0
    for a, b in zip(gl, wl):
        if a != b:
            ndiff += 1
            tag = b.split(" ")[0]
            if tag in ("Z1", "Z2", "Z3", "Z4"):       # len after append of zero-size elements (F2, repaired by fix 01)
                acts.append(("viol", ("append-zero-size-elem-unchanged", "end to end: llgo prints %r, go prints %r" % (a, b), {"llgo": a, "go": b})))
            else:
                acts.append(("viol", ("e2e-" + tag, "llgo prints %r, go prints %r" % (a, b), {"llgo": a, "go": b})))
    acts.append(("cov", "%d lines compared, %d differ" % (len(wl), ndiff)))
    acts.append(("count", len(wl)))
    return acts


def z(x):
    return str(x) if x >= 0 else "(%d)" % x


def zl(xs):
    return "[" + ";".join(z(x) for x in (xs or [])) + "]"


def zll(xss):
    return "[" + ";".join(zl(x) for x in (xss or [])) + "]"


def op_term(o):
    k = o["k"]
    d, s, t = ("%d%%nat" % o[x] for x in ("d", "s", "t"))
    if k == "make":
        return "OMake %s %s %s" % (d, z(o["a"]), z(o["b"]))
    if k == "set":
        return "OSet %s %s %s" % (s, z(o["a"]), zl(o["data"]))
    if k == "appv":
        return "OAppV %s %s %s %s" % (d, s, z(o["a"]), zl(o["data"]))
    if k == "apps":
        return "OAppS %s %s %s" % (d, s, t)
    if k == "copy":
        return "OCopy %s %s" % (d, t)
    if k == "res":
        return "ORes %s %s %s %s %s" % (d, s, z(o["a"]), z(o["b"]), z(o["c"]))
    if k == "clear":
        return "OClear %s" % s
    raise ValueError(k)


def signed64(x):
    x &= (1 << 64) - 1
    return x - (1 << 64) if x >= 1 << 63 else x


def run(ck):
    ck.trusted = ["Coq 8.16.1 kernel (coqc, vm_compute)",
                  "Go 1.24 compiler and its native slice/string semantics (the oracle for Go behaviour)",
                  "stand-in packages props/C05/harness/{clite.go,stubs.go}: Memcpy/Memmove/Memset/Advance/AllocZ/AllocU on real memory with a block registry",
                  "hand-written models coq/theories/C05/{Model,StrModel}.v tied to the source text by the correspondence run"]
    ck.assumptions = ["z_slice.go, z_string.go, utf8.go are compiled by the ordinary Go compiler (S2); the code llgo generates for them is exercised only by the small end-to-end probe props/C05/harness/e2e (when it finishes in time)",
                      "the stand-in memcpy has memmove semantics (glibc x86-64) and reports every call on partially overlapping ranges as a fault; SliceAppend itself now copies with memmove",
                      "len/cap/offset arithmetic is modelled on unbounded Z except nextslicecap (64-bit wrap modelled); append of more than 2^63 bytes is out of scope"]
    ck.coq_build("C05")
    ck.coq_props("LLGoV.C05.Props", "theories/C05/Props.v")

    n = {"quick": 300, "thorough": 4000}[ck.tier]
    # (E) runs beside the rest in a daemon thread; in the quick tier it is dropped (never a
    # verdict) when the machine is so loaded that it has not finished shortly after the rest
    e2e_box, e2e_thr = [], None
    if os.environ.get("VERIF_C05_E2E", "1") != "0":
        import threading

        def _e2e():
            try:
                e2e_box.append(e2e_probe(ck))
            except Exception as e:
                e2e_box.append([("log", "e2e probe failed to run: %r" % (e,)), ("cov", "skipped: %r" % (e,))])
        e2e_thr = threading.Thread(target=_e2e, daemon=True)
        e2e_thr.start()
    try:
        mod = make_module(ck)
    except Exception as e:          # an anchored file is missing or has no package clause
        ck.correspondence_broken("scratch-module", repr(e))
        return ck.finish()
    out = os.path.join(ck.work, "c05.jsonl")
    rc, log = vlib.sh(["go", "test", "-vet=off", "-count=1", "-run", "TestVerif", "-timeout", "1500s", "./rt"], cwd=mod,
                      env=vlib.goenv({"VERIF_OUT": out, "VERIF_SEED": str(ck.seed), "VERIF_N": str(n), "VERIF_TIER": ck.tier}),
                      timeout=1600)
    if rc != 0 or not os.path.exists(out):
        ck.correspondence_broken("harness", log[-2500:])
        return ck.finish()
    recs = collections.defaultdict(list)
    for line in open(out):
        r = json.loads(line)
        recs[r["kind"]].append(r)

    # property-level oracle results from the implementation
    for v in recs["viol"]:
        ck.violation(v["key"], v.get("what", ""), v)

    total = 0
    timing = {}
    hdr = "From LLGoV Require Import C05.Model C05.StrModel.\nLocal Open Scope Z_scope.\n"
    sl, cp, s1, s2 = recs["slice"], recs["cap"], recs["str1"], recs["str2"]
    en, fi, fr = recs["enc"], recs["fromint"], recs["frunes"]
    jobs = [
        ("slice", ["((%s, [%s]), (%s, %s))" % (z(r["es"]), "; ".join(op_term(o) for o in r.get("ops", [])), zll(r.get("obs")), zll(r.get("heap")))
                   for r in sl], "run_script", "script_eqb", sl, 40),
        ("cap", ["((%s, %s), %s)" % (z(r["in"][0]), z(r["in"][1]), z(r["out"][0])) for r in cp], "cap_case", "Z.eqb", cp, 500),
        ("str1", ["(%s, %s)" % (zl(r["s"]), zll(r["outs"])) for r in s1], "str1_model", "zll_eqb", s1, 500),
        ("str2", ["(((%s, %s), (%s, %s)), %s)" % (zl(r["s"]), zl(r["t"]), z(r["i"]), z(r["j"]), zll(r["outs"])) for r in s2],
         "str2_model", "zll_eqb", s2, 500),
        ("enc", ["(%s, %s)" % (z(r["i"]), zll(r["outs"])) for r in en], "enc_model", "zll_eqb", en, 1000),
        ("fromint", ["(%s, %s)" % (z(r["i"]), zll(r["outs"])) for r in fi], "fromint_model", "zll_eqb", fi, 1000),
        ("frunes", ["(%s, %s)" % (zl(r["s"]), zll(r["outs"])) for r in fr], "frunes_model", "zll_eqb", fr, 1000),
    ]

    def compare(job):
        kind, terms, model, eqb, raw, shard = job
        if not terms:
            return kind, 0, None, 0.0
        t0 = time.time()
        bad = ck.coq_mismatches(hdr, terms, model, eqb, "c05_" + kind, shard=shard)
        return kind, len(terms), bad, round(time.time() - t0, 1)

    from concurrent.futures import ThreadPoolExecutor as TPE
    with TPE(len(jobs) if ck.tier == "quick" else 2) as ex:   # thorough: at most 2 x 16 coqc at a time
        results = list(ex.map(compare, jobs))
    for (kind, nterms, bad, dt), job in zip(results, jobs):
        total += nterms
        timing[kind] = (nterms, dt)
        if bad is None:
            ck.correspondence_broken("C05/" + kind, "no cases produced")
        elif bad:
            ck.correspondence_broken("C05.Model/" + kind, {"n_mismatch": len(bad), "first": job[4][bad[0]]})

    if e2e_thr is not None:
        e2e_thr.join(float(os.environ.get("VERIF_C05_E2E_WAIT") or (1500 if ck.tier == "thorough" else 25)))
        acts = e2e_box[0] if e2e_box else [("log", "e2e probe not finished in time (machine loaded): dropped from this run"),
                                            ("cov", "dropped: not finished in time")]
        for kind, a in acts:
            if kind == "log":
                ck.log(a)
            elif kind == "cov":
                ck.cov["e2e"] = a
            elif kind == "broken":
                ck.correspondence_broken(*a)
            elif kind == "viol":
                ck.violation(*a)
            elif kind == "count":
                total += a

    classes = collections.Counter()
    nops = 0
    for r in sl:
        fl, fs = r["class"].split(":")
        nops += len(r.get("ops", []))
        classes["slice-es%d" % r["es"]] += 1
        for f in fs.split(","):
            if f:
                classes["slice:" + fl + ":" + f] += 1
    for k in ("str1", "str2"):
        for r in recs[k]:
            classes[k + ":" + r.get("class", "")] += 1
    for k in ("cap", "enc", "fromint", "frunes"):
        classes[k] = len(recs[k])
    classes["slice-ops"] = nops
    distinct = len({json.dumps(r.get("ops")) for r in sl if len(r.get("ops", [])) > 2}) + \
        len({tuple(r["s"]) for r in s1 if len(r["s"]) > 1}) + len({(tuple(r["s"]), tuple(r["t"]), r["i"], r["j"]) for r in s2})
    samples = []
    if sl:
        r = sl[len(sl) // 3]
        samples.append({"slice": {"es": r["es"], "ops": r["ops"][:6], "obs": r["obs"][:6]}})
    if s1:
        r = s1[len(s1) // 2]
        samples.append({"str1": {"s": r["s"], "outs": r["outs"]}})
    if s2:
        r = s2[len(s2) // 2]
        samples.append({"str2": {k: r[k] for k in ("s", "t", "i", "j", "outs")}})
    ck.cov["timing_s"] = timing
    ck.add_cov(evaluations=total, nontrivial=distinct, samples=samples, classes=dict(classes))
    ck.cov["rule"] = ("slices: random scripts (make/set/append values/append slice/copy/reslice/clear, 4 variables, element sizes 0,1,2,3,8,24, "
                      "aliasing idioms insert/delete/overlapping copy, lengths around the 256 growth threshold, out-of-range indexes) run on llgo's "
                      "z_slice.go over registered real memory, mirrored step by step on native Go slices (len, cap, whole window, sharing relation) and "
                      "replayed in the Coq model (block id, offset, len, cap, overlap flag per step, final contents of every block); nextslicecap on a "
                      "boundary grid up to 2^63-1. strings: every byte string of length <= 3 (thorough: <= 4) over 27 lead/continuation boundary bytes "
                      "plus random longer valid/invalid mixtures through decoderune at every index, range iteration, []rune/[]byte conversions, "
                      "concatenation, comparison, slicing, integer conversions - each against Go itself and (a recorded part) against the Coq model")
    return ck.finish()
