package rt

// C05 harness, slice part.  Copied by props/C05/check.py into a scratch module
// next to llgo's own z_slice.go (package clause rewritten to rt); not part of the
// repository.  It drives SliceAppend / SliceCopy / NewSlice3 / MakeSlice /
// SliceClear / nextslicecap on real memory with random scripts, mirrors every
// script with native Go slices (the oracle for Go semantics is Go itself) and
// writes one JSON record per script for the comparison with the Coq model.

import (
	"encoding/json"
	"fmt"
	"os"
	"strconv"
	"strings"
	"testing"
	"unsafe"

	"github.com/goplus/llgo/runtime/abi"
	c "github.com/goplus/llgo/runtime/xverif/c05/clite"
)

type vrng struct{ s uint64 }

func (r *vrng) next() uint64 {
	r.s += 0x9e3779b97f4a7c15
	z := r.s
	z = (z ^ (z >> 30)) * 0xbf58476d1ce4e5b9
	z = (z ^ (z >> 27)) * 0x94d049bb133111eb
	return z ^ (z >> 31)
}
func (r *vrng) n(k int) int { return int(r.next() % uint64(k)) }
func (r *vrng) pick(xs []int) int { return xs[r.n(len(xs))] }

type vop struct {
	K    string `json:"k"` // make set appv apps copy res clear
	D    int    `json:"d"`
	S    int    `json:"s"`
	T    int    `json:"t"`
	A    int    `json:"a"`
	B    int    `json:"b"`
	C    int    `json:"c"`
	Data []int  `json:"data"`
}

type vrec struct {
	Kind  string    `json:"kind"`
	Class string    `json:"class,omitempty"`
	Es    int       `json:"es"`
	Ops   []vop     `json:"ops,omitempty"`
	Obs   [][]int64 `json:"obs,omitempty"`
	Heap  [][]int   `json:"heap,omitempty"`
	Key   string    `json:"key,omitempty"`
	What  string    `json:"what,omitempty"`
	In    []int64   `json:"in,omitempty"`
	Out   []int64   `json:"out,omitempty"`
}

var venc *json.Encoder

func vemit(r any) { venc.Encode(r) }

const nvars = 4

// ---------------------------------------------------------------------------
// native mirror, generic in the element type ([es]byte)

type mirror interface {
	mk(d, l, cp int) (panicked string)
	set(s, i int, b []byte)
	appv(d, s int, data []byte, n int) (fresh bool)
	apps(d, s, t int) (fresh bool)
	cpy(d, t int) int
	res(d, s, i, j, k int) (panicked bool)
	clr(s int)
	length(s int) int
	capacity(s int) int
	window(s int) []byte
	nid(s int) int
	renew(d int, l, cp int, freshID bool) // after a fresh append: same contents, capacity cp
	resync(d int, l, cp int)             // give up on contents: zero slice with the real len/cap
}

type nat[T any] struct {
	es   int
	v    [nvars][]T
	id   [nvars]int
	next int
}

func (m *nat[T]) elem(b []byte) (x T) {
	if m.es > 0 {
		copy(unsafe.Slice((*byte)(unsafe.Pointer(&x)), m.es), b)
	}
	return
}

func (m *nat[T]) mk(d, l, cp int) (p string) {
	defer func() {
		if e := recover(); e != nil {
			p = fmt.Sprint(e)
		}
	}()
	m.v[d] = make([]T, l, cp)
	m.next++
	m.id[d] = m.next
	return ""
}
func (m *nat[T]) set(s, i int, b []byte) { m.v[s][i] = m.elem(b) }
func (m *nat[T]) appv(d, s int, data []byte, n int) bool {
	vals := make([]T, n)
	for i := range vals {
		if m.es > 0 {
			vals[i] = m.elem(data[i*m.es:])
		}
	}
	old := m.v[s]
	r := append(old, vals...)
	fresh := len(old)+n > cap(old)
	m.v[d], m.id[d] = r, m.id[s]
	return fresh
}
func (m *nat[T]) apps(d, s, t int) bool {
	old := m.v[s]
	n := len(m.v[t])
	r := append(old, m.v[t]...)
	fresh := len(old)+n > cap(old)
	m.v[d], m.id[d] = r, m.id[s]
	return fresh
}
func (m *nat[T]) cpy(d, t int) int { return copy(m.v[d], m.v[t]) }
func (m *nat[T]) res(d, s, i, j, k int) (p bool) {
	defer func() {
		if e := recover(); e != nil {
			p = true
		}
	}()
	r := m.v[s][i:j:k]
	m.v[d], m.id[d] = r, m.id[s]
	return false
}
func (m *nat[T]) clr(s int)          { clear(m.v[s]) }
func (m *nat[T]) length(s int) int   { return len(m.v[s]) }
func (m *nat[T]) capacity(s int) int { return cap(m.v[s]) }
func (m *nat[T]) nid(s int) int      { return m.id[s] }
func (m *nat[T]) window(s int) []byte {
	x := m.v[s]
	if cap(x) == 0 || m.es == 0 {
		return nil
	}
	x = x[:cap(x)]
	return unsafe.Slice((*byte)(unsafe.Pointer(&x[0])), cap(x)*m.es)
}
func (m *nat[T]) renew(d int, l, cp int, freshID bool) {
	nr := make([]T, l, cp)
	copy(nr, m.v[d])
	m.v[d] = nr
	if freshID {
		m.next++
		m.id[d] = m.next
	}
}
func (m *nat[T]) resync(d int, l, cp int) {
	m.v[d] = make([]T, l, cp)
	m.next++
	m.id[d] = m.next
}

func newMirror(es int) mirror {
	switch es {
	case 0:
		return &nat[[0]byte]{es: es}
	case 1:
		return &nat[[1]byte]{es: es}
	case 2:
		return &nat[[2]byte]{es: es}
	case 3:
		return &nat[[3]byte]{es: es}
	case 8:
		return &nat[[8]byte]{es: es}
	case 24:
		return &nat[[24]byte]{es: es}
	}
	panic("es")
}

// ---------------------------------------------------------------------------
// the real thing

type realSt struct {
	es int
	v  [nvars]Slice
}

func (st *realSt) window(s int) ([]byte, bool) {
	x := st.v[s]
	n := uintptr(x.cap * st.es)
	if x.cap < 0 || x.len < 0 || x.len > x.cap {
		return nil, false
	}
	if n == 0 {
		return nil, true
	}
	if id, _ := c.Locate(x.data); id <= 0 || !c.Inside(x.data, n) {
		return nil, false
	}
	return unsafe.Slice((*byte)(x.data), n), true
}

// what a call did: a slice result, a panic, a count
type outcome struct {
	sl     Slice
	isPan  bool
	pan    []int64 // code, x, y
	panMsg string
	n      int
}

func guard(f func(o *outcome)) (o outcome) {
	defer func() {
		if e := recover(); e != nil {
			o.isPan = true
			switch b := e.(type) {
			case boundsError:
				o.pan = []int64{int64(b.code), b.x, int64(b.y)}
			case errorString:
				o.panMsg = string(b)
				code := int64(199)
				if strings.Contains(o.panMsg, "len out of range") {
					code = 100
				} else if strings.Contains(o.panMsg, "cap out of range") {
					code = 101
				}
				o.pan = []int64{code, 0, 0}
			default:
				o.panMsg = fmt.Sprint(e)
				o.pan = []int64{198, 0, 0}
			}
		}
	}()
	f(&o)
	return
}

func bytesEq(a, b []byte) bool {
	if len(a) != len(b) {
		return false
	}
	for i := range a {
		if a[i] != b[i] {
			return false
		}
	}
	return true
}

func ints(b []byte) []int {
	o := make([]int, len(b))
	for i, x := range b {
		o[i] = int(x)
	}
	return o
}

// runScript generates and runs one script.  Generation looks at the current
// real state so that most operations are valid and aliasing is frequent.
func runScript(r *vrng, es int, nops int, flavour string, fixed []vop) {
	c.Reset()
	c.Strict = true
	st := &realSt{es: es}
	m := newMirror(es)
	rec := vrec{Kind: "slice", Es: es, Class: flavour, Obs: [][]int64{}, Heap: [][]int{}}
	feat := map[string]bool{}
	styp := &abi.SliceType{Elem: &abi.Type{Size_: uintptr(es)}}

	viol := func(key, what string) {
		vemit(vrec{Kind: "viol", Key: key, What: what, Es: es, Ops: rec.Ops, Class: flavour})
	}
	randData := func(n int) []byte {
		b := make([]byte, n)
		for i := range b {
			b[i] = byte(1 + r.n(255))
		}
		return b
	}
	smallCaps := []int{0, 1, 2, 3, 4, 5, 8}
	bigCaps := []int{127, 128, 255, 256, 257, 300, 511, 512, 513}

	diverged := false
	pending := fixed
	for step := 0; (step < nops || len(pending) > 0) && !diverged; step++ {
		var op vop
		p := r.n(100)
		if step == 0 && fixed == nil {
			p = 0
		}
		d, s, t := r.n(nvars), r.n(nvars), r.n(nvars)
		if len(pending) > 0 {
			p = 1000
		} else if q := r.n(100); q < 16 && step > 0 {
			// aliasing idioms on a variable with at least two elements
			x := -1
			for try := 0; try < 6 && x < 0; try++ {
				if y := r.n(nvars); st.v[y].len >= 2 {
					x = y
				}
			}
			if x >= 0 {
				l, cp := st.v[x].len, st.v[x].cap
				i := r.n(l)
				d1, d2 := (x+1)%nvars, (x+2)%nvars
				switch r.n(5) {
				case 0: // insert: append(x[:i+1], x[i:]...)
					pending = []vop{{K: "res", D: d1, S: x, A: 0, B: i + 1, C: cp}, {K: "res", D: d2, S: x, A: i, B: l, C: cp}, {K: "apps", D: r.n(nvars), S: d1, T: d2}}
				case 1: // delete: append(x[:i], x[i+1:]...)
					pending = []vop{{K: "res", D: d1, S: x, A: 0, B: i, C: cp}, {K: "res", D: d2, S: x, A: i + 1, B: l, C: cp}, {K: "apps", D: r.n(nvars), S: d1, T: d2}}
				case 2: // copy(x[1:], x)
					pending = []vop{{K: "res", D: d1, S: x, A: 1 + r.n(l-1), B: l, C: cp}, {K: "copy", D: d1, T: x}}
				case 3: // copy(x, x[1:])
					pending = []vop{{K: "res", D: d1, S: x, A: 1 + r.n(l-1), B: l, C: cp}, {K: "copy", D: x, T: d1}}
				default: // append(x[:i], x...) may or may not fit
					pending = []vop{{K: "res", D: d1, S: x, A: 0, B: i, C: cp}, {K: "apps", D: d2, S: d1, T: x}}
				}
				p = 1000
			}
		}
		// prefer sources that are not nil
		for try := 0; try < 3 && st.v[s].cap == 0; try++ {
			s = r.n(nvars)
		}
		switch {
		case p == 1000:
			op = pending[0]
			pending = pending[1:]
		case p < 9:
			op = vop{K: "make", D: d}
			q := r.n(100)
			switch {
			case q < 8: // invalid
				switch r.n(4) {
				case 0:
					op.A, op.B = 3, 2
				case 1:
					op.A, op.B = -1, 4
				case 2:
					op.A, op.B = 0, -1
				default:
					op.A, op.B = -2, -3
				}
			case es <= 8 && ((flavour == "thresh" && q < 70) || q < 14):
				op.B = r.pick(bigCaps)
				op.A = []int{op.B, op.B - 1, op.B / 2, 0}[r.n(4)]
			default:
				op.B = r.pick(smallCaps)
				op.A = r.n(op.B + 1)
			}
		case p < 20:
			if es == 0 || st.v[s].len == 0 {
				continue
			}
			op = vop{K: "set", S: s, A: r.n(st.v[s].len), Data: ints(randData(es))}
		case p < 46:
			op = vop{K: "appv", D: d, S: s}
			room := st.v[s].cap - st.v[s].len
			var n int
			switch r.n(10) {
			case 0:
				n = 0
			case 1, 2, 3:
				n = 1
			case 4:
				n = room
			case 5:
				n = room + 1
			case 6:
				n = 2*st.v[s].cap - st.v[s].len // newLen == doublecap
			case 7:
				n = 2*st.v[s].cap - st.v[s].len + 1 // newLen > doublecap
			default:
				n = r.n(6)
			}
			if n < 0 {
				n = 0
			}
			if n*es > 4000 {
				n = 4000 / es
			}
			if n > 2000 {
				n = 2000
			}
			op.A = n
			op.Data = ints(randData(n * es))
		case p < 66:
			// append a slice, preferably one living in the same block
			sid, _ := c.Locate(st.v[s].data)
			for try := 0; try < 4; try++ {
				if tid, _ := c.Locate(st.v[t].data); tid == sid && st.v[t].len > 0 {
					break
				}
				t = r.n(nvars)
			}
			if l := st.v[s].len + st.v[t].len; l > 2000 || l*es > 4000 {
				continue // repeated self-appends double the length: keep the blocks small
			}
			op = vop{K: "apps", D: d, S: s, T: t}
		case p < 78:
			did, _ := c.Locate(st.v[d].data)
			for try := 0; try < 4; try++ {
				if tid, _ := c.Locate(st.v[t].data); tid == did && st.v[t].len > 0 {
					break
				}
				t = r.n(nvars)
			}
			op = vop{K: "copy", D: d, T: t}
		case p < 94:
			cp := st.v[s].cap
			k := cp
			if r.n(3) == 0 {
				k = r.n(cp + 1)
			}
			j := r.n(k + 1)
			if r.n(3) == 0 {
				j = k
			}
			i := r.n(j + 1)
			if r.n(3) == 0 {
				i = 0
			}
			if r.n(100) < 14 { // out of range on purpose
				switch r.n(6) {
				case 0:
					k = cp + 1
				case 1:
					k = -1
				case 2:
					j = k + 1
				case 3:
					j = -1
				case 4:
					i = j + 1
				default:
					i = -1
				}
			}
			op = vop{K: "res", D: d, S: s, A: i, B: j, C: k}
		default:
			op = vop{K: "clear", S: s}
		}
		if op.Data == nil {
			op.Data = []int{}
		}
		rec.Ops = append(rec.Ops, op)
		feat[op.K] = true

		// ---- run on the real code
		nblocks := len(c.Blocks)
		src := st.v[op.S]
		tlen := st.v[op.T].len
		var o outcome
		var obs []int64
		switch op.K {
		case "make":
			o = guard(func(o *outcome) { o.sl = MakeSlice(op.A, op.B, es) })
		case "set":
			if w, ok := st.window(op.S); ok {
				for i, b := range op.Data {
					w[op.A*es+i] = byte(b)
				}
			}
		case "appv":
			data := make([]byte, len(op.Data)+1)
			for i, b := range op.Data {
				data[i] = byte(b)
			}
			o = guard(func(o *outcome) { o.sl = SliceAppend(src, unsafe.Pointer(&data[0]), op.A, es) })
		case "apps":
			tt := st.v[op.T]
			o = guard(func(o *outcome) { o.sl = SliceAppend(src, tt.data, tt.len, es) })
		case "copy":
			tt := st.v[op.T]
			dd := st.v[op.D]
			o = guard(func(o *outcome) { o.n = SliceCopy(dd, tt.data, tt.len, es) })
		case "res":
			o = guard(func(o *outcome) { o.sl = NewSlice3(src.data, es, src.cap, op.A, op.B, op.C) })
		case "clear":
			o = guard(func(o *outcome) { SliceClear(styp, src) })
		}
		// faults noticed by the memory stand-in
		ovl := int64(0)
		for _, f := range c.Faults {
			if f == "memcpy-partial-overlap" && (op.K == "appv" || op.K == "apps") {
				ovl = 1
				feat["memcpy-overlap"] = true
				viol("append-memcpy-partial-overlap", "SliceAppend called memcpy with partially overlapping source and destination")
			} else {
				viol("memory-fault-"+op.K, f)
				diverged = true
			}
		}
		c.Faults = c.Faults[:0]
		switch {
		case o.isPan:
			obs = append([]int64{1}, o.pan...)
			feat["panic"] = true
		case op.K == "copy":
			obs = []int64{2, int64(o.n)}
		case op.K == "clear" || op.K == "set":
			obs = []int64{3}
		default:
			id, off := c.Locate(o.sl.data)
			obs = []int64{0, int64(id), int64(off), int64(o.sl.len), int64(o.sl.cap), ovl}
			st.v[op.D] = o.sl
		}
		rec.Obs = append(rec.Obs, obs)
		if diverged {
			break
		}

		// ---- the same on native Go slices, and the property oracle
		switch op.K {
		case "make":
			np := m.mk(op.D, op.A, op.B)
			if (np != "") != o.isPan {
				viol("makeslice-panic", fmt.Sprintf("MakeSlice(%d,%d) panic=%v, Go: %q", op.A, op.B, o.isPan, np))
				diverged = true
			} else if o.isPan {
				wantLen := strings.Contains(np, "len out of range")
				if (o.pan[0] == 100) != wantLen {
					viol("makeslice-panic-kind", fmt.Sprintf("MakeSlice(%d,%d): %q, Go: %q", op.A, op.B, o.panMsg, np))
				}
			} else if id, _ := c.Locate(o.sl.data); id <= nblocks {
				viol("makeslice-not-fresh", "MakeSlice returned existing memory")
				diverged = true
			} else if es > 0 && op.A > 0 && op.A <= 8 && len(pending) == 0 {
				for i := 0; i < op.A; i++ {
					pending = append(pending, vop{K: "set", S: op.D, A: i, Data: ints(randData(es))})
				}
			}
		case "set":
			m.set(op.S, op.A, toBytes(op.Data))
		case "appv", "apps":
			if o.isPan {
				viol("append-panic", o.panMsg)
				diverged = true
				break
			}
			n := op.A
			var wantFresh bool
			if op.K == "appv" {
				wantFresh = m.appv(op.D, op.S, toBytes(op.Data), n)
			} else {
				n = tlen
				wantFresh = m.apps(op.D, op.S, op.T)
			}
			if n > 0 {
				feat["append-nonempty"] = true
			}
			res := o.sl
			if es == 0 && n > 0 {
				feat["zero-size-append"] = true
			}
			if es == 0 && n > 0 && res == src {
				// finding F2 (repaired by fix 01): the argument comes back unchanged
				feat["zero-size-append-unchanged"] = true
				viol("append-zero-size-elem-unchanged", fmt.Sprintf("append of %d zero-size elements to len %d returned len %d", n, src.len, res.len))
				m.resync(op.D, res.len, res.cap)
				break
			}
			if res.len != m.length(op.D) {
				viol("append-len", fmt.Sprintf("len %d, want %d", res.len, m.length(op.D)))
				diverged = true
				break
			}
			if res.cap < res.len {
				viol("append-cap-below-len", fmt.Sprintf("len %d cap %d", res.len, res.cap))
				diverged = true
				break
			}
			fresh := res.data != src.data
			if es > 0 {
				if fresh != wantFresh {
					viol("append-sharing", fmt.Sprintf("len %d + %d, cap %d: fresh backing array = %v", src.len, n, src.cap, fresh))
					diverged = true
					break
				}
				if id, _ := c.Locate(res.data); fresh && id <= nblocks {
					viol("append-sharing", "grown slice points into memory that existed before the call")
					diverged = true
					break
				}
				if !fresh && res.cap != src.cap {
					viol("append-cap-changed-in-place", fmt.Sprintf("cap %d -> %d", src.cap, res.cap))
					diverged = true
					break
				}
			}
			if wantFresh {
				feat["append-grow"] = true
				if src.cap >= 256 {
					feat["append-grow-over-threshold"] = true
				}
				m.renew(op.D, res.len, res.cap, true)
			} else {
				feat["append-in-place"] = true
				if es == 0 && m.capacity(op.D) != res.cap {
					m.renew(op.D, res.len, res.cap, false)
				}
			}
		case "copy":
			if o.isPan {
				viol("copy-panic", o.panMsg)
				diverged = true
				break
			}
			want := m.cpy(op.D, op.T)
			if want != o.n {
				viol("copy-count", fmt.Sprintf("copy returned %d, want %d", o.n, want))
				diverged = true
			}
			if want > 0 {
				feat["copy-nonempty"] = true
				di, doff := c.Locate(st.v[op.D].data)
				ti, toff := c.Locate(st.v[op.T].data)
				if di == ti && doff != toff && doff < toff+want*es && toff < doff+want*es {
					feat["copy-overlap"] = true
				}
			}
		case "res":
			np := m.res(op.D, op.S, op.A, op.B, op.C)
			if np != o.isPan {
				viol("reslice-panic", fmt.Sprintf("s[%d:%d:%d] with cap %d: panic=%v, Go panic=%v", op.A, op.B, op.C, src.cap, o.isPan, np))
				diverged = true
				break
			}
			if !o.isPan {
				if o.sl.len != op.B-op.A || o.sl.cap != op.C-op.A {
					viol("reslice-window", fmt.Sprintf("s[%d:%d:%d]: len %d cap %d", op.A, op.B, op.C, o.sl.len, o.sl.cap))
					diverged = true
				}
			}
		case "clear":
			if o.isPan {
				viol("clear-panic", o.panMsg)
				diverged = true
				break
			}
			m.clr(op.S)
		}
		if diverged {
			break
		}
		// every variable: len, cap, contents of the whole window, sharing relation
		for x := 0; x < nvars && !diverged; x++ {
			w, ok := st.window(x)
			if !ok {
				viol(opKey(op.K)+"-window", fmt.Sprintf("v%d does not lie inside its block", x))
				diverged = true
				break
			}
			if st.v[x].len != m.length(x) || st.v[x].cap != m.capacity(x) {
				viol(opKey(op.K)+"-len", fmt.Sprintf("v%d: len %d cap %d, Go: len %d cap %d", x, st.v[x].len, st.v[x].cap, m.length(x), m.capacity(x)))
				diverged = true
				break
			}
			if es > 0 && !bytesEq(w, m.window(x)) {
				viol(opKey(op.K)+"-contents", fmt.Sprintf("v%d: % x, Go: % x", x, clip(w), clip(m.window(x))))
				diverged = true
				break
			}
			if es > 0 && st.v[x].cap > 0 {
				for y := 0; y < x; y++ {
					if st.v[y].cap == 0 {
						continue
					}
					xi, _ := c.Locate(st.v[x].data)
					yi, _ := c.Locate(st.v[y].data)
					if (xi == yi) != (m.nid(x) == m.nid(y)) {
						viol(opKey(op.K)+"-sharing", fmt.Sprintf("v%d and v%d share a backing array: %v, Go: %v", x, y, xi == yi, m.nid(x) == m.nid(y)))
						diverged = true
						break
					}
				}
			}
		}
	}
	for _, b := range c.Blocks {
		rec.Heap = append(rec.Heap, ints(b.Buf[:b.Size]))
	}
	fs := []string{}
	for _, k := range []string{"append-in-place", "append-grow", "append-grow-over-threshold", "memcpy-overlap", "copy-overlap", "zero-size-append", "zero-size-append-unchanged", "panic"} {
		if feat[k] {
			fs = append(fs, k)
		}
	}
	rec.Class = flavour + ":" + strings.Join(fs, ",")
	if !diverged {
		vemit(rec)
	}
	c.Strict = false
}

func opKey(k string) string {
	switch k {
	case "appv", "apps":
		return "append"
	case "res":
		return "reslice"
	case "make":
		return "makeslice"
	}
	return k
}

func clip(b []byte) []byte {
	if len(b) > 48 {
		return b[:48]
	}
	return b
}

func toBytes(xs []int) []byte {
	b := make([]byte, len(xs))
	for i, x := range xs {
		b[i] = byte(x)
	}
	return b
}

// nextslicecap on boundary pairs: the result must hold the request; records
// for the model comparison
func capSweep(r *vrng, n int) {
	pool := []int{0, 1, 2, 3, 4, 5, 7, 8, 127, 128, 129, 255, 256, 257, 300, 511, 512, 513, 1000, 1024, 4096,
		1 << 20, 1<<31 - 1, 1 << 31, 1<<32 + 1, 1 << 40, 1<<61 - 1, 1 << 61, 1<<62 - 1, 1 << 62, 1<<62 + 1,
		1<<63 - 1 - 768, 1<<63 - 2, 1<<63 - 1}
	emit := func(newLen, oldCap int) {
		got := nextslicecap(newLen, oldCap)
		vemit(vrec{Kind: "cap", In: []int64{int64(newLen), int64(oldCap)}, Out: []int64{int64(got)}})
		if got < newLen {
			vemit(vrec{Kind: "viol", Key: "nextslicecap-below-request", What: fmt.Sprintf("nextslicecap(%d,%d) = %d", newLen, oldCap, got), In: []int64{int64(newLen), int64(oldCap)}})
		}
	}
	for _, oc := range pool {
		for _, nl := range pool {
			// the caller guarantees newLen > oldCap >= 0 and newLen > 0
			if nl > oc {
				emit(nl, oc)
			}
		}
	}
	for i := 0; i < n; i++ {
		oc := r.pick(pool)
		if r.n(2) == 0 {
			oc = r.n(3000)
		}
		var nl int
		switch r.n(4) {
		case 0:
			nl = oc + 1
		case 1:
			nl = 2*oc + r.n(3) - 1
		case 2:
			nl = oc + 1 + r.n(oc/4+2)
		default:
			nl = oc + 1 + r.n(3*oc+5)
		}
		if nl > oc && nl > 0 && oc >= 0 {
			emit(nl, oc)
		}
	}
}

func TestVerif(t *testing.T) {
	seed, _ := strconv.ParseUint(os.Getenv("VERIF_SEED"), 10, 64)
	n, _ := strconv.Atoi(os.Getenv("VERIF_N"))
	if n == 0 {
		n = 300
	}
	f, err := os.Create(os.Getenv("VERIF_OUT"))
	if err != nil {
		t.Fatal(err)
	}
	defer f.Close()
	venc = json.NewEncoder(f)
	r := &vrng{s: seed*7919 + 11}
	sizes := []int{0, 1, 2, 3, 8, 24}
	// the witnesses of the Coq theorems append_zero_size_unfixed_refuted and
	// append_memcpy_contract_unfixed_refuted (the code before the two repairs),
	// replayed on the real code: they must not fail any more
	runScript(r, 0, 0, "witness", []vop{{K: "appv", D: 0, S: 0, A: 1, Data: []int{}}})
	runScript(r, 1, 0, "witness", []vop{{K: "make", D: 0, A: 3, B: 8}, {K: "set", S: 0, A: 0, Data: []int{1}}, {K: "set", S: 0, A: 1, Data: []int{2}},
		{K: "set", S: 0, A: 2, Data: []int{3}}, {K: "res", D: 1, S: 0, A: 0, B: 2, C: 8}, {K: "res", D: 2, S: 0, A: 1, B: 3, C: 8}, {K: "apps", D: 3, S: 1, T: 2}})
	for i := 0; i < n; i++ {
		es := sizes[i%len(sizes)]
		flavour := "small"
		if i%10 == 7 && es <= 3 {
			flavour = "thresh"
		}
		nops := 6 + r.n(14)
		if flavour == "thresh" {
			nops = 5 + r.n(5)
		}
		runScript(r, es, nops, flavour, nil)
	}
	capSweep(r, n)
	stringTests(r, n)
}
