// Stand-in for github.com/goplus/llgo/runtime/internal/clite used by the C05
// scratch module (package path .../xverif/c05/clite).  Not part of the repository.
//
// Memcpy/Memmove/Memset/Advance work on real memory through unsafe.  Every
// block handed out by VAlloc is registered, so that
//   - a write that does not stay inside one registered block is refused and
//     recorded as a fault (a mutated runtime cannot corrupt the test process),
//   - the harness can name a pointer as (block id, byte offset),
//   - a Memcpy whose ranges partially overlap (undefined in C) is recorded.
package c

import "unsafe"

type (
	Pointer = unsafe.Pointer
	Int     = int32
	Char    = int8
)

type integer interface {
	~int | ~uint | ~uintptr | ~int32 | ~uint32 | ~int64 | ~uint64
}

type Block struct {
	Base uintptr
	Size uintptr
	Buf  []byte // keeps the memory alive
}

var (
	Blocks []Block  // block i+1 is Blocks[i]; id 0 is the nil pointer
	Faults []string // contract violations seen by the stand-ins
	Strict bool     // every written range must lie in a registered block
)

func Reset() { Blocks = Blocks[:0]; Faults = Faults[:0] }

// VAlloc returns a fresh registered block of size bytes filled with fill.
// A zero-size request yields a unique non-nil pointer (as malloc does).
func VAlloc(size uintptr, fill byte) Pointer {
	if size > 1<<26 {
		Faults = append(Faults, "alloc-too-large")
		size = 0
	}
	buf := make([]byte, size+1)
	if fill != 0 {
		for i := range buf {
			buf[i] = fill
		}
	}
	p := unsafe.Pointer(&buf[0])
	Blocks = append(Blocks, Block{uintptr(p), size, buf})
	return p
}

// Locate names p as (block id, offset); id 0 means nil, -1 unknown memory.
func Locate(p Pointer) (id int, off int) {
	if p == nil {
		return 0, 0
	}
	a := uintptr(p)
	for i := len(Blocks) - 1; i >= 0; i-- {
		b := &Blocks[i]
		if a >= b.Base && a <= b.Base+b.Size {
			return i + 1, int(a - b.Base)
		}
	}
	return -1, 0
}

// inside reports whether [p, p+n) lies in one registered block.
func inside(p Pointer, n uintptr) bool {
	id, off := Locate(p)
	if id <= 0 {
		return false
	}
	return uintptr(off)+n <= Blocks[id-1].Size
}

func Inside(p Pointer, n uintptr) bool { return n == 0 || inside(p, n) }

func bytesAt(p Pointer, n uintptr) []byte { return unsafe.Slice((*byte)(p), n) }

func checkRW(what string, dst, src Pointer, n uintptr) bool {
	if n == 0 {
		return false
	}
	if id, _ := Locate(dst); id == 0 || (id < 0 && Strict) || (id > 0 && !inside(dst, n)) {
		Faults = append(Faults, what+"-write-out-of-bounds")
		return false
	}
	if id, _ := Locate(src); id == 0 {
		Faults = append(Faults, what+"-read-nil")
		return false
	} else if id > 0 && !inside(src, n) {
		Faults = append(Faults, what+"-read-out-of-bounds")
		return false
	}
	return true
}

func Advance[PtrT any, I integer](ptr PtrT, offset I) PtrT {
	p, ok := any(ptr).(unsafe.Pointer)
	if !ok {
		panic("clite stand-in: Advance on a typed pointer")
	}
	q := unsafe.Add(p, int(offset))
	return any(q).(PtrT)
}

func Memcpy(dst, src Pointer, n uintptr) Pointer {
	if !checkRW("memcpy", dst, src, n) {
		return dst
	}
	d, s := uintptr(dst), uintptr(src)
	if d != s && d < s+n && s < d+n {
		// undefined behaviour in C; glibc on x86-64 happens to behave as memmove
		Faults = append(Faults, "memcpy-partial-overlap")
	}
	copy(bytesAt(dst, n), bytesAt(src, n)) // memmove semantics
	return dst
}

func Memmove(dst, src Pointer, n uintptr) Pointer {
	if !checkRW("memmove", dst, src, n) {
		return dst
	}
	copy(bytesAt(dst, n), bytesAt(src, n))
	return dst
}

func Memset(s Pointer, c Int, n uintptr) Pointer {
	if n == 0 {
		return s
	}
	if id, _ := Locate(s); id == 0 || (id < 0 && Strict) || (id > 0 && !inside(s, n)) {
		Faults = append(Faults, "memset-write-out-of-bounds")
		return s
	}
	b := bytesAt(s, n)
	for i := range b {
		b[i] = byte(c)
	}
	return s
}

func Strlen(s *Char) uintptr {
	n := uintptr(0)
	for *(*byte)(unsafe.Add(unsafe.Pointer(s), n)) != 0 {
		n++
	}
	return n
}
