// Stand-ins for the few identifiers that z_slice.go / z_string.go / utf8.go use
// from other files of runtime/internal/runtime.  Not part of the repository.
package rt

import (
	"unsafe"

	c "github.com/goplus/llgo/runtime/xverif/c05/clite"
)

// errors.go: same fields and code order as the runtime's boundsError
type boundsErrorCode uint8

type boundsError struct {
	x      int64
	y      int
	signed bool
	code   boundsErrorCode
}

const (
	boundsIndex boundsErrorCode = iota
	boundsSliceAlen
	boundsSliceAcap
	boundsSliceB
	boundsSlice3Alen
	boundsSlice3Acap
	boundsSlice3B
	boundsSlice3C
	boundsConvert
)

type errorString string

func (e errorString) Error() string { return "runtime error: " + string(e) }

// stubs.go
const (
	_64bit       = 1 << (^uintptr(0) >> 63) / 2
	heapAddrBits = (_64bit)*48 + (1-_64bit)*(32)
	maxAlloc     = (1 << heapAddrBits) - (1-_64bit)*1
)

// z_gc.go: AllocU is malloc (garbage), AllocZ is malloc+memset 0
func AllocU(size uintptr) unsafe.Pointer { return c.VAlloc(size, 0xAA) }

func AllocZ(size uintptr) unsafe.Pointer {
	ret := c.VAlloc(size, 0xAA)
	return c.Memset(ret, 0, size)
}
