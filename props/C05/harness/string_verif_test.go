package rt

// C05 harness, string part: llgo's own z_string.go and utf8.go (compiled by the
// ordinary Go compiler in the scratch module) against Go's own string semantics.

import (
	"fmt"
	"os"
	"unicode/utf8"
	"unsafe"

	c "github.com/goplus/llgo/runtime/xverif/c05/clite"
)

type vsrec struct {
	Kind  string    `json:"kind"`
	Class string    `json:"class,omitempty"`
	S     []int     `json:"s"`
	T     []int     `json:"t"`
	I     int64     `json:"i"`
	J     int64     `json:"j"`
	Outs  [][]int64 `json:"outs"`
}

func toS(s string) String   { return *(*String)(unsafe.Pointer(&s)) }
func fromS(x String) string { return *(*string)(unsafe.Pointer(&x)) }
func vb(s string) []int {
	o := make([]int, len(s))
	for i := 0; i < len(s); i++ {
		o[i] = int(s[i])
	}
	return o
}
func vb64(s string) []int64 {
	o := make([]int64, len(s))
	for i := 0; i < len(s); i++ {
		o[i] = int64(s[i])
	}
	return o
}

func sviol(key, what, s string, extra ...int64) {
	vemit(map[string]any{"kind": "viol", "key": key, "what": what, "s": vb(s), "args": extra})
}

// lead / continuation boundary bytes
var salpha = []byte{0x00, 0x41, 0x7f, 0x80, 0x8f, 0x90, 0x9f, 0xa0, 0xbf, 0xc0, 0xc1, 0xc2, 0xdf, 0xe0, 0xe1,
	0xec, 0xed, 0xee, 0xef, 0xf0, 0xf1, 0xf3, 0xf4, 0xf5, 0xf7, 0xf8, 0xff}

func safely(f func()) (p bool) {
	defer func() {
		if recover() != nil {
			p = true
		}
	}()
	f()
	return
}

// one string: decoderune at every index, range iteration, conversions
func str1(s string, class string, record bool) {
	out := vsrec{Kind: "str1", Class: class, S: vb(s), T: []int{}}
	dec := []int64{}
	for k := 0; k <= len(s); k++ {
		r, pos := decoderune(s, k)
		dec = append(dec, int64(r), int64(pos))
		if k < len(s) && s[k] >= runeSelf {
			wr, size := utf8.DecodeRuneInString(s[k:])
			if r != wr || pos != k+size {
				sviol("decoderune", fmt.Sprintf("decoderune(s,%d) = (%#x,%d), utf8.DecodeRune: (%#x,%d)", k, r, pos, wr, k+size), s, int64(k))
			}
		} else if r != runeError || pos != k+1 {
			sviol("decoderune-noprogress", fmt.Sprintf("decoderune(s,%d) = (%#x,%d)", k, r, pos), s, int64(k))
		}
	}
	iter := []int64{}
	it := NewStringIter(s)
	prevEnd := 0
	okPart := true
	for steps := 0; steps <= len(s)+1; steps++ {
		ok, k, v := StringIterNext(it)
		if !ok {
			break
		}
		iter = append(iter, int64(k), int64(v))
		if k != prevEnd || it.pos <= k || it.pos > len(s) {
			okPart = false
		}
		prevEnd = it.pos
	}
	if !okPart || prevEnd != len(s) {
		sviol("string-range-partition", "iteration indexes do not partition the string", s)
	}
	want := []int64{}
	for i, r := range s {
		want = append(want, int64(i), int64(r))
	}
	if fmt.Sprint(want) != fmt.Sprint(iter) {
		sviol("string-range", fmt.Sprintf("range gives %v, Go: %v", iter, want), s)
	}
	rs := StringToRunes(s)
	wrs := []rune(s)
	runes := []int64{}
	for _, r := range rs {
		runes = append(runes, int64(r))
	}
	if fmt.Sprint(rs) != fmt.Sprint(wrs) || cap(rs) != len(rs) || (len(s) == 0) != (rs == nil) {
		sviol("string-to-runes", fmt.Sprintf("[]rune(s) = %v cap %d, Go: %v", rs, cap(rs), wrs), s)
	}
	back := fromS(StringFromRunes(rs))
	if back != string(wrs) {
		sviol("string-from-runes", fmt.Sprintf("string([]rune(s)) = %x, Go: %x", back, string(wrs)), s)
	}
	if utf8.ValidString(s) && back != s {
		sviol("string-runes-roundtrip", "string([]rune(s)) != s for valid UTF-8", s)
	}
	bs := StringToBytes(toS(s))
	if string(bs) != s || (len(s) == 0) != (bs == nil) {
		sviol("string-to-bytes", fmt.Sprintf("[]byte(s) = %x", bs), s)
	}
	if len(bs) > 0 {
		fb := StringFromBytes(*(*Slice)(unsafe.Pointer(&bs)))
		bs[0] ^= 0xff // the string must not share the slice's memory
		if fromS(fb) != s {
			sviol("string-from-bytes", fmt.Sprintf("string(b) = %x", fromS(fb)), s)
		}
	}
	if record {
		out.Outs = [][]int64{dec, iter, runes, vb64(back)}
		vemit(out)
	}
}

func str2(a, b string, i, j int, class string) {
	out := vsrec{Kind: "str2", Class: class, S: vb(a), T: vb(b), I: int64(i), J: int64(j)}
	cat := fromS(StringCat(toS(a), toS(b)))
	if cat != a+b {
		sviol("string-cat", fmt.Sprintf("a+b = %x", cat), a+"|"+b)
	}
	b2i := func(x bool) int64 {
		if x {
			return 1
		}
		return 0
	}
	eq := StringEqual(toS(a), toS(b))
	if eq != (a == b) {
		sviol("string-equal", fmt.Sprintf("== gives %v", eq), a+"|"+b)
	}
	if !StringEqual(toS(a), toS(a)) {
		sviol("string-equal", "a == a is false", a)
	}
	ls := StringLess(toS(a), toS(b))
	if ls != (a < b) {
		sviol("string-less", fmt.Sprintf("< gives %v", ls), a+"|"+b)
	}
	var sl, wsl string
	p := safely(func() { sl = fromS(StringSlice(toS(a), i, j)) })
	wp := safely(func() { wsl = a[i:j] })
	slo := []int64{-1}
	if !p {
		slo = append([]int64{int64(len(sl))}, vb64(sl)...)
	}
	if p != wp || sl != wsl {
		sviol("string-slice", fmt.Sprintf("s[%d:%d] = %x panic=%v, Go: %x panic=%v", i, j, sl, p, wsl, wp), a, int64(i), int64(j))
	}
	out.Outs = [][]int64{vb64(cat), {b2i(eq)}, {b2i(ls)}, slo}
	vemit(out)
}

func encTests(r *vrng, n int) {
	pool := []int64{0, 1, 0x41, 0x7f, 0x80, 0x81, 0x7ff, 0x800, 0x801, 0xfff, 0x1000, 0xd7ff, 0xd800, 0xd801, 0xdbff, 0xdc00, 0xdfff, 0xe000,
		0xfffd, 0xfffe, 0xffff, 0x10000, 0x10001, 0x3ffff, 0x40000, 0xfffff, 0x100000, 0x10ffff, 0x110000, 0x1fffff, 0x200000, 0x7fffffff,
		-1, -2, -0x80, -0x80000000, 1 << 31, 1<<32 - 1, 1 << 32, 1<<32 + 0x41, 1<<32 + 0x20ac, 1<<62 + 0x41, 1<<63 - 1, -1 << 63, -1<<63 + 0x41, -1<<32 + 0x41}
	for i := 0; i < n; i++ {
		switch r.n(4) {
		case 0:
			pool = append(pool, int64(r.n(0x800)))
		case 1:
			pool = append(pool, int64(r.n(0x10000)))
		case 2:
			pool = append(pool, int64(0x10000+r.n(0x100000)))
		default:
			pool = append(pool, int64(r.next()))
		}
	}
	for _, x := range pool {
		if x == int64(int32(x)) {
			ru := rune(x)
			buf := make([]byte, 4)
			nb := encoderune(buf, ru)
			got := string(buf[:nb])
			want := string(utf8.AppendRune(nil, ru))
			if got != want {
				sviol("encoderune", fmt.Sprintf("encoderune(%#x) = %x, Go: %x", ru, got, want), "", x)
			}
			if ru >= runeSelf && utf8.ValidRune(ru) {
				dr, dp := decoderune(got, 0)
				if dr != ru || dp != nb {
					sviol("encode-decode-roundtrip", fmt.Sprintf("decoderune(encoderune(%#x)) = (%#x,%d)", ru, dr, dp), "", x)
				}
			}
			vemit(vsrec{Kind: "enc", S: []int{}, T: []int{}, I: x, Outs: [][]int64{vb64(got)}})
		}
		g64 := fromS(StringFromInt64(x))
		if g64 != string(x) {
			sviol("string-from-int64", fmt.Sprintf("string(int64(%d)) = %x, Go: %x", x, g64, string(x)), "", x)
		}
		gu64 := fromS(StringFromUint64(uint64(x)))
		if gu64 != string(uint64(x)) {
			sviol("string-from-uint64", fmt.Sprintf("string(uint64(%d)) = %x, Go: %x", uint64(x), gu64, string(uint64(x))), "", x)
		}
		vemit(vsrec{Kind: "fromint", S: []int{}, T: []int{}, I: x, Outs: [][]int64{vb64(g64), vb64(gu64)}})
	}
	// rune lists including invalid code points
	rpool := []rune{0, 0x41, 0x7f, 0x80, 0x7ff, 0x800, 0xd7ff, 0xd800, 0xdfff, 0xe000, 0xfffd, 0xffff, 0x10000, 0x10ffff, 0x110000, -1, 0x7fffffff, -0x80000000, 0x20ac, 0x1f600}
	for i := 0; i < n/2+20; i++ {
		l := r.n(6)
		rs := make([]rune, l)
		in := []int{}
		for k := range rs {
			rs[k] = rpool[r.n(len(rpool))]
		}
		for _, x := range rs {
			in = append(in, int(x))
		}
		got := fromS(StringFromRunes(rs))
		if got != string(rs) {
			sviol("string-from-runes", fmt.Sprintf("string(%v) = %x, Go: %x", rs, got, string(rs)), "")
		}
		vemit(vsrec{Kind: "frunes", S: in, T: []int{}, Outs: [][]int64{vb64(got)}})
	}
}

func stringTests(r *vrng, n int) {
	c.Reset()
	c.Strict = false
	thorough := os.Getenv("VERIF_TIER") == "thorough"
	maxLen := 3
	if thorough {
		maxLen = 4
	}
	// every string over the boundary alphabet up to maxLen; a part of them is
	// recorded for the comparison with the model
	count := 0
	var rec func(prefix []byte)
	rec = func(prefix []byte) {
		s := string(prefix)
		record := len(prefix) <= 2 || (len(prefix) == 3 && (thorough || count%11 == 0)) || (len(prefix) == 4 && count%20 == 0)
		count++
		str1(s, fmt.Sprintf("alpha%d", len(prefix)), record)
		if len(c.Blocks) > 4096 {
			c.Reset()
		}
		if len(prefix) == maxLen {
			return
		}
		for _, b := range salpha {
			rec(append(prefix[:len(prefix):len(prefix)], b))
		}
	}
	rec(nil)
	// random longer strings: valid sequences mixed with stray bytes
	pieces := []string{"a", "\x00", "\x7f", "\u0080", "\u07ff", "\u0800", "\ud7ff", "\ue000", "\ufffd", "\uffff", "\U00010000", "\U0010ffff",
		"\xc0\x80", "\xe0\x80\x80", "\xed\xa0\x80", "\xf4\x90\x80\x80", "\xf0\x8f\xbf\xbf", "\xe2\x82", "\xf0\x9f\x98", "\x80", "\xbf", "\xff", "\xc2", "\xe1", "\xf1"}
	longs := []string{}
	for i := 0; i < n*2; i++ {
		s := ""
		for k := r.n(7); k >= 0; k-- {
			if r.n(4) == 0 {
				s += string([]byte{salpha[r.n(len(salpha))]})
			} else {
				s += pieces[r.n(len(pieces))]
			}
		}
		if r.n(5) == 0 && len(s) > 0 {
			s = s[:len(s)-1] // cut the last sequence short
		}
		longs = append(longs, s)
		str1(s, "long", true)
	}
	// pairs: concatenation, comparison, slicing
	short := []string{""}
	for _, a := range salpha {
		short = append(short, string([]byte{a}))
	}
	for ia, a := range short {
		for ib, b := range short {
			if thorough || (ia+ib)%2 == 0 {
				str2(a, b, 0, len(a), "pair1")
			}
		}
	}
	for i := 0; i < n*2; i++ {
		a := longs[r.n(len(longs))]
		b := longs[r.n(len(longs))]
		switch r.n(4) {
		case 0: // common prefix, differing tail
			b = a + b
		case 1:
			if len(a) > 0 {
				b = a[:r.n(len(a))] + b
			}
		case 2:
			b = string(append([]byte(nil), a...)) // equal contents, different memory
		}
		lo := r.n(len(a)+3) - 1
		hi := r.n(len(a)+3) - 1
		if r.n(3) > 0 && lo > hi {
			lo, hi = hi, lo
		}
		str2(a, b, lo, hi, "pair")
		if len(c.Blocks) > 4096 {
			c.Reset()
		}
	}
	encTests(r, n)
	c.Reset()
}
