"""C19 program generator: one Go program that hands Go values and calls to an
embedded CPython through llgo's py.* lowering, plus the Python modules it uses.

Python side (pylib/): every module prints `IMPORT <name>` when imported; every
function prints `CALL <module>.<fn> <canon(args)>` and returns tuple(reversed(args));
vmod.show(tag, idx, obj) prints `VAL <tag> <idx> <canon(obj)>`.  canon() is a
canonical text form that check.py parses back into a C19.Model.pyval term."""
import random, struct

INT_TYPES = [("int8", 8, True), ("int16", 16, True), ("int32", 32, True), ("int64", 64, True), ("int", 64, True),
             ("uint8", 8, False), ("uint16", 16, False), ("uint32", 32, False), ("uint64", 64, False),
             ("uint", 64, False), ("uintptr", 64, False)]

VMOD = r'''import sys, struct
print("IMPORT %s" % __name__, file=sys.stderr)

def canon(o):
    if o is None:
        return "N"
    if isinstance(o, bool):
        return "B1" if o else "B0"
    if isinstance(o, int):
        return "I%d" % o
    if isinstance(o, float):
        if o != o:
            return "Fnan"
        return "F%d" % struct.unpack("<Q", struct.pack("<d", o))[0]
    if isinstance(o, complex):
        return "C" + canon(o.real)[1:] + "," + canon(o.imag)[1:]
    if isinstance(o, str):
        return "S" + o.encode("utf-8", "surrogatepass").hex()
    if isinstance(o, bytearray):
        return "Y" + bytes(o).hex()
    if isinstance(o, bytes):
        return "X" + o.hex()
    if isinstance(o, list):
        return "L(" + " ".join(canon(x) for x in o) + ")"
    if isinstance(o, tuple):
        return "T(" + " ".join(canon(x) for x in o) + ")"
    return "?" + type(o).__name__

def _mk(name):
    def f(*args):
        print("CALL %s.%s %s" % (__name__, name, canon(args)), file=sys.stderr)
        return tuple(reversed(args))
    f.__name__ = name
    return f

for _n in @NAMES@:
    globals()[_n] = _mk(_n)

answer = 42

def show(tag, idx, obj):
    print("VAL %s %d %s" % (tag, idx, canon(obj)), file=sys.stderr)
    return obj
'''


def int_pool(rng, w, signed):
    lo, hi = (-(1 << (w - 1)), (1 << (w - 1)) - 1) if signed else (0, (1 << w) - 1)
    vals = {0, 1, lo, hi, hi - 1, lo + 1}
    for k in (7, 8, 15, 16, 31, 32, 63):
        for d in (-1, 0, 1):
            for sgn in ((1, -1) if signed else (1,)):
                v = sgn * (1 << k) + d
                if lo <= v <= hi:
                    vals.add(v)
    if signed:
        vals.add(-1)
    for _ in range(6):
        vals.add(rng.randint(lo, hi))
    return sorted(vals)


def f64bits(x):
    return struct.unpack("<Q", struct.pack("<d", x))[0]


F32_BITS = [0, 0x80000000, 1, 0x007fffff, 0x00800000, 0x3f800000, 0xbf800000, 0x7f7fffff, 0x7f800000, 0xff800000,
            0x7fc00000, 0x7f800001, 0x3eaaaaab, 0x00000100, 0x00400000, 0x4b800000, 0x4b7fffff, 0xc2c80000]
F64_BITS = [0, 0x8000000000000000, 1, 0x000fffffffffffff, 0x0010000000000000, 0x3ff0000000000000, 0xbff0000000000000,
            0x7fefffffffffffff, 0x7ff0000000000000, 0xfff0000000000000, 0x7ff8000000000000, 0x3fd5555555555555,
            0x4340000000000000, 0x433fffffffffffff, 0x400921fb54442d18]
STRS = [b"", b"a", b"abc", b"a\x00b", b"\x00", "héllo".encode(), "世界".encode(), "\U0001f600x".encode(),
        b"tab\there", b"quote\"\\", b"x" * 300, "ÿĀ߿ࠀ￿".encode()]
BYTES = [b"", b"\x00", b"\xff\xfe\x00\x80", b"plain", bytes(range(256))]


def go_bytes(b):
    return "[]byte{" + ", ".join(str(x) for x in b) + "}"


def go_str(b):
    return '"' + "".join("\\x%02x" % x for x in b) + '"'


def gen_program(seed):
    rng = random.Random(seed)
    facts = {"vals": [], "calls": [], "ir_funcs": [], "lists": []}
    pools = {t: int_pool(rng, w, s) for t, w, s in INT_TYPES}
    f32 = F32_BITS + [rng.getrandbits(32) for _ in range(8)]
    f64 = F64_BITS + [rng.getrandbits(64) for _ in range(8)]
    fixed = ["f0", "f1", "f2", "f3", "f4", "f5", "f6", "az", "x", "three"]
    vmod_names = fixed + ["va"]
    sub_names = ["y", "s1"]
    vmod2_names = ["g1", "g2"]
    py = {"vmod/__init__.py": VMOD.replace("@NAMES@", repr(vmod_names)),
          "vmod/sub.py": VMOD.replace("@NAMES@", repr(sub_names)),
          "vmod2.py": VMOD.replace("@NAMES@", repr(vmod2_names))}

    def binding(pkg, mod, decls):
        src = ["package %s" % pkg, "", "import (", '\t_ "unsafe"', "", '\t"github.com/goplus/lib/py"', ")", "",
               'const LLGoPackage = "py.%s"' % mod, ""]
        for goname, pyname, sig in decls:
            src += ["//go:linkname %s py.%s" % (goname, pyname), "func %s%s *py.Object" % (goname, sig), ""]
        return "\n".join(src)

    objs = lambda n: "(" + ", ".join("a%d" % i for i in range(n)) + (" *py.Object" if n else "") + ")"
    files = {}
    files["vb/vb.go"] = binding("vb", "vmod", [("F%d" % n, "f%d" % n, objs(n)) for n in range(7)] +
                                [("Az", "az", "()"), ("X", "x", "(a *py.Object)"), ("Three", "three", "(a, b, c *py.Object)"),
                                 ("Va", "va", "(__llgo_va_list ...any)"), ("Show", "show", "(tag, idx, obj *py.Object)")]) + \
        "\n//go:linkname Answer py.answer\nvar Answer *py.Object\n"
    files["vb2/vb2.go"] = binding("vb2", "vmod", [("Az2", "az", "()")])       # second binding of the same module
    files["vbs/vbs.go"] = binding("vbs", "vmod.sub", [("Y", "y", "(a, b *py.Object)"), ("S1", "s1", "(a *py.Object)")])
    files["vc/vc.go"] = binding("vc", "vmod2", [("G1", "g1", "(a *py.Object)"), ("G2", "g2", "()")])
    # packages that use Python while they are being initialised
    files["u1/u1.go"] = '''package u1

import (
	"github.com/goplus/lib/c"
	"github.com/goplus/lib/py"
	"verifprog/vb"
	"verifprog/vbs"
)

var X = vb.F1(py.LongLong(c.LongLong(5)))

var Y = vbs.Y(py.LongLong(c.LongLong(1)), py.LongLong(c.LongLong(2)))
'''
    files["u2/u2.go"] = '''package u2

import (
	"github.com/goplus/lib/py"
	"verifprog/vb2"
	"verifprog/vc"
)

var Z *py.Object

func init() {
	Z = vc.G2()
	_ = vb2.Az2()
}
'''
    m = ["package main", "", "import (", '\t"unsafe"', "", '\t"github.com/goplus/lib/c"', '\t"github.com/goplus/lib/py"',
         '\t"verifprog/u1"', '\t"verifprog/u2"', '\t"verifprog/vb"', '\t"verifprog/vbs"', '\t"verifprog/vc"', ")", "",
         "var nOK, nFail int", "",
         "func ok(b bool, tag string, i int) {", "\tif b {", "\t\tnOK++", "\t} else {", "\t\tnFail++",
         '\t\tprintln("RTFAIL", tag, i)', "\t}", "}", "",
         "func idx(i int) *py.Object { return py.LongLong(c.LongLong(i)) }",
         "func f64b(f float64) uint64 { return *(*uint64)(unsafe.Pointer(&f)) }",
         "func f32f(b uint32) float32 { return *(*float32)(unsafe.Pointer(&b)) }",
         "func f64f(b uint64) float64 { return *(*float64)(unsafe.Pointer(&b)) }", ""]
    # ---- one-type conversion functions (their IR is compared with val_step) ----
    irf = []
    for t, w, s in INT_TYPES:
        irf.append(("zL_%s" % t, "x %s" % t, "py.List(x)", "TInt %d %s" % (w, "true" if s else "false")))
    irf += [("zL_bool", "x bool", "py.List(x)", "TBool"), ("zL_f32", "x float32", "py.List(x)", "TF32"),
            ("zL_f64", "x float64", "py.List(x)", "TF64"), ("zL_str", "x string", "py.List(x)", "TStr"),
            ("zL_bytes", "x []byte", "py.List(x)", "TSlice"), ("zL_arr4", "x [4]byte", "py.List(x)", "(TArr 4)"),
            ("zL_c64", "x complex64", "py.List(x)", "TC64"), ("zL_c128", "x complex128", "py.List(x)", "TC128"),
            ("zL_obj", "x *py.Object", "py.List(x)", "TObj"), ("zL_ptr", "x unsafe.Pointer", "py.List(x)", "TPtr"),
            ("zT_int16", "x int16", "py.Tuple(x)", "TInt 16 true"), ("zT_str", "x string", "py.Tuple(x)", "TStr")]
    for name, par, body, ty in irf:
        m += ["func %s(%s) *py.Object { return %s }" % (name, par, body), ""]
        facts["ir_funcs"].append({"name": name, "ty": ty, "tuple": name.startswith("zT_")})
    # ---- multi-element lists / tuples: index order ----
    multi = [("zM_list5", "a int8, b uint32, c float32, d string, e bool", "py.List(a, b, c, d, e)", 5, False),
             ("zM_tuple3", "a int64, b uint8, c float64", "py.Tuple(a, b, c)", 3, True),
             ("zM_list0", "", "py.List()", 0, False), ("zM_tuple6", "a, b, c, d, e, f int16", "py.Tuple(a, b, c, d, e, f)", 6, True)]
    for name, par, body, n, tup in multi:
        m += ["func %s(%s) *py.Object { return %s }" % (name, par, body), ""]
        facts["lists"].append({"name": name, "n": n, "tuple": tup})
    # ---- call sites, one function each (IR compared with py_call) ----
    def consts(n, base=1):
        return ", ".join("py.LongLong(%d)" % (base + i) for i in range(n))
    callf = []
    for n in range(7):
        callf.append(("zcall_f%d" % n, "vb.F%d(%s)" % (n, consts(n)), "vmod.f%d" % n, n, False, False, n))
    for n in (0, 1, 2, 6):
        callf.append(("zcall_va%d" % n, "vb.Va(%s)" % consts(n), "vmod.va", 1, True, True, n))
    callf.append(("zcall_y", "vbs.Y(%s)" % consts(2), "vmod.sub.y", 2, False, False, 2))
    for name, expr, target, nparams, variadic, valist, nargs in callf:
        m += ["func %s() *py.Object { return %s }" % (name, expr), ""]
        facts["calls"].append({"name": name, "target": target, "nparams": nparams, "variadic": variadic, "valist": valist, "nargs": nargs})
    # ---- main: values ----
    m += ["func main() {", '\tprintln("MAIN")', "\t_, _ = u1.X, u2.Z"]
    for t, w, s in INT_TYPES:
        tbl = "[]%s{%s}" % (t, ", ".join(str(v) for v in pools[t]))
        rd = "int64(v) == o.LongLong()" if s else "uint64(v) == o.UlongLong()"
        rd2 = ("%s(o.LongLong()) == v" if s else "%s(o.UlongLong()) == v") % t
        m += ["\tfor i, v := range %s {" % tbl, "\t\to := zL_%s(v).ListItem(0)" % t,
              '\t\tok(%s && %s, "%s", i)' % (rd, rd2, t),
              '\t\tvb.Show(py.Str("%s"), idx(i), zL_%s(v))' % (t, t), "\t}"]
        for i, v in enumerate(pools[t]):
            facts["vals"].append({"tag": t, "idx": i, "go": ["VInt %d %s %d" % (w, "true" if s else "false", v % (1 << w))], "tuple": False})
    m += ["\tfor i, b := range []uint32{%s} {" % ", ".join("0x%x" % b for b in f32), "\t\tv := f32f(b)",
          "\t\to := zL_f32(v).ListItem(0)", '\t\tok(v != v || f64b(o.Float64()) == f64b(float64(v)), "f32", i)',
          '\t\tvb.Show(py.Str("f32"), idx(i), zL_f32(v))', "\t}"]
    for i, b in enumerate(f32):
        facts["vals"].append({"tag": "f32", "idx": i, "go": ["VF32 %d" % b], "tuple": False})
    m += ["\tfor i, b := range []uint64{%s} {" % ", ".join("0x%x" % b for b in f64), "\t\tv := f64f(b)",
          "\t\to := zL_f64(v).ListItem(0)", '\t\tok(v != v || f64b(o.Float64()) == b, "f64", i)',
          '\t\tvb.Show(py.Str("f64"), idx(i), zL_f64(v))', "\t}"]
    for i, b in enumerate(f64):
        facts["vals"].append({"tag": "f64", "idx": i, "go": ["VF64 %d" % b], "tuple": False})
    m += ["\tfor i, v := range []bool{false, true} {", '\t\tvb.Show(py.Str("bool"), idx(i), zL_bool(v))', "\t}"]
    facts["vals"] += [{"tag": "bool", "idx": 0, "go": ["VBool false"], "tuple": False}, {"tag": "bool", "idx": 1, "go": ["VBool true"], "tuple": False}]
    m += ["\tfor i, v := range []string{%s} {" % ", ".join(go_str(s) for s in STRS),
          '\t\tvb.Show(py.Str("str"), idx(i), zL_str(v))', '\t\tvb.Show(py.Str("tstr"), idx(i), zT_str(v))', "\t}"]
    for i, s in enumerate(STRS):
        facts["vals"].append({"tag": "str", "idx": i, "go": ["VStr [%s]" % "; ".join(str(x) for x in s)], "tuple": False})
        facts["vals"].append({"tag": "tstr", "idx": i, "go": ["VStr [%s]" % "; ".join(str(x) for x in s)], "tuple": True})
    m += ["\tfor i, v := range [][]byte{%s} {" % ", ".join(go_bytes(b) for b in BYTES),
          '\t\tvb.Show(py.Str("bytes"), idx(i), zL_bytes(v))', "\t}"]
    for i, b in enumerate(BYTES):
        facts["vals"].append({"tag": "bytes", "idx": i, "go": ["VSlice [%s]" % "; ".join(str(x) for x in b)], "tuple": False})
    arrs = [[0, 0, 0, 0], [1, 2, 3, 4], [255, 0, 128, 127]]
    m += ["\tfor i, v := range [][4]byte{%s} {" % ", ".join("{%s}" % ", ".join(map(str, a)) for a in arrs),
          '\t\tvb.Show(py.Str("arr4"), idx(i), zL_arr4(v))', "\t}"]
    for i, a in enumerate(arrs):
        facts["vals"].append({"tag": "arr4", "idx": i, "go": ["VArr [%s]" % "; ".join(map(str, a))], "tuple": False})
    cpx = [(0x3f800000, 0xbf800000), (0x7f800000, 0), (1, 0x80000000)]
    m += ["\tfor i, v := range [][2]uint32{%s} {" % ", ".join("{0x%x, 0x%x}" % c for c in cpx),
          '\t\tvb.Show(py.Str("c64"), idx(i), zL_c64(complex(f32f(v[0]), f32f(v[1]))))', "\t}"]
    for i, c in enumerate(cpx):
        facts["vals"].append({"tag": "c64", "idx": i, "go": ["VC64 %d %d" % c], "tuple": False})
    # multi-element, mixed
    mixed = []
    for i in range(10):
        a = rng.choice(pools["int8"]); b = rng.choice(pools["uint32"]); cc = rng.choice(f32[:7] + f32[11:])
        d = rng.choice(STRS[:8]); e = rng.random() < 0.5
        mixed.append((a, b, cc, d, e))
    for i, (a, b, cc, d, e) in enumerate(mixed):
        m += ['\tvb.Show(py.Str("mixed"), idx(%d), zM_list5(%d, %d, f32f(0x%x), %s, %s))' % (i, a, b, cc, go_str(d), "true" if e else "false")]
        facts["vals"].append({"tag": "mixed", "idx": i, "tuple": False,
                              "go": ["VInt 8 true %d" % (a % 256), "VInt 32 false %d" % b, "VF32 %d" % cc,
                                     "VStr [%s]" % "; ".join(str(x) for x in d), "VBool %s" % ("true" if e else "false")]})
    for i in range(6):
        vs = [rng.choice(pools["int16"]) for _ in range(6)]
        m += ['\tvb.Show(py.Str("t6"), idx(%d), zM_tuple6(%s))' % (i, ", ".join(map(str, vs)))]
        facts["vals"].append({"tag": "t6", "idx": i, "tuple": True, "go": ["VInt 16 true %d" % (v % 65536) for v in vs]})
    m += ['\tvb.Show(py.Str("empty"), idx(0), zM_list0())']
    facts["vals"].append({"tag": "empty", "idx": 0, "tuple": False, "go": []})
    # nested: objects pass through unchanged
    m += ['\tvb.Show(py.Str("nested"), idx(0), py.List(zM_tuple3(-5, 200, f64f(0x3ff8000000000000)), py.Tuple(zL_str("z"), py.List()), int64(-128)))']
    facts["nested"] = "PList [PTuple [PLong (-5); PLong 200; PFloat 4609434218613702656]; PTuple [PList [PStr [122]]; PList []]; PLong (-128)]"
    # ---- calls with arguments across the 64-bit range ----
    args64 = [0, 1, -1, (1 << 63) - 1, -(1 << 63), 1 << 32, -(1 << 31), 255, -256] + [rng.randint(-(1 << 63), (1 << 63) - 1) for _ in range(6)]
    facts["callruns"] = []
    for n in range(7):
        for rep in range(3):
            a = [rng.choice(args64) for _ in range(n)]
            m += ["\tvb.Show(py.Str(\"ret\"), idx(%d), vb.F%d(%s))" % (len(facts["callruns"]), n, ", ".join("py.LongLong(%d)" % v for v in a))]
            facts["callruns"].append({"fn": "vmod.f%d" % n, "args": a})
    for n in (0, 1, 3, 6):
        a = [rng.choice(args64) for _ in range(n)]
        m += ["\tvb.Show(py.Str(\"ret\"), idx(%d), vb.Va(%s))" % (len(facts["callruns"]), ", ".join("py.LongLong(%d)" % v for v in a))]
        facts["callruns"].append({"fn": "vmod.va", "args": a})
    m += ['\tvb.Show(py.Str("ret"), idx(%d), vbs.S1(vc.G1(py.Str("deep"))))' % len(facts["callruns"])]
    m += ['\tvb.Show(py.Str("attr"), idx(0), vb.Answer)']
    m += ['\tprintln("RT", nOK, nFail)', "}"]
    files["main.go"] = "\n".join(m) + "\n"
    # packages in init order facts for the module-import model
    facts["init_events_expected_by_generator"] = None
    return files, py, facts


# the witness program for ordinary variadic prototypes (func F(args ...*py.Object)),
# which lib/py itself uses (e.g. py/math.Hypot): the Go slice header is passed by value
def gen_variadic_witness():
    files = {"vb/vb.go": '''package vb

import (
	_ "unsafe"

	"github.com/goplus/lib/py"
)

const LLGoPackage = "py.vmod"

//go:linkname Echo py.f3
func Echo(args ...*py.Object) *py.Object
''', "main.go": '''package main

import (
	"github.com/goplus/lib/py"
	"verifprog/vb"
)

func call_plain3() *py.Object { return vb.Echo(py.LongLong(1), py.LongLong(2), py.LongLong(3)) }

func main() {
	println("MAIN")
	r := call_plain3()
	println("RETURNED", r.TupleLen())
}
'''}
    return files


# witness for the root cause of the missing extensions: Builder.PyVal writes the widened LLVM
# type into the shared descriptor of the Go type, so Go code compiled afterwards in the same
# build (functions are compiled in sorted order) treats int8 as a 64-bit integer
def gen_typeleak_witness():
    return {"main.go": '''package main

import "github.com/goplus/lib/py"

func A_first(x int32, y int8) *py.Object { return py.List(x, y) }

type S struct {
	A int8
	B int8
}

//go:noinline
func z_second(p *S) int8 { return p.B }

//go:noinline
func z_set(p *S, v int8) { p.A = v }

func main() {
	println("MAIN")
	o := A_first(-5, -6)
	s := &S{1, 2}
	t := &S{7, 9}
	z_set(t, -1)
	println("FIELD", t.A, t.B, z_second(s), o.ListItem(1).LongLong())
}
'''}


# A program whose main package does not use Python itself; Python is used by two other packages
# that need neither the Go runtime nor link arguments:
#   pa - through a module function only (vmod.f2)
#   pb - through conversions (py.List of narrow values) and a module variable (vmod.answer) only
# It is built three times against one package cache: cold, unchanged (everything cached), and with
# only main.go edited (pa, pb, vb come from the cache).  Every build must initialise the interpreter
# before the first use and every run must print the expected lines.
def gen_cache_program(version):
    a, b, x, bits = [(3, 4, -7, 0x3fc00000), (84, 36, -32768, 0xc2c80000)][version]
    files = {"vb/vb.go": '''package vb

import (
	_ "unsafe"

	"github.com/goplus/lib/py"
)

const LLGoPackage = "py.vmod"

//go:linkname F2 py.f2
func F2(a, b *py.Object) *py.Object

//go:linkname Answer py.answer
var Answer *py.Object
''', "pa/pa.go": '''package pa

import (
	"github.com/goplus/lib/c"
	"github.com/goplus/lib/py"
	"verifprog/vb"
)

// Call2 calls vmod.f2(a, b); the result is the tuple (b, a).
func Call2(a, b int64) *py.Object {
	return vb.F2(py.LongLong(c.LongLong(a)), py.LongLong(c.LongLong(b)))
}
''', "pb/pb.go": '''package pb

import (
	"github.com/goplus/lib/py"
	"verifprog/vb"
)

func Conv(x int16, y float32) *py.Object { return py.List(x, y) }

func Answer() int64 { return int64(vb.Answer.LongLong()) }
''', "main.go": '''package main

import (
	"unsafe"

	"verifprog/pa"
	"verifprog/pb"
)

func f32f(b uint32) float32 { return *(*float32)(unsafe.Pointer(&b)) }
func f64b(f float64) uint64 { return *(*uint64)(unsafe.Pointer(&f)) }

func main() {
	println("MAIN v%d")
	r := pa.Call2(%d, %d)
	println("RET", r.TupleLen(), int64(r.TupleItem(0).LongLong()), int64(r.TupleItem(1).LongLong()))
	l := pb.Conv(%d, f32f(0x%x))
	println("CONV", int64(l.ListItem(0).LongLong()), f64b(l.ListItem(1).Float64()))
	println("ANS", pb.Answer())
}
''' % (version, a, b, x, bits)}
    import struct
    wide = struct.unpack("<Q", struct.pack("<d", struct.unpack("<f", struct.pack("<I", bits))[0]))[0]
    expect = ["IMPORT vmod", "MAIN v%d" % version, "CALL vmod.f2 T(I%d I%d)" % (a, b), "RET 2 %d %d" % (b, a),
              "CONV %d %d" % (x, wide), "ANS 42"]
    govals = ["VInt 16 true %d" % (x % 65536), "VF32 %d" % bits]
    return files, expect, govals, (x, wide)
