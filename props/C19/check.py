"""C19 - Go and Python exchange values and calls without loss.

T2: the IR the working tree emits for one-conversion functions (py.List(x) for
every Go type), multi-element py.List/py.Tuple, call sites of arity 0-6 and
__llgo_va_list variadics, the symbol loading in package inits and the module
import in binding packages is reduced syntactically and compared inside Coq with
C19.Model (val_step, list_plan, py_call/lower_args, load_mod_syms).
E: one generated program (harness: progs.py) is built by the working tree's
internal/build, linked against libpython3.11 and run: every Go value handed to
Python is printed canonically by Python and compared with the model inside Coq,
read back in Go (round trip), calls print the arguments the callee received,
modules print when they are imported.  A ctypes harness compares the model's
reading of the C API contracts with CPython directly."""
import collections, ctypes, json, os, re, struct, sys
import vlib, e2e

HERE = os.path.dirname(os.path.abspath(__file__))
sys.path.insert(0, HERE)
import progs  # noqa: E402

API = {"PyBool_FromLong": "ABool", "PyLong_FromLongLong": "ALL", "PyLong_FromUnsignedLongLong": "AULL",
       "PyFloat_FromDouble": "AFloat", "PyUnicode_FromStringAndSize": "AUnicode",
       "PyByteArray_FromStringAndSize": "AByteArray", "PyBytes_FromStringAndSize": "ABytes",
       "PyComplex_FromDoubles": "AComplex"}
NARROW = {"TInt 8 true": "int8", "TInt 16 true": "int16", "TInt 32 true": "int32",
          "TInt 8 false": "uint8", "TInt 16 false": "uint16", "TInt 32 false": "uint32", "TBool": "bool"}


# ---------------------------------------------------------------- IR parsing
def parse_module(ir):
    fns, cur, consts, globs = {}, None, {}, {}
    for line in ir.splitlines():
        m = re.match(r'@("[^"]+"|[\w.$]+) = (\w+(?: \w+)*?) (?:global|constant) (.*)', line)
        if m and cur is None:
            name = m.group(1).strip('"')
            globs[name] = m.group(2)
            mc = re.match(r'\[\d+ x i8\] c"((?:[^"\\]|\\[0-9A-Fa-f]{2})*)"', m.group(3))
            if mc:
                consts[name] = re.sub(r"\\([0-9A-Fa-f]{2})", lambda mm: chr(int(mm.group(1), 16)), mc.group(1)).encode("latin-1")
            continue
        m = re.match(r'define\s+.*?@("[^"]+"|[\w.$]+)\((.*)\)\s*(#\d+\s*)?\{', line)
        if m:
            cur = (m.group(1).strip('"'), m.group(2), [])
            continue
        if cur is not None:
            if line.startswith("}"):
                fns[cur[0]] = (cur[1], cur[2])
                cur = None
            elif line.strip():
                cur[2].append(line.strip())
    return fns, consts, globs


def split_args(s):
    out, depth, cur = [], 0, ""
    for ch in s:
        if ch == "," and depth == 0:
            out.append(cur.strip())
            cur = ""
        else:
            depth += ch in "([{<"
            depth -= ch in ")]}>"
            cur += ch
    if cur.strip():
        out.append(cur.strip())
    return out


def defs_of(lines):
    d = {}
    for l in lines:
        m = re.match(r"(%\d+) = (.*)", l)
        if m:
            d[m.group(1)] = m.group(2)
    return d


def trace_conv(tok, defs, depth=0):
    """operand of a constructor call -> (conv term, source) following single-operand conversions"""
    tok = tok.strip()
    ty, _, val = tok.rpartition(" ")
    if not val.startswith("%") or val not in defs:
        return "CId", val
    d = defs[val]
    m = re.fullmatch(r"(sext|zext) i(\d+) (%\d+) to i(\d+)", d)
    if m:
        return "C%sExt %s %s" % ("S" if m.group(1) == "sext" else "Z", m.group(2), m.group(4)), m.group(3)
    m = re.fullmatch(r"fpext float (%\d+) to double", d)
    if m:
        _, src = trace_conv("x " + m.group(1), defs, depth + 1)
        return "CFPExt", src
    m = re.fullmatch(r"ptrtoint ptr (%\d+) to i64", d)
    if m:
        return "CPtrToInt", m.group(1)
    m = re.fullmatch(r'extractvalue .* (%\d+), (\d+)', d)
    if m:
        return "CId", m.group(1) + "." + m.group(2)
    if d.startswith("getelementptr") or d.startswith("load") or d.startswith("alloca"):
        return "CId", val
    return "CId", val


def reduce_build(lines):
    """py.List / py.Tuple construction -> dict(kind, n, items=[(index, api|None, [convs], [sources])]) or (None, why)"""
    defs = defs_of(lines)
    new = [(k, re.fullmatch(r"call ptr @Py(List|Tuple)_New\(i64 (\d+)\)", v)) for k, v in defs.items()]
    new = [(k, m) for k, m in new if m]
    if len(new) != 1:
        return None, "not exactly one New call"
    lst, m = new[0]
    kind, n = m.group(1), int(m.group(2))
    items = []
    for l in lines:
        m = re.fullmatch(r"(?:%\d+ = )?call i\d+ @Py(List|Tuple)_SetItem\(ptr (%\d+), i64 (\d+), ptr (%\d+)\)", l)
        if not m:
            continue
        if m.group(1) != kind or m.group(2) != lst:
            return None, "SetItem on another object"
        v = m.group(4)
        d = defs.get(v)
        if d is None:                      # a parameter: the object is passed through
            items.append((int(m.group(3)), None, [], [v]))
            continue
        mc = re.fullmatch(r"call ptr @(\w+)\((.*)\)", d)
        if not mc or mc.group(1) not in API:
            return None, "item produced by %s" % d[:60]
        convs, srcs = [], []
        for a in split_args(mc.group(2)):
            c, s = trace_conv(a, defs)
            convs.append(c)
            srcs.append(s)
        items.append((int(m.group(3)), API[mc.group(1)], convs, srcs))
    return {"kind": kind, "n": n, "items": items}, None


def reduce_call(lines):
    """the PyObject_Call* in a call-site function -> (api, target symbol, [arg]) ; arg = int const | None (NULL) | 'slice'"""
    defs = defs_of(lines)
    for l in lines:
        m = re.fullmatch(r"%\d+ = call ptr (?:\(ptr, \.\.\.\) )?@(PyObject_Call\w+)\((.*)\)", l)
        if not m:
            continue
        args = split_args(m.group(2))
        fm = re.fullmatch(r"ptr (%\d+)", args[0])
        tgt = re.fullmatch(r"load ptr, ptr @__llgo_py\.([\w.]+), align 8", defs.get(fm.group(1), "")) if fm else None
        out = []
        for a in args[1:]:
            if a == "ptr null":
                out.append(None)
                continue
            am = re.fullmatch(r"ptr (%\d+)", a)
            d = defs.get(am.group(1), "") if am else ""
            cm = re.fullmatch(r"call ptr @PyLong_FromLongLong\(i64 (-?\d+)\)", d)
            out.append(int(cm.group(1)) if cm else "slice")
        return (m.group(1), tgt.group(1) if tgt else "?", out), None
    return None, "no PyObject_Call*"


def reduce_loads(lines, consts):
    """llgoLoadPyModSyms calls of an init function -> [(module symbol, [symbol names])] ; also checks name strings"""
    defs = defs_of(lines)
    out, bad = [], []
    for l in lines:
        m = re.fullmatch(r"call void \(ptr, \.\.\.\) @llgoLoadPyModSyms\((.*)\)", l)
        if not m:
            continue
        args = split_args(m.group(1))
        mm = re.fullmatch(r"ptr (%\d+)", args[0])
        mod = re.fullmatch(r"load ptr, ptr @(__llgo_py\.[\w.]+), align 8", defs.get(mm.group(1), "")) if mm else None
        modname = mod.group(1) if mod else "?"
        if args[-1] != "ptr null":
            bad.append("no NULL sentinel")
        syms = []
        rest = args[1:-1]
        for i in range(0, len(rest) - 1, 2):
            cs = re.search(r"ptr @(\d+)", rest[i])
            sym = re.fullmatch(r"ptr @(__llgo_py\.[\w.]+)", rest[i + 1])
            if not cs or not sym:
                bad.append("argument shape")
                continue
            cname = consts.get(cs.group(1), b"?").rstrip(b"\x00").decode("latin-1")
            if sym.group(1) != modname + "." + cname:
                bad.append("name %r loaded into %s of module %s" % (cname, sym.group(1), modname))
            syms.append(sym.group(1))
        out.append((modname, syms))
    return out, bad


def binding_shape(lines, consts, mod):
    """init of a binding package: the import must be guarded by var == nil and stored into the module variable"""
    txt = "\n".join(lines)
    var = "@__llgo_py." + mod
    m = re.search(r"(%\d+) = load ptr, ptr " + re.escape(var) + r", align 8\n(%\d+) = icmp ne ptr \1, null\nbr i1 \2, label %([\w.]+), label %([\w.]+)", txt)
    if not m:
        return "no `if var != nil` test of %s" % var
    imp = re.findall(r"(%\d+) = call ptr @PyImport_ImportModule\(ptr getelementptr inbounds \(\[\d+ x i8\], ptr @(\d+),", txt)
    if len(imp) != 1:
        return "%d import calls" % len(imp)
    if consts.get(imp[0][1], b"").rstrip(b"\x00").decode() != mod:
        return "imports %r" % consts.get(imp[0][1])
    if "store ptr %s, ptr %s, align 8" % (imp[0][0], var) not in txt:
        return "result of the import is not stored into %s" % var
    blk = re.search(r"\n%s:.*?\n(.*?)(?=\n[\w.]+:|\Z)" % re.escape(m.group(4)), "\n" + txt, re.S)
    if not blk or "PyImport_ImportModule" not in blk.group(1):
        return "the import is not in the var == nil branch"
    return None


# ---------------------------------------------------------------- Coq encodings
def coq_bool(b):
    return "true" if b else "false"


def coq_step(api, convs):
    return "(%s, [%s])" % ("Some " + api if api else "None", "; ".join(convs))


def coq_name(s):
    return "[" + "; ".join(str(b) for b in s.encode()) + "]"


def parse_canon(s):
    """canonical text printed by the Python side -> Coq pyval term"""
    toks = re.findall(r"[LT]\(|\)|[^\s()]+", s)
    pos = [0]

    def one():
        t = toks[pos[0]]
        pos[0] += 1
        if t in ("L(", "T("):
            xs = []
            while toks[pos[0]] != ")":
                xs.append(one())
            pos[0] += 1
            return "%s [%s]" % ("PList" if t == "L(" else "PTuple", "; ".join(xs))
        k, v = t[0], t[1:]
        hexl = lambda h: "[" + "; ".join(str(b) for b in bytes.fromhex(h)) + "]"
        if k == "N":
            return "PNull"
        if k == "B":
            return "PBool " + ("true" if v == "1" else "false")
        if k == "I":
            return "PLong (%s)" % v
        if k == "F":
            return "PFloat %s" % ("9221120237041090560" if v == "nan" else v)
        if k == "C":
            a, b = v.split(",")
            f = lambda x: "9221120237041090560" if x == "nan" else x
            return "PComplex %s %s" % (f(a), f(b))
        if k == "S":
            return "PStr " + hexl(v)
        if k == "Y":
            return "PByteArray " + hexl(v)
        if k == "X":
            return "PBytes " + hexl(v)
        raise ValueError("canon token " + t)
    r = one()
    if pos[0] != len(toks):
        raise ValueError("trailing canon")
    return r


def read_evaluated(out, name):
    m = re.search(name + r"\s*=\s*\[(.*?)\]\s*:", out, re.S)
    return None if not m else [int(x) for x in re.findall(r"\d+", m.group(1))]


# ---------------------------------------------------------------- CPython contracts (ctypes)
def capi_contract_cases():
    """evaluate the documented C-API contracts on CPython directly; returns Coq cases for c_ops"""
    api = ctypes.pythonapi
    api.PyLong_FromLongLong.restype = ctypes.py_object
    api.PyLong_FromLongLong.argtypes = [ctypes.c_longlong]
    api.PyLong_FromUnsignedLongLong.restype = ctypes.py_object
    api.PyLong_FromUnsignedLongLong.argtypes = [ctypes.c_ulonglong]
    api.PyBool_FromLong.restype = ctypes.py_object
    api.PyBool_FromLong.argtypes = [ctypes.c_long]
    api.PyFloat_FromDouble.restype = ctypes.py_object
    api.PyFloat_FromDouble.argtypes = [ctypes.c_double]
    api.PyLong_AsLongLong.restype = ctypes.c_longlong
    api.PyLong_AsLongLong.argtypes = [ctypes.py_object]
    api.PyLong_AsUnsignedLongLong.restype = ctypes.c_ulonglong
    api.PyLong_AsUnsignedLongLong.argtypes = [ctypes.py_object]
    api.PyUnicode_FromStringAndSize.restype = ctypes.py_object
    api.PyUnicode_FromStringAndSize.argtypes = [ctypes.c_char_p, ctypes.c_ssize_t]
    pool = [0, 1, 2, 127, 128, 255, 256, 0x7fff, 0x8000, 0xffff, 0x7fffffff, 0x80000000, 0xffffffff, 1 << 32,
            (1 << 63) - 1, 1 << 63, (1 << 63) + 1, (1 << 64) - 1, (1 << 64) - 2, 0xdeadbeefcafebabe]
    terms = []
    for b in pool:
        sb = b - (1 << 64) if b >= (1 << 63) else b
        terms.append("(o_ll c_ops %d, PLong (%d))" % (b, api.PyLong_FromLongLong(sb)))
        terms.append("(o_ull c_ops %d, PLong (%d))" % (b, api.PyLong_FromUnsignedLongLong(b)))
    for v in (0, 1, -1, 2, -2147483648):
        terms.append("(o_bool c_ops (%d), PBool %s)" % (v, coq_bool(api.PyBool_FromLong(v))))
    rd = []
    for z in [0, 1, -1, (1 << 63) - 1, -(1 << 63), 1 << 63, -(1 << 63) - 1, (1 << 64) - 1, 1 << 64, -5, 12345678901234567890]:
        try:
            r = api.PyLong_AsLongLong(z)
            a = "Some %d" % (r % (1 << 64))
        except (OverflowError, TypeError):
            a = "None"
        try:
            r = api.PyLong_AsUnsignedLongLong(z)
            u = "Some %d" % r
        except (OverflowError, TypeError):
            u = "None"
        rd.append("((o_as_ll c_ops (PLong (%d)), o_as_ull c_ops (PLong (%d))), (%s, %s))" % (z, z, a, u))
    s = api.PyUnicode_FromStringAndSize(b"a\x00b", 3)
    extra = {"unicode_keeps_nul": s == "a\x00b"}
    try:
        api.PyUnicode_FromStringAndSize(b"\xff\xfe", 2)
        extra["invalid_utf8"] = "accepted"
    except UnicodeDecodeError:
        extra["invalid_utf8"] = "UnicodeDecodeError (NULL result)"
    return terms, rd, extra


def run(ck):
    ck.trusted = ["Coq 8.16.1 kernel (coqc, vm_compute)", "props/C19/check.py IR reducers and canonical-text parser (syntactic)",
                  "props/C19/harness/pygen (driver around internal/build.Do, ModeBuild -O0)", "props/C19/progs.py generator and its Python modules",
                  "CPython 3.11 (system libpython3.11 in the linked program; ctypes.pythonapi of the checking interpreter for the contract cases)",
                  "e2e shims (LLVM 14, GNU ld)", "coq/theories/C12 (init order model and theorems) for module_imported_once_before_use"]
    ck.assumptions = ["the C-API contracts are Section hypotheses of the theorems (documented behaviour of CPython); they are compared with CPython on boundary values by the ctypes harness",
                      "fpext float->double is the exact IEEE conversion (f32_widen); NaN payloads are not compared",
                      "arguments of Python calls are non-NULL objects (a failed conversion, e.g. a Go string that is not UTF-8, yields NULL and ends the argument list)"]
    ok, _ = ck.coq_build(["C12", "C19"])
    ck.coq_props("LLGoV.C19.Props", "theories/C19/Props.v")
    ck.phase("coq built")

    L = e2e.LLGo(ck, tools=())
    rc, out, drv = L.overlay_build("chore/verifpygen", {"main.go": os.path.join(HERE, "harness", "pygen", "main.go")}, "pygen")
    if rc != 0:
        ck.correspondence_broken("pygen-build", out[-2500:])
        return ck.finish()
    ck.phase("driver built")
    hdr = "From LLGoV Require Import C19.Model.\nLocal Open Scope Z_scope.\n"
    gosum = "".join(l for l in open(os.path.join(vlib.REPO, "go.sum")) if l.startswith("github.com/goplus/lib "))

    def build(name, files, py=None):
        d = os.path.join(ck.work, name)
        e2e.write_module(d, files)
        open(os.path.join(d, "go.mod"), "a").write("\nrequire github.com/goplus/lib v0.3.1\n")
        open(os.path.join(d, "go.sum"), "w").write(gosum)
        for k, v in (py or {}).items():
            p = os.path.join(d, "pylib", k)
            os.makedirs(os.path.dirname(p), exist_ok=True)
            open(p, "w").write(v)
        os.makedirs(os.path.join(d, "ir"), exist_ok=True)
        binp = os.path.join(d, "p_llgo")
        rc, log = vlib.sh([drv, "-irdir", os.path.join(d, "ir"), "-o", binp, "."], cwd=d, env=L.env(), timeout=1200)
        return d, binp, rc, log

    def rebuild(d, files=None):
        """build the module in d again with the SAME llgo package cache (optionally after editing files)"""
        for k, v in (files or {}).items():
            open(os.path.join(d, k), "w").write(v)
        binp = os.path.join(d, "p_llgo")
        if os.path.exists(binp):
            os.remove(binp)
        rc, log = vlib.sh([drv, "-irdir", os.path.join(d, "ir"), "-o", binp, "."], cwd=d, env=L.env(), timeout=1200)
        return binp, rc, log

    def entry_calls(binp):
        rcx, dis = vlib.sh("objdump -d --no-show-raw-insn %s | awk '/<main>:/,/ret/'" % binp, timeout=120)
        return re.findall(r"call\s+\w+ <([^>@]+)", dis)

    def check_start(binp, proc, step, replay):
        """a linked program that uses Python must call Py_Initialize before anything else of the program
        runs; returns False (and records the violation) when the interpreter is not started or the program dies"""
        calls = entry_calls(binp)
        if "Py_Initialize" not in calls or (calls and calls.index("Py_Initialize") != 0):
            ck.violation("python-not-initialised-before-first-use",
                         "%s: the entry function of the linked program %s (calls: %s); the program exits %s" % (
                             step, "does not call Py_Initialize" if "Py_Initialize" not in calls else "calls Py_Initialize too late",
                             calls[:5], proc.returncode if proc else "?"), dict(replay, step=step, entry_calls=calls))
            return False
        return True

    files, py, facts = progs.gen_program(ck.seed)
    d, binp, rc, log = build("prog", files, py)
    if rc != 0:
        ck.correspondence_broken("program-build", {"log": log[-2500:]})
        return ck.finish()
    ck.phase("program built")
    env = L.env({"PYTHONPATH": os.path.join(d, "pylib")})
    p = __import__("subprocess").run([binp], env=env, stdout=-1, stderr=-1, text=True, errors="replace", timeout=300)
    lines = p.stderr.splitlines()
    pkgfiles = dict(re.findall(r"^PKG (\S+) (\S+)$", log, re.M))
    mods = {k: parse_module(open(v).read()) for k, v in pkgfiles.items() if k.startswith("verifprog") and v != "-"}
    fns, consts, globs = mods["verifprog"]
    classes = collections.Counter()

    # ================= T2-a: one conversion per function vs val_step =================
    # the model is the fixed lowering (val_step_of true: every conversion of a narrow integer is
    # extended).  A tree without the fix "PyVal: do not widen the shared type descriptor" extends the
    # first conversion of each narrow type only (compile order of function bodies = sorted member
    # names, cl processPkg); such IR is recognised through val_step_of false and reported under the
    # specific key, anything else is a broken correspondence
    order = sorted(fns)
    seen = set()
    step_terms, step_raw = [], []
    by_name = {f["name"]: f for f in facts["ir_funcs"]}
    multi = {f["name"]: f for f in facts["lists"]}
    MULTI_TYPES = {"zM_list5": ["TInt 8 true", "TInt 32 false", "TF32", "TStr", "TBool"],
                   "zM_tuple3": ["TInt 64 true", "TInt 8 false", "TF64"], "zM_list0": [],
                   "zM_tuple6": ["TInt 16 true"] * 6}
    plan_terms, plan_raw = [], []
    for name in order:
        short = name[len("verifprog."):]
        if short not in by_name and short not in multi:
            continue
        red, why = reduce_build(fns[name][1])
        tys = [by_name[short]["ty"]] if short in by_name else MULTI_TYPES[short]
        tup = by_name[short]["tuple"] if short in by_name else multi[short]["tuple"]
        if red is None or red["kind"] != ("Tuple" if tup else "List") or len(red["items"]) != len(tys):
            ck.correspondence_broken("ir-reduction:" + short, why or red)
            continue
        for (i, api, convs, srcs), ty in zip(red["items"], tys):
            first = NARROW.get(ty) not in seen
            if ty in NARROW:
                seen.add(NARROW[ty])
            if ty == "TBool":                       # the i32 target of the bool conversion is widened by int32's first use
                first_b = "int32" not in seen or short == "zL_bool"
                first = first_b
            step_terms.append("((%s, %s), %s)" % (ty, coq_bool(first), coq_step(api, convs)))
            step_raw.append({"function": short, "item": i, "type": ty, "first_use_of_type": first, "api": api, "convs": convs})
            classes["conv:" + ty.split()[0]] += 1
        # index order: SetItem index i carries argument i (sources are parameters in order)
        srcs = [it[3][0] for it in red["items"]]
        plan_terms.append("(%d%%nat, (%d, [%s]))" % (len(tys), red["n"], "; ".join("(%d, %d)" % (it[0], k) for k, it in enumerate(red["items"]))))
        nparams = len(split_args(fns[name][0]))
        nums = [int(s[1:]) for s in srcs if re.fullmatch(r"%\d+", s) and int(s[1:]) < nparams]
        plan_raw.append({"function": short, "n": red["n"], "indexes": [it[0] for it in red["items"]], "sources": srcs})
        if nums != sorted(nums):
            ck.correspondence_broken("list-sources-out-of-order:" + short, srcs)

    # ================= T2-c: call sites vs py_call =================
    call_terms, call_raw = [], []
    for c in facts["calls"]:
        red, why = reduce_call(fns["verifprog." + c["name"]][1])
        if red is None:
            ck.correspondence_broken("ir-reduction:" + c["name"], why)
            continue
        api, tgt, args = red
        if tgt != c["target"]:
            ck.correspondence_broken("call-target:" + c["name"], {"ir": tgt, "want": c["target"]})
        enc = lambda a: "None" if a is None else "(Some (%d))" % (-1 if a == "slice" else a)
        obs = {"PyObject_CallNoArgs": "CallNoArgs 0", "PyObject_CallOneArg": "CallOneArg 0 (%s)" % (args[0] if args and args[0] not in (None, "slice") else -1),
               "PyObject_CallFunctionObjArgs": "CallObjArgs 0 [%s]" % "; ".join(enc(a) for a in args)}[api]
        nfixed = 0 if c["variadic"] else c["nargs"]
        call_terms.append("(((%d%%nat, %s), (%s, (%s, %s))), %s)" % (
            c["nparams"], coq_bool(c["variadic"]), coq_bool(c["valist"]),
            "[" + "; ".join(str(1 + i) for i in range(nfixed)) + "]",
            "[" + "; ".join(str(1 + nfixed + i) for i in range(c["nargs"] - nfixed)) + "]", obs))
        call_raw.append({"call": c, "ir": [api, tgt, args]})
        classes["call:%s" % api.replace("PyObject_", "")] += 1

    # ================= T2-d: symbol loading in inits vs load_mod_syms =================
    load_terms, load_raw = [], []
    for pkg in ("verifprog", "verifprog/u1", "verifprog/u2"):
        f2, c2, g2 = mods[pkg]
        obs, bad = reduce_loads(f2[pkg + ".init"][1], c2)
        if bad:
            ck.correspondence_broken("modsyms-arguments:" + pkg, bad[:3])
        names = sorted(g for g, kind in g2.items() if g.startswith("__llgo_py.") and "linkonce" in kind)
        load_terms.append("([%s], [%s])" % ("; ".join(coq_name(n) for n in reversed(names)),
                                            "; ".join("(%s, [%s])" % (coq_name(m), "; ".join(coq_name(s) for s in ss)) for m, ss in obs)))
        load_raw.append({"package": pkg, "symbols": names, "emitted": obs})
        modseq = [m for m, _ in obs]
        if len(modseq) != len(set(modseq)):
            dup = [m for m in modseq if modseq.count(m) > 1][0]
            ck.violation("modsyms-interleaved-prefix-loaded-twice",
                         "package %s loads the symbols of %s twice: sorted names of one module are not contiguous (%s)" % (pkg, dup, modseq),
                         load_raw[-1])
        classes["loads:%d" % len(obs)] += 1

    # ================= T2-e: binding packages import under `if var == nil` =================
    for pkg, mod in (("verifprog/vb", "vmod"), ("verifprog/vb2", "vmod"), ("verifprog/vbs", "vmod.sub"), ("verifprog/vc", "vmod2")):
        f2, c2, g2 = mods[pkg]
        why = binding_shape(f2[pkg + ".init"][1], c2, mod)
        if why:
            ck.correspondence_broken("binding-init:" + pkg, why)
        if "linkonce" not in g2.get("__llgo_py." + mod, ""):
            ck.correspondence_broken("module-variable:" + pkg, "module variable is not a linkonce definition: %r" % g2.get("__llgo_py." + mod))

    # ================= E: the run =================
    replay_base = {"seed": ck.seed, "exit": p.returncode, "stderr_tail": lines[-15:]}
    val_terms, val_raw, affected = [], [], []
    if not check_start(binp, p, "first build (cold package cache)", dict(replay_base, files=files)):
        pass
    elif p.returncode != 0 or "MAIN" not in lines:
        ck.violation("python-program-crashed", "the generated Go->Python program exits %d" % p.returncode, dict(replay_base, files=files))
    else:
        mi = lines.index("MAIN")
        pre, post = lines[:mi], lines[mi + 1:]
        # ---- module import: once, before use (property oracle) and model of the init order ----
        imports = [l.split()[1] for l in pre + post if l.startswith("IMPORT ")]
        for mname in ("vmod", "vmod.sub", "vmod2"):
            if imports.count(mname) != 1:
                ck.violation("module-imported-%d-times" % imports.count(mname), "module %s imported %d times" % (mname, imports.count(mname)), replay_base)
        evs = []
        for l in pre:
            if l.startswith("IMPORT "):
                evs.append(("I", l.split()[1]))
            elif l.startswith("CALL "):
                evs.append(("U", l.split()[1].rsplit(".", 1)[0]))
        for i, (k, mname) in enumerate(evs):
            if k == "U" and ("I", mname) not in evs[:i]:
                ck.violation("module-used-before-import", "module %s used before it is imported" % mname, dict(replay_base, events=evs))
        modid = {"vmod": 1, "vmod.sub": 2, "vmod2": 3}
        ev_term = "[" + "; ".join("%s %d" % ("EvImport" if k == "I" else "EvUse", modid.get(mname, 99)) for k, mname in evs) + "]"
        # packages (C12 numbering): 0 lib/c 1 lib/py (both dropped at call sites) 2 vb 3 vbs 4 u1 5 vb2 6 vc 7 u2 8 main
        gterm = ("[{| pk_imps := []; pk_kind := KNormal; pk_skip := true |}; {| pk_imps := [0]; pk_kind := KNormal; pk_skip := true |};"
                 "{| pk_imps := [1]; pk_kind := KNormal; pk_skip := false |}; {| pk_imps := [1]; pk_kind := KNormal; pk_skip := false |};"
                 "{| pk_imps := [0; 1; 2; 3]; pk_kind := KNormal; pk_skip := false |}; {| pk_imps := [1]; pk_kind := KNormal; pk_skip := false |};"
                 "{| pk_imps := [1]; pk_kind := KNormal; pk_skip := false |}; {| pk_imps := [1; 5; 6]; pk_kind := KNormal; pk_skip := false |};"
                 "{| pk_imps := [0; 1; 4; 7; 2; 3; 6]; pk_kind := KNormal; pk_skip := false |}]")
        roles = "[BPlain; BPlain; BBind 1; BBind 2; BUse [1; 2]; BBind 1; BBind 3; BUse [3; 1]; BPlain]"
        text = ("From LLGoV Require Import C12.Model C19.Model.\nLocal Open Scope nat_scope.\nDefinition g : C12.Model.prog := %s.\nLocal Open Scope Z_scope.\n"
                "Definition OKI := Eval vm_compute in (if list_eqb pev_eqb (init_events g [8%%nat] %s) %s then [1%%nat] else []).\nPrint OKI.\n" % (gterm, roles, ev_term))
        rcq, outq = ck.coq_run(text, "c19_imports")
        if rcq != 0 or read_evaluated(outq, "OKI") != [1]:
            ck.correspondence_broken("C19.Model/run_bodies vs observed import/use events", {"events": evs, "coq": outq[-600:]})
        classes["import-events:%d" % len(evs)] += 1
        # ---- values ----
        vals = {}
        for l in post:
            m = re.fullmatch(r"VAL (\w+) (\d+) (.*)", l)
            if m:
                vals.setdefault((m.group(1), int(m.group(2))), m.group(3))
        narrow_first = {}        # element types whose extension is missing in the function used for this tag
        tagfn = {"mixed": "zM_list5", "t6": "zM_tuple6", "tstr": "zT_str"}
        miss = {(r["function"], r["item"]) for r in step_raw if r["api"] in ("ALL", "AULL") and r["convs"] == ["CId"] and r["type"] in NARROW}
        for v in facts["vals"]:
            canon = vals.get((v["tag"], v["idx"]))
            if canon is None:
                ck.violation("value-line-missing", "no VAL line for %s %d" % (v["tag"], v["idx"]), replay_base)
                continue
            fn = tagfn.get(v["tag"], None)
            hit = [k for k in range(len(v["go"])) if fn and (fn, k) in miss]
            try:
                obs = parse_canon(canon)
            except (ValueError, IndexError):
                ck.violation("value-line-unparsable", canon[:100], replay_base)
                continue
            rec = {"tag": v["tag"], "idx": v["idx"], "go": v["go"], "python_saw": canon}
            if hit:
                affected.append((rec, hit))
            else:
                val_terms.append("((%s, ([%s] : list (goval pyval))), %s)" % (coq_bool(v["tuple"]), "; ".join(v["go"]), obs))
                val_raw.append(rec)
            classes["val:" + v["tag"]] += 1
        if ("nested", 0) in vals:
            val_terms.append("((false, ([VObj (%s)] : list (goval pyval))), PList [%s])" % (facts["nested"], parse_canon(vals[("nested", 0)])))
            val_raw.append({"tag": "nested", "python_saw": vals[("nested", 0)]})
        # narrow integers converted without extension: the property oracle decides (Python must see the Go value)
        for rec, hit in affected:
            want = []
            for g in rec["go"]:
                mm = re.fullmatch(r"VInt (\d+) (true|false) (\d+)", g)
                if mm:
                    w, s, b = int(mm.group(1)), mm.group(2) == "true", int(mm.group(3))
                    want.append(b - (1 << w) if s and b >= (1 << (w - 1)) else b)
                else:
                    want.append(None)
            got = re.findall(r"[\w-]+", rec["python_saw"])
            seen_ints = [int(t[1:]) if re.fullmatch(r"I-?\d+", t) else None for t in re.findall(r"[^\s()]+", rec["python_saw"][2:])]
            for k in hit:
                if k < len(seen_ints) and want[k] is not None and seen_ints[k] != want[k]:
                    w = int(re.match(r"VInt (\d+)", rec["go"][k]).group(1))
                    key = "pyval-narrow-int-not-extended-after-first-use" if seen_ints[k] is not None and (seen_ints[k] - want[k]) % (1 << w) == 0 else "pyval-integer-value-changed"
                    ck.violation(key, "Go %s value %d arrives in Python as %s (%s element %d: the sext/zext of PyVal is missing in the IR)" % (
                        "int%d" % w, want[k], seen_ints[k], tagfn[rec["tag"]], k), dict(rec, element=k))
        # ---- round trip in Go ----
        rt = [l for l in post if l.startswith("RT ")]
        fails = [l for l in post if l.startswith("RTFAIL")]
        if not rt or fails or rt[-1].split()[2] != "0":
            ck.violation("go-value-roundtrip", "value read back from Python differs: %s" % (fails[:3] or rt), replay_base)
        nrt = int(rt[-1].split()[1]) if rt else 0
        # ---- calls: the callee's view and the returned object ----
        calls = [l for l in post if l.startswith("CALL ")]
        rets = {int(m.group(1)): m.group(2) for m in (re.fullmatch(r"VAL ret (\d+) (.*)", l) for l in post) if m}
        k = 0
        canon_ints = lambda a: "T(" + " ".join("I%d" % x for x in a) + ")"
        seq = [c for c in calls if not c.startswith("CALL vmod2.g1") and not c.startswith("CALL vmod.sub.s1")]
        for i, cr in enumerate(facts["callruns"]):
            want = "CALL %s %s" % (cr["fn"], canon_ints(cr["args"]))
            if i >= len(seq) or seq[i] != want:
                ck.violation("call-arguments-not-delivered-in-order", "callee saw `%s`, want `%s`" % (seq[i] if i < len(seq) else None, want), dict(replay_base, call=cr))
                break
            if rets.get(i) != canon_ints(list(reversed(cr["args"]))):
                ck.violation("call-result-not-returned", "result of %s: got %s" % (want, rets.get(i)), dict(replay_base, call=cr))
                break
            classes["callrun:arity%d" % len(cr["args"])] += 1
        if vals.get(("attr", 0)) != "I42":
            ck.violation("module-attribute-lookup", "vb.Answer reads %s, want I42" % vals.get(("attr", 0)), replay_base)
    # ---- the same sources built again with the same package cache: the run must not change ----
    binp_w, rc_w, log_w = rebuild(d)
    if rc_w != 0:
        ck.correspondence_broken("program-rebuild-warm-cache", log_w[-1500:])
    else:
        pw = __import__("subprocess").run([binp_w], env=env, stdout=-1, stderr=-1, text=True, errors="replace", timeout=300)
        rp = {"seed": ck.seed, "exit": pw.returncode, "stderr_tail": pw.stderr.splitlines()[-8:]}
        if check_start(binp_w, pw, "rebuild of the unchanged generated program (warm package cache)", rp) and pw.stderr != p.stderr:
            a, b2 = p.stderr.splitlines(), pw.stderr.splitlines()
            k = next((i for i, (x, y) in enumerate(zip(a, b2)) if x != y), min(len(a), len(b2)))
            ck.violation("warm-cache-rebuild-behaves-differently",
                         "unchanged sources rebuilt with the same package cache: exit %d, line %d is `%s`, first build printed `%s`" % (
                             pw.returncode, k, (b2[k:k + 1] or ["<end>"])[0][:120], (a[k:k + 1] or ["<end>"])[0][:120]), rp)
    classes["build-step:generated-warm"] += 1
    ck.phase("program run")

    # ================= package cache steps: cold / unchanged / only main edited =================
    cfiles, expect0, govals0, _ = progs.gen_cache_program(0)
    cfiles1, expect1, govals1, _ = progs.gen_cache_program(1)
    dc, binc, rcc, logc = build("pycache", cfiles, py)
    envc = L.env({"PYTHONPATH": os.path.join(dc, "pylib")})
    steps = [("step 1: cold package cache", None, expect0), ("step 2: unchanged sources, warm package cache", {}, expect0),
             ("step 3: only main.go edited, pa/pb/vb from the package cache", {"main.go": cfiles1["main.go"]}, expect1)]
    for step, edit, expect in steps:
        if edit is not None:
            binc, rcc, logc = rebuild(dc, edit)
        if rcc != 0:
            ck.correspondence_broken("cache-program-build", {"step": step, "log": logc[-1500:]})
            break
        pc = __import__("subprocess").run([binc], env=envc, stdout=-1, stderr=-1, text=True, errors="replace", timeout=120)
        got = pc.stderr.splitlines()
        rp = {"step": step, "files": dict(cfiles, **(edit or {})), "exit": pc.returncode, "stderr": got[-8:], "expected": expect}
        classes["build-step:" + step.split(":")[0].replace(" ", "")] += 1
        if not check_start(binc, pc, step, rp):
            break
        if pc.returncode != 0 or got != expect:
            k = next((i for i, (x, y) in enumerate(zip(got, expect)) if x != y), min(len(got), len(expect)))
            key = "module-used-before-import" if "IMPORT vmod" not in got[:1] and pc.returncode == 0 else "cached-package-build-behaves-differently"
            ck.violation(key, "%s: exit %d, line %d is `%s`, want `%s`" % (step, pc.returncode, k, (got[k:k + 1] or ["<end>"])[0][:120], (expect[k:k + 1] or ["<end>"])[0]), rp)
            break
    # what Python must have seen for pb.Conv, according to the model
    conv_terms = ["((false, ([%s] : list (goval pyval))), PList [PLong (%d); PFloat %d])" % ("; ".join(gv), xw[0], xw[1])
                  for _, _, gv, xw in (progs.gen_cache_program(0), progs.gen_cache_program(1))]
    ck.phase("cache steps run")

    # ================= the ordinary-variadic prototype (witness program) =================
    d2, bin2, rc2, log2 = build("plainvar", progs.gen_variadic_witness(), py)
    if rc2 != 0:
        ck.correspondence_broken("witness-build", log2[-1500:])
    else:
        m2 = parse_module(open(dict(re.findall(r"^PKG (\S+) (\S+)$", log2, re.M))["verifprog"]).read())
        red, why = reduce_call(m2[0]["verifprog.call_plain3"][1])
        if red:
            api, tgt, args = red
            enc = lambda a: "None" if a is None else "(Some (%d))" % (-1 if a == "slice" else a)
            call_terms.append("(((1%%nat, true), (false, ([], [1; 2; 3]))), CallObjArgs 0 [%s])" % "; ".join(enc(a) for a in args))
            call_raw.append({"call": "plain variadic prototype", "ir": [api, tgt, args]})
        p2 = __import__("subprocess").run([bin2], env=L.env({"PYTHONPATH": os.path.join(d2, "pylib")}), stdout=-1, stderr=-1, text=True, errors="replace", timeout=120)
        l2 = p2.stderr.splitlines()
        want = "CALL vmod.f3 T(I1 I2 I3)"
        if not check_start(bin2, p2, "witness program (ordinary variadic prototype)", {"stderr": l2[-5:]}):
            pass
        elif want not in l2:
            got = [l for l in l2 if l.startswith("CALL")] or ["exit %d: %s" % (p2.returncode, " | ".join(l2[-3:])[:200])]
            ck.violation("py-plain-variadic-prototype-passes-go-slice",
                         "func Echo(args ...*py.Object) called with 3 objects: callee saw %s (the Go slice header is passed by value to PyObject_CallFunctionObjArgs)" % got[0],
                         {"files": progs.gen_variadic_witness(), "stderr": l2[-8:], "ir_call": red})
    d3, bin3, rc3, log3 = build("typeleak", progs.gen_typeleak_witness())
    if rc3 != 0:
        ck.correspondence_broken("witness-build", log3[-1500:])
    else:
        p3 = __import__("subprocess").run([bin3], env=L.env(), stdout=-1, stderr=-1, text=True, errors="replace", timeout=120)
        fl = [l for l in p3.stderr.splitlines() if l.startswith("FIELD")]
        if not check_start(bin3, p3, "witness program (py.List only)", {"files": progs.gen_typeleak_witness(), "stderr": p3.stderr.splitlines()[-5:]}):
            pass
        elif not fl:
            ck.violation("python-program-crashed", "the witness program exits %d without printing its FIELD line" % p3.returncode,
                         {"files": progs.gen_typeleak_witness(), "stderr": p3.stderr.splitlines()[-5:]})
        elif fl != ["FIELD -1 9 2 -6"]:
            ck.violation("pyval-widens-shared-type-descriptor-later-go-code-miscompiled",
                         "after py.List(int8) in a function compiled earlier, z_set(t, -1) on S{7, 9} then println(t.A, t.B, s.B, ...) prints `%s` (want `FIELD -1 9 2 -6`): int8 is loaded as a 64-bit integer" % (fl or p3.stderr[-200:]),
                         {"files": progs.gen_typeleak_witness(), "stderr": p3.stderr.splitlines()[-5:]})
    ck.phase("witness run")

    # ================= Coq evaluation =================
    from concurrent.futures import ThreadPoolExecutor
    cterms, rterms, extra = capi_contract_cases()
    jobs = {
        "step_fixed": (step_terms, "(fun x => val_step_of true (snd x) (fst x))", "step_eqb"),
        "step_old": (step_terms, "(fun x => val_step_of false (snd x) (fst x))", "step_eqb"),
        "plan": (plan_terms, "list_plan", "plan_eqb"),
        "call": (call_terms, "(fun x => call_shape (fst (fst x)) (snd (fst x)) (fst (snd x)) (fst (snd (snd x))) (snd (snd (snd x))))", "ccall_eqb"),
        "loads": (load_terms, "load_mod_syms", "loads_eqb"),
        "vals": (val_terms + conv_terms, "(fun x : bool * list (goval pyval) => if fst x then py_tuple (snd x) else py_list (snd x))", "pyval_eqb"),
        "capi": (cterms, "(fun x => x)", "pyval_eqb"),
        "capird": (rterms, "(fun x => x)", "(prod_eqb (option_eqb Z.eqb) (option_eqb Z.eqb))"),
    }
    with ThreadPoolExecutor(4) as ex:
        res = dict(zip(jobs, ex.map(lambda k: ck.coq_mismatches(hdr, jobs[k][0], jobs[k][1], jobs[k][2], "c19_" + k, shard=150) if jobs[k][0] else [], jobs)))
    for i in res["step_fixed"]:
        r = step_raw[i]
        if i in res["step_old"]:
            ck.correspondence_broken("C19.Model/val_step vs IR", r)
        else:
            ck.violation("pyval-narrow-int-not-extended-after-first-use",
                         "IR of %s element %d: %s is passed to %s without sign/zero extension (PyVal widened the shared type descriptor on the first use of the type)" % (
                             r["function"], r["item"], r["type"], r["api"]), r)
    for i in res["plan"]:
        ck.correspondence_broken("C19.Model/list_plan vs IR", plan_raw[i])
    for i in res["call"]:
        ck.correspondence_broken("C19.Model/py_call vs IR", call_raw[i])
    for i in res["loads"]:
        ck.correspondence_broken("C19.Model/load_mod_syms vs IR", load_raw[i])
    for i in res["vals"][:5]:
        rw = val_raw[i] if i < len(val_raw) else {"python_saw": "the values expected of pb.Conv", "go": conv_terms[i - len(val_raw)]}
        ck.violation("value-differs-from-model", "Python saw %s for Go values %s" % (rw.get("python_saw"), rw.get("go")), rw)
    for i in res["capi"]:
        ck.correspondence_broken("C19.Model/c_ops constructors vs CPython", cterms[i])
    for i in res["capird"]:
        ck.correspondence_broken("C19.Model/c_ops readers vs CPython", rterms[i])
    if ck.broken and os.environ.get("VERIF_DEBUG_KEEP"):
        __import__("shutil").copytree(os.path.join(ck.work, "coqrun"), os.environ["VERIF_DEBUG_KEEP"], dirs_exist_ok=True)
    ck.phase("model evaluated")

    ck.cov["samples"] = [step_raw[0] if step_raw else {}, val_raw[3] if len(val_raw) > 3 else {}, call_raw[-1] if call_raw else {}]
    ck.add_cov(evaluations=len(step_terms) + len(plan_terms) + len(call_terms) + len(load_terms) + len(val_terms) + len(cterms) + len(rterms) + len(affected),
               nontrivial=len(step_terms) + len(call_terms) + len(val_terms), classes=dict(classes),
               ir_conversions=len(step_terms), ir_call_sites=len(call_terms), ir_load_sequences=len(load_terms),
               values_compared_with_model=len(val_terms), values_with_missing_extension=len(affected),
               go_roundtrips_ok=locals().get("nrt", 0),
               build_steps_with_shared_package_cache=sum(v for k, v in classes.items() if k.startswith("build-step:")), capi_contract_cases=len(cterms) + len(rterms), capi_extra=extra)
    ck.cov["rule"] = ("T2: conversion/call/list/symbol-loading IR of generated functions reduced syntactically and compared with the model inside Coq; "
                      "E: every value of the boundary+random pools (11 integer types, float32/64 specials, UTF-8 strings incl. NUL, byte slices/arrays, "
                      "complex, mixed lists/tuples, nested objects) handed to CPython, printed canonically by Python and compared with the model; "
                      "Go-side read back; calls of arity 0-6 and __llgo_va_list variadics with 64-bit arguments; import/use event order")
    return ck.finish()
