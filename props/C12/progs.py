"""C12 program generator: acyclic import graphs of 2-8 packages with cross-package
variable initialisers, several init() per file/package, several files per
package, blank imports, imports of std packages that llgo overlays.

Every initialiser / init function prints one line `<pkgname>.<label>` with the
builtin println (stderr).  The generator also returns the facts the model needs:
per package the import list in go/types order (files sorted by name, import
specs in order, first occurrence), the intra-package variable dependencies and
the number of init functions."""
import random

NAMES = ["alpha", "bravo", "kilo", "zulu", "mike", "echo", "tango", "oscar", "delta", "yankee", "hotel", "lima",
         "aa", "zz", "m0", "b9"]
FILES = ["a.go", "b_x.go", "k.go", "m_1.go", "z.go", "c.go", "y.go"]

# std packages usable in generated programs: (skip flag in the model = the call
# of its init is dropped at the call site, cl/instr.go pkgNoInit)
STD = {"embed": False, "unsafe": True, "runtime": True, "sync": False, "sync/atomic": False, "reflect": False, "fmt": False}


class Pkg:
    def __init__(self, name, path):
        self.name, self.path = name, path     # package name, import path below the module
        self.files = []                       # [(fname, [(path, alias)], [var idx], n_inits)]
        self.nvars = 0
        self.kind = "stateful"                # stateful | facade | blankvar | initonly
        self.blank = set()                    # variables declared as `var _ = ...`
        self.vdeps = {}                       # var -> (intra [var], cross [(pkgname, var)], via_func bool)
        self.std_use = {}                     # std path -> file index using it (non-blank)
        self.imports = []                     # go/types order: list of import paths (module-relative for user pkgs)


def gen_program(seed, mode, npk=None):
    """mode: plain | sync | skipstd | reflect | fmt | wide | facade | rtstate
    returns (files {relpath: src}, facts)

    Mode rtstate: main and up to two other packages additionally observe, from a variable
    initialiser, from an init function and (main) from main.main, state that the init of the std
    package runtime establishes (runtime.MemProfileRate, 512*1024 after runtime.init); they print
    `OBS <package> <site> <value>` lines.  Importers never call runtime.init themselves (llgo's
    replacement is LLGoPackage=link): the entry function is its only caller.

    Package kinds: stateful (variables and init functions), facade (functions, a type
    and a constant only: nothing to initialise except the packages it imports),
    blankvar (its only work is `var _ = f(..)`), initonly (no variables, several files,
    one init function in one of them).  Mode facade fixes the shape
    main -> facade -> facade -> {stateful, stateful}, plus a blankvar and an initonly
    package: the stateful packages are reachable only through the facades."""
    rng = random.Random(seed)
    if mode == "facade":
        npk = 7
    if npk is None:
        npk = rng.randint(2, 8)
    nuser = npk - 1
    names = rng.sample(NAMES, nuser)
    pkgs = []
    for nm in names:
        path = ("sub/" + nm) if rng.random() < 0.25 else nm
        pkgs.append(Pkg(nm, path))
    mainp = Pkg("main", "")
    order = pkgs + [mainp]
    # import edges (to earlier packages only)
    imps = {}
    for i, p in enumerate(order):
        cand = order[:i] if p is not mainp else pkgs
        prob = 0.75 if mode == "wide" else 0.5
        sel = [q for q in cand if rng.random() < prob]
        rng.shuffle(sel)
        imps[p.name] = sel
    for q in pkgs:
        q.kind = rng.choices(["stateful", "facade", "blankvar", "initonly"], weights=[60, 20, 10, 10])[0]
    if mode == "facade":
        s1, s2, f2, f1, bv, io = pkgs
        for q, k in zip(pkgs, ["stateful", "stateful", "facade", "facade", "blankvar", "initonly"]):
            q.kind = k
        top = [f1, bv, io]
        rng.shuffle(top)
        low = [s1, s2]
        rng.shuffle(low)
        imps = {s1.name: [], s2.name: [], f2.name: low, f1.name: [f2], bv.name: [], io.name: [], "main": top}
    imported = {q.name for l in imps.values() for q in l}
    for q in pkgs:                       # everything is part of the program
        if q.name not in imported:
            imps["main"].insert(rng.randint(0, len(imps["main"])), q)
    std_for = {p.name: [] for p in order}   # (std path, blank)
    users = rng.sample(order, min(len(order), 2))
    if mode == "sync":
        std_for[users[0].name].append(("sync", False))
        std_for[users[-1].name].append(("sync/atomic", rng.random() < 0.5))
    elif mode == "skipstd":
        std_for[users[0].name] += [("unsafe", True), ("sync/atomic", True)]
        std_for[users[-1].name] += [("runtime", True), ("unsafe", False)]
    elif mode == "rtstate":
        # llgo's replacement of package runtime imports sync; a program that uses runtime but has no
        # other importer of sync does not link (undefined sync.init) - so one package uses sync
        std_for[users[0].name].append(("sync", False))
    elif mode == "reflect":
        std_for[users[0].name].append(("reflect", False))
    elif mode == "fmt":
        std_for[users[0].name].append(("fmt", False))
        std_for[users[-1].name].append(("sync", False))
    for p in order:
        nfiles = rng.choice([1, 1, 2, 3]) if p.kind != "initonly" else rng.choice([2, 3])
        fnames = sorted(rng.sample(FILES, nfiles))
        p.nvars = {"stateful": rng.randint(1, 4), "facade": 0, "blankvar": rng.randint(1, 2), "initonly": 0}[p.kind]
        p.blank = {v for v in range(p.nvars) if p.kind == "blankvar" or rng.random() < 0.15}
        p.pub = [v for v in range(p.nvars) if v not in p.blank]
        # variables to files, in declaration order
        cuts = sorted(rng.randint(0, p.nvars) for _ in range(nfiles - 1))
        bounds = [0] + cuts + [p.nvars]
        per_file_imps = [[] for _ in range(nfiles)]
        for q in imps[p.name]:
            fs = rng.sample(range(nfiles), rng.choice([1, 1, 2]) if nfiles > 1 else 1)
            for fi in fs:
                per_file_imps[fi].append((q, rng.random() < 0.3))       # blank?
        for sp, blank in std_for[p.name]:
            per_file_imps[rng.randrange(nfiles)].append((sp, blank))
        rank = list(range(p.nvars))
        rng.shuffle(rank)
        for fi in range(nfiles):
            rng.shuffle(per_file_imps[fi])
            vs = list(range(bounds[fi], bounds[fi + 1]))
            p.files.append([fnames[fi], per_file_imps[fi], vs, rng.choice([0, 1, 1, 2, 3]) if p.kind == "stateful" else 0])
        if p.kind == "initonly":
            p.files[rng.randrange(nfiles)][3] = 1
        for fi in range(nfiles):
            nonblank = [q for q, b in per_file_imps[fi] if not b and not isinstance(q, str)]
            for v in p.files[fi][2]:
                intra = [w for w in p.pub if rank[w] < rank[v] and rng.random() < 0.45]
                cross = [(q, rng.choice(q.pub)) for q in nonblank if q.pub and rng.random() < 0.6]
                p.vdeps[v] = (intra, cross, rng.random() < 0.3)
        seen = []
        for fn, fimps, vs, ni in p.files:
            for q, b in fimps:
                ip = q if isinstance(q, str) else q.path
                if ip not in seen:
                    seen.append(ip)
        p.imports = seen
    # ---------- sources ----------
    files = {}
    for p in order:
        initno = 0
        for fi, (fn, fimps, vs, ni) in enumerate(p.files):
            src = ["package %s" % p.name, ""]
            specs = []
            for q, blank in fimps:
                ip = q if isinstance(q, str) else "verifprog/" + q.path
                specs.append('%s"%s"' % ("_ " if blank else "", ip))
            if specs:
                if len(specs) > 1 and rng.random() < 0.5:        # two import declarations
                    k = rng.randint(1, len(specs) - 1)
                    src += ["import (", *["\t" + s for s in specs[:k]], ")", ""]
                    src += ["import " + s for s in specs[k:]] + [""]
                else:
                    src += ["import (", *["\t" + s for s in specs], ")", ""]
            if fi == 0 and p.nvars:
                src += ["func f(name string, deps ...int) int {", "\tprintln(name)", "\treturn len(deps) + 1", "}", ""]
            if fi == 0 and p is not mainp:
                src += ["// what a facade offers: functions, a type, a constant", "const Version = %d" % len(p.name), "",
                        "type Handle struct{ N int }", "", "func Probe() int { return Version }", ""]
            used = set()
            for v in vs:
                intra, cross, via = p.vdeps[v]
                args = []
                for w in intra:
                    if via:
                        src += ["func g%d_%d() int { return V%d }" % (v, w, w), ""]
                        args.append("g%d_%d()" % (v, w))
                    else:
                        args.append("V%d" % w)
                for q, w in cross:
                    args.append("%s.V%d" % (q.name, w))
                    used.add(q.name)
                src += ['var %s = f("%s.V%d"%s)' % ("_" if v in p.blank else "V%d" % v, p.name, v, "".join(", " + a for a in args)), ""]
            for k in range(ni):
                body = ['\tprintln("%s.init#%d")' % (p.name, initno)]
                initno += 1
                src += ["func init() {", *body, "}", ""]
            for q, blank in fimps:
                if blank:
                    continue
                if isinstance(q, str):
                    u = {"sync": "var mu%d sync.Mutex\n\nfunc lock%d() { mu%d.Lock(); mu%d.Unlock() }" % (fi, fi, fi, fi),
                         "sync/atomic": "var cnt%d int32\n\nfunc inc%d() int32 { return atomic.AddInt32(&cnt%d, 1) }" % (fi, fi, fi),
                         "unsafe": "func sz%d() uintptr { return unsafe.Sizeof(int32(0)) }" % fi,
                         "reflect": "func kind%d(x any) bool { return reflect.TypeOf(x).Kind() == reflect.Int }" % fi,
                         "fmt": "func str%d(x int) string { return fmt.Sprint(x) }" % fi,
                         "runtime": "func gc%d() { runtime.GC() }" % fi}[q]
                    src += [u, ""]
                elif q.name not in used:
                    src += ["func use%d_%s() int { return %s.Probe() }" % (fi, q.name, q.name), ""]
                    used.add(q.name)
            if p is mainp and fi == 0:
                src += ["func main() {", '\tprintln("main.main")', "}", ""]
            rel = (p.path + "/" if p.path else "") + fn
            files[rel] = "\n".join(src)
        p.ninits = initno
    observers = []
    if mode == "rtstate":
        others = [q for q in pkgs]
        observers = [mainp] + ([others[0]] if others else []) + ([rng.choice(others[1:])] if len(others) > 1 else [])
        for p in observers:
            src = ["package %s" % p.name, "", 'import "runtime"', "",
                   "func obsrt(site string) int {", '\tprintln("OBS", "%s", site, runtime.MemProfileRate)' % p.name, "\treturn 0", "}", "",
                   'var _ = obsrt("var")', ""]
            if p is mainp:
                src += ["var never bool", "", "func init() {", '\tobsrt("init")',
                        "\t// the documented way to change the profiling rate: as early as possible", "\truntime.MemProfileRate = 4096", "}", "",
                        "func rtMain() {", '\tobsrt("main.main")', "\tif never {",
                        "\t\truntime.MemProfile(nil, false) // keeps memory profiling linked in under the reference toolchain", "\t}", "}", ""]
            else:
                src += ["func init() {", '\tobsrt("init")', "}", ""]
            files[(p.path + "/" if p.path else "") + "zz_rt.go"] = "\n".join(src)
            if "runtime" not in p.imports:
                p.imports.append("runtime")
        mf = [k for k in files if "/" not in k and "func main() {" in files[k]][0]
        files[mf] = files[mf].replace("func main() {\n", "func main() {\n\trtMain()\n")
    extra = []
    if mode == "embed":
        # embsite declares init functions AND a go:embed embed.FS variable that is read from a variable
        # initialiser declared before it, one declared after it, and from its init functions; embplain
        # has no init function; main reads both from an initialiser and from main.main.  They print
        # `EMB <package> <site> <entries in the directory> <bytes of a.txt>` lines.
        cnt = ["func cnt(site string) int {", "\tn := -1", '\tif es, err := assets.ReadDir("assets"); err == nil {', "\t\tn = len(es)", "\t}",
               '\tb, _ := assets.ReadFile("assets/a.txt")', '\tprintln("EMB", "%s", site, n, len(b))', "\treturn n", "}", ""]
        files["embsite/site.go"] = "\n".join(
            ["package embsite", "", 'import "embed"', "", "// declared before the variable it depends on", 'var Index = cnt("var-before")', "",
             "//go:embed assets", "var assets embed.FS", "", 'var Second = cnt("var-after")', "", "var InitSaw int", "",
             "func init() {", '\tInitSaw = cnt("init")', "}", "", "func init() {", '\tcnt("init2")', "}", ""] +
            [l.replace("%s", "embsite") for l in cnt] + ['func Late() int { return cnt("late") }', ""])
        files["embplain/plain.go"] = "\n".join(
            ["package embplain", "", 'import "embed"', "", "//go:embed assets", "var assets embed.FS", "", 'var Count = cnt("var")', ""] +
            [l.replace("%s", "embplain") for l in cnt])
        for d in ("embsite", "embplain"):
            files[d + "/assets/a.txt"] = "alpha\n"
            files[d + "/assets/b.txt"] = "beta beta\n"
        files["zz_emb.go"] = "\n".join(
            ["package main", "", "import (", '\t"verifprog/embplain"', '\t"verifprog/embsite"', ")", "",
             "func obsEmb(site string, a, b int) int {", '\tprintln("EMB", "main", site, a, b)', "\treturn a + b", "}", "",
             "// another package's initialiser reads what embsite's initialisers computed",
             'var _ = obsEmb("var-cross", embsite.Index, embplain.Count)', "",
             "func embMain() {", '\tobsEmb("main.main", embsite.Late(), embsite.InitSaw)', "}", ""])
        mf = [k for k in files if "/" not in k and "func main() {" in files[k]][0]
        files[mf] = files[mf].replace("func main() {\n", "func main() {\n\tembMain()\n")
        for ip in ("embplain", "embsite"):
            if ip not in mainp.imports:
                mainp.imports.append(ip)
        extra = [{"name": n, "path": "verifprog/" + n, "imports": ["embed"], "nvars": 0, "ninits": 0, "kind": "embed",
                  "blank_vars": [], "vdeps": [], "nfiles": 1} for n in ("embsite", "embplain")]
    facts = {"mode": mode, "packages": [], "observers": [p.name for p in observers]}
    for p in order:
        if p is mainp:
            facts["packages"] += extra
        facts["packages"].append({
            "name": p.name, "path": ("verifprog/" + p.path) if p.path else "verifprog",
            "imports": [ip if ip in STD else "verifprog/" + ip for ip in p.imports],
            "nvars": p.nvars, "ninits": p.ninits, "kind": p.kind, "blank_vars": sorted(p.blank),
            "vdeps": [sorted(set(p.vdeps[v][0])) for v in range(p.nvars)],
            "nfiles": len(p.files),
        })
    return files, facts
