// initgen: builds one program with the working tree's internal/build (what
// `llgo build -O0 -o out .` does) and additionally writes the LLVM IR of every
// package module of the program (including the generated entry module) into
// -irdir.  Placed under /repo/chore/verifinitgen by `go build -overlay`; /repo is
// not touched.
package main

import (
	"flag"
	"fmt"
	"os"
	"path/filepath"

	"github.com/goplus/llgo/internal/build"
	"github.com/goplus/llgo/internal/optlevel"
)

func main() {
	out := flag.String("o", "", "output binary")
	irdir := flag.String("irdir", "", "directory for per-package IR")
	flag.Parse()
	conf := build.NewDefaultConf(build.ModeBuild)
	conf.OptLevel = optlevel.O0
	conf.OutFile = *out
	pkgs, err := build.Do(flag.Args(), conf)
	if err != nil {
		fmt.Fprintln(os.Stderr, "initgen:", err)
		os.Exit(1)
	}
	for i, p := range pkgs {
		if p.LPkg == nil {
			fmt.Println("PKG", p.PkgPath, "-")
			continue
		}
		f := filepath.Join(*irdir, fmt.Sprintf("%03d.ll", i))
		if err := os.WriteFile(f, []byte(p.LPkg.String()), 0644); err != nil {
			fmt.Fprintln(os.Stderr, "initgen:", err)
			os.Exit(1)
		}
		fmt.Println("PKG", p.PkgPath, f)
	}
}
