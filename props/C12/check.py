"""C12 - packages initialise once, dependencies first, variables in dependency order.

T2: the IR of every generated package's init function (and of the init /
init$hasPatch pair of the std packages llgo overlays) is reduced to a skeleton
(guard load / branch polarity / guard store / ordered init calls) by a small
syntactic parser and compared inside Coq with C12.Model.compile for that import
list; the entry function is compared with C12.Model.entry_code (IR of
genMainModule through an overlay test, and the disassembled `main` of every
linked program).
E: generated multi-package programs are built by the working tree's
internal/build (driver harness/initgen), run, and their printed trace is compared
with the model's prediction (post-order) inside Coq, with the property oracle
(once / dependencies first / declaration order) evaluated directly on the trace,
and with the reference toolchain's trace of the same sources."""
import json, os, re, sys, collections
from concurrent.futures import ThreadPoolExecutor
import vlib, e2e

HERE = os.path.dirname(os.path.abspath(__file__))
sys.path.insert(0, HERE)
import progs  # noqa: E402

# the first program is built alone and warms the private llgo cache (runtime, sync, sync/atomic and the
# other overlaid packages); reflect and fmt programs (minutes to build) are left to the thorough tier
QUICK = [("sync", 4), ("facade", None), ("skipstd", None), ("wide", 8), ("embed", 2), ("rtstate", None)]
THOROUGH_EXTRA = [("sync", None), ("plain", 2), ("plain", None)] + [("facade", None)] * 4 + [("embed", None)] + [("rtstate", None)] * 2 + [("plain", None)] + [("reflect", 4), ("fmt", None), ("sync", 8), ("wide", 7), ("skipstd", 5)] + [("plain", None)] * 12 + [("wide", None)] * 6


# ---------------------------------------------------------------- IR skeletons
def split_functions(ir):
    fns, cur = {}, None
    for line in ir.splitlines():
        m = re.match(r'define\s+(?:\w+\s+)*void\s+@("[^"]+"|[^\s(]+)\(\)', line)
        if m and line.rstrip().endswith("{"):
            cur = (m.group(1).strip('"'), [])
            continue
        if cur is not None:
            if line.startswith("}"):
                fns[cur[0]] = cur[1]
                cur = None
            else:
                cur[1].append(line)
    return fns


def init_skeleton(fname, lines):
    """syntactic reduction of an init function: returns dict(ret_when, calls) or (None, reason)"""
    pkgpath = fname[:-len(".init$hasPatch")] if fname.endswith(".init$hasPatch") else fname[:-len(".init")]
    guard = '@"%s.init$guard"' % pkgpath
    blocks, order, cur = {}, [], None
    for ln in lines:
        s = ln.split(" ; ")[0].rstrip() if not ln.lstrip().startswith("call") else ln.rstrip()
        s = s.strip()
        if not s:
            continue
        m = re.fullmatch(r"([\w.$]+):.*", s)
        if m:
            cur = m.group(1)
            blocks[cur] = []
            order.append(cur)
            continue
        if cur is None:
            return None, "instruction outside a block"
        blocks[cur].append(s)
    if len(order) < 3:
        return None, "fewer than three blocks"
    entry = [i for i in blocks[order[0]] if " = alloca " not in i]
    if len(entry) != 2:
        return None, "entry block is not load+br: %r" % entry[:4]
    m1 = re.fullmatch(r"(%\d+) = load i1, ptr (\S+), align 1", entry[0])
    m2 = re.fullmatch(r"br i1 (%\d+), label %([\w.$]+), label %([\w.$]+)", entry[1])
    if not m1 or not m2 or m1.group(1) != m2.group(1):
        return None, "entry block shape"
    if m1.group(2) != guard:
        return None, "guard variable %s is not %s" % (m1.group(2), guard)
    t, f = m2.group(2), m2.group(3)
    rets = [b for b in order if blocks[b] == ["ret void"]]
    if len(rets) != 1:
        return None, "not exactly one return block"
    if (t == rets[0]) == (f == rets[0]):
        return None, "branch does not separate return from body"
    ret_when = (t == rets[0])
    body = blocks[f if ret_when else t]
    gstore = "store i1 true, ptr %s, align 1" % guard
    # go:embed variables are filled in a prologue in front of the guard store (cl applyEmbedInits);
    # such a prologue must not call anything of the program except runtime helpers
    gi = body.index(gstore) if gstore in body else -1
    if gi < 0:
        return None, "guard store is not in the body block"
    for i in body[:gi]:
        mcall = re.search(r'call \S+ @("[^"]+"|[^\s(]+)\(', i)
        if mcall and "/runtime/internal/runtime." not in mcall.group(1) and not mcall.group(1).startswith("llvm."):
            return None, "guard store is not the first instruction of the body block (preceded by %s)" % mcall.group(1)
    if gi > 0 and not any(re.match(r"store .*, ptr @", i) for i in body[:gi]):
        return None, "guard store is not the first instruction of the body block"
    body = body[gi:]
    nstores = sum(1 for b in order for i in blocks[b] if re.match(r"store i1 \w+, ptr %s," % re.escape(guard), i))
    if nstores != 1:
        return None, "guard stored %d times" % nstores
    calls = []
    for i in body[1:]:
        m = re.fullmatch(r'call void @("[^"]+"|[^\s(]+)\(\)', i)
        if not m:
            break
        callee = m.group(1).strip('"')
        if callee.endswith(".init$hasPatch"):
            calls.append(("old", callee[:-len(".init$hasPatch")]))
        elif callee.endswith(".init"):
            calls.append(("init", callee[:-len(".init")]))
        else:
            break
    # every path from the body reaches the return block: all other blocks end in br/ret
    later_init_calls = [i for b in order for i in (body[len(calls) + 1:] if b == (f if ret_when else t) else blocks[b])
                        if re.fullmatch(r'call void @("[^"]+\.init(\$hasPatch)?"|[^\s("]+\.init)\(\)', i)]
    if later_init_calls:
        return None, "package init call after the body started: %s" % later_init_calls[0]
    return {"ret_when": ret_when, "calls": calls, "prologue": gi, "body": body}, None


def coq_bool(b):
    return "true" if b else "false"


def coq_nats(xs):
    return "[" + "; ".join(str(x) for x in xs) + "]"


def coq_pkg(imps, kind="KNormal", skip=False):
    return "{| pk_imps := %s; pk_kind := %s; pk_skip := %s |}" % (coq_nats(imps), kind, coq_bool(skip))


def coq_skel(sk, ids, body):
    """IR skeleton -> Coq term; unknown callees get id 999 (cannot match)"""
    if sk is None:
        return "None"
    cs = ["%s %d" % ("FOld" if k == "old" else "FInit", ids.get(p, 999)) for k, p in sk["calls"]]
    return "(Some {| sk_ret_when := %s; sk_calls := [%s]; sk_body := %s |})" % (coq_bool(sk["ret_when"]), "; ".join(cs), body)


# ---------------------------------------------------------------- one program
def graph_of(facts):
    """ids: std leaves first, then user packages in generation (topological) order"""
    stds = []
    for p in facts["packages"]:
        for ip in p["imports"]:
            if ip in progs.STD and ip not in stds:
                stds.append(ip)
    ids = {s: i for i, s in enumerate(stds)}
    for p in facts["packages"]:
        ids[p["path"]] = len(ids)
    g = [coq_pkg([], skip=progs.STD[s]) for s in stds]
    bodies = ["{| pb_deps := []; pb_ninits := 0 |}" for _ in stds]
    for p in facts["packages"]:
        g.append(coq_pkg([ids[ip] for ip in p["imports"]]))
        bodies.append("{| pb_deps := [%s]; pb_ninits := %d |}" % ("; ".join(coq_nats(d) for d in p["vdeps"]), p["ninits"]))
    return ids, "[" + ";\n  ".join(g) + "]", "[" + "; ".join(bodies) + "]"


def parse_trace(stderr, facts, ids):
    """lines `<name>.V<k>` / `<name>.init#<k>` -> [(pkgid, label)]; returns (pairs, saw_main_main_last, junk)"""
    byname = {p["name"]: p for p in facts["packages"]}
    pairs, junk = [], []
    lines = [l for l in stderr.splitlines() if l.strip()]
    main_last = bool(lines) and lines[-1] == "main.main" and lines.count("main.main") == 1
    for l in lines:
        if l == "main.main":
            continue
        m = re.fullmatch(r"(\w+)\.(V|init#)(\d+)", l)
        if not m or m.group(1) not in byname:
            junk.append(l)
            continue
        p = byname[m.group(1)]
        k = int(m.group(3))
        pairs.append((ids[p["path"]], k if m.group(2) == "V" else p["nvars"] + k))
    return pairs, main_last, junk


def oracle(pairs, facts, ids):
    """the property itself on an observed trace; returns [(key, what)]"""
    out = []
    pos = collections.defaultdict(list)
    for i, pr in enumerate(pairs):
        pos[pr].append(i)
    for p in facts["packages"]:
        pid = ids[p["path"]]
        labels = [(pid, k) for k in range(p["nvars"] + p["ninits"])]
        for lb in labels:
            if len(pos[lb]) > 1:
                out.append(("init-ran-more-than-once", "%s label %d printed %d times" % (p["name"], lb[1], len(pos[lb]))))
            if len(pos[lb]) == 0:
                out.append(("init-missing", "%s label %d never printed" % (p["name"], lb[1])))
        mine = [i for lb in labels for i in pos[lb]]
        if not mine:
            continue
        for ip in p["imports"]:
            q = ids[ip]
            theirs = [i for (a, b), l in pos.items() if a == q for i in l]
            if theirs and max(theirs) > min(mine):
                out.append(("init-before-dependency", "%s starts before its import %s has finished" % (p["name"], ip)))
        for v, ds in enumerate(p["vdeps"]):
            for d in ds:
                if pos[(pid, v)] and pos[(pid, d)] and pos[(pid, d)][0] > pos[(pid, v)][0]:
                    out.append(("var-before-its-dependency", "%s.V%d initialised before V%d" % (p["name"], v, d)))
        fpos = [pos[(pid, p["nvars"] + k)][0] for k in range(p["ninits"]) if pos[(pid, p["nvars"] + k)]]
        vpos = [pos[(pid, v)][0] for v in range(p["nvars"]) if pos[(pid, v)]]
        if fpos != sorted(fpos):
            out.append(("init-functions-out-of-order", "%s init functions not in source order" % p["name"]))
        if fpos and vpos and min(fpos) < max(vpos):
            out.append(("init-function-before-variables", "%s runs an init function before its variables are set" % p["name"]))
    return out


def entry_tags(calls, mainpath):
    tags = []
    for c in calls:
        if c == "Py_Initialize":
            tags.append("TPyInit")
        elif c == "github.com/goplus/llgo/runtime/internal/runtime.init":
            tags.append("TRtInit")
        elif c == "init$abitypes":
            tags.append("TAbiInit")
        elif c == "runtime.init":
            tags.append("TStdRuntime")
        elif c == mainpath + ".init":
            tags.append("TInit 0")
        elif c == mainpath + ".main":
            tags.append("TMain")
        else:
            tags.append("TInit 999")      # unexpected call in the entry function
    return tags


def run(ck):
    ck.trusted = ["Coq 8.16.1 kernel (coqc, vm_compute)", "props/C12/check.py IR skeleton parser (syntactic) and trace parser",
                  "props/C12/harness/initgen (driver around internal/build.Do, ModeBuild -O0) and entry_verif_test.go",
                  "props/C12/progs.py program generator", "e2e shims (LLVM 14, GNU ld, libuv/libunwind stubs); objdump",
                  "go/ssa and go/types (upstream): shape of the synthetic package initialiser, Imports() order, InitOrder",
                  "reference toolchain go1.24 (oracle for the order inside one package)"]
    ck.assumptions = ["the import graph is acyclic (guaranteed by the Go type checker) and numbered topologically (wf)",
                      "bodies of std packages are not observed: std imports are leaves of the modelled graph",
                      "order of variables inside one package is computed by go/types (upstream); the model carries the Go spec rule and is compared on generated programs only",
                      "llgo orders packages by depth-first post-order of source-order imports; the Go spec (1.21+) order sorted by import path is modelled for the reference trace only"]
    ok, _ = ck.coq_build("C12")
    ck.coq_props("LLGoV.C12.Props", "theories/C12/Props.v")
    ck.phase("coq built")

    L = e2e.LLGo(ck, tools=())
    rc, out, drv = L.overlay_build("chore/verifinitgen", {"main.go": os.path.join(HERE, "harness", "initgen", "main.go")}, "initgen")
    if rc != 0:
        ck.correspondence_broken("initgen-build", out[-2500:])
        return ck.finish()
    ck.phase("driver built")

    # ---------- entry function: IR from genMainModule (overlay test) ----------
    hdr = "From LLGoV Require Import C12.Model.\n"
    ent_out = os.path.join(ck.work, "entry.jsonl")
    ov = {os.path.join(vlib.REPO, "ssa", "z_verif_opaque.go"): os.path.join(vlib.ROOT, "toolchain", "src", "z_verif_opaque.go")}
    entry_cases = []      # (flags, tags, raw)

    def entry_job():
        return ck.go_test_overlay("internal/build", {"zz_verif_c12_test.go": os.path.join(HERE, "harness", "entry_verif_test.go")},
                                  run="TestVerifEntry", env=L.env({"VERIF_OUT": ent_out}), tags="llvm14,verif", extra_overlay=ov, timeout=900)

    specs = list(QUICK) + (THOROUGH_EXTRA if ck.tier == "thorough" else [])
    results = [None] * len(specs)

    def job(i):
        t0 = __import__("time").time()
        mode, npk = specs[i]
        files, facts = progs.gen_program(ck.seed * 1000 + i, mode, npk)
        d = os.path.join(ck.work, "prog%02d" % i)
        e2e.write_module(d, files)
        ird = os.path.join(d, "ir")
        os.makedirs(ird, exist_ok=True)
        binp = os.path.join(d, "p_llgo")
        rc1, o1 = vlib.sh([drv, "-irdir", ird, "-o", binp, "."], cwd=d, env=L.env(), timeout=900)
        rc2, o2 = e2e.go_build(d, os.path.join(d, "p_go"))
        r = {"i": i, "facts": facts, "files": files, "dir": d, "rc_llgo": rc1, "log_llgo": o1, "rc_go": rc2, "log_go": o2}
        if rc1 == 0:
            r["llgo"] = L.run_bin(binp, timeout=60)
            rcx, dis = vlib.sh("objdump -d --no-show-raw-insn %s | awk '/<main>:/,/ret/'" % binp, timeout=120)
            r["entry_calls"] = re.findall(r"call\s+\w+ <([^>]+)>", dis)
        if rc2 == 0:
            r["go"] = e2e.run_plain(os.path.join(d, "p_go"), timeout=60)
        r["secs"] = round(__import__("time").time() - t0, 1)
        results[i] = r

    with ThreadPoolExecutor(1) as ex0:
        fut_entry = ex0.submit(entry_job)
        job(0)                                  # warms the private llgo cache (runtime, std packages)
        with ThreadPoolExecutor(4) as ex:
            list(ex.map(job, range(1, len(specs))))
        rc, log = fut_entry.result()
    ck.phase("programs built and run")
    ck.cov["program_secs"] = [r["secs"] for r in results]
    if rc != 0 or not os.path.exists(ent_out):
        ck.correspondence_broken("harness:internal/build entry", log[-1500:])
    else:
        for line in open(ent_out):
            r = json.loads(line)
            calls = re.findall(r'call void @("[^"]+"|[^\s(]+)\(', r["ir"])
            entry_cases.append(((r["py"], r["rt"], False), entry_tags([c.strip('"') for c in calls], "example.com/foo"), r["ir"]))

    # ---------- per program: oracle, model prediction, skeletons ----------
    e2e_terms, e2e_raw, go_terms, go_raw, sk_terms, sk_raw = [], [], [], [], [], []
    rt_terms, rt_raw = [], []
    classes = collections.Counter()
    nlines = 0
    differs_from_go_order = 0
    std_ir = {}        # std package path -> IR text (first program that has it)
    for r in results:
        facts = r["facts"]
        classes["mode:" + facts["mode"]] += 1
        classes["packages:%d" % len(facts["packages"])] += 1
        for pk in facts["packages"]:
            classes["kind:" + pk["kind"]] += 1
            if pk["kind"] != "stateful" and pk["imports"]:
                classes["kind:%s-with-imports" % pk["kind"]] += 1
        if r["rc_llgo"] != 0 or r["rc_go"] != 0:
            ck.correspondence_broken("program-build", {"i": r["i"], "llgo": r["log_llgo"][-1500:], "go": r["log_go"][-800:], "files": r["files"]})
            continue
        ids, gterm, bterm = graph_of(facts)
        main_id = ids["verifprog"]
        rcl, _, se_l = r["llgo"]
        rcg, _, se_g = r["go"]
        # observations of runtime state (mode rtstate) are kept apart from the order trace
        obs_l = [l.split() for l in se_l.splitlines() if l.startswith("OBS ")]
        obs_g = [l.split() for l in se_g.splitlines() if l.startswith("OBS ")]
        emb_l = sorted(l for l in se_l.splitlines() if l.startswith("EMB "))
        emb_g = sorted(l for l in se_g.splitlines() if l.startswith("EMB "))
        full_l, full_g = se_l.splitlines(), se_g.splitlines()
        se_l = "\n".join(l for l in full_l if not l.startswith(("OBS ", "EMB ")))
        se_g = "\n".join(l for l in full_g if not l.startswith(("OBS ", "EMB ")))
        pl, main_last_l, junk_l = parse_trace(se_l, facts, ids)
        pg, main_last_g, junk_g = parse_trace(se_g, facts, ids)
        nlines += len(pl)
        replay = {"seed": ck.seed, "program": r["i"], "mode": facts["mode"], "files": r["files"],
                  "llgo_trace": full_l, "go_trace": full_g}
        if rcg != 0 or junk_g or not main_last_g or oracle(pg, facts, ids):
            ck.correspondence_broken("reference-trace", {"i": r["i"], "rc": rcg, "junk": junk_g[:5], "oracle": oracle(pg, facts, ids)[:3]})
            continue
        if rcl != 0 or junk_l:
            ck.violation("program-crashed-during-init", "llgo-built program exits %d / prints %r" % (rcl, junk_l[:3]), replay)
            continue
        if not main_last_l:
            ck.violation("main-main-not-last", "main.main is not the last line of the trace (or runs twice)", replay)
        for key, what in oracle(pl, facts, ids):
            ck.violation(key, what, replay)
        # order inside each package must be the reference toolchain's
        for p in facts["packages"]:
            pid = ids[p["path"]]
            if [x for x in pl if x[0] == pid] != [x for x in pg if x[0] == pid]:
                ck.violation("order-inside-package-differs-from-go", "package %s: llgo and go print a different order" % p["name"], replay)
        if [a for a, _ in pl] != [a for a, _ in pg]:
            differs_from_go_order += 1
        if facts["mode"] == "embed":
            # every initialiser and init function of a package (and of its importers) sees the embedded files
            if len(emb_g) != 8 or any(l.split()[3:] not in (["2", "6"], ["2", "2"]) for l in emb_g):
                ck.correspondence_broken("reference-embed-observations", {"i": r["i"], "go": emb_g})
            elif emb_l != emb_g:
                bad = [l for l in emb_l if l not in emb_g] or [l for l in emb_g if l not in emb_l]
                ck.violation("embedded-files-not-ready-when-package-initialisers-run",
                             "llgo prints `%s`; go prints %s (a go:embed embed.FS variable must be set before any variable initialiser "
                             "or init function of its package runs)" % (bad[0], [l for l in emb_g if l.split()[1:3] == bad[0].split()[1:3]]), replay)
            classes["embed-observations"] += len(emb_l)
        if facts.get("observers"):
            # every initialiser / init function / main.main sees what runtime.init established (and, in
            # main.main, what main's init stored): the reference toolchain's values are the oracle
            want = {(o[1], o[2]): o[3] for o in obs_g if len(o) == 4}
            sane = len(want) == 2 * len(facts["observers"]) + 1 and want.get(("main", "main.main")) == "4096" and \
                all(v == "524288" for k, v in want.items() if k != ("main", "main.main"))
            if not sane:
                ck.correspondence_broken("reference-observations", {"i": r["i"], "go": obs_g})
            else:
                got = {(o[1], o[2]): o[3] for o in obs_l if len(o) == 4}
                for k in sorted(want):
                    if got.get(k) != want[k]:
                        ck.violation("runtime-package-not-initialised-before-its-importers",
                                     "runtime.MemProfileRate read in %s of package %s is %s under llgo, %s under go (runtime.init must run before "
                                     "every package that imports runtime, and only once)" % (k[1], k[0], got.get(k), want[k]), replay)
                        break
                byname = {p["name"]: p for p in facts["packages"]}
                opk = [n for n in facts["observers"]]
                seen_ready = [all(v == "524288" for (pn, site), v in got.items() if pn == n and site != "main.main") for n in opk]
                rt_terms.append("((%s, (%d, %d), %s), [%s])" % (gterm, ids["runtime"], main_id,
                                                              coq_nats([ids[byname[n]["path"]] for n in opk]), "; ".join(coq_bool(b) for b in seen_ready)))
                rt_raw.append(replay)
                classes["runtime-state-observations"] += len(got)
        pairs = lambda ps: "[" + "; ".join("(%d,%d)" % x for x in ps) + "]"
        e2e_terms.append("((%s, [%d], %s), %s)" % (gterm, main_id, bterm, pairs(pl)))
        e2e_raw.append(replay)
        sorted_ids = [ids[k] for k in sorted(ids)]
        # which packages have initialisation work of their own (std: known to have init tasks or not)
        std_work = {"sync": True, "reflect": True, "fmt": True, "runtime": True, "embed": True, "sync/atomic": False, "unsafe": False}
        byid = {v: k for k, v in ids.items()}
        fp = {p["path"]: p for p in facts["packages"]}
        work = []
        for k in range(len(ids)):
            path = byid[k]
            if path in fp:
                q = fp[path]
                work.append(q["nvars"] + q["ninits"] > 0 or q.get("kind") == "embed" or q["name"] in facts.get("observers", []))
            else:
                work.append(std_work.get(path, True))
        go_terms.append("(((%s, [%s]), %s, %s), %s)" % (gterm, "; ".join(coq_bool(w) for w in work), coq_nats(sorted_ids), bterm, pairs(pg)))
        go_raw.append(replay)
        # entry function of the linked binary
        calls = r.get("entry_calls", [])
        flags = ("Py_Initialize" in calls, "github.com/goplus/llgo/runtime/internal/runtime.init" in calls, "init$abitypes" in calls)
        entry_cases.append((flags, entry_tags(calls, "verifprog"), {"program": r["i"], "calls": calls}))
        classes["entry:py=%d,rt=%d,abi=%d" % flags] += 1
        # skeletons of the generated packages
        pkgfiles = dict(re.findall(r"^PKG (\S+) (\S+)$", r["log_llgo"], re.M))
        for p in facts["packages"]:
            f = pkgfiles.get(p["path"])
            fn = p["path"] + ".init"
            sk, why = (None, "no IR for package")
            if f and f != "-":
                fns = split_functions(open(f).read())
                sk, why = init_skeleton(fn, fns[fn]) if fn in fns else (None, "no init function")
            if sk and p.get("kind") == "embed":
                # the embedded file system is stored before the guard store, hence before every initialiser and init function
                var = '@"%s.assets"' % p["path"]
                st = [k for k, i in enumerate(fns[fn]) if re.search(r"store .*ptr %s," % re.escape(var), i)]
                first_use = [k for k, i in enumerate(fns[fn]) if re.search(r'call .*@"%s\.(cnt|init#\d+)"' % re.escape(p["path"]), i)]
                gpos = [k for k, i in enumerate(fns[fn]) if "store i1 true" in i]
                if not st or not first_use or not gpos or not (st[0] < gpos[0] < first_use[0]):
                    ck.correspondence_broken("embed-variable-initialised-after-package-code",
                                             {"program": r["i"], "package": p["path"], "store_at": st[:1], "guard_store_at": gpos[:1], "first_package_code_at": first_use[:1]})
                classes["embed-prologue"] += 1
            if sk:
                sk = {k: v for k, v in sk.items() if k != "body"}
            sk_terms.append("((%s, FInit %d), %s)" % (gterm, ids[p["path"]], coq_skel(sk, ids, "EMain %d" % ids[p["path"]])))
            sk_raw.append({"program": r["i"], "package": p["path"], "imports": p["imports"], "skeleton": sk, "why": why,
                           "files": {k: v for k, v in r["files"].items() if (k.rsplit("/", 1)[0] if "/" in k else "") == p["path"][len("verifprog/"):]}})
            classes["imports:%d" % min(len(p["imports"]), 5)] += 1
        for path, f in pkgfiles.items():
            if f != "-" and not path.startswith("verifprog") and path not in std_ir:
                std_ir[path] = f

    # ---------- std packages overlaid by llgo: init / init$hasPatch chain ----------
    alt = dict(re.findall(r'"([^"]+)":\s+(altPkgReplace|altPkgAdditive)', open(os.path.join(vlib.REPO, "runtime", "build.go")).read()))
    npatched = 0
    for path in sorted(alt):
        if path not in std_ir:
            continue
        adir = os.path.join(vlib.REPO, "runtime", "internal", "lib", path)
        srcs = "\n".join(open(os.path.join(adir, f)).read() for f in os.listdir(adir) if f.endswith(".go")) if os.path.isdir(adir) else ""
        noold = bool(re.search(r"^//\s?llgo:skipall\s*$", srcs, re.M) or re.search(r"^//\s?llgo:skip\s+(.*\s)?init(\s|$)", srcs, re.M))
        fns = split_functions(open(std_ir[path]).read())
        ski, why_i = init_skeleton(path + ".init", fns[path + ".init"]) if path + ".init" in fns else (None, "no init")
        has_old = path + ".init$hasPatch" in fns
        sko, why_o = init_skeleton(path + ".init$hasPatch", fns[path + ".init$hasPatch"]) if has_old else (None, "no init$hasPatch")
        # the import lists of std packages are read off the IR (order as go/ssa emits it); the
        # model decides polarity, the position of the chained call and what exists at all
        callees = []
        for sk in (ski, sko):
            for k, c in (sk or {"calls": []})["calls"]:
                if c != path and c not in callees:
                    callees.append(c)
        ids = {c: i for i, c in enumerate(callees)}
        ids[path] = len(callees)
        me = ids[path]
        imps_i = [ids.get(c, 999) for k, c in (ski or {"calls": []})["calls"] if k == "init"]
        imps_o = [ids.get(c, 999) for k, c in (sko or {"calls": []})["calls"] if k == "init"]
        kind = "KPatchedNoOld" if noold else "(KPatched %s)" % coq_nats(imps_o)
        # a self import (the replacement of runtime imports runtime) stays a call of the own init
        g = "[" + "; ".join([coq_pkg([])] * len(callees) + [coq_pkg([i if i != me else me for i in imps_i], kind)]) + "]"
        sk_terms.append("((%s, FInit %d), %s)" % (g, me, coq_skel(ski, ids, "EMain %d" % me)))
        sk_raw.append({"std": path, "fn": "init", "noold": noold, "skeleton": ski, "why": why_i})
        sk_terms.append("((%s, FOld %d), %s)" % (g, me, coq_skel(sko, ids, "EOrig %d" % me) if (has_old or not noold) else "None"))
        sk_raw.append({"std": path, "fn": "init$hasPatch", "noold": noold, "skeleton": sko, "why": why_o, "exists": has_old})
        classes["patched:" + ("noold" if noold else "chain")] += 1
        npatched += 1

    # ---------- evaluation inside Coq (the four comparisons run side by side) ----------
    ent_terms = ["((%s, %s, %s), [%s])" % (coq_bool(f[0]), coq_bool(f[1]), coq_bool(f[2]), "; ".join(t)) for f, t, _ in entry_cases]
    comps = [
        ("e2e", e2e_terms, "(fun x => predict (fst (fst x)) (snd (fst x)) (snd x))", "pairs_eqb", e2e_raw,
         lambda rw: ck.violation("trace-is-not-postorder", "llgo trace differs from the model's post-order prediction", rw, found=True)),
        ("goref", go_terms, "(fun x => predict_go (fst (fst (fst x))) (snd (fst (fst x))) (snd (fst x)) (snd x))", "pairs_eqb", go_raw,
         lambda rw: ck.correspondence_broken("C12.Model/go121_order vs reference trace", {"program": rw["program"], "go_trace": rw["go_trace"][:40]})),
        ("skel", sk_terms, "(fun x => compile (fst x) (snd x))", "(option_eqb skel_eqb)", sk_raw,
         lambda rw: ck.correspondence_broken("C12.Model/compile vs IR skeleton", rw)),
        ("rtready", rt_terms, "(fun x => rt_ready (fst (fst x)) (fst (snd (fst x))) (snd (snd (fst x))) (snd x))", "(list_eqb Bool.eqb)", rt_raw,
         lambda rw: ck.violation("runtime-package-not-initialised-before-its-importers",
                                 "observed readiness of the runtime package differs from the model (runtime tree first, then main's tree)", rw)),
        ("entry", ent_terms, "(fun x => entry_code (fst (fst x)) (snd (fst x)) (snd x) 0)", "(list_eqb top_eqb)", [c[2] for c in entry_cases],
         lambda rw: ck.correspondence_broken("C12.Model/entry_code vs entry function", rw)),
    ]
    with ThreadPoolExecutor(4) as ex:
        bads = list(ex.map(lambda c: ck.coq_mismatches(hdr, c[1], c[2], c[3], "c12_" + c[0], shard=40) if c[1] else [], comps))
    for c, bad in zip(comps, bads):
        for i in bad[:5]:
            c[5](c[4][i])
    ck.phase("model evaluated")

    ck.cov["samples"] = [{"program": e2e_raw[0]["program"], "llgo_trace": e2e_raw[0]["llgo_trace"][:12]}] if e2e_raw else []
    if sk_raw:
        ck.cov["samples"].append({k: sk_raw[0][k] for k in ("package", "imports", "skeleton") if k in sk_raw[0]})
    ck.add_cov(evaluations=nlines + len(sk_terms) + len(ent_terms), nontrivial=len(e2e_terms) + len(sk_terms) + len(ent_terms),
               classes=dict(classes), programs=len(e2e_terms), trace_lines=nlines, skeletons=len(sk_terms),
               patched_std_packages=npatched, entry_functions=len(ent_terms),
               programs_whose_package_order_differs_from_go_1_21_sorted_order=differs_from_go_order)
    ck.cov["rule"] = ("generated acyclic import graphs (2-8 packages; several files, imports spread/duplicated over files, blank imports, "
                      "forward and through-function variable dependencies, 0-3 init per file, std imports sync/atomic/reflect/unsafe/runtime) "
                      "built by the working tree; evaluations = trace lines + init skeletons + entry functions; every trace is checked by the "
                      "property oracle, compared with go's trace per package and with the model's prediction inside Coq")
    return ck.finish()
