package targets

// Injected by /verif (go test -overlay); not part of the repository.
//
// C18: every target description resolves to one well-defined configuration.
// The harness (1) pushes every shipped targets/*.json and generated inheritance
// forests through the real Resolver, (2) evaluates the property itself with an
// independent resolver that works on the raw JSON by key, and (3) writes every
// case (raw descriptions + observed result) for the comparison with the Coq model.

import (
	"bytes"
	"encoding/json"
	"fmt"
	"os"
	"os/exec"
	"path/filepath"
	"reflect"
	"runtime/debug"
	"sort"
	"strconv"
	"strings"
	"sync"
	"testing"
	"time"
)

type vrng struct{ s uint64 }

func (r *vrng) next() uint64 {
	r.s += 0x9e3779b97f4a7c15
	z := r.s
	z = (z ^ (z >> 30)) * 0xbf58476d1ce4e5b9
	z = (z ^ (z >> 27)) * 0x94d049bb133111eb
	return z ^ (z >> 31)
}
func (r *vrng) n(k int) int { return int(r.next() % uint64(k)) }

// the harness' own field table: Go field name, JSON key, kind (s, b, l).
// Written by hand from config.go; deliberately NOT derived from the struct tags.
type vfield struct{ Go, Key, Kind string }

var vtable = []vfield{
	{"LLVMTarget", "llvm-target", "s"}, {"CPU", "cpu", "s"}, {"Features", "features", "s"},
	{"BuildTags", "build-tags", "l"}, {"GOOS", "goos", "s"}, {"GOARCH", "goarch", "s"},
	{"Libc", "libc", "s"}, {"RTLib", "rtlib", "s"}, {"Linker", "linker", "s"}, {"LinkerScript", "linkerscript", "s"},
	{"CFlags", "cflags", "l"}, {"LDFlags", "ldflags", "l"}, {"ExtraFiles", "extra-files", "l"},
	{"CodeModel", "code-model", "s"}, {"TargetABI", "target-abi", "s"}, {"RelocationModel", "relocation-model", "s"},
	{"BinaryFormat", "binary-format", "s"}, {"UF2FamilyID", "uf2-family-id", "s"},
	{"FlashMethod", "flash-method", "s"}, {"FlashCommand", "flash-command", "s"}, {"Flash1200BpsReset", "flash-1200-bps-reset", "s"},
	{"Serial", "serial", "s"}, {"SerialPort", "serial-port", "l"},
	{"MSDVolumeName", "msd-volume-name", "l"}, {"MSDFirmwareName", "msd-firmware-name", "s"},
	{"RP2040BootPatch", "rp2040-boot-patch", "b"},
	{"Emulator", "emulator", "s"}, {"GDB", "gdb", "l"},
	{"OpenOCDInterface", "openocd-interface", "s"}, {"OpenOCDTransport", "openocd-transport", "s"}, {"OpenOCDTarget", "openocd-target", "s"},
}

// one value of a raw description / resolved configuration
type vval struct {
	K string   `json:"k"`
	T string   `json:"t"` // s, b, l, null, other
	S string   `json:"s,omitempty"`
	B bool     `json:"b,omitempty"`
	L []string `json:"l,omitempty"`
}

type vnode struct {
	Name string   `json:"name"`
	Inh  []string `json:"inh"`
	F    []vval   `json:"f"`
}

type vrec struct {
	Kind  string  `json:"kind"`
	Class string  `json:"class,omitempty"`
	DB    []vnode `json:"db,omitempty"`
	Q     string  `json:"q,omitempty"`
	Res   string  `json:"res,omitempty"` // ok, missing, cycle, err-other, crash, hang
	Miss  string  `json:"miss,omitempty"`
	Cfg   []vval  `json:"cfg,omitempty"`
	Key   string  `json:"key,omitempty"`
	What  string  `json:"what,omitempty"`
	Exp   string  `json:"exp,omitempty"` // what the independent resolver expects
	Err   string  `json:"err,omitempty"`
}

var (
	vmu  sync.Mutex
	venc *json.Encoder
)

func vemit(r vrec) {
	vmu.Lock()
	defer vmu.Unlock()
	venc.Encode(r)
}

// ---------- projection of a resolved *Config by Go field name ----------

func vproject(c *Config, fields []vfield) ([]vval, []string) {
	out := []vval{}
	lost := []string{}
	v := reflect.ValueOf(*c)
	for _, f := range fields {
		fv := v.FieldByName(f.Go)
		if !fv.IsValid() {
			lost = append(lost, f.Go)
			continue
		}
		switch {
		case f.Kind == "s" && fv.Kind() == reflect.String:
			out = append(out, vval{K: f.Key, T: "s", S: fv.String()})
		case f.Kind == "b" && fv.Kind() == reflect.Bool:
			out = append(out, vval{K: f.Key, T: "b", B: fv.Bool()})
		case f.Kind == "l" && fv.Kind() == reflect.Slice && fv.Type().Elem().Kind() == reflect.String:
			l := []string{}
			for i := 0; i < fv.Len(); i++ {
				l = append(l, fv.Index(i).String())
			}
			out = append(out, vval{K: f.Key, T: "l", L: l})
		default:
			lost = append(lost, f.Go+":type")
		}
	}
	return out, lost
}

// fields of Config that the hand-written table does not know: taken from the
// struct (tag and type) so that the property oracle also covers a field that
// was added to Config later
func vextraFields() []vfield {
	known := map[string]bool{"Name": true}
	for _, f := range vtable {
		known[f.Go] = true
	}
	extra := []vfield{}
	t := reflect.TypeOf(Config{})
	for i := 0; i < t.NumField(); i++ {
		sf := t.Field(i)
		if known[sf.Name] {
			continue
		}
		key := strings.Split(sf.Tag.Get("json"), ",")[0]
		if key == "" || key == "-" {
			continue
		}
		switch {
		case sf.Type.Kind() == reflect.String:
			extra = append(extra, vfield{sf.Name, key, "s"})
		case sf.Type.Kind() == reflect.Bool:
			extra = append(extra, vfield{sf.Name, key, "b"})
		case sf.Type.Kind() == reflect.Slice && sf.Type.Elem().Kind() == reflect.String:
			extra = append(extra, vfield{sf.Name, key, "l"})
		default:
			extra = append(extra, vfield{sf.Name, key, "?"})
		}
	}
	return extra
}

// ---------- independent resolver on the raw descriptions ----------

// status: "ok", "missing:<name>", "cycle"
func vlin(db map[string]*vnode, n string, stack map[string]bool) ([]string, string) {
	nd, ok := db[n]
	if !ok {
		return nil, "missing:" + n
	}
	if stack[n] {
		return nil, "cycle:" + n
	}
	stack[n] = true
	defer delete(stack, n)
	out := []string{}
	for _, p := range nd.Inh {
		l, st := vlin(db, p, stack)
		if st != "ok" {
			return nil, st
		}
		out = append(out, l...)
	}
	return append(out, n), "ok"
}

func vget(nd *vnode, key string) (vval, bool) {
	// last occurrence wins, as encoding/json does for duplicate keys
	var r vval
	found := false
	for _, v := range nd.F {
		if v.K == key {
			r, found = v, true
		}
	}
	return r, found
}

// the law of the property: scalar = nearest description that defines it (a
// non-zero value), list = concatenation along the linearisation
func vexpect(db map[string]*vnode, lin []string, fields []vfield) []vval {
	out := []vval{}
	for _, f := range fields {
		e := vval{K: f.Key, T: f.Kind}
		if f.Kind == "l" {
			e.L = []string{}
		}
		for _, n := range lin {
			v, ok := vget(db[n], f.Key)
			if !ok || v.T != f.Kind {
				continue
			}
			switch f.Kind {
			case "s":
				if v.S != "" {
					e.S = v.S
				}
			case "b":
				if v.B {
					e.B = true
				}
			case "l":
				e.L = append(e.L, v.L...)
			}
		}
		out = append(out, e)
	}
	return out
}

func vsame(a, b vval) bool {
	if a.K != b.K || a.T != b.T || a.S != b.S || a.B != b.B || len(a.L) != len(b.L) {
		return false
	}
	for i := range a.L {
		if a.L[i] != b.L[i] {
			return false
		}
	}
	return true
}

// ---------- running the real resolver ----------

type vresult struct {
	Res  string
	Miss string
	Err  string
	Cfg  *Config
}

func vclassifyErr(err error) (string, string) {
	msg := err.Error()
	const cyc = "inheritance cycle in target config: "
	if i := strings.LastIndex(msg, cyc); i >= 0 {
		chain := strings.Split(msg[i+len(cyc):], " -> ")
		return "cycle", chain[len(chain)-1]
	}
	const pat = "failed to read target config "
	if i := strings.LastIndex(msg, pat); i >= 0 {
		rest := msg[i+len(pat):]
		if j := strings.Index(rest, ":"); j >= 0 {
			return "missing", rest[:j]
		}
	}
	return "err-other", ""
}

func vresolveWith(r *Resolver, name string) (res vresult) {
	defer func() {
		if p := recover(); p != nil {
			res = vresult{Res: "panic", Err: fmt.Sprint(p)}
		}
	}()
	c, err := r.Resolve(name)
	if err != nil {
		k, m := vclassifyErr(err)
		return vresult{Res: k, Miss: m, Err: err.Error()}
	}
	if c == nil {
		return vresult{Res: "err-other", Err: "nil config, nil error"}
	}
	return vresult{Res: "ok", Cfg: c}
}

// ---------- operation sequences on ONE Loader ----------
// The loader caches what it has read.  Every answer must nevertheless be a pure
// function of the directory contents: the same as a fresh loader gives, whatever
// was asked before (theorem load_is_history_independent).  ops: Resolve, Load,
// LoadRaw, HasTarget on existing and missing names, with repetitions.
type vop struct {
	Op   string `json:"op"`
	Name string `json:"name"`
	Got  string `json:"got"`
	Want string `json:"want"`
}

func vopResult(r *Resolver, op, name string, fields []vfield) (out string, res vchildOut) {
	defer func() {
		if p := recover(); p != nil {
			out = "panic: " + fmt.Sprint(p)
			res = vchildOut{Res: "panic", Err: fmt.Sprint(p)}
		}
	}()
	switch op {
	case "Resolve":
		res, _ = vresToChild(vresolveWith(r, name), fields)
	case "Load":
		c, err := r.loader.Load(name)
		switch {
		case err != nil:
			k, m := vclassifyErr(err)
			res = vchildOut{Res: k, Miss: m}
		case c == nil:
			res = vchildOut{Res: "err-other", Err: "nil config, nil error"}
		default:
			res, _ = vresToChild(vresult{Res: "ok", Cfg: c}, fields)
		}
	case "LoadRaw":
		raw, err := r.loader.LoadRaw(name)
		switch {
		case err != nil && raw == nil:
			k, m := vclassifyErr(err)
			return k + ":" + m, vchildOut{}
		case err == nil && raw != nil:
			return "raw:" + raw.Name + ":" + strings.Join(raw.Inherits, ","), vchildOut{}
		default:
			return fmt.Sprintf("inconsistent: raw==nil is %v, err==nil is %v", raw == nil, err == nil), vchildOut{}
		}
	case "HasTarget":
		return strconv.FormatBool(r.HasTarget(name)), vchildOut{}
	}
	res.Err = "" // the text of the error wraps differently for Load and Resolve; kind and name are compared
	b, _ := json.Marshal(res)
	return string(b), res
}

func vrunSequence(r *vrng, dir string, class string, flat []vnode, names []string, fields []vfield) {
	shared := NewResolver(dir)
	ops := []string{"Resolve", "Resolve", "Load", "LoadRaw", "HasTarget"}
	k := 6 + r.n(8)
	hist := []vop{}
	for i := 0; i < k; i++ {
		op := ops[r.n(len(ops))]
		name := names[r.n(len(names))]
		if i > 0 && r.n(3) == 0 {
			name = hist[r.n(len(hist))].Name // ask again for a name that was asked before
		}
		got, res := vopResult(shared, op, name, fields)
		want, _ := vopResult(NewResolver(dir), op, name, fields)
		hist = append(hist, vop{op, name, got, want})
		if got != want {
			hb, _ := json.Marshal(hist)
			vemit(vrec{Kind: "viol", Key: "loader-history-dependent", Class: class, DB: flat, Q: name,
				What: fmt.Sprintf("step %d of a sequence on one Loader: %s(%s) differs from the answer of a fresh Loader; sequence (op,name,got,want): %s", i+1, op, name, hb)})
			return
		}
		if op == "Resolve" || op == "Load" {
			// the answers also go to the Coq model: resolve is a function of (directory, name) only
			vemit(vrec{Kind: "forest", Class: class + "+seq", DB: flat, Q: name, Res: res.Res, Miss: res.Miss, Cfg: res.Cfg, Exp: "seq"})
		}
	}
}

// child process: resolve one name; a stack overflow kills only this process
func TestVerifChild(t *testing.T) {
	spec := os.Getenv("VERIF_CHILD")
	if spec == "" {
		return
	}
	debug.SetMaxStack(1 << 20)
	i := strings.LastIndex(spec, "|")
	dir, name := spec[:i], spec[i+1:]
	res := vresolveWith(NewResolver(dir), name)
	out := map[string]any{"res": res.Res, "miss": res.Miss, "err": res.Err}
	if res.Cfg != nil {
		cfg, _ := vproject(res.Cfg, append(append([]vfield{}, vtable...), vextraFields()...))
		out["cfg"] = cfg
		out["name"] = res.Cfg.Name
	}
	b, _ := json.Marshal(out)
	fmt.Printf("\nVERIF_CHILD_RESULT:%s\n", b)
}

type vchildOut struct {
	Res  string `json:"res"`
	Miss string `json:"miss"`
	Err  string `json:"err"`
	Name string `json:"name"`
	Cfg  []vval `json:"cfg"`
}

func vrunChild(dir, name string) (vchildOut, string) {
	cmd := exec.Command(os.Args[0], "-test.run=^TestVerifChild$", "-test.timeout=60s")
	cmd.Env = append(os.Environ(), "VERIF_CHILD="+dir+"|"+name)
	var buf bytes.Buffer
	cmd.Stdout = &buf
	cmd.Stderr = &buf
	if err := cmd.Start(); err != nil {
		return vchildOut{Res: "err-other", Err: err.Error()}, ""
	}
	done := make(chan error, 1)
	go func() { done <- cmd.Wait() }()
	select {
	case <-done:
	case <-time.After(40 * time.Second):
		cmd.Process.Kill()
		<-done
		return vchildOut{Res: "hang"}, "no result within 40s"
	}
	s := buf.String()
	if i := strings.Index(s, "VERIF_CHILD_RESULT:"); i >= 0 {
		line := s[i+len("VERIF_CHILD_RESULT:"):]
		if j := strings.Index(line, "\n"); j >= 0 {
			line = line[:j]
		}
		var o vchildOut
		if json.Unmarshal([]byte(line), &o) == nil {
			return o, ""
		}
	}
	detail := s
	if len(detail) > 300 {
		detail = detail[:300]
	}
	if strings.Contains(s, "stack overflow") || strings.Contains(s, "goroutine stack exceeds") {
		return vchildOut{Res: "crash"}, "fatal error: stack overflow (goroutine stack exceeds limit)"
	}
	return vchildOut{Res: "crash-other"}, detail
}

// ---------- generators ----------

func vjs(s string) string { b, _ := json.Marshal(s); return string(b) }

func vjl(l []string) string {
	if l == nil {
		l = []string{}
	}
	b, _ := json.Marshal(l)
	return string(b)
}

// writes one description; order of keys shuffled, inherits anywhere
func vwriteNode(dir string, r *vrng, nd *vnode, inhNull bool) error {
	parts := []string{}
	if len(nd.Inh) > 0 || r.n(3) == 0 {
		if len(nd.Inh) == 0 && inhNull {
			parts = append(parts, `"inherits": null`)
		} else {
			parts = append(parts, `"inherits": `+vjl(nd.Inh))
		}
	}
	for _, v := range nd.F {
		switch v.T {
		case "s":
			parts = append(parts, vjs(v.K)+": "+vjs(v.S))
		case "b":
			parts = append(parts, vjs(v.K)+": "+strconv.FormatBool(v.B))
		case "l":
			parts = append(parts, vjs(v.K)+": "+vjl(v.L))
		case "null":
			parts = append(parts, vjs(v.K)+": null")
		case "other":
			parts = append(parts, vjs(v.K)+": 4096")
		}
	}
	for i := len(parts) - 1; i > 0; i-- {
		j := r.n(i + 1)
		parts[i], parts[j] = parts[j], parts[i]
	}
	return os.WriteFile(filepath.Join(dir, nd.Name+".json"), []byte("{\n  "+strings.Join(parts, ",\n  ")+"\n}\n"), 0o644)
}

var vstrPool = []string{"", "", "a", "x y", "é", "-O2", "\"q\"", "0"}

func vgenFields(r *vrng, name string, fields []vfield, dense bool) []vval {
	out := []vval{}
	seen := map[string]bool{}
	for fi, f := range fields {
		p := 5
		if dense {
			p = 2
		}
		if r.n(p) != 0 || f.Kind == "?" {
			continue
		}
		seen[f.Key] = true
		v := vval{K: f.Key, T: f.Kind}
		switch f.Kind {
		case "s":
			switch r.n(6) {
			case 0:
				v.S = vstrPool[r.n(len(vstrPool))]
			case 1:
				v.T = "null"
			default:
				v.S = name + "/" + strconv.Itoa(fi) // value names its origin: precedence is observable
			}
		case "b":
			v.B = r.n(3) != 0
		case "l":
			switch r.n(7) {
			case 0:
				v.L = []string{}
			case 1:
				v.T = "null"
			case 2:
				v.L = []string{""}
			case 3:
				v.L = []string{"dup", "dup"}
			default:
				k := 1 + r.n(3)
				for i := 0; i < k; i++ {
					v.L = append(v.L, name+"/"+strconv.Itoa(fi)+"."+strconv.Itoa(i))
				}
			}
		}
		out = append(out, v)
	}
	// keys Config does not have (ignored by the loader), once in a while
	if r.n(4) == 0 {
		out = append(out, vval{K: "scheduler", T: "s", S: "tasks"})
	}
	if r.n(6) == 0 {
		out = append(out, vval{K: "default-stack-size", T: "other"})
	}
	return out
}

type vforest struct {
	class string
	nodes []*vnode
}

func vname(i int) string { return "n" + strconv.Itoa(i) }

// shapes: chain (depth up to 5), diamond, multi-parent dag, repeated parent,
// missing parent, cycles (self, two-cycle, longer, cycle below a sound node)
func vgenForest(r *vrng, fields []vfield, wantClass int) vforest {
	k := 2 + r.n(6)
	nodes := make([]*vnode, k)
	for i := range nodes {
		nodes[i] = &vnode{Name: vname(i), Inh: []string{}}
	}
	class := ""
	switch wantClass {
	case 0: // chain: n(i) inherits n(i-1); depth up to 5 edges
		class = "chain"
		if k > 6 {
			k = 6
			nodes = nodes[:6]
		}
		for i := 1; i < k; i++ {
			nodes[i].Inh = []string{vname(i - 1)}
		}
	case 1: // diamond(s): 0 base; 1,2 inherit 0; 3 inherits 1,2 (either order); rest random
		class = "diamond"
		for len(nodes) < 4 {
			nodes = append(nodes, &vnode{Name: vname(len(nodes)), Inh: []string{}})
		}
		k = len(nodes)
		nodes[1].Inh = []string{"n0"}
		nodes[2].Inh = []string{"n0"}
		if r.n(2) == 0 {
			nodes[3].Inh = []string{"n1", "n2"}
		} else {
			nodes[3].Inh = []string{"n2", "n1"}
		}
		for i := 4; i < k; i++ {
			nodes[i].Inh = []string{vname(r.n(i)), vname(r.n(i))}
		}
	default: // random dag: parents have smaller index, up to 3, duplicates possible
		class = "dag"
		for i := 1; i < k; i++ {
			np := r.n(4)
			for j := 0; j < np; j++ {
				nodes[i].Inh = append(nodes[i].Inh, vname(r.n(i)))
			}
		}
	}
	switch wantClass {
	case 3: // missing parent somewhere (first, middle or last position)
		class = "missing"
		i := r.n(k)
		pos := r.n(len(nodes[i].Inh) + 1)
		inh := append([]string{}, nodes[i].Inh[:pos]...)
		inh = append(inh, "ghost"+strconv.Itoa(r.n(2)))
		nodes[i].Inh = append(inh, nodes[i].Inh[pos:]...)
	case 4: // cycle
		class = "cycle"
		switch r.n(4) {
		case 0: // self
			i := r.n(k)
			nodes[i].Inh = append(nodes[i].Inh, vname(i))
		case 1: // two-cycle
			i := r.n(k - 1)
			nodes[i].Inh = append([]string{vname(i + 1)}, nodes[i].Inh...)
			nodes[i+1].Inh = append(nodes[i+1].Inh, vname(i))
		default: // back edge from a low node to a higher one that (often) reaches it
			i := r.n(k - 1)
			j := i + 1 + r.n(k-1-i)
			pos := r.n(len(nodes[i].Inh) + 1)
			inh := append([]string{}, nodes[i].Inh[:pos]...)
			inh = append(inh, vname(j))
			nodes[i].Inh = append(inh, nodes[i].Inh[pos:]...)
			if r.n(2) == 0 {
				nodes[j].Inh = append(nodes[j].Inh, vname(i))
			}
		}
		if r.n(4) == 0 { // and a missing parent somewhere too: whichever comes first decides
			i := r.n(k)
			nodes[i].Inh = append(nodes[i].Inh, "ghost0")
		}
	}
	dense := r.n(3) == 0
	for _, nd := range nodes {
		nd.F = vgenFields(r, nd.Name, fields, dense)
	}
	return vforest{class, nodes}
}

// fixed forests run first: the witnesses of the Coq refutation theorems
// (cycle_refuted: a inherits a; a <-> b) and the plain missing-parent cases
var vfixed = []func() vforest{
	func() vforest {
		return vforest{"witness-self-cycle", []*vnode{{Name: "a", Inh: []string{"a"}, F: []vval{{K: "cpu", T: "s", S: "x"}}}}}
	},
	func() vforest {
		return vforest{"witness-two-cycle", []*vnode{
			{Name: "a", Inh: []string{"b"}, F: []vval{{K: "cpu", T: "s", S: "x"}}},
			{Name: "b", Inh: []string{"a"}, F: []vval{{K: "cflags", T: "l", L: []string{"-g"}}}}}}
	},
	func() vforest {
		return vforest{"witness-cycle-below", []*vnode{
			{Name: "top", Inh: []string{"base", "a"}, F: []vval{}},
			{Name: "base", Inh: []string{}, F: []vval{{K: "cpu", T: "s", S: "x"}}},
			{Name: "a", Inh: []string{"base", "b"}, F: []vval{}},
			{Name: "b", Inh: []string{"a"}, F: []vval{}}}}
	},
	func() vforest {
		return vforest{"missing", []*vnode{
			{Name: "a", Inh: []string{"ghost0"}, F: []vval{{K: "cpu", T: "s", S: "x"}}},
			{Name: "b", Inh: []string{"a"}, F: []vval{}},
			{Name: "c", Inh: []string{"d", "ghost1"}, F: []vval{}},
			{Name: "d", Inh: []string{}, F: []vval{{K: "rp2040-boot-patch", T: "b", B: true}}}}}
	},
	func() vforest { // bool: a child cannot switch a parent's true off (OR), list boundaries
		return vforest{"dag", []*vnode{
			{Name: "p", Inh: []string{}, F: []vval{{K: "rp2040-boot-patch", T: "b", B: true}, {K: "gdb", T: "l", L: []string{"g1"}}, {K: "cpu", T: "s", S: "pc"}}},
			{Name: "c", Inh: []string{"p"}, F: []vval{{K: "rp2040-boot-patch", T: "b", B: false}, {K: "gdb", T: "l", L: []string{}}, {K: "cpu", T: "s", S: ""}}},
			{Name: "d", Inh: []string{"c", "p", "c"}, F: []vval{{K: "gdb", T: "l", L: []string{"g2"}}}}}}
	},
}

// ---------- the checks ----------

func vcheckAgainstLaw(class string, nodes []vnode, dbm map[string]*vnode, q string, got vchildOut, fields []vfield, detail string) {
	lin, st := vlin(dbm, q, map[string]bool{})
	viol := func(key, what string) {
		vemit(vrec{Kind: "viol", Key: key, What: what, Class: class, DB: nodes, Q: q, Res: got.Res, Miss: got.Miss, Err: got.Err, Cfg: got.Cfg, Exp: st})
	}
	switch {
	case strings.HasPrefix(st, "cycle:"):
		switch got.Res {
		case "cycle":
			if got.Miss != st[6:] {
				viol("cycle-error-wrong-name", "error names "+got.Miss+", the description entered twice is "+st[6:])
			}
		case "missing", "err-other":
			// an error: what the property asks for
		case "crash":
			viol("cyclic-inherits-unbounded-recursion", "Resolve("+q+") on a cyclic inherits chain does not return an error: "+detail)
		case "hang":
			viol("cyclic-inherits-hang", "Resolve("+q+") on a cyclic inherits chain does not return: "+detail)
		case "ok":
			viol("cyclic-inherits-resolved", "Resolve("+q+") on a cyclic inherits chain returned a configuration")
		default:
			viol("cyclic-inherits-crash", "Resolve("+q+") on a cyclic inherits chain: "+got.Res+" "+detail)
		}
	case strings.HasPrefix(st, "missing:"):
		if got.Res != "missing" && got.Res != "err-other" {
			viol("missing-parent-no-error", "Resolve("+q+") with missing parent "+st[8:]+" gave "+got.Res+" "+detail)
		} else if got.Res == "missing" && got.Miss != st[8:] {
			viol("missing-parent-wrong-name", "error names "+got.Miss+", first missing description is "+st[8:])
		}
	default:
		if got.Res != "ok" {
			viol("acyclic-resolve-failed", "Resolve("+q+") failed on an acyclic closed forest: "+got.Res+" "+got.Err+" "+detail)
			return
		}
		if got.Name != q {
			viol("resolved-name", "Resolve("+q+").Name = "+got.Name)
		}
		exp := vexpect(dbm, lin, fields)
		gm := map[string]vval{}
		for _, v := range got.Cfg {
			gm[v.K] = v
		}
		for _, e := range exp {
			g, ok := gm[e.K]
			if e.T == "l" && g.L == nil {
				g.L = []string{}
			}
			if !ok || !vsame(e, g) {
				eb, _ := json.Marshal(e)
				gb, _ := json.Marshal(g)
				kind := map[string]string{"s": "scalar-nearest-definition", "b": "bool-nearest-definition", "l": "list-concatenation"}[e.T]
				viol("merge-law-"+kind, fmt.Sprintf("field %s of %s: linearisation %v gives %s, resolver gives %s", e.K, q, lin, eb, gb))
			}
		}
	}
}

func vresToChild(res vresult, fields []vfield) (vchildOut, []string) {
	o := vchildOut{Res: res.Res, Miss: res.Miss, Err: res.Err}
	var lost []string
	if res.Cfg != nil {
		o.Cfg, lost = vproject(res.Cfg, fields)
		o.Name = res.Cfg.Name
	}
	return o, lost
}

func vreadShipped(dir string) ([]vnode, error) {
	ents, err := os.ReadDir(dir)
	if err != nil {
		return nil, err
	}
	nodes := []vnode{}
	for _, e := range ents {
		if e.IsDir() || !strings.HasSuffix(e.Name(), ".json") {
			continue
		}
		data, err := os.ReadFile(filepath.Join(dir, e.Name()))
		if err != nil {
			return nil, err
		}
		var m map[string]json.RawMessage
		if err := json.Unmarshal(data, &m); err != nil {
			return nil, fmt.Errorf("%s: %v", e.Name(), err)
		}
		nd := vnode{Name: strings.TrimSuffix(e.Name(), ".json"), Inh: []string{}}
		keys := []string{}
		for k := range m {
			keys = append(keys, k)
		}
		sort.Strings(keys)
		for _, k := range keys {
			rawv := m[k]
			var s string
			var b bool
			var l []string
			switch {
			case k == "inherits":
				if json.Unmarshal(rawv, &l) == nil {
					nd.Inh = append(nd.Inh, l...)
				}
			case string(rawv) == "null":
				nd.F = append(nd.F, vval{K: k, T: "null"})
			case json.Unmarshal(rawv, &s) == nil:
				nd.F = append(nd.F, vval{K: k, T: "s", S: s})
			case json.Unmarshal(rawv, &b) == nil:
				nd.F = append(nd.F, vval{K: k, T: "b", B: b})
			case json.Unmarshal(rawv, &l) == nil:
				if l == nil {
					l = []string{}
				}
				nd.F = append(nd.F, vval{K: k, T: "l", L: l})
			default:
				nd.F = append(nd.F, vval{K: k, T: "other"})
			}
		}
		nodes = append(nodes, nd)
	}
	return nodes, nil
}

func TestVerif(t *testing.T) {
	if os.Getenv("VERIF_OUT") == "" {
		t.Skip("VERIF_OUT not set")
	}
	seed, _ := strconv.ParseUint(os.Getenv("VERIF_SEED"), 10, 64)
	n, _ := strconv.Atoi(os.Getenv("VERIF_N"))
	if n == 0 {
		n = 300
	}
	f, err := os.Create(os.Getenv("VERIF_OUT"))
	if err != nil {
		t.Fatal(err)
	}
	defer f.Close()
	venc = json.NewEncoder(f)
	r := &vrng{s: seed*104729 + 18}

	extra := vextraFields()
	fields := append(append([]vfield{}, vtable...), extra...)
	for _, e := range extra {
		vemit(vrec{Kind: "extra-field", Q: e.Go, Key: e.Key, Class: e.Kind})
	}

	// ---- 1. every shipped description ----
	shipDir, _ := filepath.Abs(filepath.Join("..", "..", "targets"))
	nodes, err := vreadShipped(shipDir)
	if err != nil {
		t.Fatal(err)
	}
	dbm := map[string]*vnode{}
	for i := range nodes {
		dbm[nodes[i].Name] = &nodes[i]
	}
	vemit(vrec{Kind: "shipdb", DB: nodes})
	shared := NewResolver(shipDir)
	all, allErr := NewResolver(shipDir).ResolveAll()
	if allErr != nil {
		vemit(vrec{Kind: "viol", Key: "shipped-resolve-all-failed", What: allErr.Error()})
	}
	order := make([]int, len(nodes))
	for i := range order {
		order[i] = i
	}
	for i := len(order) - 1; i > 0; i-- {
		j := r.n(i + 1)
		order[i], order[j] = order[j], order[i]
	}
	for _, i := range order {
		q := nodes[i].Name
		got, lost := vresToChild(vresolveWith(NewResolver(shipDir), q), fields)
		for _, l := range lost {
			vemit(vrec{Kind: "viol", Key: "config-field-lost", What: "Config." + l + " is gone or changed type"})
		}
		vemit(vrec{Kind: "ship", Q: q, Res: got.Res, Miss: got.Miss, Cfg: got.Cfg, Err: got.Err})
		vcheckAgainstLaw("shipped", nil, dbm, q, got, fields, "")
		// same answer from a resolver that has already served other requests, and from ResolveAll
		got2, _ := vresToChild(vresolveWith(shared, q), fields)
		b1, _ := json.Marshal(got)
		b2, _ := json.Marshal(got2)
		if string(b1) != string(b2) {
			vemit(vrec{Kind: "viol", Key: "resolve-order-dependent", What: "shipped " + q + ": a fresh resolver and a used one disagree", Q: q})
		}
		if allErr == nil {
			if c, ok := all[q]; !ok {
				vemit(vrec{Kind: "viol", Key: "resolve-all-incomplete", What: "ResolveAll lacks " + q, Q: q})
			} else {
				p, _ := vproject(c, fields)
				b3, _ := json.Marshal(p)
				b4, _ := json.Marshal(got.Cfg)
				if got.Res == "ok" && string(b3) != string(b4) {
					vemit(vrec{Kind: "viol", Key: "resolve-all-differs", What: "ResolveAll[" + q + "] differs from Resolve", Q: q})
				}
			}
		}
	}

	// ---- 2. generated forests ----
	root, err := os.MkdirTemp("", "verif_c18_")
	if err != nil {
		t.Fatal(err)
	}
	defer os.RemoveAll(root)
	type job struct {
		dir   string
		fo    vforest
		nodes []vnode
		dbm   map[string]*vnode
		q     string
		st    string
	}
	var childJobs []job
	ncycle := 0
	maxCycle := n / 6
	for it := 0; it < n; it++ {
		wc := []int{0, 1, 2, 2, 2, 3, 3, 4}[r.n(8)]
		if wc == 4 && ncycle >= maxCycle {
			wc = 2
		}
		if wc == 4 {
			ncycle++
		}
		fo := vgenForest(r, fields, wc)
		if it < len(vfixed) {
			fo = vfixed[it]()
		}
		dir := filepath.Join(root, "f"+strconv.Itoa(it))
		os.MkdirAll(dir, 0o755)
		// files are written in a shuffled order: the result may not depend on it
		perm := make([]int, len(fo.nodes))
		for i := range perm {
			perm[i] = i
		}
		for i := len(perm) - 1; i > 0; i-- {
			j := r.n(i + 1)
			perm[i], perm[j] = perm[j], perm[i]
		}
		for _, i := range perm {
			if err := vwriteNode(dir, r, fo.nodes[i], r.n(2) == 0); err != nil {
				t.Fatal(err)
			}
		}
		fdb := map[string]*vnode{}
		flat := make([]vnode, len(fo.nodes))
		for i, nd := range fo.nodes {
			flat[i] = *nd
			fdb[nd.Name] = nd
		}
		shared := NewResolver(dir)
		qs := append([]int{}, perm...)
		qnames := []string{}
		for _, i := range qs {
			qnames = append(qnames, fo.nodes[i].Name)
		}
		if fo.class == "missing" && r.n(3) == 0 {
			qnames = append(qnames, "ghost0") // the requested description itself is missing
		}
		cyclic := false
		for _, q := range qnames {
			_, st := vlin(fdb, q, map[string]bool{})
			if strings.HasPrefix(st, "cycle:") {
				cyclic = true
				childJobs = append(childJobs, job{dir, fo, flat, fdb, q, st})
				continue
			}
			got, _ := vresToChild(vresolveWith(NewResolver(dir), q), fields)
			vemit(vrec{Kind: "forest", Class: fo.class, DB: flat, Q: q, Res: got.Res, Miss: got.Miss, Cfg: got.Cfg, Err: got.Err, Exp: st})
			vcheckAgainstLaw(fo.class, flat, fdb, q, got, fields, "")
			got2, _ := vresToChild(vresolveWith(shared, q), fields)
			b1, _ := json.Marshal(got)
			b2, _ := json.Marshal(got2)
			if string(b1) != string(b2) {
				vemit(vrec{Kind: "viol", Key: "resolve-order-dependent", Class: fo.class, DB: flat, Q: q,
					What: "a fresh resolver and one that served other requests before disagree"})
			}
		}
		if !cyclic {
			seqNames := append(append([]string{}, qnames...), "ghost0", "ghost1", "nosuch")
			vrunSequence(r, dir, fo.class, flat, seqNames, fields)
		}
	}
	// cyclic requests: each in its own process, eight at a time
	var wg sync.WaitGroup
	sem := make(chan struct{}, 8)
	for _, j := range childJobs {
		wg.Add(1)
		sem <- struct{}{}
		go func(j job) {
			defer wg.Done()
			defer func() { <-sem }()
			got, detail := vrunChild(j.dir, j.q)
			vemit(vrec{Kind: "forest", Class: j.fo.class, DB: j.nodes, Q: j.q, Res: got.Res, Miss: got.Miss, Cfg: got.Cfg, Err: got.Err, Exp: j.st, What: detail})
			vcheckAgainstLaw(j.fo.class, j.nodes, j.dbm, j.q, got, fields, detail)
		}(j)
	}
	wg.Wait()
}
