// fieldtable: run by props/C18/check.py on every run (go run . <repo>/internal/targets).
// Prints, as JSON, the fields of type Config (config.go) with their JSON keys and Go
// types, and how func mergeConfig (loader.go) treats each of them, so that the
// field-kind table of the Coq model can be compared with the source as it is now.
package main

import (
	"bytes"
	"encoding/json"
	"fmt"
	"go/ast"
	"go/parser"
	"go/printer"
	"go/token"
	"os"
	"path/filepath"
	"reflect"
	"strings"
)

type field struct {
	Go    string `json:"go"`
	Key   string `json:"key"`
	Type  string `json:"type"`
	Merge string `json:"merge"` // str, bool, list, none, or other:<text>
	Count int    `json:"count"`
}

type out struct {
	Fields       []*field `json:"fields"`
	InheritsKey  string   `json:"inherits_key"`
	Unclassified []string `json:"unclassified"`
	Embedded     []string `json:"raw_embedded"`
}

var fset = token.NewFileSet()

func src(n ast.Node) string {
	var b bytes.Buffer
	printer.Fprint(&b, fset, n)
	return strings.Join(strings.Fields(b.String()), " ")
}

func jsonKey(tag *ast.BasicLit) string {
	if tag == nil {
		return ""
	}
	s := strings.Trim(tag.Value, "`")
	return strings.Split(reflect.StructTag(s).Get("json"), ",")[0]
}

// sel returns F when e is the selector <base>.F
func sel(e ast.Expr, base string) string {
	s, ok := e.(*ast.SelectorExpr)
	if !ok {
		return ""
	}
	id, ok := s.X.(*ast.Ident)
	if !ok || id.Name != base {
		return ""
	}
	return s.Sel.Name
}

func classify(st ast.Stmt, dst, srcn string) (string, string) {
	is, ok := st.(*ast.IfStmt)
	if !ok || is.Init != nil || is.Else != nil || len(is.Body.List) != 1 {
		return "", ""
	}
	as, ok := is.Body.List[0].(*ast.AssignStmt)
	if !ok || as.Tok != token.ASSIGN || len(as.Lhs) != 1 || len(as.Rhs) != 1 {
		return "", ""
	}
	f := sel(as.Lhs[0], dst)
	if f == "" {
		return "", ""
	}
	switch c := is.Cond.(type) {
	case *ast.BinaryExpr:
		// src.F != ""  { dst.F = src.F }
		if c.Op == token.NEQ && sel(c.X, srcn) == f {
			if l, ok := c.Y.(*ast.BasicLit); ok && l.Value == `""` && sel(as.Rhs[0], srcn) == f {
				return f, "str"
			}
		}
		// len(src.F) > 0 { dst.F = append(dst.F, src.F...) }
		if c.Op == token.GTR {
			call, ok := c.X.(*ast.CallExpr)
			l, ok2 := c.Y.(*ast.BasicLit)
			if ok && ok2 && l.Value == "0" && src(call.Fun) == "len" && len(call.Args) == 1 && sel(call.Args[0], srcn) == f {
				ap, ok := as.Rhs[0].(*ast.CallExpr)
				if ok && src(ap.Fun) == "append" && len(ap.Args) == 2 && ap.Ellipsis.IsValid() &&
					sel(ap.Args[0], dst) == f && sel(ap.Args[1], srcn) == f {
					return f, "list"
				}
			}
		}
	case *ast.SelectorExpr:
		// src.F { dst.F = src.F }
		if sel(c, srcn) == f && (sel(as.Rhs[0], srcn) == f || src(as.Rhs[0]) == "true") {
			return f, "bool"
		}
	}
	return f, "other:" + src(st)
}

func main() {
	dir := os.Args[1]
	cf, err := parser.ParseFile(fset, filepath.Join(dir, "config.go"), nil, 0)
	if err != nil {
		fmt.Fprintln(os.Stderr, err)
		os.Exit(2)
	}
	lf, err := parser.ParseFile(fset, filepath.Join(dir, "loader.go"), nil, 0)
	if err != nil {
		fmt.Fprintln(os.Stderr, err)
		os.Exit(2)
	}
	o := out{Unclassified: []string{}, Embedded: []string{}}
	byName := map[string]*field{}
	ast.Inspect(cf, func(n ast.Node) bool {
		ts, ok := n.(*ast.TypeSpec)
		if !ok {
			return true
		}
		st, ok := ts.Type.(*ast.StructType)
		if !ok {
			return true
		}
		for _, fl := range st.Fields.List {
			switch ts.Name.Name {
			case "Config":
				for _, nm := range fl.Names {
					f := &field{Go: nm.Name, Key: jsonKey(fl.Tag), Type: src(fl.Type), Merge: "none"}
					o.Fields = append(o.Fields, f)
					byName[nm.Name] = f
				}
				if len(fl.Names) == 0 {
					o.Fields = append(o.Fields, &field{Go: src(fl.Type), Key: "", Type: "embedded:" + src(fl.Type), Merge: "none"})
				}
			case "RawConfig":
				for _, nm := range fl.Names {
					if nm.Name == "Inherits" {
						o.InheritsKey = jsonKey(fl.Tag)
					} else {
						o.Embedded = append(o.Embedded, "field:"+nm.Name)
					}
				}
				if len(fl.Names) == 0 {
					o.Embedded = append(o.Embedded, src(fl.Type))
				}
			}
		}
		return true
	})
	for _, d := range lf.Decls {
		fd, ok := d.(*ast.FuncDecl)
		if !ok || fd.Name.Name != "mergeConfig" || fd.Body == nil {
			continue
		}
		names := []string{}
		for _, p := range fd.Type.Params.List {
			for _, nm := range p.Names {
				names = append(names, nm.Name)
			}
		}
		if len(names) != 2 {
			o.Unclassified = append(o.Unclassified, "signature:"+src(fd.Type))
			continue
		}
		for _, st := range fd.Body.List {
			f, how := classify(st, names[0], names[1])
			if f == "" || byName[f] == nil {
				o.Unclassified = append(o.Unclassified, src(st))
				continue
			}
			byName[f].Count++
			if byName[f].Merge == "none" {
				byName[f].Merge = how
			} else if byName[f].Merge != how {
				byName[f].Merge = "other:twice"
			}
		}
	}
	json.NewEncoder(os.Stdout).Encode(o)
}
