"""C18 - every target description resolves to one well-defined configuration."""
import json, os, shutil, collections
import vlib
from vlib import coq_list

HERE = os.path.dirname(os.path.abspath(__file__))
H = os.path.join(HERE, "harness")
PKG = "internal/targets"


def cstr(s):
    return '"%s"%%string' % s.replace('"', '""')


def plain(s):
    return all(32 <= ord(c) < 127 and c != '"' for c in s)


def nbytes(s):
    return "(" + vlib.coq_bytes(s) + ")"


def cstrs(l):
    """list str, built with the monomorphic constructors of C18.Model"""
    t = "snil"
    for x in reversed(l or []):
        t = ('(sl "%s" %s)' % (x, t)) if plain(x) else "(sn %s %s)" % (nbytes(x), t)
    return t


KEYS = ["llvm-target", "cpu", "features", "build-tags", "goos", "goarch", "libc", "rtlib", "linker", "linkerscript",
        "cflags", "ldflags", "extra-files", "code-model", "target-abi", "relocation-model", "binary-format",
        "uf2-family-id", "flash-method", "flash-command", "flash-1200-bps-reset", "serial", "serial-port",
        "msd-volume-name", "msd-firmware-name", "rp2040-boot-patch", "emulator", "gdb", "openocd-interface",
        "openocd-transport", "openocd-target"]     # = map fst C18.Model.table (checked in Coq on every run)
KEYIDX = {k: i for i, k in enumerate(KEYS)}


def ccfg(vals, observed=False):
    t = "fnil"
    for v in reversed(vals or []):
        k = v["k"]
        if not plain(k):
            continue
        if observed and not (v.get("s") or v.get("b") or v.get("l")):
            continue        # zero value in a resolved configuration: res_eqb normalises both sides over the table
        k = "(kk %d)" % KEYIDX[k] if k in KEYIDX else '"%s"' % k
        if v["t"] == "s":
            x = v.get("s", "")
            t = ('(fs %s "%s" %s)' % (k, x, t)) if plain(x) else '(fsn %s %s %s)' % (k, nbytes(x), t)
        elif v["t"] == "b":
            t = '(fb %s %s %s)' % (k, "true" if v.get("b") else "false", t)
        elif v["t"] == "l":
            t = '(fl %s %s %s)' % (k, cstrs(v.get("l")), t)
        # null / other type: json.Unmarshal leaves the zero value (keys outside Config are ignored)
    return t


def cdb(nodes):
    t = "dnil"
    for nd in reversed(nodes):
        assert plain(nd["name"])
        t = '(dn "%s" %s %s %s)' % (nd["name"], cstrs(nd.get("inh")), ccfg(nd.get("f")), t)
    return t


def cress(rs):
    """list res for a list of records; None if one of them has no model counterpart"""
    t = "rnil"
    for r in reversed(rs):
        if r["res"] == "ok":
            t = '(rok "%s" %s %s)' % (r["q"], ccfg(r.get("cfg"), True), t)
        elif r["res"] == "missing":
            t = '(rmiss "%s" %s)' % (r.get("miss", ""), t)
        elif r["res"] == "cycle":
            t = '(rcyc "%s" %s)' % (r.get("miss", ""), t)
        elif r["res"] == "crash":
            t = "(rloop %s)" % t
        else:
            return None
    return t


def field_table(ck):
    """fields of Config and their treatment in mergeConfig, extracted from the working tree with go/ast"""
    d = os.path.join(ck.work, "fieldtable")
    os.makedirs(d, exist_ok=True)
    shutil.copy(os.path.join(H, "fieldtable", "main.go"), os.path.join(d, "main.go"))
    open(os.path.join(d, "go.mod"), "w").write("module fieldtable\n\ngo 1.24\n")
    rc, out = vlib.sh(["go", "run", ".", os.path.join(vlib.REPO, PKG)], cwd=d, env=vlib.goenv(), timeout=300)
    if rc != 0:
        ck.correspondence_broken("C18.field-table/extract", out[-800:])
        return None
    try:
        return json.loads(out[out.index("{"):])
    except Exception as e:
        ck.correspondence_broken("C18.field-table/parse", "%s %s" % (e, out[-400:]))
        return None


KIND_OF_TYPE = {"string": "str", "bool": "bool", "[]string": "list"}
COQ_KIND = {"str": "KStr", "bool": "KBool", "list": "KList"}


def check_field_table(ck, ft):
    problems = []
    entries = []
    for f in ft["fields"]:
        if f["go"] == "Name" and f["key"] == "-":
            if f["merge"] != "none":
                problems.append("Name is merged: %s" % f["merge"])
            continue
        want = KIND_OF_TYPE.get(f["type"])
        if want is None:
            problems.append("Config.%s has type %s: not modelled" % (f["go"], f["type"]))
            continue
        if f["merge"] == "none":
            problems.append("Config.%s (%s) does not occur in mergeConfig: it is never inherited" % (f["go"], f["key"]))
            continue
        if f["merge"] != want or f["count"] != 1:
            problems.append("Config.%s of type %s is merged as %s (x%d)" % (f["go"], f["type"], f["merge"], f["count"]))
            continue
        entries.append("(%s, %s, %s)" % (cstr(f["key"]), cstr(f["go"]), COQ_KIND[want]))
    if ft.get("unclassified"):
        problems.append("statements of mergeConfig outside the three merge forms: %s" % ft["unclassified"][:3])
    if ft.get("inherits_key") != "inherits":
        problems.append("RawConfig.Inherits has JSON key %r" % ft.get("inherits_key"))
    if ft.get("raw_embedded") != ["Config"]:
        problems.append("RawConfig is no longer {Inherits; Config}: %s" % ft.get("raw_embedded"))
    text = ("From LLGoV Require Import C18.Model.\nDefinition gen : list (string * string * kind) := %s.\n"
            "Goal table_matches gen = true. Proof. vm_compute. reflexivity. Qed.\n"
            "Goal map fst table = %s. Proof. vm_compute. reflexivity. Qed.\n" % (coq_list(entries), coq_list([cstr(k) for k in KEYS])))
    rc, out = ck.coq_run(text, "c18_fieldtable")
    if rc != 0:
        problems.append("the field table extracted from config.go/loader.go differs from C18.Model.table")
    ck.obligations.append(("merge_covers_all_fields(generated)", not problems,
                           "every field of Config except Name occurs once in mergeConfig with the form its type dictates, "
                           "and equals C18.Model.table (%d fields)" % len(entries)))
    if problems:
        ck.correspondence_broken("C18.field-table", problems)
    return len(entries)


def run(ck):
    ck.trusted = ["Coq 8.16.1 kernel (coqc, vm_compute)", "Go overlay harness props/C18/harness/targets_verif_test.go "
                  "(independent resolver on the raw JSON, by key)", "go/ast extraction props/C18/harness/fieldtable/main.go",
                  "hand-written model coq/theories/C18/Model.v tied by correspondence", "encoding/json (upstream)"]
    ck.assumptions = ["resolve true (the loader with the visiting chain) is the model compared with the code; resolve false is the loader before the fix",
                      "a description defines a scalar when its value is not the zero value (empty string / false): this is how mergeConfig reads it",
                      "JSON keys are matched exactly (encoding/json also accepts other capitalisation; no shipped file uses one)",
                      "cyclic requests run in a child process with debug.SetMaxStack(1 MiB) so that a regression to unbounded recursion is observed, not fatal"]
    ck.coq_build("C18")
    ck.coq_props("LLGoV.C18.Props", "theories/C18/Props.v")

    ft = field_table(ck)
    nfields = check_field_table(ck, ft) if ft else 0

    n = {"quick": 300, "thorough": 6000}[ck.tier]
    out = os.path.join(ck.work, "c18.jsonl")
    rc, log = ck.go_test_overlay(PKG, {"zz_verif_test.go": os.path.join(H, "targets_verif_test.go")},
                                 env={"VERIF_OUT": out, "VERIF_N": str(n)})
    if rc != 0 or not os.path.exists(out):
        ck.correspondence_broken("harness:" + PKG, log[-1500:])
        return ck.finish()
    recs = collections.defaultdict(list)
    for line in open(out):
        r = json.loads(line)
        recs[r["kind"]].append(r)

    for v in recs["viol"]:
        ck.violation(v["key"], v.get("what", ""), v)
    for e in recs["extra-field"]:
        ck.log("Config has a field the model does not know: %s (%s)" % (e.get("q"), e.get("key")))

    hdr = "From LLGoV Require Import C18.Model.\nLocal Open Scope N_scope.\n"
    total = 0
    classes = collections.Counter()

    def explained(name, r):
        """True if the record has a model counterpart (Ok / ErrMissing / OutOfFuel)"""
        if r["res"] in ("ok", "missing", "cycle", "crash") and plain(r["q"]) and plain(r.get("miss", "")):
            return True     # crash (stack overflow) is OutOfFuel in the model: a mismatch with the fixed loader
        ck.correspondence_broken("C18.Model/" + name, {"unexplained result": r["res"], "q": r["q"],
                                                       "err": r.get("err"), "what": r.get("what")})
        return False

    def compare(name, header, groups, dbterm, shard):
        """groups: lists of records that share one description set"""
        nonlocal total
        terms = []
        for g in groups:
            terms.append("mkcase %s %s %s" % (dbterm(g), cstrs([r["q"] for r in g]), cress(g)))
            total += len(g)
        bad = ck.coq_mismatches(header, terms, "(fun x => map (resolve true 40 (fst x)) (snd x))", "list_eqb res_eqb",
                                "c18_" + name, shard=shard)
        if bad:
            g = groups[bad[0]]
            ck.correspondence_broken("C18.Model/" + name, {
                "n_mismatch_groups": len(bad), "db": g[0].get("db"),
                "first": [{k: r.get(k) for k in ("q", "res", "miss", "cfg", "class")} for r in g][:4]})

    ship = [r for r in recs["ship"] if explained("shipped", r)]
    if recs["shipdb"]:
        shipdb = recs["shipdb"][0]["db"]
        chunks = [ship[i:i + 14] for i in range(0, len(ship), 14)]
        compare("shipped", hdr + "Definition shipdb : db := %s.\n" % cdb(shipdb), chunks, lambda g: "shipdb", 4)
        inh = sum(1 for nd in shipdb if nd.get("inh"))
        classes["shipped:inheriting"] = inh
        classes["shipped:base"] = len(shipdb) - inh
    forest = recs["forest"]
    fgroups = collections.OrderedDict()
    for r in forest:
        if explained("forest", r):
            fgroups.setdefault(json.dumps(r["db"], sort_keys=True), []).append(r)
    compare("forest", hdr, list(fgroups.values()), lambda g: cdb(g[0]["db"]), 32)
    for r in forest:
        classes["forest:%s:%s" % (r.get("class"), r["res"])] += 1
    distinct = set()
    for r in forest:
        distinct.add(json.dumps([r["db"], r["q"]], sort_keys=True))
    samples = []
    for rs in (ship, forest):
        if rs:
            r = rs[len(rs) // 3]
            samples.append({k: r.get(k) for k in ("kind", "class", "q", "res", "miss") if r.get(k) is not None})
    ck.add_cov(evaluations=total, nontrivial=len(distinct) + len(ship), samples=samples, classes=dict(classes))
    ck.cov["rule"] = ("all shipped targets/*.json (raw JSON read by key, independently of the struct tags) + generated forests "
                      "(chains to depth 5, diamonds, random dags with up to 3 parents and repeated parents, missing parents at every "
                      "position, self/two/longer cycles, cycle+missing) over all %d Config fields with origin-tagged values, "
                      "explicit zero values, nulls and unknown keys; each request goes through the real Resolver.Resolve "
                      "(cyclic ones in a child process), through the harness' independent linearisation resolver (property oracle) "
                      "and through the Coq model (vm_compute); distinct = distinct (forest, request) pairs + shipped targets" % nfields)
    return ck.finish()
