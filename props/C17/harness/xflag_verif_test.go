package build

// Injected by /verif (go test -overlay); not part of the repository.

import (
	"encoding/json"
	"os"
	"strconv"
	"strings"
	"testing"
)

type vrngx struct{ s uint64 }

func (r *vrngx) next() uint64 {
	r.s += 0x9e3779b97f4a7c15
	z := r.s
	z = (z ^ (z >> 30)) * 0xbf58476d1ce4e5b9
	z = (z ^ (z >> 27)) * 0x94d049bb133111eb
	return z ^ (z >> 31)
}
func (r *vrngx) n(k int) int { return int(r.next() % uint64(k)) }

type vrecx struct {
	Kind  string `json:"kind"`
	Arg   []int  `json:"arg"`
	Panic bool   `json:"panic"`
	Pkg   []int  `json:"pkg"`
	Name  []int  `json:"name"`
	Value []int  `json:"value"`
	Key   string `json:"key,omitempty"`
	What  string `json:"what,omitempty"`
}

func vbx(s string) []int {
	out := []int{}
	for i := 0; i < len(s); i++ {
		out = append(out, int(s[i]))
	}
	return out
}

func TestVerifXflag(t *testing.T) {
	seed, _ := strconv.ParseUint(os.Getenv("VERIF_SEED"), 10, 64)
	n, _ := strconv.Atoi(os.Getenv("VERIF_N"))
	if n == 0 {
		n = 600
	}
	f, err := os.Create(os.Getenv("VERIF_OUT"))
	if err != nil {
		t.Fatal(err)
	}
	defer f.Close()
	enc := json.NewEncoder(f)
	r := &vrngx{s: seed*9173 + 77}
	pkgs := []string{"main", "github.com/x/y", "a.b/c.d", "example.com/m/v2", "p"}
	names := []string{"Version", "buildDate", "x", "V_1", "ünï"}
	vals := []string{"", "1.2.3", "a=b", "x.y=z.w", " spaced value ", "=", ".", "v=1.0=2", "日本"}
	call := func(arg string) (pkg, name, val string, panicked bool) {
		conf := &Config{}
		defer func() {
			if recover() != nil {
				panicked = true
			}
		}()
		addGlobalStringWith(conf, arg, []string{"realmain"}, false)
		for p, vars := range conf.GlobalRewrites {
			for k, v := range vars {
				pkg, name, val = p, k, v
			}
		}
		return
	}
	for i := 0; i < n; i++ {
		structured := r.n(4) != 0
		var arg, wp, wn, wv string
		if structured {
			wp, wn, wv = pkgs[r.n(len(pkgs))], names[r.n(len(names))], vals[r.n(len(vals))]
			arg = wp + "." + wn + "=" + wv
		} else {
			parts := []string{"a", ".", "=", "b.c", "main", "", " ", "x=", ".y"}
			for k := r.n(5); k > 0; k-- {
				arg += parts[r.n(len(parts))]
			}
		}
		pkg, name, val, pn := call(arg)
		rec := vrecx{Kind: "xflag", Arg: vbx(arg), Panic: pn, Pkg: vbx(pkg), Name: vbx(name), Value: vbx(val)}
		if pkg == "realmain" {
			rec.Pkg = vbx("main")
		}
		// validateRewriteInput rejects some syntactically split arguments (non-identifier names, blanks in
		// the package path); those are outside the splitting model: report the split only when accepted
		if !pn || !strings.Contains(arg, "=") || !strings.Contains(arg[:strings.Index(arg, "=")+1], ".") {
			enc.Encode(rec)
		}
		if structured {
			expPkg := wp
			if pn || string(rune(0))+pkg == "" || (pkg != expPkg && !(expPkg == "main" && pkg == "realmain")) || name != wn || val != wv {
				enc.Encode(vrecx{Kind: "viol", Key: "xflag-roundtrip", Arg: vbx(arg), What: "-X " + arg + " parsed as (" + pkg + "," + name + "," + val + ") panic=" + strconv.FormatBool(pn)})
			}
		}
	}
}
