package clang

// Injected by /verif (go test -overlay); not part of the repository.

import (
	"encoding/json"
	"os"
	"strconv"
	"strings"
	"testing"
)

type vrng struct{ s uint64 }

func (r *vrng) next() uint64 {
	r.s += 0x9e3779b97f4a7c15
	z := r.s
	z = (z ^ (z >> 30)) * 0xbf58476d1ce4e5b9
	z = (z ^ (z >> 27)) * 0x94d049bb133111eb
	return z ^ (z >> 31)
}
func (r *vrng) n(k int) int { return int(r.next() % uint64(k)) }

type vrec struct {
	Kind string  `json:"kind"`
	Env1 []int   `json:"env1"`
	Env2 []int   `json:"env2"`
	Cfg1 [][]int `json:"cfg1"`
	Cfg2 [][]int `json:"cfg2"`
	Out  [][]int `json:"out"`
	Key  string  `json:"key,omitempty"`
	What string  `json:"what,omitempty"`
}

func vb(s string) []int {
	out := []int{}
	for i := 0; i < len(s); i++ {
		out = append(out, int(s[i]))
	}
	return out
}
func vbs(ss []string) [][]int {
	out := [][]int{}
	for _, s := range ss {
		out = append(out, vb(s))
	}
	return out
}

var vflags = []string{"-I/usr/include", "-DX=1", "-O2", "-L/opt/lib", "-lfoo", "-Wall", "-Ia\\ b", "-D'q'", "-fPIC", "-g"}

func vlist(r *vrng) []string {
	n := r.n(4)
	out := []string{}
	for i := 0; i < n; i++ {
		out = append(out, vflags[r.n(len(vflags))])
	}
	return out
}

func TestVerif(t *testing.T) {
	seed, _ := strconv.ParseUint(os.Getenv("VERIF_SEED"), 10, 64)
	n, _ := strconv.Atoi(os.Getenv("VERIF_N"))
	if n == 0 {
		n = 500
	}
	f, err := os.Create(os.Getenv("VERIF_OUT"))
	if err != nil {
		t.Fatal(err)
	}
	defer f.Close()
	enc := json.NewEncoder(f)
	r := &vrng{s: seed*7477 + 41}
	for i := 0; i < n; i++ {
		e1, e2, e3 := vlist(r), vlist(r), vlist(r)
		c1, c2, c3 := vlist(r), vlist(r), vlist(r)
		s1, s2, s3 := strings.Join(e1, " "), strings.Join(e2, "  "), strings.Join(e3, " ")
		t.Setenv("CCFLAGS", s1)
		t.Setenv("CFLAGS", s2)
		t.Setenv("LDFLAGS", s3)
		cmd := New("clang", NewConfig("", c1, c2, c3, ""))
		got := cmd.mergeCompilerFlags()
		enc.Encode(vrec{Kind: "mergec", Env1: vb(s1), Env2: vb(s2), Cfg1: vbs(c1), Cfg2: vbs(c2), Out: vbs(got)})
		unesc := func(l []string) []string {
			o := []string{}
			for _, x := range l {
				o = append(o, strings.ReplaceAll(x, "\\ ", " "))
			}
			return o
		}
		want := append(append(append(unesc(e1), unesc(e2)...), c1...), c2...)
		if strings.Join(got, "\x00") != strings.Join(want, "\x00") {
			enc.Encode(vrec{Kind: "viol", Key: "clang-merge-compiler-flags", What: "mergeCompilerFlags = " + strings.Join(got, "|") + " want " + strings.Join(want, "|")})
		}
		gotl := cmd.mergeLinkerFlags()
		enc.Encode(vrec{Kind: "mergel", Env1: vb(s1), Env2: vb(s3), Cfg1: vbs(c3), Out: vbs(gotl)})
		wantl := append(append(unesc(e1), unesc(e3)...), c3...)
		if strings.Join(gotl, "\x00") != strings.Join(wantl, "\x00") {
			enc.Encode(vrec{Kind: "viol", Key: "clang-merge-linker-flags", What: "mergeLinkerFlags = " + strings.Join(gotl, "|") + " want " + strings.Join(wantl, "|")})
		}
	}
}
