package safesplit

// Injected by /verif (go test -overlay); not part of the repository.

import (
	"encoding/json"
	"os"
	"strconv"
	"strings"
	"testing"
)

type vrng struct{ s uint64 }

func (r *vrng) next() uint64 {
	r.s += 0x9e3779b97f4a7c15
	z := r.s
	z = (z ^ (z >> 30)) * 0xbf58476d1ce4e5b9
	z = (z ^ (z >> 27)) * 0x94d049bb133111eb
	return z ^ (z >> 31)
}
func (r *vrng) n(k int) int { return int(r.next() % uint64(k)) }

type vrec struct {
	Kind  string  `json:"kind"`
	In    []int   `json:"in"`
	Out   [][]int `json:"out"`
	Key   string  `json:"key,omitempty"`
	What  string  `json:"what,omitempty"`
	Class string  `json:"class,omitempty"`
}

func vb(s string) []int {
	out := []int{}
	for i := 0; i < len(s); i++ {
		out = append(out, int(s[i]))
	}
	return out
}

var valpha = []string{" ", " ", "\t", "\\", "-", "-", "a", "b", "I", "L", "/", "\u00e9", "\u4e16", "\u00a0", "\u0085", "\u2028", "\u3000", "\u1680", "\u205f", "\n", "\r", "\"", "'", "$", "\xc2", "\x85", "\xe2\x80", "\xa0", "\x80"}

func vrand(r *vrng, l int) string {
	var b strings.Builder
	for k := 0; k < l; k++ {
		b.WriteString(valpha[r.n(len(valpha))])
	}
	return b.String()
}

func isBlank(c byte) bool { return c == ' ' || c == '\t' }

// trailing blank in the flag value: TrimSpace drops it (recorded finding F11)
func endsInSpace(s string) bool { return strings.TrimSpace(s) != s }

func TestVerif(t *testing.T) {
	seed, _ := strconv.ParseUint(os.Getenv("VERIF_SEED"), 10, 64)
	n, _ := strconv.Atoi(os.Getenv("VERIF_N"))
	if n == 0 {
		n = 2000
	}
	f, err := os.Create(os.Getenv("VERIF_OUT"))
	if err != nil {
		t.Fatal(err)
	}
	defer f.Close()
	enc := json.NewEncoder(f)
	r := &vrng{s: seed*104729 + 5}
	emit := func(class, in string) []string {
		out := SplitPkgConfigFlags(in)
		rec := vrec{Kind: "pc", Class: class, In: vb(in), Out: [][]int{}}
		for _, o := range out {
			rec.Out = append(rec.Out, vb(o))
		}
		enc.Encode(rec)
		return out
	}
	for i := 0; i < n; i++ {
		nf := 1 + r.n(4)
		want := []string{}
		parts := []string{}
		known := ""
		for j := 0; j < nf; j++ {
			var c string
			for {
				c = valpha[r.n(len(valpha))]
				c = c[:1]
				if !isBlank(c[0]) {
					break
				}
			}
			content := vrand(r, r.n(6))
			// the documented form: content does not start with '-', a backslash is
			// never the last byte (there is no escape for backslash itself)
			for strings.HasPrefix(content, "-") {
				content = content[1:]
			}
			for strings.HasSuffix(content, "\\") {
				content = content[:len(content)-1]
			}
			var b strings.Builder
			b.WriteString("-" + c)
			for k := 0; k < len(content); k++ {
				if isBlank(content[k]) {
					b.WriteByte('\\')
				}
				b.WriteByte(content[k])
			}
			parts = append(parts, b.String())
			want = append(want, "-"+c+content)
			if endsInSpace("-" + c + content) {
				known = "safesplit-trailing-space-trimmed"
			}
		}
		line := strings.Join(parts, " ")
		out := emit("roundtrip", line)
		ok := len(out) == len(want)
		if ok {
			for j := range want {
				if out[j] != want[j] {
					ok = false
				}
			}
		}
		if !ok {
			key := "safesplit-roundtrip"
			if known != "" {
				// is the trailing-space trimming the only difference?
				only := len(out) == len(want)
				if only {
					for j := range want {
						if out[j] != strings.TrimSpace(want[j]) {
							only = false
						}
					}
				}
				if only {
					key = known
				}
			}
			enc.Encode(vrec{Kind: "viol", Key: key, In: vb(line), What: "split(render(flags)) != flags"})
		}
	}
	for i := 0; i < n; i++ {
		emit("raw", vrand(r, r.n(12)))
	}
}
