package env

// Injected by /verif (go test -overlay); not part of the repository.

import (
	"encoding/json"
	"os"
	"strconv"
	"strings"
	"testing"
)

type vrng struct{ s uint64 }

func (r *vrng) next() uint64 {
	r.s += 0x9e3779b97f4a7c15
	z := r.s
	z = (z ^ (z >> 30)) * 0xbf58476d1ce4e5b9
	z = (z ^ (z >> 27)) * 0x94d049bb133111eb
	return z ^ (z >> 31)
}
func (r *vrng) n(k int) int { return int(r.next() % uint64(k)) }

type vrec struct {
	Kind  string   `json:"kind"`
	Tmpl  []int    `json:"tmpl"`
	Dflt  []int    `json:"dflt"`
	Envs  [][2][]int `json:"envs"`
	Out   []int    `json:"out"`
	Key   string   `json:"key,omitempty"`
	What  string   `json:"what,omitempty"`
	Class string   `json:"class,omitempty"`
}

func vb(s string) []int {
	out := []int{}
	for i := 0; i < len(s); i++ {
		out = append(out, int(s[i]))
	}
	return out
}

var vkeys = []string{"a", "b", "in", "out", "port"}
var vlit = []string{"x", " ", "-o", "/", "{", "}", "{}", "$", "é"}

func TestVerif(t *testing.T) {
	seed, _ := strconv.ParseUint(os.Getenv("VERIF_SEED"), 10, 64)
	n, _ := strconv.Atoi(os.Getenv("VERIF_N"))
	if n == 0 {
		n = 1500
	}
	f, err := os.Create(os.Getenv("VERIF_OUT"))
	if err != nil {
		t.Fatal(err)
	}
	defer f.Close()
	enc := json.NewEncoder(f)
	r := &vrng{s: seed*65537 + 11}
	for i := 0; i < n; i++ {
		// template = literals and {key} references; values free of braces so the
		// (map-order dependent) substitution order cannot matter
		nk := 1 + r.n(3)
		envs := map[string]string{}
		order := []string{}
		perm := r.n(len(vkeys))
		for j := 0; j < nk; j++ {
			k := vkeys[(perm+j)%len(vkeys)]
			v := ""
			for q := r.n(4); q > 0; q-- {
				v += []string{"v", "/dev/tty", " ", "1", "é", "$"}[r.n(6)]
			}
			envs[k] = v
			order = append(order, k)
		}
		var tb, want strings.Builder
		dflt := []string{"", "D", "d d"}[r.n(3)]
		structured := r.n(4) != 0
		for q := r.n(7); q > 0; q-- {
			switch r.n(3) {
			case 0:
				k := order[r.n(len(order))]
				tb.WriteString("{" + k + "}")
				want.WriteString(envs[k])
			case 1:
				if structured {
					l := []string{"x", " ", "-o", "/", "é"}[r.n(5)]
					tb.WriteString(l)
					want.WriteString(l)
				} else {
					tb.WriteString(vlit[r.n(len(vlit))])
				}
			default:
				tb.WriteString("{}")
				want.WriteString(dflt)
			}
		}
		tmpl := tb.String()
		var got string
		if dflt == "" && r.n(2) == 0 {
			got = ExpandEnvWithDefault(tmpl, envs)
		} else {
			got = ExpandEnvWithDefault(tmpl, envs, dflt)
		}
		rec := vrec{Kind: "brace", Tmpl: vb(tmpl), Dflt: vb(dflt), Out: vb(got), Class: map[bool]string{true: "structured", false: "raw"}[structured]}
		for _, k := range order {
			rec.Envs = append(rec.Envs, [2][]int{vb(k), vb(envs[k])})
		}
		// raw templates can make the result depend on map order ({a{b}} shapes): only
		// single-key raw cases go to the model comparison
		if structured || len(order) == 1 {
			enc.Encode(rec)
		}
		if structured && got != want.String() {
			enc.Encode(vrec{Kind: "viol", Key: "ienv-expand", Tmpl: vb(tmpl), What: "ExpandEnvWithDefault(" + tmpl + ") = " + got + " want " + want.String()})
		}
		// raw templates (literal braces next to placeholders): position-wise reference. Values and the
		// default are free of braces and no literal piece can complete a key name, so reading the
		// template left to right - {} is the default, {key} a value, anything else itself - is what
		// the documented expansion means, whatever order the substitutions are made in.
		if !structured {
			var ref strings.Builder
			for p := 0; p < len(tmpl); {
				if strings.HasPrefix(tmpl[p:], "{}") {
					ref.WriteString(dflt)
					p += 2
					continue
				}
				hit := false
				for _, k := range order {
					if strings.HasPrefix(tmpl[p:], "{"+k+"}") {
						ref.WriteString(envs[k])
						p += len(k) + 2
						hit = true
						break
					}
				}
				if !hit {
					ref.WriteByte(tmpl[p])
					p++
				}
			}
			if got != ref.String() {
				enc.Encode(vrec{Kind: "viol", Key: "ienv-expand-literal-braces", Tmpl: vb(tmpl), What: "ExpandEnvWithDefault(" + tmpl + ") = " + got + " want " + ref.String()})
			}
		}
	}
}
