package env

// Injected by /verif (go test -overlay); not part of the repository.

import (
	"encoding/json"
	"os"
	"path/filepath"
	"strconv"
	"strings"
	"testing"
)

type vrng struct{ s uint64 }

func (r *vrng) next() uint64 {
	r.s += 0x9e3779b97f4a7c15
	z := r.s
	z = (z ^ (z >> 30)) * 0xbf58476d1ce4e5b9
	z = (z ^ (z >> 27)) * 0x94d049bb133111eb
	return z ^ (z >> 31)
}
func (r *vrng) n(k int) int { return int(r.next() % uint64(k)) }

type vrec struct {
	Kind  string `json:"kind"`
	In    string `json:"in"`
	Key   string `json:"key,omitempty"`
	What  string `json:"what,omitempty"`
	Class string `json:"class,omitempty"`
}

func TestVerif(t *testing.T) {
	seed, _ := strconv.ParseUint(os.Getenv("VERIF_SEED"), 10, 64)
	n, _ := strconv.Atoi(os.Getenv("VERIF_N"))
	if n == 0 {
		n = 300
	}
	f, err := os.Create(os.Getenv("VERIF_OUT"))
	if err != nil {
		t.Fatal(err)
	}
	defer f.Close()
	enc := json.NewEncoder(f)
	r := &vrng{s: seed*4099 + 23}
	// stub pkg-config: prints the file named by $VERIF_PC_OUT
	dir := t.TempDir()
	stub := "#!/bin/sh\ncat \"$VERIF_PC_OUT\"\n"
	os.WriteFile(filepath.Join(dir, "pkg-config"), []byte(stub), 0o755)
	t.Setenv("PATH", dir+":"+os.Getenv("PATH"))
	pcfile := filepath.Join(dir, "out.txt")
	t.Setenv("VERIF_PC_OUT", pcfile)
	names := []string{"VA", "VB", "V_C", "VD1"}
	vals := []string{"", "x", "/usr/lib", "a b", "-lfoo", "é世", "{}", "c:\\d"}
	for i := 0; i < n; i++ {
		env := map[string]string{}
		for _, nm := range names {
			env[nm] = vals[r.n(len(vals))]
			t.Setenv(nm, env[nm])
		}
		var tb, want strings.Builder
		for q := 1 + r.n(6); q > 0; q-- {
			switch r.n(4) {
			case 0:
				nm := names[r.n(len(names))]
				tb.WriteString("$" + nm)
				want.WriteString(env[nm])
				// a following literal must not extend the name
				tb.WriteString("/")
				want.WriteString("/")
			case 1:
				nm := names[r.n(len(names))]
				tb.WriteString("${" + nm + "}")
				want.WriteString(env[nm])
			default:
				l := []string{"-L", "-l", "x", " ", "/", "é", ".", "-I"}[r.n(8)]
				tb.WriteString(l)
				want.WriteString(l)
			}
		}
		tmpl := tb.String()
		got := ExpandEnv(tmpl)
		enc.Encode(vrec{Kind: "count", Class: "vars"})
		if got != strings.TrimSpace(want.String()) {
			enc.Encode(vrec{Kind: "viol", Key: "xenv-expand-vars", In: tmpl, What: "ExpandEnv(" + tmpl + ") = " + got + " want " + strings.TrimSpace(want.String())})
		}
		// $(pkg-config ...) : the output (without '$') is substituted and split into flags
		flags := []string{}
		for q := 1 + r.n(4); q > 0; q-- {
			flags = append(flags, []string{"-L/opt/x", "-lfoo", "-I/inc", "-DX=1", "-lé"}[r.n(5)])
		}
		// tools such as llvm-config print several lines: line breaks separate flags like blanks
		seps := []string{" ", "\n", " \n", "\n\n"}
		var ob strings.Builder
		for fi, fl := range flags {
			if fi > 0 {
				ob.WriteString(seps[r.n(len(seps))])
			}
			ob.WriteString(fl)
		}
		os.WriteFile(pcfile, []byte(ob.String()+"\n"), 0o644)
		pre := []string{"", "-lpre ", "$VA "}[r.n(3)]
		tm2 := pre + "$(pkg-config --libs foo)"
		gotArgs := ExpandEnvToArgs(tm2)
		wantStr := strings.TrimSpace(os.Expand(pre, os.Getenv) + strings.Join(flags, " "))
		enc.Encode(vrec{Kind: "count", Class: "cmd"})
		if strings.Join(gotArgs, " ") != strings.Join(strings.Fields(wantStr), " ") && !strings.Contains(env["VA"], " ") && !strings.Contains(env["VA"], "{") && !(pre == "$VA " && !strings.HasPrefix(env["VA"], "-")) {
			enc.Encode(vrec{Kind: "viol", Key: "xenv-expand-cmd", In: tm2, What: "ExpandEnvToArgs = " + strings.Join(gotArgs, "|") + " want " + wantStr})
		}
	}
	// command output containing '$' is expanded a second time (recorded finding)
	os.WriteFile(pcfile, []byte("-DPRICE=$VA\n"), 0o644)
	t.Setenv("VA", "oops")
	if got := ExpandEnv("$(pkg-config --cflags foo)"); got != "-DPRICE=$VA" {
		enc.Encode(vrec{Kind: "viol", Key: "xenv-cmd-output-reexpanded", In: "$(pkg-config --cflags foo) printing -DPRICE=$VA", What: "command output is expanded again: got " + got})
	}
}
