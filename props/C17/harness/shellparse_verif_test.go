package shellparse

// Injected by /verif (go test -overlay); not part of the repository.

import (
	"encoding/json"
	"os"
	"strconv"
	"strings"
	"testing"
	"unicode"
)

type vrng struct{ s uint64 }

func (r *vrng) next() uint64 {
	r.s += 0x9e3779b97f4a7c15
	z := r.s
	z = (z ^ (z >> 30)) * 0xbf58476d1ce4e5b9
	z = (z ^ (z >> 27)) * 0x94d049bb133111eb
	return z ^ (z >> 31)
}
func (r *vrng) n(k int) int { return int(r.next() % uint64(k)) }

var valpha = []rune{' ', ' ', '\t', '"', '\'', '\\', '-', '$', '{', '}', 'a', 'b', 'é', '世', 0xA0, 0x2028, '\n', 'x'}

func vrunes(s string) []int {
	out := []int{}
	for _, r := range []rune(s) {
		out = append(out, int(r))
	}
	return out
}

type vrec struct {
	Kind  string  `json:"kind"`
	In    []int   `json:"in"`
	Out   [][]int `json:"out"`
	Err   bool    `json:"err"`
	Key   string  `json:"key,omitempty"`
	What  string  `json:"what,omitempty"`
	Class string  `json:"class,omitempty"`
}

func vquote(r *vrng, a string) (string, string) {
	bareOK := a != ""
	sqOK := true
	for _, c := range a {
		if unicode.IsSpace(c) || c == '"' || c == '\'' {
			bareOK = false
		}
		if c == '\'' {
			sqOK = false
		}
	}
	for {
		switch r.n(3) {
		case 0:
			if bareOK {
				return a, "bare"
			}
		case 1:
			if sqOK {
				return "'" + a + "'", "single"
			}
		default:
			var b strings.Builder
			b.WriteByte('"')
			for _, c := range a {
				if c == '"' || c == '\\' {
					b.WriteByte('\\')
				}
				b.WriteRune(c)
			}
			b.WriteByte('"')
			return b.String(), "double"
		}
	}
}

func TestVerif(t *testing.T) {
	seed, _ := strconv.ParseUint(os.Getenv("VERIF_SEED"), 10, 64)
	n, _ := strconv.Atoi(os.Getenv("VERIF_N"))
	if n == 0 {
		n = 2000
	}
	f, err := os.Create(os.Getenv("VERIF_OUT"))
	if err != nil {
		t.Fatal(err)
	}
	defer f.Close()
	enc := json.NewEncoder(f)
	r := &vrng{s: seed*7919 + 17}
	emit := func(kind, class, in string) ([]string, error) {
		out, err := Parse(in)
		rec := vrec{Kind: kind, Class: class, In: vrunes(in), Err: err != nil}
		for _, o := range out {
			rec.Out = append(rec.Out, vrunes(o))
		}
		enc.Encode(rec)
		return out, err
	}
	// structured stream: quoted argument lists must come back unchanged
	for i := 0; i < n; i++ {
		na := r.n(5)
		args := []string{}
		words := []string{}
		styles := []string{}
		for j := 0; j < na; j++ {
			l := r.n(6)
			if r.n(8) == 0 {
				l = r.n(20)
			}
			var b strings.Builder
			for k := 0; k < l; k++ {
				b.WriteRune(valpha[r.n(len(valpha))])
			}
			a := b.String()
			w, st := vquote(r, a)
			args = append(args, a)
			words = append(words, w)
			styles = append(styles, st)
		}
		line := strings.Join(words, " ")
		out, err := emit("sh", "roundtrip:"+strings.Join(styles, ","), line)
		ok := err == nil && len(out) == len(args)
		if ok {
			for j := range args {
				if out[j] != args[j] {
					ok = false
				}
			}
		}
		if !ok {
			enc.Encode(vrec{Kind: "viol", Key: "shellparse-roundtrip", In: vrunes(line),
				What: "Parse(quote(args)) != args; styles=" + strings.Join(styles, ",")})
		}
	}
	// malformed / raw stream: compared with the model only
	for i := 0; i < n; i++ {
		l := r.n(10)
		var b strings.Builder
		for k := 0; k < l; k++ {
			b.WriteRune(valpha[r.n(len(valpha))])
		}
		emit("sh", "raw", b.String())
	}
	// unicode.IsSpace as used by Parse: every space code point splits
	for c := rune(0); c < 0x3100; c++ {
		if c == '"' || c == '\'' {
			continue
		}
		emit("sh", "space-sweep", "a"+string(c)+"b")
	}
}
