package buildtags

// Injected by /verif (go test -overlay); not part of the repository.

import (
	"encoding/json"
	"go/build"
	"go/build/constraint"
	"io"
	"os"
	"strconv"
	"strings"
	"testing"
)

type vrng struct{ s uint64 }

func (r *vrng) next() uint64 {
	r.s += 0x9e3779b97f4a7c15
	z := r.s
	z = (z ^ (z >> 30)) * 0xbf58476d1ce4e5b9
	z = (z ^ (z >> 27)) * 0x94d049bb133111eb
	return z ^ (z >> 31)
}
func (r *vrng) n(k int) int { return int(r.next() % uint64(k)) }

type vrec struct {
	Kind  string  `json:"kind"`
	Ins   [][]int `json:"ins"`
	Out   [][]int `json:"out"`
	Key   string  `json:"key,omitempty"`
	What  string  `json:"what,omitempty"`
	Class string  `json:"class,omitempty"`
}

func vb(s string) []int {
	out := []int{}
	for i := 0; i < len(s); i++ {
		out = append(out, int(s[i]))
	}
	return out
}

var vtags = []string{"foo", "bar", "baz", "qux", "linux", "amd64", "darwin", "cgo", "gc", "llgo", "go1.20", "unix", "f"}

// does the reference context (no user tags) satisfy a single tag?
func defaultHas(tag string) bool {
	ctx := build.Default
	ctx.BuildTags = nil
	ctx.OpenFile = func(name string) (io.ReadCloser, error) {
		return io.NopCloser(strings.NewReader("//go:build " + tag + "\n\npackage check\n")), nil
	}
	ok, err := ctx.MatchFile(".", "x.go")
	return err == nil && ok
}

func TestVerif(t *testing.T) {
	seed, _ := strconv.ParseUint(os.Getenv("VERIF_SEED"), 10, 64)
	n, _ := strconv.Atoi(os.Getenv("VERIF_N"))
	if n == 0 {
		n = 1500
	}
	f, err := os.Create(os.Getenv("VERIF_OUT"))
	if err != nil {
		t.Fatal(err)
	}
	defer f.Close()
	enc := json.NewEncoder(f)
	r := &vrng{s: seed*31337 + 3}
	def := map[string]bool{}
	for _, tg := range vtags {
		def[tg] = defaultHas(tg)
	}
	for i := 0; i < n; i++ {
		// build flags: -tags a,b | -tags=a b | noise | dangling -tags
		flags := []string{}
		user := map[string]bool{}
		nf := r.n(4)
		for j := 0; j < nf; j++ {
			k := 1 + r.n(3)
			ts := []string{}
			for q := 0; q < k; q++ {
				ts = append(ts, vtags[r.n(len(vtags))])
			}
			seps := []string{",", " ", ",,", ", "}
			val := strings.Join(ts, seps[r.n(len(seps))])
			if r.n(6) == 0 {
				val = seps[r.n(len(seps))] + val + seps[r.n(len(seps))]
			}
			switch r.n(5) {
			case 0, 1:
				flags = append(flags, "-tags", val)
			case 2, 3:
				flags = append(flags, "-tags="+val)
			default:
				flags = append(flags, []string{"-v", "-x", "-tagsx=foo", "--tags=bar", "-ldflags=-tags=baz"}[r.n(5)])
				ts = nil
			}
			for _, tg := range ts {
				user[tg] = true
			}
		}
		if r.n(10) == 0 {
			flags = append(flags, "-tags")
		}
		got := parseBuildTags(flags)
		rec := vrec{Kind: "tags", Class: "parse", Out: [][]int{}, Ins: [][]int{}}
		for _, fl := range flags {
			rec.Ins = append(rec.Ins, vb(fl))
		}
		for _, g := range got {
			rec.Out = append(rec.Out, vb(g))
		}
		enc.Encode(rec)
		// set semantics + no duplicates (property level)
		seen := map[string]bool{}
		bad := false
		for _, g := range got {
			if seen[g] || !user[g] {
				bad = true
			}
			seen[g] = true
		}
		for u := range user {
			if !seen[u] {
				bad = true
			}
		}
		if bad {
			enc.Encode(vrec{Kind: "viol", Key: "buildtags-parse", Ins: rec.Ins, What: "parseBuildTags: wrong tag set or duplicate: " + strings.Join(got, "|")})
		}
		// +build line evaluation against go/build/constraint
		exprs := map[string]bool{}
		lines := []string{}
		for j := 0; j < 4; j++ {
			// "+build" syntax: space = OR, comma = AND, ! = NOT
			no := 1 + r.n(2)
			ors := []string{}
			for a := 0; a < no; a++ {
				na := 1 + r.n(3)
				ands := []string{}
				for b := 0; b < na; b++ {
					tg := vtags[r.n(len(vtags))]
					if r.n(3) == 0 {
						tg = "!" + tg
					}
					ands = append(ands, tg)
				}
				ors = append(ors, strings.Join(ands, ","))
			}
			e := strings.Join(ors, " ")
			exprs[e] = false
			lines = append(lines, e)
		}
		CheckTags(flags, exprs)
		for _, e := range lines {
			x, err := constraint.Parse("// +build " + e)
			if err != nil {
				continue
			}
			want := x.Eval(func(tag string) bool {
				if user[tag] {
					return true
				}
				if v, ok := def[tag]; ok {
					return v
				}
				return defaultHas(tag)
			})
			if exprs[e] != want {
				enc.Encode(vrec{Kind: "viol", Key: "buildtags-eval", Ins: rec.Ins,
					What: "CheckTags(" + strings.Join(flags, " ") + ")[" + e + "] = " + strconv.FormatBool(exprs[e]) + ", go/build/constraint says " + strconv.FormatBool(want)})
			}
		}
		enc.Encode(vrec{Kind: "count", Class: "eval"})
	}
}
