"""C17 - command lines, flags and directives split and re-assembled without loss."""
import json, os, collections
from concurrent.futures import ThreadPoolExecutor
import vlib
from vlib import coq_list, coq_opt

H = os.path.join(os.path.dirname(os.path.abspath(__file__)), "harness")

PKGS = [  # (package dir, harness file, name inside the package)
    ("internal/shellparse", "shellparse_verif_test.go"),
    ("xtool/safesplit", "safesplit_verif_test.go"),
    ("internal/buildtags", "buildtags_verif_test.go"),
    ("internal/env", "ienv_verif_test.go"),
    ("xtool/env", "xenv_verif_test.go"),
    ("internal/clang", "clang_verif_test.go"),
]


def nl(xs):
    return "[" + ";".join(str(x) for x in xs) + "]%N"


def nll(xss):
    return coq_list([nl(x) for x in xss])


def run(ck):
    ck.trusted = ["Coq 8.16.1 kernel (coqc, vm_compute)", "Go overlay harnesses props/C17/harness/*.go",
                  "hand-written model coq/theories/C17/Model.v tied by correspondence",
                  "go/build/constraint and os.Expand (upstream, used as oracle)"]
    ck.assumptions = ["[]rune(s) decoding of the command line is Go's; theorems are over code-point lists",
                      "unicode.IsSpace is the 25-code-point White_Space set (compared for U+0000..U+30FF)"]
    ok, _ = ck.coq_build("C17")
    ck.coq_props("LLGoV.C17.Props", "theories/C17/Props.v")

    n = {"quick": 1500, "thorough": 40000}[ck.tier]
    recs = collections.defaultdict(list)

    def one(p):
        pkg, hf = p
        out = os.path.join(ck.work, hf + ".jsonl")
        rc, log = ck.go_test_overlay(pkg, {"zz_verif_test.go": os.path.join(H, hf)},
                                     env={"VERIF_OUT": out, "VERIF_N": str(n if "xenv" not in hf else max(200, n // 20))})
        return pkg, rc, log, out

    with ThreadPoolExecutor(5) as ex:
        results = list(ex.map(one, PKGS))
    for pkg, rc, log, out in results:
        if rc != 0 or not os.path.exists(out):
            ck.correspondence_broken("harness:" + pkg, log[-1500:])
            continue
        for line in open(out):
            r = json.loads(line)
            recs[r["kind"]].append(r)

    # -X parsing lives in internal/build (LLVM-linked package): separate overlay run
    import e2e
    xout = os.path.join(ck.work, "xflag.jsonl")
    ovx = {os.path.join(vlib.REPO, "ssa", "z_verif_opaque.go"): os.path.join(vlib.ROOT, "toolchain", "src", "z_verif_opaque.go")}
    rc, log = ck.go_test_overlay("internal/build", {"zz_verif_test.go": os.path.join(H, "xflag_verif_test.go")}, run="TestVerifXflag",
                                 env=dict(e2e.tc_env(os.path.join(ck.work, "xdg")), VERIF_OUT=xout), tags="llvm14,verif", extra_overlay=ovx)
    if rc != 0 or not os.path.exists(xout):
        ck.correspondence_broken("harness:internal/build(xflag)", log[-1500:])
    else:
        for line in open(xout):
            r = json.loads(line)
            recs[r["kind"]].append(r)

    # property-level oracle results from the implementation
    for v in recs["viol"]:
        ck.violation(v["key"], v.get("what", ""), v)
    classes = collections.Counter()
    for k in ("sh", "pc", "tags", "brace", "count", "mergec", "mergel", "xflag"):
        for r in recs[k]:
            classes[k + ":" + r.get("class", "").split(":")[0]] += 1

    # model vs implementation, evaluated inside Coq
    hdr = "From LLGoV Require Import C17.Model.\nLocal Open Scope N_scope.\n"
    total = 0
    distinct = set()

    def compare(kind, terms, model, eqb, raw):
        nonlocal total
        total += len(terms)
        bad = ck.coq_mismatches(hdr, terms, model, eqb, "c17_" + kind)
        if bad:
            first = raw[bad[0]]
            ck.correspondence_broken("C17.Model/" + kind, {"n_mismatch": len(bad), "first": first})
            ck.mismatch_cases = getattr(ck, "mismatch_cases", []) + [(kind, raw[i]) for i in bad[:5]]

    sh = recs["sh"]
    compare("sh_parse", ["(%s, %s)" % (nl(r["in"]), "None" if r["err"] else coq_opt(nll(r["out"] or []))) for r in sh],
            "sh_parse", "option_eqb strs_eqb", sh)
    pc = recs["pc"]
    compare("pc_split", ["(%s, %s)" % (nl(r["in"]), nll(r["out"])) for r in pc], "pc_split", "strs_eqb", pc)
    tg = recs["tags"]
    compare("parse_tags", ["(%s, %s)" % (nll(r["ins"]), nll(r["out"])) for r in tg], "parse_tags", "strs_eqb", tg)
    br = recs["brace"]
    compare("expand_default",
            ["((%s, %s, %s), %s)" % (nl(r["tmpl"]), nl(r["dflt"]),
                                      coq_list(["(%s,%s)" % (nl(k), nl(v)) for k, v in (r.get("envs") or [])]),
                                      nl(r["out"])) for r in br],
            "(fun x => expand_default (fst (fst x)) (snd (fst x)) (snd x))", "str_eqb", br)
    mc = recs["mergec"]
    compare("merge_compiler", ["((%s, %s, %s, %s), %s)" % (nl(r["env1"]), nl(r["env2"]), nll(r["cfg1"]), nll(r["cfg2"]), nll(r["out"])) for r in mc],
            "(fun x => merge_compiler (fst (fst (fst x))) (snd (fst (fst x))) (snd (fst x)) (snd x))", "strs_eqb", mc)
    ml = recs["mergel"]
    compare("merge_linker", ["((%s, %s, %s), %s)" % (nl(r["env1"]), nl(r["env2"]), nll(r["cfg1"]), nll(r["out"])) for r in ml],
            "(fun x => merge_linker (fst (fst x)) (snd (fst x)) (snd x))", "strs_eqb", ml)
    xf = recs["xflag"]
    compare("xflag_split", ["(%s, %s)" % (nl(r["arg"]), "None" if r["panic"] else "(Some (%s, %s, %s))" % (nl(r["pkg"]), nl(r["name"]), nl(r["value"]))) for r in xf],
            "xflag_split", "option_eqb (prod_eqb (prod_eqb str_eqb str_eqb) str_eqb)", xf)
    for r in mc:
        distinct.add(("mergec", json.dumps([r["env1"], r["env2"], r["cfg1"], r["cfg2"]])))
    for r in xf:
        distinct.add(("xflag", tuple(r["arg"])))
    for k in ("sh", "pc"):
        for r in recs[k]:
            if len(r["in"]) > 1:
                distinct.add((k, tuple(r["in"])))
    for r in tg:
        distinct.add(("tags", json.dumps(r["ins"])))
    for r in br:
        distinct.add(("brace", json.dumps([r["tmpl"], r["envs"]])))
    total += len(recs["count"])
    samples = []
    for k in ("sh", "pc", "tags", "brace"):
        if recs[k]:
            r = recs[k][len(recs[k]) // 3]
            samples.append({k: {kk: r[kk] for kk in r if kk in ("in", "ins", "out", "err", "tmpl", "envs", "class")}})
    ck.cov["samples"] = samples
    ck.add_cov(evaluations=total, nontrivial=len(distinct), classes=dict(classes))
    ck.cov["rule"] = ("structured stream (argument lists over the alphabet {space,tab,\",',\\,-,$,{,},a,b,e-acute,CJK,NBSP,U+2028,LF} quoted in "
                      "a random admissible style / rendered flags) + raw random strings + IsSpace sweep U+0000..U+30FF; every case is run on the "
                      "real package function (go test -overlay) and on the Coq model (vm_compute); distinct = distinct inputs of length>1")
    return ck.finish()
