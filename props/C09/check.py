"""C09 - values cross the Go/C boundary intact in both directions (amd64 / System V)."""
import json, os, re, random, collections, sys
import vlib, e2e

HERE = os.path.dirname(os.path.abspath(__file__))
sys.path.insert(0, HERE)
import progs  # noqa: E402

H = os.path.join(HERE, "harness")
HDR = "From LLGoV Require Import Lib.Common C09.Model.\nLocal Open Scope N_scope.\n"

K_TAIL = "amd64-nested-tail-padding-loses-fields"
K_SPLIT = "amd64-two-part-struct-not-passed-as-a-whole"


def coq_shape(t):
    if t[0] == "i":
        return "(CS (SI %d))" % t[1]
    if t[0] == "f":
        return "(CS SF32)" if t[1] == 4 else "(CS SF64)"
    if t[0] == "p":
        return "(CS SP)"
    if t[0] == "a":
        return "(CArr %d %s)" % (t[1], coq_shape(t[2]))
    return "(CStruct [%s])" % "; ".join(coq_shape(f) for f in t[1])


def json_shape(t):
    if t[0] in ("i", "f"):
        return {"k": t[0], "w": t[1]}
    if t[0] == "p":
        return {"k": "p"}
    if t[0] == "a":
        return {"k": "a", "n": t[1], "e": json_shape(t[2])}
    return {"k": "s", "f": [json_shape(f) for f in t[1]]}


def pre_counts(vi):
    pre, _ = progs.VARIANTS[vi]
    return sum(1 for c in pre if c in "iw"), sum(1 for c in pre if c == "d")


def model_eval(ck, shapes):
    """per shape, from the Coq model: GetTypeInfo code, psABI classes, coverage flags, split prediction per variant"""
    out = []
    for si in range(0, len(shapes), 60):
        part = shapes[si:si + 60]
        body = HDR + "Definition b2n (b : bool) : N := if b then 1 else 0.\n"
        body += "Definition row (t : cty) : list N := tinfo_code (gti t) ++ [7777] ++ map cls_code (sysv t) ++ [7777] ++ " \
                "[b2n (leaves_covered t); b2n (covers t); b2n (flat_equiv t); csize t] ++ [7777] ++ [%s].\n" % \
                "; ".join("b2n (split_mismatch t %d %d)" % pre_counts(vi) for vi in range(len(progs.VARIANTS)))
        body += "Definition rows := Eval vm_compute in map row [\n%s\n].\nPrint rows.\n" % ";\n".join(coq_shape(t) for t in part)
        rc, o = ck.coq_run(body, "c09_rows_%d" % si)
        m = re.search(r"rows\s*=\s*(\[.*\])\s*:\s*list", o, re.S)
        if rc != 0 or not m:
            ck.broken.append("model-eval:c09_rows")
            ck.log(o[-800:])
            return None
        rows = re.findall(r"\[([0-9;\s]*)\]", m.group(1))
        if len(rows) != len(part):
            ck.broken.append("model-eval-parse:c09_rows")
            return None
        for r in rows:
            xs = [int(x) for x in re.findall(r"\d+", r)]
            segs, cur = [], []
            for x in xs:
                if x == 7777:
                    segs.append(cur)
                    cur = []
                else:
                    cur.append(x)
            segs.append(cur)
            out.append({"code": segs[0], "sysv": segs[1], "leaves_covered": segs[2][0] == 1, "covers": segs[2][1] == 1,
                        "flat_equiv": segs[2][2] == 1, "size": segs[2][3], "split": [x == 1 for x in segs[3]]})
    return out


def run_cabi(ck, shapes):
    inp = os.path.join(ck.work, "c09_shapes.jsonl")
    with open(inp, "w") as f:
        for t in shapes:
            f.write(json.dumps(json_shape(t)) + "\n")
    out = os.path.join(ck.work, "c09_gti.jsonl")
    ovp = os.path.join(ck.work, "overlay_c09_cabi.json")
    json.dump({"Replace": {
        os.path.join(vlib.REPO, "internal", "cabi", "zz_c09_verif_test.go"): os.path.join(H, "cabi_verif_test.go"),
        os.path.join(vlib.REPO, "ssa", "z_verif_opaque.go"): os.path.join(vlib.ROOT, "toolchain", "src", "z_verif_opaque.go"),
    }}, open(ovp, "w"))
    cache = os.path.join(ck.work, "xdgcache_c09")
    os.makedirs(cache, exist_ok=True)
    env = e2e.tc_env(cache, {"VERIF_OUT": out, "VERIF_IN": inp, "VERIF_SEED": str(ck.seed)})
    rc, log = vlib.sh(["go", "test", "-tags", "llvm14,verif", "-vet=off", "-count=1", "-overlay", ovp,
                       "-run", "TestVerifC09", "-timeout", "600s", "./internal/cabi"], cwd=vlib.REPO, env=env, timeout=1200)
    if rc != 0 or not os.path.exists(out):
        ck.correspondence_broken("harness:internal/cabi", log[-2000:])
        return None
    return [json.loads(l) for l in open(out)]


CODE_CLS = lambda c: 2 if c in (1001, 1002, 1004) else 1   # SSE / INTEGER


def cabi_oracle(ck, shapes, model, recs):
    """property-level check of the real GetTypeInfo: classes = psABI (written from the spec in Coq),
    every leaf byte travels through the coerced parts, no part leaves the struct"""
    n_ok = 0
    for r in recs:
        t, m = shapes[r["idx"]], model[r["idx"]]
        desc = "%s size %d" % (json.dumps(json_shape(t)), r["size"])
        if r["kind"] == "panic":
            ck.violation("gettypeinfo-panics", desc + ": " + r["err"], r)
            continue
        if r.get("err"):
            ck.violation(K_TAIL if not m["flat_equiv"] else "gettypeinfo-invalid-type", desc + ": " + r["err"], r)
            continue
        kind, codes = r["akind"], r["codes"][1:]
        if kind == 2:
            real_cls = [3]
        elif kind in (3, 4):
            real_cls = [CODE_CLS(c) for c in codes]
        else:
            real_cls = None   # passed unchanged: LLVM's own lowering of a one-element aggregate
        bad = []
        if real_cls is not None and real_cls != m["sysv"]:
            bad.append("classes %s, psABI %s" % (real_cls, m["sysv"]))
        lost = [l for l in r["leaves"] if not any(p[0] <= l[0] and l[0] + l[1] <= p[0] + p[1] for p in r["parts"])]
        if lost:
            bad.append("leaf bytes %s not inside the coerced parts %s" % (lost, r["parts"]))
        over = [p for p in r["parts"] if p[0] + p[1] > r["size"]]
        if over:
            bad.append("coerced part %s reaches past the %d-byte value" % (over, r["size"]))
        if bad:
            ck.violation(K_TAIL if not m["flat_equiv"] else "gettypeinfo-wrong", desc + ": " + "; ".join(bad), r)
        else:
            n_ok += 1
    return n_ok


def run_e2e(ck, shapes, model, variants_for, tag, indirect=None):
    L = getattr(ck, "_llgo", None)
    if L is None:
        L = ck._llgo = e2e.LLGo(ck)
    if not L.ok:
        ck.correspondence_broken("e2e:llgo-build", L.buildlog[-1500:])
        return 0, 0
    go, c, exp = progs.generate(shapes, variants_for, indirect=indirect)
    d = os.path.join(ck.work, "prog_" + tag)
    e2e.write_module(d, {"main.go": go, "wrap/wrap.c": c})
    binp = os.path.join(ck.work, "prog_%s.bin" % tag)
    rc, out = L.build(d, binp)
    if rc != 0:
        ck.correspondence_broken("e2e:build-" + tag, out[-2000:])
        return 0, 0
    rc, so, se = L.run_bin(binp, timeout=300)
    got = {}
    for line in se.splitlines():
        m = re.match(r"(T \d+ (?:(?:sum|echo) \d+|make|cbarg|cbret)|I \d+ (?:fp|cfp|fv)) (.*)$", line)
        if m:
            try:
                got[m.group(1)] = [int(x) for x in m.group(2).split()]
            except ValueError:
                got[m.group(1)] = None
    if rc != 0 or "DONE" not in se:
        ck.violation("e2e-program-crashed", "exit %s, %d of %d result lines, stderr tail: %s" % (rc, len(got), len(exp), se[-300:]),
                     {"tag": tag, "rc": rc})
    nfail = 0
    for key, want in exp.items():
        if got.get(key) == want:
            continue
        if key not in got and (rc != 0 or "DONE" not in se):
            continue   # lines after a crash: already reported
        nfail += 1
        parts = key.split()
        if parts[0] == "I":
            rk, rs, spec = indirect[int(parts[1])]
            way = {"fp": "C function pointer (plain func type)", "cfp": "C function pointer (llgo:type C)",
                   "fv": "Go func value holding a C function"}[parts[2]]
            sig = "(%s) -> %s" % (", ".join(x[0] if len(x) == 1 and x[0] in "idw" else json.dumps(json_shape(x)) for x in spec),
                                  rk if rs is None or isinstance(rs, str) else json.dumps(json_shape(rs)))
            ck.violation("indirect-call-value-corrupted-result-" + rk,
                         "call through %s, signature %s: expected %s, got %s" % (way, sig, want, got.get(key)),
                         {"test": key, "way": way, "signature": sig, "expected": want, "got": got.get(key)})
            continue
        k, test = int(parts[1]), parts[2]
        vi = int(parts[3]) if len(parts) > 3 else None
        m = model[k]
        replay = {"shape": json_shape(shapes[k]), "test": key, "variant": progs.VARIANTS[vi] if vi is not None else None,
                  "expected": want, "got": got.get(key), "model": m}
        what = "%s %s%s: expected %s, got %s" % (json.dumps(json_shape(shapes[k])), test,
                                                 " with pre/post args %s" % (progs.VARIANTS[vi],) if vi is not None else "", want, got.get(key))
        if not m["leaves_covered"] or not m["flat_equiv"]:
            ck.violation(K_TAIL, what, replay)
        elif vi is not None and m["split"][vi]:
            ck.violation(K_SPLIT, what, replay)
        else:
            ck.violation("value-corrupted-" + test, what, replay)
    return len(exp), nfail


def run_cstr(ck, rng):
    """C strings: c.AllocaCStr (runtime CStrCopy) -> C strlen -> c.GoString (StringFromCStr), byte for byte"""
    L = ck._llgo
    cases = [b"", b"a", b"hello", b"ab\x00cd", b"\x00x", b"h\xc3\xa9\xe4\xb8\x96\xff", b"\x01\x7f\x80\xfe\xff",
             b"x" * 255, b"y" * 256, b"z" * 4097, b"", b"tail\x00", b"\x00", b""]
    for _ in range({"quick": 30, "thorough": 300}[ck.tier]):
        n = rng.choice([1, 2, 3, 7, 8, 9, 15, 16, 17, 31, 33, 64, 100])
        bs = bytes(rng.choice([0, 1, 65, 97, 127, 128, 255, 32, 10]) if rng.random() < 0.15 else rng.randrange(1, 256) for _ in range(n))
        cases.append(bs)
    lit = lambda b: '"' + "".join("\\x%02x" % x for x in b) + '"'
    src = ("package main\n\nimport (\n\t_ \"unsafe\"\n\n\t\"github.com/goplus/lib/c\"\n)\n\n//go:linkname cstrlen C.strlen\nfunc cstrlen(s *c.Char) uintptr\n\n"
           "var sink byte\n\n// leaves non-zero bytes where the next call's frame (and its alloca'd C string) will be\n"
           "func dirty() {\n\tvar b [8192]byte\n\tfor i := range b {\n\t\tb[i] = 0xAA\n\t}\n\tsink = b[k8(100)]\n}\n\n"
           "func k8(i int) int { return i }\n\n"
           "func show(k int, s string) {\n\tp := c.AllocaCStr(s)\n\tn := cstrlen(p)\n\tg := c.GoString(p)\n"
           "\tprint(\"S \", k, \" \", int(n))\n\tfor i := 0; i < len(g); i++ {\n\t\tprint(\" \", g[i])\n\t}\n\tprintln()\n}\n\n"
           "func main() {\n" + "".join("\tdirty()\n\tshow(%d, %s)\n" % (i, lit(b)) for i, b in enumerate(cases)) + "\tprintln(\"DONE\")\n}\n")
    d = os.path.join(ck.work, "prog_cstr")
    os.makedirs(d, exist_ok=True)
    open(os.path.join(d, "main.go"), "w").write(src)
    open(os.path.join(d, "go.mod"), "w").write("module verifprog\n\ngo 1.24\n\nrequire github.com/goplus/lib v0.3.1\n")
    open(os.path.join(d, "go.sum"), "w").write("".join(l for l in open(os.path.join(vlib.REPO, "go.sum")) if "goplus/lib " in l))
    binp = os.path.join(ck.work, "prog_cstr.bin")
    rc, out = L.build(d, binp)
    if rc != 0:
        ck.correspondence_broken("e2e:build-cstr", out[-1500:])
        return 0
    rc, so, se = L.run_bin(binp, timeout=120)
    got = {}
    for line in se.splitlines():
        m = re.match(r"S (\d+) (\d+)((?: \d+)*)$", line)
        if m:
            got[int(m.group(1))] = (int(m.group(2)), [int(x) for x in m.group(3).split()])
    if rc != 0 or "DONE" not in se or len(got) != len(cases):
        ck.correspondence_broken("e2e:run-cstr", "rc %s, %d/%d lines: %s" % (rc, len(got), len(cases), se[-300:]))
        return 0
    terms = []
    for i, b in enumerate(cases):
        n, g = got[i]
        want = list(b.split(b"\x00")[0])
        # property: bytes up to the first NUL, strlen agrees
        if g != want or n != len(want):
            ck.violation("cstr-roundtrip", "string %r: strlen %d, GoString bytes %s (want %s)" % (b, n, g, want), {"bytes": list(b), "got": g, "strlen": n})
        terms.append("(%s, %s)" % (vlib.coq_bytes(b), vlib.coq_bytes(bytes(g))))
    bad = ck.coq_mismatches(HDR, terms, "(fun s => from_cstr (to_cstr s))", "nlist_eqb", "c09_cstr")
    if bad:
        ck.correspondence_broken("C09.Model/cstr", {"n_mismatch": len(bad), "first": list(cases[bad[0]])})
    return len(cases)


def run(ck):
    ck.trusted = ["Coq 8.16.1 kernel (coqc, vm_compute)",
                  "clang 14 (through the toolchain shim) as the host C compiler that defines the platform ABI",
                  "Go overlay harness props/C09/harness/cabi_verif_test.go; program generator props/C09/progs.py",
                  "hand-written model coq/theories/C09/Model.v tied by correspondence on every run",
                  "System V psABI 3.2.3 transcribed by hand into Model.v (sysv)"]
    ck.assumptions = ["amd64 only can execute here; -O0 only (LLVM 14 crashes at -O2 on larger programs)",
                      "natural alignment (no packed or over-aligned C types), no long double, no unions, no bit-fields"]
    ck.coq_build("C09")
    ck.coq_props("LLGoV.C09.Props", "theories/C09/Props.v")
    ck.phase("coq")

    rng = random.Random(ck.seed * 104729 + 9)
    nrand = {"quick": 40, "thorough": 400}[ck.tier]
    nnest = {"quick": 20, "thorough": 200}[ck.tier]
    shapes = progs.boundary_shapes() + [progs.random_shape(rng) for _ in range(nrand)] + \
        [progs.random_small_nested(rng) for _ in range(nnest)]
    extra = progs.gti_only_shapes()
    model = model_eval(ck, shapes + extra)
    if model is None:
        return ck.finish()
    ck.phase("model")

    # in-process: the real GetTypeInfo against the model and against the psABI
    recs = run_cabi(ck, shapes + extra)
    n_gti = 0
    if recs is not None:
        terms, raw = [], []
        for r in recs:
            if r["kind"] == "gti" and not r.get("err"):
                terms.append("(%s, %s)" % (coq_shape((shapes + extra)[r["idx"]]), "[" + ";".join(str(x) for x in r["codes"]) + "]%N"))
                raw.append(r)
        bad = ck.coq_mismatches(HDR, terms, "(fun t => tinfo_code (gti t))", "nlist_eqb", "c09_gti")
        if bad:
            ck.correspondence_broken("C09.Model/gti", {"n_mismatch": len(bad), "first": raw[bad[0]],
                                                        "shape": json_shape((shapes + extra)[raw[bad[0]]["idx"]])})
        n_gti = len(terms)
        cabi_oracle(ck, shapes + extra, model, recs)
    ck.phase("cabi")

    # end to end: llgo-compiled Go against clang-compiled C
    nv = len(progs.VARIANTS)

    def variants_for(k, t):
        if k < len(progs.boundary_shapes()) and k % 2 == 0 or ck.tier == "thorough":
            return list(range(nv))
        return [0, 1 + k % (nv - 1), 1 + (k * 7 + 3) % (nv - 1)]

    indirect = progs.indirect_configs(rng, {"quick": 3, "thorough": 10}[ck.tier])
    ntests, nfail = run_e2e(ck, shapes, model, variants_for, "a", indirect=indirect)
    ck.phase("e2e")
    ncstr = run_cstr(ck, rng) if getattr(ck, "_llgo", None) is not None and ck._llgo.ok else 0
    ck.phase("cstr")
    classes = collections.Counter()
    for t, m in zip(shapes, model):
        kind = {0: "keep", 2: "memory", 3: "one-eightbyte", 4: "two-eightbytes"}.get(m["code"][0], "?")
        classes[kind + ("" if m["flat_equiv"] else ":nested-tail-padding")] += 1
    ck.add_cov(evaluations=ntests + n_gti + ncstr, cstr_cases=ncstr, nontrivial=len(shapes), classes=dict(classes),
               e2e={"tests": ntests, "failed_known_or_not": nfail, "indirect_signatures": len(indirect), "indirect_calls": 3 * len(indirect), "variants": [list(v) for v in progs.VARIANTS]},
               samples=[{"shape": json_shape(shapes[i]), "model": model[i]} for i in (20, 30, 58)])
    ck.cov["rule"] = ("boundary shapes (every psABI class combination of one and two eightbytes, 9/12/16/17-byte arrays, >16 bytes, nested "
                      "structs with and without tail padding) + random C-compatible trees (1-12 fields, depth<=2, arrays 1-4, 1-80 bytes); "
                      "each shape: real GetTypeInfo in-process vs the Coq model and vs the psABI classification, and an llgo-compiled "
                      "program passing it by value to clang-compiled C (argument behind 0-11 scalar arguments in 9 register-pressure "
                      "variants, result, C-made result, C->Go callback argument and result), every leaf echoed and compared; plus indirect calls "
                      "(C function pointer as plain func type, as llgo:type C type, Go func value holding a C function) for every result class "
                      "(void, int64, double, one-eightbyte, two-eightbyte, sret) x by-value arguments of every class in 7 position layouts")
    return ck.finish()
