"""C09 - generator of the end-to-end Go<->C by-value struct programs.

A shape is a tree:  ("i", w) integer of w bytes | ("f", w) float/double | ("p",) pointer
                  | ("a", n, elem) array | ("s", [fields]) struct.
For every shape k the C file defines  Sk echo_k_<v>(pre.., Sk, post..), long long sum_k_<v>(pre.., Sk, post..),
Sk make_k(int), long long callcb_k(cb, int)  and the Go file calls them and prints what it sees with println
(stderr).  All values are small integers (floats are integer-valued), so the expected output is computed here.
"""

CT = {("i", 1): "signed char", ("i", 2): "short", ("i", 4): "int", ("i", 8): "long long",
      ("f", 4): "float", ("f", 8): "double", ("p",): "void*"}
GT = {("i", 1): "int8", ("i", 2): "int16", ("i", 4): "int32", ("i", 8): "int64",
      ("f", 4): "float32", ("f", 8): "float64", ("p",): "unsafe.Pointer"}

# argument-position variants: (pre scalars, post scalars); 'i' = long long / int64, 'd' = double, 'w' = int / int32
VARIANTS = [("", ""), ("iiiii", "i"), ("iiiiii", "d"), ("ddddddd", "d"), ("ididid", "i"),
            ("iiiiiiii", ""), ("iiii", "w"), ("dddddddd", "i"), ("iiiiidddddd", "id")]
SC_C = {"i": "long long", "d": "double", "w": "int"}
SC_GO = {"i": "int64", "d": "float64", "w": "int32"}


def is_scalar(t):
    return t[0] in ("i", "f", "p")


class Gen:
    def __init__(self):
        self.cdefs, self.godefs, self.names = [], [], {}

    def tyname(self, t):
        """C and Go type expressions for t; struct types are named (defined once)"""
        if is_scalar(t):
            return CT[t], GT[t]
        if t[0] == "s":
            key = repr(t)
            if key not in self.names:
                nm = "N%d" % len(self.names)
                self.names[key] = nm
                cf, gf = [], []
                for i, f in enumerate(t[1]):
                    cf.append("  " + self.cdecl(f, "f%d" % i) + ";")
                    gf.append("\tf%d %s" % (i, self.gotype(f)))
                self.cdefs.append("typedef struct {\n%s\n} %s;" % ("\n".join(cf), nm))
                self.godefs.append("type %s struct {\n%s\n}" % (nm, "\n".join(gf)))
            return self.names[key], self.names[key]
        raise ValueError(t)

    def cdecl(self, t, name):
        dims = ""
        while t[0] == "a":
            dims += "[%d]" % t[1]
            t = t[2]
        return "%s %s%s" % (self.tyname(t)[0], name, dims)

    def gotype(self, t):
        if t[0] == "a":
            return "[%d]%s" % (t[1], self.gotype(t[2]))
        return self.tyname(t)[1]


def leaves(t, path=""):
    """[(access path, scalar type)] in memory order; the path works in C and in Go"""
    if is_scalar(t):
        return [(path, t)]
    if t[0] == "a":
        out = []
        for i in range(t[1]):
            out += leaves(t[2], "%s[%d]" % (path, i))
        return out
    out = []
    for i, f in enumerate(t[1]):
        out += leaves(f, "%s.f%d" % (path, i))
    return out


def leaf_vals(k, n):
    return [(k * 3 + i * 5) % 90 + 1 for i in range(n)]


def c_set(path, t, expr):
    if t[0] == "p":
        return "s%s = (void*)(long)(%s);" % (path, expr)
    return "s%s = (%s)(%s);" % (path, CT[t], expr)


def c_get(var, path, t):
    return "(long long)(long)%s%s" % (var, path) if t[0] == "p" else "(long long)%s%s" % (var, path)


def go_get(var, path, t):
    return "int64(uintptr(%s%s))" % (var, path) if t[0] == "p" else "int64(%s%s)" % (var, path)


def go_set(var, path, t, expr):
    if t[0] == "p":
        return "%s%s = unsafe.Pointer(uintptr(%s))" % (var, path, expr)
    return "%s%s = %s(%s)" % (var, path, GT[t], expr)


def scal_val(j, c):
    return 100 + j if c != "d" else 0.5 + j


def generate(shapes, variants_for, indirect=None):
    """returns (go source, c source, expected lines {tag: [ints]})"""
    g = Gen()
    cfun, gofun, gomain, expected = [], [], [], {}
    for k, t in enumerate(shapes):
        cn, gn = g.tyname(t)
        lv = leaves(t)
        vals = leaf_vals(k, len(lv))
        weights = list(range(1, len(lv) + 1))
        csum = lambda var: " + ".join("%s * %dLL" % (c_get(var, p, ty), w) for (p, ty), w in zip(lv, weights))
        # make / callcb
        cfun.append("%s make_%d(int seed) { %s s; memset(&s, 0, sizeof s); %s return s; }" % (
            cn, k, cn, " ".join(c_set(p, ty, "seed + %d" % i) for i, (p, ty) in enumerate(lv))))
        cfun.append("typedef %s (*cb_%d_t)(int a, %s s, double d);" % (cn, k, cn))
        cfun.append("long long callcb_%d(cb_%d_t fn, int seed) { %s s = make_%d(seed); %s r = fn(7, s, 2.5); return %s; }" % (
            k, k, cn, k, cn, csum("r")))
        gofun.append("//go:linkname make_%d C.make_%d\nfunc make_%d(seed int32) %s" % (k, k, k, gn))
        gofun.append("//llgo:type C\ntype cbT_%d func(a int32, s %s, d float64) %s" % (k, gn, gn))
        gofun.append("//go:linkname callcb_%d C.callcb_%d\nfunc callcb_%d(fn cbT_%d, seed int32) int64" % (k, k, k, k))
        gofun.append("func gocb_%d(a int32, s %s, d float64) %s {\n\tprintln(\"T %d cbarg\", b2i(a == 7 && d == 2.5), %s)\n%s\n\treturn s\n}" % (
            k, gn, gn, k, ", ".join(go_get("s", p, ty) for p, ty in lv),
            "\n".join("\t" + go_set("s", p, ty, "%s + 2" % go_get("s", p, ty)) for p, ty in lv)))
        body = ["\tvar s %s" % gn] + ["\t" + go_set("s", p, ty, str(v)) for (p, ty), v in zip(lv, vals)]
        for vi in variants_for(k, t):
            pre, post = VARIANTS[vi]
            cargs = ["%s a%d" % (SC_C[c], j) for j, c in enumerate(pre)] + ["%s s" % cn] + \
                    ["%s b%d" % (SC_C[c], j) for j, c in enumerate(post)]
            chk = " && ".join(["a%d == %s" % (j, scal_val(j, c)) for j, c in enumerate(pre)] +
                              ["b%d == %s" % (j, scal_val(50 + j, c)) for j, c in enumerate(post)]) or "1"
            cfun.append("long long sum_%d_%d(%s) { return (%s) + ((%s) ? 0 : 1000000); }" % (k, vi, ", ".join(cargs), csum("s"), chk))
            cfun.append("%s echo_%d_%d(%s) { if (%s) { %s } else { %s } return s; }" % (
                cn, k, vi, ", ".join(cargs), chk,
                " ".join(c_set(p, ty, "%s + 1" % c_get("s", p, ty)) for p, ty in lv),
                " ".join(c_set(p, ty, "-1") for p, ty in lv)))
            gargs = ["a%d %s" % (j, SC_GO[c]) for j, c in enumerate(pre)] + ["s %s" % gn] + \
                    ["b%d %s" % (j, SC_GO[c]) for j, c in enumerate(post)]
            for fn, ret in (("sum", "int64"), ("echo", gn)):
                gofun.append("//go:linkname %s_%d_%d C.%s_%d_%d\nfunc %s_%d_%d(%s) %s" % (fn, k, vi, fn, k, vi, fn, k, vi, ", ".join(gargs), ret))
            call = ", ".join([str(scal_val(j, c)) for j, c in enumerate(pre)] + ["s"] + [str(scal_val(50 + j, c)) for j, c in enumerate(post)])
            body.append("\tprintln(\"T %d sum %d\", sum_%d_%d(%s))" % (k, vi, k, vi, call))
            expected["T %d sum %d" % (k, vi)] = [sum(v * w for v, w in zip(vals, weights))]
            body.append("\t{\n\t\tr := echo_%d_%d(%s)\n\t\tprintln(\"T %d echo %d\", %s)\n\t}" % (
                k, vi, call, k, vi, ", ".join(go_get("r", p, ty) for p, ty in lv)))
            expected["T %d echo %d" % (k, vi)] = [v + 1 for v in vals]
        body.append("\t{\n\t\tm := make_%d(10)\n\t\tprintln(\"T %d make\", %s)\n\t}" % (k, k, ", ".join(go_get("m", p, ty) for p, ty in lv)))
        expected["T %d make" % k] = [10 + i for i in range(len(lv))]
        body.append("\tprintln(\"T %d cbret\", callcb_%d(gocb_%d, 20))" % (k, k, k))
        expected["T %d cbarg" % k] = [1] + [20 + i for i in range(len(lv))]
        expected["T %d cbret" % k] = [sum((20 + i + 2) * w for i, w in enumerate(weights))]
        gofun.append("func test_%d() {\n%s\n}" % (k, "\n".join(body)))
        gomain.append("\ttest_%d()" % k)
    iinfo = []
    if indirect:
        ic, ig, ib, ie = generate_indirect(g, indirect)
        cfun += ic
        gofun += ig
        gomain += ib
        expected.update(ie)
        iinfo = indirect
    csrc = "#include <string.h>\n\n" + "\n\n".join(g.cdefs) + "\n\n" + "\n".join(cfun) + "\n"
    gosrc = ("package main\n\nimport \"unsafe\"\n\nconst LLGoFiles = \"wrap/wrap.c\"\n\nvar _ unsafe.Pointer\n\n"
             "func b2i(b bool) int64 {\n\tif b {\n\t\treturn 1\n\t}\n\treturn 0\n}\n\n" +
             "\n\n".join(g.godefs) + "\n\n" + "\n\n".join(gofun) +
             "\n\nfunc main() {\n" + "\n".join(gomain) + "\n\tprintln(\"DONE\")\n}\n")
    return gosrc, csrc, expected


# ---- indirect calls: C function pointers and Go func values holding C functions ----
def _S(*fs):
    return ("s", list(fs))


def indirect_shapes():
    I1, I2, I4, I8, F4, F8, P = SCALARS
    args = {
        "keep": [_S(F8), _S(I4)],
        "w1": [_S(I4, I4), _S(F4, F4), _S(I2, I2, I4)],
        "w2": [_S(I8, I8), _S(F8, F4), _S(I4, I4, I4), _S(F4, F4, F4)],
        "mem": [_S(I8, I8, I8), ("s", [("a", 8, I4)]), _S(F8, F8, F8), _S(I4, ("a", 2, F8), I1)],
    }
    results = [("void", None), ("scalar", "i"), ("scalar", "d"),
               ("w1", _S(I2, I2, I4)), ("w1", _S(F4, F4)), ("w1", _S(I1, I1, I1)),
               ("w2", _S(I4, I4, I4)), ("w2", _S(F8, F4)), ("w2", _S(I8, I8)), ("w2", _S(F4, F4, F4)), ("w2", _S(I1, I8)),
               ("mem", _S(I8, I8, I8)), ("mem", ("s", [("a", 5, I4)]))]
    return args, results


def reg_need(t):
    """(integer registers, sse registers) a flat by-value argument takes; (0, 0) when it goes to memory"""
    size, _ = size_align(t)
    if size > 16:
        return 0, 0
    eb = {}
    off = [0]

    def walk(t, base):
        if is_scalar(t):
            eb.setdefault(base // 8, set()).add("s" if t[0] == "f" else "i")
            return
        if t[0] == "a":
            s, _ = size_align(t[2])
            for i in range(t[1]):
                walk(t[2], base + i * s)
            return
        o = 0
        for f in t[1]:
            s, a = size_align(f)
            o = (o + a - 1) // a * a
            walk(f, base + o)
            o += s
    walk(t, 0)
    ni = sum(1 for c in eb.values() if "i" in c)
    return ni, len(eb) - ni


def indirect_configs(rng, n_per_result):
    """[(result kind, result shape/scalar, [arg spec])]; arg spec = ('i',) | ('d',) | ('w',) | shape.
    Every config keeps within the 6 integer / 8 SSE argument registers, so that the recorded
    register-pressure finding cannot interfere; every result class meets by-value arguments of every class."""
    args, results = indirect_shapes()
    classes = ["keep", "w1", "w2", "mem"]
    layouts = [["A"], ["i", "A"], ["A", "w", "B"], ["d", "A", "B"], ["A", "B", "C"], ["i", "d", "A", "w"], ["A", "d", "B", "i"]]
    out = []
    for ri, (rk, rs) in enumerate(results):
        k = 0
        tries = 0
        while k < n_per_result and tries < 200:
            tries += 1
            lay = layouts[(ri + k + tries) % len(layouts)] if tries > 1 else layouts[(ri + k) % len(layouts)]
            spec = []
            for j, x in enumerate(lay):
                if x in "idw":
                    spec.append((x,))
                else:
                    # rotate through the classes so that each result class sees each argument class, memory class most often
                    cl = classes[(ri + k + j + (0 if j else 3)) % 4] if rng.random() < 0.6 else "mem"
                    if k == 0 and j == 0:
                        cl = "mem"      # every result class meets a memory-class (byval) argument first
                    spec.append(rng.choice(args[cl]))
            ni = (1 if rk == "mem" else 0) + sum(1 for x in spec if x in (("i",), ("w",)))
            ns = sum(1 for x in spec if x == ("d",))
            for x in spec:
                if len(x) > 1 or x[0] == "s":
                    if x[0] == "s":
                        a, b = reg_need(x)
                        ni, ns = ni + a, ns + b
            if ni > 6 or ns > 8:
                continue
            out.append((rk, rs, spec))
            k += 1
    return out


def generate_indirect(g, configs):
    """C and Go text for the indirect-call tests; returns (c functions, go decls, go main lines, expected)"""
    cfun, gofun, body, expected = ["static long long last_cs;", "long long get_last_cs(void) { return last_cs; }"], \
        ["//go:linkname get_last_cs C.get_last_cs\nfunc get_last_cs() int64"], [], {}
    for j, (rk, rs, spec) in enumerate(configs):
        cparams, gparams, callargs, terms, setup = [], [], [], [], []
        w = 1
        total = 0
        for ai, x in enumerate(spec):
            if x in (("i",), ("d",), ("w",)):
                c = x[0]
                v = 3 + ai + j % 5
                cparams.append("%s a%d" % (SC_C[c], ai))
                gparams.append("a%d %s" % (ai, SC_GO[c]))
                callargs.append(str(v) if c != "d" else "%d.0" % v)
                terms.append("(long long)a%d * %dLL" % (ai, w))
                total += v * w
                w += 1
            else:
                cn, gn = g.tyname(x)
                cparams.append("%s a%d" % (cn, ai))
                gparams.append("a%d %s" % (ai, gn))
                callargs.append("v%d" % ai)
                setup.append("\t\tvar v%d %s" % (ai, gn))
                for i, (p, ty) in enumerate(leaves(x)):
                    v = (j * 7 + ai * 11 + i * 3) % 40 + 1
                    setup.append("\t\t" + go_set("v%d" % ai, p, ty, str(v)))
                    terms.append("%s * %dLL" % (c_get("a%d" % ai, p, ty), w))
                    total += v * w
                    w += 1
        cs = " + ".join(terms)
        if rk == "void":
            cret, gret = "void", ""
            cbody = "last_cs = %s;" % cs
            want = [total]
        elif rk == "scalar":
            cret, gret = SC_C[rs], " " + SC_GO[rs]
            cbody = "return (%s)(%s);" % (SC_C[rs], cs)
            want = [total]
        else:
            cret, gret = g.tyname(rs)
            gret = " " + gret
            lv = leaves(rs)
            cbody = "long long cs = %s; %s r; memset(&r, 0, sizeof r); %s return r;" % (
                cs, cret, " ".join("r%s = %s;" % (p, "(void*)(long)(cs %% 50 + %d)" % i if ty[0] == "p" else "(%s)(cs %% 50 + %d)" % (CT[ty], i))
                                   for i, (p, ty) in enumerate(lv)))
            want = [total % 50 + i for i in range(len(lv))]
        cp = ", ".join(cparams)
        names = ", ".join("a%d" % i for i in range(len(spec)))
        cfun.append("static %s impl_%d(%s) { %s }" % (cret, j, cp, cbody))
        cfun.append("%s dir_%d(%s) { %simpl_%d(%s); }" % (cret, j, cp, "" if rk == "void" else "return ", j, names))
        cfun.append("typedef %s (*fp_%d_t)(%s);" % (cret, j, cp))
        cfun.append("fp_%d_t get_%d(void) { return impl_%d; }" % (j, j, j))
        cfun.append("fp_%d_t getc_%d(void) { return impl_%d; }" % (j, j, j))
        gp = ", ".join(gparams)
        gofun.append("//go:linkname get_%d C.get_%d\nfunc get_%d() func(%s)%s" % (j, j, j, gp, gret))
        gofun.append("//llgo:type C\ntype fpT_%d func(%s)%s" % (j, gp, gret))
        gofun.append("//go:linkname getc_%d C.getc_%d\nfunc getc_%d() fpT_%d" % (j, j, j, j))
        gofun.append("//go:linkname dir_%d C.dir_%d\nfunc dir_%d(%s)%s" % (j, j, j, gp, gret))
        gofun.append("var fv_%d = dir_%d" % (j, j))
        call = ", ".join(callargs)
        lines = ["\t{"] + setup
        for way, fexpr in (("fp", "get_%d()" % j), ("cfp", "getc_%d()" % j), ("fv", "fv_%d" % j)):
            tag = "I %d %s" % (j, way)
            lines.append("\t\t{\n\t\t\tf := %s" % fexpr)
            if rk == "void":
                lines.append("\t\t\tf(%s)\n\t\t\tprintln(\"%s\", get_last_cs())" % (call, tag))
            elif rk == "scalar":
                lines.append("\t\t\tprintln(\"%s\", int64(f(%s)))" % (tag, call))
            else:
                lines.append("\t\t\tr := f(%s)\n\t\t\tprintln(\"%s\", %s)" % (call, tag, ", ".join(go_get("r", p, ty) for p, ty in leaves(rs))))
            lines.append("\t\t}")
            expected[tag] = want
        lines.append("\t}")
        gofun.append("func itest_%d() {\n%s\n}" % (j, "\n".join(lines)))
        body.append("\titest_%d()" % j)
    return cfun, gofun, body, expected


# ---- shape generation ----
SCALARS = [("i", 1), ("i", 2), ("i", 4), ("i", 8), ("f", 4), ("f", 8), ("p",)]


def size_align(t):
    if is_scalar(t):
        w = 8 if t[0] == "p" else t[1]
        return w, w
    if t[0] == "a":
        s, a = size_align(t[2])
        return s * t[1], a
    off, al = 0, 1
    for f in t[1]:
        s, a = size_align(f)
        off = (off + a - 1) // a * a + s
        al = max(al, a)
    return (off + al - 1) // al * al, al


def boundary_shapes():
    I1, I2, I4, I8, F4, F8, P = SCALARS
    S = lambda *fs: ("s", list(fs))
    A = lambda n, e: ("a", n, e)
    return [
        S(I1), S(I8), S(F4), S(F8), S(P), S(I4, I4), S(I1, I1, I1), S(I1, I4), S(I4, I1), S(I1, I2, I4),
        S(F4, F4), S(F4, I4), S(I4, F4), S(I1, F4), S(I1, I1, I1, I1, I1), S(I2, I2, I2),
        S(I8, I8), S(F8, F8), S(I8, F8), S(F8, I8), S(I8, I1), S(I1, I8), S(P, I4), S(F4, I8), S(I8, F4), S(I4, F8),
        S(F4, F4, F4), S(F4, F4, F4, F4), S(F8, F4, F4), S(F8, F4), S(F4, F4, F8), S(I4, F4, F8), S(F4, I4, F4, F4),
        S(F4, F4, I4, F4), S(F4, F4, F4, I1), S(F8, I1, I1), S(I4, I4, I4), S(I1, I4, I4), S(I1, I1, I8), S(I4, I1, I8),
        S(A(9, I1)), S(A(16, I1)), S(A(17, I1)), S(A(3, I4)), S(A(4, I4)), S(A(2, F8)), S(A(2, F4)), S(A(3, F4)), S(A(2, I8), I1),
        S(I8, I8, I8), S(F8, F8, F8), S(I8, I8, I1), S(A(8, I4)), S(A(10, I8)),
        S(S(I4, I4), I8), S(S(F4, F4), S(F4, F4)), S(S(I8), S(F8)), S(S(I1, I1), I2, I4),
        # nested structs with tail padding (the flattening of arch.go loses it)
        S(S(I4, I1), I1, I4), S(S(I4, I1), I1, I1), S(S(I4, I1), I1, F4), S(A(2, S(I4, I1))), S(S(I2, I1), I1, F4, F4),
        S(S(I4, I1), F4, F4), S(S(I2, I1), I2, I8), S(I1, S(I4, I1), I1), S(S(F4, I1), F4, F4),
        # arrays of structs and nested arrays (length 1-3) inside 2..16-byte structs: the leaf count of an array is
        # length x leaves of its element (elementTypesCount), it decides keep / one part / the n == 2 shortcut
        S(A(1, S(I4, I4))), S(A(1, A(2, F4))), S(I8, A(1, S(I4, I4))), S(A(1, A(3, I1)), I4), S(A(1, S(I1, I1))),
        S(A(2, S(I2, I2))), S(A(3, S(I1, I1))), S(A(2, A(2, I2))), S(A(1, S(F4, F4)), F4), S(A(2, S(F4, F4))),
        S(A(1, S(F8, F8))), S(A(1, A(2, I8))), S(F8, A(1, A(2, F4))), S(A(1, S(I4, F4)), I8), S(A(1, A(1, A(2, I4)))),
        S(A(3, A(1, I4)), I4), S(I4, A(1, S(I2, I1))), S(A(1, S(P, I4))), S(A(2, A(3, I1)), I2), S(A(1, S(I8)), A(1, S(F4, F4))),
        S(A(1, A(1, I8)), I1), S(A(1, S(A(2, I2), I4)), I8),
    ]


def random_small_nested(rng):
    """a 2..16-byte struct whose members are scalars and arrays (length 1-3) of small structs or of arrays"""
    def member():
        k = rng.randrange(4)
        sc = lambda: SCALARS[rng.randrange(len(SCALARS))]
        if k == 0:
            return sc()
        if k == 1:
            return ("a", rng.randrange(1, 4), ("s", [sc() for _ in range(rng.randrange(1, 4))]))
        if k == 2:
            return ("a", rng.randrange(1, 4), ("a", rng.randrange(1, 4), sc()))
        return ("a", rng.randrange(1, 3), ("a", 1, ("s", [sc() for _ in range(rng.randrange(1, 3))])))
    while True:
        t = ("s", [member() for _ in range(rng.randrange(1, 4))])
        s, _ = size_align(t)
        if 2 <= s <= 16 and any(f[0] == "a" for f in t[1]):
            return t


def random_shape(rng, depth=2):
    def gen(d):
        k = rng.randrange(10)
        if d <= 0 or k < 6:
            return SCALARS[rng.randrange(len(SCALARS))]
        if k < 8:
            return ("a", rng.randrange(1, 5), gen(d - 1))
        return ("s", [gen(d - 1) for _ in range(rng.randrange(1, 5))])
    while True:
        t = ("s", [gen(depth) for _ in range(rng.randrange(1, 13))])
        s, _ = size_align(t)
        if 1 <= s <= 80 and len(leaves(t)) <= 24:
            return t


def gti_only_shapes():
    """shapes given to the in-process GetTypeInfo test only (the coerced type can be invalid: i0)"""
    I1, I2, I4, I8, F4, F8, P = SCALARS
    S = lambda *fs: ("s", list(fs))
    return [S(S(I4, I1), I1, I1, I1), S(S(I2, I1), I1, I1, I1, I1, I1), S(S(I4, I1), S(I4, I1))]
