package cabi

// Injected by /verif (go test -overlay, -tags llvm14,verif); not part of the repository.
//
// C09: call the real TypeInfoAmd64.GetTypeInfo (through Transformer.GetTypeInfo) on LLVM struct
// types built from the shape trees in $VERIF_IN (one JSON tree per line, written by
// props/C09/check.py from the same generator that prints the Coq terms and the end-to-end
// programs) and report kind / Type1 / Type2 plus the LLVM layout facts needed to decide
// whether every field byte travels through the coerced types.

import (
	"bufio"
	"encoding/json"
	"fmt"
	"os"
	"testing"

	"github.com/goplus/llgo/ssa"
	"github.com/xgo-dev/llvm"
)

type c09shape struct {
	K string      `json:"k"` // i f p a s
	W int         `json:"w,omitempty"`
	N int         `json:"n,omitempty"`
	E *c09shape   `json:"e,omitempty"`
	F []*c09shape `json:"f,omitempty"`
}

type c09rec struct {
	Kind   string  `json:"kind"`
	Idx    int     `json:"idx"`
	Arch   string  `json:"arch"`
	AKind  int     `json:"akind"`
	Codes  []int   `json:"codes"`  // kind code followed by the codes of Type1 / Type2
	Size   int     `json:"size"`
	Align  int     `json:"align"`
	Leaves [][]int `json:"leaves"` // offset, size of every scalar leaf (LLVM data layout)
	Parts  [][]int `json:"parts"`  // offset, store size of every coerced part inside the struct image
	Err    string  `json:"err,omitempty"`
}

func c09build(ctx llvm.Context, s *c09shape) llvm.Type {
	switch s.K {
	case "i":
		return ctx.IntType(s.W * 8)
	case "f":
		if s.W == 4 {
			return ctx.FloatType()
		}
		return ctx.DoubleType()
	case "p":
		return llvm.PointerType(ctx.Int8Type(), 0)
	case "a":
		return llvm.ArrayType(c09build(ctx, s.E), s.N)
	case "s":
		var fs []llvm.Type
		for _, f := range s.F {
			fs = append(fs, c09build(ctx, f))
		}
		return ctx.StructType(fs, false)
	}
	panic("c09: kind " + s.K)
}

func c09code(t llvm.Type) int {
	switch t.TypeKind() {
	case llvm.IntegerTypeKind:
		return t.IntTypeWidth()
	case llvm.FloatTypeKind:
		return 1001
	case llvm.DoubleTypeKind:
		return 1002
	case llvm.PointerTypeKind:
		return 1003
	case llvm.VectorTypeKind:
		return 1004
	}
	return 9999
}

func c09leaves(td llvm.TargetData, t llvm.Type, base int, out *[][]int) {
	switch t.TypeKind() {
	case llvm.StructTypeKind:
		for i, e := range t.StructElementTypes() {
			c09leaves(td, e, base+int(td.ElementOffset(t, i)), out)
		}
	case llvm.ArrayTypeKind:
		e := t.ElementType()
		for i := 0; i < t.ArrayLength(); i++ {
			c09leaves(td, e, base+i*int(td.TypeAllocSize(e)), out)
		}
	default:
		*out = append(*out, []int{base, int(td.TypeStoreSize(t))})
	}
}

func TestVerifC09(t *testing.T) {
	in, err := os.Open(os.Getenv("VERIF_IN"))
	if err != nil {
		t.Fatal(err)
	}
	defer in.Close()
	f, err := os.Create(os.Getenv("VERIF_OUT"))
	if err != nil {
		t.Fatal(err)
	}
	defer f.Close()
	enc := json.NewEncoder(f)
	ssa.Initialize(ssa.InitAll)
	prog := ssa.NewProgram(&ssa.Target{GOOS: "linux", GOARCH: "amd64"})
	tr := NewTransformer(prog, "", "", ModeAllFunc, false)
	td := prog.TargetData()
	ctx := llvm.NewContext()
	sc := bufio.NewScanner(in)
	sc.Buffer(make([]byte, 1<<20), 1<<24)
	idx := 0
	for sc.Scan() {
		var s c09shape
		if err := json.Unmarshal(sc.Bytes(), &s); err != nil {
			t.Fatal(err)
		}
		rec := c09rec{Kind: "gti", Idx: idx, Arch: "amd64", Leaves: [][]int{}, Parts: [][]int{}, Codes: []int{}}
		func() {
			defer func() {
				if e := recover(); e != nil {
					rec.Kind = "panic"
					rec.Err = fmt.Sprint(e)
				}
			}()
			typ := c09build(ctx, &s)
			rec.Size, rec.Align = int(td.TypeAllocSize(typ)), int(td.ABITypeAlignment(typ))
			c09leaves(td, typ, 0, &rec.Leaves)
			ftyp := llvm.FunctionType(ctx.VoidType(), []llvm.Type{typ}, false)
			info := tr.GetTypeInfo(ctx, ftyp, typ, 1)
			rec.AKind = int(info.Kind)
			rec.Codes = append(rec.Codes, int(info.Kind))
			switch info.Kind {
			case AttrWidthType:
				rec.Codes = append(rec.Codes, c09code(info.Type1))
				rec.Parts = append(rec.Parts, []int{0, int(td.TypeStoreSize(info.Type1))})
			case AttrWidthType2:
				rec.Codes = append(rec.Codes, c09code(info.Type1), c09code(info.Type2))
				if info.Type2.TypeKind() == llvm.IntegerTypeKind && info.Type2.IntTypeWidth() == 0 {
					rec.Err = "Type2 is i0"
					return
				}
				// the two parts are read as the fields of the literal struct {Type1, Type2}
				pair := ctx.StructType([]llvm.Type{info.Type1, info.Type2}, false)
				rec.Parts = append(rec.Parts, []int{0, int(td.TypeStoreSize(info.Type1))},
					[]int{int(td.ElementOffset(pair, 1)), int(td.TypeStoreSize(info.Type2))})
			default:
				rec.Parts = append(rec.Parts, []int{0, rec.Size})
			}
		}()
		enc.Encode(rec)
		idx++
	}
}
