"""C15 generator: Go types from a recursive grammar, their Go source, their Coq model terms and the
probe program (types.go / main.go / sub package) that walks them with reflect and prints them with fmt.

Type trees (python tuples):
  ("basic", name)                      name in Go spelling (int, byte, rune, unsafe.Pointer, ...)
  ("named", pkg, name, [targs])        pkg in {"main", "pkgb", None(error)}; declaration in DECLS
  ("ptr", e) ("slice", e) ("array", n, e) ("map", k, e) ("chan", dir, e)   dir in both/send/recv
  ("func", [params], [results], variadic)
  ("struct", [(name, embedded, tag, type)])
  ("iface", [(name, [params], [results], variadic)])     methods sorted by name (go/types order)
  ("tparam", i)                        only inside generic declarations
"""
import random

MOD = "verifprog"
PKGB_PATH = MOD + "/sub/inner"
PKGS = {"main": (MOD, "main"), "pkgb": (PKGB_PATH, "pkgb")}

BASICS = ["bool", "int", "int8", "int16", "int32", "int64", "uint", "uint8", "uint16", "uint32", "uint64",
          "uintptr", "float32", "float64", "complex64", "complex128", "string", "unsafe.Pointer"]
BASIC_KIND = {n: i + 1 for i, n in enumerate(BASICS)}
BASIC_KIND["byte"] = 8
BASIC_KIND["rune"] = 5
INTS = ["int", "int8", "int16", "int32", "int64"]
UINTS = ["uint", "uint8", "uint16", "uint32", "uint64", "uintptr"]
FLOATS = ["float32", "float64"]
BITS = {"int": 64, "int8": 8, "int16": 16, "int32": 32, "int64": 64, "uint": 64, "uint8": 8, "uint16": 16,
        "uint32": 32, "uint64": 64, "uintptr": 64, "byte": 8, "rune": 32}


def B(n):
    return ("basic", n)


def canon_alias(t):
    """type arguments are spelled with byte / rune only: llgo does not link a program that instantiates one
    generic type under both spellings of the same argument (finding generic-instance-byte-uint8-spelling-link-failure,
    probed by its own small program harness/e2e_alias)"""
    k = t[0]
    if k == "basic":
        return ("basic", {"uint8": "byte", "int32": "rune"}.get(t[1], t[1]))
    if k == "named":
        return ("named", t[1], t[2], [canon_alias(a) for a in t[3]])
    if k in ("ptr", "slice"):
        return (k, canon_alias(t[1]))
    if k == "array":
        return (k, t[1], canon_alias(t[2]))
    if k == "map":
        return (k, canon_alias(t[1]), canon_alias(t[2]))
    if k == "chan":
        return (k, t[1], canon_alias(t[2]))
    if k == "func":
        return (k, [canon_alias(a) for a in t[1]], [canon_alias(a) for a in t[2]], t[3])
    if k == "struct":
        return (k, [(n, e, tg, canon_alias(ft)) for n, e, tg, ft in t[1]])
    if k == "iface":
        return (k, [(n, [canon_alias(a) for a in ps], [canon_alias(a) for a in rs], v) for n, ps, rs, v in t[1]])
    return t


def N(pkg, name, *targs):
    return ("named", pkg, name, [canon_alias(a) for a in targs])


ERR = ("named", None, "error", [])

# ---------------------------------------------------------------- declarations
# name -> dict(pkg, tparams, und, methods=[(name, ptr_recv, params, results, variadic, body)])
DECLS = {}


def decl(pkg, name, und, tparams=0, methods=(), constraints=None):
    DECLS[(pkg, name)] = dict(pkg=pkg, name=name, und=und, tparams=tparams, methods=list(methods),
                              constraints=constraints or ["any"] * tparams)


def M(name, ptr, params, results, body, variadic=False):
    return (name, ptr, params, results, variadic, body)


S_ = B("string")
I_ = B("int")

# sub package
decl("pkgb", "Item", ("struct", [("ID", False, "", I_), ("note", False, "", S_)]),
     methods=[M("Describe", False, [], [S_], 'return "item#" + itoa(x.ID) + x.note'),
              M("SetNote", True, [S_], [], "x.note = a0"),
              M("secret", False, [], [I_], "return x.ID")])
decl("pkgb", "Num", I_, methods=[M("String", False, [], [S_], 'return "Num(" + itoa(int(x)) + ")"')])
decl("pkgb", "Pair", ("struct", [("K", False, "", ("tparam", 0)), ("V", False, "", ("tparam", 1))]), tparams=2,
     constraints=["comparable", "any"],
     methods=[M("Key", False, [], [("tparam", 0)], "return x.K")])
decl("pkgb", "Ptr", ("ptr", I_))
decl("pkgb", "Fn", ("func", [I_], [S_], False))
decl("pkgb", "Shape", ("iface", [("Area", [], [B("float64")], False), ("name", [], [S_], False)]))
decl("pkgb", "hid", ("struct", [("Z", False, "", I_)]))     # unexported, reachable through Hid var only

# main package
decl("main", "MyInt", I_, methods=[M("String", False, [], [S_], 'return "MyInt(" + itoa(int(x)) + ")"'),
                                    M("Inc", True, [I_], [I_], "*x += MyInt(a0); return int(*x)"),
                                    M("Twice", False, [], [N("main", "MyInt")], "return x * 2")])
decl("main", "Code", I_, methods=[M("Error", False, [], [S_], 'return "E" + itoa(int(x))')])
# unexported struct with exported fields of Stringer / error types, embedded by value and by pointer below
decl("main", "inner", ("struct", [("N", False, "", N("main", "MyInt")), ("C", False, "", N("main", "Code")), ("Q", False, "", I_),
                                  ("note", False, "", S_), ("Extra", False, "", ("slice", N("main", "MyInt")))]),
     methods=[M("Tag", False, [], [S_], 'return "in" + x.note')])
decl("main", "Hold", ("struct", [("inner", True, "", N("main", "inner")), ("Y", False, "", I_)]))
decl("main", "PHold", ("struct", [("inner", True, "", ("ptr", N("main", "inner"))), ("Z", False, "", S_)]))
decl("main", "Hold2", ("struct", [("Hold", True, "", N("main", "Hold")), ("W", False, "", N("main", "Code"))]))
decl("main", "MyStr", S_)
decl("main", "MyFloat", B("float64"), methods=[M("Half", False, [], [B("float64")], "return float64(x) / 2")])
decl("main", "MyBool", B("bool"))
decl("main", "MyU8", B("uint8"))
decl("main", "MyBytes", ("slice", B("byte")))
decl("main", "P", ("ptr", I_))
decl("main", "PP", ("ptr", ("ptr", I_)))
decl("main", "PS", ("ptr", N("main", "Emb")))
decl("main", "Fn", ("func", [I_, ("slice", S_)], [I_, ERR], True))
decl("main", "Fn0", ("func", [], [], False), methods=[M("Name", False, [], [S_], 'return "fn0"')])
decl("main", "Sl", ("slice", N("main", "MyInt")), methods=[M("Len", False, [], [I_], "return len(x)")])
decl("main", "Mp", ("map", S_, N("main", "Emb")))
decl("main", "Arr", ("array", 3, B("uint8")))
decl("main", "Ch", ("chan", "send", I_))
decl("main", "Emb", ("struct", [("X", False, "", B("int8")), ("Y", False, "", B("int8"))]),
     methods=[M("Val", False, [], [I_], "return int(x.X) + int(x.Y)"),
              M("PtrM", True, [I_], [I_], "x.X += int8(a0); return int(x.X)"),
              M("hidden", False, [], [I_], "return 42"),
              M("Sum", False, [I_, ("slice", I_)], [I_], "s := a0; for _, v := range a1 { s += v }; return s + int(x.X)",
                variadic=True)])
decl("main", "Rec", ("struct", [("A", False, 'json:"a,omitempty" xml:"x"', I_), ("b", False, "", S_),
                                ("C", False, "", ("ptr", N("main", "Rec"))), ("MyInt", True, "", N("main", "MyInt")),
                                ("Emb", True, "", ("ptr", N("main", "Emb"))),
                                ("Item", True, 'k:"v"', N("pkgb", "Item"))]),
     methods=[M("Own", False, [], [S_], 'return "rec" + itoa(x.A)')])
decl("main", "Node", ("struct", [("V", False, "", ("tparam", 0)), ("Next", False, "", ("ptr", N("main", "Node", ("tparam", 0))))]),
     tparams=1, methods=[M("Get", False, [], [("tparam", 0)], "return x.V"),
                         M("Depth", True, [], [I_], "n := 0; for p := x; p != nil; p = p.Next { n++ }; return n")])
decl("main", "Pair", ("struct", [("K", False, "", ("tparam", 0)), ("V", False, "", ("tparam", 1))]), tparams=2,
     constraints=["comparable", "any"])
decl("main", "GSl", ("slice", ("tparam", 0)), tparams=1)
decl("main", "GMap", ("map", ("tparam", 0), ("tparam", 1)), tparams=2, constraints=["comparable", "any"])
decl("main", "Iface", ("iface", [("String", [], [S_], False), ("hidden", [], [I_], False)]))
decl("main", "Strer", ("iface", [("String", [], [S_], False)]))
decl("main", "Empty", ("struct", []))
decl("main", "U", ("struct", [("Ärger", False, "", I_), ("_", False, "", B("int8")), ("x_", False, "", B("int16")),
                              ("_", False, "", B("int32"))]),
     methods=[M("Ärger2", False, [], [I_], "return 1"), M("Zeta", False, [], [I_], "return 2"),
              M("alpha", False, [], [I_], "return 3"), M("Beta", True, [], [I_], "return 4")])
decl("main", "Outer", ("struct", [("Rec", True, "", N("main", "Rec")), ("Strer", True, "", N("main", "Strer")),
                                  ("N", False, "", ("ptr", N("main", "Node", I_)))]))
decl("main", "Tagged", ("struct", [("A", False, 'a:"1"', I_), ("B", False, "quote\"back\\slash", S_),
                                   ("C", False, "sp ace\ttab", B("bool")), ("D", False, "uni:é", B("uint8"))]))
decl("main", "ErrT", ("struct", [("Code", False, "", I_)]),
     methods=[M("Error", True, [], [S_], 'return "err" + itoa(x.Code)')])
decl("main", "GoS", ("struct", [("V", False, "", I_)]),
     methods=[M("GoString", False, [], [S_], 'return "GoS!" + itoa(x.V)'),
              M("String", True, [], [S_], 'return "GoS-ptr-String"')])

NAMED_POOL = [N("main", "MyInt"), N("main", "MyStr"), N("main", "MyFloat"), N("main", "MyBool"), N("main", "MyU8"),
              N("main", "MyBytes"), N("main", "P"), N("main", "PP"), N("main", "PS"), N("main", "Fn"), N("main", "Fn0"),
              N("main", "Sl"), N("main", "Mp"), N("main", "Arr"), N("main", "Ch"), N("main", "Emb"), N("main", "Rec"),
              N("main", "Node", I_), N("main", "Node", N("main", "MyStr")), N("main", "Node", ("ptr", N("main", "Emb"))),
              N("main", "Pair", S_, ("slice", N("pkgb", "Num"))), N("main", "Pair", N("main", "P"), ("slice", N("main", "P"))),
              N("main", "Pair", B("uint8"), ("map", S_, ("array", 2, N("pkgb", "Item")))),
              N("main", "Pair", N("main", "MyInt"), ("chan", "both", ("chan", "recv", I_))),
              N("main", "Pair", I_, ("struct", [("A", False, "", I_)])),
              N("main", "Pair", I_, ("func", [I_], [S_], False)),
              N("main", "Pair", I_, ("iface", [("M", [], [], False)])),
              N("main", "Pair", I_, ("iface", [])),
              N("main", "GSl", N("main", "Rec")), N("main", "GMap", N("main", "MyStr"), ("ptr", N("pkgb", "Item"))),
              N("main", "Node", N("main", "Node", B("byte"))),
              N("main", "Iface"), N("main", "Strer"), N("main", "Empty"), N("main", "U"), N("main", "Outer"),
              N("main", "Tagged"), N("main", "ErrT"), N("main", "GoS"),
              N("main", "Code"), N("main", "inner"), N("main", "Hold"), N("main", "PHold"), N("main", "Hold2"),
              N("pkgb", "Item"), N("pkgb", "Num"), N("pkgb", "Pair", S_, I_), N("pkgb", "Pair", N("main", "MyInt"), N("pkgb", "Item")),
              N("pkgb", "Pair", N("pkgb", "Num"), ("ptr", N("main", "Rec"))),
              N("pkgb", "Ptr"), N("pkgb", "Fn"), N("pkgb", "Shape"), ERR]


def subst(t, targs):
    k = t[0]
    if k == "tparam":
        return targs[t[1]]
    if k == "basic":
        return t
    if k == "named":
        return ("named", t[1], t[2], [subst(a, targs) for a in t[3]])
    if k in ("ptr", "slice"):
        return (k, subst(t[1], targs))
    if k == "array":
        return (k, t[1], subst(t[2], targs))
    if k == "map":
        return (k, subst(t[1], targs), subst(t[2], targs))
    if k == "chan":
        return (k, t[1], subst(t[2], targs))
    if k == "func":
        return (k, [subst(a, targs) for a in t[1]], [subst(a, targs) for a in t[2]], t[3])
    if k == "struct":
        return (k, [(n, e, tg, subst(ft, targs)) for n, e, tg, ft in t[1]])
    if k == "iface":
        return (k, [(n, [subst(a, targs) for a in ps], [subst(a, targs) for a in rs], v) for n, ps, rs, v in t[1]])
    raise ValueError(t)


def underlying(t):
    if t[0] != "named":
        return t
    if t[1] is None:
        return ("iface", [("Error", [], [S_], False)])
    d = DECLS[(t[1], t[2])]
    return subst(d["und"], t[3])


def comparable(t, seen=()):
    u = underlying(t)
    k = u[0]
    if k in ("slice", "map", "func"):
        return False
    if k == "array":
        return comparable(u[2])
    if k == "struct":
        return all(comparable(f[3]) for f in u[1])
    return True


# ---------------------------------------------------------------- Go source of a type
def gosrc(t, here="main"):
    k = t[0]
    if k == "basic":
        return t[1]
    if k == "named":
        s = t[2] if (t[1] is None or t[1] == here) else t[1] + "." + t[2]
        if t[3]:
            s += "[" + ", ".join(gosrc(a, here) for a in t[3]) + "]"
        return s
    if k == "tparam":
        return "T%d" % t[1]
    if k == "ptr":
        return "*" + gosrc(t[1], here)
    if k == "slice":
        return "[]" + gosrc(t[1], here)
    if k == "array":
        return "[%d]%s" % (t[1], gosrc(t[2], here))
    if k == "map":
        return "map[%s]%s" % (gosrc(t[1], here), gosrc(t[2], here))
    if k == "chan":
        e = gosrc(t[2], here)
        if t[1] == "both":
            if t[2][0] == "chan" and t[2][1] == "recv":
                e = "(" + e + ")"
            return "chan " + e
        return ("chan<- " if t[1] == "send" else "<-chan ") + e
    if k == "func":
        return "func" + sigsrc(t[1], t[2], t[3], here)
    if k == "struct":
        fs = []
        for n, emb, tag, ft in t[1]:
            s = gosrc(ft, here) if emb else n + " " + gosrc(ft, here)
            if tag:
                s += " " + goquote(tag)
            fs.append(s)
        return "struct{" + "; ".join(fs) + "}"
    if k == "iface":
        return "interface{" + "; ".join(n + sigsrc(ps, rs, v, here) for n, ps, rs, v in t[1]) + "}"
    raise ValueError(t)


def sigsrc(ps, rs, variadic, here):
    pl = [gosrc(p, here) for p in ps]
    if variadic:
        pl[-1] = "..." + gosrc(ps[-1][1], here)
    s = "(" + ", ".join(pl) + ")"
    if len(rs) == 1:
        s += " " + gosrc(rs[0], here)
    elif rs:
        s += " (" + ", ".join(gosrc(r, here) for r in rs) + ")"
    return s


def goquote(s):
    out = '"'
    for ch in s:
        if ch == '"':
            out += '\\"'
        elif ch == "\\":
            out += "\\\\"
        elif ch == "\t":
            out += "\\t"
        elif ch == "\n":
            out += "\\n"
        else:
            out += ch
    return out + '"'


# ---------------------------------------------------------------- Coq term of a type
def cb(s):
    b = s.encode("utf-8")
    return "[" + ";".join(str(x) for x in b) + "]" if b else "[]"


def exported(name):
    c = name[:1]
    return c.isupper()          # unicode upper case, as token.IsExported


def es(t):
    """TFlagExtraStar as llgo computes it: unnamed pointer types with an odd number of stars; never a defined type"""
    if t[0] == "ptr":
        return not es(t[1])
    return False


def coq(t, stack=()):
    k = t[0]
    if k == "basic":
        return "(TBasic %d)" % BASIC_KIND[t[1]]
    if k == "named":
        if t[1] is None:
            pk = "None"
        else:
            pk = "(Some (%s, %s))" % (cb(PKGS[t[1]][0]), cb(PKGS[t[1]][1]))
        key = (t[1], t[2], repr(t[3]))
        if t[1] is None:
            und = "(TIface (MsCons %s true None (TFunc TsNil (TsCons (TBasic 17) TsNil) false) MsNil))" % cb("Error")
        elif key in stack or len(stack) >= 3:
            und = "TCut"                   # cycle / depth cut: the underlying type is not expanded again
            assert not es(t)
        else:
            und = coq(underlying(t), stack + (key,))
        return "(TNamed %s %s %s %s)" % (pk, cb(t[2]), coq_tys(t[3], stack), und)
    if k == "ptr":
        return "(TPtr %s)" % coq(t[1], stack)
    if k == "slice":
        return "(TSlice %s)" % coq(t[1], stack)
    if k == "array":
        return "(TArray %d %s)" % (t[1], coq(t[2], stack))
    if k == "map":
        return "(TMap %s %s)" % (coq(t[1], stack), coq(t[2], stack))
    if k == "chan":
        return "(TChan %s %s)" % ({"both": "DBoth", "send": "DSend", "recv": "DRecv"}[t[1]], coq(t[2], stack))
    if k == "func":
        return "(TFunc %s %s %s)" % (coq_tys(t[1], stack), coq_tys(t[2], stack), "true" if t[3] else "false")
    if k == "struct":
        s = "FsNil"
        for n, emb, tag, ft in reversed(t[1]):
            s = "(FsCons %s %s %s %s %s)" % (cb(n), "true" if emb else "false", cb(tag), coq(ft, stack), s)
        return "(TStruct %s)" % s
    if k == "iface":
        s = "MsNil"
        for n, ps, rs, v in reversed(t[1]):
            ex = exported(n)
            s = "(MsCons %s %s %s %s %s)" % (cb(n), "true" if ex else "false",
                                             "None" if ex else "(Some %s)" % cb("main"),
                                             coq(("func", ps, rs, v), stack), s)
        return "(TIface %s)" % s
    raise ValueError(t)


def coq_tys(ts, stack):
    s = "TsNil"
    for a in reversed(ts):
        s = "(TsCons %s %s)" % (coq(a, stack), s)
    return s


# ---------------------------------------------------------------- defect feature detectors (narrow keys)
def walk(t, f, top=True, in_targ=False, stack=()):
    """call f(node, in_targ) on every node of the printed form (named types are not expanded)"""
    f(t, in_targ)
    k = t[0]
    if k == "named":
        for a in t[3]:
            walk(a, f, False, True)
    elif k in ("ptr", "slice"):
        walk(t[1], f, False, in_targ)
    elif k in ("array", "chan"):
        walk(t[2], f, False, in_targ)
    elif k == "map":
        walk(t[1], f, False, in_targ)
        walk(t[2], f, False, in_targ)
    elif k == "func":
        for a in t[1] + t[2]:
            walk(a, f, False, in_targ)
    elif k == "struct":
        for fl in t[1]:
            walk(fl[3], f, False, in_targ)
    elif k == "iface":
        for m in t[1]:
            for a in m[1] + m[2]:
                walk(a, f, False, in_targ)


def str_features(t):
    """which recorded type-string defects can affect the string of t"""
    feats = set()

    def f(n, in_targ):
        k = n[0]
        if in_targ and k in ("struct", "func", "iface"):
            feats.add("reflect-string-typearg-literal-fallback")
        # shapes that used to print wrongly (kept as coverage classes)
        if k == "named" and n[1] is not None and underlying(n)[0] == "ptr":
            feats.add("shape:defined-pointer-type")
        if k == "struct" and any(fl[2] for fl in n[1]):
            feats.add("shape:struct-tag")
        if k == "map" and es(n[1]):
            feats.add("shape:pointer-map-key")
        if k == "chan" and n[1] == "both" and n[2][0] == "chan" and n[2][1] == "recv":
            feats.add("shape:chan-of-recv-chan")
        if in_targ and k == "named" and n[1] == "main":
            feats.add("shape:typearg-of-package-main")
    walk(t, f)
    return feats


# ---------------------------------------------------------------- random types
class Gen:
    def __init__(self, seed):
        self.r = random.Random(seed)

    def basic(self):
        return B(self.r.choice(BASICS[:-1] + ["byte", "rune", "unsafe.Pointer"]))

    def leaf(self):
        if self.r.random() < 0.5:
            return self.basic()
        return self.r.choice(NAMED_POOL)

    def key(self, d):
        for _ in range(20):
            t = self.ty(d)
            if comparable(t) and underlying(t)[0] != "iface":
                return t
        return S_

    def ty(self, d):
        r = self.r
        if d <= 0 or r.random() < 0.15:
            return self.leaf()
        c = r.choice(["ptr", "ptr", "slice", "array", "map", "chan", "chan", "func", "struct", "struct", "iface", "named"])
        if c == "ptr":
            return ("ptr", self.ty(d - 1))
        if c == "slice":
            return ("slice", self.ty(d - 1))
        if c == "array":
            return ("array", r.choice([0, 1, 2, 3, 7]), self.ty(d - 1))
        if c == "map":
            return ("map", self.key(d - 1), self.ty(d - 1))
        if c == "chan":
            return ("chan", r.choice(["both", "both", "send", "recv"]), self.ty(d - 1))
        if c == "func":
            return self.func(d - 1)
        if c == "struct":
            n = r.choice([0, 1, 2, 3, 4])
            fs, used = [], set()
            for i in range(n):
                ft = self.ty(d - 1)
                emb = False
                name = r.choice(["A", "B", "c", "D_", "Ünï", "x1", "_"]) + ("" if r.random() < 0.5 else str(i))
                if name.startswith("_"):
                    name = "_"
                if r.random() < 0.3:
                    # embedded field: a named (non-pointer, non-interface-pointer) type or pointer to one
                    cand = r.choice(NAMED_POOL)
                    u = underlying(cand)
                    if cand[1] is not None and u[0] != "ptr" and not cand[3] and (u[0] != "iface" or cand[2] == "Strer"):
                        if r.random() < 0.4 and u[0] != "iface":
                            ft = ("ptr", cand)
                        else:
                            ft = cand
                        emb, name = True, cand[2]
                if name != "_" and name in used:
                    continue
                used.add(name)
                tag = r.choice(["", "", "", 'json:"x"', "plain", 'a:"b" c:"d\\"e"', "ü"])
                fs.append((name, emb, tag, ft))
            return ("struct", fs)
        if c == "iface":
            n = r.choice([0, 0, 1, 2, 3])
            names = r.sample(["Alpha", "Beta", "String", "hidden", "zed", "Ünï"], n)
            ms = []
            # go/types (1.24) orders interface methods: exported first, then by name
            for nm in sorted(names, key=lambda s: (not exported(s), s.encode())):
                f = self.func(d - 1)
                ms.append((nm, f[1], f[2], f[3]))
            return ("iface", ms)
        if c == "named":
            g = r.choice([("main", "Node", 1), ("main", "Pair", 2), ("pkgb", "Pair", 2), ("main", "GSl", 1), ("main", "GMap", 2)])
            if g[2] == 1:
                return N(g[0], g[1], self.targ(d - 1))
            return N(g[0], g[1], self.key(min(d - 1, 1)), self.targ(d - 1))
        raise ValueError(c)

    def targ(self, d):
        # type arguments: mostly forms handled by the dedicated code, sometimes literals (fallback path)
        for _ in range(30):
            t = self.ty(d)
            bad = []
            walk(t, lambda n, it: bad.append(1) if n[0] in ("struct", "func", "iface") else None)
            if not bad or self.r.random() < 0.15:
                return t
        return I_

    def func(self, d):
        r = self.r
        ps = [self.ty(d) for _ in range(r.choice([0, 1, 2, 3]))]
        rs = [self.ty(d) for _ in range(r.choice([0, 0, 1, 1, 2]))]
        v = False
        if ps and r.random() < 0.35:
            v = True
            ps[-1] = ("slice", ps[-1])
        return ("func", ps, rs, v)


FIXED_TYPES = [
    B("bool"), B("int"), B("uint8"), B("byte"), B("rune"), B("float32"), B("complex128"), B("string"), B("uintptr"),
    B("unsafe.Pointer"), ("ptr", I_), ("ptr", ("ptr", I_)), ("ptr", ("ptr", ("ptr", S_))),
    ("ptr", N("main", "P")), ("ptr", ("ptr", N("main", "P"))), ("slice", N("main", "P")), ("ptr", N("main", "PP")),
    ("ptr", N("main", "PS")), ("map", N("main", "P"), N("pkgb", "Ptr")), ("map", ("ptr", I_), S_),
    ("map", ("ptr", N("main", "Emb")), ("slice", ("ptr", ("ptr", I_)))), ("map", ("ptr", ("ptr", S_)), I_),
    ("slice", ("ptr", N("main", "Rec"))), ("array", 0, ("func", [], [], False)), ("array", 4, ("ptr", N("pkgb", "Item"))),
    ("map", S_, ("slice", ("ptr", I_))), ("map", ("array", 2, S_), ("struct", [])),
    ("chan", "both", I_), ("chan", "send", I_), ("chan", "recv", I_),
    ("chan", "both", ("chan", "recv", I_)), ("chan", "both", ("chan", "send", I_)), ("chan", "send", ("chan", "recv", I_)),
    ("chan", "recv", ("chan", "recv", I_)), ("chan", "both", ("chan", "both", ("chan", "recv", I_))),
    ("chan", "recv", ("func", [], [], False)), ("chan", "both", ("func", [], [I_], False)),
    ("func", [], [], False), ("func", [I_], [S_], False), ("func", [I_, ("slice", S_)], [I_, ERR], True),
    ("func", [("slice", ("ptr", I_))], [], True), ("func", [("func", [I_], [I_], False)], [("func", [], [], False)], False),
    ("func", [], [I_, I_, I_], False),
    ("struct", []), ("struct", [("A", False, "", I_)]), ("struct", [("A", False, 'json:"a"', I_), ("b", False, "", S_)]),
    ("struct", [("a", False, "", B("int8")), ("B", False, "", B("int64")), ("c", False, "", B("int8"))]),
    ("struct", [("Emb", True, "", N("main", "Emb")), ("Rec", True, "t", ("ptr", N("main", "Rec")))]),
    ("struct", [("Item", True, "", N("pkgb", "Item")), ("Num", True, "", ("ptr", N("pkgb", "Num")))]),
    ("struct", [("MyInt", True, "", N("main", "MyInt")), ("Strer", True, "", N("main", "Strer"))]),
    ("struct", [("_", False, "", I_), ("_", False, "", S_)]),
    ("struct", [("F", False, "", ("func", [I_], [], False)), ("G", False, "", N("main", "Fn"))]),
    ("struct", [("In", False, "", ("struct", [("X", False, "x", ("ptr", N("main", "P")))]))]),
    ("iface", []), ("iface", [("M", [I_], [S_], False)]),
    ("iface", [("M", [I_, ("slice", S_)], [], True), ("x", [], [], False)]),
    ("iface", [("Ünï", [], [I_, ERR], False), ("hidden", [N("main", "P")], [], False)]),
    ("ptr", N("main", "Iface")), ("slice", N("main", "Strer")), ("map", N("main", "Strer"), ("iface", [])),
    ("ptr", N("main", "Node", I_)), ("ptr", N("main", "Emb")), ("ptr", N("main", "U")), ("ptr", N("main", "MyInt")),
    ("ptr", N("main", "Rec")), ("ptr", N("pkgb", "Item")), ("ptr", N("main", "ErrT")), ("ptr", N("main", "GoS")),
    ("ptr", N("main", "Outer")), ("ptr", N("main", "Sl")), ("ptr", N("main", "Fn0")),
    ("ptr", ("struct", [("Emb", True, "", N("main", "Emb"))])),
    ("slice", N("main", "Hold")), ("map", S_, N("main", "Hold")), ("ptr", N("main", "Hold")), ("ptr", N("main", "PHold")),
    ("array", 2, N("main", "Hold2")), ("struct", [("inner", True, "", N("main", "inner")), ("Code", True, "", N("main", "Code"))]),
    ("struct", [("inner", True, "j", ("ptr", N("main", "inner"))), ("A", False, "", ("slice", N("main", "Hold")))]),
    ("map", N("main", "Code"), ("slice", N("main", "inner"))),
    ("ptr", ("struct", [("Emb", True, "", ("ptr", N("main", "Emb"))), ("U", True, "", N("main", "U"))])),
]


def all_types(seed, nrand):
    g = Gen(seed)
    ts = list(NAMED_POOL) + list(FIXED_TYPES)
    seen = set(repr(t) for t in ts)
    tries = 0
    while len(ts) < len(NAMED_POOL) + len(FIXED_TYPES) + nrand and tries < nrand * 20:
        tries += 1
        t = g.ty(g.r.choice([1, 2, 2, 3, 3]))
        if repr(t) in seen or len(gosrc(t)) > 400:
            continue
        seen.add(repr(t))
        ts.append(t)
    return ts


def has_emb_ref(t, seen=()):
    """does the value tree of t contain a struct with an embedded pointer or interface field
    (promoted methods would dereference nil in the printable zero-ish values)"""
    k = t[0]
    if k == "named":
        key = (t[1], t[2], repr(t[3]))
        if key in seen or t[1] is None:
            return False
        return has_emb_ref(underlying(t), seen + (key,))
    if k in ("ptr", "slice"):
        return has_emb_ref(t[1], seen)
    if k in ("array", "chan"):
        return has_emb_ref(t[2], seen)
    if k == "map":
        return has_emb_ref(t[1], seen) or has_emb_ref(t[2], seen)
    if k == "struct":
        for n, emb, tag, ft in t[1]:
            if emb and underlying(ft)[0] in ("ptr", "iface"):
                return True
            if has_emb_ref(ft, seen):
                return True
    return False


FMT_METHODS = ("String", "Error", "GoString", "Format")


def val_stringer(t, seen=()):
    """does the value method set of t hold a fmt-relevant method whose call through a nil *t dereferences"""
    if t[0] == "named" and t[1] is not None:
        key = (t[1], t[2])
        if key in seen:
            return False
        d = DECLS[key]
        for (mn, ptr, ps, rs, v, body) in d["methods"]:
            if mn in FMT_METHODS and (not ptr or key == ("main", "ErrT")):
                return True
        return val_stringer(underlying(t), seen + (key,))
    if t[0] == "struct":
        return any(emb and ft[0] != "ptr" and val_stringer(ft, seen) for n, emb, tag, ft in t[1])
    return False


def nil_stringer_risk(t, seen=()):
    """a printable value of t may hold a nil pointer to a type with such a method (fmt would call it)"""
    k = t[0]
    if k == "named":
        key = (t[1], t[2], repr(t[3]))
        if key in seen or t[1] is None:
            return False
        return nil_stringer_risk(underlying(t), seen + (key,))
    if k == "ptr":
        return val_stringer(t[1]) or nil_stringer_risk(t[1], seen)
    if k == "slice":
        return nil_stringer_risk(t[1], seen)
    if k in ("array", "chan"):
        return nil_stringer_risk(t[2], seen)
    if k == "map":
        return nil_stringer_risk(t[1], seen) or nil_stringer_risk(t[2], seen)
    if k == "struct":
        return any(nil_stringer_risk(f[3], seen) for f in t[1])
    return False


def zero_size(t, seen=()):
    k = t[0]
    if k == "named":
        key = (t[1], t[2], repr(t[3]))
        if t[1] is None or key in seen:
            return False
        return zero_size(underlying(t), seen + (key,))
    if k == "array":
        return t[1] == 0 or zero_size(t[2], seen)
    if k == "struct":
        return all(zero_size(f[3], seen) for f in t[1])
    return False


def value_features(t):
    """features of the expanded type (through declarations) that explain differences of value-level probes"""
    fs = set()
    seen = set()

    def go(t, in_targ=False):
        k = t[0]
        if k == "named":
            if t[1] is None:
                return
            u = underlying(t)
            if u[0] == "func":
                fs.add("named-func")
            for a in t[3]:
                if a[0] in ("struct", "func") or (a[0] == "iface" and a[1]):
                    fs.add("typearg-literal")
                go(a, True)
            key = (t[1], t[2], repr(t[3]))
            if key in seen:
                return
            seen.add(key)
            for (mn, ptr, ps, rs, v, body) in DECLS[(t[1], t[2])]["methods"]:
                if exported(mn) and ord(mn[0]) >= 0x80:
                    fs.add("nonascii-method")
            go(u)
        elif k in ("ptr", "slice"):
            go(t[1])
        elif k in ("array", "chan"):
            go(t[2])
        elif k == "map":
            go(t[1])
            go(t[2])
        elif k == "func":
            for a in t[1] + t[2]:
                go(a)
        elif k == "struct":
            if t[1] and zero_size(t[1][-1][3]) and not zero_size(t):
                fs.add("trailing-zero-size")
            for n, emb, tag, ft in t[1]:
                if exported(n) and ord(n[0]) >= 0x80:
                    fs.add("nonascii-field")
                go(ft)
        elif k == "iface":
            for m in t[1]:
                for a in m[1] + m[2]:
                    go(a)
    go(t)
    return fs


def contains_func(t, seen=()):
    """does the memory layout of t contain a function value (two words under llgo)"""
    k = t[0]
    if k == "func":
        return True
    if k == "named":
        key = (t[1], t[2], repr(t[3]))
        if key in seen or t[1] is None:
            return False
        return contains_func(underlying(t), seen + (key,))
    if k == "array":
        return t[1] > 0 and contains_func(t[2], seen)
    if k == "struct":
        return any(contains_func(f[3], seen) for f in t[1])
    return False


# ---------------------------------------------------------------- values
class ValGen:
    """Go expressions of a given type.  mode 'fmt': printable without addresses (nested pointers nil,
    chan/func/unsafe.Pointer nil); mode 'deep': anything"""

    def __init__(self, seed):
        self.r = random.Random(seed)

    def val(self, t, mode, d=0, top=True, force=False):
        """force: the value must not be nil (embedded pointer / interface in mode 'call')"""
        r = self.r
        k = t[0]
        src = gosrc(t)
        if k == "basic":
            return self.basic(t[1], src)
        if k == "named":
            if t[1] is None:
                return r.choice(["error(nil)", "error(&ErrT{%d})" % r.randrange(9)]) if top or mode == "deep" else "error(nil)"
            u = underlying(t)
            if u[0] == "basic":
                return "%s(%s)" % (src, self.basic(u[1], u[1]))
            if u[0] == "iface":
                if (t[1], t[2]) == ("main", "Strer"):
                    return r.choice(["Strer(nil)"] * (0 if force else 1) + ["Strer(MyInt(%d))" % r.randrange(-3, 99), "Strer(pkgb.Num(4))"])
                if (t[1], t[2]) == ("main", "Iface"):
                    return "Iface(nil)"
                return "%s(nil)" % src
            if u[0] == "struct":
                if d > 3 and (mode != "call" or d > 8):
                    return src + "{}"
                return self.struct(u, src, mode, d, foreign=(t[1] == "pkgb"))
            if u[0] in ("ptr", "func", "chan"):
                inner = self.val(u, mode, d + 1, False)
                return "%s(%s)" % (src, inner) if inner != "nil" else "%s(nil)" % src
            return self.composite(u, src, mode, d)
        if k == "ptr":
            if not force and ((mode == "fmt" and not top) or d > 3 or r.random() < 0.25):
                return "(%s)(nil)" % src
            e = t[1]
            ue = underlying(e)
            if ue[0] == "iface" or (mode == "fmt" and ue[0] not in ("struct", "array", "slice", "map") and not force):
                return "(%s)(nil)" % src
            return "ptrOf[%s](%s)" % (gosrc(e), self.val(e, mode, d + 1, False))
        if k == "struct":
            if d > 3 and mode != "call":
                return src + "{}"
            return self.struct(t, src, mode, d)
        if k == "iface":
            if t[1]:
                return "(%s)(nil)" % src
            return r.choice(["(%s)(nil)" % src, "(%s)(int8(-7))" % src, '(%s)("s\\"q")' % src, "(%s)(MyInt(3))" % src,
                             "(%s)(2.5)" % src])
        if k == "func":
            if mode == "deep" and r.random() < 0.3 and not t[1] and not t[2]:
                return "(%s)(nopFn)" % src
            return "(%s)(nil)" % src
        if k == "chan":
            if mode == "deep" and r.random() < 0.5:
                return "make(%s, 1)" % src
            return "(%s)(nil)" % src
        return self.composite(t, src, mode, d)

    def composite(self, u, src, mode, d):
        r = self.r
        k = u[0]
        if k == "slice":
            c = r.random()
            if c < 0.2 or d > 3:
                return "%s(nil)" % src if not src.startswith("[") else "(%s)(nil)" % src
            if c < 0.35:
                return src + "{}"
            return src + "{" + ", ".join(self.val(u[1], mode, d + 1, False) for _ in range(r.choice([1, 2, 3]))) + "}"
        if k == "array":
            n = u[1]
            if d > 3:
                return src + "{}"
            return src + "{" + ", ".join(self.val(u[2], mode, d + 1, False) for _ in range(min(n, r.choice([0, 1, n])))) + "}"
        if k == "map":
            c = r.random()
            if c < 0.2 or d > 3:
                return "(%s)(nil)" % src
            if c < 0.35:
                return src + "{}"
            items, keys = [], set()
            for _ in range(r.choice([1, 2, 3])):
                kv = self.val(u[1], mode, d + 1, False)
                if kv in keys or "ptrOf" in kv or "make(" in kv:
                    continue
                keys.add(kv)
                items.append("%s: %s" % (kv, self.val(u[2], mode, d + 1, False)))
            if len(keys) > 1 and not self.simple_key(u[1]):
                items = items[:1]          # duplicate constant keys of composite type would not compile
            return src + "{" + ", ".join(items) + "}"
        raise ValueError(u)

    def simple_key(self, t):
        return underlying(t)[0] == "basic"

    def struct(self, u, src, mode, d, foreign=False):
        items = []
        for n, emb, tag, ft in u[1]:
            if n == "_":
                continue
            if foreign and not exported(n):
                continue
            force = mode == "call" and emb and underlying(ft)[0] in ("ptr", "iface") or \
                (mode == "call" and ft[0] == "ptr" and underlying(ft[1])[0] == "struct" and emb)
            if self.r.random() < 0.2 and mode != "call":
                continue
            items.append("%s: %s" % (n, self.val(ft, mode, d + 1, False, force)))
        return src + "{" + ", ".join(items) + "}"

    def basic(self, name, src):
        r = self.r
        if name == "bool":
            return r.choice(["true", "false"])
        if name in BITS:
            b = BITS[name]
            if name in INTS or name == "rune":
                pool = [0, 1, -1, 7, -128, 127, 2 ** (b - 1) - 1, -2 ** (b - 1), 65, 0x263A if b >= 32 else 97]
            else:
                pool = [0, 1, 7, 255, 2 ** b - 1, 2 ** (b - 1), 65, 200]
            v = r.choice([p for p in pool if (-2 ** (b - 1) <= p < 2 ** (b - 1)) or (name not in INTS and name != "rune" and 0 <= p < 2 ** b)])
            return "%s(%d)" % (src, v)
        if name in FLOATS:
            pool = ["0", "1", "-1.5", "3.14159", "1e21", "1e-7", "123456789", "0.000001234", "-2.25",
                    "math.Inf(1)", "math.NaN()", "2.5", "100"]
            if name == "float32":
                pool += ["16777216", "0.1"]
            return "%s(%s)" % (src, r.choice(pool))
        if name in ("complex64", "complex128"):
            return "%s(complex(%s, %s))" % (src, r.choice(["1", "0", "-2.5", "1e10"]), r.choice(["0", "3", "-0.5"]))
        if name == "string":
            return "%s(%s)" % (src, r.choice(['""', '"a"', '"hello"', '"q\\"uote"', '"tab\\there"', '"ünï©ode"', '"\\x00\\xff"',
                                               '"日本語"', '"new\\nline"', '"with space"']))
        if name == "unsafe.Pointer":
            return "unsafe.Pointer(nil)"
        raise ValueError(name)


# ---------------------------------------------------------------- program emission
ITOA = '''
func itoa(n int) string {
	if n == 0 {
		return "0"
	}
	neg := n < 0
	if neg {
		n = -n
	}
	s := ""
	for n > 0 {
		s = string(rune('0'+n%10)) + s
		n /= 10
	}
	if neg {
		s = "-" + s
	}
	return s
}
'''


def decl_src(pkg):
    out = []
    for (p, name), d in DECLS.items():
        if p != pkg:
            continue
        tp = ""
        if d["tparams"]:
            tp = "[" + ", ".join("T%d %s" % (i, c) for i, c in enumerate(d["constraints"])) + "]"
        out.append("type %s%s %s" % (name, tp, gosrc(d["und"], pkg)))
        recv_args = "[" + ", ".join("T%d" % i for i in range(d["tparams"])) + "]" if d["tparams"] else ""
        for (mn, ptr, ps, rs, variadic, body) in d["methods"]:
            pl = []
            for i, pt in enumerate(ps):
                if variadic and i == len(ps) - 1:
                    pl.append("a%d ...%s" % (i, gosrc(pt[1], pkg)))
                else:
                    pl.append("a%d %s" % (i, gosrc(pt, pkg)))
            res = ""
            if len(rs) == 1:
                res = " " + gosrc(rs[0], pkg)
            elif rs:
                res = " (" + ", ".join(gosrc(r, pkg) for r in rs) + ")"
            out.append("func (x %s%s%s) %s(%s)%s { %s }" % ("*" if ptr else "", name, recv_args, mn, ", ".join(pl), res, body))
        out.append("")
    return "\n".join(out)


def sub_go():
    return ("package pkgb\n\n" + decl_src("pkgb") + "\nvar Hid = hid{Z: 5}\n\n"
            "func NewItem(id int, note string) Item { return Item{ID: id, note: note} }\n" + ITOA)


def types_go(types):
    s = 'package main\n\nimport (\n\t"unsafe"\n\n\tpkgb "%s"\n)\n\nvar _ unsafe.Pointer\nvar _ = pkgb.Hid\n\n' % PKGB_PATH
    s += decl_src("main") + ITOA + "\n"
    for i, t in enumerate(types):
        s += "var v%d %s\n" % (i, gosrc(t))
    return s


VERBS_BY_KIND = {
    "int": "dxXobcqUvs", "uint": "dxXobcqUv", "float": "eEfFgGvxd", "string": "sqxXvd", "bool": "tvd", "complex": "vfeg",
}


def rand_formats(seed, n):
    r = random.Random(seed * 7919 + 13)
    vg = ValGen(seed + 5)
    out = []
    for i in range(n):
        kind = r.choice(["int", "int", "uint", "float", "float", "float", "string", "string", "bool", "complex"])
        tname = {"int": r.choice(INTS + ["rune"]), "uint": r.choice(UINTS + ["byte"]), "float": r.choice(FLOATS),
                 "string": "string", "bool": "bool", "complex": r.choice(["complex64", "complex128"])}[kind]
        flags = "".join(f for f in "+-# 0" if r.random() < 0.25)
        width = r.choice(["", "", "1", "3", "8", "12", "20"])
        prec = r.choice(["", "", "", ".0", ".1", ".3", ".10", "."])
        verb = r.choice(VERBS_BY_KIND[kind])
        f = "%" + flags + width + prec + verb
        out.append((f, vg.basic(tname, tname)))
    return out


def main_gen_go(types, seed, nvals):
    vg = ValGen(seed)
    vd1 = ValGen(seed + 1)
    vd2 = ValGen(seed + 2)
    vc = ValGen(seed + 3)
    fns, body = [], []
    for i, t in enumerate(types):
        body.append('\tdescType("T%d", reflect.TypeOf(&v%d).Elem())' % (i, i))
    vals = []
    for i, t in enumerate(types):
        if i >= nvals:
            break
        src = gosrc(t)
        a = vg.val(t, "fmt")
        d1s = vd1.r.getstate()
        d1 = vd1.val(t, "deep")
        d2 = vd2.val(t, "deep")
        cval = vc.val(t, "call", force=True)
        fns.append("func mkA%d() %s { return %s }" % (i, src, a))
        fns.append("func mkC%d() %s { return %s }" % (i, src, cval))
        fns.append("func mkD%d() %s { return %s }" % (i, src, d1))
        fns.append("func mkE%d() %s { return %s }" % (i, src, d2))
        if not has_emb_ref(t) and not nil_stringer_risk(t):
            body.append('\tfmtProbe("V%d", mkA%d())' % (i, i))
        body.append('\tcallAll("V%d", reflect.ValueOf(mkC%d()))' % (i, i))
        if underlying(t)[0] != "iface":
            body.append('\tcallAll("V%dp", reflect.ValueOf(ptrOf(mkC%d())))' % (i, i))
        body.append('\tdeq("V%d.self", mkD%d(), mkD%d())' % (i, i, i))
        body.append('\tdeq("V%d.other", mkD%d(), mkE%d())' % (i, i, i))
        body.append('\tattr("V%d.deep", "dump", func() string { return dump(reflect.ValueOf(mkD%d()), 0) })' % (i, i))
        body.append('\tattr("V%d.addr", "dump", func() string { return dump(reflect.ValueOf(ptrOf(mkC%d())).Elem(), 0) })' % (i, i))
        body.append('\tsetAll("V%d", reflect.ValueOf(ptrOf(mkC%d())).Elem())' % (i, i))
        if underlying(t)[0] in ("slice", "array", "map", "ptr", "struct"):
            body.append('\tdeqAlias("V%d", mkD%d())' % (i, i))
        vals.append(dict(i=i, fmt=a, d1=d1, d2=d2))
    body += ["\tstaticDeepEqual()", "\tstaticConvert()", "\tstaticSetGet()", "\tstaticIntTable()", "\tstaticFmt()"]
    rfs = rand_formats(seed, 250)
    for i, (f, v) in enumerate(rfs):
        body.append('\tattr("RF.%d", %s, func() string { return fmt.Sprintf(%s, %s) })' % (i, goquote("fmt" + f), goquote(f + "|"), v))
    s = "package main\n\nimport (\n\t\"fmt\"\n\t\"math\"\n\t\"reflect\"\n\t\"unsafe\"\n\n\tpkgb \"%s\"\n)\n\n" % PKGB_PATH
    s += "var _ = math.Inf\nvar _ unsafe.Pointer\nvar _ = pkgb.Hid\nvar _ = fmt.Sprint\n\n"
    s += "\n".join(fns) + "\n\nfunc main() {\n" + "\n".join(body) + "\n}\n"
    return s, vals, rfs


# ---------------------------------------------------------------- embedding graphs for FieldByName
LEAVES = ["X", "Y", "Z", "W"]
LEAF_CODE = {"X": 1, "Y": 2, "Z": 3, "W": 4}


def G(*types):
    """types: list of field lists; field: "X" (leaf) | ("e", target) | ("p", target) (embedded by value / pointer)"""
    return [list(t) for t in types]


e_, p_ = (lambda t: ("e", t)), (lambda t: ("p", t))
FIXED_GRAPHS = [
    ("diamond-2-below", G([e_(1), e_(2)], [e_(3)], [e_(3)], [e_(4)], ["X", "Y"])),            # S{A;B} A{C} B{C} C{D} D{X,Y}
    ("diamond-classic", G([e_(1), e_(2)], [e_(3)], [e_(3)], ["X"])),
    ("diamond-1-below", G([e_(1), e_(2)], [e_(3)], [e_(3)], [e_(4), "Y"], ["X"])),
    ("diamond-3-below", G([e_(1), e_(2)], [e_(3)], [e_(3)], [e_(4)], [e_(5)], [e_(6)], ["X"])),
    ("two-joins", G([e_(1), e_(2)], [e_(3), e_(4)], [e_(3), e_(4)], [e_(5)], [e_(5)], [e_(6)], ["X", "Z"])),
    ("join-then-join", G([e_(1), e_(2)], [e_(3)], [e_(3)], [e_(4), e_(5)], [e_(6)], [e_(6)], [e_(7)], ["X"])),
    ("diamond-pointers", G([p_(1), p_(2)], [p_(3)], [p_(3)], [p_(4)], ["X", "Y"])),
    ("diamond-mixed-ptr", G([e_(1), p_(2)], [p_(3)], [e_(3)], [e_(4)], ["X"])),
    ("shadow-shallower", G([e_(1), e_(2)], [e_(3), "X"], [e_(3)], [e_(4)], ["X", "Y"])),
    ("shadow-root", G(["X", e_(1), e_(2)], [e_(3)], [e_(3)], ["X"])),
    ("equal-depth-different-types", G([e_(1), e_(2)], ["X"], ["X", "Y"])),
    ("equal-depth-deeper", G([e_(1), e_(2)], [e_(3)], [e_(4)], ["X"], ["X"])),
    ("single-path", G([e_(1)], [e_(2)], [e_(3)], ["X"])),
    ("two-paths-different-depth", G([e_(1), e_(3)], [e_(2)], [e_(3)], [e_(4)], ["X"])),          # C at depth 1 and 3
    ("join-at-different-depths", G([e_(1), e_(2)], [e_(2)], [e_(3)], ["X"])),
    ("doubled-vs-unique-same-depth", G([e_(1), e_(2), e_(5)], [e_(3)], [e_(3)], [e_(4)], ["X"], [e_(6)], [e_(7)], ["X"])),
    ("doubled-deeper-unique-shallower", G([e_(1), e_(2), e_(5)], [e_(3)], [e_(3)], [e_(4)], [e_(6)], [e_(7)], ["Y"], ["X"])),
    ("pointer-cycle", G([p_(0), e_(1)], [p_(0), e_(2)], ["X"])),
    ("pointer-cycle-diamond", G([e_(1), e_(2)], [p_(3)], [p_(3)], [p_(0), e_(4)], [p_(3), "X"])),
    ("self-pointer", G([p_(0), "X"])),
    ("triple-path", G([e_(1), e_(2), e_(3)], [e_(4)], [e_(4)], [e_(4)], [e_(5)], ["X"])),
    ("unique-below-doubled-sibling", G([e_(1), e_(2)], [e_(3), e_(4)], [e_(3)], [e_(5)], [e_(6)], ["X"], ["Y"])),
]


def rand_graph(r):
    n = r.choice([3, 4, 5, 5, 6, 6, 7])
    g = []
    for i in range(n):
        fs, used = [], set()
        for _ in range(r.choice([0, 1, 1, 2, 2, 3])):
            if r.random() < 0.3:
                t, kind = r.randrange(n), "p"          # pointer: cycles allowed
            else:
                if i + 1 >= n:
                    continue
                t, kind = r.randrange(i + 1, n), "e"   # value: acyclic
            if t in used:
                continue
            used.add(t)
            fs.append((kind, t))
        leaves = [l for l in LEAVES if r.random() < (0.15 if i < n - 2 else 0.5)]
        for l in leaves:
            fs.insert(r.randrange(len(fs) + 1), l)
        g.append(fs)
    if not any(isinstance(f, str) for t in g for f in t):
        g[-1].append("X")
    return g


def fb_graphs(seed, nrand):
    r = random.Random(seed * 31 + 7)
    gs = list(FIXED_GRAPHS)
    for k in range(nrand):
        gs.append(("rand%d" % k, rand_graph(r)))
    return gs


def fb_go(gs):
    """type declarations + probe calls"""
    decls, calls = [], []
    for k, (name, g) in enumerate(gs):
        tn = lambda i: "Fg%dT%d" % (k, i)
        for i, fs in enumerate(g):
            parts = []
            for f in fs:
                if isinstance(f, str):
                    parts.append("%s %s `k:\"%s%d\"`" % (f, {"X": "int", "Y": "string", "Z": "[]int", "W": "float64"}[f], f.lower(), i))
                else:
                    parts.append(("*" if f[0] == "p" else "") + tn(f[1]))
            decls.append("type %s struct{ %s }" % (tn(i), "; ".join(parts)))
        names = LEAVES + [tn(i) for i in range(len(g))] + ["Nope"]
        calls.append('\tfbProbe("FB.%d", %s{}, []string{%s})' % (k, tn(0), ", ".join('"%s"' % n for n in names)))
    return "\n".join(decls) + "\n", calls


def fb_coq(g):
    def fld(f):
        if isinstance(f, str):
            return "(SField %d None)" % LEAF_CODE[f]
        return "(SField %d (Some %d))" % (100 + f[1], f[1])
    return "[" + "; ".join("[" + "; ".join(fld(f) for f in fs) + "]" for fs in g) + "]"


def fb_name_code(k, nm):
    if nm in LEAF_CODE:
        return LEAF_CODE[nm]
    m = __import__("re").match(r"Fg%dT(\d+)$" % k, nm)
    return 100 + int(m.group(1)) if m else 99


def program(seed, nrand, static_main):
    types = all_types(seed, nrand)
    mg, vals, rfs = main_gen_go(types, seed, len(types))
    gs = fb_graphs(seed, max(10, nrand // 2))
    fdecl, fcalls = fb_go(gs)
    mg = mg.replace("\tstaticDeepEqual()", "\n".join(fcalls) + "\n\tstaticDeepEqual()", 1)
    files = {"types.go": types_go(types), "main.go": static_main, "main_gen.go": mg,
             "fbgraphs.go": "package main\n\n" + fdecl, "sub/inner/pkgb.go": sub_go()}
    program.graphs = gs
    return types, files, vals, rfs
