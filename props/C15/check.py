"""C15 - reflect and fmt describe values and types as Go does."""
import collections, json, os, re, sys, threading, time
import vlib, e2e
from vlib import coq_list

HERE = os.path.dirname(os.path.abspath(__file__))
sys.path.insert(0, HERE)
import gen  # noqa: E402

H = os.path.join(HERE, "harness")


def cb(s):
    b = s.encode("utf-8", "surrogatepass") if isinstance(s, str) else bytes(s)
    return "[" + ";".join(str(x) for x in b) + "]" if b else "[]"


def unesc(s):
    """inverse of esc() in the probe program"""
    out, i = [], 0
    while i < len(s):
        c = s[i]
        if c == "\\" and i + 1 < len(s):
            n = s[i + 1]
            out.append({"n": "\n", "r": "\r", "\\": "\\"}.get(n, "\\" + n))
            i += 2
        else:
            out.append(c)
            i += 1
    return "".join(out)


def load_lines(text):
    d = collections.OrderedDict()
    for l in text.split("\n"):
        if "|" not in l:
            continue
        k, sep, v = l.partition(": ")
        if not sep and l.endswith(":"):
            k, v = l[:-1], ""
        d[k] = unesc(v)
    return d


# ---------------------------------------------------------------- classification of e2e differences
# Each rule rewrites BOTH lines towards a common form and names the recorded defect it stands for.
def r_main_pkgpath(s):
    return s.replace('"%s"' % gen.MOD, '"main"')


def r_typearg_literal(s):
    s = re.sub(r"struct \{ ", "struct{", s)
    s = re.sub(r"struct \{\}", "struct{}", s)
    return re.sub(r" \}", "}", s)


def r_panic_method(s):
    return re.sub(r"reflect: (?:reflect\.Value\.\w+|unknown method) using", "reflect: M using", s)


def r_flags(s):
    return re.sub(r"\((true|false)(?:true|false)\)", r"(\1_)", s)


RULES = [
    ("reflect-pkgpath-main-is-module-path", r_main_pkgpath),
    ("reflect-string-typearg-literal-fallback", r_typearg_literal),
    ("reflect-panic-message-unknown-method", r_panic_method),
    ("reflect-call-result-fields-settable", r_flags),
]


def classify_line(key, lv, gv):
    """-> (list of known-finding keys, None) or (None, generic key)"""
    used = []
    a, b = lv, gv
    for name, f in RULES:
        a2, b2 = f(a), f(b)
        if (a2, b2) != (a, b):
            used.append(name)
            a, b = a2, b2
        if a == b:
            return used, None
    return None, None


# DeepEqual probes of the static program, encoded as model inputs (heap, a, b); the observed result of the
# llgo-built program is compared with the Coq model (both argument orders)
NAN = "(VFloat 14 FNaN)"
DE_MODEL = {
    "DE.nan": ("[]", NAN, NAN),
    "DE.nan-slice": ("[(1, OArr [%s]); (2, OArr [%s])]" % (NAN, NAN), "(VSlice 23 1 0 1)", "(VSlice 23 2 0 1)"),
    "DE.nan-same-slice": ("[(1, OArr [%s])]" % NAN, "(VSlice 23 1 0 1)", "(VSlice 23 1 0 1)"),
    "DE.nan-ptr": ("[(1, OVal %s)]" % NAN, "(VPtr 22 1)", "(VPtr 22 1)"),
    "DE.map-same": ("[(1, OMap [(VFloat 14 (FNum 1), VInt 2 1)])]", "(VMap 21 1)", "(VMap 21 1)"),
    "DE.map-nan-val": ("[(1, OMap [(VInt 2 1, %s)]); (2, OMap [(VInt 2 1, %s)])]" % (NAN, NAN), "(VMap 21 1)", "(VMap 21 2)"),
    "DE.nil-vs-empty-slice": ("[(1, OArr [])]", "(VSlice 23 0 0 0)", "(VSlice 23 1 0 0)"),
    "DE.empty-vs-empty-slice": ("[(1, OArr []); (2, OArr [])]", "(VSlice 23 1 0 0)", "(VSlice 23 2 0 0)"),
    "DE.nil-vs-nil-slice": ("[]", "(VSlice 23 0 0 0)", "(VSlice 23 0 0 0)"),
    "DE.nil-vs-empty-map": ("[(1, OMap [])]", "(VMap 21 0)", "(VMap 21 1)"),
    "DE.empty-vs-empty-map": ("[(1, OMap []); (2, OMap [])]", "(VMap 21 1)", "(VMap 21 2)"),
    "DE.nil-func": ("[]", "(VFunc 19 true)", "(VFunc 19 true)"),
    "DE.same-func": ("[]", "(VFunc 19 false)", "(VFunc 19 false)"),
    "DE.diff-type": ("[]", "(VInt 2 1)", "(VInt 6 1)"),
    "DE.slice-len": ("[(1, OArr [VInt 2 1; VInt 2 2]); (2, OArr [VInt 2 1; VInt 2 2; VInt 2 3])]", "(VSlice 23 1 0 2)", "(VSlice 23 2 0 3)"),
    "DE.slice-same-backing": ("[(1, OArr [VInt 2 1; VInt 2 2; VInt 2 3; VInt 2 4])]", "(VSlice 23 1 0 2)", "(VSlice 23 1 0 2)"),
    "DE.slice-overlap": ("[(1, OArr [VInt 2 1; VInt 2 2; VInt 2 3; VInt 2 4])]", "(VSlice 23 1 0 2)", "(VSlice 23 1 1 2)"),
    "DE.alias-prefix": ("[(1, OArr [VInt 2 1; VInt 2 2; VInt 2 3; VInt 2 4])]", "(VSlice 23 1 0 2)", "(VSlice 23 1 0 3)"),
    "DE.alias-empty-vs-all": ("[(1, OArr [VInt 2 1; VInt 2 2; VInt 2 3; VInt 2 4])]", "(VSlice 23 1 0 0)", "(VSlice 23 1 0 4)"),
    "DE.alias-empty-vs-empty-cap": ("[(1, OArr [VInt 2 1; VInt 2 2; VInt 2 3; VInt 2 4])]", "(VSlice 23 1 0 0)", "(VSlice 23 1 0 0)"),
    "DE.alias-append-in-place": ("[(1, OArr [VInt 2 0; VInt 2 0; VInt 2 0])]", "(VSlice 23 1 0 2)", "(VSlice 23 1 0 3)"),
    "DE.alias-tail": ("[(1, OArr [VInt 2 1; VInt 2 2; VInt 2 3; VInt 2 4])]", "(VSlice 23 1 1 2)", "(VSlice 23 1 1 3)"),
    "DE.alias-same-len-same-ptr": ("[(1, OArr [VInt 2 1; VInt 2 2; VInt 2 3; VInt 2 4])]", "(VSlice 23 1 0 3)", "(VSlice 23 1 0 3)"),
    "DE.alias-array-slices": ("[(1, OArr [VInt 2 1; VInt 2 2; VInt 2 3; VInt 2 4])]", "(VSlice 23 1 0 2)", "(VSlice 23 1 0 3)"),
    "DE.alias-nested": ("[(1, OArr [VInt 2 1; VInt 2 2; VInt 2 3; VInt 2 4]); (2, OArr [VSlice 23 1 0 1; VSlice 23 1 0 2]); (3, OArr [VSlice 23 1 0 1; VSlice 23 1 0 3])]",
                        "(VSlice 24 2 0 2)", "(VSlice 24 3 0 2)"),
    "DE.alias-in-iface": ("[(1, OArr [VInt 17 97; VInt 17 98; VInt 17 99]); (2, OArr [VIface 20 (Some (VSlice 23 1 0 2))]); (3, OArr [VIface 20 (Some (VSlice 23 1 0 3))])]",
                          "(VSlice 24 2 0 1)", "(VSlice 24 3 0 1)"),
    "DE.alias-in-struct": ("[(1, OArr [VInt 17 97; VInt 17 98; VInt 17 99])]", "(VStruct 25 [VInt 2 1; VSlice 23 1 0 1; VMap 21 0; VFunc 19 true])",
                           "(VStruct 25 [VInt 2 1; VSlice 23 1 0 2; VMap 21 0; VFunc 19 true])"),
    "DE.alias-in-map": ("[(1, OArr [VInt 17 97; VInt 17 98; VInt 17 99]); (2, OMap [(VInt 17 107, VSlice 23 1 0 1)]); (3, OMap [(VInt 17 107, VSlice 23 1 0 3)])]",
                        "(VMap 21 2)", "(VMap 21 3)"),
    "DE.map-missing-key": ("[(1, OMap [(VInt 17 97, VInt 2 1); (VInt 17 98, VInt 2 0)]); (2, OMap [(VInt 17 97, VInt 2 1); (VInt 17 99, VInt 2 0)])]",
                           "(VMap 21 1)", "(VMap 21 2)"),
    "DE.ptr-same-target-value": ("[(1, OVal (VInt 2 3)); (2, OVal (VInt 2 3))]", "(VPtr 22 1)", "(VPtr 22 2)"),
    "DE.ptr-diff": ("[(1, OVal (VInt 2 3)); (2, OVal (VInt 2 4))]", "(VPtr 22 1)", "(VPtr 22 2)"),
    "DE.array-float-nan": ("[]", "(VArray 17 [%s])" % NAN, "(VArray 17 [%s])" % NAN),
    "DE.array": ("[]", "(VArray 17 [VInt 2 1; VInt 2 2; VInt 2 3])", "(VArray 17 [VInt 2 1; VInt 2 2; VInt 2 3])"),
    "DE.array-diff": ("[]", "(VArray 17 [VInt 2 1; VInt 2 2; VInt 2 3])", "(VArray 17 [VInt 2 1; VInt 2 2; VInt 2 4])"),
    "DE.iface-nil-vs-typed": ("[(1, OArr [VIface 20 None]); (2, OArr [VIface 20 (Some (VPtr 22 0))])]", "(VSlice 23 1 0 1)", "(VSlice 23 2 0 1)"),
    "DE.chan-same": ("[]", "(VInt 18 77)", "(VInt 18 77)"),
    "DE.chan-diff": ("[]", "(VInt 18 77)", "(VInt 18 78)"),
    "DE.empty-struct": ("[]", "(VStruct 25 [])", "(VStruct 25 [])"),
    "DE.struct-nil-func": ("[]", "(VStruct 25 [VInt 2 0; VSlice 23 0 0 0; VMap 21 0; VFunc 19 true])", "(VStruct 25 [VInt 2 0; VSlice 23 0 0 0; VMap 21 0; VFunc 19 true])"),
    "DE.struct-func": ("[]", "(VStruct 25 [VInt 2 0; VSlice 23 0 0 0; VMap 21 0; VFunc 19 false])", "(VStruct 25 [VInt 2 0; VSlice 23 0 0 0; VMap 21 0; VFunc 19 false])"),
    "DE.cyclic-same": ("[(1, OVal (VStruct 25 [VInt 2 5; VPtr 22 2])); (2, OVal (VStruct 25 [VInt 2 6; VPtr 22 1]))]", "(VPtr 22 1)", "(VPtr 22 1)"),
}


def int_table_cases(lines):
    """IC.<src>.<dst>|Convert and IS.<kind>|SetGet lines -> Coq cases ((input), observed)"""
    zl = lambda n: "(%d)%%Z" % n
    ic_terms, ic_raw, is_terms, is_raw = [], [], [], []
    for k, lv in lines.items():
        m = re.match(r"IC\.(\w+)\.(\w+)\|Convert$", k)
        if m and not lv.startswith("PANIC"):
            for item in lv.split(";"):
                mm = re.match(r"(-?\d+):(-?\d+),(-?\d+)$", item)
                if not mm:
                    continue
                x, ri, rd = (int(g) for g in mm.groups())
                for indir, r in (("true", ri), ("false", rd)):
                    ic_terms.append("((K%s, K%s, %s, %s), %s)" % (m.group(1), m.group(2), indir, zl(x), zl(r)))
                    ic_raw.append((k, x, indir, r))
        m = re.match(r"IS\.(\w+)\|SetGet$", k)
        if m and not lv.startswith("PANIC"):
            for item in lv.split(";"):
                mm = re.match(r"(-?\d+):(true|false),(-?\d+)$", item)
                if not mm:
                    continue
                is_terms.append("((K%s, %s), (%s, Some %s))" % (m.group(1), zl(int(mm.group(1))), mm.group(2), zl(int(mm.group(3)))))
                is_raw.append((k, item))
    return ic_terms, ic_raw, is_terms, is_raw


def int_table_compare(ck, hdr, ic_terms, ic_raw, is_terms, is_raw, who):
    zhdr = hdr + "Local Open Scope Z_scope.\n"
    if ic_terms:
        badc = ck.coq_mismatches(zhdr, ic_terms, "(fun c => match c with (s, d, i, x) => conv_read true s d i x end)", "Z.eqb",
                                 "c15_iconv_" + who, shard=500)
        for j in badc[:3]:
            ck.correspondence_broken("C15.Model/convert_int(%s)" % who,
                                     {"probe": ic_raw[j][0], "x": ic_raw[j][1], "indirect": ic_raw[j][2], "observed": ic_raw[j][3]})
    if is_terms:
        bads = ck.coq_mismatches(zhdr, is_terms, "(fun c => (overflow (fst c) (snd c), set_read (fst c) (snd c)))",
                                 "(prod_eqb Bool.eqb (option_eqb Z.eqb))", "c15_iset_" + who, shard=500)
        for j in bads[:3]:
            ck.correspondence_broken("C15.Model/set_get_overflow(%s)" % who, {"probe": is_raw[j][0], "item": is_raw[j][1]})


def run_e2e(ck, files, res):
    t0 = time.time()
    try:
        L = e2e.LLGo(ck)
        if not L.ok:
            res["err"] = "llgo could not be built: " + L.buildlog[-600:]
            return
        d = os.path.join(ck.work, "prog")
        e2e.write_module(d, files, gen.MOD)
        rc, out = L.build(d, os.path.join(d, "prog_llgo"), timeout=2400)
        res["t_build"] = round(time.time() - t0, 1)
        if rc != 0:
            res["err"] = "llgo build failed: " + out[-1500:]
            return
        rc1, so, se = L.run_bin(os.path.join(d, "prog_llgo"), timeout=600)
        res["llgo"] = (rc1, so, se)
        # small separate program: one generic type instantiated as Node[byte] and as Node[uint8]
        d2 = os.path.join(ck.work, "prog_alias")
        e2e.write_module(d2, {"main.go": open(os.path.join(H, "e2e_alias", "main.go.txt")).read()}, gen.MOD)
        rc, out = L.build(d2, os.path.join(d2, "prog_llgo"), timeout=900)
        a = {"llgo_build_rc": rc, "llgo_build_log": out[-1500:]}
        if rc == 0:
            a["llgo_run"] = L.run_bin(os.path.join(d2, "prog_llgo"), timeout=60)
        rcg, outg = e2e.go_build(d2, os.path.join(d2, "prog_go"))
        a["go_build_rc"] = rcg
        if rcg == 0:
            a["go_run"] = e2e.run_plain(os.path.join(d2, "prog_go"), timeout=60)
        res["alias"] = a
    except Exception as ex:  # noqa
        res["err"] = "e2e exception: %r" % (ex,)


def run(ck):
    ck.trusted = ["Coq 8.16.1 kernel (coqc, vm_compute)", "Go overlay harness props/C15/harness/abi_verif_test.go",
                  "generator props/C15/gen.py (type trees -> Go source and Coq terms; cross-checked: the model's Go string of every "
                  "tree is compared with reflect.Type.String of the reference toolchain on the generated source)",
                  "reference toolchain go1.24 (reflect, fmt) as oracle", "lib/e2e.py toolchain shims (LLVM 14, libuv/libunwind stubs)"]
    ck.assumptions = ["strings are byte lists; strconv.Quote is modelled for the tag alphabet used (printable ASCII, quote, backslash, tab, valid UTF-8)",
                      "DeepEqual model: interface slots are not tracked in the visited set; slice identity is (backing array, offset, length)",
                      "recursive declarations are cut (TCut) below the first expansion; a cut type is never a pointer type",
                      "types.TypeString fallback for struct/func literals as type arguments is not modelled (excluded from wf and from the model comparison)",
                      "the model is evaluated with fx = true (the repaired Str/TFlag); fx = false is kept only for the theorems about the earlier code"]
    ck.coq_build("C15")
    ck.coq_props("LLGoV.C15.Props", "theories/C15/Props.v")
    ck.phase("coq")

    nrand = {"quick": 60, "thorough": 400}[ck.tier]
    static = open(os.path.join(H, "e2e", "main_static.go.txt")).read()
    types, files, vals, rfs = gen.program(ck.seed, nrand, static)
    progdir = os.path.join(ck.work, "prog_src")
    e2e.write_module(progdir, files, gen.MOD)

    # (E) llgo build in the background (the long pole)
    eres = {}
    th = threading.Thread(target=run_e2e, args=(ck, files, eres))
    th.start()

    # reference toolchain: same program
    rc, out = e2e.go_build(progdir, os.path.join(progdir, "prog_go"))
    if rc != 0:
        ck.correspondence_broken("harness:go-build", out[-1500:])
        th.join()
        return ck.finish()
    rc, gout, gerr = e2e.run_plain(os.path.join(progdir, "prog_go"), timeout=300)
    G = load_lines(gout)
    if rc != 0 or not G:
        ck.correspondence_broken("harness:go-run", (gout[-500:], gerr[-500:]))
    ck.phase("go-oracle")

    # (S1) the real Str / realStr / TFlag / method-set order on the same source
    s1out = os.path.join(ck.work, "s1.jsonl")
    rc, log = ck.go_test_overlay("ssa/abi", {"zz_verif_test.go": os.path.join(H, "abi_verif_test.go")}, run="TestVerif$",
                                 env={"VERIF_OUT": s1out, "VERIF_PROG": progdir, "VERIF_SUBPATH": gen.PKGB_PATH,
                                      "VERIF_MAINPATH": gen.MOD})
    S = {}
    MT = []
    if rc != 0 or not os.path.exists(s1out):
        ck.correspondence_broken("harness:ssa/abi", log[-2500:])
    else:
        for line in open(s1out):
            r = json.loads(line)
            if r["kind"] == "ty":
                S[r["i"]] = r
            elif r["kind"] == "mt":
                MT.append(r)
            elif r["kind"] == "viol":
                ck.violation(r["key"], r["what"], r)
    # cyclic pointer declaration: TFlag must terminate
    rc, log = ck.go_test_overlay("ssa/abi", {"zz_verif_test.go": os.path.join(H, "abi_verif_test.go")}, run="TestVerifCyclic$",
                                 timeout=120)
    if rc != 0 and ("VERIF-CYCLIC-START" in log or "stack overflow" in log or "stack exceeds" in log):
        ck.violation("tflag-cyclic-pointer-declaration-does-not-terminate",
                     "Builder.TFlag does not terminate on `type N *N` (legal Go): " + ("stack overflow" if "stack" in log else "crash"),
                     {"source": "package p; type N *N; var v N", "log": log[-400:]})
    elif rc != 0:
        ck.correspondence_broken("harness:ssa/abi-cyclic", log[-800:])
    ck.phase("s1")

    # ---- model vs implementation (Coq) ----
    hdr = "From LLGoV Require Import C15.Model.\nLocal Open Scope N_scope.\n"
    feats = [gen.str_features(t) for t in types]
    terms = [gen.coq(t) for t in types]
    modelled = [i for i in range(len(types)) if "reflect-string-typearg-literal-fallback" not in feats[i] and i in S and "real" in S[i]]
    bad_str = set()
    if S:
        bad = ck.coq_mismatches(hdr, ["(%s, %s)" % (terms[i], cb(S[i]["real"])) for i in modelled], "(llgo_str true)", "str_eqb", "c15_str")
        bad_str = set(modelled[j] for j in bad)
        bad2 = ck.coq_mismatches(hdr, ["(%s, %s)" % (terms[i], cb(S[i]["Str"])) for i in modelled], "(llgo_Str true)", "str_eqb", "c15_Str")
        bad_str |= set(modelled[j] for j in bad2)
        badf = ck.coq_mismatches(hdr, ["(%s, %d%%N)" % (terms[i], S[i]["tflag"] & 22) for i in modelled], "(llgo_tflag true)", "N.eqb", "c15_tflag")
        for j in badf[:3]:
            i = modelled[j]
            ck.correspondence_broken("C15.Model/tflag", {"type": gen.gosrc(types[i]), "tflag": S[i]["tflag"]})
    # the Go side of the model against the reference toolchain (validates generator + go_type_string)
    gidx = [i for i in range(len(types)) if "T%d|String" % i in G and "reflect-string-typearg-literal-fallback" not in feats[i]]
    badg = ck.coq_mismatches(hdr, ["(%s, %s)" % (terms[i], cb(G["T%d|String" % i])) for i in gidx], "go_type_string", "str_eqb", "c15_go")
    for j in badg[:3]:
        i = gidx[j]
        ck.correspondence_broken("C15.Model/go_type_string", {"type": gen.gosrc(types[i]), "go": G["T%d|String" % i]})
    # method tables
    def mcoq(m):
        return "(Meth %s %s %s)" % (cb(m["name"]), "true" if m["exp"] else "false", cb(m["pkg"]))
    mt_terms = []
    for r in MT:
        ms = r["ms"]
        shuffled = list(ms)
        ck.rng.shuffle(shuffled)
        mt_terms.append("(%s, (%s, %d%%N))" % (coq_list([mcoq(m) for m in shuffled]), coq_list([mcoq(m) for m in ms]), r["xcount"]))
    if mt_terms:
        badm = ck.coq_mismatches(hdr, mt_terms, "(fun ms => (method_table ms, N.of_nat (xcount (method_table ms))))",
                                 "(prod_eqb (list_eqb meth_eqb) N.eqb)", "c15_mt")
        for j in badm[:3]:
            ck.correspondence_broken("C15.Model/method_table", MT[j])
    ck.phase("model")

    # ---- property oracle on the compiler's strings: real Str vs Go's reflect string ----
    classes = collections.Counter()
    nstr_diff = 0
    for i, t in enumerate(types):
        for f in feats[i] or ["plain"]:
            classes["type:" + f] += 1
        classes["kind:" + gen.underlying(t)[0]] += 1
        if i not in S or "T%d|String" % i not in G:
            continue
        real, want = S[i].get("real"), G["T%d|String" % i]
        if real is None:
            ck.violation("reflect-string-compiler-panic", "Builder.Str panics: " + S[i].get("panic", ""), {"type": gen.gosrc(t)})
            continue
        if real != want:
            nstr_diff += 1
            known, _ = classify_line("T%d|String" % i, real, want)
            if known is None and "reflect-string-typearg-literal-fallback" in feats[i]:
                known = ["reflect-string-typearg-literal-fallback"]
            if i in bad_str or known is None:
                ck.violation("reflect-string-differs-from-go",
                             "the type string the compiler stores differs from reflect.Type.String of Go and is not one of the recorded defects",
                             {"type": gen.gosrc(t), "llgo": real, "go": want, "model_mismatch": i in bad_str})
            else:
                for k in known:
                    ck.violation(k, "type string: llgo %r, go %r" % (real, want), {"type": gen.gosrc(t), "llgo": real, "go": want})
        elif i in bad_str:
            ck.correspondence_broken("C15.Model/llgo_str", {"type": gen.gosrc(t), "impl": real, "note": "implementation agrees with Go, model does not"})

    # the scalar model against the reference toolchain's table (all cases; runs while llgo still builds)
    n_go_ic = n_go_is = 0
    if ck.tier != "quick":      # quick: llgo's lines are compared with go's and with the model below
        g_ic, g_icr, g_is, g_isr = int_table_cases(G)
        int_table_compare(ck, hdr, g_ic, g_icr, g_is, g_isr, "go")
        n_go_ic, n_go_is = len(g_ic), len(g_is)
        ck.phase("scalar-model-vs-go")

    # ---- (E) end to end ----
    th.join()
    ck.phase("e2e-built")
    n_lines = n_diff = n_perm = 0
    if "err" in eres or "llgo" not in eres:
        ck.correspondence_broken("e2e", eres.get("err", "no result"))
    else:
        rc1, so, se = eres["llgo"]
        Lo = load_lines(so)
        if rc1 != 0:
            last = list(Lo.keys())[-1] if Lo else ""
            ck.violation("e2e-probe-program-crashed", "the probe program built by llgo exits with %s after %d of %d lines (last: %s)" % (rc1, len(Lo), len(G), last),
                         {"rc": rc1, "last": last, "stderr": se[-600:]})
        tyidx = {}
        for k in G:
            m = re.match(r"[TV](\d+)", k)
            if m:
                tyidx[k] = int(m.group(1))
        missing = [k for k in G if k not in Lo]
        missing = [k for k in missing if not (tyidx.get(k) is not None and tyidx[k] < len(types)
                                              and "named-func" in gen.value_features(types[tyidx[k]]))]
        if missing and rc1 == 0:
            ck.violation("e2e-missing-lines", "%d probe lines missing from llgo's output" % len(missing), {"first": missing[:5]})
        for k, gv in G.items():
            if k not in Lo:
                continue
            n_lines += 1
            lv = Lo[k]
            attr = k.split("|", 1)[1]
            fam = re.sub(r"\[.*?\]|\d+", "", attr)
            classes["probe:" + (k.split("|")[0].split(".")[0].rstrip("0123456789p") or "T") + ":" + fam[:18]] += 1
            if lv == gv:
                # tie between the compiler's string and what the program observes
                i = tyidx.get(k)
                if attr == "String" and k.startswith("T") and i in S and S[i].get("real") is not None and S[i]["real"] != lv:
                    ck.violation("reflect-string-e2e-differs-from-compiler", "emitted descriptor string differs from Builder.realStr",
                                 {"type": gen.gosrc(types[i]), "e2e": lv, "compiler": S[i]["real"]})
                continue
            n_diff += 1
            i = tyidx.get(k)
            t = types[i] if i is not None and i < len(types) else None
            key = classify_e2e(k, attr, fam, lv, gv, t)
            if key == "permitted":
                n_perm += 1
                continue
            for kk in key:
                ck.violation(kk, "%s: llgo %r, go %r" % (k, lv[:300], gv[:300]),
                             {"probe": k, "type": gen.gosrc(t) if t else None, "llgo": lv, "go": gv})
        # the byte / uint8 instantiation program
        al = eres.get("alias")
        if al:
            if al.get("go_build_rc") != 0 or al.get("go_run", (1,))[0] != 0:
                ck.correspondence_broken("harness:e2e_alias", al)
            elif al["llgo_build_rc"] != 0:
                log = al["llgo_build_log"]
                if "undefined reference" in log and "Node[" in log:
                    ck.violation("generic-instance-byte-uint8-spelling-link-failure",
                                 "a program that uses Node[byte] and Node[uint8] (one type) does not link under llgo: " +
                                 "; ".join(re.findall(r"undefined reference to `([^']+)'", log)[:3]),
                                 {"program": "props/C15/harness/e2e_alias/main.go.txt", "log": log[-600:]})
                else:
                    ck.violation("e2e-alias-program-build-failed", "llgo does not build the byte/uint8 instantiation program", {"log": log[-800:]})
            else:
                lr, gr = al["llgo_run"], al["go_run"]
                if lr[0] != gr[0] or (lr[1] + lr[2]).strip() != (gr[1] + gr[2]).strip():
                    ck.violation("e2e-alias-program-output-differs", "byte/uint8 instantiation program: llgo %r, go %r" % (lr, gr), {"llgo": lr, "go": gr})
        # DeepEqual: observed results of the llgo-built program vs the Coq model
        de_terms, de_names = [], []
        for name, (hp, a, b) in DE_MODEL.items():
            obs = Lo.get(name + "|DeepEqual")
            if obs not in ("true true", "false false", "true false", "false true"):
                continue
            o1, o2 = obs.split()
            de_terms.append("((%s, %s, %s), Some %s)" % (hp, a, b, o1))
            de_terms.append("((%s, %s, %s), Some %s)" % (hp, b, a, o2))
            de_names += [name, name + "(swapped)"]
        from concurrent.futures import ThreadPoolExecutor
        pool = ThreadPoolExecutor(4)          # the model evaluations below run side by side
        fut_deep = None
        if de_terms:
            fut_deep = pool.submit(ck.coq_mismatches, hdr + "Local Open Scope Z_scope.\nLocal Open Scope N_scope.\n", de_terms,
                                   "(fun x => deep_equal 30 (fst (fst x)) (snd (fst x)) (snd x))", "(option_eqb Bool.eqb)", "c15_deep")
            n_lines += len(de_terms)
        # FieldByName over the generated embedding graphs: llgo's observed results vs the BFS model and
        # vs the path rule
        fb_terms, fb_raw = [], []
        graphs = getattr(gen.program, "graphs", [])
        for k, (gname, g) in enumerate(graphs):
            gt = gen.fb_coq(g)
            for key, lv in Lo.items():
                m = re.match(r"FB\.%d\|FieldByName(Func)?\[(.+)\]$" % k, key)
                if not m or lv.startswith("PANIC"):
                    continue
                mm = re.match(r"(true|false) \[([\d ]*)\]", lv)
                if not mm:
                    continue
                codes = [gen.fb_name_code(k, n) for n in m.group(2).split("|")]
                obs = "(Some [%s])" % "; ".join(mm.group(2).split()) if mm.group(1) == "true" else "None"
                fb_terms.append("((%s, [%s]), %s)" % (gt, "; ".join(str(c) for c in codes), obs))
                fb_raw.append((gname, key, lv))
        ic_terms, ic_raw, is_terms, is_raw = int_table_cases(Lo)
        if ck.tier == "quick" and len(ic_terms) > 2500:       # every pair of kinds stays; thin out the values
            keep = sorted(ck.rng.sample(range(len(ic_terms)), 2500))
            ic_terms, ic_raw = [ic_terms[j] for j in keep], [ic_raw[j] for j in keep]
        fut_int = pool.submit(int_table_compare, ck, hdr, ic_terms, ic_raw, is_terms, is_raw, "llgo")
        if fb_terms:
            nhdr = hdr + "Definition res_eqb (a b : option (list N)) : bool := option_eqb (list_eqb N.eqb) a b.\n"
            fut1 = pool.submit(ck.coq_mismatches, nhdr, fb_terms, "(fun c => field_by_name_func true (fst c) 0 (fun n => mem_N n (snd c)))", "res_eqb", "c15_fbn_bfs")
            fut2 = pool.submit(ck.coq_mismatches, nhdr, fb_terms, "(fun c => go_field_by_name_func (fst c) 0 (fun n => mem_N n (snd c)))", "res_eqb", "c15_fbn_spec")
            badf1, badf2 = fut1.result(), fut2.result()
            for j in sorted(set(badf1) | set(badf2))[:4]:
                gname, key, lv = fb_raw[j]
                ck.violation("reflect-fieldbyname-differs-from-path-rule" if j in badf2 else "reflect-fieldbyname-differs-from-bfs-model",
                             "graph %s, %s: llgo reports %r; the %s says otherwise" % (gname, key, lv[:80], "Go rule over paths" if j in badf2 else "BFS model"),
                             {"graph": gname, "types": dict(graphs)[gname], "probe": key, "llgo": lv, "go": G.get(key)})
            n_lines += 2 * len(fb_terms)
            ck.cov["fieldbyname_model_cases"] = len(fb_terms)
            for gname, g in graphs:
                classes["fbgraph:" + re.sub(r"\d+$", "", gname)] += 1
        # integer Convert / Set / Get / Overflow tables: llgo's observed results vs the Coq model (submitted above)
        fut_int.result()
        if fut_deep is not None:
            for j in fut_deep.result()[:3]:
                ck.correspondence_broken("C15.Model/deep_equal", {"probe": de_names[j], "observed": Lo.get(de_names[j].split("(")[0] + "|DeepEqual")})
        pool.shutdown()
        n_lines += len(ic_terms) + len(is_terms)
        ck.cov["scalar_model_cases"] = {"convert_vs_llgo": len(ic_terms), "set_get_overflow_vs_llgo": len(is_terms),
                                        "convert_vs_go": n_go_ic, "set_get_overflow_vs_go": n_go_is}
    ck.cov["samples"] = [{"type": gen.gosrc(types[i]), "llgo": S.get(i, {}).get("real"), "go": G.get("T%d|String" % i)}
                         for i in (len(types) // 3, len(types) // 2, len(types) - 1)]
    ck.add_cov(evaluations=len(modelled) * 3 + len(gidx) + len(mt_terms) + n_lines,
               nontrivial=len(set(gen.gosrc(t) for t in types)) + len(mt_terms), classes=dict(classes))
    ck.cov["e2e"] = {"lines_compared": n_lines, "differing": n_diff, "permitted_two_word_func": n_perm,
                     "type_strings_differing_from_go": nstr_diff, "t_llgo_build_s": eres.get("t_build")}
    ck.cov["rule"] = ("types: fixed pool of declared types (methods on value/pointer receivers, embedding, tags, unexported and non-ASCII names, "
                      "generics, second package) + seeded random unnamed composites over them (depth<=3); every type is (a) type-checked and fed to the "
                      "real ssa/abi Str/realStr/TFlag/NewMethodSet (go test -overlay), (b) evaluated by the Coq model, (c) compiled by go and by llgo "
                      "into ONE probe program that walks the types/values with reflect and fmt (one tagged line per probe, each under recover); "
                      "lines are compared pairwise; distinct = distinct type expressions + method tables")
    return ck.finish()


def classify_e2e(k, attr, fam, lv, gv, t):
    """narrow key(s) for one differing probe line; 'permitted' for the documented two-word function value differences"""
    # documented: function values occupy two words -> Size/offsets of types that contain a function value
    if t is not None and gen.contains_func(t):
        if attr == "Size":
            return "permitted"
        if fam.startswith("Field") or fam.startswith("FieldByName"):
            a = re.sub(r" \d+ (\[[\d ]+\])", r" _ \1", lv)      # only the offset column may differ
            b = re.sub(r" \d+ (\[[\d ]+\])", r" _ \1", gv)
            if re.sub(r" \d+$", " _", a) == re.sub(r" \d+$", " _", b):
                return "permitted"
            known, _ = classify_line(k, re.sub(r" \d+$", " _", a), re.sub(r" \d+$", " _", b))
            if known:
                return known
    if attr == "PkgPath" and lv == gen.MOD and gv == "main":
        return ["reflect-pkgpath-main-is-module-path"]
    if attr == "PkgPath" and lv == "" and t is not None and t[0] == "named" and gen.underlying(t)[0] == "iface":
        return ["reflect-pkgpath-named-interface-empty"]
    if attr == "PkgPath" and lv == "" and gv == "unsafe":
        return ["reflect-pkgpath-unsafe-pointer-empty"]
    if attr == "TypeOf" and gv.endswith('|"unsafe"') and lv == gv[:-len('"unsafe"')] + '""':
        return ["reflect-pkgpath-unsafe-pointer-empty"]
    if k.startswith("CV."):
        m = re.match(r"(\S+) -> (\S+): ", gv)
        if m:
            src, dst = m.group(1), m.group(2)
            if src in ("string", "main.MyStr") and "slice-nil" in lv and "[0:]" in gv:
                return ["reflect-convert-empty-string-gives-nil-slice"]
    known, _ = classify_line(k, lv, gv)
    if known:
        return known
    if attr.startswith("Call") and lv == "PANIC bad type def":
        return ["reflect-call-zero-size-result-panics"]
    if k.startswith("FB.") and re.sub(r" \d+ value:", " _ value:", lv) == re.sub(r" \d+ value:", " _ value:", gv):
        return ["reflect-layout-struct-trailing-zero-size-field"]     # only the Offset column differs
    if t is not None:
        fs = gen.value_features(t)
        if "trailing-zero-size" in fs and re.match(r"(DeepEqual|dump|fmt|Sprint|setAll|Call|Field|Size|Zero|TypeOf)", attr):
            return ["reflect-layout-struct-trailing-zero-size-field"]
        if "named-func" in fs:
            return ["reflect-named-func-type-is-closure-struct"]
        if "typearg-literal" in fs and "[" in lv:
            return ["reflect-string-typearg-literal-fallback"]
        if "nonascii-method" in fs and re.match(r"(Method|MethodByName|Call|NumMethod)", attr):
            return ["reflect-method-table-nonascii-exported-after-unexported"]
        if "nonascii-field" in fs and re.match(r"(dump|Zero|Field|fmt|Call|Sprint|setAll)", attr):
            return ["reflect-field-nonascii-exported-treated-unexported"]
    tag = k.split("|")[0]
    grp = re.sub(r"\d+", "", tag.split(".")[0])
    return ["e2e-%s-%s" % (grp or "T", re.sub(r"[^A-Za-z%#+.-]", "", fam)[:24] or "line")]
