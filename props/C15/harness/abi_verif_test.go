package abi

// C15 harness (injected into /repo/ssa/abi with go test -overlay).
// Type-checks the generated probe program (sub package + types.go) with go/types and runs the
// real Builder.Str / realStr / TFlag and the method-set ordering used for the method tables
// on the type of every variable v<i>.

import (
	"encoding/json"
	"fmt"
	"go/ast"
	"go/parser"
	"go/token"
	"go/types"
	"os"
	"path/filepath"
	"testing"
)

type verifImporter map[string]*types.Package

func (m verifImporter) Import(path string) (*types.Package, error) {
	if path == "unsafe" {
		return types.Unsafe, nil
	}
	if p, ok := m[path]; ok {
		return p, nil
	}
	return nil, fmt.Errorf("no package %q", path)
}

func verifCheck(t *testing.T, fset *token.FileSet, path string, files []string, imp verifImporter) *types.Package {
	var fs []*ast.File
	for _, f := range files {
		af, err := parser.ParseFile(fset, f, nil, 0)
		if err != nil {
			t.Fatal(err)
		}
		fs = append(fs, af)
	}
	conf := types.Config{Importer: imp}
	pkg, err := conf.Check(path, fset, fs, nil)
	if err != nil {
		t.Fatal(err)
	}
	return pkg
}

type verifMeth struct {
	Name string `json:"name"`
	Exp  bool   `json:"exp"`
	Pkg  string `json:"pkg"`
}

func verifMethods(t types.Type) (ms []verifMeth, xcount int) {
	mset := types.NewMethodSet(t)
	for i := 0; i < mset.Len(); i++ {
		o := mset.At(i).Obj()
		m := verifMeth{Name: o.Name(), Exp: ast.IsExported(o.Name())}
		if o.Pkg() != nil {
			m.Pkg = o.Pkg().Path()
		}
		if m.Exp {
			xcount++
		}
		ms = append(ms, m)
	}
	return
}

func TestVerif(t *testing.T) {
	dir := os.Getenv("VERIF_PROG")
	out, err := os.Create(os.Getenv("VERIF_OUT"))
	if err != nil {
		t.Fatal(err)
	}
	defer out.Close()
	enc := json.NewEncoder(out)
	fset := token.NewFileSet()
	imp := verifImporter{}
	subPath := os.Getenv("VERIF_SUBPATH")
	sub := verifCheck(t, fset, subPath, []string{filepath.Join(dir, "sub", "inner", "pkgb.go")}, imp)
	imp[subPath] = sub
	mainPkg := verifCheck(t, fset, os.Getenv("VERIF_MAINPATH"), []string{filepath.Join(dir, "types.go")}, imp)
	b := New(8, types.SizesFor("gc", "amd64"))
	for i := 0; ; i++ {
		obj := mainPkg.Scope().Lookup(fmt.Sprintf("v%d", i))
		if obj == nil {
			break
		}
		typ := obj.Type()
		rec := map[string]any{"kind": "ty", "i": i, "src": types.TypeString(typ, nil)}
		func() {
			defer func() {
				if r := recover(); r != nil {
					rec["panic"] = fmt.Sprint(r)
				}
			}()
			rec["Str"] = b.Str(typ)
			rec["real"] = b.realStr(typ)
			rec["tflag"] = int(b.TFlag(typ))
			rec["gokind"] = int(b.Kind(typ))
		}()
		enc.Encode(rec)
		// method tables as abiUncommonMethodSet / abiUncommonType / abiUncommonMethods build them:
		// for T and *T of every named non-interface type, and for unnamed struct / pointer types
		for _, mt := range []types.Type{typ, types.NewPointer(typ)} {
			if _, isIface := mt.Underlying().(*types.Interface); isIface {
				continue
			}
			ms, xc := verifMethods(mt)
			if len(ms) == 0 {
				continue
			}
			_, isPtr := mt.(*types.Pointer)
			enc.Encode(map[string]any{"kind": "mt", "i": i, "ptr": isPtr, "ms": ms, "xcount": xc})
			// property oracle: reflect exposes the first Xcount entries as THE exported methods
			for k := 0; k < xc; k++ {
				if !ms[k].Exp {
					key := "reflect-method-table-exported-not-prefix"
					nonASCII := false
					for _, m := range ms {
						if m.Exp && m.Name[0] >= 0x80 {
							nonASCII = true
						}
					}
					if nonASCII {
						key = "reflect-method-table-nonascii-exported-after-unexported"
					}
					enc.Encode(map[string]any{"kind": "viol", "key": key,
						"what": "method table of " + types.TypeString(mt, nil) + ": entry " + fmt.Sprint(k) + " (" + ms[k].Pkg + "." + ms[k].Name + ") among the first Xcount=" + fmt.Sprint(xc) + " entries is not exported",
						"type": types.TypeString(mt, nil), "methods": ms})
					break
				}
			}
		}
	}
}

// TFlag on a cyclic pointer declaration (type N *N is legal Go); run in its own process
func TestVerifCyclic(t *testing.T) {
	fset := token.NewFileSet()
	f, err := parser.ParseFile(fset, "cyc.go", "package p\ntype N *N\nvar v N\n", 0)
	if err != nil {
		t.Fatal(err)
	}
	pkg, err := (&types.Config{}).Check("p", fset, []*ast.File{f}, nil)
	if err != nil {
		t.Fatal(err)
	}
	b := New(8, types.SizesFor("gc", "amd64"))
	typ := pkg.Scope().Lookup("v").Type()
	fmt.Println("VERIF-CYCLIC-START")
	fl := b.TFlag(typ)
	fmt.Println("VERIF-CYCLIC-DONE", fl, b.realStr(typ))
}
