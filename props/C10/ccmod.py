"""Scratch Go module (vehicle S2) shared by C10 and C11: llgo's own z_chan.go /
sema_llgo.go, copied from the working tree at check time, compiled by the ordinary
Go compiler against instrumented stand-ins for pthread/sync (and sync/atomic) that
yield to the harness scheduler props/C10/harness/vsched."""
import os, re, shutil
import vlib

H10 = os.path.join(os.path.dirname(os.path.abspath(__file__)), "harness")
MOD = "github.com/goplus/llgo/runtime/xverif/cc"

REWRITE = {
    '"github.com/goplus/llgo/runtime/internal/clite"': '"%s/clite"' % MOD,
    '"github.com/goplus/llgo/runtime/internal/clite/pthread/sync"': '"%s/psync"' % MOD,
    '"github.com/goplus/llgo/runtime/internal/lib/sync/atomic"': '"%s/patomic"' % MOD,
}


def copy_source(rel, dst, pkg, drop_linkname=False):
    """copy one source file of the working tree; only the package clause and the
    import paths of the stand-ins are rewritten (and go:linkname directives dropped
    where the plain Go linker would see a duplicate definition)"""
    p = os.path.join(vlib.REPO, rel)
    s = open(p).read()
    s, n = re.subn(r"(?m)^package \w+\s*$", "package " + pkg, s, count=1)
    if n != 1:
        raise RuntimeError("no package clause in " + rel)
    for a, b in REWRITE.items():
        s = s.replace(a, b)
    if drop_linkname:
        s = re.sub(r"(?m)^//go:linkname .*$", "//", s)
    open(dst, "w").write(s)


def make_module(ck, name="ccmod"):
    d = os.path.join(ck.work, name)
    if os.path.isdir(d):
        shutil.rmtree(d)
    for sub in ("vsched", "psync", "clite"):
        os.makedirs(os.path.join(d, sub))
        for f in os.listdir(os.path.join(H10, sub)):
            shutil.copy(os.path.join(H10, sub, f), os.path.join(d, sub, f))
    rrt = os.path.join(vlib.REPO, "runtime")
    open(os.path.join(d, "go.mod"), "w").write(
        "module %s\n\ngo 1.23\n\nrequire github.com/goplus/llgo/runtime v0.0.0\n\n"
        "replace github.com/goplus/llgo/runtime => %s\n" % (MOD, rrt))
    for cand in (os.path.join(rrt, "go.sum"), os.path.join(vlib.REPO, "go.sum")):
        if os.path.exists(cand):
            shutil.copy(cand, os.path.join(d, "go.sum"))
            break
    return d


def add_pkg(d, pkg, harness_dir, sources, drop_linkname=False):
    """package <pkg> = copied sources + every file of harness_dir"""
    pd = os.path.join(d, pkg)
    os.makedirs(pd, exist_ok=True)
    for rel in sources:
        copy_source(rel, os.path.join(pd, os.path.basename(rel)), pkg, drop_linkname)
    for f in os.listdir(harness_dir):
        if f.endswith(".go"):
            shutil.copy(os.path.join(harness_dir, f), os.path.join(pd, "zz_" + f))
    return pd


def go_test(ck, d, pkg, env, timeout=1500):
    e = vlib.goenv(env)
    e.setdefault("VERIF_SEED", str(ck.seed))
    e.setdefault("VERIF_TIER", ck.tier)
    return vlib.sh(["go", "test", "-vet=off", "-count=1", "-run", "TestVerif", "-timeout", "%ds" % timeout, "./" + pkg],
                   cwd=d, env=e, timeout=timeout + 60)
