// Stand-in for github.com/goplus/llgo/runtime/internal/clite/pthread/sync: the
// same method set on Mutex / Cond / Once as far as the anchored runtime files use
// it, implemented on the harness scheduler (vsched).  Not part of the repository.
package sync

import "github.com/goplus/llgo/runtime/xverif/cc/vsched"

type Int = int32

type MutexAttr struct{}
type CondAttr struct{}

type Mutex struct{ M vsched.Mutex }

func (m *Mutex) Init(attr *MutexAttr) Int { m.M = vsched.Mutex{}; return 0 }
func (m *Mutex) Destroy()                 {}
func (m *Mutex) Lock()                    { m.M.Lock() }
func (m *Mutex) Unlock()                  { m.M.Unlock() }
func (m *Mutex) TryLock() Int {
	if m.M.TryLock() {
		return 0
	}
	return 16 // EBUSY
}

type Cond struct{ C vsched.Cond }

func (c *Cond) Init(attr *CondAttr) Int { c.C = vsched.Cond{}; return 0 }
func (c *Cond) Destroy()                {}
func (c *Cond) Signal() Int             { c.C.Signal(); return 0 }
func (c *Cond) Broadcast() Int          { c.C.Broadcast(); return 0 }
func (c *Cond) Wait(m *Mutex) Int       { c.C.Wait(&m.M); return 0 }

// Once: pthread_once.  The anchored code uses it only for one-time map set-up.
type Once struct{ done bool }

func (o *Once) Do(f func()) Int {
	if !o.done {
		o.done = true
		f()
	}
	return 0
}
