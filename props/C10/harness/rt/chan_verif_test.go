// C10 harness: executes llgo's own z_chan.go (copied from the working tree, compiled
// by the ordinary Go compiler against the instrumented pthread/sync stand-in) under
// explicit schedules.  One record per executed schedule goes to $VERIF_OUT; the
// property oracle (linearizability against Go's channel semantics, deadlock
// legitimacy) is evaluated here on the real code.  Not part of the repository.
package rt

import (
	"encoding/json"
	"fmt"
	"math/rand"
	"os"
	"strconv"
	"strings"
	"testing"
	"unsafe"

	"github.com/goplus/llgo/runtime/xverif/cc/vsched"
)

type Op struct {
	K byte  // S send, R recv, s try-send, r try-recv, C close
	V int64 // value sent
}

type Config struct {
	Cap   int
	Progs [][]Op
}

type opRec struct {
	th, idx  int
	k        byte
	val      int64
	inv, ret int // logical times; ret < 0 while pending
	ok, ok2  bool
	slot     *int64
	panicked string
	pre      []int // per thread: number of its operations returned when this one was invoked
}

type run struct {
	cfg     Config
	sched   []int
	masks   [][2]uint64 // (enabled, parked) after step i; masks[0] = before the first step
	ops     [][]*opRec
	end     string // done | deadlock | pruned | cut
	fin     [5]int64
	faults  []string
	spur    int
	ch      *Chan
	s       *vsched.Sched
	stepNo  int
	counts  []int
	keyLast string
}

func start(cfg Config) *run {
	r := &run{cfg: cfg}
	r.s = vsched.New()
	r.ch = NewChan(8, cfg.Cap)
	r.ops = make([][]*opRec, len(cfg.Progs))
	r.counts = make([]int, len(cfg.Progs))
	for ti := range cfg.Progs {
		ti := ti
		r.s.Go(func() {
			for i, op := range cfg.Progs[ti] {
				rec := &opRec{th: ti, idx: i, k: op.K, val: op.V, inv: 2*r.stepNo + 1, ret: -1, slot: new(int64)}
				rec.pre = append([]int(nil), r.counts...)
				r.ops[ti] = append(r.ops[ti], rec)
				r.call(rec)
				rec.ret = 2 * r.stepNo
				r.counts[ti]++
			}
		})
	}
	// every thread runs up to the first Lock of its first operation
	for ti := range cfg.Progs {
		r.s.Step(ti, 0)
	}
	r.s.Steps = 0
	r.masks = append(r.masks, [2]uint64{r.s.EnabledMask(), r.s.ParkedMask()})
	return r
}

func (r *run) call(rec *opRec) {
	defer func() {
		if e := recover(); e != nil {
			rec.panicked = fmt.Sprint(e)
		}
	}()
	switch rec.k {
	case 'S':
		v := new(int64)
		*v = rec.val
		rec.ok = ChanSend(r.ch, unsafe.Pointer(v), 8)
	case 's':
		v := new(int64)
		*v = rec.val
		rec.ok = ChanTrySend(r.ch, unsafe.Pointer(v), 8)
	case 'R':
		rec.ok = ChanRecv(r.ch, unsafe.Pointer(rec.slot), 8)
	case 'r':
		rec.ok, rec.ok2 = ChanTryRecv(r.ch, unsafe.Pointer(rec.slot), 8)
	case 'C':
		ChanClose(r.ch)
	}
}

func (r *run) step(tid int) bool {
	r.stepNo++
	if r.s.Threads[tid].Kind == vsched.KParked {
		r.spur++
	}
	if !r.s.Step(tid, 0) {
		r.stepNo--
		return false
	}
	r.sched = append(r.sched, tid)
	r.masks = append(r.masks, [2]uint64{r.s.EnabledMask(), r.s.ParkedMask()})
	return true
}

func (r *run) finish(end string) {
	r.end = end
	if end == "" {
		if r.s.AllDone() {
			r.end = "done"
		} else {
			r.end = "deadlock"
		}
	}
	c := r.ch
	cl := int64(0)
	if c.close {
		cl = 1
	}
	r.fin = [5]int64{int64(c.getp), int64(c.len), int64(c.sends), int64(c.selsends), cl}
	r.faults = r.s.Faults
	r.s.Kill()
}

// keyNoTimes identifies the state of the real code for pruning: channel fields, buffer,
// and per thread: yield kind, source line, current operation, slot, results, and the
// precedence vectors of its operations (so that equal keys have equal histories
// as far as linearizability can tell).
func (r *run) keyNoTimes() string {
	var b strings.Builder
	c := r.ch
	fmt.Fprintf(&b, "%d,%d,%d,%d,%v,%d|", c.getp, c.len, c.sends, c.selsends, c.close, r.spur)
	if c.cap > 0 {
		for i := 0; i < c.cap; i++ {
			fmt.Fprintf(&b, "%d,", *(*int64)(unsafe.Add(c.data, i*8)))
		}
	} else {
		who := -1
		for ti, os := range r.ops {
			if n := len(os); n > 0 && unsafe.Pointer(os[n-1].slot) == c.data {
				who = ti
			}
		}
		if c.data != nil && who < 0 {
			who = -2
		}
		fmt.Fprintf(&b, "d%d", who)
	}
	for ti, t := range r.s.Threads {
		fmt.Fprintf(&b, "|%d:%d:%d:", ti, t.Kind, t.Site)
		for _, o := range r.ops[ti] {
			fmt.Fprintf(&b, "%c%d,%v,%v,%v,%s,%v;", o.k, *o.slot, o.ok, o.ok2, o.ret >= 0, o.panicked, o.pre)
		}
	}
	return b.String()
}

// ---------------------------------------------------------------- output

var out *json.Encoder
var nRuns, nViol int
var classes = map[string]int{}

func resCode(o *opRec) []int64 {
	b := func(x bool) int64 {
		if x {
			return 1
		}
		return 0
	}
	if o.panicked != "" { // send on / close of a closed channel
		return []int64{5, 0, 0, 0}
	}
	switch o.k {
	case 'S':
		return []int64{0, b(o.ok), 0, 0}
	case 'R':
		return []int64{1, b(o.ok), 0, *o.slot}
	case 's':
		return []int64{2, b(o.ok), 0, 0}
	case 'r':
		return []int64{3, b(o.ok), b(o.ok2), *o.slot}
	}
	return []int64{4, 0, 0, 0}
}

func (r *run) emit() {
	nRuns++
	progs := make([][][2]int64, len(r.cfg.Progs))
	for i, p := range r.cfg.Progs {
		progs[i] = [][2]int64{}
		for _, o := range p {
			progs[i] = append(progs[i], [2]int64{int64(strings.IndexByte("SRsrC", o.K)), o.V})
		}
	}
	res := make([][][]int64, len(r.ops))
	slots := make([]int64, len(r.ops))
	for i, os := range r.ops {
		res[i] = [][]int64{}
		for _, o := range os {
			if o.ret >= 0 {
				res[i] = append(res[i], resCode(o))
			} else {
				slots[i] = *o.slot
			}
		}
	}
	classes[fmt.Sprintf("cap%d/threads%d/%s", r.cfg.Cap, len(r.cfg.Progs), r.end)]++
	out.Encode(map[string]any{"kind": "run", "cap": r.cfg.Cap, "progs": progs, "sched": r.sched,
		"masks": r.masks, "res": res, "pslots": slots, "fin": r.fin, "end": r.end, "faults": r.faults})
}

func viol(key, what string, r *run) {
	nViol++
	out.Encode(map[string]any{"kind": "viol", "key": key, "what": what, "cap": r.cfg.Cap,
		"progs": progString(r.cfg), "sched": r.sched, "end": r.end, "history": r.history()})
}

func progString(c Config) string {
	var b strings.Builder
	for i, p := range c.Progs {
		if i > 0 {
			b.WriteString(" || ")
		}
		for j, o := range p {
			if j > 0 {
				b.WriteString("; ")
			}
			switch o.K {
			case 'S':
				fmt.Fprintf(&b, "ch<-%d", o.V)
			case 's':
				fmt.Fprintf(&b, "trysend(%d)", o.V)
			case 'R':
				b.WriteString("<-ch")
			case 'r':
				b.WriteString("tryrecv")
			case 'C':
				b.WriteString("close(ch)")
			}
		}
	}
	return b.String()
}

func (r *run) history() []string {
	var h []string
	for ti, os := range r.ops {
		for _, o := range os {
			s := fmt.Sprintf("t%d.%d %c", ti, o.idx, o.k)
			if o.k == 'S' || o.k == 's' {
				s += strconv.FormatInt(o.val, 10)
			}
			if o.ret < 0 {
				s += fmt.Sprintf(" invoked@%d PENDING slot=%d", o.inv, *o.slot)
			} else {
				s += fmt.Sprintf(" [%d,%d] ok=%v ok2=%v slot=%d %s", o.inv, o.ret, o.ok, o.ok2, *o.slot, o.panicked)
			}
			h = append(h, s)
		}
	}
	return h
}

// ---------------------------------------------------------------- oracle

// hop is one operation of a history as the specification sees it.
type hop struct {
	k        byte
	val      int64
	inv, ret int
	pending  bool
	ok, ok2  bool
	got      int64
	panicked bool
}

const inf = 1 << 30

type lin struct {
	cap      int
	ops      []hop
	deadlock bool
	bad      map[string]bool
}

// linearizable: is there a total order of the completed operations, consistent with
// real-time precedence, that Go's channel semantics accepts with these results, and
// (at a deadlock) after which every pending operation is really blocked?
func (l *lin) search(mask uint32, q []int64, closed bool) bool {
	nDone := 0
	minRet := inf
	for i, o := range l.ops {
		if o.pending {
			continue
		}
		if mask&(1<<uint(i)) != 0 {
			nDone++
			continue
		}
		if o.ret < minRet {
			minRet = o.ret
		}
	}
	nComplete := 0
	for _, o := range l.ops {
		if !o.pending {
			nComplete++
		}
	}
	if nDone == nComplete {
		return l.final(q, closed)
	}
	k := fmt.Sprint(mask, q, closed)
	if l.bad[k] {
		return false
	}
	cand := func(i int) bool {
		o := l.ops[i]
		return !o.pending && mask&(1<<uint(i)) == 0 && o.inv < minRet
	}
	for i := range l.ops {
		if !cand(i) {
			continue
		}
		o := l.ops[i]
		m1 := mask | 1<<uint(i)
		switch o.k {
		case 'C':
			// a normal return closes an open channel; a panic needs a closed one
			if o.panicked == closed && l.search(m1, q, true) {
				return true
			}
		case 'S', 's':
			if !o.ok {
				// panic (or, for ChanSend, a false result): the channel is closed.
				// try-send returning false: open channel, buffered needs a full
				// buffer, unbuffered may always find no receiver
				okHere := closed
				if o.k == 's' && !o.panicked {
					okHere = !closed && (l.cap == 0 || len(q) == l.cap)
				}
				if okHere && l.search(m1, q, closed) {
					return true
				}
				continue
			}
			if closed {
				continue
			}
			if l.cap > 0 {
				if len(q) < l.cap {
					if l.search(m1, append(append([]int64{}, q...), o.val), closed) {
						return true
					}
				}
				continue
			}
			// rendezvous with a receive that got this value
			for j := range l.ops {
				p := l.ops[j]
				if cand(j) && (p.k == 'R' || p.k == 'r') && p.ok && p.got == o.val {
					if l.search(m1|1<<uint(j), q, closed) {
						return true
					}
				}
			}
		case 'R', 'r':
			switch {
			case o.ok: // received a value
				if o.k == 'r' && !o.ok2 {
					continue
				}
				if l.cap > 0 && len(q) > 0 && q[0] == o.got {
					if l.search(m1, q[1:], closed) {
						return true
					}
				}
				// unbuffered: taken together with its send (above)
			case o.k == 'R' || o.ok2: // zero value, ok = false: closed and drained
				if closed && len(q) == 0 && o.got == 0 {
					if l.search(m1, q, closed) {
						return true
					}
				}
			default: // try-receive found nothing
				if !closed && len(q) == 0 {
					if l.search(m1, q, closed) {
						return true
					}
				}
			}
		}
	}
	l.bad[k] = true
	return false
}

func (l *lin) final(q []int64, closed bool) bool {
	if !l.deadlock {
		return true
	}
	pendS, pendR := 0, 0
	for _, o := range l.ops {
		if !o.pending {
			continue
		}
		switch o.k {
		case 'S':
			pendS++
			if closed || (l.cap > 0 && len(q) < l.cap) {
				return false
			}
		case 'R':
			pendR++
			if closed || len(q) > 0 {
				return false
			}
		default:
			return false // try-operations and close never block
		}
	}
	return !(pendS > 0 && pendR > 0)
}

func (r *run) hops() []hop {
	var hs []hop
	for _, os := range r.ops {
		for _, o := range os {
			h := hop{k: o.k, val: o.val, inv: o.inv, ret: o.ret, ok: o.ok && o.panicked == "", ok2: o.ok2, got: *o.slot, panicked: o.panicked != ""}
			if o.ret < 0 {
				h.pending, h.ret = true, inf
			}
			hs = append(hs, h)
		}
	}
	return hs
}

func check(cap int, hs []hop, deadlock bool) bool {
	l := &lin{cap: cap, ops: hs, deadlock: deadlock, bad: map[string]bool{}}
	return l.search(0, nil, false)
}

// oracle evaluates the property on one finished execution of the real code.
func (r *run) oracle() {
	if r.end != "done" && r.end != "deadlock" {
		return
	}
	for _, f := range r.faults {
		viol("sync-misuse-"+f, "the code under test misused a mutex/condition variable", r)
	}
	dead := r.end == "deadlock"
	hs := r.hops()
	end := 2*r.stepNo + 2
	// failures Go reports by panicking (finding F5): flagged whenever seen
	nClose := 0
	for _, os := range r.ops {
		for _, o := range os {
			if o.ret < 0 || o.panicked != "" {
				continue
			}
			if o.k == 'S' && !o.ok {
				viol("send-on-closed-returns-false-no-panic", "ChanSend on a closed channel returned false instead of panicking", r)
			}
			if o.k == 's' && !o.ok && r.ch.close && closedBeforeInvoke(r, o) {
				viol("trysend-on-closed-returns-false-no-panic", "ChanTrySend (select-send with default) on a closed channel returned false instead of panicking", r)
			}
			if o.k == 'C' {
				nClose++
			}
		}
	}
	if nClose > 1 {
		viol("close-of-closed-no-panic", "a second ChanClose returned normally instead of panicking", r)
	}
	if check(r.cfg.Cap, hs, dead) {
		return
	}
	// classify: apply the repairs that correspond to the recorded defects
	keys := map[string]string{}
	rep := append([]hop(nil), hs...)
	closed := r.ch.close
	for i := range rep {
		o := &rep[i]
		switch {
		case r.cfg.Cap == 0 && (o.k == 'R' || o.k == 'r') && !o.pending && !o.ok && o.got != 0:
			// value was handed over, then close won the race for the lock (F19)
			o.ok, o.ok2 = true, true
			keys["unbuffered-recv-delivered-value-reported-closed"] = "unbuffered receive returned ok=false although a value had been delivered into its buffer (close ran before the receiver re-locked)"
		case r.cfg.Cap == 0 && o.k == 'R' && o.pending && dead && o.got != 0:
			// value was handed over but the receiver never returns (F4)
			o.pending, o.ok, o.ret = false, true, end
			keys["unbuffered-receiver-blocked-after-delivery"] = "unbuffered channel: a receiver whose value has been delivered stays blocked because a second receiver re-armed the hand-off flag"
		case r.cfg.Cap == 0 && o.k == 'r' && o.pending && dead && o.got != 0:
			// the same for the non-blocking receive (select with default): it blocks for ever
			o.pending, o.ok, o.ok2, o.ret = false, true, true, end
			keys["unbuffered-tryrecv-blocked-after-delivery"] = "unbuffered channel: ChanTryRecv took a value from a blocked sender and then stays blocked because another receiver re-armed the hand-off flag"
		case o.k == 'S' && o.pending && dead && closed:
			// blocked sender does not notice close (F4); Go would panic
			o.pending, o.ok, o.ret = false, false, end
			if r.cfg.Cap > 0 {
				keys["buffered-sender-blocked-on-full-misses-close"] = "sender blocked on a full buffer stays blocked after close (Go: panic)"
			} else {
				keys["generic"] = ""
			}
		}
	}
	if _, g := keys["generic"]; !g && len(keys) > 0 && check(r.cfg.Cap, rep, dead) {
		for k, w := range keys {
			viol(k, w, r)
		}
		return
	}
	viol("chan-history-not-linearizable", "the observed results cannot be explained by Go's channel semantics", r)
}

// closedBeforeInvoke: some ChanClose returned before o was invoked
func closedBeforeInvoke(r *run, o *opRec) bool {
	for _, os := range r.ops {
		for _, c := range os {
			if c.k == 'C' && c.ret >= 0 && c.ret < o.inv {
				return true
			}
		}
	}
	return false
}

// ---------------------------------------------------------------- exploration

type explorer struct {
	cfg     Config
	visited map[string]bool
	maxSpur int
	maxRuns int
	runs    int
	stack   [][]int
}

func (e *explorer) alts(r *run) []int {
	var a []int
	en, pk := r.s.EnabledMask(), r.s.ParkedMask()
	for i := range r.cfg.Progs {
		if en&(1<<uint(i)) != 0 {
			a = append(a, i)
		}
	}
	if r.spur < e.maxSpur {
		for i := range r.cfg.Progs {
			if pk&(1<<uint(i)) != 0 {
				a = append(a, i)
			}
		}
	}
	return a
}

func (e *explorer) dfs() {
	e.visited = map[string]bool{}
	e.stack = [][]int{{}}
	for len(e.stack) > 0 && (e.maxRuns == 0 || e.runs < e.maxRuns) {
		p := e.stack[len(e.stack)-1]
		e.stack = e.stack[:len(e.stack)-1]
		r := start(e.cfg)
		for _, t := range p {
			if !r.step(t) {
				panic(fmt.Sprintf("replay diverged: cfg %v prefix %v", progString(e.cfg), p))
			}
		}
		end := ""
		for {
			k := r.keyNoTimes()
			if e.visited[k] {
				end = "pruned"
				break
			}
			e.visited[k] = true
			a := e.alts(r)
			if r.s.EnabledMask() == 0 {
				// terminal for the oracle; spurious wake-ups may still continue from here
				for _, t := range a {
					e.stack = append(e.stack, append(append([]int{}, r.sched...), t))
				}
				break
			}
			for _, t := range a[1:] {
				e.stack = append(e.stack, append(append([]int{}, r.sched...), t))
			}
			r.step(a[0])
			if len(r.sched) > 200 {
				end = "cut"
				break
			}
		}
		r.finish(end)
		r.emit()
		r.oracle()
		e.runs++
	}
}

func randomRun(cfg Config, rng *rand.Rand, maxSpur int) *run {
	r := start(cfg)
	end := ""
	for {
		en, pk := r.s.EnabledMask(), r.s.ParkedMask()
		if en == 0 {
			break
		}
		var a []int
		for i := range cfg.Progs {
			if en&(1<<uint(i)) != 0 {
				a = append(a, i)
			}
		}
		t := a[rng.Intn(len(a))]
		if pk != 0 && r.spur < maxSpur && rng.Intn(6) == 0 {
			var b []int
			for i := range cfg.Progs {
				if pk&(1<<uint(i)) != 0 {
					b = append(b, i)
				}
			}
			t = b[rng.Intn(len(b))]
		}
		r.step(t)
		if len(r.sched) > 300 {
			end = "cut"
			break
		}
	}
	r.finish(end)
	return r
}

func randomConfig(rng *rand.Rand) Config {
	cfg := Config{Cap: rng.Intn(3)}
	nt := 2 + rng.Intn(3)
	maxOps := 3
	if nt == 4 {
		maxOps = 2
	}
	for t := 0; t < nt; t++ {
		var p []Op
		n := 1 + rng.Intn(maxOps)
		for i := 0; i < n; i++ {
			v := int64(10*(t+1) + i + 1)
			switch x := rng.Intn(20); {
			case x < 7:
				p = append(p, Op{'S', v})
			case x < 14:
				p = append(p, Op{'R', 0})
			case x < 16:
				p = append(p, Op{'s', v})
			case x < 18:
				p = append(p, Op{'r', 0})
			default:
				p = append(p, Op{'C', 0})
			}
		}
		cfg.Progs = append(cfg.Progs, p)
	}
	return cfg
}

// all programs of exactly n operations over the alphabet, values filled in later
func progsOf(n int, alpha string) [][]byte {
	if n == 0 {
		return [][]byte{{}}
	}
	var res [][]byte
	for _, p := range progsOf(n-1, alpha) {
		for i := 0; i < len(alpha); i++ {
			res = append(res, append(append([]byte{}, p...), alpha[i]))
		}
	}
	return res
}

func mkConfig(cap int, ps [][]byte) Config {
	cfg := Config{Cap: cap}
	for t, p := range ps {
		var q []Op
		for i, k := range p {
			q = append(q, Op{k, int64(10*(t+1) + i + 1)})
		}
		cfg.Progs = append(cfg.Progs, q)
	}
	return cfg
}

// systematic configurations: multisets of thread programs (threads are symmetric)
func systematic(nThreads, maxOps int, alpha string, f func(Config)) {
	var all [][]byte
	for n := 1; n <= maxOps; n++ {
		all = append(all, progsOf(n, alpha)...)
	}
	var rec func(from int, cur [][]byte)
	rec = func(from int, cur [][]byte) {
		if len(cur) == nThreads {
			hasS, hasR := false, false
			for _, p := range cur {
				for _, k := range p {
					hasS = hasS || k == 'S' || k == 's'
					hasR = hasR || k == 'R' || k == 'r'
				}
			}
			if hasS && hasR { // both directions present
				for cap := 0; cap <= 2; cap++ {
					f(mkConfig(cap, cur))
				}
			}
			return
		}
		for i := from; i < len(all); i++ {
			rec(i, append(append([][]byte{}, cur...), all[i]))
		}
	}
	rec(0, nil)
}

type replayIn struct {
	Name  string
	Cap   int
	Progs [][][2]int64
	Sched []int
}

func TestVerif(t *testing.T) {
	f, err := os.Create(os.Getenv("VERIF_OUT"))
	if err != nil {
		t.Fatal(err)
	}
	defer f.Close()
	out = json.NewEncoder(f)
	seed, _ := strconv.ParseInt(os.Getenv("VERIF_SEED"), 10, 64)
	rng := rand.New(rand.NewSource(seed*7919 + 10))
	tier := os.Getenv("VERIF_TIER")
	nRandom, _ := strconv.Atoi(os.Getenv("VERIF_N"))

	// 1. replay of the witness schedules of the *_refuted theorems
	if p := os.Getenv("VERIF_IN"); p != "" {
		var ins []replayIn
		b, _ := os.ReadFile(p)
		if err := json.Unmarshal(b, &ins); err != nil {
			t.Fatal(err)
		}
		for _, in := range ins {
			cfg := Config{Cap: in.Cap}
			for _, p := range in.Progs {
				var q []Op
				for _, o := range p {
					q = append(q, Op{"SRsrC"[o[0]], o[1]})
				}
				cfg.Progs = append(cfg.Progs, q)
			}
			r := start(cfg)
			okAll := true
			for _, tid := range in.Sched {
				if !r.step(tid) {
					okAll = false
					break
				}
			}
			end := ""
			if r.s.EnabledMask() != 0 {
				end = "cut"
			}
			r.finish(end)
			r.emit()
			nv := nViol
			r.oracle()
			out.Encode(map[string]any{"kind": "witness", "name": in.Name, "replayed": okAll, "end": r.end,
				"flagged": nViol > nv, "history": r.history()})
		}
	}

	// 2. systematic exploration (DFS over the real code with state pruning)
	budget := 0
	truncated := 0
	explore := func(cfg Config, spur, maxRuns int) {
		if budget > 150000 { // global bound on the number of executed schedules
			truncated++
			return
		}
		e := &explorer{cfg: cfg, maxSpur: spur, maxRuns: maxRuns}
		e.dfs()
		budget += e.runs
		if len(e.stack) > 0 {
			truncated++
		}
	}
	if tier == "thorough" {
		systematic(2, 2, "SRsrC", func(c Config) { explore(c, 1, 3000) })
		systematic(3, 1, "SRsrC", func(c Config) { explore(c, 1, 3000) })
		systematic(2, 3, "SRC", func(c Config) { explore(c, 1, 60) })
		systematic(3, 2, "SRC", func(c Config) { explore(c, 0, 40) })
	} else {
		systematic(2, 2, "SRC", func(c Config) { explore(c, 0, 3000) })
		systematic(3, 1, "SRC", func(c Config) { explore(c, 1, 3000) })
	}
	out.Encode(map[string]any{"kind": "stat", "dfs_runs": budget, "dfs_configs_truncated": truncated})

	// 3. random schedules of random configurations
	for i := 0; i < nRandom; i++ {
		cfg := randomConfig(rng)
		r := randomRun(cfg, rng, 2)
		r.emit()
		r.oracle()
	}
	out.Encode(map[string]any{"kind": "stat", "runs": nRuns, "viol_records": nViol, "classes": classes})
}
