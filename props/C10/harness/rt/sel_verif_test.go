// C10 harness, part 2: select.  Thread programs with Select / TrySelect (2 cases over 1-2
// channels) next to plain send / recv / close partners, executed on the real z_chan.go
// under explicit schedules.  notifyOps (the nested select mutex/cond inside a channel's
// critical section) runs without yielding (vsched.NestedAtomic), so a channel's critical
// section is still one step.  Records go to $VERIF_OUT_SEL; the oracle is linearizability
// against Go's select semantics.  Not part of the repository.
package rt

import (
	"encoding/json"
	"fmt"
	"math/rand"
	"os"
	"strconv"
	"strings"
	"testing"
	"unsafe"

	"github.com/goplus/llgo/runtime/xverif/cc/vsched"
)

type XCase struct {
	Ch   int
	Send bool
	V    int64
}

// K: S R s r C as before (on channel Ch); L = blocking Select, l = TrySelect (select with default)
type XOp struct {
	K     byte
	Ch    int
	V     int64
	Cases []XCase
}

type XConfig struct {
	Caps  []int
	Progs [][]XOp
}

type xrec struct {
	th, idx   int
	op        XOp
	inv, ret  int
	ok, ok2   bool
	isel      int
	slots     []*int64 // one receive buffer per case (plain operations: one)
	panicked  string
	pre       []int
}

type xrun struct {
	cfg    XConfig
	sched  []int
	masks  [][2]uint64
	ops    [][]*xrec
	end    string
	chs    []*Chan
	s      *vsched.Sched
	stepNo int
	spur   int
	counts []int
	faults []string
}

func xstart(cfg XConfig) *xrun {
	vsched.NestedAtomic = true
	r := &xrun{cfg: cfg}
	r.s = vsched.New()
	// selectSendFirst compares channel ADDRESSES: the channels live in one array, so
	// their addresses increase with the index (each is a copy of a fresh NewChan)
	arr := make([]Chan, len(cfg.Caps))
	for i, c := range cfg.Caps {
		arr[i] = *NewChan(8, c)
		r.chs = append(r.chs, &arr[i])
	}
	r.ops = make([][]*xrec, len(cfg.Progs))
	r.counts = make([]int, len(cfg.Progs))
	for ti := range cfg.Progs {
		ti := ti
		r.s.Go(func() {
			for i, op := range cfg.Progs[ti] {
				rec := &xrec{th: ti, idx: i, op: op, inv: 2*r.stepNo + 1, ret: -1, isel: -1}
				n := len(op.Cases)
				if n == 0 {
					n = 1
				}
				for k := 0; k < n; k++ {
					rec.slots = append(rec.slots, new(int64))
				}
				rec.pre = append([]int(nil), r.counts...)
				r.ops[ti] = append(r.ops[ti], rec)
				r.xcall(rec)
				rec.ret = 2 * r.stepNo
				r.counts[ti]++
			}
		})
	}
	for ti := range cfg.Progs {
		r.s.Step(ti, 0)
	}
	r.s.Steps = 0
	r.masks = append(r.masks, [2]uint64{r.s.EnabledMask(), r.s.ParkedMask()})
	return r
}

func (r *xrun) xcall(rec *xrec) {
	defer func() {
		if e := recover(); e != nil {
			rec.panicked = fmt.Sprint(e)
		}
	}()
	op := rec.op
	switch op.K {
	case 'S', 's':
		v := new(int64)
		*v = op.V
		if op.K == 'S' {
			rec.ok = ChanSend(r.chs[op.Ch], unsafe.Pointer(v), 8)
		} else {
			rec.ok = ChanTrySend(r.chs[op.Ch], unsafe.Pointer(v), 8)
		}
	case 'R':
		rec.ok = ChanRecv(r.chs[op.Ch], unsafe.Pointer(rec.slots[0]), 8)
	case 'r':
		rec.ok, rec.ok2 = ChanTryRecv(r.chs[op.Ch], unsafe.Pointer(rec.slots[0]), 8)
	case 'C':
		ChanClose(r.chs[op.Ch])
	case 'L', 'l':
		var cops []ChanOp
		for k, c := range op.Cases {
			co := ChanOp{C: r.chs[c.Ch], Size: 8, Send: c.Send}
			if c.Send {
				v := new(int64)
				*v = c.V
				co.Val = unsafe.Pointer(v)
			} else {
				co.Val = unsafe.Pointer(rec.slots[k])
			}
			cops = append(cops, co)
		}
		if op.K == 'L' {
			rec.isel, rec.ok = Select(cops...)
			rec.ok2 = true
		} else {
			rec.isel, rec.ok, rec.ok2 = TrySelect(cops...)
		}
	}
}

func (r *xrun) step(tid int) bool {
	r.stepNo++
	if r.s.Threads[tid].Kind == vsched.KParked {
		r.spur++
	}
	if !r.s.Step(tid, 0) {
		r.stepNo--
		return false
	}
	r.sched = append(r.sched, tid)
	r.masks = append(r.masks, [2]uint64{r.s.EnabledMask(), r.s.ParkedMask()})
	return true
}

func (r *xrun) finish(end string) {
	r.end = end
	if end == "" {
		if r.s.AllDone() {
			r.end = "done"
		} else {
			r.end = "deadlock"
		}
	}
	r.faults = r.s.Faults
	r.s.Kill()
}

// who owns the buffer p.data points to: thread*8 + case index, -1 nil, -2 a finished operation
func (r *xrun) dataOwner(c *Chan) int {
	if c.data == nil {
		return -1
	}
	for ti, os := range r.ops {
		if n := len(os); n > 0 && os[n-1].ret < 0 {
			for k, s := range os[n-1].slots {
				if unsafe.Pointer(s) == c.data {
					return ti*8 + k
				}
			}
		}
	}
	return -2
}

func (r *xrun) key() string {
	var b strings.Builder
	fmt.Fprintf(&b, "%d|", r.spur)
	for _, c := range r.chs {
		fmt.Fprintf(&b, "%d,%d,%d,%d,%v,%d:", c.getp, c.len, c.sends, c.selsends, c.close, len(c.sops))
		if c.cap > 0 {
			for i := 0; i < c.cap; i++ {
				fmt.Fprintf(&b, "%d,", *(*int64)(unsafe.Add(c.data, i*8)))
			}
		} else {
			fmt.Fprintf(&b, "d%d", r.dataOwner(c))
		}
		for _, so := range c.sops {
			fmt.Fprintf(&b, "s%v", so.sem)
		}
		b.WriteByte('|')
	}
	for ti, t := range r.s.Threads {
		// the same source line serves every case of a select: which channel's mutex /
		// condition variable the thread is at belongs to its control state
		at := -1
		for ci, c := range r.chs {
			if t.M == &c.mutex.M || t.C == &c.cond.C {
				at = ci
			}
		}
		fmt.Fprintf(&b, "|%d:%d:%d:%d:", ti, t.Kind, t.Site, at)
		for _, o := range r.ops[ti] {
			fmt.Fprintf(&b, "%c", o.op.K)
			for _, s := range o.slots {
				fmt.Fprintf(&b, "%d,", *s)
			}
			fmt.Fprintf(&b, "%v,%v,%d,%v,%s,%v;", o.ok, o.ok2, o.isel, o.ret >= 0, o.panicked, o.pre)
		}
	}
	return b.String()
}

// ---------------------------------------------------------------- output

var xout *json.Encoder
var xRuns, xViol int
var xclasses = map[string]int{}

func b2i(x bool) int64 {
	if x {
		return 1
	}
	return 0
}

// result code: [kind, a, b, value, isel]; kind 0..4 as the plain harness, 5 panic, 6 select
func xresCode(o *xrec) []int64 {
	if o.panicked != "" {
		return []int64{5, 0, 0, 0, 0}
	}
	switch o.op.K {
	case 'S':
		return []int64{0, b2i(o.ok), 0, 0, 0}
	case 'R':
		return []int64{1, b2i(o.ok), 0, *o.slots[0], 0}
	case 's':
		return []int64{2, b2i(o.ok), 0, 0, 0}
	case 'r':
		return []int64{3, b2i(o.ok), b2i(o.ok2), *o.slots[0], 0}
	case 'C':
		return []int64{4, 0, 0, 0, 0}
	}
	// select: the chosen case, recvOK, tryOK, the chosen receive buffer
	if !o.ok2 {
		return []int64{6, 0, 0, 0, 0} // default
	}
	v := int64(0)
	if !o.op.Cases[o.isel].Send {
		v = *o.slots[o.isel]
	}
	return []int64{6, b2i(o.ok), 1, v, int64(o.isel)}
}

func xopJSON(o XOp) []any {
	cs := [][]int64{}
	for _, c := range o.Cases {
		cs = append(cs, []int64{int64(c.Ch), b2i(c.Send), c.V})
	}
	return []any{strings.IndexByte("SRsrCLl", o.K), o.Ch, o.V, cs}
}

func (r *xrun) emit() {
	xRuns++
	progs := make([][]any, len(r.cfg.Progs))
	for i, p := range r.cfg.Progs {
		progs[i] = []any{}
		for _, o := range p {
			progs[i] = append(progs[i], xopJSON(o))
		}
	}
	res := make([][][]int64, len(r.ops))
	pslots := make([][]int64, len(r.ops))
	for i, os := range r.ops {
		res[i] = [][]int64{}
		pslots[i] = []int64{}
		for _, o := range os {
			if o.ret >= 0 {
				res[i] = append(res[i], xresCode(o))
			} else {
				for _, s := range o.slots {
					pslots[i] = append(pslots[i], *s)
				}
			}
		}
	}
	fin := [][]int64{}
	for _, c := range r.chs {
		fin = append(fin, []int64{int64(c.getp), int64(c.len), int64(c.sends), int64(c.selsends), b2i(c.close), int64(len(c.sops))})
	}
	hasSel := "plain"
	for _, p := range r.cfg.Progs {
		for _, o := range p {
			if o.K == 'L' {
				hasSel = "select"
			} else if o.K == 'l' && hasSel == "plain" {
				hasSel = "tryselect"
			}
		}
	}
	xclasses[fmt.Sprintf("%s/chans%d/threads%d/%s", hasSel, len(r.cfg.Caps), len(r.cfg.Progs), r.end)]++
	xout.Encode(map[string]any{"kind": "run", "caps": r.cfg.Caps, "progs": progs, "sched": r.sched,
		"masks": r.masks, "res": res, "pslots": pslots, "fin": fin, "end": r.end, "faults": r.faults})
}

func xprogString(c XConfig) string {
	var b strings.Builder
	fmt.Fprintf(&b, "caps%v: ", c.Caps)
	for i, p := range c.Progs {
		if i > 0 {
			b.WriteString(" || ")
		}
		for j, o := range p {
			if j > 0 {
				b.WriteString("; ")
			}
			switch o.K {
			case 'S':
				fmt.Fprintf(&b, "c%d<-%d", o.Ch, o.V)
			case 's':
				fmt.Fprintf(&b, "trysend(c%d,%d)", o.Ch, o.V)
			case 'R':
				fmt.Fprintf(&b, "<-c%d", o.Ch)
			case 'r':
				fmt.Fprintf(&b, "tryrecv(c%d)", o.Ch)
			case 'C':
				fmt.Fprintf(&b, "close(c%d)", o.Ch)
			default:
				b.WriteString("select{")
				for _, c := range o.Cases {
					if c.Send {
						fmt.Fprintf(&b, "c%d<-%d; ", c.Ch, c.V)
					} else {
						fmt.Fprintf(&b, "<-c%d; ", c.Ch)
					}
				}
				if o.K == 'l' {
					b.WriteString("default")
				}
				b.WriteString("}")
			}
		}
	}
	return b.String()
}

func (r *xrun) history() []string {
	var h []string
	for ti, os := range r.ops {
		for _, o := range os {
			s := fmt.Sprintf("t%d.%d %s", ti, o.idx, xprogString(XConfig{Progs: [][]XOp{{o.op}}})[8:])
			sl := []int64{}
			for _, p := range o.slots {
				sl = append(sl, *p)
			}
			if o.ret < 0 {
				s += fmt.Sprintf(" invoked@%d PENDING bufs=%v", o.inv, sl)
			} else {
				s += fmt.Sprintf(" [%d,%d] ok=%v ok2=%v isel=%d bufs=%v %s", o.inv, o.ret, o.ok, o.ok2, o.isel, sl, o.panicked)
			}
			h = append(h, s)
		}
	}
	return h
}

func xviol(key, what string, r *xrun) {
	xViol++
	xout.Encode(map[string]any{"kind": "viol", "key": key, "what": what, "progs": xprogString(r.cfg),
		"sched": r.sched, "end": r.end, "history": r.history()})
}

// ---------------------------------------------------------------- oracle

type offer struct {
	ch   int
	send bool
	val  int64
}

// xhop: one operation as Go's semantics sees it
type xhop struct {
	inv, ret int
	pending  bool
	kind     byte    // 'a' committed action act; 'z' receive reporting closed on act.ch; 'c' close ok; 'p' close panicked;
	act      offer   //     'P' send panicked (some send offer's channel closed); 'f' non-blocking failure of all offers
	offers   []offer // what the operation was ready to do (pending legitimacy, 'f', 'P')
	got      int64
	sel      bool // a blocking Select
	armed    bool // pending, and it is the one that set chanHasRecv on an unbuffered channel (its buffer still empty)
}

type xlin struct {
	caps     []int
	ops      []xhop
	deadlock bool
	bad      map[string]bool
	// relaxations used only to NAME a recorded defect after the strict check failed
	allowMirrored   bool // two blocked selects, one of which sends and receives on one unbuffered channel
	allowArmedTry   bool // a blocked operation that armed chanHasRecv and still has an empty buffer
	noDefaultInstant bool
	allowSendFirst   bool // two blocked selects; the receiving one probes its sends first and so refuses select-senders
}

type xspec struct {
	q      [][]int64
	closed []bool
}

func (s xspec) clone() xspec {
	n := xspec{closed: append([]bool{}, s.closed...)}
	for _, q := range s.q {
		n.q = append(n.q, append([]int64{}, q...))
	}
	return n
}

func (l *xlin) search(mask uint32, st xspec) bool {
	minRet := inf
	nLeft := 0
	for i, o := range l.ops {
		if o.pending || mask&(1<<uint(i)) != 0 {
			continue
		}
		nLeft++
		if o.ret < minRet {
			minRet = o.ret
		}
	}
	if nLeft == 0 {
		return l.final(st)
	}
	k := fmt.Sprint(mask, st)
	if l.bad[k] {
		return false
	}
	cand := func(i int) bool {
		o := l.ops[i]
		return !o.pending && mask&(1<<uint(i)) == 0 && o.inv < minRet
	}
	for i := range l.ops {
		if !cand(i) {
			continue
		}
		o := l.ops[i]
		m1 := mask | 1<<uint(i)
		switch o.kind {
		case 'c':
			if !st.closed[o.act.ch] {
				n := st.clone()
				n.closed[o.act.ch] = true
				if l.search(m1, n) {
					return true
				}
			}
		case 'p':
			if st.closed[o.act.ch] && l.search(m1, st) {
				return true
			}
		case 'P':
			for _, f := range o.offers {
				if f.send && st.closed[f.ch] {
					if l.search(m1, st) {
						return true
					}
					break
				}
			}
		case 'z':
			c := o.act.ch
			if st.closed[c] && len(st.q[c]) == 0 && o.got == 0 && l.search(m1, st) {
				return true
			}
		case 'f': // select with default / try-operation found nothing ready: every offer not ready NOW
			okf := true
			offers := o.offers
			if l.noDefaultInstant && len(offers) > 1 {
				offers = nil
			}
			for _, f := range offers {
				c := f.ch
				if st.closed[c] {
					okf = false // a closed channel is always ready (receive) or panics (send)
				} else if l.caps[c] > 0 {
					if f.send && len(st.q[c]) < l.caps[c] || !f.send && len(st.q[c]) > 0 {
						okf = false
					}
				}
				// unbuffered open channel: a partner need not be waiting yet (not observable)
			}
			if okf && l.search(m1, st) {
				return true
			}
		case 'a':
			c := o.act.ch
			if o.act.send {
				if st.closed[c] {
					continue
				}
				if l.caps[c] > 0 {
					if len(st.q[c]) < l.caps[c] {
						n := st.clone()
						n.q[c] = append(n.q[c], o.act.val)
						if l.search(m1, n) {
							return true
						}
					}
					continue
				}
				for j := range l.ops { // rendezvous with a receive action on c that got this value
					p := l.ops[j]
					if j != i && cand(j) && p.kind == 'a' && !p.act.send && p.act.ch == c && p.got == o.act.val {
						if l.search(m1|1<<uint(j), st) {
							return true
						}
					}
				}
			} else if l.caps[c] > 0 {
				if len(st.q[c]) > 0 && st.q[c][0] == o.got {
					n := st.clone()
					n.q[c] = n.q[c][1:]
					if l.search(m1, n) {
						return true
					}
				}
			}
			// unbuffered receive: taken together with its send
		}
	}
	l.bad[k] = true
	return false
}

func (l *xlin) final(st xspec) bool {
	if !l.deadlock {
		return true
	}
	var pend []xhop
	for _, o := range l.ops {
		if o.pending {
			pend = append(pend, o)
		}
	}
	both := func(o xhop, c int) bool {
		s, r := false, false
		for _, f := range o.offers {
			if f.ch == c {
				s, r = s || f.send, r || !f.send
			}
		}
		return s && r
	}
	for i, o := range pend {
		if l.allowArmedTry && o.armed {
			continue
		}
		if o.kind == 'f' || o.kind == 'c' { // non-blocking operations and close never block
			return false
		}
		for _, f := range o.offers {
			c := f.ch
			if st.closed[c] {
				return false
			}
			if l.caps[c] > 0 {
				if f.send && len(st.q[c]) < l.caps[c] || !f.send && len(st.q[c]) > 0 {
					return false
				}
				continue
			}
			for j, p := range pend { // no stuck pair on an unbuffered channel
				if j == i {
					continue
				}
				if l.allowArmedTry && p.armed {
					continue
				}
				if l.allowMirrored && o.kind == 'a' && p.kind == 'a' && len(o.offers) > 1 && len(p.offers) > 1 && (both(o, c) || both(p, c)) {
					continue
				}
				for _, g := range p.offers {
					if g.ch == c && g.send != f.send {
						recv := o
						if f.send {
							recv = p
						}
						if l.allowSendFirst && o.sel && p.sel && sendFirstOffers(recv.offers) {
							continue
						}
						return false
					}
				}
			}
		}
	}
	return true
}

// selectSendFirst of z_chan.go on the offers (channel addresses increase with the index)
func sendFirstOffers(fs []offer) bool {
	minS, minR := 1<<30, 1<<30
	for _, f := range fs {
		if f.send && f.ch < minS {
			minS = f.ch
		}
		if !f.send && f.ch < minR {
			minR = f.ch
		}
	}
	return minS < 1<<30 && minS < minR
}

func xoffers(op XOp) []offer {
	switch op.K {
	case 'S', 's':
		return []offer{{op.Ch, true, op.V}}
	case 'R', 'r':
		return []offer{{op.Ch, false, 0}}
	case 'L', 'l':
		var fs []offer
		for _, c := range op.Cases {
			fs = append(fs, offer{c.Ch, c.Send, c.V})
		}
		return fs
	}
	return nil
}

func (r *xrun) hops() []xhop {
	var hs []xhop
	for _, os := range r.ops {
		for _, o := range os {
			h := xhop{inv: o.inv, ret: o.ret, offers: xoffers(o.op), sel: o.op.K == 'L'}
			nonblocking := o.op.K == 's' || o.op.K == 'r' || o.op.K == 'l'
			switch {
			case o.ret < 0:
				h.pending, h.ret = true, inf
				for k, sl := range o.slots {
					h.got += *sl
					if k < len(h.offers) && !h.offers[k].send && *sl == 0 {
						c := r.chs[h.offers[k].ch]
						if c.cap == 0 && c.getp == chanHasRecv && c.data == unsafe.Pointer(sl) {
							h.armed = true
						}
					}
				}
				h.kind = 'a'
				if nonblocking {
					h.kind = 'f'
				} else if o.op.K == 'C' {
					h.kind = 'c'
				}
			case o.op.K == 'C':
				h.act.ch = o.op.Ch
				h.kind = 'c'
				if o.panicked != "" {
					h.kind = 'p'
				}
			case o.panicked != "" || (o.op.K == 'S' && !o.ok):
				h.kind = 'P'
			case o.op.K == 'S' || (o.op.K == 's' && o.ok):
				h.kind, h.act = 'a', h.offers[0]
			case o.op.K == 's':
				h.kind = 'f'
			case o.op.K == 'R' || o.op.K == 'r':
				h.act, h.got = h.offers[0], *o.slots[0]
				switch {
				case o.ok:
					h.kind = 'a'
				case o.op.K == 'R' || o.ok2:
					h.kind = 'z'
				default:
					h.kind = 'f'
				}
			default: // select
				if !o.ok2 {
					h.kind = 'f'
					break
				}
				h.act = h.offers[o.isel]
				h.kind = 'a'
				if !h.act.send {
					h.got = *o.slots[o.isel]
					if !o.ok {
						h.kind = 'z'
					}
				}
			}
			hs = append(hs, h)
		}
	}
	return hs
}

func xcheck(caps []int, hs []xhop, deadlock bool, relax ...bool) bool {
	l := &xlin{caps: caps, ops: hs, deadlock: deadlock, bad: map[string]bool{}}
	if len(relax) == 4 {
		l.allowMirrored, l.allowArmedTry, l.noDefaultInstant, l.allowSendFirst = relax[0], relax[1], relax[2], relax[3]
	}
	st := xspec{closed: make([]bool, len(caps))}
	for range caps {
		st.q = append(st.q, nil)
	}
	return l.search(0, st)
}

func (r *xrun) oracle() {
	if r.end != "done" && r.end != "deadlock" {
		return
	}
	for _, f := range r.faults {
		xviol("sync-misuse-"+f, "the code under test misused a mutex/condition variable", r)
	}
	dead := r.end == "deadlock"
	hs := r.hops()
	if xcheck(r.cfg.Caps, hs, dead) {
		return
	}
	for _, key := range r.classify(hs, dead) {
		xviol(key, xwhat[key], r)
	}
}

// classify names the recorded defects narrowly; anything else is the generic key.
// First the unbuffered hand-off defects are repaired in the history (a value that was
// copied into a receive buffer counts as received), then the relaxations of xlin are
// tried, smallest set first.
func (r *xrun) classify(hs []xhop, dead bool) []string {
	end := 2*r.stepNo + 2
	rep := append([]xhop(nil), hs...)
	var base []string
	var extra []xhop
	add := func(k string) {
		for _, x := range base {
			if x == k {
				return
			}
		}
		base = append(base, k)
	}
	i := -1
	for _, os := range r.ops {
		for _, o := range os {
			i++
			h := &rep[i]
			for k, f := range h.offers {
				if f.send || r.cfg.Caps[f.ch] != 0 || *o.slots[k] == 0 {
					continue
				}
				delivered := xhop{inv: h.inv, ret: h.ret, kind: 'a', act: f, got: *o.slots[k], offers: h.offers, sel: h.sel}
				if h.pending && dead {
					delivered.ret = end
					*h = delivered
					switch o.op.K {
					case 'R':
						add("unbuffered-receiver-blocked-after-delivery")
					case 'r':
						add("unbuffered-tryrecv-blocked-after-delivery")
					default:
						add("unbuffered-select-recv-blocked-after-delivery")
					}
				} else if !h.pending && h.kind == 'a' && h.act != f && r.chs[f.ch].close {
					// the same, but the select then went on and committed ANOTHER case: the value
					// handed to this receive case is lost; count it as an additional receive
					extra = append(extra, delivered)
					add("unbuffered-recv-delivered-value-reported-closed")
				} else if !h.pending && (h.kind == 'z' || h.kind == 'f' || h.kind == 'P') && r.chs[f.ch].close {
					// handed over, then close won the race for the lock: reported as closed /
					// as "not ready" (select goes on to default or to a panicking send case)
					*h = delivered
					add("unbuffered-recv-delivered-value-reported-closed")
				}
			}
		}
	}
	rep = append(rep, extra...)
	if len(base) > 0 && xcheck(r.cfg.Caps, rep, dead) {
		return base
	}
	names := []string{"select-send-and-recv-same-unbuffered-channel-stuck",
		"unbuffered-recv-armed-for-counted-sender-then-blocked", "tryselect-default-cases-probed-one-after-the-other",
		"select-sendfirst-receiver-refuses-select-senders"}
	for _, m := range []int{1, 2, 4, 8, 3, 5, 6, 9, 10, 12, 7, 11, 13, 14, 15} { // subsets of the relaxations, small ones first
		if xcheck(r.cfg.Caps, rep, dead, m&1 != 0, m&2 != 0, m&4 != 0, m&8 != 0) {
			ks := append([]string{}, base...)
			for b := 0; b < 4; b++ {
				if m&(1<<uint(b)) != 0 {
					ks = append(ks, names[b])
				}
			}
			return ks
		}
	}
	if dead && xcheck(r.cfg.Caps, rep, false) {
		// the results are fine; what is wrong is that everybody sleeps although pending
		// operations could complete together: a lost wake-up
		return append(base, "select-deadlock-while-matching-operations-pending")
	}
	return []string{"select-history-not-linearizable"}
}

var xwhat = map[string]string{
	"unbuffered-receiver-blocked-after-delivery":      "unbuffered channel: a receiver whose value has been delivered stays blocked because another receiver re-armed the hand-off flag",
	"unbuffered-tryrecv-blocked-after-delivery":       "unbuffered channel: ChanTryRecv took a value from a blocked sender and then stays blocked because another receiver re-armed the hand-off flag",
	"unbuffered-select-recv-blocked-after-delivery":   "unbuffered channel: a select whose receive case has been handed a value stays blocked inside chanTryRecv because another receiver re-armed the hand-off flag",
	"unbuffered-recv-delivered-value-reported-closed": "unbuffered receive (plain, or a select's receive case) was handed a value, then close ran before it re-locked: it reports closed / not ready and the value is lost",
	"select-send-and-recv-same-unbuffered-channel-stuck": "a blocking select that offers a send AND a receive on the same unbuffered channel refuses select-senders on it (acceptSelectSend is switched off for that channel) and arms no receiver for them: it and another select that could be served by it stay blocked for ever",
	"unbuffered-recv-armed-for-counted-sender-then-blocked":          "chanTryRecv (ChanTryRecv, select with default, or a blocking select's receive case) saw p.sends > 0 on an unbuffered channel, set chanHasRecv and waits in its second loop; the counted sender (a registered select-send, or a sender that then served another receiver) never delivers to it: the operation - even a non-blocking one - blocks for ever inside chanTryRecv",
	"tryselect-default-cases-probed-one-after-the-other":      "select with default took the default although at every instant of the call one of its cases was ready: TrySelect probes the cases in separate critical sections",
	"select-sendfirst-receiver-refuses-select-senders":        "two blocking selects stay blocked although one sends and the other receives on the same unbuffered channel: the receiving select also has a send case on a channel with a lower address, so it probes its sends first (selectSendFirst) and then calls chanTryRecv with acceptSelectSend=false, and the sending select never finds an armed receiver",
	"select-deadlock-while-matching-operations-pending":       "no thread can run although pending operations (at least one of them a select case) could complete together, or a pending operation is not blocked under Go's rules: a lost wake-up / missing notification",
	"select-history-not-linearizable":                         "the observed results cannot be explained by Go's channel and select semantics",
}

// ---------------------------------------------------------------- exploration

func (r *xrun) alts(maxSpur int) []int {
	var a []int
	en, pk := r.s.EnabledMask(), r.s.ParkedMask()
	for i := range r.cfg.Progs {
		if en&(1<<uint(i)) != 0 {
			a = append(a, i)
		}
	}
	if r.spur < maxSpur {
		for i := range r.cfg.Progs {
			if pk&(1<<uint(i)) != 0 {
				a = append(a, i)
			}
		}
	}
	return a
}

func xdfs(cfg XConfig, maxSpur, maxRuns int) int {
	visited := map[string]bool{}
	stack := [][]int{{}}
	runs := 0
	for len(stack) > 0 && runs < maxRuns {
		p := stack[len(stack)-1]
		stack = stack[:len(stack)-1]
		r := xstart(cfg)
		for _, t := range p {
			if !r.step(t) {
				panic(fmt.Sprintf("replay diverged: %v %v", xprogString(cfg), p))
			}
		}
		end := ""
		for {
			k := r.key()
			if visited[k] {
				end = "pruned"
				break
			}
			visited[k] = true
			a := r.alts(maxSpur)
			if r.s.EnabledMask() == 0 {
				for _, t := range a {
					stack = append(stack, append(append([]int{}, r.sched...), t))
				}
				break
			}
			for _, t := range a[1:] {
				stack = append(stack, append(append([]int{}, r.sched...), t))
			}
			r.step(a[0])
			if len(r.sched) > 300 {
				end = "cut"
				break
			}
		}
		r.finish(end)
		r.emit()
		r.oracle()
		runs++
	}
	return runs
}

func xrandomRun(cfg XConfig, rng *rand.Rand, maxSpur int) *xrun {
	r := xstart(cfg)
	end := ""
	for r.s.EnabledMask() != 0 {
		a := r.alts(0)
		t := a[rng.Intn(len(a))]
		if pk := r.s.ParkedMask(); pk != 0 && r.spur < maxSpur && rng.Intn(8) == 0 {
			var b []int
			for i := range cfg.Progs {
				if pk&(1<<uint(i)) != 0 {
					b = append(b, i)
				}
			}
			t = b[rng.Intn(len(b))]
		}
		r.step(t)
		if len(r.sched) > 400 {
			end = "cut"
			break
		}
	}
	r.finish(end)
	return r
}

var xval int64

func nextVal() int64 { xval++; return xval }

func randCase(rng *rand.Rand, nch int) XCase {
	c := XCase{Ch: rng.Intn(nch), Send: rng.Intn(2) == 0}
	if c.Send {
		c.V = nextVal()
	}
	return c
}

func xrandomConfig(rng *rand.Rand) XConfig {
	xval = 10
	nch := 1 + rng.Intn(2)
	cfg := XConfig{}
	for i := 0; i < nch; i++ {
		cfg.Caps = append(cfg.Caps, rng.Intn(3)%2*(1+rng.Intn(2))) // 0 (2/3) or 1..2
	}
	nt := 2 + rng.Intn(2)
	for t := 0; t < nt; t++ {
		var p []XOp
		n := 1 + rng.Intn(2)
		for i := 0; i < n; i++ {
			ch := rng.Intn(nch)
			switch x := rng.Intn(20); {
			case x < 5:
				p = append(p, XOp{K: 'S', Ch: ch, V: nextVal()})
			case x < 10:
				p = append(p, XOp{K: 'R', Ch: ch})
			case x < 11:
				p = append(p, XOp{K: 's', Ch: ch, V: nextVal()})
			case x < 12:
				p = append(p, XOp{K: 'r', Ch: ch})
			case x < 13:
				p = append(p, XOp{K: 'C', Ch: ch})
			case x < 17:
				p = append(p, XOp{K: 'L', Cases: []XCase{randCase(rng, nch), randCase(rng, nch)}})
			default:
				p = append(p, XOp{K: 'l', Cases: []XCase{randCase(rng, nch), randCase(rng, nch)}})
			}
		}
		cfg.Progs = append(cfg.Progs, p)
	}
	return cfg
}

// systematic: one selecting thread (every 2-case select over the channels, blocking or
// with default) against every pair of single-operation partners
func xsystematic(caps []int, f func(XConfig)) {
	nch := len(caps)
	var cases []XCase
	for c := 0; c < nch; c++ {
		cases = append(cases, XCase{Ch: c, Send: true}, XCase{Ch: c, Send: false})
	}
	var partners []XOp
	for c := 0; c < nch; c++ {
		partners = append(partners, XOp{K: 'S', Ch: c}, XOp{K: 'R', Ch: c}, XOp{K: 'C', Ch: c})
	}
	fill := func(cfg XConfig) XConfig {
		v := int64(10)
		out := XConfig{Caps: cfg.Caps}
		for _, p := range cfg.Progs {
			var q []XOp
			for _, o := range p {
				o.Cases = append([]XCase{}, o.Cases...)
				if o.K == 'S' || o.K == 's' {
					v++
					o.V = v
				}
				for k := range o.Cases {
					if o.Cases[k].Send {
						v++
						o.Cases[k].V = v
					}
				}
				q = append(q, o)
			}
			out.Progs = append(out.Progs, q)
		}
		return out
	}
	for i := 0; i < len(cases); i++ {
		for j := i; j < len(cases); j++ {
			if i == j && nch > 1 {
				continue
			}
			for _, k := range []byte{'L', 'l'} {
				sel := XOp{K: k, Cases: []XCase{cases[i], cases[j]}}
				for a := 0; a < len(partners); a++ {
					for b := a; b < len(partners); b++ {
						f(fill(XConfig{Caps: caps, Progs: [][]XOp{{sel}, {partners[a]}, {partners[b]}}}))
					}
					f(fill(XConfig{Caps: caps, Progs: [][]XOp{{sel}, {partners[a]}}}))
				}
			}
		}
	}
	// two selects facing each other (mirrored directions)
	for i := 0; i < len(cases); i++ {
		for j := i + 1; j < len(cases); j++ {
			s1 := XOp{K: 'L', Cases: []XCase{cases[i], cases[j]}}
			m := func(c XCase) XCase { c.Send = !c.Send; return c }
			s2 := XOp{K: 'L', Cases: []XCase{m(cases[i]), m(cases[j])}}
			f(fill(XConfig{Caps: caps, Progs: [][]XOp{{s1}, {s2}}}))
		}
	}
}

type xreplayIn struct {
	Name  string
	Caps  []int
	Progs [][]json.RawMessage
	Sched []int
}

func parseXOp(raw json.RawMessage) XOp {
	var a []json.RawMessage
	json.Unmarshal(raw, &a)
	var k, ch int
	var v int64
	var cs [][]int64
	json.Unmarshal(a[0], &k)
	json.Unmarshal(a[1], &ch)
	json.Unmarshal(a[2], &v)
	json.Unmarshal(a[3], &cs)
	op := XOp{K: "SRsrCLl"[k], Ch: ch, V: v}
	for _, c := range cs {
		op.Cases = append(op.Cases, XCase{Ch: int(c[0]), Send: c[1] != 0, V: c[2]})
	}
	return op
}

func TestVerifSel(t *testing.T) {
	f, err := os.Create(os.Getenv("VERIF_OUT_SEL"))
	if err != nil {
		t.Fatal(err)
	}
	defer f.Close()
	defer func() { vsched.NestedAtomic = false }()
	xout = json.NewEncoder(f)
	seed, _ := strconv.ParseInt(os.Getenv("VERIF_SEED"), 10, 64)
	rng := rand.New(rand.NewSource(seed*7919 + 12))
	tier := os.Getenv("VERIF_TIER")
	nRandom, _ := strconv.Atoi(os.Getenv("VERIF_N_SEL"))

	if p := os.Getenv("VERIF_IN_SEL"); p != "" {
		var ins []xreplayIn
		b, _ := os.ReadFile(p)
		if err := json.Unmarshal(b, &ins); err != nil {
			t.Fatal(err)
		}
		for _, in := range ins {
			cfg := XConfig{Caps: in.Caps}
			for _, p := range in.Progs {
				var q []XOp
				for _, raw := range p {
					q = append(q, parseXOp(raw))
				}
				cfg.Progs = append(cfg.Progs, q)
			}
			r := xstart(cfg)
			okAll := true
			for _, tid := range in.Sched {
				if !r.step(tid) {
					okAll = false
					break
				}
			}
			end := ""
			if r.s.EnabledMask() != 0 {
				end = "cut"
			}
			r.finish(end)
			r.emit()
			nv := xViol
			r.oracle()
			xout.Encode(map[string]any{"kind": "witness", "name": in.Name, "replayed": okAll, "end": r.end,
				"flagged": xViol > nv, "history": r.history()})
		}
	}

	total := 0
	perCfg := 6
	capsets := [][]int{{0}, {1}, {0, 0}, {0, 1}}
	if tier == "thorough" {
		perCfg = 120
		capsets = [][]int{{0}, {1}, {2}, {0, 0}, {0, 1}, {1, 0}, {1, 1}}
	}
	for _, caps := range capsets {
		xsystematic(caps, func(c XConfig) {
			if total < 120000 {
				total += xdfs(c, 0, perCfg)
			}
		})
	}
	xout.Encode(map[string]any{"kind": "stat", "dfs_runs": total})
	for i := 0; i < nRandom; i++ {
		r := xrandomRun(xrandomConfig(rng), rng, 1)
		r.emit()
		r.oracle()
	}
	xout.Encode(map[string]any{"kind": "stat", "runs": xRuns, "viol_records": xViol, "classes": xclasses})
}
