// Stand-ins for the identifiers z_chan.go takes from other files of
// runtime/internal/runtime.  Not part of the repository.
package rt

import "unsafe"

// z_gc.go: AllocU returns uninitialised memory (bdwgc.Malloc); fresh Go memory here.
func AllocU(size uintptr) unsafe.Pointer {
	b := make([]byte, size+8)
	return unsafe.Pointer(&b[0])
}

// z_error.go: the error type of run-time panics without the "runtime error: " prefix
type plainError string

func (e plainError) RuntimeError() {}

func (e plainError) Error() string { return string(e) }

// z_error.go: run-time panics with the "runtime error: " prefix
type errorString string

func (e errorString) RuntimeError() {}

func (e errorString) Error() string { return "runtime error: " + string(e) }

// stubs.go: the allocation limit NewChan checks (same formulas)
const (
	_64bit       = 1 << (^uintptr(0) >> 63) / 2
	heapAddrBits = (_64bit)*48 + (1-_64bit)*(32)
	maxAlloc     = (1 << heapAddrBits) - (1-_64bit)*1
)
