// Stand-in for github.com/goplus/llgo/runtime/internal/clite (only what z_chan.go
// uses): Memcpy and Advance on real memory.  Not part of the repository.
package c

import "unsafe"

type (
	Pointer = unsafe.Pointer
	Int     = int32
	Char    = int8
)

type integer interface {
	~int | ~uint | ~uintptr | ~int32 | ~uint32 | ~int64 | ~uint64
}

func Advance[PtrT any, I integer](ptr PtrT, offset I) PtrT {
	p, ok := any(ptr).(unsafe.Pointer)
	if !ok {
		panic("clite stand-in: Advance on a typed pointer")
	}
	return any(unsafe.Add(p, int(offset))).(PtrT)
}

// Copies counts Memcpy calls (the harness uses it to see hand-offs).
var Copies int

func Memcpy(dst, src Pointer, n uintptr) Pointer {
	Copies++
	copy(unsafe.Slice((*byte)(dst), n), unsafe.Slice((*byte)(src), n))
	return dst
}
