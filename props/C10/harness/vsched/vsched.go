// Package vsched is the harness scheduler behind the stand-in for
// runtime/internal/clite/pthread/sync (vehicle S2 of DESIGN.md).  Not part of
// the repository.
//
// Every model thread is a goroutine; exactly one of them runs at a time.  A
// thread hands control back to the scheduler ("yields") immediately BEFORE
//   - Mutex.Lock            (enabled only while the mutex is free)
//   - re-locking after Cond.Wait (parked until a Signal/Broadcast or a spurious
//     wake-up chosen by the scheduler, then enabled while the mutex is free)
//   - Cond.Signal / Cond.Broadcast
//   - every atomic operation of the stand-in for sync/atomic
// Mutex.Unlock does not yield (what follows it up to the next yield point touches
// no shared state in the anchored code, or is itself a yield point).  Cond.Wait
// releases the mutex and parks in one step, as pthread_cond_wait does.
// One scheduler step = resume one thread until its next yield point, or a
// spurious wake-up of a parked thread.  A deadlock is the state "no thread
// enabled, some thread unfinished" - it is observed, never timed out.
package vsched

import (
	"runtime"
	"strings"
)

type Kind int

const (
	KStart  Kind = iota // created, has not run yet
	KLock               // about to lock M
	KRelock             // woken from Wait on C, about to re-lock M
	KParked             // inside Wait on C, not woken
	KSignal             // about to Signal C
	KBcast              // about to Broadcast C
	KAtomic             // about to perform an atomic operation
	KDone               // thread function returned
)

var kindName = [...]string{"start", "lock", "relock", "parked", "signal", "bcast", "atomic", "done"}

func (k Kind) String() string { return kindName[k] }

type Mutex struct {
	Owner *Thread
}

type Cond struct {
	Waiters []*Thread
}

// NestedAtomic: while the running thread already holds a mutex, locking a FREE mutex,
// Signal and Broadcast do not yield.  Used for z_chan.go's notifyOps, which runs inside
// a channel's critical section and takes each registered select's private mutex
// (never held at a yield point: a leaf lock), sets its flag and signals its private
// condition variable: nobody can observe the channel meanwhile, and the flag/wake-up
// commute with every step another thread can take, so the whole critical section stays
// one atomic step (Lipton reduction).  Off by default (C11 needs the Signal choice).
var NestedAtomic bool

type Thread struct {
	ID     int
	Held   int // number of mutexes held
	Kind   Kind
	M      *Mutex
	C      *Cond
	Site   int // source line of the yield point inside the code under test
	Choice int
	resume chan int
	sched  *Sched
}

type Sched struct {
	Threads []*Thread
	back    chan struct{}
	abort   bool
	Steps   int
	Faults  []string
}

// Cur is the thread that is running now; nil while the harness itself runs.
var Cur *Thread

// outside owns a mutex taken by harness code (set-up, inspection).
var outside = &Thread{ID: -1}

func New() *Sched { return &Sched{back: make(chan struct{})} }

// Go adds a thread; it does not run before the first Step on it.
func (s *Sched) Go(f func()) *Thread {
	t := &Thread{ID: len(s.Threads), Kind: KStart, resume: make(chan int), sched: s}
	s.Threads = append(s.Threads, t)
	go func() {
		defer func() {
			t.Kind = KDone
			Cur = nil
			s.back <- struct{}{}
		}()
		t.wait()
		f()
	}()
	return t
}

func (t *Thread) wait() {
	ch := <-t.resume
	if t.sched.abort {
		runtime.Goexit()
	}
	t.Choice = ch
	Cur = t
}

func (s *Sched) Enabled(t *Thread) bool {
	switch t.Kind {
	case KDone, KParked:
		return false
	case KLock, KRelock:
		return t.M.Owner == nil
	}
	return true
}

// EnabledMask has bit i set when thread i can take a (non-spurious) step.
func (s *Sched) EnabledMask() (m uint64) {
	for i, t := range s.Threads {
		if s.Enabled(t) {
			m |= 1 << uint(i)
		}
	}
	return
}

func (s *Sched) ParkedMask() (m uint64) {
	for i, t := range s.Threads {
		if t.Kind == KParked {
			m |= 1 << uint(i)
		}
	}
	return
}

func (s *Sched) AllDone() bool {
	for _, t := range s.Threads {
		if t.Kind != KDone {
			return false
		}
	}
	return true
}

// Step runs thread tid up to its next yield point.  On a parked thread it is a
// spurious wake-up.  choice selects the waiter a Signal wakes (mod #waiters).
// It reports false when the thread cannot step.
func (s *Sched) Step(tid, choice int) bool {
	if tid < 0 || tid >= len(s.Threads) {
		return false
	}
	t := s.Threads[tid]
	if t.Kind == KParked {
		t.C.remove(t)
		t.Kind = KRelock
		s.Steps++
		return true
	}
	if !s.Enabled(t) {
		return false
	}
	s.Steps++
	t.resume <- choice
	<-s.back
	return true
}

// Kill ends every unfinished goroutine (after a deadlock or a cut execution).
func (s *Sched) Kill() {
	s.abort = true
	for _, t := range s.Threads {
		if t.Kind != KDone {
			t.resume <- 0
			<-s.back
		}
	}
}

func (c *Cond) remove(t *Thread) {
	for i, w := range c.Waiters {
		if w == t {
			c.Waiters = append(c.Waiters[:i:i], c.Waiters[i+1:]...)
			return
		}
	}
}

func site() int {
	var pcs [12]uintptr
	n := runtime.Callers(3, pcs[:])
	fr := runtime.CallersFrames(pcs[:n])
	for {
		f, more := fr.Next()
		if !strings.Contains(f.File, "/vsched/") && !strings.Contains(f.File, "/psync/") && !strings.Contains(f.File, "/patomic/") {
			return f.Line
		}
		if !more {
			return 0
		}
	}
}

func yield(k Kind, m *Mutex, c *Cond) {
	t := Cur
	t.Kind, t.M, t.C = k, m, c
	t.Site = site()
	Cur = nil
	t.sched.back <- struct{}{}
	t.wait()
}

func fault(s string) {
	if Cur != nil {
		Cur.sched.Faults = append(Cur.sched.Faults, s)
	}
}

func (m *Mutex) Lock() {
	if Cur == nil {
		if m.Owner != nil {
			panic("vsched: harness locks a held mutex")
		}
		m.Owner = outside
		return
	}
	if NestedAtomic && Cur.Held > 0 && m.Owner == nil {
		m.Owner = Cur
		Cur.Held++
		return
	}
	yield(KLock, m, nil)
	if m.Owner != nil {
		panic("vsched: scheduled at Lock while the mutex is held")
	}
	m.Owner = Cur
	Cur.Held++
}

// TryLock yields like Lock (it is a visible action) but never blocks.
func (m *Mutex) TryLock() bool {
	if Cur == nil {
		if m.Owner != nil {
			return false
		}
		m.Owner = outside
		return true
	}
	yield(KAtomic, nil, nil)
	if m.Owner != nil {
		return false
	}
	m.Owner = Cur
	Cur.Held++
	return true
}

func (m *Mutex) Unlock() {
	me := Cur
	if me == nil {
		me = outside
	}
	if m.Owner != me {
		fault("unlock-by-non-owner")
	} else if Cur != nil {
		Cur.Held--
	}
	m.Owner = nil
}

func (c *Cond) Wait(m *Mutex) {
	t := Cur
	if t == nil {
		panic("vsched: harness code waits on a condition variable")
	}
	if m.Owner != t {
		fault("wait-without-mutex")
	}
	if m.Owner == t {
		t.Held--
	}
	m.Owner = nil
	c.Waiters = append(c.Waiters, t)
	yield(KParked, m, c)
	if m.Owner != nil {
		panic("vsched: scheduled after Wait while the mutex is held")
	}
	m.Owner = t
	t.Held++
}

func (c *Cond) Signal() {
	if Cur == nil {
		if len(c.Waiters) > 0 {
			w := c.Waiters[0]
			c.remove(w)
			w.Kind = KRelock
		}
		return
	}
	if !(NestedAtomic && Cur.Held > 0) {
		yield(KSignal, nil, c)
	}
	if n := len(c.Waiters); n > 0 {
		w := c.Waiters[Cur.Choice%n]
		c.remove(w)
		w.Kind = KRelock
	}
}

func (c *Cond) Broadcast() {
	if Cur != nil && !(NestedAtomic && Cur.Held > 0) {
		yield(KBcast, nil, c)
	}
	for _, w := range c.Waiters {
		w.Kind = KRelock
	}
	c.Waiters = nil
}

// Atomic marks an atomic operation: the caller performs it right after return.
func Atomic() {
	if Cur != nil {
		yield(KAtomic, nil, nil)
	}
}
