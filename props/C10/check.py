"""C10 - channels obey Go channel semantics under every schedule.

Vehicle: schedule-indexed correspondence (DESIGN.md 2.2 S2).  z_chan.go is copied from
the working tree into a scratch module and compiled against an instrumented stand-in
for pthread/sync whose Lock/Wait/Broadcast yield to a harness scheduler; the harness
executes explicit schedules on the real source with goroutines as threads, the Coq
model (C10/Model.v) must predict enabled/parked sets after every step, every result
and the final channel fields.  The property oracle (linearizability against Go's
channel semantics + legitimacy of every deadlock) runs on the real code."""
import json, os, re, sys, collections
from concurrent.futures import ThreadPoolExecutor
import vlib
from vlib import coq_list

HERE = os.path.dirname(os.path.abspath(__file__))
sys.path.insert(0, HERE)
import ccmod

H = os.path.join(HERE, "harness")

OPS = ["OSend %d", "ORecv", "OTrySend %d", "OTryRecv", "OClose"]

# witness schedules of the *_refuted theorems (coq/theories/C10/Proofs.v holds the same
# terms; equality is checked below) - replayed on the real code on every run
WITNESSES = [
    # name, cap, progs [(opcode, value)], schedule, keys the oracle must report
    ("w_recv_blocked_after_delivery", 0, [[(1, 0)], [(1, 0)], [(0, 7)]],
     [0, 0, 0, 1, 2, 2, 1, 0, 1, 1, 0], ["unbuffered-receiver-blocked-after-delivery"]),
    ("w_recv_delivered_reported_closed", 0, [[(1, 0)], [(0, 7), (4, 0)]],
     [0, 0, 0, 1, 1, 1, 0, 1], ["unbuffered-recv-delivered-value-reported-closed"]),
    ("w_tryrecv_blocks", 0, [[(0, 7), (1, 0)], [(3, 0)]],
     [0, 1, 1, 0, 0, 0, 0, 1, 0], ["unbuffered-tryrecv-blocked-after-delivery"]),
]


# witnesses of the select *_refuted theorems: (name, caps, progs in harness JSON form, schedule, keys)
XWITNESSES = [
    ("xw_default_not_atomic", [1], [[[6, 0, 0, [[0, 0, 0], [0, 1, 12]]]], [[0, 0, 13, []]]], [0, 1, 1, 0],
     ["tryselect-default-cases-probed-one-after-the-other"]),
    ("xw_mirrored_selects", [0], [[[5, 0, 0, [[0, 0, 0], [0, 1, 11]]]], [[5, 0, 0, [[0, 1, 12], [0, 0, 0]]]]],
     [0, 0, 0, 0, 0, 0, 0, 0, 1, 0, 0, 0, 0, 1, 1, 1, 1, 1, 1, 1], ["select-send-and-recv-same-unbuffered-channel-stuck"]),
    ("xw_tryselect_blocks", [0, 0], [[[5, 0, 0, [[1, 1, 11], [0, 1, 12]]], [0, 1, 13, []]], [[6, 0, 0, [[0, 0, 0], [0, 1, 14]]]], [[1, 0, 0, []]]],
     [0, 2, 2, 0, 0, 0, 2, 0, 1, 1, 0, 0, 0, 1], ["unbuffered-recv-armed-for-counted-sender-then-blocked"]),
    ("xw_select_stuck_pair", [0, 0], [[[5, 0, 0, [[0, 0, 0], [1, 0, 0]]]], [[1, 1, 0, []]], [[5, 0, 0, [[1, 1, 11], [0, 0, 0]]], [0, 0, 12, []]]],
     [0, 1, 2, 2, 1, 0, 2, 0, 0, 2, 1, 0, 0, 2, 0, 2, 0, 2, 0, 2], ["unbuffered-recv-armed-for-counted-sender-then-blocked"]),
    ("xw_sendfirst_refuses", [0, 0], [[[5, 0, 0, [[1, 0, 0], [0, 1, 12]]]], [[5, 0, 0, [[1, 1, 15], [1, 1, 16]]]]],
     [0, 0, 0, 0, 0, 0, 0, 0, 1, 0, 0, 0, 0, 1, 0, 0, 0, 0, 1, 1, 1, 1, 1, 1], ["select-sendfirst-receiver-refuses-select-senders"]),
]


def coq_prog(p):
    return coq_list([("(" + (OPS[k] % v if "%d" in OPS[k] else OPS[k]) + ")") for k, v in p])


def coq_nats(xs):
    return "[" + ";".join(str(x) for x in xs) + "]%nat"


def coq_res(r):
    k, a, b, v = r
    t = lambda x: "true" if x else "false"
    return ["(RSend %s)" % t(a), "(RRecv %s %d)" % (t(a), v), "(RTrySend %s)" % t(a),
            "(RTryRecv %s %s %d)" % (t(a), t(b), v), "RClose", "RPanic"][k]


def case_term(r):
    inp = "(%d%%nat, %s, %s)" % (r["cap"], coq_list([coq_prog(p) for p in r["progs"]]), coq_nats(r["sched"]))
    f = r["fin"]
    obs = "(%s, %s, %s, (%d%%nat, %d%%nat, %d%%nat, %d%%nat, %s))" % (
        coq_list(["(%d,%d)" % (a, b) for a, b in r["masks"]]),
        coq_list([coq_list([coq_res(x) for x in th]) for th in r["res"]]),
        "[" + ";".join(str(x) for x in r["pslots"]) + "]",
        f[0], f[1], f[2], f[3], "true" if f[4] else "false")
    # explicit types: a shard in which every result list is empty must still type-check
    return "((%s : nat * list (list op) * schedule), (%s : observation))" % (inp, obs)


POPS = ["OSend %d", "ORecv", "OTrySend %d", "OTryRecv", "OClose"]


def coq_xop(o):
    k, ch, v, cases = o
    if k < 5:
        return "(XPlain %d%%nat (%s))" % (ch, POPS[k] % v if "%d" in POPS[k] else POPS[k])
    cs = coq_list([("(CSend %d%%nat %d)" % (c[0], c[2])) if c[1] else ("(CRecv %d%%nat)" % c[0]) for c in cases])
    return "(%s %s)" % ("XSelect" if k == 5 else "XTrySelect", cs)


def coq_xres(op, r):
    k, a, b, v, isel = r
    t = lambda x: "true" if x else "false"
    sel = op[0] >= 5
    if k == 5:
        return "XPanic" if sel else "(XR RPanic)"
    if k == 6:
        return "(XSel %d%%nat %s %d)" % (isel, t(a), v) if b else "XDefault"
    return "(XR %s)" % coq_res((k, a, b, v))


def xcase_term(r):
    inp = "(%s, %s, %s)" % (coq_nats(r["caps"]), coq_list([coq_list([coq_xop(o) for o in p]) for p in r["progs"]]), coq_nats(r["sched"]))
    res = coq_list([coq_list([coq_xres(op, x) for op, x in zip(p, th)]) for p, th in zip(r["progs"], r["res"])])
    fin = coq_list(["(%d%%nat, %d%%nat, %d%%nat, %d%%nat, %s, %d%%nat)" % (f[0], f[1], f[2], f[3], "true" if f[4] else "false", f[5]) for f in r["fin"]])
    obs = "(%s, %s, %s, %s)" % (coq_list(["(%d,%d)" % (a, b) for a, b in r["masks"]]), res,
                                coq_list(["[" + ";".join(str(x) for x in ps) + "]" for ps in r["pslots"]]), fin)
    return "((%s : list nat * list (list xop) * schedule), (%s : xobservation))" % (inp, obs)


# ---------------------------------------------------------------- compiler side of select (E + T2)
def split_ir(ir):
    fns, cur = {}, None
    for line in ir.splitlines():
        m = re.match(r'define\s.*?@("[^"]+"|[\w.$]+)\(', line)
        if m:
            cur = (m.group(1).strip('"'), [])
            continue
        if cur is not None:
            if line.startswith("}"):
                fns[cur[0]] = cur[1]
                cur = None
            else:
                cur[1].append(line)
    return fns


def select_recv_slots(body):
    """for every receive ChanOp built in a function body: (slot register, zero-initialised before the
    Select/TrySelect call?, how the slot is made).  Purely syntactic."""
    made, zeroed, chain, res = {}, set(), {}, []
    for line in body:
        t = line.split(";")[0].strip()
        m = re.match(r"(%\w+) = (alloca .*|call ptr @\S*Alloc[ZU]\S*\(.*)", t)
        if m:
            made[m.group(1)] = m.group(2)
            if "AllocZ" in m.group(2):
                zeroed.add(m.group(1))
        m = re.match(r"call void @llvm\.memset\S*\(ptr (%\w+), i8 0,", t)
        if m:
            zeroed.add(m.group(1))
        m = re.match(r"store \S.* (zeroinitializer|null|0|0\.0+e\+00|false), ptr (%\w+)", t)
        if m:
            zeroed.add(m.group(2))
        m = re.match(r'(%\w+) = insertvalue %"[^"]*runtime\.ChanOp" (undef|%\w+), (\w+) (\S+), (\d)', t)
        if m:
            dst, src, ty, val, idx = m.groups()
            st = dict(chain.get(src, {}))
            st[idx] = val
            chain[dst] = st
            if idx == "3" and val == "false" and "1" in st:     # Send == false: a receive case, Val is its buffer
                slot = st["1"]
                res.append((slot, slot in zeroed, made.get(slot, "?")))
    return res


def e2e_part(ck):
    """llgo built from the working tree: a program whose selects receive from closed channels (the receive
    buffer is a compiler-made stack slot the runtime does not write then) vs the reference toolchain, and the
    T2 obligation that every select receive slot is zero-initialised in the emitted IR."""
    import e2e
    acts = []
    L = e2e.LLGo(ck)
    if not L.ok:
        return [("broken", ("e2e:llgo-build", L.buildlog[-1500:]))]
    d = os.path.join(ck.work, "c10e2e")
    e2e.write_module(d, {"main.go": open(os.path.join(H, "e2e", "main.go.txt")).read()}, "c10e2e")
    def emit_ir():
        rcg, outg, gen = L.overlay_build("chore/verifgen", {"main.go": os.path.join(vlib.ROOT, "lib", "verifgen", "main.go")}, "verifgen")
        if rcg != 0:
            return rcg, outg, 1, ""
        rci, ir = vlib.sh([gen, "."], cwd=d, env=L.env(), timeout=900)
        return 0, "", rci, ir

    with ThreadPoolExecutor(2) as tp:      # the program build and the IR emission run side by side
        fb = tp.submit(L.build, d, os.path.join(d, "prog_llgo"))
        fg = tp.submit(emit_ir)
        (rc, out), (rcg, outg, rci, ir) = fb.result(), fg.result()
    # T2: IR of the same package
    if rcg != 0:
        acts.append(("broken", ("t2-select-slot:verifgen-build", outg[-1200:])))
    else:
        if rci != 0:
            acts.append(("broken", ("t2-select-slot:verifgen-run", ir[-1200:])))
        else:
            nslot = nfn = 0
            for fname, body in split_ir(ir).items():
                slots = select_recv_slots(body)
                if slots:
                    nfn += 1
                for slot, ok, how in slots:
                    nslot += 1
                    if not ok:
                        acts.append(("viol", ("select-recv-slot-not-zero-initialised",
                                              "function %s: the receive buffer %s of a select case (%s) is passed to the runtime without being zeroed; "
                                              "chanTryRecv does not write it when the case fires on a closed, drained channel" % (fname, slot, how),
                                              {"function": fname, "slot": slot, "made_by": how})))
            if nslot == 0:
                acts.append(("broken", ("t2-select-slot:no-receive-case-found-in-ir", "the syntactic extraction found no receive ChanOp")))
            acts.append(("cov_t2", "%d select receive buffers in %d functions checked for zero-initialisation in the emitted IR" % (nslot, nfn)))
            acts.append(("count", nslot))
    # E: run it
    if rc != 0:
        acts.append(("log", "e2e: llgo build of the select program failed: " + out[-600:]))
        acts.append(("cov", "skipped: llgo could not compile the program"))
        return acts
    rc2, out2 = e2e.go_build(d, os.path.join(d, "prog_go"))
    rcr, _, want = e2e.run_plain(os.path.join(d, "prog_go"), timeout=60)
    if rc2 != 0 or rcr != 0:
        acts.append(("log", "e2e: reference build/run failed " + out2[-300:]))
        acts.append(("cov", "skipped: reference build failed"))
        return acts
    rc1, _, got = L.run_bin(os.path.join(d, "prog_llgo"), timeout=60)
    gl, wl = got.strip().split("\n"), want.strip().split("\n")
    if rc1 == 124:
        acts.append(("viol", ("e2e-select-hang", "llgo-compiled select program did not finish within 60 s", {"stderr_tail": got[-600:]})))
    elif rc1 != 0 or len(gl) != len(wl):
        acts.append(("viol", ("e2e-select-run", "llgo-compiled select program: exit %d, %d lines (go: %d)" % (rc1, len(gl), len(wl)), {"stderr_tail": got[-600:]})))
    else:
        ndiff = 0
        for a, b in zip(gl, wl):
            if a != b:
                ndiff += 1
                tag = b.split(" ")[0]
                key = "e2e-select-recv-from-closed-channel-not-zero" if tag[0] in "ABCD" else "e2e-chan-" + tag
                acts.append(("viol", (key, "llgo prints %r, go prints %r" % (a, b), {"llgo": a, "go": b})))
        acts.append(("cov", "%d lines compared with the reference toolchain, %d differ" % (len(wl), ndiff)))
        acts.append(("count", len(wl)))
    return acts


def run(ck):
    ck.trusted = ["Coq 8.16.1 kernel (coqc, vm_compute)",
                  "harness scheduler props/C10/harness/vsched + stand-ins psync/clite (Mesa monitors, spurious wake-ups, Broadcast wakes all)",
                  "hand-written model coq/theories/C10/Model.v tied to z_chan.go by the schedule-indexed correspondence",
                  "linearizability oracle in props/C10/harness/rt/chan_verif_test.go (Go channel semantics)",
                  "lib/e2e.py + lib/verifgen (llgo built from the working tree, LLVM 14 shims), reference go toolchain, syntactic IR extraction in check.py"]
    ck.assumptions = ["pthread mutex/condition variables behave as Mesa monitors (wake-ups may be spurious, Broadcast wakes every waiter)",
                      "channel fields are touched only under the channel mutex, so one critical section is one atomic step",
                      "one channel, no select registered on it (p.sops empty); fewer than 2^16 threads (sends is a uint16)"]
    ck.coq_build("C10")
    ck.coq_props("LLGoV.C10.Props", "theories/C10/Props.v")
    ck.phase("coq built")

    ex = ThreadPoolExecutor(1)
    fut = ex.submit(e2e_part, ck)

    d = ccmod.make_module(ck)
    ccmod.add_pkg(d, "rt", os.path.join(H, "rt"), ["runtime/internal/runtime/z_chan.go"])
    win = os.path.join(ck.work, "witness.json")
    json.dump([{"Name": n, "Cap": c, "Progs": [[list(o) for o in p] for p in pr], "Sched": sc}
               for n, c, pr, sc, _ in WITNESSES], open(win, "w"))
    out = os.path.join(ck.work, "c10.jsonl")
    nrand = {"quick": 1200, "thorough": 20000}[ck.tier]
    xwin = os.path.join(ck.work, "xwitness.json")
    json.dump([{"Name": n, "Caps": caps, "Progs": progs, "Sched": sc} for n, caps, progs, sc, _ in XWITNESSES], open(xwin, "w"))
    xoutp = os.path.join(ck.work, "c10sel.jsonl")
    nsel = {"quick": 1000, "thorough": 20000}[ck.tier]
    rc, log = ccmod.go_test(ck, d, "rt", {"VERIF_OUT": out, "VERIF_N": str(nrand), "VERIF_IN": win,
                                           "VERIF_OUT_SEL": xoutp, "VERIF_N_SEL": str(nsel), "VERIF_IN_SEL": xwin},
                            timeout=240 if ck.tier == "quick" else 1700)
    ck.phase("harness ran")
    if rc != 0 or not os.path.exists(out):
        ck.correspondence_broken("harness:z_chan.go", log[-2000:])
        return ck.finish()
    runs, viols, wit, stats = [], [], [], {}
    xruns, xstats = [], {}
    if not os.path.exists(xoutp):
        ck.correspondence_broken("harness:z_chan.go/select", log[-2000:])
        return ck.finish()
    for line in open(xoutp):
        r = json.loads(line)
        k = r["kind"]
        if k == "run":
            xruns.append(r)
        elif k == "viol":
            ck.violation(r["key"], r.get("what", ""), {kk: r[kk] for kk in ("progs", "sched", "end", "history")})
        elif k == "witness":
            if not r["replayed"] or not r["flagged"]:
                ck.log("select witness %s no longer reproduces on the real code (defect repaired?): %s" % (r["name"], r["history"]))
            wit.append(r)
        elif k == "stat":
            xstats.update(r)
    wit_sel, wit = wit, []
    for line in open(out):
        r = json.loads(line)
        k = r["kind"]
        if k == "run":
            runs.append(r)
        elif k == "viol":
            viols.append(r)
        elif k == "witness":
            wit.append(r)
        elif k == "stat":
            stats.update(r)

    # property oracle, evaluated on the implementation
    for v in viols:
        ck.violation(v["key"], v.get("what", ""), {k: v[k] for k in ("cap", "progs", "sched", "end", "history")})
    # every witness of a *_refuted theorem must reproduce on the real code
    vkeys = collections.defaultdict(set)
    for v in viols:
        vkeys[(v["cap"], v["progs"], tuple(v["sched"]))].add(v["key"])
    for (name, cap, progs, sched, keys), w in zip(WITNESSES, wit):
        if not w["replayed"] or not w["flagged"]:
            ck.log("witness %s no longer reproduces on the real code (defect repaired?): %s" % (name, w["history"]))
    # the witnesses in check.py are the ones the Coq theorems are about
    body = "From LLGoV Require Import Lib.Common C10.Model C10.Proofs.\n"
    for name, cap, progs, sched, _ in WITNESSES:
        body += "Goal %s = (%d%%nat, %s, %s). Proof. reflexivity. Qed.\n" % (
            name, cap, coq_list([coq_prog(p) for p in progs]), coq_nats(sched))
    body = body.replace("C10.Model C10.Proofs.", "C10.Model C10.Proofs C10.SelModel C10.SelProofs.\nLocal Open Scope N_scope.")
    for name, caps, progs, sched, _ in XWITNESSES:
        body += "Goal %s = (%s, %s, %s). Proof. reflexivity. Qed.\n" % (
            name, coq_nats(caps), coq_list([coq_list([coq_xop(o) for o in p]) for p in progs]), coq_nats(sched))
    rcw, outw = ck.coq_run(body, "c10_witness")
    if rcw != 0:
        ck.correspondence_broken("C10.witnesses", outw[-800:])

    # model vs implementation, evaluated inside Coq
    # the oracle has judged every executed schedule on the real code; the model is evaluated inside Coq on
    # at most this many of them (seeded sample, witness replays first), so that the thorough tier stays
    # within its budget on a loaded machine
    lim = {"quick": 10 ** 9, "thorough": 25000}[ck.tier]
    n_all, nx_all = len(runs), len(xruns)
    if len(runs) > lim:
        runs = runs[:len(WITNESSES)] + ck.rng.sample(runs[len(WITNESSES):], lim - len(WITNESSES))
    if len(xruns) > lim:
        xruns = xruns[:len(XWITNESSES)] + ck.rng.sample(xruns[len(XWITNESSES):], lim - len(XWITNESSES))
    ck.cov["schedules_executed_and_judged_by_oracle"] = n_all + nx_all
    ck.cov["schedules_compared_with_model_in_coq"] = len(runs) + len(xruns)
    hdr = "From LLGoV Require Import Lib.Common C10.Model.\nLocal Open Scope N_scope.\n"
    terms = [case_term(r) for r in runs]
    bad = ck.coq_mismatches(hdr, terms, "observe", "obs_eqb", "c10_runs", shard=250)
    xhdr = "From LLGoV Require Import Lib.Common C10.Model C10.SelModel.\nLocal Open Scope N_scope.\n"
    xbad = ck.coq_mismatches(xhdr, [xcase_term(r) for r in xruns], "x_observe", "xobs_eqb", "c10_sel", shard=250)
    if xbad:
        b = xruns[xbad[0]]
        ck.correspondence_broken("C10.SelModel/schedule", {"n_mismatch": len(xbad), "first": {
            k: b[k] for k in ("caps", "progs", "sched", "masks", "res", "pslots", "fin", "end")}})
    ck.phase("model compared")
    if bad:
        b = runs[bad[0]]
        ck.correspondence_broken("C10.Model/schedule", {"n_mismatch": len(bad), "first": {
            k: b[k] for k in ("cap", "progs", "sched", "masks", "res", "pslots", "fin", "end")}})
    e2e_cov = []
    for kind, arg in fut.result():
        if kind == "viol":
            ck.violation(*arg)
        elif kind == "broken":
            ck.correspondence_broken(*arg)
        elif kind == "log":
            ck.log(arg)
        elif kind == "cov":
            e2e_cov.append(arg)
        elif kind == "cov_t2":
            ck.cov["t2_select_recv_slot"] = arg
        elif kind == "count":
            ck.cov["evaluations"] += arg
    ck.cov["e2e_select"] = e2e_cov
    ck.phase("e2e done")
    classes = stats.get("classes", {})
    distinct = len({(r["cap"], json.dumps(r["progs"]), tuple(r["sched"])) for r in runs if len(r["sched"]) > 3})
    samples = [{k: r[k] for k in ("cap", "progs", "sched", "res", "end")} for r in runs[len(runs) // 3: len(runs) // 3 + 2]]
    classes = dict(classes)
    classes.update({"select:" + k: v for k, v in xstats.get("classes", {}).items()})
    xdistinct = len({(json.dumps(r["caps"]), json.dumps(r["progs"]), tuple(r["sched"])) for r in xruns if len(r["sched"]) > 3})
    ck.add_cov(evaluations=len(runs) + len(xruns), nontrivial=distinct + xdistinct, samples=samples, classes=classes)
    ck.cov["select_runs"] = len(xruns)
    ck.cov["steps_executed_on_real_code"] = sum(len(r["sched"]) for r in runs)
    ck.cov["witness_replays"] = [{"name": w["name"], "end": w["end"], "flagged": w["flagged"]} for w in wit]
    ck.cov["rule"] = ("explicit schedules executed on the real z_chan.go (goroutines gated at Lock / Wait / Broadcast by the harness "
                      "scheduler): DFS with state pruning over all interleavings of the systematic configurations (2 threads x <=2 ops, "
                      "3 threads x 1 op in the quick tier; 2x3, 2x2 with try-ops, 3x1 with try-ops, 3x2 in the thorough tier; capacity 0,1,2; "
                      "spurious wake-ups <=1) + random schedules of random configurations (2-4 threads, 1-3 ops, capacity 0-2); each executed "
                      "schedule is one case for the model (masks after every step, results, final fields) and for the linearizability oracle. "
                      "Select: every 2-case Select / TrySelect over the channel sets {0},{1},{0,0},{0,1} (thorough: also {2},{1,0},{1,1}) against every single and every pair of plain partners "
                      "(send/recv/close), and mirrored pairs of selects: the first 6 DFS paths per configuration in the quick tier (400 in the thorough tier) + random schedules of random "
                      "select configurations (2-3 threads, 1-2 operations, 1-2 channels)")
    return ck.finish()
