"""C14 - link names are unique per entity and consistent across packages."""
import json, os, re, collections, random, sys, threading, time
from concurrent.futures import ThreadPoolExecutor
import vlib
from vlib import coq_bytes as S, coq_list

HERE = os.path.dirname(os.path.abspath(__file__))
H = os.path.join(HERE, "harness")
sys.path.insert(0, HERE)
import progs  # noqa: E402

PATCH = "github.com/goplus/llgo/runtime/internal/lib/"
COQ_READY = threading.Event()
HDR = "From LLGoV Require Import C07.Model C14.Model.\nLocal Open Scope N_scope.\n"


def nl(xs):
    return "[" + ";".join(str(x) for x in xs) + "]%N"


# ---------- python mirror of the guard (only used to CLASSIFY collisions, never to decide them) ----------
def path_of(p):
    return p[len(PATCH):] if p.startswith(PATCH) else p


def ok_path(p):
    return bool(p) and "." not in p.rsplit("/", 1)[-1] and not p.startswith(PATCH) \
        and not p.startswith("__llgo_stub") and not p.startswith("_llgo_")


def ent_term(e):
    k = e["k"]
    if k == "func":
        return "(EFunc %s %s %s %s)" % (S(e["pkg"]), S(e["name"]), nl(e["clos"] or []), e["targs"])
    if k == "method":
        return "(EMethod %s %s %s %s %s %s)" % (S(e["pkg"]), "true" if e["ptr"] else "false", S(e["tname"]), e["rtargs"],
                                               S(e["name"]), nl(e["clos"] or []))
    if k == "wrap":
        return "(EWrap %s %s %s %s %s %s %s)" % (S(e["pkg"]), {"thunk": "WThunk", "bound": "WBound"}[e["wk"]], S(e["rpkg"]),
                                                  "true" if e["ptr"] else "false", S(e["tname"]), e["rtargs"], S(e["name"]))
    if k == "global":
        return "(EGlobal %s %s)" % (S(e["pkg"]), S(e["name"]))
    if k == "init":
        return "(EInit %s %d)" % (S(e["pkg"]), e["n"])
    raise ValueError(k)


def gen_harness(pkgname):
    t = open(os.path.join(H, "names_verif_test.go.tmpl")).read()
    if pkgname == "abi":
        t = t.replace("@PKG@", "abi").replace("@IMPORTS@", "").replace("@ABI@", "").replace("@SSAONLY@", "")
    else:
        frag = open(os.path.join(H, "ssa_only.go.frag")).read()
        t = t.replace("@PKG@", "ssa").replace("@IMPORTS@", '\n\t"github.com/goplus/llgo/ssa/abi"').replace("@ABI@", "abi.") \
             .replace("@SSAONLY@", frag)
    t = t.replace("func TestVerif(", "func TestVerifC14(")
    return t


def run_abi(ck, recs, n):
    src = os.path.join(ck.work, "abi_names_verif_test.go")
    open(src, "w").write(gen_harness("abi"))
    out = os.path.join(ck.work, "abi.jsonl")
    rc, log = ck.go_test_overlay("ssa/abi", {"zz_c14_verif_test.go": src}, run="TestVerifC14",
                                 env={"VERIF_OUT": out, "VERIF_N": str(n)})
    if rc != 0 or not os.path.exists(out):
        ck.correspondence_broken("harness:ssa/abi", log[-1500:])
        return
    for line in open(out):
        r = json.loads(line)
        r["src"] = "abi"
        recs[r["kind"]].append(r)


def run_ssa(ck, recs, n):
    """ssa.FuncName needs the LLVM-linked package: go test with the e2e toolchain environment"""
    import e2e
    src = os.path.join(ck.work, "ssa_names_verif_test.go")
    open(src, "w").write(gen_harness("ssa"))
    out = os.path.join(ck.work, "ssa.jsonl")
    ovp = os.path.join(ck.work, "overlay_c14_ssa.json")
    json.dump({"Replace": {os.path.join(vlib.REPO, "ssa", "zz_c14_verif_test.go"): src}}, open(ovp, "w"))
    cache = os.path.join(ck.work, "xdgcache_ssa")
    os.makedirs(cache, exist_ok=True)
    env = e2e.tc_env(cache, {"VERIF_OUT": out, "VERIF_N": str(n), "VERIF_SEED": str(ck.seed)})
    rc, log = vlib.sh(["go", "test", "-tags", "llvm14", "-vet=off", "-count=1", "-overlay", ovp, "-run", "TestVerifC14",
                       "-timeout", "600s", "./ssa"], cwd=vlib.REPO, env=env, timeout=900)
    if rc != 0 or not os.path.exists(out):
        ck.correspondence_broken("harness:ssa", log[-1500:])
        return
    for line in open(out):
        r = json.loads(line)
        r["src"] = "ssa"
        if r["kind"] == "fn":
            recs["fn"].append(r)      # FullName/TypeArgs records are taken from the pure-Go run


def model_names(ck, terms, name, with_linkage=False):
    """link_name (and linkage_of) of every entity term, evaluated by the Coq model"""
    COQ_READY.wait(1500)
    body = HDR + "".join("Eval vm_compute in link_name true %s.\n" % t for t in terms)
    if with_linkage:
        body += "".join("Eval vm_compute in linkage_of %s.\n" % t for t in terms)
    rc, out = ck.coq_run(body, name)
    if rc != 0:
        ck.broken.append("model-eval:" + name)
        ck.log(out[-800:])
        return None
    vals = re.findall(r"=\s*(\[[0-9;\s]*\])\s*:\s*str", out)
    links = re.findall(r"=\s*(LinkOnce|External)\s*:\s*linkage", out)
    if len(vals) != len(terms) or (with_linkage and len(links) != len(terms)):
        ck.broken.append("model-eval-parse:" + name)
        return None
    names = ["".join(chr(int(x)) for x in re.findall(r"\d+", v)) for v in vals]
    return (names, links) if with_linkage else names


WEAK = "WwVv"


def archive_symbols(L, mod):
    """per-package symbol tables: the archives llgo keeps in its (private) build cache,
    <cache>/llgo/build/<arch>/<package path>/<hash>.a; the main package is not cached"""
    base = os.path.join(L.cache, "llgo", "build")
    out = {}
    for root, _, fs in os.walk(base):
        arch = [os.path.join(root, f) for f in fs if f.endswith(".a")]
        rel = os.path.relpath(root, base).split(os.sep, 1)
        if not arch or len(rel) < 2:
            continue
        pkg = rel[1]
        if pkg == mod or pkg.startswith(mod + "/"):
            out[pkg] = nm_defined(max(arch, key=os.path.getmtime))
    return out


def check_archives(ck, L, mod, replay, res):
    """a name defined (non-local) by more than one package object must be weak in all of them"""
    per = archive_symbols(L, mod)
    res["archives"] = sorted(per)
    definers = collections.defaultdict(dict)
    for pkg, syms in per.items():
        for n, c in syms.items():
            if c.isupper() or c in WEAK:
                definers[n][pkg] = c
    shared = {n: d for n, d in definers.items() if len(d) > 1}
    res["shared_definitions"] = len(shared)
    res["shared_sample"] = sorted(shared)[:12]
    bad = {n: d for n, d in shared.items() if any(c not in WEAK for c in d.values())}
    for n in sorted(bad)[:6]:
        ck.violation("e2e-mergeable-strong-definition",
                     "symbol %r is defined by the objects of %d packages and is not weak in all of them: %s"
                     % (n, len(bad[n]), ", ".join("%s:%s" % kv for kv in sorted(bad[n].items()))),
                     dict(replay, symbol=n, definers=bad[n], all_bad=sorted(bad)[:40]))
    return per, shared


def nm_defined(path):
    rc, out = vlib.sh(["/usr/lib/llvm-14/bin/llvm-nm", path])
    d = {}
    for line in out.splitlines():
        m = re.match(r"^([0-9a-fA-F]*)\s+([A-Za-z?])\s(.*)$", line)
        if m and m.group(2) not in "Uu":
            d[m.group(3)] = m.group(2)
    return d


def sections(text):
    sec, cur = collections.OrderedDict(), "(start)"
    sec[cur] = []
    for l in text.splitlines():
        if l.startswith("=== "):
            cur = l[4:]
            sec[cur] = []
        else:
            sec[cur].append(l)
    return sec


def run_zoo(ck, L, idx, rng, recs):
    import e2e
    mod, files, ents, params = progs.gen_zoo(rng, idx)
    d = os.path.join(ck.work, "zoo%d" % idx)
    e2e.write_module(d, files, modname=mod)
    res = {"prog": "zoo%d" % idx, "params": params, "n_entities": len(ents)}
    ref = os.path.join(ck.work, "zoo%d.ref" % idx)
    rc, log = e2e.go_build(d, ref)
    if rc != 0:
        ck.correspondence_broken("e2e:zoo-go-build", log[-1500:])
        return res
    _, _, want = e2e.run_plain(ref)
    out = os.path.join(ck.work, "zoo%d.llgo" % idx)
    rc, log = L.build(d, out)
    replay = {"program": "props/C14/progs.py gen_zoo", "seed": ck.seed, "params": params}
    per, shared = check_archives(ck, L, mod, replay, res)
    if rc != 0:
        dups = sorted(set(re.findall(r"multiple definition of `([^']+)'", log) + re.findall(r"duplicate symbol: (\S+)", log)))
        if dups:
            ck.violation("e2e-link-fails-duplicate-definition",
                         "the reference toolchain builds the generated program, llgo fails at link time: %d symbols are defined "
                         "more than once as strong definitions, e.g. %s" % (len(dups), ", ".join(repr(x) for x in dups[:4])),
                         dict(replay, symbols=dups[:40], log=log[-3000:]))
        else:
            ck.violation("e2e-zoo-build-failed", "llgo cannot build the generated multi-package program: " + log[-600:], dict(replay, log=log[-3000:]))
        recs["zoo"].append(res)
        return res
    rc, _, got = L.run_bin(out)
    # (0) behaviour, section by section
    ws, gs = sections(want), sections(got)
    res["sections"] = len(ws)
    res["differing"] = []
    for name, wl in ws.items():
        if gs.get(name) != wl:
            res["differing"].append(name)
            key = name[6:] if name.startswith("known:") else "e2e-output-" + name
            ck.violation(key, "section %r of the generated program: llgo prints %r, the reference toolchain prints %r" % (name, gs.get(name), wl),
                         dict(replay, section=name, llgo=gs.get(name), go=wl))
    # (1) every entity of the program is a defined symbol under the model's name
    mn = model_names(ck, [t for _, t, _ in ents], "zoo%d_names" % idx, with_linkage=True)
    if mn is None:
        return res
    names, links = mn
    defined = nm_defined(out)
    res["defined_symbols"] = len(defined)
    missing = [(lab, n) for (lab, _, _), n in zip(ents, names) if n not in defined]
    for lab, n in missing[:8]:
        ck.violation("e2e-symbol-missing", "entity %s: the model's link name %r is not a defined symbol of the llgo binary" % (lab, n),
                     dict(replay, entity=lab, model_name=n, similar=[s for s in defined if s.split("$")[0][-12:] == n.split("$")[0][-12:]][:10]))
    res["symbols_checked"] = len(ents)
    res["symbols_missing"] = len(missing)
    # linkage class, in the binary and in every package object: weak iff the model says LinkOnce
    res["linkonce_entities"] = links.count("LinkOnce")
    res["linkonce_entities_in_2_objects"] = 0
    for (lab, _, kind), n, lk in zip(ents, names, links):
        if (lk == "LinkOnce") != (kind in ("inst", "stub")):
            ck.correspondence_broken("C14.Model/linkage_of", "entity %s: model says %s, the program's entity list says %s" % (lab, lk, kind))
        where = dict((pkg, syms[n]) for pkg, syms in per.items() if n in syms and (syms[n].isupper() or syms[n] in WEAK))
        if n in defined:
            where["(binary)"] = defined[n]
        if lk == "LinkOnce" and len(where) > 2:
            res["linkonce_entities_in_2_objects"] += 1
        wrong = dict((w, c) for w, c in where.items() if (c in WEAK) != (lk == "LinkOnce"))
        if wrong:
            ck.violation("e2e-linkage-class", "entity %s (%s) is %s in the model, symbol class %s"
                         % (lab, n, lk, ", ".join("%s:%s" % kv for kv in sorted(wrong.items()))),
                         dict(replay, entity=lab, name=n, model=lk, nm=where))
    # (1b) type descriptors of a type declared inside a generic function: one symbol per instantiation
    ld = params.get("local_descriptors")
    if ld:
        rx = re.compile(ld["regex"])
        found = sorted(set(m.group(1) for m in (rx.match(n) for n in defined) if m))
        res["local_descriptors"] = found
        lost = [w for w in ld["want"] if w not in found]
        if lost:
            ck.violation("e2e-typearg-same-pkgname-merged",
                         "the local type box of the generic function Box has %d instantiations %s, the binary has descriptor symbols for %s only"
                         % (len(ld["want"]), ld["want"], found),
                         dict(replay, want=ld["want"], found=found,
                              symbols=[n for n in defined if ".box[" in n][:20]))
    by = collections.defaultdict(list)
    for (lab, _, kind), n in zip(ents, names):
        by[n].append((lab, kind))
    res["collisions"] = []
    for n, ls in by.items():
        if len(ls) > 1:
            res["collisions"].append({"name": n, "entities": [l for l, _ in ls]})
            if all(k == "known-wrap" for _, k in ls):
                ck.violation("wrapper-name-drops-receiver-package",
                             "entities %s all get the link name %r" % ([l for l, _ in ls], n), dict(replay, name=n, entities=ls))
            else:
                ck.violation("e2e-name-collision", "entities %s all get the link name %r" % ([l for l, _ in ls], n),
                             dict(replay, name=n, entities=ls))
    recs["zoo"].append(res)
    return res


def run_f10(ck, L, rng, recs):
    import e2e
    mod, files, ents, params = progs.gen_f10(rng)
    d = os.path.join(ck.work, "f10")
    e2e.write_module(d, files, modname=mod)
    res = {"prog": "f10", "params": params}
    names = model_names(ck, [t for _, t, _ in ents], "f10_names")
    if names is None:
        return res
    res["model_names"] = names
    replay = {"program": "props/C14/progs.py gen_f10", "params": params, "files": files, "model_names": names}
    if names[0] != names[1]:
        ck.correspondence_broken("C14.Model/f10-witness", "the model no longer gives the two entities one name: %r" % names)
    ref = os.path.join(ck.work, "f10.ref")
    rc, log = e2e.go_build(d, ref)
    if rc != 0:
        ck.correspondence_broken("e2e:f10-go-build", log[-1500:])
        return res
    _, _, want = e2e.run_plain(ref)
    out = os.path.join(ck.work, "f10.llgo")
    rc, log = L.build(d, out)
    if rc != 0:
        res["llgo"] = "build failed"
        if ("multiple definition of `%s'" % names[0]) in log or ("duplicate symbol: %s" % names[0]) in log:
            ck.violation("dotted-last-path-element-duplicate-symbol",
                         "func %s of package %s/%s.%s and method %s.%s of package %s/%s both get the symbol %r: the link fails with a duplicate definition (the reference toolchain builds and runs the program)"
                         % (params["c"], mod, params["a"], params["b"], params["b"], params["c"], mod, params["a"], names[0]),
                         dict(replay, log=log[-1500:]))
        else:
            ck.violation("e2e-f10-build-failed", "llgo cannot build the program: " + log[-600:], dict(replay, log=log[-3000:]))
        recs["f10"].append(res)
        return res
    rc, _, got = L.run_bin(out)
    res["llgo"] = "built"
    if got != want:
        ck.violation("dotted-last-path-element-wrong-output", "llgo prints %r, the reference toolchain prints %r" % (got, want),
                     dict(replay, llgo=got, go=want))
    recs["f10"].append(res)
    return res


def run_e2e(ck, recs):
    import e2e
    L = e2e.LLGo(ck)
    if not L.ok:
        ck.correspondence_broken("e2e:llgo-build", L.buildlog[-2000:])
        return
    nzoo = {"quick": 1, "thorough": 4}[ck.tier]
    jobs = [("f10", None, random.Random(ck.seed * 7 + 1))] + [("zoo", i, random.Random(ck.seed * 1000 + i)) for i in range(nzoo)]

    def one(j):
        if j[0] == "f10":
            return run_f10(ck, L, j[2], recs)
        return run_zoo(ck, L, j[1], j[2], recs)
    ck.log("llgo built: %.1fs" % (time.time() - ck.t0))
    with ThreadPoolExecutor(2) as ex:
        list(ex.map(one, jobs))


def classify_collisions(ck, fns, classes):
    """property oracle on the real ssa.FuncName: different entities, one name"""
    by = collections.defaultdict(dict)
    for r in fns:
        e = r["ent"]
        by[r["got"]].setdefault(json.dumps(e, sort_keys=True), e)
    for name, es in by.items():
        if len(es) < 2:
            continue
        es = list(es.values())
        for i in range(1, len(es)):
            a, b2 = es[0], es[i]
            why = None
            paths = [x["pkg"] for x in (a, b2)] + [x["rpkg"] for x in (a, b2) if x["k"] == "wrap"]
            wa = {k: v for k, v in a.items() if k != "rpkg"}
            wb = {k: v for k, v in b2.items() if k != "rpkg"}
            if {a["k"], b2["k"]} == {"func", "global"} and a["pkg"] == b2["pkg"] and a["name"] == b2["name"]:
                why = "exception:func-and-var-one-identifier"
            elif a["k"] == "wrap" and b2["k"] == "wrap" and wa == wb and path_of(a["rpkg"]) != path_of(b2["rpkg"]):
                # two really different receiver packages (fixed in /repo by ae2205f: must not fire any more)
                why = "wrapper-name-drops-receiver-package"
            elif a["k"] == "wrap" and b2["k"] == "wrap" and wa == wb:
                # the receiver packages differ only by llgo's overlay prefix, which PathOf strips by design:
                # runtime/internal/lib/x/a IS package x/a (the overlay replaces it; both never exist in one program)
                why = "exception:patch-prefix-merge"
            elif any(p.startswith(PATCH) for p in paths) or PATCH in json.dumps([a, b2]):
                why = "exception:patch-prefix-merge"
            elif any("." in path_of(p).rsplit("/", 1)[-1] for p in paths):
                why = "dotted-last-path-element"
            elif any(not p for p in paths):
                why = "exception:empty-path"
            classes["collision:" + (why or "UNEXPLAINED")] += 1
            if why is None:
                ck.violation("funcname-collision", "ssa.FuncName gives %r to two different entities" % name, {"name": name, "a": a, "b": b2})
            elif not why.startswith("exception:"):
                ck.violation(why, "ssa.FuncName gives %r to two different entities: %s / %s" % (name, json.dumps(a), json.dumps(b2)),
                             {"name": name, "a": a, "b": b2})


def classify_targs(ck, recs, classes):
    """property oracle on the real abi.TypeArgs / NamedName: different type-argument lists, one text"""
    for kind in ("targs", "named"):
        by = collections.defaultdict(dict)
        for r in recs[kind]:
            by[(r.get("name", ""), r["text"])].setdefault(r["targs"], r)
        for (_, text), ts in by.items():
            if len(ts) < 2:
                continue
            rs = list(ts.values())
            for i in range(1, len(rs)):
                a, b2 = rs[0], rs[i]
                both = a["targs"] + b2["targs"]
                if ";".join(str(x) for x in PATCH.encode()) in both:
                    classes["collision:exception:patch-prefix-merge(targs)"] += 1
                    continue
                ca, cb = a.get("class", ""), b2.get("class", "")
                key = "typeargs-collision"
                if ca.startswith("pair:samename") and cb.startswith("pair:samename"):
                    key = "typearg-same-pkgname-collision"
                elif ca.startswith("pair:local") and cb.startswith("pair:local"):
                    key = "typearg-local-scope-collision"
                elif ca.startswith("pair:twopkg") and cb.startswith("pair:twopkg"):
                    key = "typearg-two-packages-collision"
                classes["collision:" + key] += 1
                ck.violation(key, "abi.%s renders two different type-argument lists as %r (%s / %s)"
                             % ("TypeArgs" if kind == "targs" else "NamedName", text, ca or "random", cb or "random"),
                             {"text": text, "a": a, "b": b2})


def run(ck):
    ck.trusted = ["Coq 8.16.1 kernel (coqc, vm_compute)",
                  "Go overlay harness props/C14/harness/names_verif_test.go.tmpl (+ssa_only.go.frag): go/types construction of generated packages, receivers, type arguments",
                  "hand-written model coq/theories/C14/Model.v (and the C07 type-argument rendering it reuses) tied by correspondence",
                  "reference toolchain go1.24 (program behaviour), llvm-nm 14 (symbol table of the llgo binary)",
                  "props/C14/progs.py: the list of entities of the generated program is written by hand next to its source"]
    ck.assumptions = ["identifiers and import paths are ASCII; go/ssa names functions F, F$i$j, init#n, M$thunk, M$bound (x/tools v0.36.0)",
                      "linkname / export directives, cgo names, unnamed receiver types, C callback wrappers and the init$guard variable are outside the model",
                      "type descriptors are named by C07.Model.type_name (property C07)"]
    n = {"quick": 200, "thorough": 4000}[ck.tier]
    recs = collections.defaultdict(list)
    ex = ThreadPoolExecutor(3)
    futs = [ex.submit(run_e2e, ck, recs), ex.submit(run_ssa, ck, recs, n), ex.submit(run_abi, ck, recs, n)]
    # meanwhile: C14 imports C07.Model / C07.PStr: build C07 first, drop C14 objects that are older than them
    ck.coq_build(["C07"])
    ck.broken[:] = [x for x in ck.broken if not x.startswith("coq-build:")]   # re-recorded by the build below if it persists
    d7, d14 = os.path.join(vlib.COQ, "theories", "C07"), os.path.join(vlib.COQ, "theories", "C14")
    dep = max([os.path.getmtime(os.path.join(d7, f)) for f in ("Model.vo", "PStr.vo", "PItab.vo", "Sha256.vo")
               if os.path.exists(os.path.join(d7, f))] or [0])
    for f in os.listdir(d14):
        if f.endswith(".vo") and os.path.getmtime(os.path.join(d14, f)) < dep:
            os.remove(os.path.join(d14, f))
    ok, _ = ck.coq_build(["C07", "C14"])
    ck.coq_props("LLGoV.C14.Props", "theories/C14/Props.v")
    ck.log("coq build + assumptions: %.1fs" % (time.time() - ck.t0))
    COQ_READY.set()
    for f in futs:
        f.result()
    ex.shutdown()
    ck.log("harnesses + e2e done: %.1fs" % (time.time() - ck.t0))
    classes = collections.Counter()
    total = 0

    def compare(kind, terms, model, raw):
        bad = ck.coq_mismatches(HDR, terms, model, "str_eqb", "c14_" + kind)
        if bad:
            ck.correspondence_broken("C14.Model/" + kind, {"n_mismatch": len(bad), "first": raw[bad[0]]})
        return len(terms)

    full = recs["full"]
    fp = [r for r in full if r["haspkg"]]
    ta, nn, fn = recs["targs"], recs["named"], recs["fn"]
    jobs = [
        ("full_name", ["((%s, %s), %s)" % ("(Some %s)" % S(r["pkg"]) if r["haspkg"] else "None", S(r["name"]), S(r["full"])) for r in full],
         "(fun x => full_name (fst x) (snd x))", full),
        ("path_of", ["(%s, %s)" % (S(r["pkg"]), S(r["path"])) for r in fp], "path_of", fp),
        ("type_args", ["(%s, %s)" % (r["targs"], S(r["text"])) for r in ta], "(fun ts => [c_lb] ++ join_comma (targs_strs ts) ++ [c_rb])", ta),
        ("named_name", ["((%s, %s), %s)" % (S(r["name"]), r["targs"], S(r["text"])) for r in nn], "(fun x => named_name (fst x) (snd x))", nn),
        ("func_name", ["(%s, %s)" % (ent_term(r["ent"]), S(r["got"])) for r in fn], "(core_name true)", fn),
    ]
    with ThreadPoolExecutor(5) as ex2:
        total += sum(ex2.map(lambda j: compare(*j), jobs))
    for k in ("full", "targs", "named", "fn"):
        for r in recs[k]:
            classes[k + ":" + r.get("class", "")] += 1
    classify_collisions(ck, fn, classes)
    classify_targs(ck, recs, classes)
    for v in recs["viol"]:
        ck.violation(v["key"], v.get("what", ""), v)
    for r in recs["sigstat"]:
        classes["sig:types-named"] += r["types"]
        classes["sig:distinct-names"] += r["names"]
        classes["sig:collisions"] += r["collisions"]
        total += r["types"]
    for z in recs["zoo"]:
        classes["e2e:entities-checked-in-nm"] += z.get("symbols_checked", 0)
        classes["e2e:sections"] += z.get("sections", 0)
        classes["e2e:sections-differing"] += len(z.get("differing", []))
        classes["e2e:package-objects-inspected"] += len(z.get("archives", []))
        classes["e2e:names-defined-by-2+-package-objects"] += z.get("shared_definitions", 0)
        classes["e2e:linkonce-entities"] += z.get("linkonce_entities", 0)
        classes["e2e:linkonce-entities-emitted-by-2+-package-objects"] += z.get("linkonce_entities_in_2_objects", 0)
        total += z.get("symbols_checked", 0) + z.get("sections", 0)
    total += len(recs["f10"])
    distinct = len(set(r["got"] for r in fn)) + len(set(r["text"] for r in ta)) + len(set(r["full"] for r in full))
    ck.cov["samples"] = [{"fn": fn[len(fn) // 3]} if fn else {}, {"targs": ta[len(ta) // 2]} if ta else {},
                         {"e2e": recs["zoo"][0] if recs["zoo"] else None}, {"f10": recs["f10"][0] if recs["f10"] else None}]
    ck.add_cov(evaluations=total, nontrivial=distinct, classes=dict(classes))
    ck.cov["rule"] = ("(S1) boundary pool of package paths (dotted last / inner elements, patch prefix once, twice, without slash, empty, compiler prefixes) x identifiers "
                      "for abi.FullName/PathOf; random type-argument lists (basic incl. byte/rune, named generic/local with scope indexes, pointer, slice, array, "
                      "map, chan) for abi.TypeArgs/NamedName; random functions, closures, instances, methods (value/pointer/alias/generic receiver, org flag), thunk and "
                      "bound wrappers, globals, init#n for the real ssa.FuncName/FullName, each compared with the Coq model by vm_compute; all entities with one real "
                      "name grouped and classified. (E) one generated multi-package program per seed (names, module path and package directories vary) built by llgo "
                      "from the working tree and by go1.24: output compared section by section, every entity's model name looked up in llvm-nm, linkage class checked, "
                      "model names pairwise distinct; the generic type G[int] / H[int,T] is put behind interfaces, taken as method value and as method expression in three packages, and the per-package "
                      "objects (archives of llgo's private build cache, llvm-nm each) are compared: a name defined by more than one package object must be weak in all of them, every entity is weak "
                      "exactly when the model's linkage_of says LinkOnce (binary and every object), and a link failure with multiple definition is a violation of its own; "
                      "boundary pairs of type arguments that must stay apart (two packages with one package NAME x/a/model - x/b/model, two local types with one name, one type name in two packages; bare and inside pointer/slice/array/map/chan/generic shapes) for abi.TypeArgs/NamedName and ssa.FuncName (functions, closures, generic receivers): different lists, one text is a violation; 900 signature-derived types (func types differing only in the variadic flag, bare and nested in map/slice/pointer/chan/struct/interface/param/result) through the real abi.Builder.TypeName/FuncName: not types.Identical and one name (descriptor _llgo_func$hash, closure stub __llgo_stub._llgo_func$hash) is a violation; the zoo program instantiates Box (generic function with a local type), Size and G with <a>/model.Item and <b>/model.Item from two packages, compares behaviour (assertions, ==, sizes) and counts the descriptor symbols of the local type per instantiation, and asserts func(...int) int against func([]int) int; "
                      "plus the F10 program (package path with a dotted last element). distinct = distinct real names")
    return ck.finish()
