"""C14 - generated multi-package probe programs and the entities they contain.

gen_zoo(rng) -> (modname, files, entities, known_sections)
  entities: list of (label, coq term of type `entity tys`, kind) - every one must be a defined
  symbol of the llgo binary under the name the Coq model computes.
gen_f10(rng) -> (modname, files, entities)   the dotted-last-path-element pair (DESIGN F10)
"""
import re
from vlib import coq_bytes as S

# ---------- Coq term builders (grammar of C07.Model.ty / C14.Model.entity) ----------
INT, STRING, INT8, INT64 = "(TBasic 2 false)", "(TBasic 17 false)", "(TBasic 3 false)", "(TBasic 6 false)"


def tys(ts):
    r = "TsNil"
    for t in reversed(list(ts)):
        r = "(TsCons [] %s %s)" % (t, r)
    return r


def named(pkg, name, targs=(), sc=None):
    scs = "ScPkg" if sc is None else "(ScLocal [%s]%%N)" % ";".join(str(i) for i in sc)
    return "(TNamed (Some %s) %s %s %s)" % (S(pkg), S(name), tys(targs), scs)


def ptr(t): return "(TPtr %s)" % t
def slice_(t): return "(TSlice %s)" % t
def array(n, t): return "(TArray %d %s)" % (n, t)
def map_(k, e): return "(TMap %s %s)" % (k, e)
def nl(xs): return "[" + ";".join(str(x) for x in xs) + "]%N"
def b(x): return "true" if x else "false"


def efunc(p, f, cl=(), ta=()): return "(EFunc %s %s %s %s)" % (S(p), S(f), nl(cl), tys(ta))
def emeth(p, isptr, t, rta, m, cl=()): return "(EMethod %s %s %s %s %s %s)" % (S(p), b(isptr), S(t), tys(rta), S(m), nl(cl))
def ewrap(cp, k, rp, isptr, t, rta, m): return "(EWrap %s %s %s %s %s %s %s)" % (S(cp), {"thunk": "WThunk", "bound": "WBound"}[k], S(rp), b(isptr), S(t), tys(rta), S(m))
def eglobal(p, v): return "(EGlobal %s %s)" % (S(p), S(v))
def einit(p, n): return "(EInit %s %d)" % (S(p), n)
def eroutine(p, n): return "(ERoutine %s %d)" % (S(p), n)
def core(c): return "(ECore %s)" % c
def stub(c): return "(EStubDecl %s)" % c


# module paths of the zoo differ from those of the F10 program (both share one llgo cache)
MODS = ["z", "verifzoo", "ex.am/zoo", "m-1/z_9"]
DIRS = [("a", "b", "c"), ("p", "q", "r"), ("util", "core", "ext"), ("t", "u2", "v_3")]
TNAMES = ["T", "Rec", "Node", "B_1"]
MV = ["M", "Val", "Do_2"]
MP = ["P", "Ptr", "Set"]


def gen_zoo(rng, idx=0):
    mod = rng.choice(MODS) + (str(idx) if idx else "")
    da, db, dc = rng.choice(DIRS)
    T = rng.choice(TNAMES)
    M = rng.choice(MV)
    P = rng.choice(MP)
    PA, PB, PC, PM = mod + "/" + da, mod + "/" + db, mod + "/" + dc, mod
    sub = lambda s: (s.replace("@MOD@", mod).replace("@DA@", da).replace("@DB@", db).replace("@DC@", dc)
                     .replace("@T@", T).replace("@M@", M).replace("@P@", P))
    files = {
        da + "/a.go": sub(A_GO), db + "/b.go": sub(B_GO), dc + "/c.go": sub(C_GO),
        da + "/model/model.go": MODEL_A_GO, db + "/model/model.go": MODEL_B_GO,
        "aa_local.go": sub(LOCAL_GO), "main.go": sub(MAIN_GO),
    }
    E = []

    def add(label, term, kind="core"):
        E.append((label, term, kind))

    # package a
    for (isptr, t, m) in [(False, T, M), (True, T, M), (True, T, P), (False, "U", M), (True, "U", M), (True, "U", P),
                          (False, "K", M), (True, "K", M), (True, "K", P), (False, T, "C"), (True, T, "C"), (True, T, "D")]:
        add("a.%s%s.%s" % ("*" if isptr else "", t, m), core(emeth(PA, isptr, t, (), m)))
    add("a.T.C$1", core(emeth(PA, False, T, (), "C", [1])))
    add("a.T.C$1$1", core(emeth(PA, False, T, (), "C", [1, 1])))
    add("a.(*T).D$1", core(emeth(PA, True, T, (), "D", [1])))
    add("a.(*T).D$2", core(emeth(PA, True, T, (), "D", [2])))
    add("a.(*T).D$2$1", core(emeth(PA, True, T, (), "D", [2, 1])))
    add("a.(*T).D$2$1$1", core(emeth(PA, True, T, (), "D", [2, 1, 1])))
    add("a.F", core(efunc(PA, "F")))
    add("a.F$1", core(efunc(PA, "F", [1])))
    add("a.F$1$1", core(efunc(PA, "F", [1, 1])))
    add("stub a.F$1", stub(efunc(PA, "F", [1])), "stub")
    add("a.Spawn", core(efunc(PA, "Spawn")))
    add("a.Spawn$1", core(efunc(PA, "Spawn", [1])))
    add("a.worker", core(efunc(PA, "worker")))
    add("a.Wrap", core(efunc(PA, "Wrap")))
    add("a.routine1", core(eroutine(PA, 1)))
    add("a.routine2", core(eroutine(PA, 2)))
    add("a.Glob", core(eglobal(PA, "Glob")))
    add("a.init", core(efunc(PA, "init")))
    add("a.init#1", core(einit(PA, 1)))
    add("a.init#2", core(einit(PA, 2)))
    # wrappers compiled inside a for a's own types
    add("a: T.M$bound", core(ewrap(PA, "bound", PA, False, T, (), M)))
    add("a: U.M$bound", core(ewrap(PA, "bound", PA, False, "U", (), M)))
    add("a: (*T).P$thunk", core(ewrap(PA, "thunk", PA, True, T, (), P)))
    add("a: (*U).P$thunk", core(ewrap(PA, "thunk", PA, True, "U", (), P)))
    add("a: T.M$thunk", core(ewrap(PA, "thunk", PA, False, T, (), M)))
    # package b
    for (isptr, m) in [(False, M), (True, M), (True, P)]:
        add("b.%sT.%s" % ("*" if isptr else "", m), core(emeth(PB, isptr, T, (), m)))
        add("b.%sK.%s" % ("*" if isptr else "", m), core(emeth(PB, isptr, "K", (), m)))
    add("b.Glob", core(eglobal(PB, "Glob")))
    add("b.UseMap", core(efunc(PB, "UseMap")))
    add("b.UseMap$1", core(efunc(PB, "UseMap", [1])))
    add("b.UseG", core(efunc(PB, "UseG")))
    # main
    for (isptr, m) in [(False, M), (True, M), (True, P)]:
        add("main.%sT.%s" % ("*" if isptr else "", m), core(emeth(PM, isptr, T, (), m)))
    add("main.main", core(efunc(PM, "main")))
    for i in (1, 2, 3, 4):
        add("main.main$%d" % i, core(efunc(PM, "main", [i])))
    add("main.gofn", core(efunc(PM, "gofn")))
    add("main.glob", core(eglobal(PM, "glob")))
    add("main.routine1", core(eroutine(PM, 1)))
    add("main.routine2", core(eroutine(PM, 2)))
    for i in (0, 1, 2):
        add("main.Local%d" % i, core(efunc(PM, "Local%d" % i)))
    add("main: T.M$bound", core(ewrap(PM, "bound", PM, False, T, (), M)))
    add("main: (*T).P$thunk", core(ewrap(PM, "thunk", PM, True, T, (), P)))
    add("main: T.M$thunk", core(ewrap(PM, "thunk", PM, False, T, (), M)))
    # generic instances (linkonce), type arguments local / aliased / composite, several packages
    mT, aT, bT = named(PM, T), named(PA, T), named(PB, T)
    gi = named(PA, "G", [INT])
    for lab, ta in [("int", INT), ("main.T", mT), ("*b.T", ptr(bT)), ("[]main.T", slice_(mT)),
                    ("map[string]a.T", map_(STRING, aT)), ("a.G[int]", gi),
                    ("Loc.0.0", named(PM, "Loc", (), [0, 0])), ("Loc.1.0", named(PM, "Loc", (), [1, 0])),
                    ("Loc.0.2.0", named(PM, "Loc", (), [0, 2, 0]))]:
        add("a.G[%s].Get" % lab, core(emeth(PA, False, "G", [ta], "Get")), "inst")
        add("a.(*G[%s]).Set" % lab, core(emeth(PA, True, "G", [ta], "Set")), "inst")
        add("a.(*G[%s]).Set$1" % lab, core(emeth(PA, True, "G", [ta], "Set", [1])), "inst")
    add("a.H[int,b.T].Both", core(emeth(PA, False, "H", [INT, bT], "Both")), "inst")
    add("a.Map[int,a.T]", core(efunc(PA, "Map", (), [INT, aT])), "inst")
    add("a.Map$1[int,a.T]", core(efunc(PA, "Map", [1], [INT, aT])), "inst")
    add("a.Map[string,[2]main.T]", core(efunc(PA, "Map", (), [STRING, array(2, mT)])), "inst")
    add("a.Map$1[string,[2]main.T]", core(efunc(PA, "Map", [1], [STRING, array(2, mT)])), "inst")
    add("a.LF[int8]", core(efunc(PA, "LF", (), [INT8])), "inst")
    add("a.LF[int64]", core(efunc(PA, "LF", (), [INT64])), "inst")
    # wrappers compiled into main for the foreign types a.K and b.K (one name before the fix
    # 'keep the package of a foreign receiver in wrapper names'; the section known:wrapper-... prints what they call)
    add("main: a.K.M$bound", core(ewrap(PM, "bound", PA, False, "K", (), M)), "known-wrap")
    add("main: b.K.M$bound", core(ewrap(PM, "bound", PB, False, "K", (), M)), "known-wrap")
    add("main: (*a.K).P$thunk", core(ewrap(PM, "thunk", PA, True, "K", (), P)), "known-wrap")
    add("main: (*b.K).P$thunk", core(ewrap(PM, "thunk", PB, True, "K", (), P)), "known-wrap")
    # the same generic type instance behind interfaces, as method value and as method expression
    # in three packages: every mergeable definition is emitted by b, c and main
    add("a.(*G[int]).Get (wrapper of the value method)", core(emeth(PA, True, "G", [INT], "Get")), "inst")
    add("a.(*H[int,b.T]).Both (wrapper)", core(emeth(PA, True, "H", [INT, bT], "Both")), "inst")
    for lab, cp in (("b", PB), ("c", PC), ("main", PM)):
        add("%s.BoxUse" % lab, core(efunc(cp, "BoxUse")))
        if lab == "c":
            add("c.BoxUse$1", core(efunc(cp, "BoxUse", [1])))
        add("%s: a.G[int].Get$bound" % lab, core(ewrap(cp, "bound", PA, False, "G", [INT], "Get")))
        add("%s: (*a.G[int]).Set$thunk" % lab, core(ewrap(cp, "thunk", PA, True, "G", [INT], "Set")))
        add("%s: a.G[int].Get$thunk" % lab, core(ewrap(cp, "thunk", PA, False, "G", [INT], "Get")))
    # type arguments from two packages with one package NAME (<a>/model, <b>/model), from c and main
    iA, iB = named(PA + "/model", "Item"), named(PB + "/model", "Item")
    for lab, ta in (("a/model.Item", iA), ("b/model.Item", iB)):
        add("a.Size[%s]" % lab, core(efunc(PA, "Size", (), [ta])), "inst")
        add("a.Box[%s]" % lab, core(efunc(PA, "Box", (), [ta])), "inst")
        add("a.G[%s].Get" % lab, core(emeth(PA, False, "G", [ta], "Get")), "inst")
        add("a.(*G[%s]).Set" % lab, core(emeth(PA, True, "G", [ta], "Set")), "inst")
        add("a.(*G[%s]).Set$1" % lab, core(emeth(PA, True, "G", [ta], "Set", [1])), "inst")
    add("a.Box[int]", core(efunc(PA, "Box", (), [INT])), "inst")
    add("c.ModelUse", core(efunc(PC, "ModelUse")))
    add("main.sum", core(efunc(PM, "sum")))
    params = {"mod": mod, "dirs": [da, db, dc], "T": T, "M": M, "P": P}
    # type descriptors of the type box declared inside the generic function Box: one per instantiation
    # (cl/compile.go localNamedName / typeArgName; the position suffix .p<digits> varies between builds)
    params["local_descriptors"] = {"regex": r"^\*?_llgo_" + re.escape(PA) + r"\.box\[(.*)\]\u00b7\d+\.p\d+$",
                                   "want": sorted([PA + "/model.Item", PB + "/model.Item", "int"])}
    return mod, files, E, params


def gen_f10(rng):
    """module x: package x/<a>.<b> with func <c>, package x/<a> with type <b> and value method <c>"""
    mod = rng.choice(["x", "verifprog", "ex.am/mod"])
    a, bb, c = rng.choice([("a", "b", "c"), ("p", "q", "run"), ("yaml", "v3", "do")])
    sub = lambda s: s.replace("@MOD@", mod).replace("@A@", a).replace("@B@", bb).replace("@C@", c)
    files = {a + "/a.go": sub(F10_A), a + "." + bb + "/ab.go": sub(F10_AB), "main.go": sub(F10_MAIN)}
    E = [("func %s of %s/%s.%s" % (c, mod, a, bb), core(efunc(mod + "/" + a + "." + bb, c)), "f10"),
         ("method %s.%s of %s/%s" % (bb, c, mod, a), core(emeth(mod + "/" + a, False, bb, (), c)), "f10")]
    return mod, files, E, {"mod": mod, "a": a, "b": bb, "c": c}


A_GO = '''package @DA@

import "unsafe"

type @T@ struct{ N int }

func (t @T@) @M@() int  { println("a.T.M"); return 1 }
func (t *@T@) @P@() int { println("a.(*T).P"); return 2 }
func (t @T@) C() int {
	return func() int {
		println("a.T.C$1")
		return func() int { println("a.T.C$1$1"); return t.N }()
	}()
}
func (t *@T@) D() int {
	f := func() int { println("a.(*T).D$1"); return 1 }
	g := func() int {
		println("a.(*T).D$2")
		return func() int {
			println("a.(*T).D$2$1")
			return func() int { println("a.(*T).D$2$1$1"); return t.N }()
		}()
	}
	return f() + g()
}

type U struct{ N int }

func (u U) @M@() int  { println("a.U.M"); return 3 }
func (u *U) @P@() int { println("a.(*U).P"); return 4 }

type K struct{ N int }

func (k K) @M@() int  { println("a.K.M"); return 5 }
func (k *K) @P@() int { println("a.(*K).P"); return 6 }

type G[X any] struct{ V X }

func (g G[X]) Get() X   { println("a.G.Get"); return g.V }
func (g *G[X]) Set(v X) { println("a.(*G).Set"); func() { println("a.(*G).Set$1"); g.V = v }() }

type Getter[X any] interface{ Get() X }
type Setter[X any] interface{ Set(X) }
type Bother interface{ Both() int }

type H[X, Y any] struct {
	A X
	B Y
}

func (h H[X, Y]) Both() int { println("a.H.Both"); return 7 }

func Map[X, Y any](x X, f func(X) Y) Y {
	println("a.Map")
	return func() Y { println("a.Map$1"); return f(x) }()
}

func Size[X any](v X) int { return int(unsafe.Sizeof(v)) }

// Box puts v into a value of a type local to this instantiation and reports whether probe
// holds a value of exactly that local type
func Box[X any](v X, probe any) (any, bool) {
	type box struct{ V X }
	_, ok := probe.(box)
	return box{v}, ok
}

func LF[X any](x X) {
	type L struct{ v X }
	println("a.LF", Size(L{x}))
}

var Glob = 7

func F() func() int {
	println("a.F")
	return func() int {
		println("a.F$1")
		return func() int { println("a.F$1$1"); return 3 }()
	}
}

type I interface{ @M@() int }

func Spawn(c chan int) {
	go func() { println("a.Spawn$1"); c <- 1 }()
	<-c
	go worker(2, c)
	<-c
}
func worker(x int, c chan int) { println("a.worker", x); c <- x }

func Wrap() int {
	t := @T@{1}
	u := U{2}
	f, g := t.@M@, u.@M@
	h, k := (*@T@).@P@, (*U).@P@
	e := @T@.@M@
	return f() + g() + h(&t) + k(&u) + e(t)
}

func init() { println("a.init#1") }
func init() { println("a.init#2") }
'''

B_GO = '''package @DB@

import "@MOD@/@DA@"

type @T@ struct{ N int }

func (t @T@) @M@() int  { println("b.T.M"); return 10 }
func (t *@T@) @P@() int { println("b.(*T).P"); return 20 }

type K struct{ N int }

func (k K) @M@() int  { println("b.K.M"); return 50 }
func (k *K) @P@() int { println("b.(*K).P"); return 60 }

var Glob = 8

func UseMap() int {
	return @DA@.Map(1, func(x int) @DA@.@T@ { println("b.UseMap$1"); return @DA@.@T@{N: x + 1} }).N
}
func UseG() int {
	g := @DA@.G[int]{V: 3}
	g.Set(4)
	return g.Get()
}

func BoxUse() int {
	println("b.BoxUse")
	bx := &@DA@.G[int]{V: 30}
	var g @DA@.Getter[int] = bx
	var gv @DA@.Getter[int] = *bx
	var st @DA@.Setter[int] = bx
	var bo @DA@.Bother = &@DA@.H[int, @T@]{A: 1}
	f := bx.Get
	h := (*@DA@.G[int]).Set
	k := @DA@.G[int].Get
	h(bx, 31)
	st.Set(32)
	return g.Get() + gv.Get() + f() + k(*bx) + bo.Both()
}
'''

C_GO = '''package @DC@

import (
	"@MOD@/@DA@"
	amodel "@MOD@/@DA@/model"
	"@MOD@/@DB@"
	bmodel "@MOD@/@DB@/model"
)

func ModelUse() (any, any) {
	println("c.ModelUse", @DA@.Size(amodel.Item{}), @DA@.Size(bmodel.Item{}))
	ga := @DA@.G[amodel.Item]{}
	ga.Set(amodel.Item{ID: 11})
	gb := @DA@.G[bmodel.Item]{}
	gb.Set(bmodel.Item{ID: 12, Tag: "c"})
	println(ga.Get().ID, gb.Get().ID, gb.Get().Tag)
	x, _ := @DA@.Box(amodel.Item{ID: 7}, nil)
	y, _ := @DA@.Box(bmodel.Item{ID: 7}, nil)
	return x, y
}

func BoxUse() int {
	println("c.BoxUse")
	bx := &@DA@.G[int]{V: 40}
	var g @DA@.Getter[int] = bx
	var gv @DA@.Getter[int] = *bx
	var st @DA@.Setter[int] = bx
	var bo @DA@.Bother = &@DA@.H[int, @DB@.@T@]{A: 2}
	f := bx.Get
	h := (*@DA@.G[int]).Set
	k := @DA@.G[int].Get
	h(bx, 41)
	st.Set(42)
	println(@DA@.Map(3, func(x int) @DA@.@T@ { println("c.BoxUse$1"); return @DA@.@T@{N: x} }).N)
	return g.Get() + gv.Get() + f() + k(*bx) + bo.Both()
}
'''

LOCAL_GO = '''package main

import "@MOD@/@DA@"

func Local0() int {
	type Loc struct{ Q int }
	g := @DA@.G[Loc]{}
	g.Set(Loc{5})
	return g.Get().Q
}
func Local1() int {
	type Loc struct{ Q, R int }
	g := @DA@.G[Loc]{}
	g.Set(Loc{6, 1})
	return g.Get().R + g.Get().Q
}
func Local2() int {
	{
		type Loc struct{ Q int8 }
		g := @DA@.G[Loc]{}
		g.Set(Loc{7})
		return int(g.Get().Q)
	}
}
'''

MAIN_GO = '''package main

import (
	"@MOD@/@DA@"
	"@MOD@/@DB@"
	"@MOD@/@DC@"
	amodel "@MOD@/@DA@/model"
	bmodel "@MOD@/@DB@/model"
)

type @T@ struct{ N int }

func sum(xs ...int) int {
	n := 0
	for _, x := range xs {
		n += x
	}
	return n
}

func BoxUse() int {
	println("main.BoxUse")
	bx := &@DA@.G[int]{V: 50}
	var g @DA@.Getter[int] = bx
	var gv @DA@.Getter[int] = *bx
	var st @DA@.Setter[int] = bx
	var bo @DA@.Bother = &@DA@.H[int, @DB@.@T@]{A: 3}
	f := bx.Get
	h := (*@DA@.G[int]).Set
	k := @DA@.G[int].Get
	h(bx, 51)
	st.Set(52)
	return g.Get() + gv.Get() + f() + k(*bx) + bo.Both()
}

func (t @T@) @M@() int  { println("main.T.M"); return 100 }
func (t *@T@) @P@() int { println("main.(*T).P"); return 200 }

type AL = @DA@.@T@

var glob = 9

func gofn(x int, c chan int) { println("main.gofn", x); c <- x }

func main() {
	println("=== methods")
	at, bt, mt, au := @DA@.@T@{N: 1}, @DB@.@T@{N: 2}, @T@{N: 3}, @DA@.U{N: 4}
	ak, bk := @DA@.K{N: 1}, @DB@.K{N: 2}
	println(at.@M@(), bt.@M@(), mt.@M@(), au.@M@(), at.@P@(), bt.@P@(), mt.@P@(), au.@P@())
	println(ak.@M@(), bk.@M@(), ak.@P@(), bk.@P@())
	println("=== iface")
	for _, i := range []@DA@.I{at, bt, mt, au, &at, &bt, &mt, &au, ak, bk, &ak, &bk} {
		println(i.@M@())
	}
	println("=== closures")
	println(@DA@.F()(), at.C(), at.D())
	println("=== generics")
	gi := @DA@.G[int]{V: 1}
	gi.Set(4)
	println(gi.Get())
	gt := @DA@.G[@T@]{}
	gt.Set(mt)
	println(gt.Get().N)
	gb := @DA@.G[*@DB@.@T@]{}
	gb.Set(&bt)
	println(gb.Get().N)
	gs := @DA@.G[[]@T@]{}
	gs.Set([]@T@{mt})
	println(len(gs.Get()))
	gm := @DA@.G[map[string]AL]{}
	gm.Set(nil)
	println(len(gm.Get()))
	gg := @DA@.G[@DA@.G[int]]{}
	gg.Set(gi)
	println(gg.Get().V)
	hh := @DA@.H[int, @DB@.@T@]{A: 1}
	println(hh.Both())
	println(Local0(), Local1(), Local2())
	println(@DA@.Map(1, func(x int) AL { println("main.main$1"); return AL{N: x} }).N)
	println(@DB@.UseMap(), @DB@.UseG())
	println(@DA@.Map("s", func(x string) [2]@T@ { println("main.main$2"); return [2]@T@{{N: 8}} })[0].N)
	println("=== generic-shared")
	println(@DB@.BoxUse(), @DC@.BoxUse(), BoxUse())
	println("=== same-pkgname")
	{
		xa, _ := @DA@.Box(amodel.Item{ID: 7}, nil)
		xb, _ := @DA@.Box(bmodel.Item{ID: 7}, nil)
		xi, _ := @DA@.Box(7, nil)
		_, aIsA := @DA@.Box(amodel.Item{}, xa)
		_, bIsA := @DA@.Box(amodel.Item{}, xb)
		_, aIsB := @DA@.Box(bmodel.Item{}, xa)
		_, bIsB := @DA@.Box(bmodel.Item{}, xb)
		_, iIsA := @DA@.Box(amodel.Item{}, xi)
		_, iIsI := @DA@.Box(0, xi)
		println("box a:", aIsA, bIsA, "box b:", aIsB, bIsB, "box int:", iIsA, iIsI)
		println("a == b:", xa == xb, "a == a:", xa == xa)
		ca, cb := @DC@.ModelUse()
		println("c.a == main.a:", ca == xa, "c.b == main.b:", cb == xb, "c.a == main.b:", ca == xb, "c.b == main.a:", cb == xa)
		println(@DA@.Size(amodel.Item{}), @DA@.Size(bmodel.Item{}))
		ga := @DA@.G[amodel.Item]{}
		ga.Set(amodel.Item{ID: 1})
		gb := @DA@.G[bmodel.Item]{}
		gb.Set(bmodel.Item{ID: 2, Tag: "m"})
		println(ga.Get().ID, gb.Get().ID, gb.Get().Tag)
	}
	println("=== variadic")
	{
		var fv any = sum
		var fs any = func(xs []int) int { println("main.main$3"); return len(xs) }
		_, v1 := fv.(func(...int) int)
		_, v2 := fv.(func([]int) int)
		_, s1 := fs.(func(...int) int)
		_, s2 := fs.(func([]int) int)
		println(v1, v2, s1, s2, fv.(func(...int) int)(1, 2, 3), fs.(func([]int) int)(nil))
		for _, f := range []any{fv, fs} {
			switch f.(type) {
			case func([]int) int:
				println("slice")
			case func(...int) int:
				println("variadic")
			}
		}
	}
	println("=== goroutines")
	c := make(chan int)
	@DA@.Spawn(c)
	go gofn(5, c)
	<-c
	go func() { println("main.main$4"); c <- 1 }()
	<-c
	println("=== wrappers-local")
	f3 := mt.@M@
	g3 := (*@T@).@P@
	h3 := @T@.@M@
	println(f3(), g3(&mt), h3(mt), @DA@.Wrap())
	println("=== globals")
	println(@DA@.Glob, @DB@.Glob, glob)
	println("=== known:wrapper-name-drops-receiver-package")
	f1, f2 := ak.@M@, bk.@M@
	println(f1(), f2())
	g1, g2 := (*@DA@.K).@P@, (*@DB@.K).@P@
	println(g1(&ak), g2(&bk))
	println("=== known:generic-local-type-arg-merged")
	@DA@.LF(int8(1))
	@DA@.LF(int64(2))
	println("=== end")
}
'''

MODEL_A_GO = '''package model

type Item struct{ ID int }
'''

MODEL_B_GO = '''package model

type Item struct {
	ID  int
	Tag string
}
'''

F10_A = '''package @A@

type @B@ struct{ n int }

func (v @B@) @C@() int { println("pkg a: type b method c"); return v.n + 1 }

func Call() int { return @B@{1}.@C@() }
'''

F10_AB = '''package ab

func @C@() int { println("pkg a.b: func c"); return 40 }

func Call() int { return @C@() }
'''

F10_MAIN = '''package main

import (
	"@MOD@/@A@"
	ab "@MOD@/@A@.@B@"
)

func main() {
	println(@A@.Call())
	println(ab.Call())
}
'''
