
	// (3) ssa.FuncName on generated entities; the name argument is composed the way
	// cl/import.go funcName composes it (go/ssa Function.Name + TypeArgs of instances)
	closPool := [][]int{nil, nil, {1}, {2}, {1, 1}, {1, 2}, {10}, {3, 1, 2}}
	closStr := func(cl []int) string {
		s := ""
		for _, i := range cl {
			s += "$" + strconv.Itoa(i)
		}
		return s
	}
	recvOf := func(rpkg string) (*c14ty, types.Type) {
		rt := &c14ty{K: c14Named, HasPkg: true, Pkg: rpkg}
		switch g.r.n(4) {
		case 0:
			rt.Name = c14gnames[g.r.n(2)]
			rt.Targs = []*c14ty{g.ty(2)}
			if rt.Name == "H" {
				rt.Targs = append(rt.Targs, g.ty(2))
			}
		default:
			rt.Name = g.r.pick(c14tnames)
		}
		return rt, w.conv(rt)
	}
	for i := 0; i < n*3; i++ {
		p := c14paths[g.r.n(len(c14paths))]
		pkg := w.pkg(p)
		cl := closPool[g.r.n(len(closPool))]
		switch g.r.n(8) {
		case 0, 1: // function, closure, instance
			base := g.r.pick(c14idents)
			var ts []*c14ty
			name := base + closStr(cl)
			if g.r.n(3) == 0 {
				k := 1 + g.r.n(2)
				tt := make([]types.Type, k)
				for j := 0; j < k; j++ {
					ts = append(ts, g.ty(2))
					tt[j] = w.conv(ts[j])
				}
				name += TypeArgs(tt)
			}
			enc.Encode(map[string]any{"kind": "fn", "class": "func", "got": FuncName(pkg, name, nil, false),
				"ent": map[string]any{"k": "func", "pkg": p, "name": base, "clos": cl, "targs": c14targs(ts)}})
		case 2, 3, 4: // method (declared in the receiver's package), closure in method
			rt, typ := recvOf(p)
			ptr := g.r.n(2) == 0
			m := g.r.pick(c14idents)
			name := m + closStr(cl)
			if len(cl) > 0 && len(rt.Targs) > 0 {
				named := typ.(*types.Named)
				tt := make([]types.Type, named.TypeArgs().Len())
				for j := range tt {
					tt[j] = named.TypeArgs().At(j)
				}
				name += TypeArgs(tt)
			}
			cls := "method"
			rtyp := typ
			if g.r.n(5) == 0 { // receiver spelled through an alias
				rtyp = types.NewAlias(types.NewTypeName(token.NoPos, pkg, "Al", nil), typ)
				cls = "method-alias-recv"
			}
			if ptr {
				rtyp = types.NewPointer(rtyp)
			}
			recv := types.NewVar(token.NoPos, pkg, "r", rtyp)
			enc.Encode(map[string]any{"kind": "fn", "class": cls, "got": FuncName(pkg, name, recv, false),
				"ent": map[string]any{"k": "method", "pkg": p, "ptr": ptr, "tname": rt.Name, "rtargs": c14targs(rt.Targs), "name": m, "clos": cl}})
			if len(cl) == 0 { // org = true: the generic origin is named without type arguments
				enc.Encode(map[string]any{"kind": "fn", "class": "method-org", "got": FuncName(pkg, m, recv, true),
					"ent": map[string]any{"k": "method", "pkg": p, "ptr": ptr, "tname": rt.Name, "rtargs": "TsNil", "name": m, "clos": cl}})
			}
		case 5, 6: // thunk / bound wrapper compiled into package p for a type of package rp
			rp := c14paths[g.r.n(len(c14paths))]
			rt, typ := recvOf(rp)
			ptr := g.r.n(2) == 0
			if ptr {
				typ = types.NewPointer(typ)
			}
			m := g.r.pick(c14idents)
			wk := []string{"thunk", "bound"}[g.r.n(2)]
			recv := types.NewVar(token.NoPos, nil, "", typ)
			enc.Encode(map[string]any{"kind": "fn", "class": "wrap-" + wk, "got": FuncName(pkg, m+"$"+wk, recv, false),
				"ent": map[string]any{"k": "wrap", "pkg": p, "wk": wk, "rpkg": rp, "ptr": ptr, "tname": rt.Name, "rtargs": c14targs(rt.Targs), "name": m}})
		default:
			if g.r.n(2) == 0 {
				v := g.r.pick(c14idents)
				enc.Encode(map[string]any{"kind": "fn", "class": "global", "got": FullName(pkg, v),
					"ent": map[string]any{"k": "global", "pkg": p, "name": v}})
			} else {
				k := 1 + g.r.n(12)
				enc.Encode(map[string]any{"kind": "fn", "class": "init", "got": FuncName(pkg, "init#"+strconv.Itoa(k), nil, false),
					"ent": map[string]any{"k": "init", "pkg": p, "n": k}})
			}
		}
	}

	// (4) boundary pairs: a dotted last path element next to the package it shadows (F10)
	for _, q := range [][3]string{{"x/a", "b", "c"}, {"x/a", "T", "M"}, {"gopkg.in/yaml", "v3", "F"}, {"x", "y", "init"}, {"github.com/u/p", "v2", "Get"}} {
		dotted := q[0] + "." + q[1]
		enc.Encode(map[string]any{"kind": "fn", "class": "f10-func", "got": FuncName(w.pkg(dotted), q[2], nil, false),
			"ent": map[string]any{"k": "func", "pkg": dotted, "name": q[2], "clos": nil, "targs": "TsNil"}})
		rt := &c14ty{K: c14Named, HasPkg: true, Pkg: q[0], Name: q[1]}
		recv := types.NewVar(token.NoPos, w.pkg(q[0]), "r", w.conv(rt))
		enc.Encode(map[string]any{"kind": "fn", "class": "f10-method", "got": FuncName(w.pkg(q[0]), q[2], recv, false),
			"ent": map[string]any{"k": "method", "pkg": q[0], "ptr": false, "tname": q[1], "rtargs": "TsNil", "name": q[2], "clos": nil}})
		enc.Encode(map[string]any{"kind": "fn", "class": "f10-global", "got": FullName(w.pkg(dotted), q[2]),
			"ent": map[string]any{"k": "global", "pkg": dotted, "name": q[2]}})
	}


	// (5) generic functions, closures in them and methods of generic receivers instantiated with the
	// boundary pairs of (5) above: the entities differ only in the type argument
	for vn, xs := range variants {
		for sn, sh := range shapes {
			for _, x := range xs {
				t := sh(x)
				tt := []types.Type{w.conv(t)}
				cls := "pair:" + vn + ":" + sn
				pg := w.pkg("x/g")
				enc.Encode(map[string]any{"kind": "fn", "class": cls, "got": FuncName(pg, "F"+TypeArgs(tt), nil, false),
					"ent": map[string]any{"k": "func", "pkg": "x/g", "name": "F", "clos": nil, "targs": c14targs([]*c14ty{t})}})
				enc.Encode(map[string]any{"kind": "fn", "class": cls, "got": FuncName(pg, "F$1"+TypeArgs(tt), nil, false),
					"ent": map[string]any{"k": "func", "pkg": "x/g", "name": "F", "clos": []int{1}, "targs": c14targs([]*c14ty{t})}})
				rt := &c14ty{K: c14Named, HasPkg: true, Pkg: "x/g", Name: "G", Targs: []*c14ty{t}}
				for _, ptr := range []bool{false, true} {
					rtyp := w.conv(rt)
					if ptr {
						rtyp = types.NewPointer(rtyp)
					}
					recv := types.NewVar(token.NoPos, pg, "r", rtyp)
					enc.Encode(map[string]any{"kind": "fn", "class": cls, "got": FuncName(pg, "Get", recv, false),
						"ent": map[string]any{"k": "method", "pkg": "x/g", "ptr": ptr, "tname": "G", "rtargs": c14targs(rt.Targs), "name": "Get", "clos": nil}})
				}
			}
		}
	}
