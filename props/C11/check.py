"""C11 - semaphores and notify lists behind sync keep their guarantees under contention.

Vehicle: the schedule-indexed correspondence of C10 (same harness scheduler):
sema_llgo.go is copied from the working tree into a scratch module and compiled against
instrumented stand-ins for pthread/sync and sync/atomic (every atomic operation, Lock,
Wait, Signal, Broadcast yields to the scheduler).  The Coq model (C11/Model.v) must
predict enabled/parked sets after every step, completed calls, tickets and final
counters.  Property oracles on the real code: semaphore count, no blocked acquire with a
positive count, Cond.Wait returns only when its ticket has been notified.  Supporting
check: an end-to-end program (sync.Mutex/RWMutex/WaitGroup/Once/atomic counters)
compiled by llgo against the reference toolchain."""
import json, os, re, sys, collections
from concurrent.futures import ThreadPoolExecutor
import vlib
from vlib import coq_list

HERE = os.path.dirname(os.path.abspath(__file__))
sys.path.insert(0, os.path.join(os.path.dirname(HERE), "C10"))
import ccmod, shutil

H = os.path.join(HERE, "harness")

# witness schedules of *_refuted theorems, replayed on the real code on every run.
# None at present: F7 (notifyListWait) and the semaAcquire lost wake-up are repaired; their
# former schedules are Examples in coq/theories/C11/Props.v.
WITNESSES = []

SOP = {"A": "SAcq", "R": "SRel"}
NOP = {"W": "NWait", "S": "NOne", "B": "NAll"}


def coq_sched(sc):
    return coq_list(["(%d%%nat,%d%%nat)" % (a, b) for a, b in sc])


def coq_input(m, init, progs, sched):
    tab = SOP if m == "sema" else NOP
    return "(%d, %s, %s)" % (init, coq_list([coq_list([tab[c] for c in p]) for p in progs]), coq_sched(sched))


def case_term(r):
    inp = coq_input(r["m"], r["init"], r["progs"], r["sched"])
    masks = coq_list(["(%d,%d)" % (a, b) for a, b in r["masks"]])
    done = "[" + ";".join("%d%%nat" % x for x in r["done"]) + "]"
    if r["m"] == "sema":
        obs = "(%s, %s, (%d, %d))" % (masks, done, r["fin"][0], r["fin"][1])
    else:
        tk = coq_list(["[" + ";".join(str(x) for x in t) + "]" for t in r["tickets"]])
        obs = "(%s, %s, %s, (%d, %d))" % (masks, done, tk, r["fin"][0], r["fin"][1])
    ti, to = ("N * list (list sop) * sschedule", "sobservation") if r["m"] == "sema" else ("N * list (list nop) * sschedule", "nobservation")
    return "((%s : %s), (%s : %s))" % (inp, ti, obs, to)


# ---------------------------------------------------------------- T2: lowering of sync/atomic
ATYPES = [  # Go type name in sync/atomic function names, operand type, width on a 64-bit / 32-bit target
    ("Int32", "int32", "W32", "W32"), ("Int64", "int64", "W64", "W64"),
    ("Uint32", "uint32", "W32", "W32"), ("Uint64", "uint64", "W64", "W64"),
    ("Uintptr", "uintptr", "W64", "W32"), ("Pointer", "unsafe.Pointer", "WPtr", "WPtr"),
]
AOPS = [  # Go name, Coq constructor, has a Pointer variant
    ("Load", "ALoad", True), ("Store", "AStore", True), ("Add", "AAdd", False), ("Swap", "ASwap", True),
    ("CompareAndSwap", "ACas", True), ("And", "AAnd", False), ("Or", "AOr", False),
]
IRW = {"i32": "W32", "i64": "W64", "ptr": "WPtr"}
ORD = {"unordered": "OUnordered", "monotonic": "OMonotonic", "acquire": "OAcquire", "release": "ORelease",
       "acq_rel": "OAcqRel", "seq_cst": "OSeqCst"}


def gen_atomic_pkg():
    """a package that calls every sync/atomic function; returns (source, [(ir function name, Go name, op, type index)])"""
    lines = ["package main", "", "import (", '	"sync/atomic"', '	"unsafe"', ")", ""]
    fns = []
    for gop, cop, hasptr in AOPS:
        for ti, (tn, ty, _, _) in enumerate(ATYPES):
            if tn == "Pointer" and not hasptr:
                continue
            name = "f_%s_%s" % (gop, tn)
            call = "atomic.%s%s" % (gop, tn)
            if gop == "Load":
                lines.append("func %s(p *%s) %s { return %s(p) }" % (name, ty, ty, call))
            elif gop == "Store":
                lines.append("func %s(p *%s, v %s) { %s(p, v) }" % (name, ty, ty, call))
            elif gop == "CompareAndSwap":
                lines.append("func %s(p *%s, o, n %s) bool { return %s(p, o, n) }" % (name, ty, ty, call))
            else:
                lines.append("func %s(p *%s, v %s) %s { return %s(p, v) }" % (name, ty, ty, ty, call))
            fns.append(("verifprog." + name, call, cop, ti))
    # typed values: the methods live in package sync/atomic (its IR is printed too);
    # Pointer[T] is generic and is instantiated here
    lines += ["", "type cell struct{ a int }", "var gp atomic.Pointer[cell]",
              "func m_ptr(c *cell) (*cell, *cell, bool) {", "\tgp.Store(c)", "\to := gp.Swap(c)",
              "\treturn gp.Load(), o, gp.CompareAndSwap(c, c)", "}",
              "var gi32 atomic.Int32; var gi64 atomic.Int64; var gu32 atomic.Uint32; var gu64 atomic.Uint64; var gup atomic.Uintptr; var gb atomic.Bool",
              "func m_use() {", "\tgi32.Add(1); gi64.Add(1); gu32.Add(1); gu64.Add(1); gup.Add(1); gb.Store(true)", "}",
              "", "func main() {}", ""]
    for tn, _, _, _ in ATYPES[:5]:
        ti = [x[0] for x in ATYPES].index(tn)
        for gop, cop, _ in AOPS:
            fns.append(("sync/atomic.(*%s).%s" % (tn, gop), "atomic.%s.%s" % (tn, gop), cop, ti))
    for gop, cop in (("Load", "ALoad"), ("Store", "AStore"), ("Swap", "ASwap"), ("CompareAndSwap", "ACas")):
        fns.append(("sync/atomic.(*Bool).%s" % gop, "atomic.Bool.%s" % gop, cop, 2))   # a uint32 underneath
        fns.append(("sync/atomic.(*Pointer[verifprog.cell]).%s" % gop, "atomic.Pointer[T].%s" % gop, cop, 5))
    return "\n".join(lines), fns


def split_ir(ir):
    fns, cur = {}, None
    for line in ir.splitlines():
        m = re.match(r'define\s.*?@("[^"]+"|[\w.$]+)\(', line)
        if m:
            cur = (m.group(1).strip('"'), [])
            continue
        if cur is not None:
            if line.startswith("}"):
                fns[cur[0]] = cur[1]
                cur = None
            else:
                cur[1].append(line)
    return fns


def atomic_instrs(body):
    """[(Coq instruction, Coq width or None, [Coq orderings], text)] of every atomic instruction of a function body"""
    res = []
    ords = "|".join(ORD)
    for line in body:
        t = line.split(";")[0].strip()
        m = re.search(r"\bload atomic (?:volatile )?(\w+), ptr [^ ]+ (?:syncscope\(\S+\) )?(%s)\b" % ords, t)
        if m:
            res.append(("ILoadAtomic", IRW.get(m.group(1)), [ORD[m.group(2)]], t))
            continue
        m = re.search(r"\bstore atomic (?:volatile )?(\w+) [^,]+, ptr [^ ]+ (?:syncscope\(\S+\) )?(%s)\b" % ords, t)
        if m:
            res.append(("IStoreAtomic", IRW.get(m.group(1)), [ORD[m.group(2)]], t))
            continue
        # LLVM 14 prints a pointer-typed operand of atomicrmw without its type ("atomicrmw xchg ptr %0, %1 seq_cst")
        m = re.search(r"\batomicrmw (?:volatile )?(\w+) ptr [^,]+, (?:(\w+) )?[^ ]+ (?:syncscope\(\S+\) )?(%s)\b" % ords, t)
        if m:
            ins = {"add": "IRmwAdd", "xchg": "IRmwXchg", "and": "IRmwAnd", "or": "IRmwOr"}.get(m.group(1))
            res.append((ins, IRW.get(m.group(2) or "ptr"), [ORD[m.group(3)]], t))
            continue
        # (LLVM 14 prints pointer-typed operands of cmpxchg without their type, too)
        m = re.search(r"\bcmpxchg (?:weak )?(?:volatile )?ptr [^,]+, (?:(i\d+) )?.*?(?:syncscope\(\S+\) )?\b(%s) (%s)(?:, align \d+)?$" % (ords, ords), t)
        if m:
            res.append(("ICmpXchg", IRW.get(m.group(1) or "ptr"), [ORD[m.group(2)], ORD[m.group(3)]], t))
            continue
        if re.search(r"(?:^|=\s)(?:load atomic|store atomic|atomicrmw|cmpxchg)\s", t):
            res.append((None, None, [], t))      # an atomic instruction this parser does not understand
    return res


def t2_atomics(ck, L, acts):
    rc, out, gen = L.overlay_build("chore/verifgen", {"main.go": os.path.join(vlib.ROOT, "lib", "verifgen", "main.go")}, "verifgen")
    if rc != 0:
        acts.append(("broken", ("t2-atomics:verifgen-build", out[-1500:])))
        return
    import e2e
    src, fns = gen_atomic_pkg()
    d = os.path.join(ck.work, "c11atomics")
    e2e.write_module(d, {"main.go": src})
    nfn = nins = 0
    # (a 32-bit target cannot be emitted here: build.Do assembles the imported sync/atomic for it and
    # LLVM 14 cannot re-read its own untyped "atomicrmw xchg ptr %0, %1")
    for target, wcol, flags, pw in (("amd64", 2, [], "W64"),):
        # the generated package, and (64-bit target) package sync/atomic itself for the typed methods;
        # for the 32-bit target only the generated package can be emitted (build.Do wants to assemble
        # sync/atomic there, and LLVM 14 cannot re-read its own "atomicrmw xchg ptr %0, %1")
        with ThreadPoolExecutor(2) as tp:
            f1 = tp.submit(vlib.sh, [gen] + flags + ["."], d, L.env(), 600)
            f2 = tp.submit(vlib.sh, [gen] + flags + ["sync/atomic"], d, L.env(), 600)
            (rc, ir), (rc2, ir2) = f1.result(), f2.result()
        if rc == 0:
            rc, ir = rc2, (ir + "\n" + ir2 if rc2 == 0 else ir2)
        if rc != 0:
            acts.append(("broken", ("t2-atomics:verifgen-run-" + target, ir[-1500:])))
            continue
        bodies = split_ir(ir)
        tfns = [f for f in fns if target == "amd64" or f[0].startswith("verifprog.") or "Pointer[" in f[0]]
        terms, info = [], []
        for irname, goname, cop, ti in tfns:
            body = bodies.get(irname)
            if body is None:
                acts.append(("broken", ("t2-atomics:function-missing-in-ir", "%s (%s, %s)" % (irname, goname, target))))
                continue
            ins = atomic_instrs(body)
            if any(i[0] is None or i[1] is None for i in ins):
                acts.append(("broken", ("t2-atomics:unparsed-atomic-instruction", [i[3] for i in ins if i[0] is None or i[1] is None][:3])))
                continue
            w = ATYPES[ti][wcol]
            terms.append("(%s, %s, %s)" % (cop, w, coq_list(["(%s, %s, %s)" % (i, iw, coq_list(o)) for i, iw, o, _ in ins])))
            info.append((goname, target, cop, w, [i[3] for i in ins]))
            nins += len(ins)
        nfn += len(terms)
        keyed = {f[0] for f in fns}
        for fname, body in bodies.items():
            if fname in keyed:
                continue
            for i, iw, o, txt in atomic_instrs(body):
                if i is None or any(x != "OSeqCst" for x in o):
                    acts.append(("viol", ("atomic-instruction-not-seq-cst", "function %s (%s) contains the atomic instruction `%s`: every sync/atomic operation must be seq_cst"
                                          % (fname, target, txt), {"function": fname, "target": target, "instruction": txt})))
                nins += 1
        text = ("From LLGoV Require Import Lib.Common C11.Model.\nDefinition obs : list observed_fn := " + coq_list(terms) +
                ".\nDefinition BAD := Eval vm_compute in bad_lowerings " + pw + " 0%N obs.\nPrint BAD.\n"
                "Definition MISSING := Eval vm_compute in missing_keys obs.\nPrint MISSING.\n")
        rc, out = ck.coq_run(text, "c11_atomics_" + target)
        mb = re.search(r"BAD\s*=\s*\[(.*?)\]\s*:", out, re.S)
        mm = re.search(r"MISSING\s*=\s*\[(.*?)\]\s*:", out, re.S)
        if rc != 0 or not mb or not mm:
            acts.append(("broken", ("t2-atomics:coq-eval-" + target, out[-1200:])))
            continue
        for ix in (int(x) for x in re.findall(r"\d+", mb.group(1))):
            goname, tg, cop, w, texts = info[ix]
            bad_ord = [t for t in texts if "seq_cst" not in t or re.search(r"\b(monotonic|acquire|release|acq_rel|unordered)\b", t)]
            key = "atomic-lowering-not-seq-cst" if bad_ord else "atomic-lowering-differs-from-table"
            acts.append(("viol", (key, "sync/%s on %s is lowered to %s; the table atomic_lowering %s %s requires the single instruction kind of the table with seq_cst ordering only"
                                  % (goname, tg, texts if texts else "no atomic instruction at all", cop, w),
                                  {"function": goname, "target": tg, "instructions": texts})))
        if mm.group(1).strip():
            acts.append(("broken", ("t2-atomics:api-keys-not-exercised-" + target, mm.group(1).strip())))
    acts.append(("cov_t2", "%d functions / methods (amd64), %d atomic instructions compared with atomic_lowering inside Coq" % (nfn, nins)))
    acts.append(("count", nfn))


def e2e_program(ck, L, acts, name, srcfile, runs, keyprefix, timeout=90, hang_is_violation=True):
    """compile one program with llgo and with go, run the llgo binary `runs` times, compare line by line"""
    import e2e
    d = os.path.join(ck.work, name)
    e2e.write_module(d, {"main.go": open(os.path.join(H, "e2e", srcfile)).read()}, name)
    rc, out = L.build(d, os.path.join(d, "prog_llgo"))
    if rc != 0:
        acts.append(("log", "e2e: llgo build of %s failed: %s" % (name, out[-600:])))
        acts.append(("cov", "%s skipped: llgo could not compile the program" % name))
        return
    rc2, out2 = e2e.go_build(d, os.path.join(d, "prog_go"))
    rcg, _, want = e2e.run_plain(os.path.join(d, "prog_go"), timeout=timeout)
    if rc2 != 0 or rcg != 0:
        acts.append(("log", "e2e: reference build/run of %s failed %s" % (name, out2[-300:])))
        acts.append(("cov", "%s skipped: reference build failed" % name))
        return
    ndiff = nrun = 0
    wl = want.strip().split("\n")
    for i in range(runs):          # the result must not depend on the OS schedule
        rc1, _, got = L.run_bin(os.path.join(d, "prog_llgo"), timeout=timeout)
        nrun += 1
        gl = got.strip().split("\n")
        if rc1 == 124 and not hang_is_violation:   # spinning litmus on an oversubscribed machine
            acts.append(("log", "e2e: %s did not finish within %d s (machine load); not counted" % (name, timeout)))
            nrun -= 1
            break
        if rc1 == 124:
            acts.append(("viol", (keyprefix + "-hang", "llgo-compiled program %s did not finish within %d s" % (name, timeout), {"stderr_tail": got[-600:]})))
            break
        if rc1 != 0 or len(gl) != len(wl):
            acts.append(("viol", (keyprefix + "-run", "llgo-compiled program %s: exit %d, %d lines (go: %d)" % (name, rc1, len(gl), len(wl)), {"stderr_tail": got[-600:]})))
            break
        for a, b in zip(gl, wl):
            if a != b:
                ndiff += 1
                acts.append(("viol", (keyprefix + "-" + b.split(" ")[0], "llgo prints %r, go prints %r" % (a, b), {"llgo": a, "go": b})))
    acts.append(("cov", "%s: %d runs x %d lines compared, %d differ" % (name, nrun, len(wl), ndiff)))
    acts.append(("count", nrun * len(wl)))


def e2e_part(ck):
    """llgo built from the working tree: T2 obligation on sync/atomic, then the (E) supporting programs.
    Runs in a worker thread; returns actions applied by the caller."""
    import e2e
    acts = []
    L = e2e.LLGo(ck)
    if not L.ok:
        return [("broken", ("t2-atomics:llgo-build", L.buildlog[-1500:]))]
    t2_atomics(ck, L, acts)
    # goroutines + sync.Mutex/WaitGroup/Once/Cond/atomic counters, and a store-buffering litmus
    # for sync/atomic (last line, key e2e-sync-SB)
    e2e_program(ck, L, acts, "c11e2e", "main.go.txt", 2, "e2e-sync")
    return acts


def run(ck):
    ck.trusted = ["Coq 8.16.1 kernel (coqc, vm_compute)",
                  "harness scheduler props/C10/harness/vsched + stand-ins psync / patomic (atomics are indivisible scheduling points)",
                  "hand-written model coq/theories/C11/Model.v tied to sema_llgo.go by the schedule-indexed correspondence",
                  "lib/verifgen (driver around internal/build.Do) and the syntactic extraction of atomic instructions in props/C11/check.py",
                  "reference go toolchain for the end-to-end programs"]
    ck.assumptions = ["pthread mutex/condition variables behave as Mesa monitors; Signal wakes exactly one waiter if there is one",
                      "the LLVM atomic instructions (load atomic / store atomic / atomicrmw / cmpxchg with seq_cst) are indivisible and totally ordered - LLVM's and the CPU's guarantee; that every sync/atomic operation IS lowered to such an instruction is the T2 obligation checked on every run",
                      "one semaphore address / one notify list per execution; the stdlib clients (Mutex, RWMutex, WaitGroup, Once, Cond) are Go's unchanged code and appear only in the end-to-end smoke test"]
    ck.coq_build("C11")
    ck.coq_props("LLGoV.C11.Props", "theories/C11/Props.v")
    ck.phase("coq built")

    ex = ThreadPoolExecutor(1)
    fut = ex.submit(e2e_part, ck)

    d = ccmod.make_module(ck)
    os.makedirs(os.path.join(d, "patomic"))
    shutil.copy(os.path.join(H, "patomic", "atomic.go"), os.path.join(d, "patomic", "atomic.go"))
    ccmod.add_pkg(d, "rt11", os.path.join(H, "rt11"), ["runtime/internal/lib/runtime/sema_llgo.go"], drop_linkname=True)
    # atomic.Value: value.go copied next to stand-ins for the pointer atomics, its own harness
    ccmod.add_pkg(d, "av", os.path.join(H, "av"), ["runtime/internal/lib/sync/atomic/value.go"], drop_linkname=True)
    vout_p = os.path.join(ck.work, "c11v.jsonl")
    vfut = ThreadPoolExecutor(1).submit(ccmod.go_test, ck, d, "av", {"VERIF_OUT": vout_p, "VERIF_N": {"quick": "600", "thorough": "20000"}[ck.tier]}, 600)
    win = os.path.join(ck.work, "witness.json")
    json.dump([{"Name": n, "M": m, "Init": i, "Progs": p, "Sched": sc} for n, m, i, p, sc in WITNESSES], open(win, "w"))
    out = os.path.join(ck.work, "c11.jsonl")
    nrand = {"quick": 1000, "thorough": 20000}[ck.tier]
    rc, log = ccmod.go_test(ck, d, "rt11", {"VERIF_OUT": out, "VERIF_N": str(nrand), "VERIF_IN": win},
                            timeout=240 if ck.tier == "quick" else 1700)
    ck.phase("harness ran")
    if rc != 0 or not os.path.exists(out):
        ck.correspondence_broken("harness:sema_llgo.go", log[-2000:])
        return ck.finish()
    runs, viols, wit, stats = [], [], [], {}
    for line in open(out):
        r = json.loads(line)
        k = r["kind"]
        if k == "run":
            runs.append(r)
        elif k == "viol":
            viols.append(r)
        elif k == "witness":
            wit.append(r)
        elif k == "stat":
            stats.update(r)
    for v in viols:
        ck.violation(v["key"], v.get("what", ""), {k: v[k] for k in ("m", "init", "progs", "sched", "end", "history")})
    for w in wit:
        if not w["replayed"] or not w["flagged"]:
            ck.log("witness %s no longer reproduces on the real code (defect repaired?)" % w["name"])
    body = "From LLGoV Require Import Lib.Common C11.Model C11.Proofs.\nLocal Open Scope N_scope.\n"
    for name, m, init, progs, sched in WITNESSES:
        body += "Goal %s = %s. Proof. reflexivity. Qed.\n" % (name, coq_input(m, init, progs, sched))
    rcw, outw = ck.coq_run(body, "c11_witness")
    if rcw != 0:
        ck.correspondence_broken("C11.witnesses", outw[-800:])

    lim = {"quick": 10 ** 9, "thorough": 50000}[ck.tier]
    ck.cov["schedules_executed_and_judged_by_oracle"] = len(runs)
    if len(runs) > lim:      # model evaluation inside Coq on a seeded sample (the oracle judged all of them)
        runs = runs[:len(WITNESSES)] + ck.rng.sample(runs[len(WITNESSES):], lim - len(WITNESSES))
    ck.cov["schedules_compared_with_model_in_coq"] = len(runs)
    hdr = "From LLGoV Require Import Lib.Common C11.Model.\nLocal Open Scope N_scope.\n"
    for m, fobs, feq in (("sema", "s_observe", "sobs_eqb"), ("notify", "n_observe", "nobs_eqb")):
        sub = [r for r in runs if r["m"] == m]
        bad = ck.coq_mismatches(hdr, [case_term(r) for r in sub], fobs, feq, "c11_" + m, shard=250)
        if bad:
            b = sub[bad[0]]
            ck.correspondence_broken("C11.Model/" + m, {"n_mismatch": len(bad), "first": {
                k: b[k] for k in ("m", "init", "progs", "sched", "masks", "done", "fin", "end")}})
    # machine V (atomic.Value)
    rcv, logv = vfut.result()
    vruns = []
    if rcv != 0 or not os.path.exists(vout_p):
        ck.correspondence_broken("harness:value.go", logv[-1500:])
    else:
        for line in open(vout_p):
            r = json.loads(line)
            if r["kind"] == "run":
                vruns.append(r)
            elif r["kind"] == "viol":
                ck.violation(r["key"], r.get("what", ""), {k: r[k] for k in ("progs", "sched", "end", "history")})
        if len(vruns) > lim:
            vruns = ck.rng.sample(vruns, lim)

        def vterm(r):
            progs = coq_list([coq_list([("VLoad" if c == "L" else "(VStore %s)" % c) for c in p]) for p in r["progs"]])
            res = coq_list([coq_list([("VRStore" if x == -1 else "VRNil" if x == 0 else "(VRVal %d)" % max(x, 0)) for x in (th or [])]) for th in r["res"]])
            return "(((%s, %s) : list (list vop) * list nat), ((%s, %s, (%d, %d)) : vobservation))" % (
                progs, "[" + ";".join("%d%%nat" % t for t in r["sched"]) + "]",
                "[" + ";".join(str(m) for m in r["masks"]) + "]", res, r["fin"][0], r["fin"][1])
        vbad = ck.coq_mismatches(hdr, [vterm(r) for r in vruns], "v_observe", "vobs_eqb", "c11_value", shard=300)
        if vbad:
            b = vruns[vbad[0]]
            ck.correspondence_broken("C11.Model/value", {"n_mismatch": len(vbad), "first": {k: b[k] for k in ("progs", "sched", "masks", "res", "fin", "end")}})
    ck.cov["value_runs"] = len(vruns)
    ck.phase("model compared")

    covs = []
    for kind, arg in fut.result():
        if kind == "viol":
            ck.violation(*arg)
        elif kind == "broken":
            ck.correspondence_broken(*arg)
        elif kind == "log":
            ck.log(arg)
        elif kind == "cov":
            covs.append(arg)
        elif kind == "cov_t2":
            ck.cov["t2_atomic_lowering"] = arg
        elif kind == "count":
            ck.cov["evaluations"] += arg
    ck.cov["e2e_smoke"] = covs
    ck.phase("e2e smoke done")

    distinct = len({(r["m"], r["init"], tuple(r["progs"]), json.dumps(r["sched"])) for r in runs if len(r["sched"]) > 4})
    samples = [{k: r[k] for k in ("m", "init", "progs", "sched", "done", "fin", "end")} for r in runs[len(runs) // 3: len(runs) // 3 + 2]]
    ck.add_cov(evaluations=len(runs) + len(vruns), nontrivial=distinct + len({(tuple(r["progs"]), tuple(r["sched"])) for r in vruns}), samples=samples, classes=stats.get("classes", {}))
    ck.cov["steps_executed_on_real_code"] = sum(len(r["sched"]) for r in runs)
    ck.cov["witness_replays"] = [{"name": w["name"], "end": w["end"], "flagged": w["flagged"]} for w in wit]
    ck.cov["rule"] = ("explicit schedules executed on the real sema_llgo.go (goroutines gated at every atomic operation, Lock, Wait, Signal, "
                      "Broadcast; Signal's choice of waiter is part of the schedule): DFS with state pruning over the interleavings of the "
                      "systematic configurations (complete in the thorough tier, the first 20-80 DFS paths per configuration in the quick tier) (semaphore: 2 threads x <=2 ops, 3 x 1, initial value 0/1; notify list: 2 x <=2, 3 x 1, counters "
                      "starting at 0 and at 2^32-1) + random schedules of random configurations (2-4 threads, 1-3 ops, counters near 2^32); "
                      "+ ALL interleavings at operation granularity (run a thread until its call returns or blocks; both Signal choices) of the back-to-back configurations [Acq][Acq][Rel;Rel], [Acq][Acq][Rel][Rel], [Acq;Rel]x3, [Wait][Wait][One;One], [Wait][Wait][One][One], [Wait]x3[All], [Wait][Wait][One;All] at 2^32-1; "
                      "each executed schedule is one case for the model and for the property oracles. T2: IR of every sync/atomic function and typed method vs the Coq table atomic_lowering")
    return ck.finish()
